(* C36 -- token bucket: in every window the number of allowed requests is bounded by burst + rate * window. *)
From Coq Require Import ZArith List Bool Lia.
From MV Require Import C36.Model.
Import ListNotations.
Open Scope Z_scope.

(* one definition covering both admission rules: a request is admitted when the missing (scaled) tokens are at
   most e.   e = p - 1 : x/time/rate (wait truncated to whole ns);   e = 0 : the idealised bucket *)
Definition allow_gen (e p q b : Z) (s : bucket) (t : Z) : bucket * bool :=
  let tk := b_avail p q b s t in
  if q - tk <=? e then (mkB (tk - q) t, true) else (s, false).

Lemma allow_is_gen : forall p q b s t, allow p q b s t = allow_gen (p - 1) p q b s t.
Proof.
  intros. unfold allow, allow_gen. cbv zeta.
  destruct (q - b_avail p q b s t <? p) eqn:E1; destruct (q - b_avail p q b s t <=? p - 1) eqn:E2;
    try reflexivity; exfalso; lia.
Qed.

Lemma allow_ideal_is_gen : forall p q b s t, allow_ideal p q b s t = allow_gen 0 p q b s t.
Proof.
  intros. unfold allow_ideal, allow_gen. cbv zeta.
  destruct (q <=? b_avail p q b s t) eqn:E1; destruct (q - b_avail p q b s t <=? 0) eqn:E2;
    try reflexivity; exfalso; lia.
Qed.

Lemma run_bucket_ext : forall f g, (forall s t, f s t = g s t) -> forall ts s, run_bucket f s ts = run_bucket g s ts.
Proof.
  intros f g H ts. induction ts as [|t r IH]; intros s; simpl; [reflexivity|].
  rewrite H. destruct (g s t) as [s' ok]. rewrite IH. reflexivity.
Qed.

Fixpoint nondecr (l : list Z) : Prop :=
  match l with
  | a :: ((b :: _) as r) => a <= b /\ nondecr r
  | _ => True
  end.

Definition upper (tend : Z) (l : list Z) : Prop := forall t, In t l -> t <= tend.

Lemma count_cons : forall ok oks, count_true (ok :: oks) = (if ok then 1 else 0) + count_true oks.
Proof.
  intros. unfold count_true. simpl. destruct ok; simpl length; [rewrite Nat2Z.inj_succ|]; lia.
Qed.

Section Bucket.
  Variables e p q b : Z.
  Hypothesis He : 0 <= e.
  Hypothesis Hp : 0 < p.
  Hypothesis Hq : 0 < q.
  Hypothesis Hb : 0 < b.

  Definition binv (s : bucket) : Prop := - e <= b_tok s <= b * q.

  Lemma avail_bounds : forall s t, binv s -> b_last s <= t ->
    - e <= b_avail p q b s t <= b * q /\ b_avail p q b s t <= b_tok s + p * (t - b_last s).
  Proof.
    intros s t [H1 H2] Hl. unfold b_avail. rewrite (Z.min_l (b_last s) t) by assumption.
    assert (0 <= p * (t - b_last s)) by (apply Z.mul_nonneg_nonneg; lia). lia.
  Qed.

  Lemma allow_gen_inv : forall s t, binv s -> b_last s <= t ->
    binv (fst (allow_gen e p q b s t)) /\ b_last (fst (allow_gen e p q b s t)) <= t.
  Proof.
    intros s t Hi Hl. destruct (avail_bounds s t Hi Hl) as [[A1 A2] A3]. unfold allow_gen. cbv zeta.
    destruct (q - b_avail p q b s t <=? e) eqn:E; simpl.
    - unfold binv. simpl. lia.
    - tauto.
  Qed.

  (* the main induction: from any state, for a non-decreasing list of request times t1 :: win, all <= tend *)
  Lemma window_bound_from : forall win s t1 tend,
    binv s -> b_last s <= t1 -> nondecr (t1 :: win) -> upper tend (t1 :: win) ->
    count_true (snd (run_bucket (allow_gen e p q b) s (t1 :: win))) * q
      <= b_avail p q b s t1 + p * (tend - t1) + e.
  Proof.
    induction win as [|t2 r IH]; intros s t1 tend Hi Hl Hs Hu.
    - (* a single request *)
      destruct (avail_bounds s t1 Hi Hl) as [[A1 A2] A3].
      assert (T : t1 <= tend) by (apply Hu; left; reflexivity).
      assert (0 <= p * (tend - t1)) by (apply Z.mul_nonneg_nonneg; lia).
      cbn [run_bucket]. unfold allow_gen. cbv zeta.
      destruct (q - b_avail p q b s t1 <=? e) eqn:E; cbn [snd]; rewrite count_cons;
        unfold count_true; cbn [filter length Z.of_nat]; lia.
    - destruct Hs as [H12 Hs].
      assert (Hu' : upper tend (t2 :: r)) by (intros t Ht; apply Hu; right; assumption).
      assert (T2 : t2 <= tend) by (apply Hu'; left; reflexivity).
      destruct (avail_bounds s t1 Hi Hl) as [[A1 A2] A3].
      change (run_bucket (allow_gen e p q b) s (t1 :: t2 :: r))
        with (let '(s', ok) := allow_gen e p q b s t1 in
              let '(s'', oks) := run_bucket (allow_gen e p q b) s' (t2 :: r) in (s'', ok :: oks)).
      pose proof (allow_gen_inv s t1 Hi Hl) as [Hi' Hl'].
      unfold allow_gen in *. cbv zeta in *.
      destruct (q - b_avail p q b s t1 <=? e) eqn:E; simpl in Hi', Hl'.
      + (* admitted *)
        specialize (IH (mkB (b_avail p q b s t1 - q) t1) t2 tend Hi' ltac:(simpl; lia) Hs Hu').
        destruct (run_bucket _ (mkB (b_avail p q b s t1 - q) t1) (t2 :: r)) as [s'' oks]. cbn [snd fst] in *.
        rewrite count_cons.
        assert (B : b_avail p q b (mkB (b_avail p q b s t1 - q) t1) t2 <= b_avail p q b s t1 - q + p * (t2 - t1)).
        { unfold b_avail at 1. cbn [b_tok b_last]. rewrite (Z.min_l t1 t2) by lia. lia. }
        lia.
      + (* refused: the state is unchanged *)
        specialize (IH s t2 tend Hi ltac:(lia) Hs Hu').
        destruct (run_bucket _ s (t2 :: r)) as [s'' oks]. cbn [snd fst] in *.
        rewrite count_cons.
        assert (B : b_avail p q b s t2 + p * (tend - t2) <= b_avail p q b s t1 + p * (tend - t1)).
        { unfold b_avail. rewrite (Z.min_l (b_last s) t1), (Z.min_l (b_last s) t2) by lia.
          assert (0 <= p * (t2 - t1)) by (apply Z.mul_nonneg_nonneg; lia).
          assert (0 <= p * (tend - t2)) by (apply Z.mul_nonneg_nonneg; lia).
          destruct (Z.min_spec (b * q) (b_tok s + p * (t1 - b_last s))) as [[? M1]|[? M1]];
          destruct (Z.min_spec (b * q) (b_tok s + p * (t2 - b_last s))) as [[? M2]|[? M2]]; rewrite M1, M2; lia. }
        lia.
  Qed.

  (* running a prefix keeps the invariant and `last` below the later times *)
  Lemma run_prefix_inv : forall pre s t,
    binv s -> b_last s <= hd t (pre ++ [t]) -> nondecr (pre ++ [t]) ->
    binv (fst (run_bucket (allow_gen e p q b) s pre)) /\ b_last (fst (run_bucket (allow_gen e p q b) s pre)) <= t.
  Proof.
    induction pre as [|t1 r IH]; intros s t Hi Hl Hs; simpl in *.
    - tauto.
    - pose proof (allow_gen_inv s t1 Hi Hl) as [Hi' Hl'].
      destruct (allow_gen e p q b s t1) as [s' ok]. simpl in *.
      assert (Hs' : nondecr (r ++ [t]) /\ t1 <= hd t (r ++ [t])).
      { destruct r as [|t2 r']; simpl in *; tauto. }
      destruct Hs' as [Hs1 Hs2].
      specialize (IH s' t Hi' ltac:(lia) Hs1).
      destruct (run_bucket (allow_gen e p q b) s' r) as [s'' oks]. simpl in *. exact IH.
  Qed.

  (* any window of any non-decreasing request stream served by a bucket created full *)
  Lemma window_bound : forall pre t1 win tend t0,
    t0 <= hd t1 (pre ++ [t1]) -> nondecr (pre ++ t1 :: win) -> upper tend (t1 :: win) ->
    let s1 := fst (run_bucket (allow_gen e p q b) (bucket_init q b t0) pre) in
    count_true (snd (run_bucket (allow_gen e p q b) s1 (t1 :: win))) * q <= b * q + p * (tend - t1) + e.
  Proof.
    intros pre t1 win tend t0 H0 Hs Hu s1.
    assert (Hi0 : binv (bucket_init q b t0)) by (unfold binv, bucket_init; simpl; lia).
    assert (Hs1 : nondecr (pre ++ [t1]) /\ nondecr (t1 :: win)).
    { clear - Hs. induction pre as [|a r IH]; simpl in *.
      - split; [exact I | exact Hs].
      - destruct r as [|a2 r']; simpl in *.
        + destruct Hs as [H1 H2]. split; [split; [exact H1 | exact I] | exact H2].
        + destruct Hs as [H1 H2]. destruct (IH H2) as [I1 I2]. split; [split; assumption | exact I2]. }
    destruct Hs1 as [Hs1 Hs2].
    pose proof (run_prefix_inv pre (bucket_init q b t0) t1 Hi0 H0 Hs1) as [Hi1 Hl1]. fold s1 in Hi1, Hl1.
    pose proof (window_bound_from win s1 t1 tend Hi1 Hl1 Hs2 Hu) as G.
    destruct (avail_bounds s1 t1 Hi1 Hl1) as [[A1 A2] _]. lia.
  Qed.
End Bucket.

(* x/time/rate's admission rule, limit = p/q tokens per ns: k <= burst + rate * (W + 1ns) (precisely: + (p-1)/q) *)
Lemma bucket_bound_trunc : forall p q b pre t1 win tend t0,
  0 < p -> 0 < q -> 0 < b ->
  t0 <= hd t1 (pre ++ [t1]) -> nondecr (pre ++ t1 :: win) -> upper tend (t1 :: win) ->
  let s1 := fst (run_bucket (allow p q b) (bucket_init q b t0) pre) in
  count_true (snd (run_bucket (allow p q b) s1 (t1 :: win))) * q <= b * q + p * (tend - t1) + (p - 1).
Proof.
  intros p q b pre t1 win tend t0 Hp Hq Hb H0 Hs Hu. cbv zeta.
  rewrite (run_bucket_ext _ _ (allow_is_gen p q b) pre).
  rewrite (run_bucket_ext _ _ (allow_is_gen p q b) (t1 :: win)).
  apply window_bound; try assumption; lia.
Qed.

(* limit = rate.Every(q ns) (what makeLimit produces), times in whole ns: the literal bound k <= burst + W/q *)
Lemma bucket_bound_every : forall q b pre t1 win tend t0,
  0 < q -> 0 < b ->
  t0 <= hd t1 (pre ++ [t1]) -> nondecr (pre ++ t1 :: win) -> upper tend (t1 :: win) ->
  let s1 := fst (run_bucket (allow 1 q b) (bucket_init q b t0) pre) in
  count_true (snd (run_bucket (allow 1 q b) s1 (t1 :: win))) * q <= b * q + (tend - t1).
Proof.
  intros q b pre t1 win tend t0 Hq Hb H0 Hs Hu. cbv zeta.
  pose proof (bucket_bound_trunc 1 q b pre t1 win tend t0 ltac:(lia) Hq Hb H0 Hs Hu) as G. cbv zeta in G. lia.
Qed.

(* the idealised bucket of the documentation, any rate *)
Lemma bucket_bound_ideal : forall p q b pre t1 win tend t0,
  0 < p -> 0 < q -> 0 < b ->
  t0 <= hd t1 (pre ++ [t1]) -> nondecr (pre ++ t1 :: win) -> upper tend (t1 :: win) ->
  let s1 := fst (run_bucket (allow_ideal p q b) (bucket_init q b t0) pre) in
  count_true (snd (run_bucket (allow_ideal p q b) s1 (t1 :: win))) * q <= b * q + p * (tend - t1).
Proof.
  intros p q b pre t1 win tend t0 Hp Hq Hb H0 Hs Hu. cbv zeta.
  rewrite (run_bucket_ext _ _ (allow_ideal_is_gen p q b) pre).
  rewrite (run_bucket_ext _ _ (allow_ideal_is_gen p q b) (t1 :: win)).
  pose proof (window_bound 0 p q b ltac:(lia) Hp Hq Hb pre t1 win tend t0 H0 Hs Hu) as G. cbv zeta in G. lia.
Qed.
