(* C36 -- Rate limiting picks the highest-precedence rule and enforces it.  Property theorems only. *)
From Coq Require Import ZArith NArith List Bool String.
From MV Require Import C36.Model C36.Proofs C36.ProofsBucket Gen.C36.
Import ListNotations.

(* 1. The limiter of a request is decided by the first match in
      [client id; first net (in order) containing the address; node; suffrage; default map], else the built-in
      default -- for a request that has no cached limiter ([Rule ... None]) and for the decision function
      [fresh] (= RateLimiterRules.rule) in general. *)
Theorem C36_precedence : forall R addr h cid node now next,
  fresh R addr h cid node = precedence_spec R addr h cid node /\
  l_dec (fst (Rule R addr h cid node None now next)) = precedence_spec R addr h cid node.
Proof.
  intros. split; [apply fresh_is_precedence | rewrite Rule_uncached; apply fresh_is_precedence].
Qed.

(* the same order is the order in which RateLimiterRules.rule names the limiter types in the Go source
   (string literals of the function, regenerated on every run) *)
Definition is_type_name (s : string) : bool :=
  existsb (String.eqb s) ["clientid"; "net"; "node"; "suffrage"; "defaultmap"; "default"]%string.

Theorem C36_precedence_order_in_source :
  nodup string_dec (filter is_type_name rule_type_strings)
  = ["clientid"; "net"; "node"; "suffrage"; "defaultmap"; "default"]%string.
Proof. vm_compute. reflexivity. Qed.

(* 2. Cached limiter = fresh decision.  False in general (known findings, witnesses below); true when no rule
      set was installed after the cached limiter was decided and the request carries the same client id as
      the request the limiter was decided for (the node of the address may have become known since, the
      consensus answer may have changed arbitrarily). *)
Theorem C36_cached_equals_fresh_partial : forall R c0 addr h cid node0 node1 l now next,
  static_since R (l_updated l) ->
  l_dec l = fresh (with_cons R c0) addr h cid node0 ->
  (node0 = None \/ node0 = node1) ->
  l_dec (fst (Rule R addr h cid node1 (Some l) now next)) = fresh R addr h cid node1.
Proof. exact cached_equals_fresh_partial. Qed.

(* class cached-limiter-ignores-clientid: [set client-id rules c1 -> rule 1, c2 -> rule 2; request c1;
   request c2] serves c2 with c1's limiter; [client-id rule for c1; net rule; request without client id;
   request c1] serves c1 with the net limiter *)
Theorem C36_cached_equals_fresh_refuted :
  stale_after witness_clientid 0%N 0%N 2%N /\ stale_after witness_net_then_clientid 0%N 0%N 1%N.
Proof. split; [exact stale_clientid | exact stale_net_then_clientid]. Qed.

(* class cached-limiter-ignores-ruleset-update: a cached node limiter survives the installation of a net
   rule that matches the address *)
Theorem C36_cached_after_ruleset_update_refuted : stale_after witness_ruleset_update 0%N 0%N 0%N.
Proof. exact stale_ruleset_update. Qed.

(* 3. Token bucket (documented semantics of golang.org/x/time/rate, limit = p/q tokens per ns, burst b, created
      full; request times non-decreasing, in whole ns).  For every window t1 :: win of every request stream
      pre ++ t1 :: win, with tend an upper bound of the window's times:
        #allowed * q <= b*q + p*(tend - t1) + (p - 1),  i.e.  #allowed <= burst + rate * W + (p-1)/q
      (the wait is truncated to whole nanoseconds by the limiter: less than rate * 1ns of slack). *)
Theorem C36_bucket_bound : forall p q b pre t1 win tend t0,
  (0 < p)%Z -> (0 < q)%Z -> (0 < b)%Z ->
  (t0 <= hd t1 (pre ++ [t1]))%Z -> nondecr (pre ++ t1 :: win) -> upper tend (t1 :: win) ->
  let s1 := fst (run_bucket (allow p q b) (bucket_init q b t0) pre) in
  (count_true (snd (run_bucket (allow p q b) s1 (t1 :: win))) * q <= b * q + p * (tend - t1) + (p - 1))%Z.
Proof. exact bucket_bound_trunc. Qed.

(* the limits the code produces are rate.Every(interval) = one token per q ns (makeLimit): then the bound is
   literally #allowed <= burst + W / interval *)
Theorem C36_bucket_bound_every : forall q b pre t1 win tend t0,
  (0 < q)%Z -> (0 < b)%Z ->
  (t0 <= hd t1 (pre ++ [t1]))%Z -> nondecr (pre ++ t1 :: win) -> upper tend (t1 :: win) ->
  let s1 := fst (run_bucket (allow 1 q b) (bucket_init q b t0) pre) in
  (count_true (snd (run_bucket (allow 1 q b) s1 (t1 :: win))) * q <= b * q + (tend - t1))%Z.
Proof. exact bucket_bound_every. Qed.

(* the idealised bucket (a request needs a whole token): the literal bound for any rate *)
Theorem C36_bucket_bound_ideal : forall p q b pre t1 win tend t0,
  (0 < p)%Z -> (0 < q)%Z -> (0 < b)%Z ->
  (t0 <= hd t1 (pre ++ [t1]))%Z -> nondecr (pre ++ t1 :: win) -> upper tend (t1 :: win) ->
  let s1 := fst (run_bucket (allow_ideal p q b) (bucket_init q b t0) pre) in
  (count_true (snd (run_bucket (allow_ideal p q b) s1 (t1 :: win))) * q <= b * q + p * (tend - t1))%Z.
Proof. exact bucket_bound_ideal. Qed.

(* 4. The bound is per rate.Limiter object.  The handler keeps ONE limiter per (address, handler) and replaces
      the bucket by a full one whenever the decision switches to a rule with another limit: known finding
      bucket-reset-on-rule-switch (requests 1 and 3 of [client-id rule; request c1; request without client id;
      request c1] are decided by the same rule but served by different, full buckets).  When the rule stays
      the same the bucket is kept. *)
Theorem C36_bucket_kept_across_requests_refuted : bucket_replaced witness_switch 1 3.
Proof. exact switch_replaces_bucket. Qed.

Theorem C36_bucket_kept_same_rule : forall l d now next,
  l_gen l <> 0%N -> d_rule (l_dec l) = d_rule d -> l_gen (fst (update_limiter l d now next)) = l_gen l.
Proof. exact update_keeps_bucket. Qed.

(* 5. Eviction: the addresses shrink() removes because the pool holds more than MaxAddrs addresses (the oldest
      ones) lose their node identity, so the precedence chain of their next request runs without node hint. *)
Theorem C36_evicted_addr_forgets_node : forall s maxaddrs now a,
  In a (firstn (List.length (h_queue s) - N.to_nat maxaddrs) (h_queue s)) ->
  aget a (h_nodes (fst (step s (OShrink maxaddrs) now))) = None.
Proof. exact shrink_forgets_node. Qed.

(* non-vacuity *)
Example C36_example_precedence :
  let R := mkRules (Some ([(1%N, mkRM (Some 1%N) [])], 0%Z))
                   (Some (mkNets [(1%N, [0%N]); (0%N, [0%N])] [(1%N, mkRM (Some 2%N) []); (0%N, mkRM (Some 3%N) [])], 0%Z))
                   (Some ([(0%N, mkRM (Some 4%N) [])], 0%Z)) None (mkRM (Some 0%N) []) 0%Z (false, 0%N, []) in
  d_rule (fresh R 0 0 1 (Some 0%N)) = 1%N /\ d_rule (fresh R 0 0 0 (Some 0%N)) = 2%N /\
  d_rule (fresh R 1 0 0 (Some 0%N)) = 4%N /\ d_type (fresh R 1 0 0 None) = T_defaultmap.
Proof. vm_compute. repeat split; reflexivity. Qed.

Example C36_example_bucket :
  snd (run_bucket (allow 1 100 2) (bucket_init 100 2 0) [0; 0; 0; 99; 100; 150; 200; 1000; 1000; 1000]%Z)
  = [true; true; false; false; true; false; true; true; true; false].
Proof. vm_compute. reflexivity. Qed.
