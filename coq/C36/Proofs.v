(* C36 -- lemmas about the choice of the limiter: precedence of the fresh decision, cached vs fresh. *)
From Coq Require Import ZArith NArith List Bool Lia.
From MV Require Import C36.Model.
Import ListNotations.
Open Scope N_scope.

(* ------------------------------------------------------------------ precedence *)
Lemma net_loop_spec : forall ipnets rs addr h,
  net_loop ipnets rs addr h =
  match first_net ipnets addr with
  | None => None
  | Some nid =>
      match aget nid rs with
      | None => None
      | Some rm => match rm_rule rm h with
                   | Some r => Some (mkDec T_net r (2, nid) 0)
                   | None => None
                   end
      end
  end.
Proof.
  induction ipnets as [|[nid contained] rest IH]; intros rs addr h; simpl.
  - reflexivity.
  - unfold first_net. simpl. destruct (mem addr contained) eqn:E.
    + destruct (aget nid rs) as [rm|]; [|reflexivity]. destruct (rm_rule rm h); reflexivity.
    + rewrite IH. unfold first_net. reflexivity.
Qed.

Lemma net_match_spec : forall R addr h, net_match R addr h = net_spec R addr h.
Proof.
  intros. unfold net_match, net_spec. destruct (r_nets R) as [[ns a]|]; [|reflexivity]. apply net_loop_spec.
Qed.

Lemma fresh_is_precedence : forall R addr h cid node, fresh R addr h cid node = precedence_spec R addr h cid node.
Proof.
  intros. unfold fresh, chain, precedence_spec, default_decision, defaultmap_match. rewrite net_match_spec.
  simpl. destruct (clientid_match R h cid); [reflexivity|].
  destruct (net_spec R addr h); [reflexivity|].
  destruct (node_match R h node); [reflexivity|].
  destruct (suffrage_match R h node); [reflexivity|].
  destruct (rm_rule (r_defaultmap R) h); reflexivity.
Qed.

(* the request without a cached limiter gets the fresh decision *)
Lemma new_limiter_dec : forall d now next, l_dec (fst (new_limiter d now next)) = d.
Proof. intros. unfold new_limiter. destruct (rule_is_real (d_rule d)); reflexivity. Qed.

Lemma update_limiter_dec : forall l d now next, l_dec (fst (update_limiter l d now next)) = d.
Proof.
  intros. unfold update_limiter. destruct ((l_gen l =? 0) || negb (d_rule (l_dec l) =? d_rule d)).
  - apply new_limiter_dec.
  - reflexivity.
Qed.

Lemma Rule_uncached : forall R addr h cid node now next,
  l_dec (fst (Rule R addr h cid node None now next)) = fresh R addr h cid node.
Proof. intros. simpl. apply new_limiter_dec. Qed.

(* ------------------------------------------------------------------ types of the matchers *)
Lemma clientid_match_type : forall R h cid d, clientid_match R h cid = Some d ->
  d_type d = T_clientid /\ exists m a, r_clientid R = Some (m, a) /\ cid <> 0.
Proof.
  intros R h cid d H. unfold clientid_match in H. destruct (r_clientid R) as [[m a]|]; [|discriminate].
  destruct (cid =? 0) eqn:E; [discriminate|]. destruct (sk_rule m cid h); [|discriminate].
  inversion H; subst. split; [reflexivity|]. exists m, a. split; [reflexivity|]. apply N.eqb_neq. exact E.
Qed.

Lemma net_loop_type : forall ipnets rs addr h d, net_loop ipnets rs addr h = Some d -> d_type d = T_net.
Proof.
  induction ipnets as [|[nid c] rest IH]; intros rs addr h d H; simpl in H; [discriminate|].
  destruct (mem addr c).
  - destruct (aget nid rs) as [rm|]; [|discriminate]. destruct (rm_rule rm h); [|discriminate].
    inversion H. reflexivity.
  - eauto.
Qed.

Lemma net_match_type : forall R addr h d, net_match R addr h = Some d ->
  d_type d = T_net /\ exists ns a, r_nets R = Some (ns, a).
Proof.
  intros R addr h d H. unfold net_match in H. destruct (r_nets R) as [[ns a]|]; [|discriminate].
  split; [eapply net_loop_type; eauto | eauto].
Qed.

Lemma node_match_type : forall R h node d, node_match R h node = Some d ->
  d_type d = T_node /\ exists n m a, node = Some n /\ r_nodes R = Some (m, a).
Proof.
  intros R h node d H. unfold node_match in H. destruct node as [n|]; [|discriminate].
  destruct (r_nodes R) as [[m a]|]; [|discriminate]. destruct (sk_rule m n h); [|discriminate].
  inversion H. split; [reflexivity | eauto].
Qed.

Lemma suffrage_rule_some : forall rm c h n d, suffrage_rule rm c h n = Some d ->
  exists err st members r, c = (err, st, members) /\ rm_is_empty rm = false /\ err = false /\
    mem n members = true /\ rm_rule rm h = Some r /\ d = mkDec T_suffrage r (0, 0) st.
Proof.
  intros rm c h n d H. unfold suffrage_rule in H. destruct (rm_is_empty rm) eqn:E; [discriminate|].
  destruct c as [[err st] members]. destruct err; simpl in H; [discriminate|].
  destruct (mem n members) eqn:M; simpl in H; [|discriminate].
  destruct (rm_rule rm h) as [r|] eqn:Rr; [|discriminate]. inversion H.
  exists false, st, members, r. repeat split; auto.
Qed.

Lemma default_decision_type : forall R h,
  d_type (default_decision R h) = T_defaultmap \/ d_type (default_decision R h) = T_default.
Proof. intros. unfold default_decision. destruct (rm_rule (r_defaultmap R) h); simpl; auto. Qed.

(* ------------------------------------------------------------------ cached = fresh, outside the findings *)
(* the matchers that do not look at the consensus answer *)
Lemma clientid_match_cons : forall R c h cid, clientid_match (with_cons R c) h cid = clientid_match R h cid.
Proof. reflexivity. Qed.
Lemma net_match_cons : forall R c addr h, net_match (with_cons R c) addr h = net_match R addr h.
Proof. reflexivity. Qed.
Lemma node_match_cons : forall R c h node, node_match (with_cons R c) h node = node_match R h node.
Proof. reflexivity. Qed.
Lemma default_decision_cons : forall R c h, default_decision (with_cons R c) h = default_decision R h.
Proof. reflexivity. Qed.

Ltac zb := repeat match goal with
  | H : (_ <=? _)%Z = false |- _ => apply Z.leb_gt in H
  | H : (_ <=? _)%Z = true |- _ => apply Z.leb_le in H
  end.

Theorem cached_equals_fresh_partial : forall R c0 addr h cid node0 node1 l now next,
  static_since R (l_updated l) ->
  l_dec l = fresh (with_cons R c0) addr h cid node0 ->
  (node0 = None \/ node0 = node1) ->
  l_dec (fst (Rule R addr h cid node1 (Some l) now next)) = fresh R addr h cid node1.
Proof.
  intros R c0 addr h cid node0 node1 l now next [S1 [S2 [S3 [S4 S5]]]] HL HN.
  unfold fresh, chain in HL. rewrite clientid_match_cons, net_match_cons, node_match_cons, default_decision_cons in HL.
  unfold Rule, l_type.
  destruct (clientid_match R h cid) as [dc|] eqn:Ec.
  { (* decided by the client id *)
    destruct (clientid_match_type _ _ _ _ Ec) as [Tc [m [a [Rc Hc]]]].
    rewrite Rc. rewrite Rc in S1. simpl in S1. rewrite HL, Tc.
    apply N.eqb_neq in Hc. rewrite Hc. simpl. apply Z.leb_le in S1. rewrite S1. simpl.
    unfold fresh, chain. rewrite Ec. exact HL. }
  assert (C1 : match r_clientid R with
               | Some (_, at_) => negb (cid =? 0) && (d_type (l_dec l) =? T_clientid) && (at_ <=? l_updated l)%Z
               | None => false end = false \/ d_type (l_dec l) = T_clientid).
  { destruct (r_clientid R) as [[m a]|]; [|left; reflexivity].
    destruct (d_type (l_dec l) =? T_clientid) eqn:E; [right; apply N.eqb_eq; exact E|].
    left. rewrite andb_false_r. reflexivity. }
  destruct (net_match R addr h) as [dn|] eqn:En.
  { destruct (net_match_type _ _ _ _ En) as [Tn [ns [a Rn]]].
    rewrite HL, Tn in *. destruct C1 as [C1|C1]; [|discriminate]. rewrite C1.
    rewrite Rn. rewrite Rn in S2. simpl in S2. apply Z.leb_le in S2. rewrite S2. simpl.
    unfold fresh, chain. rewrite Ec, En. exact HL. }
  assert (C2 : forall t, t <> T_net ->
               match r_nets R with Some (_, at_) => (t =? T_net) && (at_ <=? l_updated l)%Z | None => false end = false).
  { intros t Ht. destruct (r_nets R) as [[ns a]|]; [|reflexivity]. apply N.eqb_neq in Ht. rewrite Ht. reflexivity. }
  destruct (node_match R h node0) as [dd|] eqn:Ed.
  { destruct (node_match_type _ _ _ _ Ed) as [Td [n [m [a [Hn Rn]]]]].
    assert (node1 = Some n) by (destruct HN as [HN|HN]; congruence). subst node0 node1.
    rewrite HL, Td in *. destruct C1 as [C1|C1]; [|discriminate]. rewrite C1.
    rewrite (C2 T_node) by discriminate.
    unfold rule_by_node, l_type. rewrite HL, Rn. rewrite Rn in S3. simpl in S3. apply Z.leb_le in S3.
    rewrite Td, S3. simpl. unfold fresh, chain. rewrite Ec, En, Ed. exact HL. }
  destruct (suffrage_match (with_cons R c0) h node0) as [ds|] eqn:Es.
  { unfold suffrage_match in Es. destruct node0 as [n|]; [|discriminate].
    assert (node1 = Some n) by (destruct HN as [HN|HN]; congruence). subst node1.
    simpl in Es. destruct (r_suffrage R) as [[rm a]|] eqn:Rs; [|discriminate].
    destruct (suffrage_rule_some _ _ _ _ _ Es) as [err0 [st0 [mem0 [r [Hc0 [Hne [He0 [Hm0 [Hr Hd]]]]]]]]].
    rewrite Hd in HL. clear Hd Es. rewrite HL in *. simpl d_type in *. destruct C1 as [C1|C1]; [|discriminate]. rewrite C1.
    rewrite (C2 T_suffrage) by discriminate.
    unfold rule_by_node, l_type. rewrite HL. simpl d_type. simpl d_checksum.
    assert (BN : match r_nodes R with
                 | Some (_, at_) => (T_suffrage =? T_node) && (at_ <=? l_updated l)%Z | None => false end = false)
      by (destruct (r_nodes R) as [[? ?]|]; reflexivity).
    rewrite BN, Rs. simpl in S4. apply Z.leb_le in S4. rewrite S4. simpl.
    unfold fresh, chain, rule, chain. rewrite Ec, En, Ed. unfold suffrage_match. rewrite Rs.
    destruct (r_cons R) as [[err st] members] eqn:Rc.
    destruct err.
    - (* consensus not available *)
      unfold suffrage_rule. rewrite Hne. simpl. rewrite update_limiter_dec. reflexivity.
    - destruct (mem n members) eqn:M; simpl.
      + destruct (st =? st0) eqn:Est; simpl.
        * apply N.eqb_eq in Est. subst st0. unfold suffrage_rule. rewrite Hne, M, Hr. simpl. exact HL.
        * unfold suffrage_rule. rewrite Hne, M, Hr. simpl. rewrite update_limiter_dec. reflexivity.
      + unfold suffrage_rule. rewrite Hne, M. simpl. rewrite update_limiter_dec. reflexivity. }
  (* decided by the default map / built-in default *)
  pose proof (default_decision_type R h) as TD.
  assert (Tl : d_type (l_dec l) = T_defaultmap \/ d_type (l_dec l) = T_default) by (rewrite HL; exact TD).
  assert (C1' : match r_clientid R with
               | Some (_, at_) => negb (cid =? 0) && (d_type (l_dec l) =? T_clientid) && (at_ <=? l_updated l)%Z
               | None => false end = false).
  { destruct C1 as [C1|C1]; [exact C1|]. destruct Tl as [Tl|Tl]; rewrite Tl in C1; discriminate. }
  rewrite C1'. rewrite (C2 (d_type (l_dec l))) by (destruct Tl as [Tl|Tl]; rewrite Tl; discriminate).
  assert (BN : rule_by_node R h node1 l now next = None).
  { unfold rule_by_node, l_type. destruct node1 as [n|]; [|reflexivity].
    assert (B1 : match r_nodes R with
                 | Some (_, at_) => (d_type (l_dec l) =? T_node) && (at_ <=? l_updated l)%Z | None => false end = false).
    { destruct (r_nodes R) as [[? ?]|]; [|reflexivity]. destruct Tl as [Tl|Tl]; rewrite Tl; reflexivity. }
    rewrite B1. destruct (r_suffrage R) as [[rm a]|]; [|reflexivity].
    destruct Tl as [Tl|Tl]; rewrite Tl; reflexivity. }
  rewrite BN. unfold rule, fresh.
  destruct (chain R addr h cid node1) as [d|] eqn:Ech.
  - rewrite update_limiter_dec. reflexivity.
  - destruct ((d_type (l_dec l) =? T_defaultmap) && (r_defaultmap_at R <=? l_updated l)%Z) eqn:Edm.
    + simpl. exact HL.
    + rewrite update_limiter_dec. reflexivity.
Qed.

(* ------------------------------------------------------------------ witnesses of the known findings *)
(* "the limiter used for the last request of the history is not the one the precedence chain gives" *)
Definition stale_after (pre : list op) (addr h cid : N) : Prop :=
  let '(s, outs) := run (pre ++ [OReq addr h cid]) in
  exists l, last outs OutNone = OutLim l /\
            l_dec l <> fresh (h_rules s) addr h cid (aget addr (h_nodes s)).

(* a cached client-id limiter serves another client id; a cached net limiter serves a client id with a rule *)
Definition witness_clientid : list op :=
  [OSetClientID (Some [(1, mkRM (Some 1) []); (2, mkRM (Some 2) [])]); OReq 0 0 1].
Definition witness_net_then_clientid : list op :=
  [OSetClientID (Some [(1, mkRM (Some 1) [])]); OSetNets (Some [(2, [0; 1; 2; 6], mkRM (Some 5) [])]); OReq 0 0 0].
(* a cached node limiter survives the installation of a matching net rule *)
Definition witness_ruleset_update : list op :=
  [OSetNodes (Some [(0, mkRM (Some 4) [])]); OReq 0 0 0; OAddNode 0 0; OReq 0 0 0;
   OSetNets (Some [(2, [0; 1; 2; 6], mkRM (Some 5) [])])].

Lemma stale_clientid : stale_after witness_clientid 0 0 2.
Proof. vm_compute. eexists. split; [reflexivity | discriminate]. Qed.
Lemma stale_net_then_clientid : stale_after witness_net_then_clientid 0 0 1.
Proof. vm_compute. eexists. split; [reflexivity | discriminate]. Qed.
Lemma stale_ruleset_update : stale_after witness_ruleset_update 0 0 0.
Proof. vm_compute. eexists. split; [reflexivity | discriminate]. Qed.

(* the bucket is replaced when the decision switches between two rules: requests 1 and 3 are both decided by
   the client-id rule 1, but are served by different rate.Limiter objects (each created full) *)
Definition witness_switch : list op :=
  [OSetClientID (Some [(1, mkRM (Some 1) [])]); OReq 0 0 1; OReq 0 0 0; OReq 0 0 1].

Definition bucket_replaced (ops : list op) (i j : nat) : Prop :=
  exists li lj, nth i (snd (run ops)) OutNone = OutLim li /\ nth j (snd (run ops)) OutNone = OutLim lj /\
                l_dec li = l_dec lj /\ rule_is_real (d_rule (l_dec li)) = true /\ l_gen li <> l_gen lj.

Lemma switch_replaces_bucket : bucket_replaced witness_switch 1 3.
Proof. vm_compute. do 2 eexists. repeat split; try reflexivity. discriminate. Qed.

(* and when the decisions of consecutive requests on a key name the same rule the bucket is kept *)
Lemma update_keeps_bucket : forall l d now next,
  l_gen l <> 0 -> d_rule (l_dec l) = d_rule d -> l_gen (fst (update_limiter l d now next)) = l_gen l.
Proof.
  intros l d now next Hg Hr. unfold update_limiter. apply N.eqb_neq in Hg. rewrite Hg, Hr, N.eqb_refl. reflexivity.
Qed.

(* ------------------------------------------------------------------ eviction forgets the node identity *)
Lemma aget_aremove_same : forall {V} (m : list (N * V)) k, aget k (aremove k m) = None.
Proof.
  induction m as [|[k0 v] m IH]; intros k; simpl; [reflexivity|].
  destruct (k0 =? k) eqn:E; simpl; [apply IH | rewrite E; apply IH].
Qed.

Lemma aget_aremove_none : forall {V} (m : list (N * V)) k k', aget k m = None -> aget k (aremove k' m) = None.
Proof.
  induction m as [|[k0 v] m IH]; intros k k' H; simpl in *; [reflexivity|].
  destruct (k0 =? k) eqn:E; [discriminate|]. destruct (k0 =? k'); simpl; [|rewrite E]; apply IH; exact H.
Qed.

Lemma fold_remove_keeps_none : forall l s a, aget a (h_nodes s) = None -> aget a (h_nodes (fold_left remove_addr l s)) = None.
Proof.
  induction l as [|b l IH]; intros s a H; simpl; [exact H|]. apply IH. simpl. apply aget_aremove_none. exact H.
Qed.

Lemma fold_remove_forgets : forall l s a, In a l -> aget a (h_nodes (fold_left remove_addr l s)) = None.
Proof.
  induction l as [|b l IH]; intros s a H; simpl in *; [contradiction|].
  destruct H as [H|H].
  - subst b. apply fold_remove_keeps_none. simpl. apply aget_aremove_same.
  - apply IH. exact H.
Qed.

(* the addresses evicted by shrink (the oldest ones beyond MaxAddrs) have no node identity afterwards, so the
   next request from them is decided without node hint *)
Lemma shrink_forgets_node : forall s maxaddrs now a,
  In a (firstn (length (h_queue s) - N.to_nat maxaddrs) (h_queue s)) ->
  aget a (h_nodes (fst (step s (OShrink maxaddrs) now))) = None.
Proof. intros. cbn [step fst]. apply fold_remove_forgets. assumption. Qed.
