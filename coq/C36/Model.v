(* C36 -- rate limiting.  Transcribes launch/ratelimit.go:
     RateLimiterRules.rule / Rule / ruleByNode, the rule set types (ClientID / Net / Node / Suffrage rule
     sets, RateLimiterRuleMap), RateLimiter.Update / NewRateLimiter, addrPool.rateLimiter / addNode / remove,
   and the documented semantics of golang.org/x/time/rate's token bucket (AllowN(t, 1)), which is trusted.
   Identifiers (addresses, handlers, client ids, nodes, nets, rules, state hashes) are numbers; client id 0 is
   the empty client id, checksum 0 the empty string.  time.Now().UnixNano() is a logical clock (the index of
   the op).  No proofs in this file. *)
From Coq Require Import ZArith NArith List Bool.
Import ListNotations.

Open Scope N_scope.

(* ------------------------------------------------------------------ finite maps *)
Fixpoint aget {V} (k : N) (m : list (N * V)) : option V :=
  match m with
  | [] => None
  | (k', v) :: r => if k' =? k then Some v else aget k r
  end.
Definition aremove {V} (k : N) (m : list (N * V)) := filter (fun p => negb (fst p =? k)) m.
Definition aset {V} (k : N) (v : V) (m : list (N * V)) := (k, v) :: aremove k m.
Definition mem (x : N) (l : list N) : bool := existsb (N.eqb x) l.

(* ------------------------------------------------------------------ rule maps and rule sets *)
(* RateLimiterRuleMap{d *RateLimiterRule; m map[handler]RateLimiterRule}; a rule is its id *)
Record rulemap := mkRM { rm_d : option N; rm_m : list (N * N) }.

(* RateLimiterRuleMap.Rule(handler) *)
Definition rm_rule (m : rulemap) (h : N) : option N :=
  match aget h (rm_m m) with
  | Some r => Some r
  | None => rm_d m
  end.
Definition rm_is_empty (m : rulemap) : bool :=
  match rm_d m, rm_m m with None, [] => true | _, _ => false end.

(* NetRateLimiterRuleSet: ipnets in order of Add; rules keyed by the net's string (= net id): a second Add
   of the same net overwrites the map entry.  (net id, ids of the addresses the net contains): Contains is
   net.IPNet.Contains (stdlib), evaluated by the harness. *)
Record netset := mkNets { ns_ipnets : list (N * list N); ns_rules : list (N * rulemap) }.

Definition consensus := (bool * N * list N)%type.   (* IsInConsensusNodesFunc: (err, state hash, members) *)

Record rules := mkRules {
  r_clientid : option (list (N * rulemap) * Z);   (* ClientIDRateLimiterRuleSet, UpdatedAt *)
  r_nets : option (netset * Z);
  r_nodes : option (list (N * rulemap) * Z);
  r_suffrage : option (rulemap * Z);
  r_defaultmap : rulemap;
  r_defaultmap_at : Z;
  r_cons : consensus
}.

(* limiter types, in the order of precedence *)
Definition T_clientid := 0.  Definition T_net := 1.  Definition T_node := 2.
Definition T_suffrage := 3.  Definition T_defaultmap := 4.  Definition T_default := 5.
Definition builtin_rule := 0.      (* defaultRateLimiter *)

(* what a decision consists of: (type, rule, desc, checksum); desc = (kind, arg): (0,0) "", (1,cid), (2,net) *)
Record decision := mkDec { d_type : N; d_rule : N; d_desc : N * N; d_checksum : N }.

(* StringKeyRateLimiterRuleSet.rule(i, handler) *)
Definition sk_rule (m : list (N * rulemap)) (k h : N) : option N :=
  match aget k m with
  | Some rm => rm_rule rm h
  | None => None
  end.

(* ClientIDRateLimiterRuleSet.Rule: `len(rs.rules) < 1`, `len(hint.ClientID) < 1` -> not found *)
Definition clientid_match (R : rules) (h cid : N) : option decision :=
  match r_clientid R with
  | None => None
  | Some (m, _) =>
      if cid =? 0 then None
      else match sk_rule m cid h with
           | Some r => Some (mkDec T_clientid r (1, cid) 0)
           | None => None
           end
  end.

(* NetRateLimiterRuleSet.rule: the FIRST ipnet containing the address decides; if its map has no rule for
   the handler the whole set reports not found *)
Fixpoint net_loop (ipnets : list (N * list N)) (rs : list (N * rulemap)) (addr h : N) : option decision :=
  match ipnets with
  | [] => None
  | (nid, contained) :: rest =>
      if mem addr contained then
        match aget nid rs with
        | None => None
        | Some rm => match rm_rule rm h with
                     | None => None
                     | Some r => Some (mkDec T_net r (2, nid) 0)
                     end
        end
      else net_loop rest rs addr h
  end.

Definition net_match (R : rules) (addr h : N) : option decision :=
  match r_nets R with
  | None => None
  | Some (ns, _) => net_loop (ns_ipnets ns) (ns_rules ns) addr h
  end.

(* NodeRateLimiterRuleSet.Rule (called only with node != nil) *)
Definition node_match (R : rules) (h : N) (node : option N) : option decision :=
  match node, r_nodes R with
  | Some n, Some (m, _) =>
      match sk_rule m n h with
      | Some r => Some (mkDec T_node r (0, 0) 0)
      | None => None
      end
  | _, _ => None
  end.

(* SuffrageRateLimiterRuleSet.Rule *)
Definition suffrage_rule (rm : rulemap) (c : consensus) (h n : N) : option decision :=
  if rm_is_empty rm then None
  else let '(err, st, members) := c in
       if err || negb (mem n members) then None
       else match rm_rule rm h with
            | Some r => Some (mkDec T_suffrage r (0, 0) st)
            | None => None
            end.

Definition suffrage_match (R : rules) (h : N) (node : option N) : option decision :=
  match node, r_suffrage R with
  | Some n, Some (rm, _) => suffrage_rule rm (r_cons R) h n
  | _, _ => None
  end.

Definition default_decision (R : rules) (h : N) : decision :=
  match rm_rule (r_defaultmap R) h with
  | Some r => mkDec T_defaultmap r (0, 0) 0
  | None => mkDec T_default builtin_rule (0, 0) 0
  end.

(* the rule-set part of RateLimiterRules.rule: nested ifs as in the Go code *)
Definition chain (R : rules) (addr h cid : N) (node : option N) : option decision :=
  match clientid_match R h cid with
  | Some d => Some d
  | None =>
      match net_match R addr h with
      | Some d => Some d
      | None =>
          match node_match R h node with
          | Some d => Some d
          | None => suffrage_match R h node
          end
      end
  end.

(* RateLimiterRules.rule(addr, handler, hint, t, updatedAt) = (decision, updated) *)
Definition rule (R : rules) (addr h cid : N) (node : option N) (t : N) (updated_at : Z) : decision * bool :=
  match chain R addr h cid node with
  | Some d => (d, true)
  | None =>
      if (t =? T_defaultmap) && (r_defaultmap_at R <=? updated_at)%Z
      then (mkDec T_defaultmap builtin_rule (0, 0) 0, false)
      else (default_decision R h, true)
  end.

(* the decision for a request without any cached limiter: rule(addr, handler, hint, "", 0) *)
Definition fresh (R : rules) (addr h cid : N) (node : option N) : decision :=
  match chain R addr h cid node with
  | Some d => d
  | None => default_decision R h
  end.

(* ------------------------------------------------------------------ the specification of precedence *)
Fixpoint first_match (l : list (option decision)) (dflt : decision) : decision :=
  match l with
  | [] => dflt
  | Some d :: _ => d
  | None :: r => first_match r dflt
  end.

(* first net (in order) containing the address *)
Definition first_net (ipnets : list (N * list N)) (addr : N) : option N :=
  match find (fun p => mem addr (snd p)) ipnets with
  | Some (nid, _) => Some nid
  | None => None
  end.

Definition net_spec (R : rules) (addr h : N) : option decision :=
  match r_nets R with
  | None => None
  | Some (ns, _) =>
      match first_net (ns_ipnets ns) addr with
      | None => None
      | Some nid =>
          match aget nid (ns_rules ns) with
          | None => None
          | Some rm => match rm_rule rm h with
                       | Some r => Some (mkDec T_net r (2, nid) 0)
                       | None => None
                       end
          end
      end
  end.

Definition defaultmap_match (R : rules) (h : N) : option decision :=
  match rm_rule (r_defaultmap R) h with
  | Some r => Some (mkDec T_defaultmap r (0, 0) 0)
  | None => None
  end.

Definition precedence_spec (R : rules) (addr h cid : N) (node : option N) : decision :=
  first_match [clientid_match R h cid; net_spec R addr h; node_match R h node; suffrage_match R h node;
               defaultmap_match R h]
              (mkDec T_default builtin_rule (0, 0) 0).

(* ------------------------------------------------------------------ cached limiters *)
(* rule kinds: NoLimitRateLimiterRule (limit Inf) and LimitRateLimiterRule / zero burst have no rate.Limiter *)
Definition rule_nolimit := 13.
Definition rule_zero := 14.
Definition rule_is_real (r : N) : bool := negb ((r =? rule_nolimit) || (r =? rule_zero)).

(* *RateLimiter: type, rule (limit, burst), desc, checksum, updatedAt and the identity of the embedded
   *rate.Limiter (generation number; 0 = nil) *)
Record limiter := mkLim { l_dec : decision; l_updated : Z; l_gen : N }.

Definition l_type (l : limiter) : N := d_type (l_dec l).

(* NewRateLimiter / RateLimiter.Update: a new rate.Limiter is made when there was none or limit/burst differ;
   [next] is the next unused generation number *)
Definition new_limiter (d : decision) (now : Z) (next : N) : limiter * N :=
  if rule_is_real (d_rule d) then (mkLim d now next, next + 1) else (mkLim d now 0, next).

Definition update_limiter (l : limiter) (d : decision) (now : Z) (next : N) : limiter * N :=
  if (l_gen l =? 0) || negb (d_rule (l_dec l) =? d_rule d)
  then new_limiter d now next
  else (mkLim d now (l_gen l), next).

(* RateLimiterRules.ruleByNode = Some result when `found` *)
Definition rule_by_node (R : rules) (h : N) (node : option N) (l : limiter) (now : Z) (next : N)
  : option (limiter * N) :=
  match node with
  | None => None
  | Some n =>
      let by_node :=
        match r_nodes R with
        | Some (_, at_) => (l_type l =? T_node) && (at_ <=? l_updated l)%Z
        | None => false
        end in
      if by_node then Some (l, next)
      else
        match r_suffrage R with
        | Some (rm, at_) =>
            if (l_type l =? T_suffrage) && (at_ <=? l_updated l)%Z then
              let '(err, st, members) := r_cons R in
              if err then None
              else if negb (mem n members) then None
              else if negb (st =? d_checksum (l_dec l)) then
                match suffrage_rule rm (r_cons R) h n with
                | Some d => Some (update_limiter l d now next)
                | None => None
                end
              else Some (l, next)
            else None
        | None => None
        end
  end.

(* RateLimiterRules.Rule(addr, handler, hint, l) *)
Definition Rule (R : rules) (addr h cid : N) (node : option N) (cached : option limiter) (now : Z) (next : N)
  : limiter * N :=
  match cached with
  | None => new_limiter (fresh R addr h cid node) now next
  | Some l =>
      let c1 := match r_clientid R with
                | Some (_, at_) => negb (cid =? 0) && (l_type l =? T_clientid) && (at_ <=? l_updated l)%Z
                | None => false
                end in
      if c1 then (l, next)
      else
        let c2 := match r_nets R with
                  | Some (_, at_) => (l_type l =? T_net) && (at_ <=? l_updated l)%Z
                  | None => false
                  end in
        if c2 then (l, next)
        else
          match rule_by_node R h node l now next with
          | Some r => r
          | None =>
              let '(d, refreshed) := rule R addr h cid node (l_type l) (l_updated l) in
              if refreshed then update_limiter l d now next else (l, next)
          end
  end.

(* ------------------------------------------------------------------ the handler state and its ops *)
Record hstate := mkH {
  h_rules : rules;
  h_limiters : list (N * limiter);     (* key = addr * 16 + handler *)
  h_nodes : list (N * N);              (* addrPool.addrs: addr -> node *)
  h_next : N;                          (* next rate.Limiter generation *)
  h_queue : list N                     (* rateLimitAddrsQueue: addresses, oldest first *)
}.

Definition key (addr h : N) : N := addr * 16 + h.

(* NewRateLimiterRules(): default map with the built-in default, the built-in suffrage rule set (rules 15/16
   for handler 2 = block map; see harness), nobody in consensus *)
Definition init_rules : rules :=
  mkRules None None None (Some (mkRM (Some 15) [(2, 16)], 0%Z)) (mkRM (Some builtin_rule) []) 0%Z (false, 0, []).

Definition init : hstate := mkH init_rules [] [] 1 [].

Inductive op :=
| OReq (addr h cid : N)
| OAddNode (addr node : N)
| ORemoveAddr (addr : N)
| OShrink (maxaddrs : N)
| OSetClientID (s : option (list (N * rulemap)))
| OSetNets (s : option (list (N * list N * rulemap)))     (* sequence of Add(ipnet, rulemap) *)
| OSetNodes (s : option (list (N * rulemap)))
| OSetSuffrage (rm : rulemap)
| OSetDefaultMap (rm : rulemap)
| OSetConsensus (c : consensus).

Definition nets_of_adds (adds : list (N * list N * rulemap)) : netset :=
  fold_left (fun ns a => let '(nid, contained, rm) := a in
                         mkNets (ns_ipnets ns ++ [(nid, contained)]) (aset nid rm (ns_rules ns)))
            adds (mkNets [] []).

Definition set_rules (s : hstate) (R : rules) : hstate := mkH R (h_limiters s) (h_nodes s) (h_next s) (h_queue s).

(* observable result of an op: for a request the limiter used; for AddNode / RemoveAddr the returned bool *)
Inductive out := OutLim (l : limiter) | OutBool (b : bool) | OutCount (n : N) | OutNone.

(* addrPool.remove(addr): limiters, node identity and queue entry of the address are dropped *)
Definition remove_addr (s : hstate) (addr : N) : hstate :=
  mkH (h_rules s) (filter (fun p => negb (fst p / 16 =? addr)) (h_limiters s)) (aremove addr (h_nodes s))
      (h_next s) (filter (fun a => negb (a =? addr)) (h_queue s)).

Definition step (s : hstate) (o : op) (now : Z) : hstate * out :=
  let R := h_rules s in
  match o with
  | OReq addr h cid =>
      (* addrPool.rateLimiter: hint.Node from the pool's addrs *)
      let node := aget addr (h_nodes s) in
      let '(l, next) := Rule R addr h cid node (aget (key addr h) (h_limiters s)) now (h_next s) in
      (* `if i.Len() < 1 { p.addrsQueue.Add(addr) }`: a new address goes to the back of the queue *)
      let known := existsb (fun p => fst p / 16 =? addr) (h_limiters s) in
      let q := if known then h_queue s else filter (fun a => negb (a =? addr)) (h_queue s) ++ [addr] in
      (mkH R (aset (key addr h) l (h_limiters s)) (h_nodes s) next q, OutLim l)
  | OAddNode addr node =>
      (* addNode: only when the addr has limiters, and only the first node *)
      let known := existsb (fun p => fst p / 16 =? addr) (h_limiters s) in
      match known, aget addr (h_nodes s) with
      | true, None => (mkH R (h_limiters s) (aset addr node (h_nodes s)) (h_next s) (h_queue s), OutBool true)
      | _, _ => (s, OutBool false)
      end
  | ORemoveAddr addr =>
      let known := existsb (fun p => fst p / 16 =? addr) (h_limiters s) in
      (remove_addr s addr, OutBool known)
  | OShrink maxaddrs =>
      (* addrPool.shrink: nothing expires within a history; shrinkAddrsQueue pops the oldest addresses while
         the queue is longer than MaxAddrs and removes each (limiters, node identity) *)
      let n := (length (h_queue s) - N.to_nat maxaddrs)%nat in
      (fold_left remove_addr (firstn n (h_queue s)) s, OutCount (N.of_nat n))
  | OSetClientID x =>
      (set_rules s (mkRules (match x with Some m => Some (m, now) | None => None end)
                            (r_nets R) (r_nodes R) (r_suffrage R) (r_defaultmap R) (r_defaultmap_at R) (r_cons R)),
       OutNone)
  | OSetNets x =>
      (set_rules s (mkRules (r_clientid R)
                            (match x with Some adds => Some (nets_of_adds adds, now) | None => None end)
                            (r_nodes R) (r_suffrage R) (r_defaultmap R) (r_defaultmap_at R) (r_cons R)),
       OutNone)
  | OSetNodes x =>
      (set_rules s (mkRules (r_clientid R) (r_nets R)
                            (match x with Some m => Some (m, now) | None => None end)
                            (r_suffrage R) (r_defaultmap R) (r_defaultmap_at R) (r_cons R)),
       OutNone)
  | OSetSuffrage rm =>
      (set_rules s (mkRules (r_clientid R) (r_nets R) (r_nodes R) (Some (rm, now))
                            (r_defaultmap R) (r_defaultmap_at R) (r_cons R)), OutNone)
  | OSetDefaultMap rm =>
      (set_rules s (mkRules (r_clientid R) (r_nets R) (r_nodes R) (r_suffrage R) rm now (r_cons R)), OutNone)
  | OSetConsensus c =>
      (set_rules s (mkRules (r_clientid R) (r_nets R) (r_nodes R) (r_suffrage R)
                            (r_defaultmap R) (r_defaultmap_at R) c), OutNone)
  end.

(* ------------------------------------------------------------------ correspondence *)
(* observation of a request = [type; rule; desc kind; desc arg; checksum; generation], of AddNode / RemoveAddr
   = [0|1], of a rule-set op = [] *)
Definition obs_of (o : out) : list N :=
  match o with
  | OutLim l => let d := l_dec l in [d_type d; d_rule d; fst (d_desc d); snd (d_desc d); d_checksum d; l_gen l]
  | OutBool b => [if b then 1 else 0]
  | OutCount n => [n]
  | OutNone => []
  end.

Fixpoint list_eqb' {A} (eqb : A -> A -> bool) (a b : list A) : bool :=
  match a, b with
  | [], [] => true
  | x :: a', y :: b' => eqb x y && list_eqb' eqb a' b'
  | _, _ => false
  end.

Fixpoint check_from (s : hstate) (now : Z) (c : list (op * list N)) : bool :=
  match c with
  | [] => true
  | (o, ob) :: r =>
      let '(s', out) := step s o now in
      list_eqb' N.eqb (obs_of out) ob && check_from s' (now + 1)%Z r
  end.

Definition check (c : list (op * list N)) : bool := check_from init 1%Z c.

(* ------------------------------------------------------------------ token bucket (x/time/rate, trusted) *)
(* rate.Limiter with limit = p/q tokens per nanosecond and burst b; tokens are kept scaled by q (an integer
   number of 1/q tokens), time is in integer nanoseconds.  AllowN(t, 1) = reserveN(t, 1, 0).ok:
     last := min(last, t); tokens := min(b, tokens + (t - last) * limit); tokens -= 1;
     ok := tokens >= 0, or the wait -tokens/limit truncated to whole nanoseconds is 0, i.e. -tokens < limit*1ns;
     the state (last := t, tokens) is stored only when ok. *)
Open Scope Z_scope.

Record bucket := mkB { b_tok : Z; b_last : Z }.

Definition b_avail (p q b : Z) (s : bucket) (t : Z) : Z :=
  Z.min (b * q) (b_tok s + p * (t - Z.min (b_last s) t)).

Definition allow (p q b : Z) (s : bucket) (t : Z) : bucket * bool :=
  let tk := b_avail p q b s t in
  if q - tk <? p then (mkB (tk - q) t, true) else (s, false).

(* the idealised bucket of the documentation: a request needs one whole token *)
Definition allow_ideal (p q b : Z) (s : bucket) (t : Z) : bucket * bool :=
  let tk := b_avail p q b s t in
  if q <=? tk then (mkB (tk - q) t, true) else (s, false).

Definition stepper := bucket -> Z -> bucket * bool.

Fixpoint run_bucket (f : stepper) (s : bucket) (ts : list Z) : bucket * list bool :=
  match ts with
  | [] => (s, [])
  | t :: r => let '(s', ok) := f s t in
              let '(s'', oks) := run_bucket f s' r in (s'', ok :: oks)
  end.

Definition count_true (l : list bool) : Z := Z.of_nat (length (filter (fun b => b) l)).

(* rate.NewLimiter(limit, b): full bucket *)
Definition bucket_init (q b t0 : Z) : bucket := mkB (b * q) t0.

(* correspondence case for the bucket: (interval ns (limit = 1 token / interval), burst, times, observed) *)
Definition check_bucket (c : Z * Z * list Z * list bool) : bool :=
  let '(q, b, ts, obs) := c in
  match ts with
  | [] => true
  | t0 :: _ => list_eqb' Bool.eqb (snd (run_bucket (allow 1 q b) (bucket_init q b t0) ts)) obs
  end.

Inductive vcase := CH (c : list (op * list N)) | CB (c : Z * Z * list Z * list bool).

Definition check_any (c : vcase) : bool :=
  match c with
  | CH c => check c
  | CB c => check_bucket c
  end.

(* ------------------------------------------------------------------ histories (for the theorems) *)
Open Scope N_scope.

Fixpoint run_from (s : hstate) (now : Z) (ops : list op) : hstate * list out :=
  match ops with
  | [] => (s, [])
  | o :: r => let '(s', x) := step s o now in
              let '(s'', xs) := run_from s' (now + 1)%Z r in (s'', x :: xs)
  end.

Definition run (ops : list op) : hstate * list out := run_from init 1%Z ops.

(* the consensus answer replaced (it changes with the chain, not with the configuration) *)
Definition with_cons (R : rules) (c : consensus) : rules :=
  mkRules (r_clientid R) (r_nets R) (r_nodes R) (r_suffrage R) (r_defaultmap R) (r_defaultmap_at R) c.

Definition at_le (A : Type) (x : option (A * Z)) (t : Z) : Prop :=
  match x with Some (_, a) => (a <= t)%Z | None => True end.

(* no rule set was installed after time t *)
Definition static_since (R : rules) (t : Z) : Prop :=
  at_le _ (r_clientid R) t /\ at_le _ (r_nets R) t /\ at_le _ (r_nodes R) t /\ at_le _ (r_suffrage R) t /\
  (r_defaultmap_at R <= t)%Z.
