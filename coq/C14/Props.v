From MV Require Import Common.Batch C14.Model.
Theorem C14_placeholder : True. Proof. exact I. Qed.
