(* C14 -- Block-map chain validation accepts exactly linked chains.  Property theorems only.
   Model: C14/Model.v (BatchIsValidMaps / IsValidMaps of base/block.go over the shared util.BatchWork
   model Common/Batch.v); the slot-placement argument is Common/Chain.v. *)
From Coq Require Import List ZArith NArith Arith Permutation.
From MV Require Import Common.Batch C14.Model C14.Proofs.
Import ListNotations.
Open Scope nat_scope.

(* util.BatchWork hands out every index of [0..size-1] exactly once, in batches of at most [limit]
   consecutive indices whose [last] is the last index of the batch (all size, limit >= 1). *)
Theorem C14_batches_partition : forall size limit, 1 <= limit -> 1 <= size ->
  NoDup (concat (map snd (batches size limit))) /\
  (forall i, In i (concat (map snd (batches size limit))) <-> i < size) /\
  Forall (fun b => snd b <> [] /\ length (snd b) <= limit /\ last (snd b) 0 = fst b) (batches size limit).
Proof. exact batches_partition. Qed.

(* For EVERY remote [fetch] (no hypothesis on what it returns), every batch limit >= 1, every range
   size >= 1 and every order in which the maps of each batch arrive: validation succeeds exactly
   when, for every offset i, the remote answered with a map of the requested height whose manifest
   points to the hash of the previous map (the given [prev] for the first; the genesis map needs no
   previous) -- and no callback failed.  [lp_ok prev]: the given previous map has a height >= 0. *)
Theorem C14_sound_complete : forall prev fetch cb_fail limit size orders,
  1 <= limit -> 1 <= size -> lp_ok prev ->
  valid_orders (batches size limit) orders ->
  ((exists s, batch_is_valid_maps prev fetch cb_fail limit size orders = Ok s) <->
   ((forall i, i < size -> good prev fetch i) /\ (forall i, i < size -> cb_fail i = false))).
Proof. intros. apply sound_complete; assumption. Qed.

(* non-vacuity: an honest chain of 5 after a map of height 7 is accepted with limit 3 in reversed
   arrival order; the formerly accepted answer (height 12 answered with the map of height 11) is
   rejected *)
Definition ex_prev : option bmap := Some {| mh := 7%Z; mhash := 100%N; mprev := 99%N |}.
Definition ex_fetch (i : nat) : option bmap :=
  Some {| mh := (8 + Z.of_nat i)%Z; mhash := (101 + N.of_nat i)%N; mprev := (100 + N.of_nat i)%N |}.
Definition ex_orders : list (list nat) := map (fun b => rev (snd b)) (batches 5 3).

Example C14_example_ok :
  exists s, batch_is_valid_maps ex_prev ex_fetch (fun _ => false) 3 5 ex_orders = Ok s.
Proof. eexists. vm_compute. reflexivity. Qed.

Example C14_example_valid_orders : valid_orders (batches 5 3) ex_orders.
Proof.
  unfold ex_orders. induction (batches 5 3); constructor; auto. apply Permutation_rev.
Qed.

Example C14_example_wrong_height :
  batch_is_valid_maps ex_prev (fun i => if Nat.eqb i 4 then ex_fetch 3 else ex_fetch i) (fun _ => false) 3 5
    (in_order (batches 5 3)) = Err EHeight.
Proof. vm_compute. reflexivity. Qed.

Example C14_example_broken_link :
  batch_is_valid_maps ex_prev
    (fun i => if Nat.eqb i 2 then Some {| mh := 10%Z; mhash := 103%N; mprev := 555%N |} else ex_fetch i)
    (fun _ => false) 3 5 ex_orders = Err ELink.
Proof. vm_compute. reflexivity. Qed.
