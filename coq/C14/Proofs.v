(* C14 -- lemmas.  BatchIsValidMaps = Ok  <->  every served map has the requested height and points
   to its predecessor (and no callback failed), for every limit and every arrival order. *)
From Coq Require Import List Arith Bool ZArith NArith PeanoNat Lia Permutation.
From MV Require Import Common.Batch Common.Chain C14.Model.
Import ListNotations.
Open Scope Z_scope.

Definition lp_ok (lp : option bmap) : Prop := match lp with Some p => 0 <= mh p | None => True end.

Lemma seq_app_inv : forall (a' n' a m : nat) rest, (1 <= n')%nat ->
  seq a' n' ++ rest = seq a m -> a' = a /\ rest = seq (a + n') (m - n') /\ (n' <= m)%nat.
Proof.
  intros a' n' a m rest Hn H.
  assert (Hlen : (n' + length rest = m)%nat).
  { apply (f_equal (@length nat)) in H. rewrite app_length, !seq_length in H. assumption. }
  assert (Ha : a' = a).
  { destruct n' as [|n'']; [lia|]. destruct m as [|m']; [lia|]. cbn in H. inversion H. reflexivity. }
  subst a'. split; [reflexivity|]. split; [|lia].
  replace m with (n' + (m - n'))%nat in H by lia. rewrite seq_app in H.
  apply app_inv_head in H. assumption.
Qed.

(* IsValidMaps is the generic slot placement of Common/Chain.v *)
Lemma ivm_place : forall m ms lp j x,
  lp_ok lp -> mh m = height_of_prev lp + Z.of_nat j + 1 ->
  (is_valid_maps m ms lp = Ok x <-> place link ms lp j m = Some x).
Proof.
  intros m ms lp j x Hlp Hm. unfold is_valid_maps, place, place_ok.
  replace (mh m - height_of_prev lp - 1) with (Z.of_nat j) by lia.
  rewrite Nat2Z.id.
  destruct (Z.ltb_spec (Z.of_nat j) 0); [lia|]. cbn [orb].
  rewrite Z.geb_leb.
  destruct (Nat.ltb_spec j (length ms)); destruct (Z.leb_spec (Z.of_nat (length ms)) (Z.of_nat j)); try lia.
  2:{ split; discriminate. }
  destruct j as [|j'].
  - cbn [Z.of_nat Z.eqb Nat.eqb].
    destruct (Z.eqb_spec (mh m) 0) as [Hg|Hg].
    + assert (Hn : lp = None).
      { destruct lp as [p|]; [|reflexivity]. cbn in Hm, Hlp. lia. }
      subst lp. cbn [link].
      destruct (nth (0 + 1) (updl ms 0 (Some m)) None) as [q|]; cbn [andb].
      * destruct (manifests_ok q (mhash m)); split; intros H'; inversion H'; reflexivity.
      * split; intros H'; inversion H'; reflexivity.
    + destruct lp as [p|]; [|cbn in Hm; lia]. cbn [link].
      destruct (manifests_ok m (mhash p)); cbn [andb].
      * destruct (nth (0 + 1) (updl ms 0 (Some m)) None) as [q|].
        -- destruct (manifests_ok q (mhash m)); split; intros H'; inversion H'; reflexivity.
        -- split; intros H'; inversion H'; reflexivity.
      * split; discriminate.
  - destruct (Z.eqb_spec (Z.of_nat (S j')) 0); [lia|]. cbn [Nat.eqb].
    destruct (nth (S j' - 1) (updl ms (S j') (Some m)) None) as [q0|]; cbn [link].
    + destruct (manifests_ok m (mhash q0)); cbn [andb].
      * destruct (nth (S j' + 1) (updl ms (S j') (Some m)) None) as [q|].
        -- destruct (manifests_ok q (mhash m)); split; intros H'; inversion H'; reflexivity.
        -- split; intros H'; inversion H'; reflexivity.
      * split; discriminate.
    + cbn [andb]. destruct (nth (S j' + 1) (updl ms (S j') (Some m)) None) as [q|].
      * destruct (manifests_ok q (mhash m)); split; intros H'; inversion H'; reflexivity.
      * split; intros H'; inversion H'; reflexivity.
Qed.

Section P.
  Variable prev : option bmap.
  Variable fetch : nat -> option bmap.
  Variable cb_fail : nat -> bool.
  Variable limit : nat.
  Hypothesis Hlimit : (1 <= limit)%nat.
  Hypothesis Hprev : lp_ok prev.

  Let P := prevheight prev.
  Definition dummy : bmap := {| mh := 0; mhash := 0%N; mprev := 0%N |}.
  Definition g (i : nat) : bmap := match fetch i with Some m => m | None => dummy end.
  Definition lp_of (a : nat) : option bmap := match a with O => prev | S a' => Some (g a') end.

  Definition pre_good (i : nat) : Prop := exists m, fetch i = Some m /\ mh m = P + Z.of_nat i + 1.
  Definition good' (i : nat) : Prop := pre_good i /\ link (lp_of i) (g i) = true.

  Lemma P_ge : -1 <= P.
  Proof. unfold P, prevheight, height_of_prev. destruct prev as [p|]; cbn in *; lia. Qed.

  Lemma pre_good_g : forall i, pre_good i -> fetch i = Some (g i) /\ mh (g i) = P + Z.of_nat i + 1.
  Proof. intros i [m [Hf Hm]]. unfold g. rewrite Hf. auto. Qed.

  Lemma lp_of_ok : forall a, (forall i, (i < a)%nat -> pre_good i) ->
    lp_ok (lp_of a) /\ height_of_prev (lp_of a) = P + Z.of_nat a.
  Proof.
    intros a H. destruct a as [|a'].
    - cbn. split; [assumption|]. unfold P, prevheight. lia.
    - assert (Hg : pre_good a') by (apply H; lia). apply pre_good_g in Hg. destruct Hg as [_ Hm].
      cbn [lp_of lp_ok height_of_prev]. pose proof P_ge. split; lia.
  Qed.

  Definition in_b (a n : nat) (order : list nat) : Prop := Forall (fun i => (a <= i < a + n)%nat) order.

  (* ---------------------------------------------------------------- the jobs of one batch *)

  Lemma run_jobs_sound : forall a n last LP order s s',
    in_b a n order -> lastprev s = LP -> lp_ok LP -> height_of_prev LP = P + Z.of_nat a ->
    run_jobs (job prev fetch cb_fail) last order s = Ok s' ->
    (forall i, In i order -> pre_good i /\ cb_fail i = false) /\
    run_place link g a LP order (maps s) = Some (maps s') /\
    lastprev s' = LP /\
    (In last order -> newprev s' = Some (g last)) /\
    (~ In last order -> newprev s' = newprev s).
  Proof.
    intros a n last LP order. induction order as [|i r IH]; intros s s' Hin Hlp Hok Hh Hrun.
    - cbn in Hrun. inversion Hrun; subst. cbn. repeat split; auto; intros; contradiction.
    - inversion Hin as [|x y Hi Hr]; subst.
      cbn [run_jobs] in Hrun.
      destruct (job prev fetch cb_fail i last s) as [s1|e] eqn:Ej; [|discriminate].
      unfold job in Ej. fold P in Ej.
      destruct (fetch i) as [m|] eqn:Ef; [|discriminate].
      destruct (Z.eqb_spec (mh m) (P + Z.of_nat i + 1)) as [Hm|Hm]; cbn [negb] in Ej; [|discriminate].
      destruct (is_valid_maps m (maps s) (lastprev s)) as [ms'|e] eqn:Ev; [|discriminate].
      destruct (cb_fail i) eqn:Ecb; [discriminate|].
      inversion Ej; subst s1; clear Ej.
      assert (Hgi : g i = m) by (unfold g; rewrite Ef; reflexivity).
      apply (ivm_place m (maps s) (lastprev s) (i - a) ms') in Ev; [|assumption|rewrite Hh; lia].
      apply IH in Hrun; [|assumption|reflexivity|assumption|assumption].
      cbn [maps lastprev newprev] in Hrun.
      destruct Hrun as [Hall [Hrp [Hlp' [Hn1 Hn2]]]].
      split; [|split; [|split; [assumption|split]]].
      + intros k [Hk|Hk]; [subst k|apply Hall; assumption].
        split; [exists m; auto|assumption].
      + cbn [run_place]. rewrite Hgi, Ev. assumption.
      + intros Hl. destruct (in_dec Nat.eq_dec last r) as [Hlr|Hlr]; [apply Hn1; assumption|].
        rewrite Hn2 by assumption. destruct Hl as [Hl|Hl]; [|contradiction]. subst i.
        fold P. destruct (Z.eqb_spec (mh m) (P + Z.of_nat last + 1)); [|lia]. rewrite Hgi. reflexivity.
      + intros Hl. rewrite Hn2 by (intros Hx; apply Hl; right; assumption).
        fold P. destruct (Z.eqb_spec (mh m) (P + Z.of_nat last + 1)) as [He|He]; [|reflexivity].
        exfalso. apply Hl. left. lia.
  Qed.

  Lemma run_jobs_complete : forall a n last LP order s ms,
    in_b a n order -> lastprev s = LP -> lp_ok LP -> height_of_prev LP = P + Z.of_nat a ->
    (forall i, In i order -> pre_good i /\ cb_fail i = false) ->
    run_place link g a LP order (maps s) = Some ms ->
    exists s', run_jobs (job prev fetch cb_fail) last order s = Ok s' /\ maps s' = ms /\ lastprev s' = LP /\
               (In last order -> newprev s' = Some (g last)) /\
               (~ In last order -> newprev s' = newprev s).
  Proof.
    intros a n last LP order. induction order as [|i r IH]; intros s ms Hin Hlp Hok Hh Hall Hrp.
    - cbn in Hrp. inversion Hrp; subst. exists s. cbn. repeat split; auto; intros; contradiction.
    - inversion Hin as [|x y Hi Hr]; subst.
      destruct (Hall i (or_introl eq_refl)) as [Hpg Hcb]. apply pre_good_g in Hpg. destruct Hpg as [Hf Hm].
      cbn [run_place] in Hrp.
      destruct (place link (maps s) (lastprev s) (i - a) (g i)) as [ms1|] eqn:Epl; [|discriminate].
      apply (ivm_place (g i) (maps s) (lastprev s) (i - a) ms1) in Epl; [|assumption|rewrite Hh; lia].
      set (s1 := {| maps := ms1; lastprev := lastprev s;
                    newprev := if mh (g i) =? P + Z.of_nat last + 1 then Some (g i) else newprev s |}).
      assert (Ej : job prev fetch cb_fail i last s = Ok s1).
      { unfold job. fold P. rewrite Hf.
        destruct (Z.eqb_spec (mh (g i)) (P + Z.of_nat i + 1)); [|lia]. cbn [negb].
        rewrite Epl, Hcb. reflexivity. }
      destruct (IH s1 ms Hr eq_refl Hok Hh (fun k Hk => Hall k (or_intror Hk)) Hrp)
        as [s' [Hrun [Hms [Hlp' [Hn1 Hn2]]]]].
      exists s'. cbn [run_jobs]. rewrite Ej. split; [assumption|]. split; [assumption|]. split; [assumption|].
      cbn [newprev s1] in Hn2. split.
      + intros Hl. destruct (in_dec Nat.eq_dec last r) as [Hlr|Hlr]; [apply Hn1; assumption|].
        rewrite Hn2 by assumption. destruct Hl as [Hl|Hl]; [|contradiction]. subst i.
        unfold s1. cbn [newprev].
        destruct (Z.eqb_spec (mh (g last)) (P + Z.of_nat last + 1)); [reflexivity|lia].
      + intros Hl. rewrite Hn2 by (intros Hx; apply Hl; right; assumption).
        unfold s1. cbn [newprev].
        destruct (Z.eqb_spec (mh (g i)) (P + Z.of_nat last + 1)) as [He|He]; [|reflexivity].
        exfalso. apply Hl. left. lia.
  Qed.

  (* ---------------------------------------------------------------- one batch *)

  Lemma linked_at_lp_of : forall a j, linked_at link g a (lp_of a) j = link (lp_of (a + j)) (g (a + j)).
  Proof.
    intros a j. unfold linked_at. destruct j as [|j'].
    - cbn [Nat.eqb]. rewrite Nat.add_0_r. reflexivity.
    - cbn [Nat.eqb]. replace (a + S j')%nat with (S (a + j'))%nat by lia. cbn [lp_of].
      replace (S (a + j') - 1)%nat with (a + j')%nat by lia. reflexivity.
  Qed.

  Lemma perm_in_b : forall a n order, Permutation (seq a n) order -> in_b a n order.
  Proof.
    intros a n order Hp. apply Forall_forall. intros i Hi. apply Permutation_sym in Hp.
    apply (Permutation_in _ Hp) in Hi. apply in_seq in Hi. lia.
  Qed.

  (* ---------------------------------------------------------------- all batches *)

  Lemma run_batches_sound : forall size bs orders a m s s',
    Forall (batch_wf size limit) bs -> valid_orders bs orders ->
    concat (map snd bs) = seq a m ->
    newprev s = lp_of a -> (forall i, (i < a)%nat -> pre_good i) ->
    run_batches (pref limit) (job prev fetch cb_fail) bs orders s = Ok s' ->
    (forall i, (a <= i < a + m)%nat -> good' i /\ cb_fail i = false) /\ newprev s' = lp_of (a + m).
  Proof.
    intros size bs. induction bs as [|b bs IH]; intros orders a m s s' Hwf Hvo Hcc Hnp Hpre Hrun.
    - cbn in Hcc. destruct m; [|discriminate]. cbn in Hrun. inversion Hrun; subst.
      split; [intros; lia|]. rewrite Nat.add_0_r. assumption.
    - inversion Hwf as [|x y Hb Hwf']; subst.
      inversion Hvo as [|x o l os Hperm Hvo']; subst.
      destruct (batch_wf_shape _ _ _ Hlimit Hb) as [k [n [Hsnd [Hn [Hfst [Hle Hr]]]]]].
      cbn [map concat] in Hcc. rewrite Hsnd in Hcc.
      apply seq_app_inv in Hcc; [|lia]. destruct Hcc as [Ha [Hrest Hnm]].
      rewrite Hsnd in Hperm. rewrite Ha in *. clear Ha.
      cbn [run_batches hd tl] in Hrun. unfold pref at 1 in Hrun. rewrite <- Hr in Hrun.
      match type of Hrun with context [run_jobs _ _ _ ?st] => set (s1 := st) in * end.
      destruct (run_jobs (job prev fetch cb_fail) (fst b) o s1) as [s2|e] eqn:Ej; [|discriminate].
      destruct (lp_of_ok a Hpre) as [Hok Hh].
      apply (run_jobs_sound a n (fst b) (lp_of a)) in Ej;
        [|apply perm_in_b; assumption|unfold s1; cbn; assumption|assumption|assumption].
      destruct Ej as [Hall [Hrp [Hlp' [Hn1 _]]]].
      unfold s1 in Hrp. cbn [maps] in Hrp.
      destruct (run_place_iff bmap link g a n (lp_of a) o Hperm) as [Hsound _].
      destruct (Hsound _ Hrp) as [_ Hlinked].
      assert (Hgood : forall i, (a <= i < a + n)%nat -> good' i /\ cb_fail i = false).
      { intros i Hi. assert (Hio : In i o) by (apply (Permutation_in _ Hperm), in_seq; lia).
        destruct (Hall i Hio) as [Hpg Hcb]. split; [|assumption]. split; [assumption|].
        specialize (Hlinked (i - a)%nat ltac:(lia)). rewrite linked_at_lp_of in Hlinked.
        replace (a + (i - a))%nat with i in Hlinked by lia. assumption. }
      assert (Hnp2 : newprev s2 = lp_of (a + n)).
      { rewrite Hn1 by (apply (Permutation_in _ Hperm), in_seq; lia).
        replace (a + n)%nat with (S (fst b)) by lia. reflexivity. }
      assert (Hpre2 : forall i, (i < a + n)%nat -> pre_good i).
      { intros i Hi. destruct (Nat.lt_ge_cases i a); [apply Hpre; assumption|]. apply Hgood. lia. }
      destruct (IH os (a + n)%nat (m - n)%nat s2 s' Hwf' Hvo' Hrest Hnp2 Hpre2 Hrun) as [Hg2 Hnp3].
      split.
      + intros i Hi. destruct (Nat.lt_ge_cases i (a + n)); [apply Hgood; lia|apply Hg2; lia].
      + rewrite Hnp3. f_equal. lia.
  Qed.

  Lemma run_batches_complete : forall size bs orders a m s,
    Forall (batch_wf size limit) bs -> valid_orders bs orders ->
    concat (map snd bs) = seq a m ->
    newprev s = lp_of a ->
    (forall i, (i < a + m)%nat -> good' i /\ cb_fail i = false) ->
    exists s', run_batches (pref limit) (job prev fetch cb_fail) bs orders s = Ok s'.
  Proof.
    intros size bs. induction bs as [|b bs IH]; intros orders a m s Hwf Hvo Hcc Hnp Hgood.
    - exists s. reflexivity.
    - inversion Hwf as [|x y Hb Hwf']; subst.
      inversion Hvo as [|x o l os Hperm Hvo']; subst.
      destruct (batch_wf_shape _ _ _ Hlimit Hb) as [k [n [Hsnd [Hn [Hfst [Hle Hr]]]]]].
      cbn [map concat] in Hcc. rewrite Hsnd in Hcc.
      apply seq_app_inv in Hcc; [|lia]. destruct Hcc as [Ha [Hrest Hnm]].
      rewrite Hsnd in Hperm. rewrite Ha in *. clear Ha.
      assert (Hpre : forall i, (i < a)%nat -> pre_good i) by (intros i Hi; apply Hgood; lia).
      destruct (lp_of_ok a Hpre) as [Hok Hh].
      destruct (run_place_iff bmap link g a n (lp_of a) o Hperm) as [_ Hcomplete].
      assert (Hlinked : forall j, (j < n)%nat -> linked_at link g a (lp_of a) j = true).
      { intros j Hj. rewrite linked_at_lp_of. apply Hgood. lia. }
      specialize (Hcomplete Hlinked).
      cbn [run_batches hd tl]. unfold pref at 1. rewrite <- Hr.
      match goal with |- context [run_jobs _ _ _ ?st] => set (s1 := st) end.
      assert (Hs1 : lastprev s1 = lp_of a) by (unfold s1; cbn; assumption).
      assert (Hallo : forall i, In i o -> pre_good i /\ cb_fail i = false).
      { intros i Hi. apply Permutation_sym in Hperm. apply (Permutation_in _ Hperm), in_seq in Hi.
        apply Permutation_sym in Hperm.
        destruct (Hgood i ltac:(lia)) as [[Hpg _] Hcb]. auto. }
      destruct (run_jobs_complete a n (fst b) (lp_of a) o s1 (map (fun i => Some (g i)) (seq a n))
                  (perm_in_b _ _ _ Hperm) Hs1 Hok Hh Hallo Hcomplete) as [s2 [Hrun [_ [_ [Hn1 _]]]]].
      rewrite Hrun.
      apply (IH os (a + n)%nat (m - n)%nat s2 Hwf' Hvo' Hrest).
      + rewrite Hn1 by (apply (Permutation_in _ Hperm), in_seq; lia).
        replace (a + n)%nat with (S (fst b)) by lia. reflexivity.
      + intros i Hi. apply Hgood. lia.
  Qed.

  (* good' (internal) vs good (the specification in Model.v) *)
  Lemma good_equiv : forall size,
    (forall i, (i < size)%nat -> good' i) <-> (forall i, (i < size)%nat -> good prev fetch i).
  Proof.
    intros size. split; intros H i Hi.
    - destruct (H i Hi) as [Hpg Hl]. destruct (pre_good_g i Hpg) as [Hf Hm].
      exists (g i). split; [assumption|]. split; [exact Hm|].
      destruct i as [|i']; [exact Hl|].
      destruct (H i' ltac:(lia)) as [Hpg' _]. destruct (pre_good_g i' Hpg') as [Hf' _].
      rewrite Hf'. exact Hl.
    - destruct (H i Hi) as [m [Hf [Hm Hl]]].
      assert (Hgi : g i = m) by (unfold g; rewrite Hf; reflexivity).
      split; [exists m; auto|]. rewrite Hgi.
      destruct i as [|i']; [exact Hl|].
      destruct (H i' ltac:(lia)) as [m' [Hf' _]]. rewrite Hf' in Hl.
      cbn [lp_of]. unfold g. rewrite Hf'. exact Hl.
  Qed.

  Theorem sound_complete : forall size orders, (1 <= size)%nat ->
    valid_orders (batches size limit) orders ->
    ((exists s, batch_is_valid_maps prev fetch cb_fail limit size orders = Ok s) <->
     ((forall i, (i < size)%nat -> good prev fetch i) /\ (forall i, (i < size)%nat -> cb_fail i = false))).
  Proof.
    intros size orders Hs Hvo. unfold batch_is_valid_maps, batch_work.
    destruct (Nat.ltb_spec size 1); [lia|].
    pose proof (batches_wf size limit Hlimit Hs) as Hwf.
    pose proof (batches_concat size limit Hlimit Hs) as Hcc.
    split.
    - intros [s Hrun].
      destruct (run_batches_sound size _ _ 0%nat size (init prev) s Hwf Hvo Hcc eq_refl
                  ltac:(intros; lia) Hrun) as [Hg _].
      split; [apply (proj1 (good_equiv size))|]; intros i Hi; apply Hg; lia.
    - intros [Hg Hcb]. pose proof (proj2 (good_equiv size) Hg) as Hg'.
      apply (run_batches_complete size _ _ 0%nat size (init prev) Hwf Hvo Hcc eq_refl).
      intros i Hi. split; [apply Hg'|apply Hcb]; lia.
  Qed.
End P.
