(* C14 -- block-map chain validation.
   Transcribes base/block.go: BatchIsValidMaps / IsValidMaps / IsValidManifests (after the fix:
   commit: a map whose height is not the requested height is rejected), over the shared model of
   util.BatchWork (Common/Batch.v).

   A block map is reduced to what the validation reads: manifest height, manifest hash, previous
   hash (hashes are opaque identifiers).  The remote is [fetch : offset -> option bmap]
   (None = blockMapf returned an error), offset i = height - prevheight - 1.  It is ARBITRARY.
   No proofs in this file. *)
From Coq Require Import List Arith Bool ZArith NArith PeanoNat.
From MV Require Import Common.Batch Common.Chain Common.Cases.
Import ListNotations.
Open Scope Z_scope.

Record bmap : Type := { mh : Z; mhash : N; mprev : N }.

Inductive ecode : Type :=
| EWrongSize     (* BatchWork: size < 1 *)
| EFetch         (* blockMapf error *)
| EHeight        (* map of another height than requested (the fix) *)
| EWrongIndex    (* IsValidMaps: "wrong index" *)
| ELink          (* IsValidManifests: previous does not match *)
| ECallback      (* callback error *)
| EPanic.        (* nil previous dereferenced *)

Definition height_of_prev (previous : option bmap) : Z :=
  match previous with Some p => mh p | None => -1 end.   (* NilHeight = -1 *)

(* IsValidManifests(m.Manifest(), previous hash) *)
Definition manifests_ok (m : bmap) (prevhash : N) : bool := N.eqb (mprev m) prevhash.

(* IsValidMaps(m, maps, previous): returns the updated slice *)
Definition is_valid_maps (m : bmap) (maps : list (option bmap)) (previous : option bmap)
  : res (list (option bmap)) ecode :=
  let prev := height_of_prev previous in
  let index := mh m - prev - 1 in
  if (index <? 0) || (index >=? Z.of_nat (length maps)) then Err EWrongIndex
  else
    let k := Z.to_nat index in
    let maps' := updl maps k (Some m) in
    let c1 : res unit ecode :=
      if index =? 0 then
        if mh m =? 0 (* GenesisHeight *) then Ok tt
        else match previous with
             | None => Err EPanic
             | Some p => if manifests_ok m (mhash p) then Ok tt else Err ELink
             end
      else match nth (k - 1) maps' None with
           | Some q => if manifests_ok m (mhash q) then Ok tt else Err ELink
           | None => Ok tt
           end in
    match c1 with
    | Err e => Err e
    | Ok _ =>
        match nth (k + 1) maps' None with
        | Some q => if manifests_ok q (mhash m) then Ok maps' else Err ELink
        | None => Ok maps'
        end
    end.

Record st : Type := {
  maps : list (option bmap);
  lastprev : option bmap;
  newprev : option bmap
}.

Section Batch.
  Variable prev : option bmap.          (* the given previous map (nil for genesis) *)
  Variable fetch : nat -> option bmap.  (* blockMapf(prevheight + 1 + i) *)
  Variable cb_fail : nat -> bool.       (* callback(m) fails for offset i *)
  Variable limit : nat.

  Definition prevheight : Z := height_of_prev prev.

  Definition pref (last : nat) (s : st) : res st ecode :=
    let r := ((last + 1) mod limit)%nat in
    Ok {| maps := repeat None (if (r =? 0)%nat then limit else r);
          lastprev := newprev s; newprev := newprev s |}.

  Definition job (i last : nat) (s : st) : res st ecode :=
    let height := prevheight + Z.of_nat i + 1 in
    let lastheight := prevheight + Z.of_nat last + 1 in
    match fetch i with
    | None => Err EFetch
    | Some m =>
        if negb (mh m =? height) then Err EHeight
        else
          match is_valid_maps m (maps s) (lastprev s) with
          | Err e => Err e
          | Ok maps' =>
              let np := if mh m =? lastheight then Some m else newprev s in
              if cb_fail i then Err ECallback
              else Ok {| maps := maps'; lastprev := lastprev s; newprev := np |}
          end
    end.

  Definition init : st := {| maps := []; lastprev := None; newprev := prev |}.

  (* BatchIsValidMaps(ctx, prev, to, limit, blockMapf, callback); size = to - prevheight *)
  Definition batch_is_valid_maps (size : nat) (orders : list (list nat)) : res st ecode :=
    batch_work pref job EWrongSize size limit orders init.
End Batch.

(* ---------------------------------------------------------------- specification *)

(* the chain  prev, fetch 0, fetch 1, ..., fetch (size-1)  is linked *)
Definition link (p : option bmap) (m : bmap) : bool :=
  match p with Some q => manifests_ok m (mhash q) | None => true end.

Definition good (prev : option bmap) (fetch : nat -> option bmap) (i : nat) : Prop :=
  exists m, fetch i = Some m /\ mh m = height_of_prev prev + Z.of_nat i + 1 /\
            link (match i with O => prev | S i' => fetch i' end) m = true.

(* ---------------------------------------------------------------- correspondence *)

Definition code_nat (c : ecode) : nat :=
  match c with
  | EWrongSize => 1 | EFetch => 2 | EHeight => 3 | EWrongIndex => 4 | ELink => 5 | ECallback => 6 | EPanic => 7
  end%nat.

(* orders: the arrival order per batch is given as a key per offset: within a batch, jobs take effect
   in increasing key order (stable) *)
Fixpoint insert_by (key : nat -> nat) (x : nat) (l : list nat) : list nat :=
  match l with
  | [] => [x]
  | y :: r => if (key x <=? key y)%nat then x :: l else y :: insert_by key x r
  end.
Definition sort_by (key : nat -> nat) (l : list nat) : list nat := fold_right (insert_by key) [] l.

Definition mk_map (c : Z * N * N) : bmap := let '(h, x, p) := c in {| mh := h; mhash := x; mprev := p |}.

(* case: (prev, size, limit, maps served per offset (None = error), arrival keys, callback-fail offsets, observed ok?) *)
Definition case : Type :=
  (option (Z * N * N) * nat * nat * list (option (Z * N * N)) * list nat * list nat * bool)%type.

Definition check (c : case) : bool :=
  let '(p, size, limit, served, keys, cbf, obs_ok) := c in
  let prev := option_map mk_map p in
  let fetch := fun i => match nth i served None with Some x => Some (mk_map x) | None => None end in
  let key := fun i => nth i keys 0%nat in
  let orders := map (fun b => sort_by key (snd b)) (batches size limit) in
  let r := batch_is_valid_maps prev fetch (fun i => existsb (Nat.eqb i) cbf) limit size orders in
  Bool.eqb (match r with Ok _ => true | Err _ => false end) obs_ok.
