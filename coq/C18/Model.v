(* C18 -- suffrage history sync.
   Transcribes isaac/suffrage_builder.go: SuffrageStateBuilder.Build / buildBatch / prove (after the
   fix: commit) and the link check isaac/block/suffrage.go: SuffrageProof.Prove, over the shared model
   of util.BatchWork (Common/Batch.v).

   A proof is reduced to what the builder and Prove read: suffrage height, block height (state height =
   manifest height, guaranteed by SuffrageProof.IsValid), state hash, previous state hash (0 = nil),
   whether the fixedtree proof proves the state, and the result of IsValid.  A state is the same
   record (the builder reads a state only through these fields).  Hashes are opaque identifiers.
   The remote ([last], [get]) is ARBITRARY.

   Go panics are explicit: [PPanic] (SuffrageProof.Prove dereferences a nil previous state for a
   non-genesis proof, or calls Equal on a nil previous-state hash) and [EPanic] (slice index out of range).   No proofs in this file. *)
From Coq Require Import List Arith Bool ZArith NArith PeanoNat.
From MV Require Import Common.Batch Common.Chain Common.Cases.
Import ListNotations.
Open Scope Z_scope.

Record prec : Type := {
  sh : Z;        (* SuffrageHeight() *)
  bh : Z;        (* State().Height() = Map().Manifest().Height() *)
  sid : N;       (* State().Hash() *)
  sprev : N;     (* State().Previous() ; 0 = nil *)
  tree_ok : bool;(* the proof's root is Manifest().StatesTree() and Proof().Prove(State().Hash()) succeeds *)
  pvalid : bool  (* IsValid(networkID) succeeds *)
}.

Inductive pres : Type := POk | PErr | PPanic.

(* SuffrageProof.Prove(previousState) *)
Definition prove_proof (p : prec) (previous : option prec) : pres :=
  if bh p =? 0 then                      (* manifest height == GenesisHeight *)
    match previous with
    | Some _ => PErr                     (* "previous state should be nil for genesis" *)
    | None => if tree_ok p then POk else PErr
    end
  else
    match previous with
    | None => PPanic                     (* previousState.Height() on a nil interface *)
    | Some q =>
        if bh p <=? bh q then PErr
        else if N.eqb (sprev p) 0 then PPanic          (* s.st.Previous().Equal(..) on a nil hash *)
        else if negb (N.eqb (sprev p) (sid q)) then PErr
        else if negb (sh p =? sh q + 1) then PErr
        else if tree_ok p then POk else PErr
    end.

Inductive ecode : Type :=
| EWrongSize | EGet | ENotFound | EHeight | EWrongHeight | ENoPrev | ENoPrevHash | EProve | ELast | EInvalid
| ELastErr | ECand | EPanic.

Definition of_pres (r : pres) : res unit ecode :=
  match r with POk => Ok tt | PErr => Err EProve | PPanic => Err EPanic end.

(* proveSuffrageProof(proof, previous): the builder's guards in front of Prove *)
Definition prove_guarded (p : prec) (previous : option prec) : res unit ecode :=
  match previous with
  | None => if negb (bh p =? 0) then Err ENoPrev else of_pres (prove_proof p previous)
  | Some _ => if N.eqb (sprev p) 0 then Err ENoPrevHash else of_pres (prove_proof p previous)
  end.

Definition sh_of_prev (previous : option prec) : Z :=
  match previous with Some q => sh q | None => -1 end.

(* SuffrageStateBuilder.prove(proof, proofs, previous) *)
Definition prove_slot (p : prec) (proofs : list (option prec)) (previous : option prec)
  : res (list (option prec)) ecode :=
  let index := sh p - sh_of_prev previous - 1 in
  if (index <? 0) || (index >=? Z.of_nat (length proofs)) then Err EWrongHeight
  else
    let k := Z.to_nat index in
    let proofs' := updl proofs k (Some p) in
    let c0 : res unit ecode :=
      if index =? 0 then prove_guarded p previous else Ok tt in
    match c0 with
    | Err e => Err e
    | Ok _ =>
        let c1 : res unit ecode :=
          if 0 <? index then
            match nth (k - 1) proofs' None with
            | Some q => prove_guarded p (Some q)
            | None => Ok tt
            end
          else Ok tt in
        match c1 with
        | Err e => Err e
        | Ok _ =>
            match nth (k + 1) proofs' None with
            | Some q => match prove_guarded q (Some p) with Ok _ => Ok proofs' | Err e => Err e end
            | None => Ok proofs'
            end
        end
    end.

Inductive gresp : Type := GErr | GNotFound | GProof (p : prec).
Inductive lresp : Type := LErr | LNotUpdated | LProof (p : prec).

Record st : Type := {
  acc : list (option prec);      (* proofs: the batches done *)
  slots : list (option prec);    (* batch *)
  previous : option prec;
  newprev : option prec
}.

Section Build.
  Variable local : option prec.      (* localstate (nil = from genesis) *)
  Variable get : nat -> gresp.       (* getSuffrageProof(from + i) *)
  Variable limit : nat.

  Definition from : Z := match local with Some l => sh l + 1 | None => 0 end.

  Definition pref (last : nat) (s : st) : res st ecode :=
    let r := ((last + 1) mod limit)%nat in
    Ok {| acc := acc s ++ slots s;
          slots := repeat None (if (r =? 0)%nat then limit else r);
          previous := newprev s; newprev := newprev s |}.

  Definition job (i last : nat) (s : st) : res st ecode :=
    let height := from + Z.of_nat i in
    match get i with
    | GErr => Err EGet
    | GNotFound => Err ENotFound
    | GProof p =>
        if negb (sh p =? height) then Err EHeight
        else
          match prove_slot p (slots s) (previous s) with
          | Err e => Err e
          | Ok slots' =>
              let np := if sh p - from =? Z.of_nat last then Some p else newprev s in
              Ok {| acc := acc s; slots := slots'; previous := previous s; newprev := np |}
          end
    end.

  Definition init : st := {| acc := []; slots := []; previous := None; newprev := local |}.

  (* buildBatch: size = lastheight - from + 1 *)
  Definition build_batch (size : nat) (orders : list (list nat)) : res (list (option prec)) ecode :=
    match batch_work pref job EWrongSize size limit orders init with
    | Err e => Err e
    | Ok s => Ok (acc s ++ slots s)
    end.

  (* Build, up to the candidates call *)
  Definition build (lastr : lresp) (cand_ok : bool) (orders : list (list nat)) : res (list (option prec)) ecode :=
    if (Z.of_nat limit <? 1) then Err EWrongSize
    else
      let r :=
        match lastr with
        | LErr => Err ELastErr
        | LNotUpdated => Ok []
        | LProof p =>
            if negb (pvalid p) then Err EInvalid
            else
              let isnew := match local with
                           | None => true
                           | Some l => (bh l <? bh p) || (sh l <? sh p)
                           end in
              if negb isnew then Ok []
              else
                let size := sh p - from + 1 in
                if size <? 1 then Err EWrongSize
                else
                  match build_batch (Z.to_nat size) orders with
                  | Err e => Err e
                  | Ok ps =>
                      match List.last ps None with
                      | None => Err EPanic      (* ps[len(ps)-1] on an empty slice / a nil proof dereferenced *)
                      | Some q => if N.eqb (sid q) (sid p) then Ok ps else Err ELast
                      end
                  end
        end in
      match r with
      | Err e => Err e
      | Ok ps => if cand_ok then Ok ps else Err ECand
      end.
End Build.

(* ---------------------------------------------------------------- specification *)

(* p is accepted after previous: SuffrageProof.Prove succeeds *)
Definition link (previous : option prec) (p : prec) : bool :=
  match prove_proof p previous with POk => true | _ => false end.

(* ps is a gap-free linked chain starting right after [local] *)
Fixpoint chain_from (previous : option prec) (h : Z) (ps : list prec) : Prop :=
  match ps with
  | [] => True
  | p :: r => sh p = h /\ link previous p = true /\ chain_from (Some p) (h + 1) r
  end.

(* ---------------------------------------------------------------- correspondence *)

Fixpoint insert_by (key : nat -> nat) (x : nat) (l : list nat) : list nat :=
  match l with
  | [] => [x]
  | y :: r => if (key x <=? key y)%nat then x :: l else y :: insert_by key x r
  end.
Definition sort_by (key : nat -> nat) (l : list nat) : list nat := fold_right (insert_by key) [] l.

Definition mk_prec (c : Z * Z * N * N * bool * bool) : prec :=
  let '(a, b, c1, d, e, f) := c in {| sh := a; bh := b; sid := c1; sprev := d; tree_ok := e; pvalid := f |}.

Inductive glit : Type := GErrL | GNotFoundL | GProofL (c : Z * Z * N * N * bool * bool).
Inductive llit : Type := LErrL | LNotUpdatedL | LProofL (c : Z * Z * N * N * bool * bool).

(* case: (local, last, get answers per offset, limit, arrival keys, cand_ok, observed code 0 ok / 1 err / 2 panic,
          observed returned (suffrage height, state id) list) *)
Definition case : Type :=
  (option (Z * Z * N * N * bool * bool) * llit * list glit * nat * list nat * bool * nat * list (option (Z * N)))%type.

Definition out_eqb (a : option prec) (b : option (Z * N)) : bool :=
  match a, b with
  | None, None => true
  | Some p, Some (h, i) => Z.eqb (sh p) h && N.eqb (sid p) i
  | _, _ => false
  end.

Fixpoint outs_eqb (a : list (option prec)) (b : list (option (Z * N))) : bool :=
  match a, b with
  | [], [] => true
  | x :: a', y :: b' => out_eqb x y && outs_eqb a' b'
  | _, _ => false
  end.

Definition check (c : case) : bool :=
  let '(loc, lst, gets, limit, keys, cand_ok, ocode, oout) := c in
  let local := option_map mk_prec loc in
  let last := match lst with LErrL => LErr | LNotUpdatedL => LNotUpdated | LProofL x => LProof (mk_prec x) end in
  let get := fun i => match nth i gets GNotFoundL with
                      | GErrL => GErr | GNotFoundL => GNotFound | GProofL x => GProof (mk_prec x) end in
  let key := fun i => nth i keys 0%nat in
  let size := match last with
              | LProof p => Z.to_nat (sh p - from local + 1)
              | _ => 0%nat
              end in
  let orders := map (fun b => sort_by key (snd b)) (batches size limit) in
  match build local get limit last cand_ok orders with
  | Ok ps => Nat.eqb ocode 0 && outs_eqb ps oout
  | Err EPanic => Nat.eqb ocode 2
  | Err _ => Nat.eqb ocode 1
  end.
