(* C18 -- Suffrage history sync never crashes and accepts only linked proofs.  Property theorems only.
   Model: C18/Model.v (SuffrageStateBuilder.Build / buildBatch / prove of isaac/suffrage_builder.go and
   SuffrageProof.Prove of isaac/block/suffrage.go, over the shared util.BatchWork model). *)
From Coq Require Import List ZArith NArith Arith.
From MV Require Import Common.Batch C18.Model C18.Proofs.
From MV Require Gen.C18.
Import ListNotations.
Open Scope nat_scope.

(* For EVERY remote (what it answers as last proof and for each requested height is arbitrary: wrong
   heights, heights below the local state, foreign chains, proofs whose tree proof fails, genesis-like
   proofs at non-genesis blocks, errors, not-found), every local state, every batch limit and every
   order in which the answers of a batch arrive, the modelled Build never reaches a Go panic (slice
   index out of range, nil previous state in SuffrageProof.Prove, nil proof dereferenced). *)
Theorem C18_no_panic : forall local get limit lastr cand_ok orders,
  (forall p, lastr = LProof p -> valid_orders (batches (Z.to_nat (sh p - from local + 1)) limit) orders) ->
  build local get limit lastr cand_ok orders <> Err EPanic.
Proof. exact build_no_panic. Qed.

(* ... and if it returns without error, the returned proofs are either none (the remote's last proof is
   not newer than the local state) or a chain without nil entries whose suffrage heights are
   local+1, local+2, ..., each accepted by SuffrageProof.Prove against its predecessor's state (the
   first against the local state), ending with the remote's last proof (same state hash, same height). *)
Theorem C18_ok_is_chain : forall local get limit lastr cand_ok orders ps,
  (forall p, lastr = LProof p -> valid_orders (batches (Z.to_nat (sh p - from local + 1)) limit) orders) ->
  build local get limit lastr cand_ok orders = Ok ps ->
  ps = [] \/
  exists chain p, ps = map Some chain /\ chain <> [] /\ lastr = LProof p /\
    chain_from local (from local) chain /\
    sh (List.last chain p) = sh p /\ sid (List.last chain p) = sid p /\
    Z.of_nat (length chain) = (sh p - from local + 1)%Z.
Proof. exact build_sound. Qed.

(* the default batch limit of the code is positive (regenerated from NewSuffrageStateBuilder) *)
Theorem C18_default_limit : Gen.C18.builder_ints = [333%Z].
Proof. reflexivity. Qed.

(* non-vacuity: an honest remote with 8 proofs, limit 3, reversed arrival: all 8 returned, in order *)
Definition ex_p (k : nat) : prec :=
  {| sh := Z.of_nat k; bh := Z.of_nat (2 * k); sid := N.of_nat (k + 1); sprev := N.of_nat k; tree_ok := true; pvalid := true |}.
Definition ex_get (i : nat) : gresp := GProof (ex_p i).
Definition ex_orders : list (list nat) := map (fun b => rev (snd b)) (batches 8 3).

Example C18_example_honest :
  build None ex_get 3 (LProof (ex_p 7)) true ex_orders = Ok (map (fun k => Some (ex_p k)) (seq 0 8)).
Proof. vm_compute. reflexivity. Qed.

(* the formerly crashing answers are now errors *)
Example C18_example_below_local :
  build (Some (ex_p 2)) (fun i => if Nat.eqb i 2 then GProof (ex_p 0) else GProof (ex_p (i + 3))) 3
    (LProof (ex_p 7)) true (in_order (batches 5 3)) = Err EHeight.
Proof. vm_compute. reflexivity. Qed.

Example C18_example_late_genesis :
  build None (fun i => if Nat.eqb i 0
                       then GProof {| sh := 0; bh := 5; sid := 77; sprev := 66; tree_ok := true; pvalid := true |}
                       else ex_get i) 2
    (LProof (ex_p 3)) true (in_order (batches 4 2)) = Err ENoPrev.
Proof. vm_compute. reflexivity. Qed.

Example C18_example_nil_previous_hash :
  build (Some (ex_p 2)) (fun i => if Nat.eqb i 2
                        then GProof {| sh := 5; bh := 10; sid := 88; sprev := 0; tree_ok := true; pvalid := true |}
                        else GProof (ex_p (i + 3))) 3
    (LProof (ex_p 7)) true (in_order (batches 5 3)) = Err ENoPrevHash.
Proof. vm_compute. reflexivity. Qed.
