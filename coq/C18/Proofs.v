(* C18 -- lemmas.  Build = Ok ps  ->  ps is empty (remote not newer) or a gap-free chain linked by
   SuffrageProof.Prove from the local state to the remote's last proof; Build never panics. *)
From Coq Require Import List Arith Bool ZArith NArith PeanoNat Lia Permutation.
From MV Require Import Common.Batch Common.Chain C18.Model.
Import ListNotations.
Open Scope Z_scope.

Lemma seq_app_inv : forall (a' n' a m : nat) rest, (1 <= n')%nat ->
  seq a' n' ++ rest = seq a m -> a' = a /\ rest = seq (a + n') (m - n') /\ (n' <= m)%nat.
Proof.
  intros a' n' a m rest Hn H.
  assert (Hlen : (n' + length rest = m)%nat).
  { apply (f_equal (@length nat)) in H. rewrite app_length, !seq_length in H. assumption. }
  assert (Ha : a' = a).
  { destruct n' as [|n'']; [lia|]. destruct m as [|m']; [lia|]. cbn in H. inversion H. reflexivity. }
  subst a'. split; [reflexivity|]. split; [|lia].
  replace m with (n' + (m - n'))%nat in H by lia. rewrite seq_app in H.
  apply app_inv_head in H. assumption.
Qed.

(* ------------------------------------------------------------------ no panic in prove *)

Lemma prove_guarded_no_panic : forall p lp, prove_guarded p lp <> Err EPanic.
Proof.
  intros p lp. unfold prove_guarded, prove_proof. destruct lp as [q|].
  - destruct (N.eqb (sprev p) 0) eqn:E0; [discriminate|].
    destruct (bh p =? 0); [discriminate|].
    destruct (bh p <=? bh q); [discriminate|].
    destruct (negb (N.eqb (sprev p) (sid q))); [discriminate|].
    destruct (negb (sh p =? sh q + 1)); [discriminate|]. destruct (tree_ok p); discriminate.
  - destruct (bh p =? 0) eqn:E; cbn [negb]; [|discriminate]. destruct (tree_ok p); discriminate.
Qed.

(* the guards only reject what Prove would not accept: guarded = Ok  <->  Prove = POk *)
Lemma prove_guarded_link : forall p lp, (prove_guarded p lp = Ok tt) <-> link lp p = true.
Proof.
  intros p lp. unfold prove_guarded, link, prove_proof. destruct lp as [q|].
  - destruct (N.eqb (sprev p) 0) eqn:E0.
    + split; [discriminate|]. destruct (bh p =? 0); [discriminate|].
      destruct (bh p <=? bh q); discriminate.
    + destruct (bh p =? 0); [split; discriminate|].
      destruct (bh p <=? bh q); [split; discriminate|].
      destruct (negb (N.eqb (sprev p) (sid q))); [split; discriminate|].
      destruct (negb (sh p =? sh q + 1)); [split; discriminate|].
      destruct (tree_ok p); cbn; split; auto; discriminate.
  - destruct (bh p =? 0) eqn:E; cbn [negb]; [|split; discriminate].
    destruct (tree_ok p); cbn; split; auto; discriminate.
Qed.

Lemma prove_guarded_unit : forall p lp, prove_guarded p lp = (if link lp p then Ok tt else prove_guarded p lp).
Proof.
  intros p lp. destruct (link lp p) eqn:E; [|reflexivity]. apply prove_guarded_link. assumption.
Qed.

Lemma prove_guarded_false : forall p lp, link lp p = false -> exists e, prove_guarded p lp = Err e.
Proof.
  intros p lp H. destruct (prove_guarded p lp) as [[]|e] eqn:E; [|eauto].
  apply prove_guarded_link in E. congruence.
Qed.

Lemma prove_slot_no_panic : forall p ms lp, prove_slot p ms lp <> Err EPanic.
Proof.
  intros p ms lp. unfold prove_slot.
  destruct ((sh p - sh_of_prev lp - 1 <? 0) || (sh p - sh_of_prev lp - 1 >=? Z.of_nat (length ms))); [discriminate|].
  set (k := Z.to_nat (sh p - sh_of_prev lp - 1)).
  assert (Hg : forall a b (X : res (list (option prec)) ecode), X <> Err EPanic ->
            match prove_guarded a b with Ok _ => X | Err e => Err e end <> Err EPanic).
  { intros a b X HX. pose proof (prove_guarded_no_panic a b). destruct (prove_guarded a b); [assumption|congruence]. }
  assert (H2 : match nth (k + 1) (updl ms k (Some p)) None with
               | Some q => match prove_guarded q (Some p) with Ok _ => Ok (updl ms k (Some p)) | Err e => Err e end
               | None => Ok (updl ms k (Some p))
               end <> Err EPanic).
  { destruct (nth (k + 1) (updl ms k (Some p)) None) as [q|]; [apply Hg|]; discriminate. }
  assert (H1 : match (if 0 <? sh p - sh_of_prev lp - 1
                      then match nth (k - 1) (updl ms k (Some p)) None with
                           | Some q => prove_guarded p (Some q)
                           | None => Ok tt
                           end
                      else Ok tt) with
               | Err e => Err e
               | Ok _ =>
                   match nth (k + 1) (updl ms k (Some p)) None with
                   | Some q => match prove_guarded q (Some p) with Ok _ => Ok (updl ms k (Some p)) | Err e => Err e end
                   | None => Ok (updl ms k (Some p))
                   end
               end <> Err EPanic).
  { destruct (0 <? sh p - sh_of_prev lp - 1); [|assumption].
    destruct (nth (k - 1) (updl ms k (Some p)) None) as [q|]; [|assumption]. apply Hg. assumption. }
  destruct (sh p - sh_of_prev lp - 1 =? 0); [|assumption]. apply Hg. assumption.
Qed.

Lemma sh_of_prev_from : forall local, sh_of_prev local = from local - 1.
Proof. intros [l|]; cbn; lia. Qed.

Section P.
  Variable local : option prec.
  Variable get : nat -> gresp.
  Variable limit : nat.
  Hypothesis Hlimit : (1 <= limit)%nat.

  Let F := from local.
  Definition dummy : prec := {| sh := 0; bh := 0; sid := 0%N; sprev := 0%N; tree_ok := false; pvalid := false |}.
  Definition g (i : nat) : prec := match get i with GProof p => p | _ => dummy end.
  Definition lp_of (a : nat) : option prec := match a with O => local | S a' => Some (g a') end.
  Definition pre_good (i : nat) : Prop := exists p, get i = GProof p /\ sh p = F + Z.of_nat i.
  Definition good' (i : nat) : Prop := pre_good i /\ link (lp_of i) (g i) = true.

  Lemma job_no_panic : forall i last s, job local get i last s <> Err EPanic.
  Proof.
    intros i last s. unfold job. destruct (get i) as [| |p]; try discriminate.
    destruct (negb (sh p =? from local + Z.of_nat i)); [discriminate|].
    pose proof (prove_slot_no_panic p (slots s) (previous s)).
    destruct (prove_slot p (slots s) (previous s)); [discriminate|congruence].
  Qed.

  Lemma run_jobs_no_panic : forall last o s, run_jobs (job local get) last o s <> Err EPanic.
  Proof.
    intros last o. induction o as [|i r IH]; intros s; cbn; [discriminate|].
    pose proof (job_no_panic i last s). destruct (job local get i last s); [apply IH|congruence].
  Qed.

  Lemma run_batches_no_panic : forall bs orders s,
    run_batches (pref limit) (job local get) bs orders s <> Err EPanic.
  Proof.
    induction bs as [|b bs IH]; intros orders s; cbn; [discriminate|].
    pose proof (run_jobs_no_panic (fst b) (hd [] orders)
      {| acc := acc s ++ slots s;
         slots := repeat None (if (((fst b + 1) mod limit) =? 0)%nat then limit else ((fst b + 1) mod limit)%nat);
         previous := newprev s; newprev := newprev s |}) as H.
    match goal with |- context [run_jobs ?j ?l ?o ?x] => destruct (run_jobs j l o x) end; [apply IH|congruence].
  Qed.

  (* prove() is the generic slot placement of Common/Chain.v *)
  Lemma ps_place : forall p ms lp j x,
    sh p = sh_of_prev lp + Z.of_nat j + 1 ->
    (prove_slot p ms lp = Ok x <-> place link ms lp j p = Some x).
  Proof.
    intros p ms lp j x Hm. unfold prove_slot, place, place_ok.
    replace (sh p - sh_of_prev lp - 1) with (Z.of_nat j) by lia.
    rewrite Nat2Z.id.
    destruct (Z.ltb_spec (Z.of_nat j) 0); [lia|]. cbn [orb].
    rewrite Z.geb_leb.
    destruct (Nat.ltb_spec j (length ms)); destruct (Z.leb_spec (Z.of_nat (length ms)) (Z.of_nat j)); try lia.
    2:{ split; discriminate. }
    (* the forward check, common to both cases *)
    assert (Hfwd : forall k,
      (match nth (k + 1) (updl ms k (Some p)) None with
       | Some q => match prove_guarded q (Some p) with Ok _ => Ok (updl ms k (Some p)) | Err e => Err e end
       | None => Ok (updl ms k (Some p))
       end = Ok x) <->
      ((if match nth (k + 1) (updl ms k (Some p)) None with Some q => link (Some p) q | None => true end
        then Some (updl ms k (Some p)) else None) = Some x)).
    { intros k. destruct (nth (k + 1) (updl ms k (Some p)) None) as [q|].
      - destruct (link (Some p) q) eqn:El.
        + apply prove_guarded_link in El. rewrite El. split; intros H'; inversion H'; reflexivity.
        + apply prove_guarded_false in El. destruct El as [e ->]. split; discriminate.
      - split; intros H'; inversion H'; reflexivity. }
    destruct j as [|j'].
    - cbn [Z.of_nat Z.eqb Z.ltb Z.compare Nat.eqb].
      destruct (link lp p) eqn:El; cbn [andb].
      + apply prove_guarded_link in El. rewrite El. apply Hfwd.
      + apply prove_guarded_false in El. destruct El as [e ->]. split; discriminate.
    - destruct (Z.eqb_spec (Z.of_nat (S j')) 0); [lia|]. cbn [Nat.eqb].
      destruct (Z.ltb_spec 0 (Z.of_nat (S j'))); [|lia].
      destruct (nth (S j' - 1) (updl ms (S j') (Some p)) None) as [q0|].
      + destruct (link (Some q0) p) eqn:El; cbn [andb].
        * apply prove_guarded_link in El. rewrite El. apply Hfwd.
        * apply prove_guarded_false in El. destruct El as [e ->]. split; discriminate.
      + cbn [andb]. apply Hfwd.
  Qed.

  Lemma pre_good_g : forall i, pre_good i -> get i = GProof (g i) /\ sh (g i) = F + Z.of_nat i.
  Proof. intros i [p [Hf Hm]]. unfold g. rewrite Hf. auto. Qed.

  Lemma lp_of_sh : forall a, (forall i, (i < a)%nat -> pre_good i) ->
    sh_of_prev (lp_of a) = F + Z.of_nat a - 1.
  Proof.
    intros a H. destruct a as [|a'].
    - cbn [lp_of Z.of_nat]. rewrite sh_of_prev_from. unfold F. lia.
    - assert (Hg : pre_good a') by (apply H; lia). apply pre_good_g in Hg. destruct Hg as [_ Hm].
      cbn [lp_of sh_of_prev]. lia.
  Qed.

  Definition in_b (a n : nat) (order : list nat) : Prop := Forall (fun i => (a <= i < a + n)%nat) order.

  Lemma run_jobs_sound : forall a n last LP order s s',
    in_b a n order -> previous s = LP -> sh_of_prev LP = F + Z.of_nat a - 1 ->
    run_jobs (job local get) last order s = Ok s' ->
    (forall i, In i order -> pre_good i) /\
    run_place link g a LP order (slots s) = Some (slots s') /\
    previous s' = LP /\ acc s' = acc s /\
    (In last order -> newprev s' = Some (g last)) /\
    (~ In last order -> newprev s' = newprev s).
  Proof.
    intros a n last LP order. induction order as [|i r IH]; intros s s' Hin Hlp Hh Hrun.
    - cbn in Hrun. inversion Hrun; subst. cbn. repeat split; auto; intros; contradiction.
    - inversion Hin as [|x y Hi Hr]; subst.
      cbn [run_jobs] in Hrun.
      destruct (job local get i last s) as [s1|e] eqn:Ej; [|discriminate].
      unfold job in Ej. fold F in Ej.
      destruct (get i) as [| |p] eqn:Ef; try discriminate.
      destruct (Z.eqb_spec (sh p) (F + Z.of_nat i)) as [Hm|Hm]; cbn [negb] in Ej; [|discriminate].
      destruct (prove_slot p (slots s) (previous s)) as [ms'|e] eqn:Ev; [|discriminate].
      inversion Ej; subst s1; clear Ej.
      assert (Hgi : g i = p) by (unfold g; rewrite Ef; reflexivity).
      apply (ps_place p (slots s) (previous s) (i - a) ms') in Ev; [|rewrite Hh; lia].
      apply IH in Hrun; [|assumption|reflexivity|assumption].
      cbn [slots previous newprev acc] in Hrun.
      destruct Hrun as [Hall [Hrp [Hlp' [Hacc [Hn1 Hn2]]]]].
      split; [|split; [|split; [assumption|split; [assumption|split]]]].
      + intros k [Hk|Hk]; [subst k|apply Hall; assumption]. exists p. auto.
      + cbn [run_place]. rewrite Hgi, Ev. assumption.
      + intros Hl. destruct (in_dec Nat.eq_dec last r) as [Hlr|Hlr]; [apply Hn1; assumption|].
        rewrite Hn2 by assumption. destruct Hl as [Hl|Hl]; [|contradiction]. subst i.
        destruct (Z.eqb_spec (sh p - F) (Z.of_nat last)); [|lia]. rewrite Hgi. reflexivity.
      + intros Hl. rewrite Hn2 by (intros Hx; apply Hl; right; assumption).
        destruct (Z.eqb_spec (sh p - F) (Z.of_nat last)) as [He|He]; [|reflexivity].
        exfalso. apply Hl. left. lia.
  Qed.

  Lemma linked_at_lp_of : forall a j, linked_at link g a (lp_of a) j = link (lp_of (a + j)) (g (a + j)).
  Proof.
    intros a j. unfold linked_at. destruct j as [|j'].
    - cbn [Nat.eqb]. rewrite Nat.add_0_r. reflexivity.
    - cbn [Nat.eqb]. replace (a + S j')%nat with (S (a + j'))%nat by lia. cbn [lp_of].
      replace (S (a + j') - 1)%nat with (a + j')%nat by lia. reflexivity.
  Qed.

  Lemma perm_in_b : forall a n order, Permutation (seq a n) order -> in_b a n order.
  Proof.
    intros a n order Hp. apply Forall_forall. intros i Hi. apply Permutation_sym in Hp.
    apply (Permutation_in _ Hp) in Hi. apply in_seq in Hi. lia.
  Qed.

  Definition all_of (a : nat) : list (option prec) := map (fun i => Some (g i)) (seq 0 a).

  Lemma run_batches_sound : forall size bs orders a m s s',
    Forall (batch_wf size limit) bs -> valid_orders bs orders ->
    concat (map snd bs) = seq a m ->
    newprev s = lp_of a -> (forall i, (i < a)%nat -> pre_good i) ->
    acc s ++ slots s = all_of a ->
    run_batches (pref limit) (job local get) bs orders s = Ok s' ->
    (forall i, (a <= i < a + m)%nat -> good' i) /\ newprev s' = lp_of (a + m) /\
    acc s' ++ slots s' = all_of (a + m).
  Proof.
    intros size bs. induction bs as [|b bs IH]; intros orders a m s s' Hwf Hvo Hcc Hnp Hpre Hacc Hrun.
    - cbn in Hcc. destruct m; [|discriminate]. cbn in Hrun. inversion Hrun; subst.
      rewrite Nat.add_0_r. split; [intros; lia|]. auto.
    - inversion Hwf as [|x y Hb Hwf']; subst.
      inversion Hvo as [|x o l os Hperm Hvo']; subst.
      destruct (batch_wf_shape _ _ _ Hlimit Hb) as [k [n [Hsnd [Hn [Hfst [Hle Hr]]]]]].
      cbn [map concat] in Hcc. rewrite Hsnd in Hcc.
      apply seq_app_inv in Hcc; [|lia]. destruct Hcc as [Ha [Hrest Hnm]].
      rewrite Hsnd in Hperm. rewrite Ha in *. clear Ha.
      cbn [run_batches hd tl] in Hrun. unfold pref at 1 in Hrun. rewrite <- Hr in Hrun.
      match type of Hrun with context [run_jobs _ _ _ ?st] => set (s1 := st) in * end.
      destruct (run_jobs (job local get) (fst b) o s1) as [s2|e] eqn:Ej; [|discriminate].
      pose proof (lp_of_sh a Hpre) as Hh.
      apply (run_jobs_sound a n (fst b) (lp_of a)) in Ej;
        [|apply perm_in_b; assumption|unfold s1; cbn; assumption|assumption].
      destruct Ej as [Hall [Hrp [Hlp' [Hacc2 [Hn1 _]]]]].
      unfold s1 in Hrp, Hacc2. cbn [slots acc] in Hrp, Hacc2.
      destruct (run_place_iff prec link g a n (lp_of a) o Hperm) as [Hsound _].
      destruct (Hsound _ Hrp) as [Hslots Hlinked].
      assert (Hgood : forall i, (a <= i < a + n)%nat -> good' i).
      { intros i Hi. assert (Hio : In i o) by (apply (Permutation_in _ Hperm), in_seq; lia).
        split; [apply Hall; assumption|].
        specialize (Hlinked (i - a)%nat ltac:(lia)). rewrite linked_at_lp_of in Hlinked.
        replace (a + (i - a))%nat with i in Hlinked by lia. assumption. }
      assert (Hnp2 : newprev s2 = lp_of (a + n)).
      { rewrite Hn1 by (apply (Permutation_in _ Hperm), in_seq; lia).
        replace (a + n)%nat with (S (fst b)) by lia. reflexivity. }
      assert (Hpre2 : forall i, (i < a + n)%nat -> pre_good i).
      { intros i Hi. destruct (Nat.lt_ge_cases i a); [apply Hpre; assumption|]. apply Hgood. lia. }
      assert (Hacc3 : acc s2 ++ slots s2 = all_of (a + n)).
      { rewrite Hacc2, Hslots, Hacc. unfold all_of. rewrite seq_app, map_app. reflexivity. }
      destruct (IH os (a + n)%nat (m - n)%nat s2 s' Hwf' Hvo' Hrest Hnp2 Hpre2 Hacc3 Hrun) as [Hg2 [Hnp3 Hacc4]].
      split; [|split].
      + intros i Hi. destruct (Nat.lt_ge_cases i (a + n)); [apply Hgood; lia|apply Hg2; lia].
      + rewrite Hnp3. f_equal. lia.
      + rewrite Hacc4. f_equal. lia.
  Qed.

  (* the proofs 0..n-1 form a chain from [local] *)
  Lemma chain_of_good : forall n a, (forall i, (a <= i < a + n)%nat -> good' i) ->
    (forall i, (i < a)%nat -> pre_good i) ->
    chain_from (lp_of a) (F + Z.of_nat a) (map g (seq a n)).
  Proof.
    induction n as [|n IH]; intros a Hg Hpre; [exact I|].
    cbn [seq map chain_from].
    destruct (Hg a ltac:(lia)) as [Hpg Hl]. destruct (pre_good_g a Hpg) as [_ Hm].
    split; [assumption|]. split; [assumption|].
    replace (F + Z.of_nat a + 1) with (F + Z.of_nat (S a)) by lia.
    change (Some (g a)) with (lp_of (S a)).
    apply IH.
    - intros i Hi. apply Hg. lia.
    - intros i Hi. destruct (Nat.lt_ge_cases i a); [apply Hpre; assumption|].
      assert (i = a) by lia. subst. assumption.
  Qed.

  Theorem build_batch_sound : forall size orders ps, (1 <= size)%nat ->
    valid_orders (batches size limit) orders ->
    build_batch local get limit size orders = Ok ps ->
    ps = map Some (map g (seq 0 size)) /\
    chain_from local F (map g (seq 0 size)) /\
    (forall i, (i < size)%nat -> sh (g i) = F + Z.of_nat i).
  Proof.
    intros size orders ps Hs Hvo H. unfold build_batch, batch_work in H.
    destruct (Nat.ltb_spec size 1); [lia|].
    destruct (run_batches (pref limit) (job local get) (batches size limit) orders (init local)) as [s|e] eqn:Er;
      [|discriminate].
    inversion H; subst ps; clear H.
    pose proof (batches_wf size limit Hlimit Hs) as Hwf.
    pose proof (batches_concat size limit Hlimit Hs) as Hcc.
    destruct (run_batches_sound size _ _ 0%nat size (init local) s Hwf Hvo Hcc eq_refl
                ltac:(intros; lia) eq_refl Er) as [Hg [_ Hacc]].
    cbn [Nat.add] in *. split; [|split].
    - rewrite Hacc. unfold all_of. rewrite map_map. reflexivity.
    - pose proof (chain_of_good size 0 ltac:(intros i Hi; apply Hg; lia) ltac:(intros; lia)) as Hc.
      cbn [lp_of Z.of_nat] in Hc. rewrite Z.add_0_r in Hc. exact Hc.
    - intros i Hi. destruct (Hg i ltac:(lia)) as [Hpg _]. apply pre_good_g in Hpg. apply Hpg.
  Qed.

  Theorem build_batch_no_panic : forall size orders,
    build_batch local get limit size orders <> Err EPanic.
  Proof.
    intros size orders. unfold build_batch, batch_work. destruct (size <? 1)%nat; [discriminate|].
    pose proof (run_batches_no_panic (batches size limit) orders (init local)) as H.
    destruct (run_batches (pref limit) (job local get) (batches size limit) orders (init local));
      [discriminate|congruence].
  Qed.
End P.

Lemma last_map_seq : forall (f : nat -> prec) n d, (1 <= n)%nat ->
  List.last (map Some (map f (seq 0 n))) d = Some (f (n - 1)%nat).
Proof.
  intros f n d Hn. destruct n as [|n]; [lia|]. rewrite seq_S, !map_app. cbn [map Nat.add].
  rewrite last_last. f_equal. f_equal. lia.
Qed.

(* the two property statements over Build *)
Theorem build_sound : forall local get limit lastr cand_ok orders ps,
  (forall p, lastr = LProof p -> valid_orders (batches (Z.to_nat (sh p - from local + 1)) limit) orders) ->
  build local get limit lastr cand_ok orders = Ok ps ->
  ps = [] \/
  exists chain p, ps = map Some chain /\ chain <> [] /\ lastr = LProof p /\
    chain_from local (from local) chain /\
    sh (List.last chain p) = sh p /\ sid (List.last chain p) = sid p /\
    Z.of_nat (length chain) = sh p - from local + 1.
Proof.
  intros local get limit lastr cand_ok orders ps Hvo H. unfold build in H.
  destruct (Z.ltb_spec (Z.of_nat limit) 1) as [|Hl]; [discriminate|].
  assert (Hlimit : (1 <= limit)%nat) by lia.
  destruct lastr as [| |p]; try discriminate.
  - destruct cand_ok; [|discriminate]. inversion H. left. reflexivity.
  - destruct (negb (pvalid p)); [discriminate|].
    destruct (negb match local with Some l => (bh l <? bh p) || (sh l <? sh p) | None => true end).
    { destruct cand_ok; [|discriminate]. inversion H. left. reflexivity. }
    destruct (Z.ltb_spec (sh p - from local + 1) 1) as [|Hsz]; [discriminate|].
    set (size := Z.to_nat (sh p - from local + 1)) in *.
    assert (Hs : (1 <= size)%nat) by (unfold size; lia).
    destruct (build_batch local get limit size orders) as [ps0|e] eqn:Eb; [|discriminate].
    destruct (build_batch_sound local get limit Hlimit size orders ps0 Hs (Hvo p eq_refl) Eb) as [Hps [Hchain Hsh]].
    rewrite Hps in H. rewrite (last_map_seq (g get) size None Hs) in H.
    destruct (N.eqb_spec (sid (g get (size - 1))) (sid p)) as [Hsid|]; [|discriminate].
    destruct cand_ok; [|discriminate]. inversion H; subst ps. right.
    exists (map (g get) (seq 0 size)), p.
    assert (Hlast : List.last (map (g get) (seq 0 size)) p = g get (size - 1)).
    { destruct size as [|n]; [lia|]. rewrite seq_S, map_app. cbn [map Nat.add]. rewrite last_last. f_equal. lia. }
    split; [reflexivity|]. split.
    { destruct size; [lia|]. cbn. discriminate. }
    split; [reflexivity|]. split; [assumption|]. rewrite Hlast. split; [|split].
    + rewrite Hsh by lia. unfold size. lia.
    + assumption.
    + rewrite map_length, seq_length. unfold size. lia.
Qed.

Theorem build_no_panic : forall local get limit lastr cand_ok orders,
  (forall p, lastr = LProof p -> valid_orders (batches (Z.to_nat (sh p - from local + 1)) limit) orders) ->
  build local get limit lastr cand_ok orders <> Err EPanic.
Proof.
  intros local get limit lastr cand_ok orders Hvo. unfold build.
  destruct (Z.ltb_spec (Z.of_nat limit) 1) as [|Hl]; [discriminate|].
  assert (Hlimit : (1 <= limit)%nat) by lia.
  destruct lastr as [| |p]; try discriminate.
  - destruct cand_ok; discriminate.
  - destruct (negb (pvalid p)); [discriminate|].
    destruct (negb match local with Some l => (bh l <? bh p) || (sh l <? sh p) | None => true end).
    { destruct cand_ok; discriminate. }
    destruct (Z.ltb_spec (sh p - from local + 1) 1) as [|Hsz]; [discriminate|].
    set (size := Z.to_nat (sh p - from local + 1)) in *.
    assert (Hs : (1 <= size)%nat) by (unfold size; lia).
    pose proof (build_batch_no_panic local get limit size orders) as Hnp.
    destruct (build_batch local get limit size orders) as [ps0|e] eqn:Eb; [|congruence].
    destruct (build_batch_sound local get limit Hlimit size orders ps0 Hs (Hvo p eq_refl) Eb) as [Hps _].
    rewrite Hps. rewrite (last_map_seq (g get) size None Hs).
    destruct (N.eqb (sid (g get (size - 1))) (sid p)); [|discriminate].
    destruct cand_ok; discriminate.
Qed.
