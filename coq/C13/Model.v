(* C13 -- executable model of isaac/block/suffrage.go (SuffrageProof.IsValid / Prove) over the fixedtree
   model of C12.  No proofs here.

   The validity of the carried block map, of the state and of the suffrage value are inputs (booleans
   observed on the real objects): they belong to other properties.  Heights are Z (base.Height is int64,
   GenesisHeight = 0).  The key proved in the states tree is the bytes of state.Hash().String(). *)
From Coq Require Import String List NArith ZArith Arith Bool.
From Coq Require Export Uint63.
From MV Require Import Common.Cases Gen.C12 C12.Model.
Import ListNotations.
Open Scope list_scope.

Record sproof := mkSP {
  m_height : Z;                 (* Map().Manifest().Height() *)
  m_root : option bytes;        (* Map().Manifest().StatesTree(); None = nil *)
  map_ok : bool;                (* Map().IsValid(networkID) = nil *)
  st_ok : bool;                 (* State().IsValid(nil) = nil *)
  st_height : Z;                (* State().Height() *)
  st_key : bytes;               (* []byte(State().Hash().String()) *)
  st_prev : option bytes;       (* State().Previous() bytes; None = nil *)
  st_suf : option Z;            (* height of the SuffrageNodesStateValue; None = not such a value *)
  st_sufok : bool;              (* isaac.NewSuffrageFromState(State()) succeeds *)
  sp_proof : list node          (* Proof().Nodes() *)
}.

Record pstate := mkPS {
  p_height : Z;
  p_hash : bytes;
  p_suf : option Z;
  p_sufok : bool
}.

Inductive pres := POk | PErr | PPanic.

Definition pres_code (r : pres) : N := match r with POk => 0%N | PErr => 1%N | PPanic => 2%N end.

Definition is_some {A} (o : option A) : bool := match o with Some _ => true | None => false end.

(* SuffrageProof.IsValid (hint check not modelled) *)
Definition sp_is_valid (sp : sproof) : bool :=
  map_ok sp && st_ok sp && proof_is_valid (sp_proof sp)
  && (st_height sp =? m_height sp)%Z && st_sufok sp.

Section WithH.
Variable H : bytes -> bytes.

(* the "previous state" part of SuffrageProof.Prove: POk = fall through to the tree proof *)
Definition link (sp : sproof) (prev : option pstate) : pres :=
  if ((m_height sp =? 0)%Z && is_some prev) then PErr
  else if ((m_height sp =? 0)%Z && negb (st_height sp =? 0)%Z) then PErr
  else if (m_height sp =? 0)%Z then POk
  else
    match prev with
    | None => PPanic                                  (* previousState.Height() on nil *)
    | Some pv =>
        if (st_height sp <=? p_height pv)%Z then PErr
        else match st_prev sp with
             | None => PPanic                         (* s.st.Previous().Equal on nil *)
             | Some h =>
                 if negb (bytes_eqb h (p_hash pv)) then PErr
                 else if negb (p_sufok pv) then PErr
                 else match p_suf pv, st_suf sp with
                      | Some a, Some b => if (b =? a + 1)%Z then POk else PErr
                      | _, _ => PPanic                (* current.Height() on nil *)
                      end
             end
    end.

(* the comparison with the manifest (fix): the last node of the proof carries Manifest().StatesTree() *)
Definition root_matches (sp : sproof) : bool :=
  match sp_proof sp, m_root sp with
  | [], _ => false
  | _, None => false
  | _ :: _, Some r => bytes_eqb (nhash (last (sp_proof sp) empty_node)) r
  end.

Definition sp_prove (sp : sproof) (prev : option pstate) : pres :=
  match link sp prev with
  | POk => if negb (root_matches sp) then PErr
           else if prove H (sp_proof sp) (st_key sp) then POk else PErr
  | r => r
  end.

End WithH.

(* ================= correspondence ================= *)

Definition rprev := (Z * bstr * option Z * bool)%type.
Definition prev_of (r : rprev) : pstate := let '(h, hs, sf, ok) := r in mkPS h (unb hs) sf ok.

Inductive case :=
| SCase (tbl : list (bstr * bstr))
        (mh : Z) (mroot : option bstr) (mapok stok : bool) (sth : Z) (stkey : bstr) (stprev : option bstr)
        (stsuf : option Z) (stsufok : bool) (pnodes : list rnode)
        (valid : bool)                                   (* observed IsValid(networkID) = nil *)
        (proves : list (option rprev * N)).              (* observed Prove(prev): 0 nil, 1 error, 2 panic *)

Definition check (c : case) : bool :=
  match c with
  | SCase tbl mh mroot mapok stok sth stkey stprev stsuf stsufok pnodes valid proves =>
      let m := tbl_of tbl in
      let sp := mkSP mh (option_map unb mroot) mapok stok sth (unb stkey) (option_map unb stprev) stsuf stsufok
                     (map node_of pnodes) in
      Bool.eqb (sp_is_valid sp) valid
      && forallb (in_tbl m) (prove_queries (sp_proof sp) (st_key sp))
      && forallb (fun q => N.eqb (pres_code (sp_prove (Htbl m) sp (option_map prev_of (fst q)))) (snd q)) proves
  end.
