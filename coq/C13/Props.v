(* C13 -- Suffrage proofs bind the suffrage state to the signed block.  Property theorems only.

   sp : the SuffrageProof (block map manifest height and states-tree root, state, fixedtree proof);
   sp_is_valid = SuffrageProof.IsValid, sp_prove H sp prev = SuffrageProof.Prove(previousState) (POk = nil error).
   H (the tree's hash function) is universally quantified with 32-byte outputs; collision-dependent
   statements are reductions (collision H := exists x y, x <> y /\ H x = H y). *)
From Coq Require Import List NArith ZArith Arith Bool Lia.
From MV Require Import Gen.C12 C12.Model C12.Proofs C12.Proofs2 C13.Model C13.Proofs.
Import ListNotations.
Open Scope nat_scope.
Open Scope list_scope.

(* An accepted proof (IsValid and Prove) whose block map's manifest carries the root of the valid states tree t
   (the tree of the signed block): the state's hash is a key of t -- the state is committed in that block --
   or a collision of H is exhibited.  wf_proof: the untrusted proof nodes have hashes of 0 or 32 bytes and key
   lengths within 32 bytes of the tree's keys (state keys are hash strings of equal length). *)
Theorem C13_accept_implies_bound : forall (H : bytes -> bytes), (forall x, length (H x) = 32) ->
  forall sp prev t,
  sp_is_valid sp = true -> sp_prove H sp prev = POk ->
  is_valid H t = true -> t <> [] -> m_root sp = Some (child_hash t 0) ->
  wf_proof t (sp_proof sp) ->
  collision H \/ exists i n, nth_error t i = Some n /\ nkey n = st_key sp.
Proof. exact accept_implies_bound. Qed.

(* Prove accepts only a proof path that ends in the states-tree root of the manifest it carries: a proof of a
   foreign tree or a re-rooted path is rejected whatever the previous state is. *)
Theorem C13_foreign_tree_rejected : forall (H : bytes -> bytes) sp prev,
  m_root sp <> Some (nhash (last (sp_proof sp) empty_node)) -> sp_prove H sp prev <> POk.
Proof. exact foreign_tree_rejected. Qed.

(* Except at genesis an accepted proof directly follows the previous suffrage state: hash link, higher block
   height, previous is a suffrage state, suffrage height exactly +1. *)
Theorem C13_follows_previous : forall (H : bytes -> bytes) sp prev,
  m_height sp <> 0%Z -> sp_prove H sp prev = POk ->
  exists pv a, prev = Some pv /\ st_prev sp = Some (p_hash pv) /\ (p_height pv < st_height sp)%Z /\
    p_sufok pv = true /\ p_suf pv = Some a /\ st_suf sp = Some (a + 1)%Z.
Proof. exact follows_previous. Qed.

(* At genesis the previous state must be absent and the state is of genesis height. *)
Theorem C13_genesis : forall (H : bytes -> bytes) sp prev,
  m_height sp = 0%Z -> sp_prove H sp prev = POk -> prev = None /\ st_height sp = 0%Z.
Proof. exact genesis_rule. Qed.

(* ---- non-vacuity: a genesis proof and a following proof are accepted, a foreign root is not ---- *)
Definition H0 (x : bytes) : bytes := firstn 32 (x ++ repeat 0%N 32).

Example C13_example :
  exists t p, generate H0 [[1%N]; [2%N]; [3%N]; [4%N]; [5%N]; [6%N]] = Some t /\ extract t [5%N] = Some p /\
    let sp0 := mkSP 0 (Some (child_hash t 0)) true true 0 [5%N] None (Some 0%Z) true p in
    let sp1 := mkSP 7 (Some (child_hash t 0)) true true 7 [5%N] (Some [9%N]) (Some 1%Z) true p in
    let bad := mkSP 7 (Some [1%N]) true true 7 [5%N] (Some [9%N]) (Some 1%Z) true p in
    let pv := mkPS 0 [9%N] (Some 0%Z) true in
    sp_is_valid sp0 = true /\ sp_prove H0 sp0 None = POk /\
    sp_is_valid sp1 = true /\ sp_prove H0 sp1 (Some pv) = POk /\
    sp_prove H0 sp1 None = PPanic /\ sp_prove H0 bad (Some pv) = PErr.
Proof.
  eexists. eexists. split; [vm_compute; reflexivity|]. split; [vm_compute; reflexivity|].
  vm_compute. repeat split; reflexivity.
Qed.
