(* C13 -- lemmas about the SuffrageProof model. *)
From Coq Require Import List NArith ZArith Arith Bool Lia.
From MV Require Import Common.Cases Gen.C12 C12.Model C12.Proofs C12.Proofs2 C13.Model.
Import ListNotations.
Open Scope nat_scope.
Open Scope list_scope.

Section SP.
Variable H : bytes -> bytes.
Hypothesis Hlen : forall x, length (H x) = 32.

Lemma prove_ok_parts : forall sp prev, sp_prove H sp prev = POk ->
  link sp prev = POk /\ root_matches sp = true /\ prove H (sp_proof sp) (st_key sp) = true.
Proof.
  intros sp prev E. unfold sp_prove in E.
  destruct (link sp prev); try discriminate.
  destruct (root_matches sp); simpl in E; try discriminate.
  destruct (prove H (sp_proof sp) (st_key sp)); try discriminate. auto.
Qed.

Lemma root_matches_spec : forall sp, root_matches sp = true ->
  sp_proof sp <> [] /\ m_root sp = Some (nhash (last (sp_proof sp) empty_node)).
Proof.
  intros sp E. unfold root_matches in E.
  destruct (sp_proof sp) as [|a r] eqn:P; try discriminate.
  destruct (m_root sp) as [x|]; try discriminate.
  apply bytes_eqb_eq in E. split; [discriminate|]. congruence.
Qed.

(* the root comparison (fix a3d2a49): an accepted proof ends in the states tree root of the manifest it carries *)
Theorem root_checked : forall sp prev, sp_prove H sp prev = POk ->
  sp_proof sp <> [] /\ m_root sp = Some (nhash (last (sp_proof sp) empty_node)).
Proof.
  intros sp prev E. destruct (prove_ok_parts sp prev E) as [_ [R _]]. apply root_matches_spec. exact R.
Qed.

Theorem foreign_tree_rejected : forall sp prev,
  m_root sp <> Some (nhash (last (sp_proof sp) empty_node)) -> sp_prove H sp prev <> POk.
Proof. intros sp prev N E. destruct (root_checked sp prev E) as [_ R]. contradiction. Qed.

Lemma valid_odd : forall sp, sp_is_valid sp = true -> Nat.odd (length (sp_proof sp)) = true.
Proof.
  intros sp V. unfold sp_is_valid in V.
  apply andb_true_iff in V. destruct V as [V _]. apply andb_true_iff in V. destruct V as [V _].
  apply andb_true_iff in V. destruct V as [_ V]. unfold proof_is_valid in V.
  apply andb_true_iff in V. destruct V as [V _]. apply andb_true_iff in V. destruct V as [V _].
  apply andb_true_iff in V. destruct V as [V _]. apply andb_true_iff in V. destruct V as [_ V]. exact V.
Qed.

(* accepted => the state's hash is a key of the states tree whose root the manifest carries (or a collision) *)
Theorem accept_implies_bound : forall sp prev t,
  sp_is_valid sp = true -> sp_prove H sp prev = POk ->
  is_valid H t = true -> t <> [] -> m_root sp = Some (child_hash t 0) ->
  wf_proof t (sp_proof sp) ->
  collision H \/ exists i n, nth_error t i = Some n /\ nkey n = st_key sp.
Proof.
  intros sp prev t V P Vt NE R Wf.
  destruct (prove_ok_parts sp prev P) as [_ [RM Pr]].
  destruct (root_matches_spec sp RM) as [_ R2].
  apply (prove_sound H Hlen t Vt (sp_proof sp) (st_key sp) Pr (valid_odd sp V) Wf).
  assert (E : nhash (last (sp_proof sp) empty_node) = child_hash t 0) by congruence.
  unfold in_tree_hash. rewrite E.
  destruct t as [|n0 t']; [contradiction|]. exists 0, n0. split; reflexivity.
Qed.

Theorem genesis_rule : forall sp prev, m_height sp = 0%Z -> sp_prove H sp prev = POk ->
  prev = None /\ st_height sp = 0%Z.
Proof.
  intros sp prev G E. destruct (prove_ok_parts sp prev E) as [L _]. unfold link in L. rewrite G in L.
  simpl in L. destruct prev; simpl in L; try discriminate.
  destruct (st_height sp =? 0)%Z eqn:S; simpl in L; try discriminate.
  apply Z.eqb_eq in S. auto.
Qed.

Theorem follows_previous : forall sp prev, m_height sp <> 0%Z -> sp_prove H sp prev = POk ->
  exists pv a, prev = Some pv /\ st_prev sp = Some (p_hash pv) /\ (p_height pv < st_height sp)%Z /\
    p_sufok pv = true /\ p_suf pv = Some a /\ st_suf sp = Some (a + 1)%Z.
Proof.
  intros sp prev G E. destruct (prove_ok_parts sp prev E) as [L _]. unfold link in L.
  apply Z.eqb_neq in G. rewrite G in L. simpl in L.
  destruct prev as [pv|]; try discriminate.
  destruct (st_height sp <=? p_height pv)%Z eqn:Hh; try discriminate.
  destruct (st_prev sp) as [h|] eqn:SP; try discriminate.
  destruct (bytes_eqb h (p_hash pv)) eqn:B; simpl in L; try discriminate.
  destruct (p_sufok pv) eqn:S; simpl in L; try discriminate.
  destruct (p_suf pv) as [a|] eqn:PS; try discriminate.
  destruct (st_suf sp) as [b|] eqn:SS; try discriminate.
  destruct (b =? a + 1)%Z eqn:Q; try discriminate.
  apply bytes_eqb_eq in B. apply Z.eqb_eq in Q. apply Z.leb_gt in Hh. subst.
  exists pv, a. repeat split; auto; try congruence; try lia.
Qed.

End SP.
