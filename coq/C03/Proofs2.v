(* C03 -- the tally is determined on every voteproof that passes IsValid: the comparison skipped by [check]
   (several facts with the winning count, where Go's answer depends on map order) is never needed for them. *)
From Coq Require Import ZArith NArith List Bool Lia ZifyBool ZifyNat ZifyN.
From MV Require Import C03.Model C03.Proofs Gen.C03.
Import ListNotations.
Open Scope Z_scope.

Lemma dedupN_In x l : In x (dedupN l) -> In x l.
Proof.
  induction l as [|y l IH]; simpl; [tauto|]. destruct (memN y l); simpl; intuition.
Qed.

Lemma dedupN_NoDup l : NoDup (dedupN l).
Proof.
  induction l as [|y l IH]; simpl; [constructor|]. destruct (memN y l) eqn:E; [exact IH|].
  constructor; [|exact IH]. intro I. apply dedupN_In in I. apply memN_In in I. congruence.
Qed.

Lemma count_two a b l : a <> b -> countN a l + countN b l <= len l.
Proof.
  intros Hab. induction l as [|y l IH]; [simpl; unfold len; simpl; lia|].
  simpl countN. rewrite len_cons.
  destruct (N.eqb a y) eqn:Ea, (N.eqb b y) eqn:Eb; try lia.
  all: apply N.eqb_eq in Ea, Eb; congruence.
Qed.

(* two different facts cannot both have the winning count *)
Lemma fvr_single q th s c :
  1 <= q -> len s <= q -> q < 2 * Z.min th q ->
  find_vote_result q th s = TMaj c -> len c <= 1.
Proof.
  intros Hq Hs Hth. unfold find_vote_result. cbv zeta. destruct (nonempty s); [|discriminate].
  destruct (_ || _) eqn:E; [|destruct (_ <? _); discriminate].
  intros [= <-].
  set (mx := maxZ (map (fun k => countN k s) (dedupN s))) in *.
  set (c := filter (fun k => Z.eqb (countN k s) mx) (dedupN s)).
  assert (NDc : NoDup c) by (apply NoDup_filter, dedupN_NoDup).
  assert (Hmx : Z.min th q <= mx) by (apply orb_true_iff in E; lia).
  destruct c as [|a [|b r]] eqn:Ec; [rewrite len_nil; lia | rewrite len_cons, len_nil; lia |].
  exfalso.
  assert (Ia : In a c) by (rewrite Ec; simpl; auto).
  assert (Ib : In b c) by (rewrite Ec; simpl; auto).
  unfold c in Ia, Ib. apply filter_In in Ia as [_ Ca]. apply filter_In in Ib as [_ Cb].
  apply Z.eqb_eq in Ca, Cb.
  assert (Hab : a <> b).
  { inversion NDc as [|? ? Hn _]. intro; subst. apply Hn. simpl. auto. }
  pose proof (count_two a b s Hab). lia.
Qed.

Lemma len_map {A B} (f : A -> B) l : len (map f l) = len l.
Proof. unfold len. rewrite map_length. reflexivity. Qed.

Lemma T_majority q k : 1 <= q -> 510 <= k <= 1000 -> q < 2 * Z.min (T q k) q.
Proof.
  intros Hq Hk. pose proof (T_lower q k). pose proof (T_le_n q k ltac:(lia) ltac:(lia)).
  rewrite Z.min_l by lia. nia.
Qed.

Lemma tally_determined suf v :
  NoDup (map fst suf) -> len suf < 2 ^ 54 -> wf v = true -> unstable suf v = false.
Proof.
  intros ND Hn Hwf. unfold unstable.
  destruct (reduced suf v) as [[rsuf th10']|] eqn:Er; [|reflexivity].
  destruct (is_stuck v || negb (sfs_in_suf rsuf v)) eqn:Eg; [reflexivity|].
  apply orb_false_iff in Eg as [_ Hin]. apply negb_false_iff in Hin.
  destruct (base_wf_facts v (wf_base v Hwf)) as [_ [Hnd [Hth [Hne _]]]].
  (* rsuf is a filter of suf (or suf itself), its threshold is in [510,1000] *)
  assert (R : NoDup (map fst rsuf) /\ len rsuf <= len suf /\ 510 <= th10' <= 1000).
  { unfold reduced in Er. destruct (has_expels v) as [|e0 er] eqn:Eh.
    - injection Er as <- <-. unfold threshold_min10, threshold_max10 in Hth. repeat split; try lia. exact ND.
    - destruct (forallb _ _); [|discriminate].
      destruct (suffrage_with_expels suf (v_th10 v) (e0 :: er)) as [r|] eqn:Es; [|discriminate].
      injection Er as <- <-. apply swe_spec in Es. subst r. unfold threshold_max10. repeat split; try lia.
      + apply NoDup_map_filter. exact ND.
      + rewrite (filter_split_len (fun p => negb (existsb (fun e => N.eqb (fst p) (e_target e)) (e0 :: er))) suf).
        match goal with |- _ <= _ + len ?l => pose proof (len_nonneg l) end. lia. }
  destruct R as [NDr [Hrl Hk]].
  (* the signers are distinct nodes of rsuf *)
  assert (Hs : len (v_sfs v) <= len rsuf).
  { rewrite <- (len_map s_node), <- (len_map fst rsuf). apply NoDup_incl_len; [apply nodupN_NoDup; exact Hnd|].
    intros x Hx. apply in_map_iff in Hx as [s [<- Hs]].
    unfold sfs_in_suf in Hin. rewrite forallb_forall in Hin. specialize (Hin s Hs).
    apply andb_true_iff in Hin as [Hin _]. apply suf_exists_In. exact Hin. }
  pose proof (nonempty_len _ Hne) as H1. pose proof (len_nonneg rsuf).
  unfold tally_unstable.
  destruct (find_vote_result _ _ _) as [| |c] eqn:Ef; try reflexivity.
  apply fvr_single in Ef; try lia.
  - rewrite len_map. exact Hs.
  - rewrite thr_T by lia. apply T_majority; lia.
Qed.
