(* C03 -- lemmas: counting argument on signer sets. *)
From Coq Require Import ZArith NArith List Bool Lia ZifyBool ZifyNat ZifyN.
From MV Require C02.Model.
From MV Require Import C02.Proofs C03.Model C03.Float Gen.C03.
Import ListNotations.
Open Scope Z_scope.

Ltac split_andb :=
  repeat match goal with H : _ && _ = true |- _ => apply andb_true_iff in H; destruct H end.

(* ------------------------------------------------------------------ booleans on lists of N *)

Lemma memN_In x l : memN x l = true <-> In x l.
Proof.
  induction l as [|y l IH]; simpl.
  - split; [discriminate | tauto].
  - rewrite orb_true_iff, N.eqb_eq, IH. intuition.
Qed.

Lemma nodupN_NoDup l : nodupN l = true -> NoDup l.
Proof.
  induction l as [|y l IH]; simpl; intros H.
  - constructor.
  - apply andb_true_iff in H as [A B]. constructor; [|auto].
    intro I. apply memN_In in I. rewrite I in A. discriminate.
Qed.

Lemma len_nonneg {A} (l : list A) : 0 <= len l.
Proof. unfold len. lia. Qed.

Lemma len_cons {A} (a : A) l : len (a :: l) = 1 + len l.
Proof. unfold len. simpl length. lia. Qed.

Lemma len_nil {A} : len (@nil A) = 0.
Proof. reflexivity. Qed.

Lemma nonempty_len {A} (l : list A) : nonempty l = true -> 1 <= len l.
Proof. destruct l; [discriminate|]. intros _. rewrite len_cons. pose proof (len_nonneg l). lia. Qed.

Lemma NoDup_map_filter {A B} (f : A -> B) (p : A -> bool) l : NoDup (map f l) -> NoDup (map f (filter p l)).
Proof.
  induction l as [|a l IH]; simpl; intros H; [constructor|].
  inversion H as [|? ? Hn Hd]; subst. destruct (p a); simpl; [|auto].
  constructor; [|auto]. intro I. apply Hn. apply in_map_iff in I as [x [E I]].
  apply filter_In in I as [I _]. apply in_map_iff. eauto.
Qed.

Lemma filter_split_len {A} (p : A -> bool) l : len l = len (filter p l) + len (filter (fun x => negb (p x)) l).
Proof.
  induction l as [|a l IH]; [reflexivity|]. simpl filter. destruct (p a); simpl negb; cbv iota;
    rewrite !len_cons; lia.
Qed.

Lemma filter_and_len {A} (p q : A -> bool) l :
  len (filter p l) + len (filter q l) <= len l + len (filter (fun x => p x && q x) l).
Proof.
  induction l as [|a l IH]; [simpl; unfold len; simpl; lia|].
  simpl filter. destruct (p a), (q a); simpl andb; cbv iota; rewrite ?len_cons; lia.
Qed.

Lemma filter_mono_len {A} (p q : A -> bool) l :
  (forall x, In x l -> p x = true -> q x = true) -> len (filter p l) <= len (filter q l).
Proof.
  induction l as [|a l IH]; intros H; [simpl; lia|].
  assert (IH' : len (filter p l) <= len (filter q l)) by (apply IH; intros; apply H; simpl; auto).
  simpl filter. destruct (p a) eqn:Ep.
  - rewrite (H a (or_introl eq_refl) Ep). rewrite !len_cons. lia.
  - destruct (q a); rewrite ?len_cons; lia.
Qed.

Lemma NoDup_incl_len {A} (l l' : list A) : NoDup l -> incl l l' -> len l <= len l'.
Proof. intros N I. unfold len. pose proof (NoDup_incl_length N I). lia. Qed.

(* ------------------------------------------------------------------ threshold arithmetic *)

Definition T (n k : Z) : Z := (n * k + 999) / 1000.

Lemma thr_is_C02 n k : thr n k = C02.Model.thr_int n k.
Proof. reflexivity. Qed.

Lemma thr_T n k : 0 <= n < 2 ^ 54 -> 0 <= k <= 1000 -> thr n k = T n k.
Proof.
  intros Hn Hk. rewrite thr_is_C02. unfold T. apply thr_int_nowrap; try lia.
  unfold C02.Model.two64. change (2 ^ 64) with 18446744073709551616. change (2 ^ 54) with 18014398509481984 in Hn. nia.
Qed.

Lemma T_le_n n k : 0 <= n -> 0 <= k <= 1000 -> T n k <= n.
Proof.
  intros. unfold T. pose proof (Z.div_mod (n * k + 999) 1000 ltac:(lia)).
  pose proof (Z.mod_pos_bound (n * k + 999) 1000 ltac:(lia)). nia.
Qed.

Lemma T_full n : 0 <= n -> T n 1000 = n.
Proof. intros. unfold T. pose proof (Z.div_mod (n * 1000 + 999) 1000 ltac:(lia)). pose proof (Z.mod_pos_bound (n * 1000 + 999) 1000 ltac:(lia)). lia. Qed.

Lemma T_mono n k k' : 0 <= n -> k <= k' -> T n k <= T n k'.
Proof. intros. unfold T. apply Z.div_le_mono; nia. Qed.

Lemma T_lower n k : 1000 * T n k >= n * k.
Proof.
  unfold T. pose proof (Z.div_mod (n * k + 999) 1000 ltac:(lia)).
  pose proof (Z.mod_pos_bound (n * k + 999) 1000 ltac:(lia)). lia.
Qed.

Lemma T_two_thirds n k : 1 <= n -> 670 <= k -> 3 * T n k > 2 * n.
Proof. intros. pose proof (T_lower n k). nia. Qed.

Lemma f_exact_T n k : 0 <= n -> f_exact n k = n - T n k.
Proof.
  intros. unfold f_exact, T.
  pose proof (Z.div_mod (1000 * n - n * k) 1000 ltac:(lia)).
  pose proof (Z.mod_pos_bound (1000 * n - n * k) 1000 ltac:(lia)).
  pose proof (Z.div_mod (n * k + 999) 1000 ltac:(lia)).
  pose proof (Z.mod_pos_bound (n * k + 999) 1000 ltac:(lia)). lia.
Qed.

(* ------------------------------------------------------------------ tally *)

Definition ids (v : vp) : list N := map (fun s => f_id (s_fact s)) (v_sfs v).

Lemma fvr_maj q th s c m : find_vote_result q th s = TMaj c -> memN m c = true -> Z.min th q <= countN m s.
Proof.
  unfold find_vote_result. cbv zeta. destruct (nonempty s); [|discriminate].
  destruct (_ || _) eqn:E.
  - intros [= <-] Hm. apply memN_In, filter_In in Hm as [_ Hm]. apply Z.eqb_eq in Hm. rewrite Hm.
    apply orb_true_iff in E. lia.
  - destruct (_ <? _); discriminate.
Qed.

Lemma countN_map {A} (g : A -> N) m l : countN m (map g l) = len (filter (fun s => N.eqb m (g s)) l).
Proof.
  induction l as [|a l IH]; [reflexivity|]. simpl map. simpl countN. simpl filter. rewrite IH.
  destruct (N.eqb m (g a)); rewrite ?len_cons; lia.
Qed.

(* the voters of fact m are distinct suffrage nodes that genuinely sign m *)
Lemma voters_le_signers suf v m :
  NoDup (map s_node (v_sfs v)) ->
  (forall s, In s (v_sfs v) -> In (s_node s) (map fst suf) /\ genuine suf s (s_node s) = true) ->
  countN m (ids v) <= len (filter (signs_fact suf v m) (map fst suf)).
Proof.
  intros ND Hin. unfold ids. rewrite countN_map.
  set (S := filter (fun s => N.eqb m (f_id (s_fact s))) (v_sfs v)).
  assert (N1 : NoDup (map s_node S)) by (apply NoDup_map_filter; exact ND).
  assert (I1 : incl (map s_node S) (filter (signs_fact suf v m) (map fst suf))).
  { intros x Hx. apply in_map_iff in Hx as [s [<- Hs]]. apply filter_In in Hs as [Hs Hm].
    destruct (Hin s Hs) as [Hmem Hg]. apply filter_In. split; [exact Hmem|].
    unfold signs_fact. apply existsb_exists. exists s. split; [exact Hs|].
    rewrite Hg. simpl. apply N.eqb_eq in Hm. apply N.eqb_eq. congruence. }
  pose proof (NoDup_incl_len _ _ N1 I1) as L. unfold len in *. rewrite map_length in L. exact L.
Qed.

(* ------------------------------------------------------------------ suffrage lemmas *)

Lemma suf_exists_In suf x : suf_exists suf x = true -> In x (map fst suf).
Proof.
  unfold suf_exists. intros H. apply existsb_exists in H as [p [I E]]. apply N.eqb_eq in E. subst.
  apply in_map. exact I.
Qed.

Lemma suf_exists_key_sub (rsuf suf : suffrage) x k :
  incl rsuf suf -> suf_exists_key rsuf x k = true -> suf_exists_key suf x k = true.
Proof.
  unfold suf_exists_key. intros I H. apply existsb_exists in H as [p [Hp E]]. apply existsb_exists.
  exists p. split; [apply I; exact Hp | exact E].
Qed.

Lemma suf_exists_sub (rsuf suf : suffrage) x : incl rsuf suf -> suf_exists rsuf x = true -> suf_exists suf x = true.
Proof.
  unfold suf_exists. intros I H. apply existsb_exists in H as [p [Hp E]]. apply existsb_exists.
  exists p. split; [apply I; exact Hp | exact E].
Qed.

Lemma swe_spec suf th10 exps r :
  suffrage_with_expels suf th10 exps = Some r ->
  r = filter (fun p => negb (existsb (fun e => N.eqb (fst p) (e_target e)) exps)) suf.
Proof.
  unfold suffrage_with_expels. cbv zeta. destruct (forallb _ exps); [|discriminate].
  destruct (_ && _); [|discriminate]. intros [= <-]. reflexivity.
Qed.

(* at most one suffrage entry is removed per expel *)
Lemma reduced_len (suf : suffrage) (exps : list expel) :
  NoDup (map fst suf) ->
  len suf - len exps <= len (filter (fun p => negb (existsb (fun e => N.eqb (fst p) (e_target e)) exps)) suf).
Proof.
  intros ND.
  set (g := fun p : N * N => negb (existsb (fun e => N.eqb (fst p) (e_target e)) exps)).
  rewrite (filter_split_len g suf).
  set (R := filter (fun x => negb (g x)) suf).
  assert (NR : NoDup (map fst R)) by (apply NoDup_map_filter; exact ND).
  assert (IR : incl (map fst R) (map e_target exps)).
  { intros x Hx. apply in_map_iff in Hx as [p [<- Hp]]. apply filter_In in Hp as [_ Hp].
    unfold g in Hp. rewrite negb_involutive in Hp. apply existsb_exists in Hp as [e [He E]].
    apply N.eqb_eq in E. rewrite E. apply in_map. exact He. }
  pose proof (NoDup_incl_len _ _ NR IR) as L. unfold len in L. rewrite !map_length in L. fold (len R) in L.
  fold (len exps) in L. lia.
Qed.

(* ------------------------------------------------------------------ what validation gives *)

Lemma base_wf_facts v : base_wf v = true ->
  v_fin v = true /\ nodupN (map s_node (v_sfs v)) = true /\ threshold_min10 <= v_th10 v <= threshold_max10
  /\ nonempty (v_sfs v) = true /\ forallb s_sig (v_sfs v) = true.
Proof.
  unfold base_wf. intros H. split_andb. repeat split; try lia; try assumption.
  - unfold v_result in *. destruct (v_fin v); [reflexivity|]. discriminate.
  - apply forallb_forall. intros s Hs.
    match goal with F : forallb _ (v_sfs v) = true |- _ => rewrite forallb_forall in F; specialize (F s Hs) end.
    split_andb. assumption.
Qed.

Lemma wf_base v : wf v = true -> base_wf v = true.
Proof. unfold wf. destruct (v_kind v); intros H; split_andb; assumption. Qed.

Lemma wf_stuck_no_majority v : wf v = true -> v_kind v = Stuck -> v_maj v = None.
Proof.
  unfold wf. intros H K. rewrite K in H. split_andb. unfold stuck_majority_ok in *.
  destruct (v_maj v); [discriminate | reflexivity].
Qed.

Lemma wf_expel_nonempty v : wf v = true -> v_kind v = Expel -> nonempty (v_exps v) = true.
Proof. unfold wf. intros H K. rewrite K in H. unfold expels_wf in H. split_andb. assumption. Qed.

Lemma tally_ok_majority rsuf th10 v m :
  v_fin v = true -> v_maj v = Some m -> tally_ok rsuf th10 v = true ->
  Z.min (thr (len rsuf) th10) (len rsuf) <= countN (f_id m) (ids v).
Proof.
  intros Hf Hm. unfold tally_ok, tally_of. fold (ids v).
  destruct (find_vote_result _ _ (ids v)) eqn:E; unfold v_result; rewrite Hf, Hm; simpl; try discriminate.
  intros H. eapply fvr_maj; eauto.
Qed.

(* the heart: an accepted voteproof with a majority, not in the finding class, has at least Threshold(n) distinct
   suffrage nodes genuinely signing the majority *)
Lemma majority_signers suf v m :
  NoDup (map fst suf) -> len suf < 2 ^ 54 ->
  accepted suf v = true -> v_maj v = Some m -> big_expel suf v = false ->
  T (len suf) (v_th10 v) <= len (filter (signs_fact suf v (f_id m)) (map fst suf)).
Proof.
  intros ND Hn Hacc Hm Hbig. unfold accepted in Hacc. apply andb_true_iff in Hacc as [Hwf Hvs].
  pose proof (wf_base v Hwf) as Hb. destruct (base_wf_facts v Hb) as [Hfin [Hnd [Hth [Hne Hsig]]]].
  assert (Hk : 0 <= v_th10 v <= 1000) by (unfold threshold_min10, threshold_max10 in Hth; lia).
  pose proof (len_nonneg suf) as Hn0.
  unfold valid_suf in Hvs. destruct (reduced suf v) as [[rsuf th10']|] eqn:Er; [|discriminate].
  (* in every case: rsuf is a sub-list of suf, and the count of m reaches T n th10 *)
  assert (Core : incl rsuf suf /\ sfs_in_suf rsuf v = true /\ T (len suf) (v_th10 v) <= countN (f_id m) (ids v)).
  { destruct (v_kind v) eqn:K.
    - (* plain *)
      unfold reduced, has_expels in Er. rewrite K in Er. injection Er as <- <-.
      unfold is_stuck in Hvs. rewrite K in Hvs. split_andb.
      split; [apply incl_refl|]. split; [assumption|].
      pose proof (tally_ok_majority suf (v_th10 v) v m Hfin Hm ltac:(assumption)) as C.
      rewrite thr_T in C by lia. pose proof (T_le_n (len suf) (v_th10 v) ltac:(lia) Hk). lia.
    - (* expel *)
      pose proof (wf_expel_nonempty v Hwf K) as Hex.
      unfold reduced, has_expels in Er. rewrite K in Er.
      destruct (v_exps v) as [|e0 er] eqn:Eexps; [discriminate|]. rewrite <- Eexps in *.
      assert (Er' : (if forallb (expel_ok_suf (p_h (v_pt v)) suf) (v_exps v)
                     then match suffrage_with_expels suf (v_th10 v) (v_exps v) with
                          | Some r => Some (r, threshold_max10) | None => None end
                     else None) = Some (rsuf, th10')).
      { rewrite Eexps in *. exact Er. }
      clear Er. destruct (forallb _ (v_exps v)); [|discriminate].
      destruct (suffrage_with_expels suf (v_th10 v) (v_exps v)) as [r|] eqn:Es; [|discriminate].
      injection Er' as <- <-. pose proof (swe_spec _ _ _ _ Es) as Rs.
      unfold is_stuck in Hvs. rewrite K in Hvs. split_andb.
      assert (Isub : incl r suf) by (rewrite Rs; intros x Hx; apply filter_In in Hx; tauto).
      split; [exact Isub|]. split; [assumption|].
      pose proof (tally_ok_majority r threshold_max10 v m Hfin Hm ltac:(assumption)) as C.
      pose proof (reduced_len suf (v_exps v) ND) as RL. rewrite <- Rs in RL.
      pose proof (len_nonneg r) as Hr0.
      assert (Hrle : len r <= len suf).
      { rewrite Rs. rewrite (filter_split_len (fun p => negb (existsb (fun e => N.eqb (fst p) (e_target e)) (v_exps v))) suf).
        match goal with |- _ <= _ + len ?l => pose proof (len_nonneg l) end. lia. }
      unfold threshold_max10 in C. rewrite thr_T in C by lia. rewrite T_full in C by lia.
      unfold big_expel in Hbig. rewrite K in Hbig. rewrite thr_T in Hbig by lia. lia.
    - (* stuck: no majority *)
      rewrite (wf_stuck_no_majority v Hwf K) in Hm. discriminate. }
  destruct Core as [Isub [Hin C]].
  etransitivity; [exact C|].
  apply voters_le_signers.
  - apply nodupN_NoDup. exact Hnd.
  - intros s Hs. unfold sfs_in_suf in Hin. rewrite forallb_forall in Hin. specialize (Hin s Hs).
    rewrite forallb_forall in Hsig. specialize (Hsig s Hs). split_andb. split.
    + apply suf_exists_In. eapply suf_exists_sub; eauto.
    + unfold genuine. rewrite N.eqb_refl, Hsig. simpl. eapply suf_exists_key_sub; eauto.
Qed.

Lemma signs_both_equivocates suf v1 v2 m1 m2 x :
  m1 <> m2 -> signs_fact suf v1 m1 x = true -> signs_fact suf v2 m2 x = true -> equivocates suf v1 v2 x = true.
Proof.
  unfold signs_fact, equivocates. intros Hne H1 H2.
  apply existsb_exists in H1 as [s1 [I1 E1]]. apply existsb_exists in H2 as [s2 [I2 E2]]. split_andb.
  apply existsb_exists. exists s1. split; [assumption|]. apply andb_true_iff. split; [assumption|].
  apply existsb_exists. exists s2. split; [assumption|]. apply andb_true_iff. split; [assumption|].
  apply negb_true_iff. apply N.eqb_neq.
  repeat match goal with H : N.eqb _ _ = true |- _ => apply N.eqb_eq in H end. congruence.
Qed.

(* agreement outside the finding class *)
Lemma agreement_outside_class suf v1 v2 m1 m2 k :
  NoDup (map fst suf) -> len suf < 2 ^ 54 ->
  670 <= k -> k <= v_th10 v1 -> k <= v_th10 v2 ->
  accepted suf v1 = true -> accepted suf v2 = true ->
  v_maj v1 = Some m1 -> v_maj v2 = Some m2 -> f_id m1 <> f_id m2 ->
  big_expel suf v1 = false -> big_expel suf v2 = false ->
  f_exact (len suf) k < n_equivocators suf v1 v2.
Proof.
  intros ND Hn Hk Hk1 Hk2 A1 A2 M1 M2 Hne B1 B2.
  pose proof (majority_signers suf v1 m1 ND Hn A1 M1 B1) as C1.
  pose proof (majority_signers suf v2 m2 ND Hn A2 M2 B2) as C2.
  pose proof (len_nonneg suf) as Hn0.
  (* n >= 1: v1 has a sign fact of a suffrage node *)
  assert (Hn1 : 1 <= len suf).
  { pose proof (T_lower (len suf) (v_th10 v1)).
    assert (len (filter (signs_fact suf v1 (f_id m1)) (map fst suf)) <= len (map fst suf)).
    { rewrite (filter_split_len (signs_fact suf v1 (f_id m1)) (map fst suf)).
      match goal with |- _ <= _ + len ?l => pose proof (len_nonneg l) end. lia. }
    assert (len (map fst suf) = len suf) by (unfold len; rewrite map_length; reflexivity).
    destruct (Z.eq_dec (len suf) 0) as [Z0|]; [|lia]. exfalso.
    (* n = 0: no sign fact can be in the suffrage, but there is one *)
    unfold accepted in A1. apply andb_true_iff in A1 as [W1 V1].
    destruct (base_wf_facts v1 (wf_base v1 W1)) as [_ [_ [_ [Hne1 _]]]].
    destruct suf; [|rewrite len_cons in Z0; pose proof (len_nonneg suf); lia].
    unfold valid_suf in V1. destruct (reduced [] v1) as [[r t]|] eqn:Er; [|discriminate].
    assert (r = []).
    { unfold reduced in Er. destruct (has_expels v1); [congruence|].
      destruct (forallb _ _); [|discriminate].
      destruct (suffrage_with_expels [] (v_th10 v1) (e :: l)) eqn:Es; [|discriminate].
      apply swe_spec in Es. simpl in Es. congruence. }
    subst r. split_andb. unfold sfs_in_suf in *. destruct (v_sfs v1); [discriminate|].
    simpl in *. discriminate. }
  pose proof (filter_and_len (signs_fact suf v1 (f_id m1)) (signs_fact suf v2 (f_id m2)) (map fst suf)) as FA.
  assert (L : len (map fst suf) = len suf) by (unfold len; rewrite map_length; reflexivity).
  assert (Mono : len (filter (fun x => signs_fact suf v1 (f_id m1) x && signs_fact suf v2 (f_id m2) x) (map fst suf))
                 <= n_equivocators suf v1 v2).
  { unfold n_equivocators. apply filter_mono_len. intros x _ Hx. apply andb_true_iff in Hx as [X1 X2].
    eapply signs_both_equivocates; eauto. }
  pose proof (T_mono (len suf) k (v_th10 v1) Hn0 Hk1).
  pose proof (T_mono (len suf) k (v_th10 v2) Hn0 Hk2).
  pose proof (T_two_thirds (len suf) k Hn1 Hk).
  rewrite f_exact_T by lia. lia.
Qed.

Lemma plain_not_big suf v : v_kind v = Plain -> big_expel suf v = false.
Proof. unfold big_expel. intros ->. reflexivity. Qed.

Lemma agreement_plain suf v1 v2 m1 m2 k :
  NoDup (map fst suf) -> len suf < 2 ^ 54 ->
  670 <= k -> k <= v_th10 v1 -> k <= v_th10 v2 ->
  v_kind v1 = Plain -> v_kind v2 = Plain ->
  accepted suf v1 = true -> accepted suf v2 = true ->
  v_maj v1 = Some m1 -> v_maj v2 = Some m2 -> f_id m1 <> f_id m2 ->
  f_exact (len suf) k < n_equivocators suf v1 v2.
Proof. intros. eapply agreement_outside_class; eauto using plain_not_big. Qed.

(* contrapositive form: what a violating pair must contain *)
Lemma violations_need_big_expel suf v1 v2 m1 m2 k :
  NoDup (map fst suf) -> len suf < 2 ^ 54 ->
  670 <= k -> k <= v_th10 v1 -> k <= v_th10 v2 ->
  accepted suf v1 = true -> accepted suf v2 = true ->
  v_maj v1 = Some m1 -> v_maj v2 = Some m2 -> f_id m1 <> f_id m2 ->
  n_equivocators suf v1 v2 <= f_exact (len suf) k ->
  big_expel suf v1 = true \/ big_expel suf v2 = true.
Proof.
  intros ND Hn Hk Hk1 Hk2 A1 A2 M1 M2 Hne Heq.
  destruct (big_expel suf v1) eqn:B1; [left; reflexivity|].
  destruct (big_expel suf v2) eqn:B2; [right; reflexivity|].
  pose proof (agreement_outside_class suf v1 v2 m1 m2 k ND Hn Hk Hk1 Hk2 A1 A2 M1 M2 Hne B1 B2). lia.
Qed.

(* a stuck voteproof that passes IsValid never carries a majority *)
Lemma stuck_is_draw v : wf v = true -> v_kind v = Stuck -> v_result v = RDraw.
Proof.
  intros W K. pose proof (wf_stuck_no_majority v W K) as M.
  destruct (base_wf_facts v (wf_base v W)) as [F _]. unfold v_result. rewrite F, M. reflexivity.
Qed.

(* ------------------------------------------------------------------ the witness of the open finding *)

Definition pt0 : point := mkPoint 33 0 false.
Definition ex_c : expel := mkExpel 1 2 33 38 [mkNS 0 0 true; mkNS 1 1 true].
Definition ex_d : expel := mkExpel 2 3 33 38 [mkNS 0 0 true; mkNS 1 1 true].
Definition ex_a : expel := mkExpel 3 0 33 38 [mkNS 2 2 true; mkNS 3 3 true].
Definition ex_b : expel := mkExpel 4 1 33 38 [mkNS 2 2 true; mkNS 3 3 true].
Definition fA : bfact := mkFact 1 pt0 [1%N; 2%N].
Definition fB : bfact := mkFact 2 pt0 [3%N; 4%N].
Definition suf4 : suffrage := [(0, 0); (1, 1); (2, 2); (3, 3)]%N.
(* {a,b} expel c,d and vote A; {c,d} expel a,b and vote B *)
Definition w1 : vp := mkVP Expel pt0 670 true (Some fA) [mkSF 0 0 true fA; mkSF 1 1 true fA] [ex_c; ex_d].
Definition w2 : vp := mkVP Expel pt0 670 true (Some fB) [mkSF 2 2 true fB; mkSF 3 3 true fB] [ex_a; ex_b].

Lemma partition_witness :
  NoDup (map fst suf4) /\ accepted suf4 w1 = true /\ accepted suf4 w2 = true /\ v_pt w1 = v_pt w2
  /\ v_th10 w1 = 670 /\ v_th10 w2 = 670 /\ v_maj w1 = Some fA /\ v_maj w2 = Some fB /\ f_id fA <> f_id fB
  /\ n_equivocators suf4 w1 w2 = 0 /\ f_exact (len suf4) 670 = 1.
Proof.
  split; [repeat constructor; simpl; intuition discriminate|].
  repeat split; try (vm_compute; reflexivity). vm_compute. discriminate.
Qed.

(* ------------------------------------------------------------------ NumberOfFaultyNodes in float64 on a grid *)

(* the float64 computation never exceeds the exact floor (it is one lower at a few points, e.g. n=75, t=68.0:
   23 instead of 24), so a bound "at most NumberOfFaultyNodes equivocators" is at least as strong as "at most f" *)
Definition fgrid_n : list Z := map (fun i => 1 + Z.of_nat i) (seq 0 40).
Definition fgrid_k : list Z := map (fun i => 670 + Z.of_nat i) (seq 0 331).

Lemma faulty_float_grid_b :
  forallb (fun n => forallb (fun k => match nfaulty_float n k with Some f => (0 <=? f) && (f <=? f_exact n k) | None => false end) fgrid_k) fgrid_n = true.
Proof. vm_compute. reflexivity. Qed.

Lemma faulty_float_grid n k : 1 <= n <= 40 -> 670 <= k <= 1000 ->
  exists f, nfaulty_float n k = Some f /\ 0 <= f <= f_exact n k.
Proof.
  intros Hn Hk. pose proof faulty_float_grid_b as G. rewrite forallb_forall in G.
  assert (In n fgrid_n) as I1.
  { unfold fgrid_n. apply in_map_iff. exists (Z.to_nat (n - 1)). split; [lia|]. apply in_seq. lia. }
  specialize (G n I1). rewrite forallb_forall in G.
  assert (In k fgrid_k) as I2.
  { unfold fgrid_k. apply in_map_iff. exists (Z.to_nat (k - 670)). split; [lia|]. apply in_seq. lia. }
  specialize (G k I2). destruct (nfaulty_float n k) as [f|]; [|discriminate]. exists f. split; [reflexivity|]. lia.
Qed.

Lemma faulty_float_strict_witness : nfaulty_float 75 680 = Some 23 /\ f_exact 75 680 = 24.
Proof. split; vm_compute; reflexivity. Qed.
