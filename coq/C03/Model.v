(* C03 -- agreement of voteproofs.  Executable transcription of the voteproof validation of /repo:

     base/voteproof_isvalid.go   IsValidVoteproof, isValidVoteproofDuplicatedSignNode, isValidVoteproofVoteResult,
                                 isValidVoteproofSignFacts, IsValidVoteproofWithSuffrage (base)
     isaac/voteproof.go          {INIT,ACCEPT}{,Expel,Stuck}Voteproof.IsValid, baseExpelVoteproof.isValid,
                                 baseStuckVoteproof.isValid, isValidithdrawVoteproof
     isaac/voteproof_isvalid.go  IsValidVoteproofWithSuffrage (isaac)
     isaac/suffrage.go           Suffrage.Exists/ExistsPublickey, NewSuffrageWithExpels, NewSuffrage
     isaac/suffrage_operation.go SuffrageExpelFact.IsValid, SuffrageExpelOperation.IsValid/NodeSigns, IsValidExpelWithSuffrage
     base/base_operation.go      BaseNodeOperation.IsValid (signs, duplicated sign nodes)
     base/vote.go                FindVoteResult / FindMajority (local small tally model; the tally itself is C01's subject)
     base/threshold.go           Threshold.Threshold (integer form proved in C02); NumberOfFaultyNodes (float64): Float.v

   Abstractions (trusted, see checks/C03.json): node addresses, public keys, fact hashes and expel-fact hashes are
   opaque identifiers [N]; "the signature of this sign verifies under the key it names" is a boolean attribute of the sign
   (what the harness produces by signing with the right / a wrong network id).  No proofs in this file. *)
From Coq Require Import ZArith NArith List Bool.
From MV Require Import Gen.C03.
Import ListNotations.
Open Scope Z_scope.

(* ------------------------------------------------------------------ data *)

(* base.StagePoint : height, round, stage (false = INIT, true = ACCEPT) *)
Record point := mkPoint { p_h : Z; p_r : Z; p_acc : bool }.

Definition point_eqb (a b : point) : bool :=
  Z.eqb (p_h a) (p_h b) && Z.eqb (p_r a) (p_r b) && Bool.eqb (p_acc a) (p_acc b).

(* base.BallotFact: identity = its hash [f_id]; its stage point; the expel-fact hashes it lists (ExpelFacts()) *)
Record bfact := mkFact { f_id : N; f_pt : point; f_exp : list N }.

(* base.BallotSignFact: node address, signer key, signature verifies, the fact *)
Record sfact := mkSF { s_node : N; s_key : N; s_sig : bool; s_fact : bfact }.

(* base.NodeSign of an expel operation *)
Record nsign := mkNS { n_node : N; n_key : N; n_sig : bool }.

(* base.SuffrageExpelOperation: fact hash id, target node, start/end heights, all node signs (as stored) *)
Record expel := mkExpel { e_id : N; e_target : N; e_start : Z; e_end : Z; e_signs : list nsign }.

Inductive kind := Plain | Expel | Stuck.

Record vp := mkVP {
  v_kind : kind;
  v_pt : point;
  v_th10 : Z;                 (* Threshold in tenths: math.Round(t*10) *)
  v_fin : bool;               (* finishedAt set *)
  v_maj : option bfact;       (* majority *)
  v_sfs : list sfact;
  v_exps : list expel         (* expels (in the order the voteproof holds them) *)
}.

(* isaac.Suffrage: (address, publickey) pairs *)
Definition suffrage := list (N * N).

Inductive vresult := RNotYet | RDraw | RMajority.

Definition vresult_eqb (a b : vresult) : bool :=
  match a, b with RNotYet, RNotYet | RDraw, RDraw | RMajority, RMajority => true | _, _ => false end.

(* baseVoteproof.Result() *)
Definition v_result (v : vp) : vresult :=
  if negb (v_fin v) then RNotYet else match v_maj v with Some _ => RMajority | None => RDraw end.

(* ------------------------------------------------------------------ small helpers *)

Fixpoint memN (x : N) (l : list N) : bool :=
  match l with [] => false | y :: r => N.eqb x y || memN x r end.

(* util.IsDuplicatedSlice = false *)
Fixpoint nodupN (l : list N) : bool :=
  match l with [] => true | x :: r => negb (memN x r) && nodupN r end.

Definition nonempty {A} (l : list A) : bool := match l with [] => false | _ => true end.

Definition len {A} (l : list A) : Z := Z.of_nat (length l).

(* Threshold.Threshold(n) for a threshold of th10 tenths, Go uint64 arithmetic written out.  Same function as
   C02.Model.thr_int (Proofs.thr_is_C02), repeated here so that evaluating this file does not load Flocq. *)
Definition two64 : Z := 2 ^ 64.
Definition thr (n th10 : Z) : Z := (((n * th10) mod two64 + 999) mod two64) / 1000.

(* Go uint subtraction *)
Definition usub (a b : Z) : Z := (a - b) mod two64.

(* ------------------------------------------------------------------ base/vote.go (local tally model) *)

Fixpoint countN (x : N) (l : list N) : Z :=
  match l with [] => 0 | y :: r => (if N.eqb x y then 1 else 0) + countN x r end.

Fixpoint dedupN (l : list N) : list N :=
  match l with [] => [] | x :: r => if memN x r then dedupN r else x :: dedupN r end.

Definition maxZ (l : list Z) : Z := fold_right Z.max 0 l.
Definition sumZ (l : list Z) : Z := fold_right Z.add 0 l.

(* outcome of FindVoteResult.  TMaj carries every key having the winning count: Go's [keys] map is keyed by the
   count, so with several such keys the reported one depends on map iteration order. *)
Inductive tally_out := TNotYet | TDraw | TMaj (cands : list N).

Definition find_vote_result (quorum threshold : Z) (s : list N) : tally_out :=
  let th := Z.min threshold quorum in
  if nonempty s then
    let ks := dedupN s in
    let set := map (fun k => countN k s) ks in
    let mx := maxZ set in
    (* FindMajority on the descending set: the first element reaching quorum or th is the maximum *)
    if (quorum <=? mx) || (th <=? mx) then TMaj (filter (fun k => Z.eqb (countN k s) mx) ks)
    else
      let sum := sumZ set in
      let remain := if sum <? quorum then quorum - sum else 0 in    (* saturating, after the C01 fix *)
      if remain + mx <? th then TDraw else TNotYet
  else TNotYet.

(* the case where the Go outcome is not a function of the input (several keys with the winning count: map order);
   excluded from the comparison, and proved unreachable for voteproofs that pass IsValidVoteproof *)
Definition tally_unstable (quorum threshold : Z) (s : list N) : bool :=
  match find_vote_result quorum threshold s with
  | TMaj c => 1 <? len c
  | _ => false
  end.

(* ------------------------------------------------------------------ isaac/suffrage.go *)

Definition suf_exists (suf : suffrage) (node : N) : bool := existsb (fun p => N.eqb (fst p) node) suf.

(* ExistsPublickey: the map holds one node per address; with distinct addresses = some pair matches *)
Definition suf_exists_key (suf : suffrage) (node key : N) : bool :=
  existsb (fun p => N.eqb (fst p) node && N.eqb (snd p) key) suf.

(* SuffrageExpelOperation.NodeSigns(): signs whose node is not the expelled node *)
Definition node_signs (e : expel) : list nsign := filter (fun s => negb (N.eqb (n_node s) (e_target e))) (e_signs e).

(* IsValidExpelWithSuffrage(height, expel, suf) *)
Definition expel_ok_suf (height : Z) (suf : suffrage) (e : expel) : bool :=
  negb (e_end e <? height)
  && suf_exists suf (e_target e)
  && forallb (fun s => suf_exists_key suf (n_node s) (n_key s)) (node_signs e).

(* NewSuffrageWithExpels(suf, threshold, expels) for non-empty expels: Some reduced suffrage / None = error *)
Definition suffrage_with_expels (suf : suffrage) (th10 : Z) (exps : list expel) : option suffrage :=
  let n := len suf in
  let th0 := thr n th10 in
  let th := if usub n th0 <? len exps then usub n (len exps) else th0 in
  if forallb (fun e => negb (len (node_signs e) <? th)) exps then
    let filtered := filter (fun p => negb (existsb (fun e => N.eqb (fst p) (e_target e)) exps)) suf in
    if nonempty filtered && nodupN (map fst filtered) then Some filtered else None
  else None.

(* ------------------------------------------------------------------ IsValid (no suffrage) *)

(* baseBallotFact.IsValid: valid point, no duplicated expel fact *)
Definition point_ok (p : point) : bool := (0 <=? p_h p) && (0 <=? p_r p).
Definition fact_ok (f : bfact) : bool := point_ok (f_pt f) && nodupN (f_exp f).

(* base.IsValidVoteproof *)
Definition base_wf (v : vp) : bool :=
  negb (vresult_eqb (v_result v) RNotYet)
  && nonempty (v_sfs v)
  && nodupN (map s_node (v_sfs v))                              (* isValidVoteproofDuplicatedSignNode *)
  && point_ok (v_pt v)
  && (threshold_min10 <=? v_th10 v) && (v_th10 v <=? threshold_max10)   (* Threshold.IsValid *)
  && match v_maj v with                                         (* isValidVoteproofVoteResult *)
     | None => true
     | Some m => fact_ok m && point_eqb (v_pt v) (f_pt m)
     end
  && forallb (fun s => s_sig s && fact_ok (s_fact s) && point_eqb (v_pt v) (f_pt (s_fact s))) (v_sfs v)
  && match v_maj v with                                         (* "majoirty not found in sign facts" *)
     | None => true
     | Some m => existsb (fun s => N.eqb (f_id (s_fact s)) (f_id m)) (v_sfs v)
     end.

(* SuffrageExpelOperation.IsValid: fact (start over genesis, start <= end), signs verify, no duplicated sign node,
   at least one sign of another node *)
Definition expel_op_ok (e : expel) : bool :=
  (0 <? e_start e) && (e_start e <=? e_end e)
  && nonempty (e_signs e)
  && forallb n_sig (e_signs e)
  && nodupN (map n_node (e_signs e))
  && nonempty (node_signs e).

(* isValidithdrawVoteproof *)
Definition expels_wf (v : vp) : bool :=
  nonempty (v_exps v)
  && forallb expel_op_ok (v_exps v)
  && nodupN (map e_target (v_exps v))                           (* "duplicated expel node found" *)
  && forallb (fun s => negb (memN (s_node s) (map e_target (v_exps v)))) (v_sfs v).   (* "expel node voted" *)

Fixpoint listN_eqb (a b : list N) : bool :=
  match a, b with
  | [], [] => true
  | x :: a', y :: b' => N.eqb x y && listN_eqb a' b'
  | _, _ => false
  end.

(* baseExpelVoteproof.isValid: the majority's expel facts, when it lists any, are the voteproof's expels in order *)
Definition expel_majority_match (v : vp) : bool :=
  match v_maj v with
  | Some m => match f_exp m with [] => true | fe => listN_eqb fe (map e_id (v_exps v)) end
  | None => true
  end.

(* baseStuckVoteproof.isValid: a stuck voteproof is never tallied, it has to be a draw (no majority) *)
Definition stuck_majority_ok (v : vp) : bool := match v_maj v with None => true | Some _ => false end.

(* Voteproof.IsValid(networkID) of the six concrete types *)
Definition wf (v : vp) : bool :=
  match v_kind v with
  | Plain => base_wf v
  | Expel => base_wf v && expels_wf v && expel_majority_match v
  | Stuck => Z.eqb (v_th10 v) threshold_max10 && base_wf v && expels_wf v && stuck_majority_ok v
  end.

(* ------------------------------------------------------------------ IsValidVoteproofWithSuffrage *)

(* HasExpels: only the expel and stuck types carry expels *)
Definition has_expels (v : vp) : list expel := match v_kind v with Plain => [] | _ => v_exps v end.

Definition is_stuck (v : vp) : bool := match v_kind v with Stuck => true | _ => false end.

(* the suffrage and threshold (tenths) base.IsValidVoteproofWithSuffrage is called with; None = rejected before *)
Definition reduced (suf : suffrage) (v : vp) : option (suffrage * Z) :=
  match has_expels v with
  | [] => Some (suf, v_th10 v)
  | exps =>
      if forallb (expel_ok_suf (p_h (v_pt v)) suf) exps then
        match suffrage_with_expels suf (v_th10 v) exps with
        | Some r => Some (r, threshold_max10)
        | None => None
        end
      else None
  end.

Definition sfs_in_suf (rsuf : suffrage) (v : vp) : bool :=
  forallb (fun s => suf_exists rsuf (s_node s) && suf_exists_key rsuf (s_node s) (s_key s)) (v_sfs v).

Definition tally_of (rsuf : suffrage) (th10 : Z) (v : vp) : tally_out :=
  find_vote_result (len rsuf) (thr (len rsuf) th10) (map (fun s => f_id (s_fact s)) (v_sfs v)).

(* base.IsValidVoteproofWithSuffrage(vp, rsuf, th): result and majority against the tally *)
Definition tally_ok (rsuf : suffrage) (th10 : Z) (v : vp) : bool :=
  match tally_of rsuf th10 v with
  | TNotYet => vresult_eqb (v_result v) RNotYet
  | TDraw => vresult_eqb (v_result v) RDraw          (* Draw => majority nil, by Result() *)
  | TMaj c => vresult_eqb (v_result v) RMajority
              && match v_maj v with Some m => memN (f_id m) c | None => false end
  end.

(* isaac.IsValidVoteproofWithSuffrage(vp, suf) *)
Definition valid_suf (suf : suffrage) (v : vp) : bool :=
  match reduced suf v with
  | None => false
  | Some (rsuf, th10) =>
      (if is_stuck v then Z.eqb (len suf) (len (v_sfs v) + len (has_expels v)) else true)
      && sfs_in_suf rsuf v
      && (if is_stuck v then true else tally_ok rsuf th10 v)
  end.

(* the comparison of valid_suf is skipped where the Go outcome is not determined (see tally_unstable) *)
Definition unstable (suf : suffrage) (v : vp) : bool :=
  match reduced suf v with
  | None => false
  | Some (rsuf, th10) =>
      if is_stuck v || negb (sfs_in_suf rsuf v) then false
      else tally_unstable (len rsuf) (thr (len rsuf) th10) (map (fun s => f_id (s_fact s)) (v_sfs v))
  end.

(* accepted = what a node requires before it takes a voteproof: IsValid and IsValidVoteproofWithSuffrage *)
Definition accepted (suf : suffrage) (v : vp) : bool := wf v && valid_suf suf v.

(* ------------------------------------------------------------------ the property's vocabulary *)

(* sign fact s is a genuine signature of suffrage node x: names x, verifies, under the key the suffrage holds for x *)
Definition genuine (suf : suffrage) (s : sfact) (x : N) : bool :=
  N.eqb (s_node s) x && s_sig s && suf_exists_key suf x (s_key s).

(* node x signs fact id [fid] in voteproof v *)
Definition signs_fact (suf : suffrage) (v : vp) (fid : N) (x : N) : bool :=
  existsb (fun s => genuine suf s x && N.eqb (f_id (s_fact s)) fid) (v_sfs v).

(* node x signs two different facts: one in v1, another in v2 *)
Definition equivocates (suf : suffrage) (v1 v2 : vp) (x : N) : bool :=
  existsb (fun s1 => genuine suf s1 x &&
     existsb (fun s2 => genuine suf s2 x && negb (N.eqb (f_id (s_fact s1)) (f_id (s_fact s2)))) (v_sfs v2)) (v_sfs v1).

Definition n_equivocators (suf : suffrage) (v1 v2 : vp) : Z := len (filter (equivocates suf v1 v2) (map fst suf)).

(* floor(n - n*t/100) for t = k/10, in exact arithmetic *)
Definition f_exact (n k : Z) : Z := (1000 * n - n * k) / 1000.

(* the finding class: an expel voteproof with more expels than n - Threshold(n) (the branch of NewSuffrageWithExpels
   that lowers the per-expel sign threshold to n - k); its reduced suffrage has fewer members than the quorum *)
Definition big_expel (suf : suffrage) (v : vp) : bool :=
  match v_kind v with
  | Expel => len suf - thr (len suf) (v_th10 v) <? len (v_exps v)
  | _ => false
  end.

(* base.NumberOfFaultyNodes (float64) is modelled in Float.v (Flocq); it is not used by the validation. *)

(* ------------------------------------------------------------------ correspondence *)

Inductive case :=
| CVp (suf : suffrage) (v : vp) (obs_wf obs_vs : bool).    (* IsValid == nil, IsValidVoteproofWithSuffrage == nil *)

Definition check (c : case) : bool :=
  match c with
  | CVp suf v ow ov => Bool.eqb (wf v) ow && (unstable suf v || Bool.eqb (valid_suf suf v) ov)
  end.
