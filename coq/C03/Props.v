(* C03 -- Agreement: no two conflicting voteproofs for one stage point.  Property theorems only.

   Vocabulary (coq/C03/Model.v): [accepted suf v] = Voteproof.IsValid and isaac.IsValidVoteproofWithSuffrage both pass;
   [n_equivocators suf v1 v2] = number of suffrage nodes with a verified sign fact (under their suffrage key) in v1 and
   one in v2 for different facts; [f_exact n k] = floor(n - n*t/100) for t = k/10; [big_expel suf v] = v is an expel
   voteproof with more expels than n - Threshold(n) (its reduced suffrage is smaller than the quorum): the class of the
   open finding "expel-partition". *)
From Coq Require Import ZArith NArith List Bool.
From MV Require Import C03.Model C03.Float C03.Proofs C03.Proofs2 Gen.C03.
Import ListNotations.
Open Scope Z_scope.

(* Plain voteproofs, any suffrage size n (below 2^54, where Go's uint64 product n*tenths could wrap), any thresholds
   t1,t2 >= t >= 67: two accepted voteproofs with different majority facts need MORE than f(n,t) equivocating nodes.
   (They need not even be for the same stage point.) *)
Theorem C03_agreement_plain : forall suf v1 v2 m1 m2 k,
  NoDup (map fst suf) -> len suf < 2 ^ 54 ->
  670 <= k -> k <= v_th10 v1 -> k <= v_th10 v2 ->
  v_kind v1 = Plain -> v_kind v2 = Plain ->
  accepted suf v1 = true -> accepted suf v2 = true ->
  v_maj v1 = Some m1 -> v_maj v2 = Some m2 -> f_id m1 <> f_id m2 ->
  f_exact (len suf) k < n_equivocators suf v1 v2.
Proof. exact agreement_plain. Qed.

(* The same for every kind of voteproof (plain, expel, stuck) outside the finding class: expel voteproofs with at most
   n - Threshold(n) expels are as safe as plain ones; stuck voteproofs carry no majority at all. *)
Theorem C03_agreement_outside_expel_partition : forall suf v1 v2 m1 m2 k,
  NoDup (map fst suf) -> len suf < 2 ^ 54 ->
  670 <= k -> k <= v_th10 v1 -> k <= v_th10 v2 ->
  accepted suf v1 = true -> accepted suf v2 = true ->
  v_maj v1 = Some m1 -> v_maj v2 = Some m2 -> f_id m1 <> f_id m2 ->
  big_expel suf v1 = false -> big_expel suf v2 = false ->
  f_exact (len suf) k < n_equivocators suf v1 v2.
Proof. exact agreement_outside_class. Qed.

(* The proved boundary of the finding class: every violating pair (accepted, different majorities, at most f
   equivocators) contains an expel voteproof with more than n - Threshold(n) expels. *)
Theorem C03_violations_need_expels : forall suf v1 v2 m1 m2 k,
  NoDup (map fst suf) -> len suf < 2 ^ 54 ->
  670 <= k -> k <= v_th10 v1 -> k <= v_th10 v2 ->
  accepted suf v1 = true -> accepted suf v2 = true ->
  v_maj v1 = Some m1 -> v_maj v2 = Some m2 -> f_id m1 <> f_id m2 ->
  n_equivocators suf v1 v2 <= f_exact (len suf) k ->
  big_expel suf v1 = true \/ big_expel suf v2 = true.
Proof. exact violations_need_big_expel. Qed.

(* The full statement (agreement for expel voteproofs too) is FALSE of the faithful model: n=4, t=67, {a,b} expel c,d and
   vote A, {c,d} expel a,b and vote B: both accepted for the same stage point, no node signs two facts (f = 1).
   Open known finding "expel-partition"; the harness rebuilds this witness with real keys on every run. *)
Theorem C03_agreement_refuted : exists suf v1 v2 m1 m2,
  NoDup (map fst suf) /\ accepted suf v1 = true /\ accepted suf v2 = true /\ v_pt v1 = v_pt v2
  /\ v_th10 v1 = 670 /\ v_th10 v2 = 670 /\ v_maj v1 = Some m1 /\ v_maj v2 = Some m2 /\ f_id m1 <> f_id m2
  /\ n_equivocators suf v1 v2 = 0 /\ f_exact (len suf) 670 = 1.
Proof. exists suf4, w1, w2, fA, fB. exact partition_witness. Qed.

(* After the fix: commit (isaac/voteproof.go, baseStuckVoteproof.isValid): a stuck voteproof that passes IsValid is a draw. *)
Theorem C03_stuck_is_draw : forall v, wf v = true -> v_kind v = Stuck -> v_maj v = None /\ v_result v = RDraw.
Proof. intros v W K. split; [exact (wf_stuck_no_majority v W K) | exact (stuck_is_draw v W K)]. Qed.

(* Tie: the only comparison the correspondence check skips (several facts with the winning count: Go's answer depends on
   map iteration order) cannot occur for a voteproof that passes IsValid, so every accepted verdict is compared. *)
Theorem C03_tally_determined : forall suf v,
  NoDup (map fst suf) -> len suf < 2 ^ 54 -> wf v = true -> unstable suf v = false.
Proof. exact tally_determined. Qed.

(* base.NumberOfFaultyNodes still computes f in float64; on the grid n <= 40, t in [67.0,100.0] it never exceeds the
   exact floor used above (and is strictly lower at e.g. n=75, t=68.0), so the theorems hold a fortiori with the code's f. *)
Theorem C03_faulty_float_le_exact : forall n k, 1 <= n <= 40 -> 670 <= k <= 1000 ->
  exists f, nfaulty_float n k = Some f /\ 0 <= f <= f_exact n k.
Proof. exact faulty_float_grid. Qed.

(* the thresholds the statements use are the code's own constants (regenerated from base/threshold.go on every run) *)
Theorem C03_consts : threshold_min10 = 510 /\ threshold_max10 = 1000 /\ threshold_safe10 = 670 /\ threshold_default10 = 670.
Proof. repeat split; reflexivity. Qed.

(* ---------------------------------------------------------------- non-vacuity *)

Definition ptx : point := mkPoint 33 0 false.
Definition gA : bfact := mkFact 1 ptx [].
Definition gB : bfact := mkFact 2 ptx [].
Definition sufx : suffrage := [(0, 0); (1, 1); (2, 2); (3, 3)]%N.
Definition px1 : vp := mkVP Plain ptx 670 true (Some gA) [mkSF 0 0 true gA; mkSF 1 1 true gA; mkSF 2 2 true gA] [].
Definition px2 : vp := mkVP Plain ptx 670 true (Some gB) [mkSF 1 1 true gB; mkSF 2 2 true gB; mkSF 3 3 true gB] [].

(* two accepted plain voteproofs with different majorities exist; they have 2 > f = 1 equivocators *)
Example C03_plain_example :
  accepted sufx px1 = true /\ accepted sufx px2 = true /\ n_equivocators sufx px1 px2 = 2 /\ f_exact (len sufx) 670 = 1.
Proof. repeat split; vm_compute; reflexivity. Qed.

(* an accepted expel voteproof outside the class (n=4, one expel <= n - Threshold(4) = 1) *)
Definition exd : expel := mkExpel 1 3 33 38 [mkNS 0 0 true; mkNS 1 1 true; mkNS 2 2 true].
Definition gAe : bfact := mkFact 3 ptx [1%N].
Definition px3 : vp := mkVP Expel ptx 670 true (Some gAe) [mkSF 0 0 true gAe; mkSF 1 1 true gAe; mkSF 2 2 true gAe] [exd].
Example C03_small_expel_example : accepted sufx px3 = true /\ big_expel sufx px3 = false /\ big_expel suf4 w1 = true.
Proof. repeat split; vm_compute; reflexivity. Qed.
