(* C03 -- base.NumberOfFaultyNodes (float64) modelled with Flocq binary64.  Executable definitions only (no proofs).
   Kept apart from Model.v: the function is not used by the voteproof validation, and loading Flocq is slow. *)
From Coq Require Import ZArith List Bool.
From Flocq Require Import IEEE754.BinarySingleNaN IEEE754.Binary IEEE754.Bits.
From MV Require Import C02.Model Gen.C03.
Import ListNotations.
Open Scope Z_scope.

Definition b64_100 : binary64 := b64_of_Z 100.

(* Go int(x) for finite x: truncation toward zero *)
Definition trunc_b64 (x : binary64) : option Z :=
  match x with
  | B754_zero _ _ _ => Some 0
  | B754_finite _ _ s m e _ =>
      let mag := if 0 <=? e then Z.pos m * 2 ^ e else Z.pos m / 2 ^ (- e) in
      Some (if s then - mag else mag)
  | _ => None
  end.

(* NumberOfFaultyNodes(n, Threshold(k/10)) = int(float64(n) - float64(n)*(threshold/MaxThreshold)) *)
Definition nfaulty_float (n k : Z) : option Z :=
  if n <? 1 then Some 0
  else if threshold_max10 <=? k then Some 0
  else
    let fn := b64_of_Z n in
    trunc_b64 (b64_minus mode_NE fn (b64_mult mode_NE fn (b64_div mode_NE (b64_of_tenths k) b64_100))).

(* correspondence case: (n, tenths k, observed NumberOfFaultyNodes(n, k/10)) *)
Definition check_faulty (c : Z * Z * Z) : bool :=
  let '(n, k, obs) := c in
  match nfaulty_float n k with Some f => Z.eqb f obs | None => false end.
