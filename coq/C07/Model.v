(* C07 -- proposer selection.  Transcribes

     isaac/proposer_selector.go  BlockBasedProposerSelector.Select
         switch n := len(nodes); { case n < 1: error; case n < 2: return nodes[0] }
         var sum uint64
         for _, b := range previousBlock.Bytes() { sum += uint64(b) }
         sum += uint64(point.Height().Int64()) + point.Round().Uint64()
         return nodes[int(sum%uint64(len(nodes)))]

     isaac/proposal_selector.go  BaseProposalSelector.getNodes
         len<1: error; len<2: untouched; else sort.Slice by Address().String() with Go's string "<"
         (bytewise lexicographic order)
     BaseProposalSelector.filterDeadNodes  = util.Filter2Slices(nodes, dead, addr equal): keeps, in
         order, the nodes whose address is not in dead
     BaseProposalSelector.selectInternal / selectFromProposer / proposalFromOthers:
         the sequence of ProposerSelectFunc calls: first on the sorted suffrage; when the selected node
         does not deliver a proposal it is filtered out and the selection is repeated on the rest.

   An address is its String() as a list of bytes (N < 256); a node is (address, public-key id).
   Heights are int64 (Z, possibly negative), rounds uint64; the uint64 wrap-around is explicit. *)
From Coq Require Import ZArith NArith List Bool String.
From MV Require Import Common.Cases.
Import ListNotations.
Open Scope Z_scope.

Definition addr := list N.
Definition node := (addr * N)%type.
Definition naddr (n : node) : addr := fst n.

(* Go string comparison: bytewise lexicographic, a proper prefix is smaller *)
Fixpoint cmp (a b : addr) : comparison :=
  match a, b with
  | [], [] => Eq
  | [], _ :: _ => Lt
  | _ :: _, [] => Gt
  | x :: a', y :: b' =>
      match N.compare x y with
      | Eq => cmp a' b'
      | c => c
      end
  end.

Definition addr_eqb (a b : addr) : bool := match cmp a b with Eq => true | _ => false end.

(* nodes[i].Address().String() < nodes[j].Address().String() *)
Definition nlt (x y : node) : bool := match cmp (naddr x) (naddr y) with Lt => true | _ => false end.

Fixpoint insert (x : node) (l : list node) : list node :=
  match l with
  | [] => [x]
  | y :: r => if nlt y x then y :: insert x r else x :: y :: r
  end.

Fixpoint isort (l : list node) : list node :=
  match l with
  | [] => []
  | x :: r => insert x (isort r)
  end.

(* getNodes (after GetNodesFunc returned the list): None = error "empty suffrage nodes" *)
Definition get_nodes (ns : list node) : option (list node) :=
  match ns with
  | [] => None
  | [x] => Some [x]
  | _ => Some (isort ns)
  end.

Definition two64 : Z := 2 ^ 64.

Definition sum_bytes (h : list N) : Z := fold_left (fun s b => (s + Z.of_N b) mod two64) h 0.

(* the uint64 [sum] of Select *)
Definition sel_sum (height round : Z) (prev : list N) : Z :=
  (sum_bytes prev + (height mod two64 + round mod two64) mod two64) mod two64.

(* BlockBasedProposerSelector.Select; None = error "empty suffrage nodes" *)
Definition select (height round : Z) (prev : list N) (nodes : list node) : option node :=
  match nodes with
  | [] => None
  | [x] => Some x
  | _ => nth_error nodes (Z.to_nat (sel_sum height round prev mod Z.of_nat (List.length nodes)))
  end.

Definition is_dead (dead : list addr) (x : node) : bool := existsb (addr_eqb (naddr x)) dead.

(* filterDeadNodes *)
Definition filter_dead (dead : list addr) (nodes : list node) : list node :=
  filter (fun x => negb (is_dead dead x)) nodes.

(* The successive ProposerSelectFunc results of selectInternal, for a set [failing] of nodes that do not
   deliver a proposal: select; if the selected node fails, filter it out and select again on the rest.
   Returns the selected nodes in order; the last one is the proposer whose proposal is taken
   (when it is not failing).  [fuel] >= length nodes suffices (each round removes the selected node). *)
Fixpoint select_loop (fuel : nat) (height round : Z) (prev : list N) (failing : list addr)
         (nodes : list node) : list node :=
  match fuel with
  | O => []
  | S f =>
      match select height round prev nodes with
      | None => []
      | Some x =>
          if is_dead failing x
          then x :: select_loop f height round prev failing (filter_dead [naddr x] nodes)
          else [x]
      end
  end.

(* selectInternal, projected on the nodes asked for a proposal, in order.  A suffrage of one node is
   asked directly (no ProposerSelectFunc call). *)
Definition select_flow (height round : Z) (prev : list N) (failing : list addr) (ns : list node)
  : option (list node) :=
  match get_nodes ns with
  | None => None
  | Some [x] => Some [x]
  | Some sorted => Some (select_loop (S (List.length sorted)) height round prev failing sorted)
  end.

(* the proposer every node computes first: selection on the sorted suffrage *)
Definition proposer (height round : Z) (prev : list N) (ns : list node) : option node :=
  match get_nodes ns with
  | None => None
  | Some sorted => select height round prev sorted
  end.

(* ------------------------------------------------------------------ correspondence *)

Definition node_eqb (x y : node) : bool := addr_eqb (fst x) (fst y) && N.eqb (snd x) (snd y).

(* nodes of a case: addresses in hex; the public-key id is not part of the correspondence (the harness
   checks on the Go side that the selected node object is the suffrage's node with that address) *)
Definition mknodes (l : list string) : list node := map (fun a => (unhex a, 0%N)) l.

(* case: (flow?, height, round, prev hash hex, listed node addresses (hex), failing addrs hex,
          observed node addresses).
   flow = true : the whole BaseProposalSelector.Select run; observed = the nodes asked for a proposal,
                 in order (results of ProposerSelectFunc; the single node of a one-node suffrage).
   flow = false: BlockBasedProposerSelector.Select called directly on the list as given;
                 observed = [selected]. *)
Definition case := (bool * Z * Z * string * list string * list string * list string)%type.

Definition check (c : case) : bool :=
  let '(flow, h, r, prev, ns, failing, obs) := c in
  if flow then
    match select_flow h r (unhex prev) (map unhex failing) (mknodes ns) with
    | Some l => list_eqb node_eqb l (mknodes obs)
    | None => false
    end
  else
    match select h r (unhex prev) (mknodes ns) with
    | Some x => list_eqb node_eqb [x] (mknodes obs)
    | None => false
    end.
