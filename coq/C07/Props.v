(* C07 -- Proposer selection is deterministic and picks a suffrage member.  Property theorems only.

   ns / ns' : the suffrage as listed by two nodes (any order); addresses are unique within a suffrage
   (NoDup (map naddr ns)); h, r : the point (int64 height, uint64 round; any Z, the uint64 wrap is in
   the model); prev : the bytes of the previous block hash (any length).
   proposer   = BlockBasedProposerSelector.Select on the list produced by BaseProposalSelector.getNodes
   select_flow = the successive selections of BaseProposalSelector.selectInternal when the nodes whose
                 address is in [failing] deliver no proposal (each failed node is filtered out first). *)
From Coq Require Import ZArith NArith List Permutation Sorted.
From MV Require Import C07.Model C07.Proofs.
Import ListNotations.
Open Scope Z_scope.

(* every node selects the same proposer, whatever order the suffrage nodes are listed in *)
Theorem C07_perm_invariant : forall h r prev ns ns',
  NoDup (map naddr ns) -> Permutation ns ns' -> proposer h r prev ns = proposer h r prev ns'.
Proof. exact proposer_perm. Qed.

(* a proposer is always selected from a non-empty suffrage, and it is a member of that suffrage *)
Theorem C07_member : forall h r prev ns, ns <> [] -> exists x, proposer h r prev ns = Some x /\ In x ns.
Proof. exact proposer_member. Qed.

(* what getNodes hands to the selector: the same nodes, ordered by address *)
Theorem C07_listing_sorted : forall ns l, get_nodes ns = Some l -> StronglySorted nle l /\ Permutation l ns.
Proof. exact get_nodes_sorted. Qed.

(* the same two statements for the selection after dead-node filtering (same set of dead addresses) *)
Theorem C07_after_filter_perm_invariant : forall h r prev dead ns ns',
  NoDup (map naddr ns) -> Permutation ns ns' ->
  forall l l', get_nodes ns = Some l -> get_nodes ns' = Some l' ->
  select h r prev (filter_dead dead l) = select h r prev (filter_dead dead l').
Proof. exact filter_dead_perm_invariant. Qed.

Theorem C07_after_filter_member : forall h r prev dead ns l x,
  get_nodes ns = Some l -> select h r prev (filter_dead dead l) = Some x ->
  In x ns /\ ~ In (naddr x) dead.
Proof. exact filter_dead_member. Qed.

(* the whole run of selectInternal: the sequence of nodes asked for a proposal does not depend on the
   listing order, ... *)
Theorem C07_flow_perm_invariant : forall h r prev failing ns ns',
  NoDup (map naddr ns) -> Permutation ns ns' ->
  select_flow h r prev failing ns = select_flow h r prev failing ns'.
Proof. exact select_flow_perm. Qed.

(* ... the k-th node asked is the selector's pick in the sorted suffrage minus the k nodes asked before
   it, is a suffrage member and was not asked before, ... *)
Theorem C07_flow_spec : forall h r prev failing ns l k x,
  select_flow h r prev failing ns = Some l -> nth_error l k = Some x ->
  exists sorted, get_nodes ns = Some sorted /\
    select h r prev (filter_dead (map naddr (firstn k l)) sorted) = Some x /\
    In x ns /\ ~ In (naddr x) (map naddr (firstn k l)).
Proof. exact select_flow_spec. Qed.

(* ... only failing nodes are passed over, and the run ends at a live node when there is one *)
Theorem C07_flow_skips_only_failing : forall h r prev failing ns l k x,
  select_flow h r prev failing ns = Some l -> nth_error l k = Some x -> (S k < length l)%nat ->
  In (naddr x) failing.
Proof. exact select_flow_failing. Qed.

Theorem C07_flow_ends_alive : forall h r prev failing ns l,
  select_flow h r prev failing ns = Some l ->
  (exists y, In y ns /\ ~ In (naddr y) failing) ->
  exists x, nth_error l (pred (length l)) = Some x /\ ~ In (naddr x) failing.
Proof. exact select_flow_ends_alive. Qed.

(* non-vacuity: three nodes "b","a","c" listed in two orders, sum = 3+5+7 = 15, 15 mod 3 = 0 -> "a";
   with "a" failing the next pick is 15 mod 2 = 1 -> "c" *)
Example C07_example :
  let a := ([97%N], 1%N) in let b := ([98%N], 2%N) in let c := ([99%N], 3%N) in
  NoDup (map naddr [b; a; c]) /\ Permutation [b; a; c] [c; a; b] /\
  proposer 5 7 [1%N; 2%N] [b; a; c] = Some a /\ proposer 5 7 [1%N; 2%N] [c; a; b] = Some a /\
  select_flow 5 7 [1%N; 2%N] [[97%N]] [c; a; b] = Some [a; c].
Proof.
  cbv zeta. split; [|split; [|vm_compute; auto]].
  - repeat constructor; simpl; intuition discriminate.
  - exact (Permutation_rev [([98%N], 2%N); ([97%N], 1%N); ([99%N], 3%N)]).
Qed.

(* uint64 wrap: height 2^63-1, round 2^64-1, 32 bytes 0xff *)
Example C07_example_wrap :
  sel_sum (2 ^ 63 - 1) (2 ^ 64 - 1) (repeat 255%N 32) = 2 ^ 63 + 8158.
Proof. vm_compute. reflexivity. Qed.
