(* C07 -- lemmas about the proposer-selection model. *)
From Coq Require Import ZArith NArith List Bool Lia ZifyBool ZifyNat ZifyN Permutation Sorted.
From MV Require Import C07.Model.
Import ListNotations.
Open Scope Z_scope.

(* ---------------------------------------------------------------- the address order *)

Lemma cmp_eq : forall a b, cmp a b = Eq -> a = b.
Proof.
  induction a as [|x a IH]; destruct b as [|y b]; simpl; try discriminate; auto.
  destruct (N.compare x y) eqn:E; try discriminate.
  apply N.compare_eq in E. intros H. f_equal; auto.
Qed.

Lemma cmp_refl : forall a, cmp a a = Eq.
Proof. induction a; simpl; auto. rewrite N.compare_refl. auto. Qed.

Lemma cmp_antisym : forall a b, cmp b a = CompOpp (cmp a b).
Proof.
  induction a as [|x a IH]; destruct b as [|y b]; simpl; auto.
  rewrite (N.compare_antisym x y). destruct (N.compare x y); simpl; auto.
Qed.

Lemma cmp_lt_trans : forall a b c, cmp a b = Lt -> cmp b c = Lt -> cmp a c = Lt.
Proof.
  induction a as [|x a IH]; destruct b as [|y b]; destruct c as [|z c]; simpl; try discriminate; auto.
  destruct (N.compare x y) eqn:E1; destruct (N.compare y z) eqn:E2; try discriminate; intros H1 H2.
  - apply N.compare_eq in E1. apply N.compare_eq in E2. subst. rewrite N.compare_refl. eauto.
  - apply N.compare_eq in E1. subst. rewrite E2. auto.
  - apply N.compare_eq in E2. subst. rewrite E1. auto.
  - rewrite N.compare_lt_iff in E1, E2.
    assert (E : N.compare x z = Lt) by (rewrite N.compare_lt_iff; lia). rewrite E. auto.
Qed.

Lemma addr_eqb_eq : forall a b, addr_eqb a b = true <-> a = b.
Proof.
  unfold addr_eqb. intros a b. split.
  - destruct (cmp a b) eqn:E; try discriminate. intros _. apply cmp_eq; auto.
  - intros ->. rewrite cmp_refl. auto.
Qed.

(* x <= y on nodes : not (y < x) *)
Definition nle (x y : node) : Prop := nlt y x = false.

Lemma nle_refl : forall x, nle x x.
Proof. intros x. unfold nle, nlt. rewrite cmp_refl. auto. Qed.

Lemma nlt_nle : forall x y, nlt x y = true -> nle x y.
Proof.
  unfold nle, nlt. intros x y. rewrite (cmp_antisym (naddr x) (naddr y)).
  destruct (cmp (naddr x) (naddr y)); simpl; auto; discriminate.
Qed.

Lemma nle_trans : forall x y z, nle x y -> nle y z -> nle x z.
Proof.
  unfold nle, nlt. intros x y z H1 H2.
  destruct (cmp (naddr z) (naddr x)) eqn:E; auto.
  destruct (cmp (naddr y) (naddr x)) eqn:E1; try discriminate.
  - apply cmp_eq in E1. rewrite E1 in H2. rewrite E in H2. discriminate.
  - assert (E2 : cmp (naddr x) (naddr y) = Lt).
    { rewrite (cmp_antisym (naddr y) (naddr x)). rewrite E1. auto. }
    rewrite (cmp_lt_trans _ _ _ E E2) in H2. discriminate.
Qed.

Lemma nle_antisym : forall x y, nle x y -> nle y x -> naddr x = naddr y.
Proof.
  unfold nle, nlt. intros x y H1 H2. apply cmp_eq.
  destruct (cmp (naddr x) (naddr y)) eqn:E; auto; try discriminate.
  rewrite (cmp_antisym (naddr x) (naddr y)) in H1. rewrite E in H1. discriminate.
Qed.

(* ---------------------------------------------------------------- the sort *)

Lemma insert_perm : forall x l, Permutation (insert x l) (x :: l).
Proof.
  induction l as [|y r IH]; simpl; auto.
  destruct (nlt y x); auto.
  eapply perm_trans; [apply perm_skip; apply IH | apply perm_swap].
Qed.

Lemma isort_perm : forall l, Permutation (isort l) l.
Proof.
  induction l as [|x r IH]; simpl; auto.
  eapply perm_trans; [apply insert_perm | auto].
Qed.

Lemma insert_sorted : forall x l, StronglySorted nle l -> StronglySorted nle (insert x l).
Proof.
  induction l as [|y r IH]; simpl; intros H.
  - constructor; auto.
  - inversion H as [|? ? Hr Hy]; subst.
    destruct (nlt y x) eqn:E.
    + constructor; auto.
      eapply Permutation_Forall; [apply Permutation_sym; apply insert_perm|].
      constructor; auto. apply nlt_nle; auto.
    + constructor; auto. constructor; auto.
      eapply Forall_impl; [|exact Hy]. intros z Hz. eapply nle_trans; eauto.
Qed.

Lemma isort_sorted : forall l, StronglySorted nle (isort l).
Proof. induction l; simpl; [constructor | apply insert_sorted; auto]. Qed.

Lemma nodup_key_inj : forall (l : list node) x y,
  NoDup (map naddr l) -> In x l -> In y l -> naddr x = naddr y -> x = y.
Proof.
  induction l as [|a l IH]; simpl; intros x y ND Hx Hy E; [contradiction|].
  inversion ND as [|? ? Hn ND']; subst.
  destruct Hx as [->|Hx]; destruct Hy as [->|Hy]; auto.
  - exfalso. apply Hn. rewrite E. apply in_map; auto.
  - exfalso. apply Hn. rewrite <- E. apply in_map; auto.
Qed.

Lemma sorted_perm_eq : forall l l',
  NoDup (map naddr l) -> StronglySorted nle l -> StronglySorted nle l' -> Permutation l l' -> l = l'.
Proof.
  induction l as [|a t IH]; intros l' ND S S' P.
  - apply Permutation_nil in P. auto.
  - destruct l' as [|b t'].
    + apply Permutation_sym, Permutation_nil in P. discriminate.
    + inversion S as [|? ? St Ha]; subst. inversion S' as [|? ? St' Hb]; subst.
      assert (Iab : In a (b :: t')) by (eapply Permutation_in; [exact P | left; auto]).
      assert (Iba : In b (a :: t)) by (eapply Permutation_in; [apply Permutation_sym; exact P | left; auto]).
      assert (Lab : nle a b).
      { destruct Iba as [->|I]; [apply nle_refl|]. rewrite Forall_forall in Ha. auto. }
      assert (Lba : nle b a).
      { destruct Iab as [->|I]; [apply nle_refl|]. rewrite Forall_forall in Hb. auto. }
      assert (a = b).
      { apply (nodup_key_inj (a :: t)); auto. left; auto. apply nle_antisym; auto. }
      subst b. f_equal. apply IH; auto.
      * simpl in ND. inversion ND; auto.
      * eapply Permutation_cons_inv; eauto.
Qed.

Lemma isort_perm_eq : forall ns ns',
  NoDup (map naddr ns) -> Permutation ns ns' -> isort ns = isort ns'.
Proof.
  intros ns ns' ND P. apply sorted_perm_eq.
  - eapply Permutation_NoDup; [|exact ND]. apply Permutation_map. apply Permutation_sym, isort_perm.
  - apply isort_sorted.
  - apply isort_sorted.
  - eapply perm_trans; [apply isort_perm|]. eapply perm_trans; [exact P|]. apply Permutation_sym, isort_perm.
Qed.

Lemma get_nodes_isort : forall ns, ns <> [] -> get_nodes ns = Some (isort ns).
Proof. intros [|x [|y t]] H; simpl; auto. congruence. Qed.

Lemma get_nodes_perm : forall ns ns',
  NoDup (map naddr ns) -> Permutation ns ns' -> get_nodes ns = get_nodes ns'.
Proof.
  intros ns ns' ND P. destruct ns as [|x t].
  - apply Permutation_nil in P. subst. auto.
  - assert (ns' <> []).
    { intros ->. apply Permutation_sym, Permutation_nil in P. discriminate. }
    rewrite !get_nodes_isort; auto; try discriminate. f_equal. apply isort_perm_eq; auto.
Qed.

Lemma get_nodes_sorted : forall ns l, get_nodes ns = Some l -> StronglySorted nle l /\ Permutation l ns.
Proof.
  intros ns l H. assert (NE : ns <> []) by (intros ->; discriminate).
  rewrite get_nodes_isort in H by auto. injection H as <-.
  split; [apply isort_sorted | apply isort_perm].
Qed.

(* ---------------------------------------------------------------- the selection *)

Lemma select_in : forall h r p nodes x, select h r p nodes = Some x -> In x nodes.
Proof.
  intros h r p nodes x. destruct nodes as [|a [|b t]]; simpl select.
  - discriminate.
  - intros H. inversion H. left; auto.
  - apply nth_error_In.
Qed.

Lemma select_ge2 : forall h r p l, (2 <= length l)%nat ->
  select h r p l = nth_error l (Z.to_nat (sel_sum h r p mod Z.of_nat (length l))).
Proof. intros h r p [|a [|b t]] H; simpl in H; try lia. reflexivity. Qed.

Lemma select_some : forall h r p nodes, nodes <> [] -> exists x, select h r p nodes = Some x.
Proof.
  intros h r p nodes H. destruct nodes as [|a [|b t]]; [congruence|eexists; simpl; eauto|].
  remember (a :: b :: t) as l. assert (L : (2 <= length l)%nat) by (subst l; simpl; lia).
  rewrite select_ge2 by auto.
  destruct (nth_error l (Z.to_nat (sel_sum h r p mod Z.of_nat (length l)))) eqn:E; [eauto|].
  apply nth_error_None in E.
  pose proof (Z.mod_pos_bound (sel_sum h r p) (Z.of_nat (length l))). lia.
Qed.

(* the index used is (sum mod 2^64) mod len, with the uint64 sum below 2^64 *)
Lemma sel_sum_range : forall h r p, 0 <= sel_sum h r p < two64.
Proof. intros. unfold sel_sum. apply Z.mod_pos_bound. reflexivity. Qed.

Lemma proposer_perm : forall h r p ns ns',
  NoDup (map naddr ns) -> Permutation ns ns' -> proposer h r p ns = proposer h r p ns'.
Proof. intros. unfold proposer. rewrite (get_nodes_perm ns ns'); auto. Qed.

Lemma proposer_member : forall h r p ns, ns <> [] -> exists x, proposer h r p ns = Some x /\ In x ns.
Proof.
  intros h r p ns H. unfold proposer. rewrite get_nodes_isort by auto.
  destruct (select_some h r p (isort ns)) as [x Hx].
  - intros E. pose proof (isort_perm ns) as P. rewrite E in P. apply Permutation_nil in P. auto.
  - exists x. split; auto. eapply Permutation_in; [apply isort_perm|]. eapply select_in; eauto.
Qed.

(* ---------------------------------------------------------------- dead-node filtering *)

Lemma is_dead_spec : forall dead x, is_dead dead x = true <-> In (naddr x) dead.
Proof.
  intros dead x. unfold is_dead. rewrite existsb_exists. split.
  - intros [a [Ha E]]. apply addr_eqb_eq in E. subst; auto.
  - intros Hin. exists (naddr x). split; auto. apply addr_eqb_eq; auto.
Qed.

Lemma filter_dead_in : forall dead nodes x,
  In x (filter_dead dead nodes) <-> In x nodes /\ ~ In (naddr x) dead.
Proof.
  intros. unfold filter_dead. rewrite filter_In. rewrite negb_true_iff.
  rewrite <- is_dead_spec. destruct (is_dead dead x); intuition congruence.
Qed.

Lemma is_dead_app : forall d1 d2 x, is_dead (d1 ++ d2) x = is_dead d1 x || is_dead d2 x.
Proof. intros. unfold is_dead. apply existsb_app. Qed.

Lemma filter_dead_app : forall d1 d2 nodes,
  filter_dead d2 (filter_dead d1 nodes) = filter_dead (d1 ++ d2) nodes.
Proof.
  intros d1 d2 nodes. unfold filter_dead. induction nodes as [|x t IH]; simpl; auto.
  rewrite is_dead_app.
  destruct (is_dead d1 x); simpl; auto. rewrite IH. auto.
Qed.

Lemma filter_len_le : forall (f : node -> bool) l, (length (filter f l) <= length l)%nat.
Proof. induction l as [|a l IH]; cbn [filter length]; [lia|]. destruct (f a); cbn [length]; lia. Qed.

Lemma filter_dead_length_lt : forall x nodes,
  In x nodes -> (length (filter_dead [naddr x] nodes) < length nodes)%nat.
Proof.
  intros x nodes. unfold filter_dead. induction nodes as [|y t IH]; [intros []|].
  cbn [filter length In]. intros [->|H].
  - assert (E : is_dead [naddr x] x = true) by (apply is_dead_spec; left; auto).
    rewrite E. cbn [negb]. pose proof (filter_len_le (fun x0 => negb (is_dead [naddr x] x0)) t). lia.
  - specialize (IH H). destruct (negb (is_dead [naddr x] y)); cbn [length]; lia.
Qed.

Lemma filter_dead_perm_invariant : forall h r p dead ns ns',
  NoDup (map naddr ns) -> Permutation ns ns' ->
  forall l l', get_nodes ns = Some l -> get_nodes ns' = Some l' ->
  select h r p (filter_dead dead l) = select h r p (filter_dead dead l').
Proof.
  intros h r p dead ns ns' ND P l l' H H'. rewrite (get_nodes_perm ns ns') in H by auto. congruence.
Qed.

Lemma filter_dead_member : forall h r p dead ns l x,
  get_nodes ns = Some l -> select h r p (filter_dead dead l) = Some x ->
  In x ns /\ ~ In (naddr x) dead.
Proof.
  intros h r p dead ns l x H S. apply select_in in S. apply filter_dead_in in S. destruct S as [I D].
  split; auto. eapply Permutation_in; [|exact I]. apply (get_nodes_sorted ns l H).
Qed.

(* ---------------------------------------------------------------- the whole selection run *)

Lemma select_flow_perm : forall h r p failing ns ns',
  NoDup (map naddr ns) -> Permutation ns ns' -> select_flow h r p failing ns = select_flow h r p failing ns'.
Proof. intros. unfold select_flow. rewrite (get_nodes_perm ns ns'); auto. Qed.

(* the k-th node asked = the selector's pick on the list minus the k picks before it; all but the
   last are failing; with enough fuel the run ends in a non-failing node or exhausts the list *)
Lemma filter_dead_nil : forall nodes, filter_dead [] nodes = nodes.
Proof. unfold filter_dead. induction nodes as [|x t IH]; simpl; auto. f_equal. exact IH. Qed.

Lemma select_loop_spec : forall fuel h r p failing nodes k x,
  nth_error (select_loop fuel h r p failing nodes) k = Some x ->
  select h r p (filter_dead (map naddr (firstn k (select_loop fuel h r p failing nodes))) nodes) = Some x.
Proof.
  induction fuel as [|f IH]; intros h r p failing nodes k x; cbn [select_loop].
  - destruct k; discriminate.
  - destruct (select h r p nodes) as [y|] eqn:S; [|destruct k; discriminate].
    destruct (is_dead failing y) eqn:D.
    + destruct k as [|k]; cbn [nth_error firstn map].
      * intros H. inversion H; subst. rewrite filter_dead_nil. auto.
      * intros H. specialize (IH _ _ _ _ _ _ _ H).
        rewrite filter_dead_app in IH. exact IH.
    + destruct k as [|k]; cbn [nth_error firstn map].
      * intros H. inversion H; subst. rewrite filter_dead_nil. auto.
      * destruct k; discriminate.
Qed.

(* every node asked before the last one is failing *)
Lemma select_loop_failing : forall fuel h r p failing nodes k x,
  nth_error (select_loop fuel h r p failing nodes) k = Some x ->
  (S k < length (select_loop fuel h r p failing nodes))%nat -> is_dead failing x = true.
Proof.
  induction fuel as [|f IH]; intros h r p failing nodes k x; cbn [select_loop].
  - destruct k; discriminate.
  - destruct (select h r p nodes) as [y|] eqn:S; [|destruct k; discriminate].
    destruct (is_dead failing y) eqn:D.
    + destruct k as [|k]; cbn [nth_error length].
      * intros H _. inversion H; subst; auto.
      * intros H L. eapply IH; eauto. lia.
    + cbn [length]. lia.
Qed.

(* with fuel above the list length the run ends in a non-failing node unless every node is failing *)
Lemma select_loop_ends_alive : forall fuel h r p failing nodes,
  (length nodes < fuel)%nat ->
  (exists y, In y nodes /\ is_dead failing y = false) ->
  exists x, last (select_loop fuel h r p failing nodes) x = x /\
            nth_error (select_loop fuel h r p failing nodes)
                      (pred (length (select_loop fuel h r p failing nodes))) = Some x /\
            is_dead failing x = false.
Proof.
  induction fuel as [|f IH]; intros h r p failing nodes L [y [Iy Ay]]; [lia|].
  cbn [select_loop].
  destruct (select_some h r p nodes) as [x Sx]; [intros ->; contradiction|].
  rewrite Sx. destruct (is_dead failing x) eqn:D.
  - assert (Ix : In x nodes) by (eapply select_in; eauto).
    pose proof (filter_dead_length_lt x nodes Ix) as LT.
    destruct (IH h r p failing (filter_dead [naddr x] nodes)) as [z [Z1 [Z2 Z3]]]; [lia| |].
    + exists y. split; auto. apply filter_dead_in. split; auto.
      intros [E|[]]. assert (is_dead failing y = true); [|congruence].
      apply is_dead_spec. rewrite <- E. apply is_dead_spec; auto.
    + exists z. remember (select_loop f h r p failing (filter_dead [naddr x] nodes)) as l.
      destruct l as [|a l]; [discriminate|].
      split; [|split]; auto.
  - exists x. cbn. auto.
Qed.

Lemma select_flow_cases : forall h r p failing ns l,
  select_flow h r p failing ns = Some l ->
  exists sorted, get_nodes ns = Some sorted /\
    ((exists x, sorted = [x] /\ l = [x]) \/
     l = select_loop (S (length sorted)) h r p failing sorted).
Proof.
  intros h r p failing ns l. unfold select_flow.
  destruct (get_nodes ns) as [[|a [|b t]]|] eqn:G; try discriminate; intros H; injection H as <-;
    eexists; split; eauto.
Qed.

Lemma select_flow_spec : forall h r p failing ns l k x,
  select_flow h r p failing ns = Some l -> nth_error l k = Some x ->
  exists sorted, get_nodes ns = Some sorted /\
    select h r p (filter_dead (map naddr (firstn k l)) sorted) = Some x /\
    In x ns /\ ~ In (naddr x) (map naddr (firstn k l)).
Proof.
  intros h r p failing ns l k x F N.
  destruct (select_flow_cases _ _ _ _ _ _ F) as [sorted [G C]].
  exists sorted. split; auto.
  assert (S : select h r p (filter_dead (map naddr (firstn k l)) sorted) = Some x).
  { destruct C as [[y [-> ->]]| ->].
    - destruct k as [|[|k]]; try discriminate. injection N as ->. reflexivity.
    - apply select_loop_spec; auto. }
  split; auto. eapply filter_dead_member; eauto.
Qed.

Lemma select_flow_failing : forall h r p failing ns l k x,
  select_flow h r p failing ns = Some l -> nth_error l k = Some x -> (S k < length l)%nat ->
  In (naddr x) failing.
Proof.
  intros h r p failing ns l k x F N L.
  destruct (select_flow_cases _ _ _ _ _ _ F) as [sorted [G C]].
  destruct C as [[y [-> ->]]| ->].
  - simpl in L. lia.
  - apply is_dead_spec. eapply select_loop_failing; eauto.
Qed.

Lemma select_flow_ends_alive : forall h r p failing ns l,
  select_flow h r p failing ns = Some l ->
  (exists y, In y ns /\ ~ In (naddr y) failing) ->
  exists x, nth_error l (pred (length l)) = Some x /\ ~ In (naddr x) failing.
Proof.
  intros h r p failing ns l F [y [Iy Ay]].
  destruct (select_flow_cases _ _ _ _ _ _ F) as [sorted [G C]].
  destruct (get_nodes_sorted _ _ G) as [_ P].
  assert (Iy' : In y sorted) by (eapply Permutation_in; [apply Permutation_sym; exact P | auto]).
  destruct C as [[z [-> ->]]| ->].
  - exists z. split; auto. destruct Iy' as [->|[]]. auto.
  - destruct (select_loop_ends_alive (S (length sorted)) h r p failing sorted) as [x [_ [X2 X3]]]; [lia| |].
    + exists y. split; auto. destruct (is_dead failing y) eqn:D; auto.
      apply is_dead_spec in D. contradiction.
    + exists x. split; auto. intros D. apply is_dead_spec in D. congruence.
Qed.

Lemma select_flow_some : forall h r p failing ns, ns <> [] -> exists l, select_flow h r p failing ns = Some l.
Proof.
  intros h r p failing ns H. unfold select_flow. rewrite get_nodes_isort by auto.
  destruct (isort ns) as [|a [|b t]]; eauto.
Qed.
