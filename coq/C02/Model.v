(* C02 -- required vote count.  Transcribes base/threshold.go (after the fix: commit):

     func (t Threshold) Threshold(quorum uint) uint {
         tenths := uint64(math.Round(t.Float64() * 10))
         return uint((uint64(quorum)*tenths + 999) / 1000)
     }

   t is an IEEE-754 binary64 (Flocq); a threshold "with one decimal place" k/10 reaches the code as
   the binary64 nearest to k/10 (strconv.ParseFloat / a Go constant), modelled by [b64_of_tenths]. *)
From Coq Require Import ZArith List Bool.
From Flocq Require Import IEEE754.BinarySingleNaN IEEE754.Binary IEEE754.Bits Core.Zaux.
Import ListNotations.
Open Scope Z_scope.

Definition b64_of_Z (z : Z) : binary64 := binary_normalize 53 1024 eq_refl eq_refl mode_NE z 0 false.

(* the binary64 nearest to k/10: both k (< 2^53) and 10 are exact, IEEE division rounds once *)
Definition b64_of_tenths (k : Z) : binary64 := b64_div mode_NE (b64_of_Z k) (b64_of_Z 10).

(* math.Round(x) for finite x >= 0 : nearest integer, halves away from zero; result as Z.
   Returns None for NaN/inf (Go: uint64(NaN) is implementation-defined; IsValid rejects those). *)
Definition round_half_away (x : binary64) : option Z :=
  match x with
  | B754_zero _ _ _ => Some 0
  | B754_finite _ _ s m e _ =>
      let mag :=
        if 0 <=? e then Z.pos m * 2 ^ e
        else let d := 2 ^ (- e) in (2 * Z.pos m + d) / (2 * d) in
      Some (if s then - mag else mag)
  | _ => None
  end.

Definition tenths_of (t : binary64) : option Z :=
  round_half_away (b64_mult mode_NE t (b64_of_Z 10)).

Definition two64 : Z := 2 ^ 64.

(* the integer core, with Go's uint64 wrap-around written out *)
Definition thr_int (n k : Z) : Z := (((n * k) mod two64 + 999) mod two64) / 1000.

(* Threshold(t).Threshold(n) *)
Definition thr (t : binary64) (n : Z) : option Z :=
  match tenths_of t with
  | Some k => Some (thr_int n k)
  | None => None
  end.

(* exact specification: the least m with 1000*m >= n*k, i.e. m >= n*(k/10)/100 *)
Definition is_least_count (n k m : Z) : Prop := 1000 * m >= n * k /\ 1000 * (m - 1) < n * k.

Definition grid : list Z := map (fun i => 510 + Z.of_nat i) (seq 0 491).

(* correspondence case: (n, tenths k, observed Threshold(k/10).Threshold(n)) *)
Definition check (c : Z * Z * Z) : bool :=
  let '(n, k, obs) := c in
  match thr (b64_of_tenths k) n with
  | Some m => Z.eqb m obs
  | None => false
  end.
