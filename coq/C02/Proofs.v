From Coq Require Import ZArith List Bool Lia.
From Flocq Require Import IEEE754.BinarySingleNaN IEEE754.Binary IEEE754.Bits.
From MV Require Import C02.Model.
Import ListNotations.
Open Scope Z_scope.

Lemma thr_int_nowrap n k : 0 <= n -> 0 <= k -> n * k + 999 < two64 -> thr_int n k = (n * k + 999) / 1000.
Proof.
  intros Hn Hk Hb. unfold thr_int.
  assert (0 <= n * k) by (apply Z.mul_nonneg_nonneg; assumption).
  rewrite (Z.mod_small (n * k)) by lia. rewrite Z.mod_small by lia. reflexivity.
Qed.

Lemma ceil_div_least n k : 0 <= n * k -> is_least_count n k ((n * k + 999) / 1000).
Proof.
  intros H. unfold is_least_count.
  pose proof (Z.div_mod (n * k + 999) 1000 ltac:(lia)) as E.
  pose proof (Z.mod_pos_bound (n * k + 999) 1000 ltac:(lia)) as B.
  lia.
Qed.

Lemma least_unique n k m m' : is_least_count n k m -> is_least_count n k m' -> m = m'.
Proof. unfold is_least_count. lia. Qed.

Lemma thr_int_exact n k : 0 <= n -> 0 <= k <= 1000 -> n < 2 ^ 54 -> is_least_count n k (thr_int n k).
Proof.
  intros Hn Hk Hb.
  assert (n * k <= 2 ^ 54 * 1000) by nia.
  rewrite thr_int_nowrap; try lia.
  - apply ceil_div_least. nia.
  - unfold two64. change (2 ^ 64) with 18446744073709551616. change (2 ^ 54) with 18014398509481984 in *. lia.
Qed.

(* every threshold of the grid 51.0 .. 100.0 (step 0.1) is read back exactly by the float part *)
Lemma tenths_grid_b : forallb (fun k => match tenths_of (b64_of_tenths k) with Some k' => Z.eqb k' k | None => false end) grid = true.
Proof. vm_compute. reflexivity. Qed.

Lemma in_grid k : 510 <= k <= 1000 -> In k grid.
Proof.
  intros H. unfold grid. apply in_map_iff. exists (Z.to_nat (k - 510)). split; [lia|].
  apply in_seq. lia.
Qed.

Lemma tenths_grid k : 510 <= k <= 1000 -> tenths_of (b64_of_tenths k) = Some k.
Proof.
  intros H. pose proof tenths_grid_b as G. rewrite forallb_forall in G.
  specialize (G k (in_grid k H)). destruct (tenths_of (b64_of_tenths k)); [|discriminate].
  apply Z.eqb_eq in G. congruence.
Qed.

Lemma thr_exact n k : 0 <= n < 2 ^ 54 -> 510 <= k <= 1000 ->
  exists m, thr (b64_of_tenths k) n = Some m /\ is_least_count n k m.
Proof.
  intros Hn Hk. unfold thr. rewrite tenths_grid by assumption.
  eexists; split; [reflexivity|]. apply thr_int_exact; lia.
Qed.

Lemma thr_full n : 0 <= n < 2 ^ 54 -> thr (b64_of_tenths 1000) n = Some n.
Proof.
  intros Hn. destruct (thr_exact n 1000 Hn ltac:(lia)) as [m [E L]]. rewrite E. f_equal.
  unfold is_least_count in L. lia.
Qed.
