(* C02 -- Required vote count is exactly the ceiling of n*t/100.  Property theorems only. *)
From Coq Require Import ZArith List.
From Flocq Require Import IEEE754.Bits.
From MV Require Import C02.Model C02.Proofs Gen.C02.
Open Scope Z_scope.

(* For every suffrage size n (any n below 2^54: unbounded for practical purposes, the bound is where
   Go's uint64 product could wrap) and every one-decimal threshold k/10 in [51.0, 100.0], the count the
   code computes is the least integer m with m >= n*(k/10)/100, i.e. 1000*m >= n*k > 1000*(m-1). *)
Theorem C02_exact : forall n k, 0 <= n < 2 ^ 54 -> 510 <= k <= 1000 ->
  exists m, thr (b64_of_tenths k) n = Some m /\ 1000 * m >= n * k /\ 1000 * (m - 1) < n * k.
Proof. exact thr_exact. Qed.

(* the count is unique: rounding can never change it *)
Theorem C02_unique : forall n k m m', is_least_count n k m -> is_least_count n k m' -> m = m'.
Proof. exact least_unique. Qed.

(* the grid the theorem speaks about is the code's own [MinThreshold, MaxThreshold] (regenerated consts) *)
Theorem C02_grid_is_code_range : threshold_min10 = 510 /\ threshold_max10 = 1000.
Proof. split; reflexivity. Qed.

(* non-vacuity: the formerly wrong point n=25, t=56.0 *)
Example C02_example : thr (b64_of_tenths 560) 25 = Some 14.
Proof. vm_compute. reflexivity. Qed.
