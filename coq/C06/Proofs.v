(* C06 -- lemmas about the LastPoint / SetLastPoint / LastVoteproofsHandler model. *)
From Coq Require Import ZArith NArith List Bool Lia ZifyBool Sorted.
From MV Require Import C06.Model.
Import ListNotations.
Open Scope Z_scope.

(* a position of the property's domain: valid height, INIT or ACCEPT, suffrage-confirm only at INIT *)
Definition valid_pos (p : pos) : Prop :=
  0 <= ph p /\ 0 <= pr p /\ ps p <> UNKNOWN /\ (psc p = true -> ps p = INIT).

(* (r,s) strictly before (r',s') within a height *)
Definition earlier (r : Z) (s : stage) (r' : Z) (s' : stage) : Prop :=
  r < r' \/ (r = r' /\ rank s < rank s').

Definition same_point (p l : pos) : Prop := ph p = ph l /\ pr p = pr l /\ ps p = ps l.

Lemma valid_not_zero : forall p, valid_pos p -> is_zero p = false.
Proof.
  intros p [H [_ [S _]]]. unfold is_zero. destruct (ps p); try congruence; lia.
Qed.

Lemma stage_eqb_eq : forall a b, stage_eqb a b = true <-> a = b.
Proof. intros [] []; simpl; split; congruence. Qed.

Lemma rank_inj : forall a b, rank a = rank b -> a = b.
Proof. intros [] []; simpl; intros; congruence || lia. Qed.

Ltac brk :=
  repeat match goal with
  | H : context [if ?c then _ else _] |- _ => destruct c eqn:?; try discriminate
  | |- context [if ?c then _ else _] => destruct c eqn:?
  | H : context [match ?c with Eq => _ | Lt => _ | Gt => _ end] |- _ => destruct c eqn:?; try discriminate
  end.

(* ---------------------------------------------------------------- single step *)

Lemma before_height : forall l h r s sc, is_zero l = false -> before l h r s sc = true -> ph l <= h.
Proof. intros l h r s sc Z. unfold before. rewrite Z. brk; lia. Qed.

Lemma before_lower_rejected : forall l h r s sc, is_zero l = false -> h < ph l -> before l h r s sc = false.
Proof.
  intros l h r s sc Z L. destruct (before l h r s sc) eqn:B; auto.
  apply before_height in B; auto. lia.
Qed.

Lemma is_new_vp_lower_rejected : forall l h r s maj sc,
  is_zero l = false -> h < ph l -> is_new_vp l h r s maj sc = false.
Proof.
  intros. unfold is_new_vp. rewrite before_lower_rejected by auto.
  destruct (h =? ph l) eqn:E; [lia|]. rewrite !andb_false_r. reflexivity.
Qed.

Lemma sp_cmp_gt : forall h r s l, sp_cmp h r s l = Gt ->
  ph l < h \/ (h = ph l /\ (pr l < r \/ (r = pr l /\ rank (ps l) < rank s))).
Proof.
  intros h r s l. unfold sp_cmp.
  destruct (h ?= ph l) eqn:E1; try discriminate.
  - apply Z.compare_eq in E1. destruct (r ?= pr l) eqn:E2; try discriminate.
    + apply Z.compare_eq in E2. intros E3. apply Z.compare_gt_iff in E3. lia.
    + intros _. apply Z.compare_gt_iff in E2. lia.
  - intros _. apply Z.compare_gt_iff in E1. lia.
Qed.

(* a move to an earlier (round, stage) of the same height: only for a suffrage-confirm, from a non-majority *)
Lemma before_backward : forall l h r s sc,
  is_zero l = false -> before l h r s sc = true -> h = ph l -> earlier r s (pr l) (ps l) ->
  sc = true /\ pmaj l = false.
Proof.
  intros l h r s sc Z B E Ea. unfold before in B. rewrite Z in B. unfold earlier in Ea.
  destruct (negb (h =? ph l)) eqn:N; [lia|].
  destruct ((r =? pr l) && (rank (ps l) <=? rank s)) eqn:C; [lia|].
  unfold before_not_same in B.
  destruct (pmaj l && (rank s <? rank (ps l))) eqn:C1; [discriminate|].
  destruct (sp_cmp h r s l) eqn:C2.
  - destruct (sc && negb (pmaj l)) eqn:C3; [|discriminate]. destruct sc, (pmaj l); simpl in *; auto; discriminate.
  - destruct (sc && negb (pmaj l)) eqn:C3; [|discriminate]. destruct sc, (pmaj l); simpl in *; auto; discriminate.
  - apply sp_cmp_gt in C2. lia.
Qed.

Lemma is_new_vp_backward : forall l h r s maj sc,
  is_zero l = false -> is_new_vp l h r s maj sc = true -> h = ph l -> earlier r s (pr l) (ps l) ->
  sc = true /\ pmaj l = false.
Proof.
  intros l h r s maj sc Z B E Ea. unfold is_new_vp in B. apply orb_true_iff in B. destruct B as [B|B].
  - eapply before_backward; eauto.
  - unfold earlier in Ea. lia.
Qed.

(* the same stage point is accepted again only as plain -> suffrage-confirm *)
Lemma before_same_point : forall l h r s sc,
  is_zero l = false -> before l h r s sc = true -> h = ph l -> r = pr l -> s = ps l ->
  sc = true /\ psc l = false.
Proof.
  intros l h r s sc Z B -> -> ->. unfold before in B. rewrite Z in B.
  rewrite Z.eqb_refl in B. simpl in B. rewrite Z.eqb_refl in B.
  assert (E : rank (ps l) <=? rank (ps l) = true) by lia. rewrite E in B. simpl in B.
  unfold before_same in B. destruct sc.
  - split; auto. destruct (psc l); auto; discriminate.
  - destruct (negb (pmaj l)); [discriminate|].
    assert (E2 : stage_eqb (ps l) (ps l) = true) by (apply stage_eqb_eq; auto). rewrite E2 in B. discriminate.
Qed.

Lemma is_new_vp_same_point : forall l h r s maj sc,
  is_zero l = false -> is_new_vp l h r s maj sc = true -> h = ph l -> r = pr l -> s = ps l ->
  (sc = true /\ psc l = false) \/ (pmaj l = false /\ maj = true).
Proof.
  intros l h r s maj sc Z B E1 E2 E3. unfold is_new_vp in B. apply orb_true_iff in B. destruct B as [B|B].
  - left. eapply before_same_point; eauto.
  - right. destruct (pmaj l), maj; simpl in B; auto; discriminate.
Qed.

Lemma set_last_point_neq : forall l p,
  is_zero l = false -> snd (set_last_point l p) = true -> p <> l.
Proof.
  intros l p Z S E. subst p. unfold set_last_point in S.
  destruct (before l (ph l) (pr l) (ps l) (psc l)) eqn:B; [|discriminate].
  destruct (before_same_point _ _ _ _ _ Z B eq_refl eq_refl eq_refl) as [A1 A2]. congruence.
Qed.

(* ---------------------------------------------------------------- histories *)

Definition inv (l : pos) : Prop := l = zero_pos \/ valid_pos l.

Lemma step_inv : forall l p, inv l -> valid_pos p ->
  inv (fst (set_last_point l p)) /\ ph l <= ph (fst (set_last_point l p)).
Proof.
  intros l p I V. unfold set_last_point.
  destruct (before l (ph p) (pr p) (ps p) (psc p)) eqn:B; simpl.
  - split; [right; auto|]. destruct I as [->|Vl].
    + simpl. destruct V; auto.
    + eapply before_height; eauto. apply valid_not_zero; auto.
  - split; auto. lia.
Qed.

Lemma run_states_ge : forall ps l, inv l -> Forall valid_pos ps ->
  Forall (fun s => ph l <= ph s) (map fst (run l ps)).
Proof.
  induction ps as [|p r IH]; intros l I V; simpl; [constructor|].
  inversion V as [|? ? Vp Vr]; subst.
  destruct (step_inv l p I Vp) as [I' Hle].
  destruct (set_last_point l p) as [l' b] eqn:E. simpl in *. constructor; auto.
  eapply Forall_impl; [|apply IH; eauto]. simpl. intros; lia.
Qed.

Lemma run_height_sorted : forall ps l, inv l -> Forall valid_pos ps ->
  StronglySorted (fun a b => ph a <= ph b) (l :: map fst (run l ps)).
Proof.
  induction ps as [|p r IH]; intros l I V.
  - simpl. constructor; constructor.
  - constructor; [|apply run_states_ge; auto].
    simpl. inversion V as [|? ? Vp Vr]; subst.
    destruct (step_inv l p I Vp) as [I' _].
    destruct (set_last_point l p) as [l' b] eqn:E. simpl in *. apply IH; auto.
Qed.

Lemma run_states_valid : forall ps l, inv l -> Forall valid_pos ps ->
  Forall valid_pos (map fst (run l ps)).
Proof.
  induction ps as [|p r IH]; intros l I V; simpl; [constructor|].
  inversion V as [|? ? Vp Vr]; subst.
  destruct (step_inv l p I Vp) as [I' _].
  assert (Vl' : valid_pos (fst (set_last_point l p))).
  { unfold set_last_point in *. destruct (before l (ph p) (pr p) (ps p) (psc p)) eqn:B; simpl in *; auto.
    destruct I as [->|]; auto. simpl in B. discriminate. }
  destruct (set_last_point l p) as [l' b] eqn:E. simpl in *. constructor; auto.
Qed.

(* ---------------------------------------------------------------- re-takes over a history *)

Definition backward (l p : pos) : Prop := ph p = ph l /\ earlier (pr p) (ps p) (pr l) (ps l).

(* strict order in which every accepted non-backward update moves *)
Definition lt_key (l p : pos) : Prop :=
  ph l < ph p \/ (ph l = ph p /\ (pr l < pr p \/ (pr l = pr p /\
    (rank (ps l) < rank (ps p) \/ (ps l = ps p /\ psc l = false /\ psc p = true))))).

Lemma lt_key_trans : forall a b c, lt_key a b -> lt_key b c -> lt_key a c.
Proof.
  unfold lt_key. intros a b c H1 H2.
  destruct H1 as [|[? [|[? [|[? [? ?]]]]]]]; destruct H2 as [|[? [|[? [|[? [? ?]]]]]]]; try lia;
    try (right; split; [lia|]; try (left; lia); right; split; [lia|]; try (left; congruence || lia)).
Qed.

Lemma lt_key_irrefl : forall a, ~ lt_key a a.
Proof. unfold lt_key. intros a H. destruct H as [|[? [|[? [|[? [? ?]]]]]]]; try lia; congruence. Qed.

Lemma forward_step_lt : forall l p,
  is_zero l = false -> ps p <> UNKNOWN -> ps l <> UNKNOWN ->
  before l (ph p) (pr p) (ps p) (psc p) = true -> ~ backward l p -> lt_key l p.
Proof.
  intros l p Z Sp Sl B NB. pose proof (before_height _ _ _ _ _ Z B) as Hh.
  unfold lt_key. destruct (Z.eq_dec (ph l) (ph p)) as [E|]; [|left; lia]. right. split; auto.
  destruct (Z_lt_le_dec (pr l) (pr p)); [left; auto|]. right.
  destruct (Z.eq_dec (pr l) (pr p)) as [E2|].
  - split; auto. destruct (Z_lt_le_dec (rank (ps l)) (rank (ps p))); [left; auto|]. right.
    destruct (Z.eq_dec (rank (ps l)) (rank (ps p))) as [E3|].
    + apply rank_inj in E3. split; auto.
      destruct (before_same_point l (ph p) (pr p) (ps p) (psc p) Z B) as [A1 A2]; auto.
    + exfalso. apply NB. split; auto. right. split; auto. lia.
  - exfalso. apply NB. split; auto. left. lia.
Qed.

Fixpoint no_backward (l : pos) (ps : list pos) : Prop :=
  match ps with
  | [] => True
  | p :: r => if snd (set_last_point l p) then ~ backward l p /\ no_backward p r else no_backward l r
  end.

Lemma accepted_forward_lt : forall ps l, valid_pos l -> Forall valid_pos ps -> no_backward l ps ->
  Forall (lt_key l) (accepted l ps).
Proof.
  induction ps as [|p r IH]; intros l Vl V NB; simpl; [constructor|].
  inversion V as [|? ? Vp Vr]; subst. simpl in NB.
  destruct (snd (set_last_point l p)) eqn:S.
  - destruct NB as [NB1 NB2].
    assert (L : lt_key l p).
    { apply forward_step_lt; auto.
      - apply valid_not_zero; auto.
      - destruct Vp as [_ [_ [? _]]]; auto.
      - destruct Vl as [_ [_ [? _]]]; auto.
      - unfold set_last_point in S. destruct (before l (ph p) (pr p) (ps p) (psc p)); auto. }
    constructor; auto. eapply Forall_impl; [|apply IH; eauto]. intros a Ha. eapply lt_key_trans; eauto.
  - apply IH; auto.
Qed.

Lemma accepted_forward_not_in : forall ps l, valid_pos l -> Forall valid_pos ps -> no_backward l ps ->
  ~ In l (accepted l ps).
Proof.
  intros ps l Vl V NB I. pose proof (accepted_forward_lt ps l Vl V NB) as F.
  rewrite Forall_forall in F. apply (lt_key_irrefl l). auto.
Qed.

Lemma accepted_forward_nodup : forall ps l, inv l -> Forall valid_pos ps -> no_backward l ps ->
  NoDup (accepted l ps).
Proof.
  induction ps as [|p r IH]; intros l I V NB; simpl; [constructor|].
  inversion V as [|? ? Vp Vr]; subst. simpl in NB.
  destruct (snd (set_last_point l p)) eqn:S.
  - destruct NB as [_ NB2]. constructor.
    + apply accepted_forward_not_in; auto.
    + apply IH; auto. right; auto.
  - apply IH; auto.
Qed.

(* the zero state never counts as a backward source *)
Lemma no_backward_zero_first : forall p r, no_backward p r -> ~ backward zero_pos p \/ True.
Proof. intros; right; auto. Qed.

(* ---------------------------------------------------------------- the handler *)

Lemma h_is_new_lower_rejected : forall h lp v,
  h_pos h = Some lp -> is_zero lp = false -> vh v < ph lp -> h_is_new h v = false.
Proof.
  intros h lp v P Z L. unfold h_pos in P. unfold h_is_new.
  destruct (cap (h_last h)) as [c|]; [|discriminate]. rewrite P.
  unfold is_new_voteproof. apply is_new_vp_lower_rejected; auto.
Qed.
