(* C06 -- consensus progress.  Transcribes

     isaac/lastpoint.go        LastPoint, NewLastPoint, Before, beforeSamePoint, beforeNotSamePoint,
                               IsNewVoteproofbyPoint, IsNewBallot, NewLastPointFromVoteproof
     isaac/states/ballotbox.go Ballotbox.SetLastPoint   (lsp.Set: replace when last.Before(point, sc))
     isaac/last_voteproofs.go  LastVoteproofs.Cap/findLastVoteproofs, LastVoteproofsHandler.Set / IsNew /
                               ForceSetLast / fillMissing / Voteproofs, with the LRU cache of 1<<3 entries
     base/point.go, base/stage.go   Point/StagePoint Compare, Equal, IsZero; Stage.Compare (statesmap)

   A position is (height, round, stage, majority, suffrage-confirm).  Heights are int64, rounds uint64
   (only compared, never added, so plain Z).  The zero LastPoint (Go zero value: stage "" is not a valid
   stage, so IsZero() holds) is [zero_pos], with the third stage constructor UNKNOWN. *)
From Coq Require Import ZArith NArith List Bool.
From MV Require Import Common.Cases.
Import ListNotations.
Open Scope Z_scope.

Inductive stage := UNKNOWN | INIT | ACCEPT.

(* base/stage.go statesmap *)
Definition rank (s : stage) : Z := match s with UNKNOWN => 0 | INIT => 1 | ACCEPT => 3 end.

Definition stage_eqb (a b : stage) : bool :=
  match a, b with UNKNOWN, UNKNOWN | INIT, INIT | ACCEPT, ACCEPT => true | _, _ => false end.

Record pos := mkpos { ph : Z; pr : Z; ps : stage; pmaj : bool; psc : bool }.

Definition zero_pos : pos := mkpos 0 0 UNKNOWN false false.

(* StagePoint.IsZero: height <= NilHeight (-1) or invalid stage *)
Definition is_zero (l : pos) : bool :=
  (ph l <=? -1) || match ps l with UNKNOWN => true | _ => false end.

(* NewLastPoint: error when suffrage-confirm and not INIT *)
Definition new_last_point (h r : Z) (s : stage) (maj sc : bool) : option pos :=
  if sc && negb (stage_eqb s INIT) then None else Some (mkpos h r s maj sc).

(* StagePoint.Compare of (h,r,s) against l *)
Definition sp_cmp (h r : Z) (s : stage) (l : pos) : comparison :=
  match h ?= ph l with
  | Eq => match r ?= pr l with
          | Eq => rank s ?= rank (ps l)
          | c => c
          end
  | c => c
  end.

Definition before_same (l : pos) (s : stage) (sc : bool) : bool :=
  if sc then negb (psc l)
  else if negb (pmaj l) then false
  else if stage_eqb s (ps l) then false
  else true.

Definition before_not_same (l : pos) (h r : Z) (s : stage) (sc : bool) : bool :=
  if pmaj l && (rank s <? rank (ps l)) then false
  else if match sp_cmp h r s l with Gt => true | _ => false end then true
  else if sc && negb (pmaj l) then true
  else false.

(* LastPoint.Before(point, isSuffrageConfirm) *)
Definition before (l : pos) (h r : Z) (s : stage) (sc : bool) : bool :=
  if is_zero l then true
  else if negb (h =? ph l) then ph l <? h
  else if (r =? pr l) && (rank (ps l) <=? rank s) then before_same l s sc
  else before_not_same l h r s sc.

Definition is_new_ballot := before.

(* IsNewVoteproofbyPoint(last, point, isMajority, isSuffrageConfirm) *)
Definition is_new_vp (l : pos) (h r : Z) (s : stage) (maj sc : bool) : bool :=
  before l h r s sc
  || (negb (pmaj l) && maj && ((h =? ph l) && (r =? pr l)) && (rank (ps l) <=? rank s)).

(* Ballotbox.SetLastPoint: new state and the returned bool *)
Definition set_last_point (l p : pos) : pos * bool :=
  if before l (ph p) (pr p) (ps p) (psc p) then (p, true) else (l, false).

(* states after each call, and results *)
Fixpoint run (l : pos) (ps : list pos) : list (pos * bool) :=
  match ps with
  | [] => []
  | p :: r => let '(l', b) := set_last_point l p in (l', b) :: run l' r
  end.

(* the accepted updates of a history, in order *)
Fixpoint accepted (l : pos) (ps : list pos) : list pos :=
  match ps with
  | [] => []
  | p :: r => if snd (set_last_point l p) then p :: accepted p r else accepted l r
  end.

Definition pos_eqb (a b : pos) : bool :=
  (ph a =? ph b) && (pr a =? pr b) && stage_eqb (ps a) (ps b) && Bool.eqb (pmaj a) (pmaj b) && Bool.eqb (psc a) (psc b).

(* ------------------------------------------------------------------ last voteproofs *)

(* a voteproof: its stage point, result = majority?, majority fact is a suffrage-confirm fact?, identity *)
Record vp := mkvp { vh : Z; vr : Z; vs : stage; vmaj : bool; vsc : bool; vid : N }.

Record lvps := mklvps { l_ivp : option vp; l_avp : option vp; l_mvp : option vp }.

Definition empty_lvps := mklvps None None None.

Definition pt_cmp (h r h' r' : Z) : comparison :=
  match h ?= h' with Eq => r ?= r' | c => c end.

(* findLastVoteproofs *)
Definition cap (l : lvps) : option vp :=
  match l_ivp l, l_avp l with
  | None, a => a
  | i, None => i
  | Some i, Some a => match pt_cmp (vh a) (vr a) (vh i) (vr i) with Lt => Some i | _ => Some a end
  end.

(* NewLastPointFromVoteproof *)
Definition lp_of_vp (v : vp) : option pos := new_last_point (vh v) (vr v) (vs v) (vmaj v) (vsc v).

(* IsNewVoteproof *)
Definition is_new_voteproof (lp : pos) (v : vp) : bool := is_new_vp lp (vh v) (vr v) (vs v) (vmaj v) (vsc v).

Definition key := (Z * Z * stage)%type.
Definition key_eqb (a b : key) : bool :=
  let '(h, r, s) := a in let '(h', r', s') := b in (h =? h') && (r =? r') && stage_eqb s s'.
Definition vkey (v : vp) : key := (vh v, vr v, vs v).

(* gcache LRU: most recently used first *)
Definition lru := list (key * lvps).

Fixpoint lru_remove (k : key) (c : lru) : lru :=
  match c with
  | [] => []
  | (k', v) :: r => if key_eqb k k' then r else (k', v) :: lru_remove k r
  end.

Fixpoint lru_find (k : key) (c : lru) : option lvps :=
  match c with
  | [] => None
  | (k', v) :: r => if key_eqb k k' then Some v else lru_find k r
  end.

Definition lru_get (k : key) (c : lru) : option lvps * lru :=
  match lru_find k c with
  | Some v => (Some v, (k, v) :: lru_remove k c)
  | None => (None, c)
  end.

Definition lru_set (cap_ : nat) (k : key) (v : lvps) (c : lru) : lru :=
  firstn cap_ ((k, v) :: lru_remove k c).

Record handler := mkh { h_last : lvps; h_cache : lru }.

Definition handler0 := mkh empty_lvps [].

Definition is_some {A} (o : option A) : bool := match o with Some _ => true | None => false end.

Definition fill_missing (cap_ : nat) (h : handler) (lvp v : vp) : handler * bool :=
  let '(found, c1) := lru_get (vkey lvp) (h_cache h) in
  let cached := match found with Some x => x | None => empty_lvps end in
  let last := h_last h in
  (* INIT voteproof of the same point missing under an ACCEPT cap *)
  let fill_i := negb (is_some (l_ivp cached)) && stage_eqb (vs lvp) ACCEPT && stage_eqb (vs v) INIT
                && ((vh lvp =? vh v) && (vr lvp =? vr v)) in
  let cached1 := if fill_i then mklvps (Some v) (l_avp cached) (l_mvp cached) else cached in
  let last1 := if fill_i && negb (is_some (l_ivp last)) then mklvps (Some v) (l_avp last) (l_mvp last) else last in
  (* ACCEPT voteproof of the previous height missing under an INIT cap *)
  let fill_a := negb (is_some (l_avp cached1)) && stage_eqb (vs lvp) INIT && stage_eqb (vs v) ACCEPT
                && (vh lvp =? vh v + 1) in
  let cached2 := if fill_a then mklvps (l_ivp cached1) (Some v) (l_mvp cached1) else cached1 in
  let last2 := if fill_a && negb (is_some (l_avp last1)) then mklvps (l_ivp last1) (Some v) (l_mvp last1) else last1 in
  if negb (fill_i || fill_a) then (mkh last2 c1, false)
  else
    let cached3 := if negb (is_some (l_mvp cached2)) && vmaj v
                   then mklvps (l_ivp cached2) (l_avp cached2) (Some v) else cached2 in
    (mkh last2 (lru_set cap_ (vkey lvp) cached3 c1), true).

Definition put_vp (last : lvps) (v : vp) : option lvps :=
  match vs v with
  | INIT => Some (mklvps (Some v) (l_avp last) (l_mvp last))
  | ACCEPT => Some (mklvps (l_ivp last) (Some v) (l_mvp last))
  | UNKNOWN => None
  end.

Definition set_mvp (last : lvps) (v : vp) : lvps :=
  if vmaj v then mklvps (l_ivp last) (l_avp last) (Some v) else last.

(* LastVoteproofsHandler.Set *)
Definition h_set (cap_ : nat) (h : handler) (v : vp) : handler * bool :=
  let lv := h_last h in
  let proceed :=
    match put_vp lv v with
    | None => (h, false)
    | Some l1 =>
        let l2 := set_mvp l1 v in
        let c := if is_some (cap lv) then lru_set cap_ (vkey v) lv (h_cache h) else h_cache h in
        (mkh l2 c, true)
    end in
  match cap lv with
  | None => proceed
  | Some lvp =>
      match lp_of_vp lvp with
      | None => (h, false)
      | Some lp => if is_new_voteproof lp v then proceed else fill_missing cap_ h lvp v
      end
  end.

(* LastVoteproofsHandler.IsNew *)
Definition h_is_new (h : handler) (v : vp) : bool :=
  match cap (h_last h) with
  | None => true
  | Some lvp => match lp_of_vp lvp with None => false | Some lp => is_new_voteproof lp v end
  end.

(* LastVoteproofsHandler.ForceSetLast *)
Definition h_force (cap_ : nat) (h : handler) (v : vp) : handler * bool :=
  let lv := h_last h in
  let l1 :=
    match vs v with
    | INIT =>
        let drop := match l_avp lv with
                    | Some a => match pt_cmp (vh a) (vr a) (vh v) (vr v) with Lt => false | _ => true end
                    | None => false end in
        if drop then mklvps (Some v) None None else mklvps (Some v) (l_avp lv) (l_mvp lv)
    | ACCEPT =>
        let drop := match l_ivp lv with
                    | Some i => match pt_cmp (vh i) (vr i) (vh v) (vr v) with Gt => true | _ => false end
                    | None => false end in
        if drop then mklvps None (Some v) None else mklvps (l_ivp lv) (Some v) (l_mvp lv)
    | UNKNOWN => lv
    end in
  let l2 := set_mvp l1 v in
  let c := if is_some (cap lv) then lru_set cap_ (vkey v) lv (h_cache h) else h_cache h in
  (mkh l2 c, true).

(* LastVoteproofsHandler.Voteproofs(point): a cache Get (refreshes recency) *)
Definition h_lookup (h : handler) (k : key) : handler * option lvps :=
  let '(found, c) := lru_get k (h_cache h) in (mkh (h_last h) c, found).

(* the position voteproofs are judged against by the handler *)
Definition h_pos (h : handler) : option pos :=
  match cap (h_last h) with None => None | Some v => lp_of_vp v end.

Inductive hop := OSet (v : vp) | OIsNew (v : vp) | OForce (v : vp) | OLookup (k : key).

(* observation of one op: result, then the ids (+1; 0 = none) of ivp, avp, mvp of Last() -- of the cached
   entry for a lookup *)
Definition oid (o : option vp) : N := match o with Some v => (vid v + 1)%N | None => 0%N end.
Definition obs_lvps (b : bool) (l : lvps) : list N :=
  [if b then 1%N else 0%N; oid (l_ivp l); oid (l_avp l); oid (l_mvp l)].

Definition h_step (cap_ : nat) (h : handler) (o : hop) : handler * list N :=
  match o with
  | OSet v => let '(h', b) := h_set cap_ h v in (h', obs_lvps b (h_last h'))
  | OIsNew v => (h, obs_lvps (h_is_new h v) (h_last h))
  | OForce v => let '(h', b) := h_force cap_ h v in (h', obs_lvps b (h_last h'))
  | OLookup k => let '(h', f) := h_lookup h k in
                 (h', match f with Some l => obs_lvps true l | None => obs_lvps false empty_lvps end)
  end.

Fixpoint h_run (cap_ : nat) (h : handler) (ops : list hop) : list (list N) :=
  match ops with
  | [] => []
  | o :: r => let '(h', ob) := h_step cap_ h o in ob :: h_run cap_ h' r
  end.

(* states of the handler under Set calls only *)
Fixpoint h_sets (cap_ : nat) (h : handler) (vs_ : list vp) : list handler :=
  match vs_ with
  | [] => []
  | v :: r => let h' := fst (h_set cap_ h v) in h' :: h_sets cap_ h' r
  end.

(* ------------------------------------------------------------------ correspondence *)

(* the indexed domain shared with the harness (harness/cmd/c06): heights, rounds *)
Definition dom_heights : list Z := [0; 1; 2; 33; 34; 9223372036854775806; 9223372036854775807].
Definition dom_rounds : list Z := [0; 1; 2; 18446744073709551615].

Definition nthZ (l : list Z) (i : N) : Z := nth (N.to_nat i) l (-7).

(* position index = (((hi*4 + ri)*2 + si)*2 + maj)*2 + sc ; si 0 = INIT, 1 = ACCEPT *)
Definition dec_point (i : N) : Z * Z * stage :=
  let si := N.modulo i 2 in let i1 := N.div i 2 in
  let ri := N.modulo i1 4 in let hi := N.div i1 4 in
  (nthZ dom_heights hi, nthZ dom_rounds ri, if N.eqb si 0 then INIT else ACCEPT).

Definition dec_pos (i : N) : option pos :=
  let sc := N.eqb (N.modulo i 2) 1 in let i1 := N.div i 2 in
  let maj := N.eqb (N.modulo i1 2) 1 in let i2 := N.div i1 2 in
  let '(h, r, s) := dec_point i2 in new_last_point h r s maj sc.

(* 999 = the zero LastPoint *)
Definition dec_state (i : N) : option pos := if N.eqb i 999 then Some zero_pos else dec_pos i.

(* voteproof index = (point index)*4 + kind ; kind 0 majority plain, 1 majority suffrage-confirm (INIT only),
   2 draw.  The id is the position of the op in the sequence. *)
Definition dec_vp (i : N) (id : N) : vp :=
  let k := N.modulo i 4 in
  let '(h, r, s) := dec_point (N.div i 4) in
  mkvp h r s (negb (N.eqb k 2)) (N.eqb k 1) id.

(* the small exhaustive domain: heights 0..2, rounds 0..2, both stages *)
Definition small_points : list (Z * Z * stage) :=
  flat_map (fun h => flat_map (fun r => [(h, r, INIT); (h, r, ACCEPT)]) [0; 1; 2]) [0; 1; 2].

Definition small_positions : list pos :=
  flat_map (fun p => let '(h, r, s) := p in
    flat_map (fun maj => flat_map (fun sc =>
      match new_last_point h r s maj sc with Some x => [x] | None => [] end) [false; true]) [false; true])
    small_points.

Fixpoint mask_of (l : list bool) : N :=
  match l with
  | [] => 0%N
  | b :: r => ((if b then 1 else 0) + 2 * mask_of r)%N
  end.

(* Before over all small points x sc ; IsNewVoteproofbyPoint over all small points x maj x sc *)
Definition table_before (l : pos) : N :=
  mask_of (flat_map (fun p => let '(h, r, s) := p in map (fun sc => before l h r s sc) [false; true]) small_points).
Definition table_vp (l : pos) : N :=
  mask_of (flat_map (fun p => let '(h, r, s) := p in
     flat_map (fun maj => map (fun sc => is_new_vp l h r s maj sc) [false; true]) [false; true]) small_points).

Definition dec_hop (o : N * N) (id : N) : hop :=
  let '(k, i) := o in
  if N.eqb k 0 then OSet (dec_vp i id)
  else if N.eqb k 1 then OIsNew (dec_vp i id)
  else if N.eqb k 2 then OForce (dec_vp i id)
  else OLookup (dec_point i).

Fixpoint dec_hops (l : list (N * N)) (id : N) : list hop :=
  match l with
  | [] => []
  | o :: r => dec_hop o id :: dec_hops r (id + 1)%N
  end.

Definition lru_capacity : nat := 8.

Inductive case :=
  (* state (999 = zero), IsNewBallot table, IsNewVoteproofbyPoint table *)
  | KTable (st : N) (tb tv : N)
  (* fresh Ballotbox, SetLastPoint(first) then, each on its own replayed box, SetLastPoint(second) for every
     second in small_positions: mask of the returned bools (bit 0 = result for first itself) *)
  | KPairs (first : N) (m : N)
  (* one Ballotbox, the calls in order: returned bools as a mask, LastPoint() after each call (999 = zero) *)
  | KSeq (args : list N) (m : N) (states : list N)
  (* NewLastPoint(idx) is an error *)
  | KInvalid (p : N)
  (* one LastVoteproofsHandler: ops (kind, index) and the observation of each *)
  | KHandler (ops : list (N * N)) (obs : list (list N)).

Definition state_idx_eqb (l : pos) (i : N) : bool :=
  match dec_state i with Some x => pos_eqb l x | None => false end.

Fixpoint dec_all (l : list N) : option (list pos) :=
  match l with
  | [] => Some []
  | i :: r => match dec_pos i, dec_all r with Some p, Some ps => Some (p :: ps) | _, _ => None end
  end.

Definition check (c : case) : bool :=
  match c with
  | KTable st tb tv =>
      match dec_state st with
      | Some l => N.eqb (table_before l) tb && N.eqb (table_vp l) tv
      | None => false
      end
  | KPairs f m =>
      match dec_pos f with
      | Some p =>
          let '(l1, b1) := set_last_point zero_pos p in
          N.eqb (mask_of (b1 :: map (fun q => snd (set_last_point l1 q)) small_positions)) m
      | None => false
      end
  | KSeq args m states =>
      match dec_all args with
      | Some ps =>
          let rs := run zero_pos ps in
          N.eqb (mask_of (map snd rs)) m
          && Nat.eqb (length states) (length rs)
          && forallb (fun x => state_idx_eqb (fst (fst x)) (snd x)) (combine rs states)
      | None => false
      end
  | KInvalid p => match dec_pos p with None => true | Some _ => false end
  | KHandler ops obs =>
      list_eqb (list_eqb N.eqb) (h_run lru_capacity handler0 (dec_hops ops 0%N)) obs
  end.
