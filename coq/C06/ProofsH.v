(* C06 -- LastVoteproofsHandler.Set: the height of the cap voteproof never decreases. *)
From Coq Require Import ZArith NArith List Bool Lia ZifyBool.
From MV Require Import C06.Model C06.Proofs.
Import ListNotations.
Open Scope Z_scope.

Definition hvalid (v : vp) : Prop := 0 <= vh v /\ vs v <> UNKNOWN /\ (vsc v = true -> vs v = INIT).

Definition hinv (l : lvps) : Prop :=
  (forall i, l_ivp l = Some i -> hvalid i /\ vs i = INIT) /\
  (forall a, l_avp l = Some a -> hvalid a /\ vs a = ACCEPT).

Definition cap_h (l : lvps) : Z := match cap l with Some v => vh v | None => -1 end.

Lemma pt_cmp_lt_h : forall h r h' r', pt_cmp h r h' r' = Lt -> h <= h'.
Proof.
  intros h r h' r'. unfold pt_cmp. destruct (h ?= h') eqn:E; try discriminate; intros _.
  - apply Z.compare_eq in E. lia.
  - rewrite Z.compare_lt_iff in E. lia.
Qed.

Lemma pt_cmp_nlt_h : forall h r h' r', pt_cmp h r h' r' <> Lt -> h' <= h.
Proof.
  intros h r h' r'. unfold pt_cmp. destruct (h ?= h') eqn:E; intros N.
  - apply Z.compare_eq in E. lia.
  - congruence.
  - rewrite Z.compare_gt_iff in E. lia.
Qed.

(* the cap is one of the two and has the larger height *)
Lemma cap_h_ge_i : forall l i, l_ivp l = Some i -> vh i <= cap_h l.
Proof.
  intros [i' a' m'] i E. simpl in E. subst. unfold cap_h, cap. simpl. destruct a' as [a|]; [|lia].
  destruct (pt_cmp (vh a) (vr a) (vh i) (vr i)) eqn:C; try lia;
    apply pt_cmp_nlt_h with (r := vr a) (r' := vr i); congruence.
Qed.

Lemma cap_h_ge_a : forall l a, l_avp l = Some a -> vh a <= cap_h l.
Proof.
  intros [i' a' m'] a E. simpl in E. subst. unfold cap_h, cap. simpl. destruct i' as [i|]; [|lia].
  destruct (pt_cmp (vh a) (vr a) (vh i) (vr i)) eqn:C; try lia.
  apply pt_cmp_lt_h in C. lia.
Qed.

Lemma cap_in : forall l c, cap l = Some c -> l_ivp l = Some c \/ l_avp l = Some c.
Proof.
  intros [i a m] c. unfold cap. simpl. destruct i as [i|], a as [a|]; try (intros H; inversion H; auto; fail).
  destruct (pt_cmp (vh a) (vr a) (vh i) (vr i)); intros H; inversion H; auto.
Qed.

Lemma lp_of_valid : forall v, hvalid v -> exists lp, lp_of_vp v = Some lp /\ is_zero lp = false /\ ph lp = vh v.
Proof.
  intros v [H [S C]]. unfold lp_of_vp, new_last_point.
  destruct (vsc v && negb (stage_eqb (vs v) INIT)) eqn:E.
  - apply andb_true_iff in E. destruct E as [E1 E2]. rewrite (C E1) in E2. discriminate.
  - eexists. split; [reflexivity|]. split; auto. unfold is_zero. simpl. destruct (vs v); try congruence; lia.
Qed.

Lemma put_cap_h : forall l v l', hvalid v -> hinv l -> put_vp l v = Some l' ->
  hinv (set_mvp l' v) /\ vh v <= cap_h (set_mvp l' v).
Proof.
  intros l v l' V [Hi Ha] P. unfold put_vp in P.
  assert (M : forall x, l_ivp (set_mvp x v) = l_ivp x /\ l_avp (set_mvp x v) = l_avp x).
  { intros x. unfold set_mvp. destruct (vmaj v); simpl; auto. }
  destruct (vs v) eqn:S; inversion P; subst; clear P.
  - split.
    + split; intros x E; rewrite (proj1 (M _)) in E || rewrite (proj2 (M _)) in E; simpl in E.
      * inversion E; subst. auto.
      * apply Ha; auto.
    + apply cap_h_ge_i. rewrite (proj1 (M _)). reflexivity.
  - split.
    + split; intros x E; rewrite (proj1 (M _)) in E || rewrite (proj2 (M _)) in E; simpl in E.
      * apply Hi; auto.
      * inversion E; subst. auto.
    + apply cap_h_ge_a. rewrite (proj2 (M _)). reflexivity.
Qed.

Lemma fill_missing_last : forall n h lvp v,
  cap (h_last h) = Some lvp -> hinv (h_last h) -> hvalid v ->
  hinv (h_last (fst (fill_missing n h lvp v))) /\ cap_h (h_last (fst (fill_missing n h lvp v))) = cap_h (h_last h).
Proof.
  intros n h lvp v C I V. unfold fill_missing.
  destruct (lru_get (vkey lvp) (h_cache h)) as [found c1].
  set (cached := match found with Some x => x | None => empty_lvps end).
  set (fi := negb (is_some (l_ivp cached)) && stage_eqb (vs lvp) ACCEPT && stage_eqb (vs v) INIT
             && ((vh lvp =? vh v) && (vr lvp =? vr v))).
  set (cached1 := if fi then _ else cached).
  set (fa := negb (is_some (l_avp cached1)) && stage_eqb (vs lvp) INIT && stage_eqb (vs v) ACCEPT
             && (vh lvp =? vh v + 1)).
  set (last1 := if fi && negb (is_some (l_ivp (h_last h))) then _ else h_last h).
  set (last2 := if fa && negb (is_some (l_avp last1)) then _ else last1).
  assert (R : h_last (fst (if negb (fi || fa) then (mkh last2 c1, false)
     else (mkh last2 (lru_set n (vkey lvp)
        (if negb (is_some (l_mvp (if fa then mklvps (l_ivp cached1) (Some v) (l_mvp cached1) else cached1))) && vmaj v
         then mklvps (l_ivp (if fa then mklvps (l_ivp cached1) (Some v) (l_mvp cached1) else cached1))
                     (l_avp (if fa then mklvps (l_ivp cached1) (Some v) (l_mvp cached1) else cached1)) (Some v)
         else (if fa then mklvps (l_ivp cached1) (Some v) (l_mvp cached1) else cached1)) c1), true))) = last2).
  { destruct (negb (fi || fa)); reflexivity. }
  rewrite R. clear R.
  destruct I as [Ii Ia]. destruct (h_last h) as [li la lm] eqn:EL. simpl in *.
  assert (FI : fi = true -> vs lvp = ACCEPT /\ vs v = INIT /\ vh lvp = vh v /\ vr lvp = vr v).
  { unfold fi. intros F. repeat (apply andb_true_iff in F; destruct F as [F ?]).
    repeat split; try (apply stage_eqb_eq; auto); lia. }
  assert (FA : fa = true -> vs lvp = INIT /\ vs v = ACCEPT /\ vh lvp = vh v + 1).
  { unfold fa. intros F. repeat (apply andb_true_iff in F; destruct F as [F ?]).
    repeat split; try (apply stage_eqb_eq; auto); lia. }
  clearbody fi fa cached1. clear cached.
  unfold cap_h in *. unfold cap in C. simpl in C.
  destruct fi.
  - destruct (FI eq_refl) as [S1 [S2 [E1 E2]]].
    assert (fa = false) by (destruct fa; auto; destruct (FA eq_refl); congruence). subst fa.
    subst last2 last1. simpl.
    destruct li as [i|]; simpl.
    + split; [split; auto|]. reflexivity.
    + (* cap = avp = lvp *) subst la. split.
      * split; intros x E; simpl in E.
        -- inversion E; subst. auto.
        -- apply Ia; auto.
      * unfold cap. simpl. unfold pt_cmp. rewrite E1, E2, !Z.compare_refl. simpl. congruence.
  - subst last1. simpl in last2. destruct fa.
    + destruct (FA eq_refl) as [S1 [S2 E1]]. subst last2. simpl.
      destruct la as [a|]; simpl.
      * split; [split; auto|]. reflexivity.
      * (* cap = ivp = lvp *)
        assert (li = Some lvp) by (destruct li; auto). subst li. split.
        -- split; intros x E; simpl in E.
           ++ apply Ii; auto.
           ++ inversion E; subst. auto.
        -- unfold cap. simpl. unfold pt_cmp.
           assert (Hc : (vh v ?= vh lvp) = Lt) by (apply Z.compare_lt_iff; lia). rewrite Hc. reflexivity.
    + subst last2. simpl. split; [split; auto|]. reflexivity.
Qed.

Lemma h_set_step : forall n h v, hinv (h_last h) -> hvalid v ->
  hinv (h_last (fst (h_set n h v))) /\ cap_h (h_last h) <= cap_h (h_last (fst (h_set n h v))).
Proof.
  intros n h v I V. unfold h_set.
  assert (PR : forall l', put_vp (h_last h) v = Some l' ->
     forall c, hinv (h_last (mkh (set_mvp l' v) c)) /\ vh v <= cap_h (h_last (mkh (set_mvp l' v) c))).
  { intros l' P c. simpl. eapply put_cap_h; eauto. }
  destruct (cap (h_last h)) as [lvp|] eqn:C.
  - assert (Vl : hvalid lvp).
    { destruct (cap_in _ _ C) as [E|E]; [apply (proj1 I) in E | apply (proj2 I) in E]; tauto. }
    destruct (lp_of_valid lvp Vl) as [lp [L1 [L2 L3]]]. rewrite L1.
    destruct (is_new_voteproof lp v) eqn:N.
    + destruct (put_vp (h_last h) v) as [l'|] eqn:P.
      * simpl. destruct (PR l' eq_refl []) as [A B]. simpl in A, B. split; auto.
        assert (vh lvp <= vh v).
        { destruct (Z_lt_le_dec (vh v) (vh lvp)); auto.
          unfold is_new_voteproof in N. rewrite is_new_vp_lower_rejected in N; auto; try discriminate. lia. }
        unfold cap_h at 1. rewrite C. lia.
      * simpl. split; auto. lia.
    + destruct (fill_missing_last n h lvp v C I V) as [A B]. split; auto. lia.
  - destruct (put_vp (h_last h) v) as [l'|] eqn:P.
    + simpl. destruct (PR l' eq_refl []) as [A B]. simpl in A, B. split; auto.
      unfold cap_h at 1. rewrite C. destruct V. lia.
    + simpl. split; auto. lia.
Qed.

From Coq Require Import Sorted.

Lemma h_sets_ge : forall n vs h, hinv (h_last h) -> Forall hvalid vs ->
  Forall (fun s => cap_h (h_last h) <= cap_h (h_last s)) (h_sets n h vs).
Proof.
  induction vs as [|v r IH]; intros h I V; simpl; [constructor|].
  inversion V as [|? ? Vv Vr]; subst.
  destruct (h_set_step n h v I Vv) as [I' L]. constructor; auto.
  eapply Forall_impl; [|apply IH; eauto]. simpl. intros; lia.
Qed.

Lemma h_sets_sorted : forall n vs h, hinv (h_last h) -> Forall hvalid vs ->
  StronglySorted (fun a b => cap_h (h_last a) <= cap_h (h_last b)) (h :: h_sets n h vs).
Proof.
  induction vs as [|v r IH]; intros h I V.
  - simpl. constructor; constructor.
  - constructor; [|apply h_sets_ge; auto].
    simpl. inversion V as [|? ? Vv Vr]; subst.
    destruct (h_set_step n h v I Vv) as [I' _]. apply IH; auto.
Qed.

Lemma hinv0 : hinv (h_last handler0).
Proof. split; intros x E; discriminate. Qed.
