(* C06 -- Consensus progress is monotonic.  Property theorems only.

   pos = (height, round, stage, majority, suffrage-confirm); valid_pos = a position of the property's domain
   (height >= 0, INIT or ACCEPT, suffrage-confirm only at INIT).  run zero_pos ps = the states and results of
   Ballotbox.SetLastPoint called with ps on a fresh Ballotbox; before / is_new_vp = LastPoint.Before
   (= IsNewBallot) / IsNewVoteproofbyPoint; h_set / h_is_new = LastVoteproofsHandler.Set / IsNew. *)
From Coq Require Import ZArith NArith List Sorted Lia.
From MV Require Import C06.Model C06.Proofs C06.ProofsH Gen.C06.
Import ListNotations.
Open Scope Z_scope.

(* the position never moves to a lower height: along every history of SetLastPoint calls with positions of
   the domain the heights of the successive states are non-decreasing *)
Theorem C06_height_monotone : forall ps, Forall valid_pos ps ->
  StronglySorted (fun a b => ph a <= ph b) (zero_pos :: map fst (run zero_pos ps)).
Proof. intros. apply run_height_sorted; auto. left; auto. Qed.

(* every state reached is a position of the domain (so it is never the zero value again) *)
Theorem C06_states_valid : forall ps, Forall valid_pos ps -> Forall valid_pos (map fst (run zero_pos ps)).
Proof. intros. apply run_states_valid; auto. left; auto. Qed.

(* ballots and voteproofs for lower heights are always rejected (any non-zero current position, any
   round, stage and flags of the candidate) *)
Theorem C06_lower_height_rejected : forall l h r s maj sc, is_zero l = false -> h < ph l ->
  is_new_ballot l h r s sc = false /\ is_new_vp l h r s maj sc = false.
Proof. intros. split; [apply before_lower_rejected | apply is_new_vp_lower_rejected]; auto. Qed.

(* within a height the position moves to an earlier round or stage only to take a suffrage-confirm result
   while the current position is not a majority (SetLastPoint and the voteproof test alike) *)
Theorem C06_backward_only_sc : forall l p, is_zero l = false ->
  snd (set_last_point l p) = true -> ph p = ph l -> earlier (pr p) (ps p) (pr l) (ps l) ->
  psc p = true /\ pmaj l = false.
Proof.
  intros l p Z S E Ea. unfold set_last_point in S.
  destruct (before l (ph p) (pr p) (ps p) (psc p)) eqn:B; [|discriminate].
  eapply before_backward; eauto.
Qed.

Theorem C06_backward_only_sc_voteproof : forall l h r s maj sc, is_zero l = false ->
  is_new_vp l h r s maj sc = true -> h = ph l -> earlier r s (pr l) (ps l) -> sc = true /\ pmaj l = false.
Proof. exact is_new_vp_backward. Qed.

(* one step never re-takes the current position; the same stage point is taken again only as
   plain -> suffrage-confirm (SetLastPoint), or also non-majority -> majority (voteproof test) *)
Theorem C06_no_retake_step : forall l p, is_zero l = false -> snd (set_last_point l p) = true ->
  p <> l /\ (same_point p l -> psc p = true /\ psc l = false).
Proof.
  intros l p Z S. split; [apply set_last_point_neq; auto|]. intros [E1 [E2 E3]].
  unfold set_last_point in S. destruct (before l (ph p) (pr p) (ps p) (psc p)) eqn:B; [|discriminate].
  eapply before_same_point; eauto.
Qed.

Theorem C06_no_retake_step_voteproof : forall l h r s maj sc, is_zero l = false ->
  is_new_vp l h r s maj sc = true -> h = ph l -> r = pr l -> s = ps l ->
  (sc = true /\ psc l = false) \/ (pmaj l = false /\ maj = true).
Proof. exact is_new_vp_same_point. Qed.

(* "the same position is never taken twice" over a whole history is FALSE of the code: the documented
   witness A=(33,1,INIT,not majority) -> B=(33,0,INIT,majority,suffrage-confirm) -> A: all accepted *)
Theorem C06_no_retake_history_refuted : exists ps,
  Forall valid_pos ps /\ map snd (run zero_pos ps) = [true; true; true] /\ ~ NoDup (accepted zero_pos ps).
Proof.
  exists [mkpos 33 1 INIT false false; mkpos 33 0 INIT true true; mkpos 33 1 INIT false false].
  split; [|split].
  - repeat constructor; simpl; try lia; congruence.
  - vm_compute. reflexivity.
  - vm_compute. intros N. inversion N as [|? ? Hn _]; subst. apply Hn. right. left. reflexivity.
Qed.

(* ... and it holds whenever no accepted update of the history is a backward move: this delimits the finding
   (class retake-after-sc-backward-move): a position can be taken twice only across a backward move *)
Theorem C06_no_retake_history_partial : forall ps, Forall valid_pos ps -> no_backward zero_pos ps ->
  NoDup (accepted zero_pos ps).
Proof. intros. apply accepted_forward_nodup; auto. left; auto. Qed.

Theorem C06_no_retake_between_backward_moves : forall l ps, valid_pos l -> Forall valid_pos ps ->
  no_backward l ps -> ~ In l (accepted l ps).
Proof. intros. apply accepted_forward_not_in; auto. Qed.

(* the last-voteproofs store: under any sequence of Set calls with well-formed voteproofs the height of the
   cap voteproof (the position voteproofs are judged against) never decreases, ... *)
Theorem C06_lvh_height_monotone : forall vs, Forall hvalid vs ->
  StronglySorted (fun a b => cap_h (h_last a) <= cap_h (h_last b)) (handler0 :: h_sets lru_capacity handler0 vs).
Proof. intros. apply h_sets_sorted; auto. apply hinv0. Qed.

(* ... and voteproofs for lower heights are not new *)
Theorem C06_lvh_lower_height_rejected : forall h lp v,
  h_pos h = Some lp -> is_zero lp = false -> vh v < ph lp -> h_is_new h v = false.
Proof. exact h_is_new_lower_rejected. Qed.

(* but the store's position can move back to a position that is not a suffrage-confirm result (finding
   lvh-stale-accept-after-sc-backward): ACCEPT draw (2,1); INIT draw (2,2); suffrage-confirm INIT (2,1) *)
Theorem C06_lvh_backward_only_sc_refuted : exists vs h l p v,
  Forall hvalid vs /\ nth_error (h_sets lru_capacity handler0 vs) 1 = Some h /\ nth_error vs 2 = Some v /\
  h_pos h = Some l /\ h_pos (fst (h_set lru_capacity h v)) = Some p /\
  backward l p /\ psc p = false.
Proof.
  exists [mkvp 2 1 ACCEPT false false 0; mkvp 2 2 INIT false false 1; mkvp 2 1 INIT true true 2].
  eexists. eexists. eexists. eexists.
  split; [repeat constructor; simpl; try lia; congruence|].
  split; [vm_compute; reflexivity|]. split; [reflexivity|].
  split; [vm_compute; reflexivity|]. split; [vm_compute; reflexivity|].
  split; [|reflexivity]. split; [reflexivity|]. left. vm_compute. reflexivity.
Qed.

(* the cache size of the model is the code's (regenerated constant) *)
Theorem C06_cache_size_is_code : lvh_new_ints = [1; 3] /\ Z.shiftl 1 3 = Z.of_nat lru_capacity.
Proof. split; reflexivity. Qed.

(* non-vacuity: a history with a rejected and a backward update *)
Example C06_example :
  let ps := [mkpos 1 1 INIT false false; mkpos 0 2 ACCEPT true false; mkpos 1 0 INIT true true; mkpos 1 0 ACCEPT true false] in
  Forall valid_pos ps /\ map snd (run zero_pos ps) = [true; false; true; true] /\ ~ no_backward zero_pos ps.
Proof.
  cbv zeta. split; [repeat constructor; simpl; try lia; congruence|]. split; [vm_compute; reflexivity|].
  simpl. intros [_ [NB _]]. apply NB. split; [reflexivity|]. left. simpl. lia.
Qed.
