From Coq Require Import ZArith List.
From MV Require Import C06.Model Gen.C06.
Import ListNotations.
Open Scope Z_scope.
Theorem C06_cache_size_is_code : lvh_new_ints = [1; 3] /\ Z.shiftl 1 3 = Z.of_nat lru_capacity.
Proof. split; reflexivity. Qed.
