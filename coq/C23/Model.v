(* C23 -- expel-operation pool lookups.  Transcribes isaac/database/pool.go (after the fix: commit):

     SetSuffrageExpelOperation            pst.Put(key(fact), frame)         (Put overwrites the same key)
     TraverseSuffrageExpelOperations      pst.Iter(prefix, cb, false)       (descending key order)
     SuffrageExpelOperation               pst.Iter(prefix, cb, false)
     RemoveSuffrageExpelOperationsByFact  batch of Delete(key(fact))
     RemoveSuffrageExpelOperationsByHeight  Iter + batch of Delete(key) for End() <= height

   key(fact) = prefix ++ fact.ExpelEnd().Bytes() ++ fact.Hash().Bytes()   (isaac/database/leveldb.go
   leveldbSuffrageExpelOperation); Height.Bytes is 8-byte big endian, so for end >= 0 byte order is numeric
   order.  The hash is kept as its lower-case hex text (String.compare on hex text = bytewise compare).
   The frame header carries node, start, end (frame.go EncodeFrameSuffrageExpelOperation); the decoded
   operation is represented by an identifier [opid] (which signed operation is stored under the key).

   Assumed (goleveldb, not verified): Put/Delete/Batch atomic, Iter visits each live key of the prefix once,
   in bytewise key order (descending when the last argument is false), until the callback returns false. *)
From Coq Require Import ZArith NArith List Bool String Ascii.
From MV Require Import Common.Cases.
Import ListNotations.
Open Scope Z_scope.

Record rec := mkRec { r_end : Z; r_hash : string; r_node : N; r_start : Z; r_opid : N }.

(* a store is the list of live records in *iteration order* of Iter(..., false): key descending *)
Definition store := list rec.

Definition key_eqb (e1 : Z) (h1 : string) (e2 : Z) (h2 : string) : bool :=
  (e1 =? e2) && String.eqb h1 h2.

(* key (e1,h1) > key (e2,h2) *)
Definition key_gtb (e1 : Z) (h1 : string) (e2 : Z) (h2 : string) : bool :=
  (e2 <? e1) || ((e1 =? e2) && match String.compare h1 h2 with Gt => true | _ => false end).

(* position of a new key in the descending iteration order *)
Fixpoint insert (r : rec) (s : store) : store :=
  match s with
  | [] => [r]
  | x :: t =>
      if key_gtb (r_end r) (r_hash r) (r_end x) (r_hash x) then r :: x :: t
      else x :: insert r t
  end.

Definition delete_key (e : Z) (h : string) (s : store) : store :=
  filter (fun x => negb (key_eqb e h (r_end x) (r_hash x))) s.

(* pst.Put(key, value): a live record with the same key is replaced *)
Definition put (r : rec) (s : store) : store := insert r (delete_key (r_end r) (r_hash r) s).

(* r.End() < heighti, r.Start() > heighti  are the two "not covering" cases of the Go switch *)
Definition covers (h : Z) (r : rec) : bool := negb ((r_end r <? h) || (h <? r_start r)).

(* TraverseSuffrageExpelOperations(ctx, height, callback).
   The callback used by the harness continues until it has been called [k] times (k = 0: never stops).
   [n] = number of calls made so far.  Non-covering record: `return true, nil` (keep iterating). *)
Fixpoint traverse_from (h : Z) (k : nat) (n : nat) (s : store) : list rec :=
  match s with
  | [] => []
  | r :: t =>
      if covers h r
      then (* default: decode, `return callback(op)` *)
        if Nat.eqb (S n) k then [r] else r :: traverse_from h k (S n) t
      else traverse_from h k n t
  end.

Definition traverse (h : Z) (k : nat) (s : store) : list rec := traverse_from h k 0 s.

(* SuffrageExpelOperation(height, node): other node -> continue; same node, not covering -> continue;
   covering -> remember and stop *)
Fixpoint lookup (h : Z) (node : N) (s : store) : option rec :=
  match s with
  | [] => None
  | r :: t =>
      if negb (N.eqb node (r_node r)) then lookup h node t
      else if negb (covers h r) then lookup h node t
      else Some r
  end.

(* RemoveSuffrageExpelOperationsByHeight: `case r.End() > heighti: return true, nil` (kept) else Delete *)
Definition remove_by_height (h : Z) (s : store) : store := filter (fun r => h <? r_end r) s.

Definition remove_by_fact (ks : list (Z * string)) (s : store) : store :=
  fold_left (fun acc k => delete_key (fst k) (snd k) acc) ks s.

Inductive op :=
| OSet (r : rec)
| ORemFact (ks : list (Z * string))
| ORemHeight (h : Z).

Definition apply (s : store) (o : op) : store :=
  match o with
  | OSet r => put r s
  | ORemFact ks => remove_by_fact ks s
  | ORemHeight h => remove_by_height h s
  end.

Definition run (ops : list op) : store := fold_left apply ops [].

(* ---------------------------------------------------------------- the code before the fix: commit
   (`return false, nil` on a non-covering record); kept only for the documentation Example in Props.v *)
Fixpoint traverse_old (h : Z) (s : store) : list rec :=
  match s with
  | [] => []
  | r :: t => if covers h r then r :: traverse_old h t else []
  end.

Fixpoint lookup_old (h : Z) (node : N) (s : store) : option rec :=
  match s with
  | [] => None
  | r :: t =>
      if negb (N.eqb node (r_node r)) then lookup_old h node t
      else if negb (covers h r) then None
      else Some r
  end.

(* ---------------------------------------------------------------- correspondence *)

(* observations made on the real TempPool, interleaved with the operations *)
Inductive item :=
| Do (o : op)
| AskTraverse (h : Z) (k : nat) (visited : list N)      (* opids visited, sorted ascending *)
| AskLookup (h : Z) (node : N) (found : option N).      (* opid of the returned operation *)

Fixpoint insert_N (x : N) (l : list N) : list N :=
  match l with
  | [] => [x]
  | y :: t => if N.leb x y then x :: l else y :: insert_N x t
  end.
Definition sort_N (l : list N) : list N := fold_right insert_N [] l.

Definition mem_N (x : N) (l : list N) : bool := existsb (N.eqb x) l.

Fixpoint subset_N (a b : list N) : bool :=
  match a with [] => true | x :: t => mem_N x b && subset_N t b end.

Fixpoint nodup_sorted_N (l : list N) : bool :=
  match l with
  | x :: ((y :: _) as t) => N.ltb x y && nodup_sorted_N t
  | _ => true
  end.

(* Only what the property talks about is compared:
   - k = 0 (never stop): the *set* of visited operations;
   - k > 0: the number visited and that each is a distinct covering operation (which ones depends on the
     iteration order, which the property does not fix);
   - lookup: found flag; the returned operation is one of the node's covering operations. *)
Definition check_item (s : store) (i : item) : bool :=
  match i with
  | Do _ => true
  | AskTraverse h k visited =>
      let all := sort_N (map r_opid (traverse h 0 s)) in
      match k with
      | O => list_eqb N.eqb visited all
      | _ => Nat.eqb (List.length visited) (List.length (traverse h k s)) && subset_N visited all && nodup_sorted_N visited
      end
  | AskLookup h node found =>
      match lookup h node s, found with
      | None, None => true
      | Some _, Some f =>
          mem_N f (map r_opid (filter (fun r => N.eqb node (r_node r) && covers h r) s))
      | _, _ => false
      end
  end.

Fixpoint check_from (s : store) (l : list item) : bool :=
  match l with
  | [] => true
  | i :: t =>
      check_item s i &&
      check_from (match i with Do o => apply s o | _ => s end) t
  end.

Definition check (c : list item) : bool := check_from [] c.
