(* C23 -- Expel-operation pool lookups match the stored ranges.  Property theorems only.
   [store] = the live records in leveldb iteration order; every theorem holds for every store (any order, any
   content), hence in particular after every history of Set / RemoveByFact / RemoveByHeight. *)
From Coq Require Import ZArith NArith List Bool String.
From MV Require Import C23.Model C23.Proofs.
Import ListNotations.
Open Scope Z_scope.

(* "covers" is the validity range containing the height *)
Theorem C23_covers_is_range : forall h r, covers h r = true <-> r_start r <= h <= r_end r.
Proof. exact covers_iff. Qed.

(* Traversing at a height (callback always continues) visits exactly the operations whose range covers the
   height: the visited sequence is the store filtered by [covers] -- same elements, each once, none else. *)
Theorem C23_traverse_exact : forall s h, traverse h 0 s = filter (covers h) s.
Proof. exact traverse_exact. Qed.

Theorem C23_traverse_visits_iff : forall s h r, In r (traverse h 0 s) <-> In r s /\ covers h r = true.
Proof. exact traverse_visits_iff. Qed.

(* a callback that stops at its k-th call sees the first k covering operations and nothing else *)
Theorem C23_traverse_stop : forall s h k, (0 < k)%nat -> traverse h k s = firstn k (filter (covers h) s).
Proof. exact traverse_stop. Qed.

(* Looking up a node at a height finds an operation exactly when a covering operation of that node is stored,
   and the operation returned is one of them. *)
Theorem C23_lookup_iff : forall s h node,
  (exists r, lookup h node s = Some r) <-> (exists r, In r s /\ r_node r = node /\ covers h r = true).
Proof. exact lookup_iff. Qed.

Theorem C23_lookup_sound : forall s h node r, lookup h node s = Some r ->
  In r s /\ r_node r = node /\ covers h r = true.
Proof. exact lookup_some. Qed.

Theorem C23_lookup_none_iff : forall s h node,
  lookup h node s = None <-> (forall r, In r s -> r_node r = node -> covers h r = false).
Proof. exact lookup_none_iff. Qed.

(* Removing by height removes exactly the operations that ended at or before it. *)
Theorem C23_remove_exact : forall s h r, In r (remove_by_height h s) <-> In r s /\ h < r_end r.
Proof. exact remove_by_height_iff. Qed.

Theorem C23_remove_keeps_order : forall s h, remove_by_height h s = filter (fun r => h <? r_end r) s.
Proof. exact remove_by_height_exact. Qed.

(* Histories: what is live after one more pool operation (Set replaces the record with the same key;
   RemoveByFact deletes the listed keys; RemoveByHeight as above), for every history. *)
Theorem C23_history_step : forall ops o x, In x (run (ops ++ [o])) <-> step_spec (run ops) o x.
Proof. exact history_step. Qed.

(* After every history there is at most one live record per key (fact), and a traversal visits every covering
   live operation exactly once. *)
Theorem C23_history_unique_keys : forall ops, NoDup (map keyof (run ops)).
Proof. exact run_unique_keys. Qed.

Theorem C23_history_traverse : forall ops h,
  NoDup (traverse h 0 (run ops)) /\
  forall r, In r (traverse h 0 (run ops)) <-> In r (run ops) /\ covers h r = true.
Proof. exact history_traverse. Qed.

(* ---------------------------------------------------------------- non-vacuity / documentation *)

(* the witness of DESIGN 5.4: two covering operations and a later-starting record that sorts first *)
Definition witness : list op :=
  [ OSet (mkRec 10 "aa" 0 1 0); OSet (mkRec 10 "bb" 1 2 1); OSet (mkRec 30 "cc" 2 20 2) ].

Example C23_example_traverse : map r_opid (traverse 5 0 (run witness)) = [1%N; 0%N].
Proof. vm_compute. reflexivity. Qed.

Example C23_example_lookup : option_map r_opid (lookup 5 1 (run witness)) = Some 1%N /\ lookup 5 2 (run witness) = None.
Proof. vm_compute. split; reflexivity. Qed.

Example C23_example_remove : map r_opid (run (witness ++ [ORemHeight 10])) = [2%N].
Proof. vm_compute. reflexivity. Qed.

(* the code before the fix: commit (`return false` on the first non-covering record) visited none of the two,
   and missed a node's covering operation behind its later one *)
Example C23_unfixed_code_visited_none : traverse_old 5 (run witness) = [].
Proof. vm_compute. reflexivity. Qed.

Example C23_unfixed_code_lookup_missed :
  lookup_old 5 0 (run [OSet (mkRec 30 "aa" 0 20 0); OSet (mkRec 10 "bb" 0 1 1)]) = None /\
  option_map r_opid (lookup 5 0 (run [OSet (mkRec 30 "aa" 0 20 0); OSet (mkRec 10 "bb" 0 1 1)])) = Some 1%N.
Proof. vm_compute. split; reflexivity. Qed.
