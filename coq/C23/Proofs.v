(* C23 -- lemmas about the expel-operation pool model. *)
From Coq Require Import ZArith NArith List Bool String Lia.
From MV Require Import C23.Model.
Import ListNotations.
Open Scope Z_scope.

(* ---------------------------------------------------------------- traverse *)

Lemma traverse_from_never_stops : forall h s n,
  traverse_from h 0 n s = filter (covers h) s.
Proof.
  intros h s; induction s as [|r t IH]; intros n; cbn [traverse_from filter]; [reflexivity|].
  destruct (covers h r); [|apply IH].
  cbn [Nat.eqb]. now rewrite IH.
Qed.

Lemma traverse_exact : forall s h, traverse h 0 s = filter (covers h) s.
Proof. intros; apply traverse_from_never_stops. Qed.

Lemma traverse_visits_iff : forall s h r,
  In r (traverse h 0 s) <-> In r s /\ covers h r = true.
Proof. intros; rewrite traverse_exact; apply filter_In. Qed.

Lemma traverse_once : forall s h, NoDup s -> NoDup (traverse h 0 s).
Proof. intros; rewrite traverse_exact; now apply NoDup_filter. Qed.

Lemma traverse_from_stop : forall h k s n, (n < k)%nat ->
  traverse_from h k n s = firstn (k - n) (filter (covers h) s).
Proof.
  intros h k s; induction s as [|r t IH]; intros n Hn; cbn [traverse_from filter].
  - now rewrite firstn_nil.
  - destruct (covers h r); [|now apply IH].
    destruct (Nat.eqb (S n) k) eqn:E.
    + apply Nat.eqb_eq in E. replace (k - n)%nat with 1%nat by lia. reflexivity.
    + apply Nat.eqb_neq in E. replace (k - n)%nat with (S (k - S n)) by lia.
      cbn [firstn]. f_equal. apply IH. lia.
Qed.

Lemma traverse_stop : forall s h k, (0 < k)%nat ->
  traverse h k s = firstn k (filter (covers h) s).
Proof. intros; unfold traverse; rewrite traverse_from_stop by assumption. now rewrite Nat.sub_0_r. Qed.

(* ---------------------------------------------------------------- lookup *)

Definition wanted (h : Z) (node : N) (r : rec) : bool := N.eqb node (r_node r) && covers h r.

Lemma lookup_find : forall s h node, lookup h node s = find (wanted h node) s.
Proof.
  intros s h node; induction s as [|r t IH]; cbn [lookup find]; [reflexivity|].
  unfold wanted at 1. destruct (N.eqb node (r_node r)); cbn [negb andb]; [|exact IH].
  destruct (covers h r); cbn [negb]; [reflexivity|exact IH].
Qed.

Lemma lookup_some : forall s h node r, lookup h node s = Some r ->
  In r s /\ r_node r = node /\ covers h r = true.
Proof.
  intros s h node r H. rewrite lookup_find in H. apply find_some in H. destruct H as [Hi Hw].
  unfold wanted in Hw. apply andb_true_iff in Hw. destruct Hw as [Hn Hc].
  apply N.eqb_eq in Hn. auto.
Qed.

Lemma lookup_iff : forall s h node,
  (exists r, lookup h node s = Some r) <-> (exists r, In r s /\ r_node r = node /\ covers h r = true).
Proof.
  intros s h node; split.
  - intros [r H]. exists r. now apply lookup_some.
  - intros [r [Hi [Hn Hc]]]. rewrite lookup_find.
    destruct (find (wanted h node) s) eqn:F; [eauto|].
    exfalso. pose proof (find_none _ _ F r Hi) as W. unfold wanted in W.
    rewrite Hc, <- Hn, N.eqb_refl in W. discriminate.
Qed.

Lemma lookup_none_iff : forall s h node,
  lookup h node s = None <-> (forall r, In r s -> r_node r = node -> covers h r = false).
Proof.
  intros s h node; split.
  - intros H r Hi Hn. destruct (covers h r) eqn:C; [|reflexivity].
    assert (E : exists r, lookup h node s = Some r) by (apply lookup_iff; eauto).
    destruct E as [x E]. congruence.
  - intros H. destruct (lookup h node s) eqn:L; [|reflexivity].
    apply lookup_some in L. destruct L as [Hi [Hn Hc]]. rewrite (H _ Hi Hn) in Hc. discriminate.
Qed.

(* ---------------------------------------------------------------- removal *)

Lemma remove_by_height_exact : forall s h, remove_by_height h s = filter (fun r => h <? r_end r) s.
Proof. reflexivity. Qed.

Lemma remove_by_height_iff : forall s h r,
  In r (remove_by_height h s) <-> In r s /\ h < r_end r.
Proof. intros; unfold remove_by_height; rewrite filter_In, Z.ltb_lt; tauto. Qed.

Definition same_key (a b : rec) : bool := key_eqb (r_end a) (r_hash a) (r_end b) (r_hash b).

Lemma key_eqb_true : forall e1 h1 e2 h2, key_eqb e1 h1 e2 h2 = true <-> e1 = e2 /\ h1 = h2.
Proof.
  intros; unfold key_eqb; rewrite andb_true_iff, Z.eqb_eq, String.eqb_eq; tauto.
Qed.

Lemma delete_key_iff : forall s e h r,
  In r (delete_key e h s) <-> In r s /\ ~ (r_end r = e /\ r_hash r = h).
Proof.
  intros; unfold delete_key; rewrite filter_In, negb_true_iff.
  split; intros [Hi Hk]; split; auto.
  - intros [A B]. subst. assert (T : key_eqb (r_end r) (r_hash r) (r_end r) (r_hash r) = true) by now apply key_eqb_true.
    congruence.
  - destruct (key_eqb e h (r_end r) (r_hash r)) eqn:K; [|reflexivity].
    apply key_eqb_true in K. destruct K; subst. exfalso; apply Hk; auto.
Qed.

Lemma remove_by_fact_iff : forall ks s r,
  In r (remove_by_fact ks s) <-> In r s /\ ~ In (r_end r, r_hash r) ks.
Proof.
  unfold remove_by_fact. induction ks as [|[e h] ks IH]; intros s r; cbn [fold_left fst snd].
  - cbn [In]. tauto.
  - rewrite IH, delete_key_iff. cbn [In]. split.
    + intros [[Hi Hk] Hn]. split; auto. intros [E|I]; auto. inversion E; subst. apply Hk; auto.
    + intros [Hi Hn]. split; [split; auto|]; intuition (subst; auto).
Qed.

Lemma insert_iff : forall r s x, In x (insert r s) <-> x = r \/ In x s.
Proof.
  intros r s; induction s as [|y t IH]; intros x; cbn [insert In].
  - intuition.
  - destruct (key_gtb _ _ _ _); cbn [In]; [intuition|]. rewrite IH. intuition.
Qed.

Lemma put_iff : forall r s x,
  In x (put r s) <-> x = r \/ (In x s /\ ~ (r_end x = r_end r /\ r_hash x = r_hash r)).
Proof. intros; unfold put; now rewrite insert_iff, delete_key_iff. Qed.

(* ---------------------------------------------------------------- histories: keys stay unique *)

Definition keyof (r : rec) : Z * string := (r_end r, r_hash r).

Lemma map_filter_nodup : forall (f : rec -> bool) s, NoDup (map keyof s) -> NoDup (map keyof (filter f s)).
Proof.
  intros f s; induction s as [|x t IH]; cbn [filter map]; intros H; [constructor|].
  inversion H; subst. destruct (f x); cbn [map]; auto.
  constructor; auto. intros I. apply H2. apply in_map_iff in I. destruct I as [y [E Hy]].
  apply filter_In in Hy. apply in_map_iff. exists y. tauto.
Qed.

Lemma insert_map_perm : forall r s k, In k (map keyof (insert r s)) <-> k = keyof r \/ In k (map keyof s).
Proof.
  intros r s k. rewrite !in_map_iff. split.
  - intros [x [E I]]. apply insert_iff in I. destruct I as [->|I]; [left; auto|right; eauto].
  - intros [->|[x [E I]]]; [exists r|exists x]; split; auto; apply insert_iff; auto.
Qed.

Lemma insert_nodup : forall r s, ~ In (keyof r) (map keyof s) -> NoDup (map keyof s) -> NoDup (map keyof (insert r s)).
Proof.
  intros r s; induction s as [|x t IH]; cbn [insert map]; intros Hn Hd.
  - constructor; auto.
  - destruct (key_gtb _ _ _ _); cbn [map].
    + constructor; auto.
    + inversion Hd; subst. constructor.
      * intros I. apply insert_map_perm in I. destruct I as [E|I]; [|auto].
        apply Hn. cbn [map In]. auto.
      * apply IH; auto. intros I. apply Hn. cbn [map In]. auto.
Qed.

Lemma put_nodup : forall r s, NoDup (map keyof s) -> NoDup (map keyof (put r s)).
Proof.
  intros r s H. unfold put. apply insert_nodup.
  - intros I. apply in_map_iff in I. destruct I as [x [E Hx]]. apply delete_key_iff in Hx.
    destruct Hx as [_ Hx]. apply Hx. unfold keyof in E. inversion E. auto.
  - unfold delete_key. now apply map_filter_nodup.
Qed.

Lemma remove_by_fact_nodup : forall ks s, NoDup (map keyof s) -> NoDup (map keyof (remove_by_fact ks s)).
Proof.
  unfold remove_by_fact. induction ks as [|k ks IH]; intros s H; cbn [fold_left]; auto.
  apply IH. unfold delete_key. now apply map_filter_nodup.
Qed.

Lemma apply_nodup : forall s o, NoDup (map keyof s) -> NoDup (map keyof (apply s o)).
Proof.
  intros s [r|ks|h] H; cbn [apply].
  - now apply put_nodup.
  - now apply remove_by_fact_nodup.
  - unfold remove_by_height. now apply map_filter_nodup.
Qed.

Lemma run_from_nodup : forall ops s, NoDup (map keyof s) -> NoDup (map keyof (fold_left apply ops s)).
Proof. induction ops as [|o ops IH]; intros s H; cbn [fold_left]; auto. apply IH. now apply apply_nodup. Qed.

Lemma run_unique_keys : forall ops, NoDup (map keyof (run ops)).
Proof. intros; unfold run; apply run_from_nodup; constructor. Qed.

Lemma nodup_map_nodup : forall s, NoDup (map keyof s) -> NoDup s.
Proof.
  induction s as [|x t IH]; intros H; [constructor|]. inversion H; subst. constructor; auto.
  intros I. apply H2. now apply in_map.
Qed.

Lemma run_nodup : forall ops, NoDup (run ops).
Proof. intros; apply nodup_map_nodup, run_unique_keys. Qed.

(* one step of a history, as a statement about the set of live records *)
Definition step_spec (s : store) (o : op) (x : rec) : Prop :=
  match o with
  | OSet r => x = r \/ (In x s /\ keyof x <> keyof r)
  | ORemFact ks => In x s /\ ~ In (keyof x) ks
  | ORemHeight h => In x s /\ h < r_end x
  end.

Lemma apply_spec : forall s o x, In x (apply s o) <-> step_spec s o x.
Proof.
  intros s [r|ks|h] x; cbn [apply step_spec].
  - rewrite put_iff. unfold keyof. split; (intros [E|[I K]]; [left; auto|right; split; auto]).
    + intros E. inversion E. auto.
    + intros [A B]. apply K. congruence.
  - apply remove_by_fact_iff.
  - apply remove_by_height_iff.
Qed.

Lemma run_snoc : forall ops o, run (ops ++ [o]) = apply (run ops) o.
Proof. intros; unfold run; now rewrite fold_left_app. Qed.

Lemma history_step : forall ops o x, In x (run (ops ++ [o])) <-> step_spec (run ops) o x.
Proof. intros; rewrite run_snoc; apply apply_spec. Qed.

(* every traversal over a reachable store visits each covering live operation exactly once *)
Lemma history_traverse : forall ops h,
  NoDup (traverse h 0 (run ops)) /\
  forall r, In r (traverse h 0 (run ops)) <-> In r (run ops) /\ covers h r = true.
Proof. intros; split; [apply traverse_once, run_nodup|intros; apply traverse_visits_iff]. Qed.

Lemma covers_iff : forall h r, covers h r = true <-> r_start r <= h <= r_end r.
Proof.
  intros; unfold covers. rewrite negb_true_iff, orb_false_iff, !Z.ltb_ge. lia.
Qed.
