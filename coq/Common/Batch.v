(* Shared model of util.BatchWork / runWorker (util/worker.go), used by C14, C15, C18, C33.

     func BatchWork(ctx, size, limit, pref func(ctx, last) error, f func(ctx, i, last) error) error {
         if size < 1 { return error }
         if size <= limit { pref(size-1); RunJobWorker(ctx, size, size, f(i, size-1)) }
         var i uint64
         for {
             end := i + limit; if end > size { end = size }
             pref(end-1)
             RunJobWorker(ctx, limit, end-i, func(n) { f(i+n, end-1) })
             if end == size { break }
             i += limit
         }
     }

   [batches size limit] is the list of (last, [i .. end-1]) the loop produces.  The recursion uses
   fuel = size; that the fuel never runs out for limit >= 1 is part of [batches_concat] (a run that
   ran out of fuel could not cover [0..size-1]).

   [run_batches] is the sequential semantics: per batch, [pref last], then the jobs of the batch in
   an *arbitrary order* given from outside (the jobs of one batch run concurrently in
   BaseJobWorker with semaphore size >= batch length; what the callers serialise with their own
   mutex is the atomic step [job i last]).  The first error ends the run with that error (the
   remaining jobs of the batch may or may not run in the real code; they cannot turn the error
   into a success: see C33). *)
From Coq Require Import List Arith Lia Bool PeanoNat Permutation.
Import ListNotations.

Inductive res (S E : Type) : Type :=
| Ok (s : S)
| Err (e : E).
Arguments Ok {S E} s.
Arguments Err {S E} e.

Definition batch : Type := (nat * list nat)%type.

Fixpoint batches_from (fuel i size limit : nat) : list batch :=
  match fuel with
  | 0 => []
  | S f =>
      let e := Nat.min (i + limit) size in
      (e - 1, seq i (e - i)) ::
      (if e =? size then [] else batches_from f (i + limit) size limit)
  end.

Definition batches (size limit : nat) : list batch :=
  if size <=? limit then [(size - 1, seq 0 size)] else batches_from size 0 size limit.

(* closed form of the k-th batch *)
Definition kth_batch (size limit k : nat) : batch :=
  let e := Nat.min ((k + 1) * limit) size in (e - 1, seq (k * limit) (e - k * limit)).

Definition batch_wf (size limit : nat) (b : batch) : Prop :=
  exists k, k * limit < size /\ b = kth_batch size limit k.

Section Run.
  Variables (St E : Type).
  Variable pref : nat -> St -> res St E.
  Variable job : nat -> nat -> St -> res St E.   (* job i last *)

  Fixpoint run_jobs (last : nat) (order : list nat) (s : St) : res St E :=
    match order with
    | [] => Ok s
    | i :: r => match job i last s with
                | Ok s' => run_jobs last r s'
                | Err e => Err e
                end
    end.

  Fixpoint run_batches (bs : list batch) (orders : list (list nat)) (s : St) : res St E :=
    match bs with
    | [] => Ok s
    | b :: bs' =>
        match pref (fst b) s with
        | Err e => Err e
        | Ok s1 =>
            match run_jobs (fst b) (hd [] orders) s1 with
            | Err e => Err e
            | Ok s2 => run_batches bs' (tl orders) s2
            end
        end
    end.

  Definition batch_work (esize : E) (size limit : nat) (orders : list (list nat)) (s : St) : res St E :=
    if size <? 1 then Err esize else run_batches (batches size limit) orders s.
End Run.

Arguments run_jobs {St E} job last order s.
Arguments run_batches {St E} pref job bs orders s.
Arguments batch_work {St E} pref job esize size limit orders s.

(* a schedule: for every batch, the order in which its jobs take effect *)
Definition valid_orders (bs : list batch) (orders : list (list nat)) : Prop :=
  Forall2 (fun b o => Permutation (snd b) o) bs orders.

Definition in_order (bs : list batch) : list (list nat) := map snd bs.

(* ------------------------------------------------------------------ facts *)

Lemma batches_from_concat : forall fuel i size limit,
  1 <= limit -> i < size -> size - i <= fuel ->
  concat (map snd (batches_from fuel i size limit)) = seq i (size - i).
Proof.
  induction fuel as [|f IH]; intros i size limit Hl Hi Hf; [lia|].
  cbn [batches_from].
  destruct (Nat.eqb_spec (Nat.min (i + limit) size) size) as [He|He].
  - cbn. rewrite app_nil_r. rewrite He. reflexivity.
  - assert (Hm : Nat.min (i + limit) size = i + limit) by lia.
    rewrite Hm. cbn [map concat snd].
    rewrite IH by lia.
    replace (i + limit - i) with limit by lia.
    replace (size - i) with (limit + (size - (i + limit))) by lia.
    rewrite seq_app. reflexivity.
Qed.

Theorem batches_concat : forall size limit, 1 <= limit -> 1 <= size ->
  concat (map snd (batches size limit)) = seq 0 size.
Proof.
  intros size limit Hl Hs. unfold batches.
  destruct (Nat.leb_spec size limit).
  - cbn. rewrite app_nil_r. reflexivity.
  - rewrite batches_from_concat by lia. f_equal. lia.
Qed.

Lemma batches_from_wf : forall fuel k size limit,
  1 <= limit -> k * limit < size ->
  Forall (batch_wf size limit) (batches_from fuel (k * limit) size limit).
Proof.
  induction fuel as [|f IH]; intros k size limit Hl Hk; [constructor|].
  cbn [batches_from].
  assert (Hk1 : k * limit + limit = (k + 1) * limit) by lia.
  constructor.
  - exists k. split; [assumption|]. unfold kth_batch. rewrite Hk1. reflexivity.
  - destruct (Nat.eqb_spec (Nat.min (k * limit + limit) size) size) as [He|He]; [constructor|].
    rewrite Hk1. apply IH; lia.
Qed.

Theorem batches_wf : forall size limit, 1 <= limit -> 1 <= size ->
  Forall (batch_wf size limit) (batches size limit).
Proof.
  intros size limit Hl Hs. unfold batches.
  destruct (Nat.leb_spec size limit).
  - constructor; [|constructor]. exists 0. split; [lia|].
    unfold kth_batch. cbn [Nat.mul Nat.add].
    replace (Nat.min (limit + 0) size) with size by lia.
    replace (size - 0) with size by lia. reflexivity.
  - apply (batches_from_wf size 0 size limit); lia.
Qed.

(* shape of one well-formed batch: non-empty, at most [limit] long, starts at a multiple of
   [limit], [last] is its last index *)
Lemma batch_wf_shape : forall size limit b, 1 <= limit -> batch_wf size limit b ->
  exists k n, snd b = seq (k * limit) n /\ 1 <= n <= limit /\ fst b = k * limit + n - 1 /\
              k * limit + n <= size /\
              n = (if (fst b + 1) mod limit =? 0 then limit else (fst b + 1) mod limit).
Proof.
  intros size limit b Hl [k [Hk ->]]. unfold kth_batch. cbn [fst snd].
  exists k, (Nat.min ((k + 1) * limit) size - k * limit).
  assert (Hn : 1 <= Nat.min ((k + 1) * limit) size - k * limit <= limit) by lia.
  repeat split; try lia.
  set (n := Nat.min ((k + 1) * limit) size - k * limit) in *.
  replace (Nat.min ((k + 1) * limit) size - 1 + 1) with (n + k * limit) by lia.
  rewrite Nat.mod_add by lia.
  destruct (Nat.eq_dec n limit) as [->|Hne].
  - rewrite Nat.mod_same by lia. reflexivity.
  - rewrite Nat.mod_small by lia.
    destruct (Nat.eqb_spec n 0); [lia|reflexivity].
Qed.

Lemma valid_orders_in_order : forall bs, valid_orders bs (in_order bs).
Proof.
  induction bs; constructor; auto.
Qed.

(* every index of [0..size-1] is in exactly one batch (NoDup of the concatenation + membership) *)
Theorem batches_partition : forall size limit, 1 <= limit -> 1 <= size ->
  NoDup (concat (map snd (batches size limit))) /\
  (forall i, In i (concat (map snd (batches size limit))) <-> i < size) /\
  Forall (fun b => snd b <> [] /\ length (snd b) <= limit /\ last (snd b) 0 = fst b) (batches size limit).
Proof.
  intros size limit Hl Hs. rewrite batches_concat by assumption.
  split; [apply seq_NoDup|]. split.
  - intros i. rewrite in_seq. lia.
  - eapply Forall_impl; [|apply batches_wf; assumption].
    intros b Hb. destruct (batch_wf_shape _ _ _ Hl Hb) as [k [n [Hs' [Hn [Hf _]]]]].
    rewrite Hs'. split; [|split].
    + destruct n; [lia|]. discriminate.
    + rewrite seq_length. lia.
    + destruct n; [lia|]. rewrite seq_S, last_last. lia.
Qed.
