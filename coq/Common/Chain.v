(* Shared theory of "slot chain validation", the pattern of base.IsValidMaps (C14) and
   SuffrageStateBuilder.prove (C18): the items of one batch arrive in any order; each is stored in
   the slot given by its index and checked against whichever neighbours are already present
   (slot 0 against the last item of the previous batch).

   Result ([run_place_iff]): for EVERY arrival order that contains every index of the batch, all
   placements succeed iff every item is linked to its predecessor; and then the slots hold all items. *)
From Coq Require Import List Arith Lia Bool PeanoNat Permutation.
Import ListNotations.

Fixpoint updl {A} (l : list A) (k : nat) (v : A) : list A :=
  match l, k with
  | [], _ => []
  | _ :: r, 0 => v :: r
  | x :: r, S k' => x :: updl r k' v
  end.

Definition memn (l : list nat) (i : nat) : bool := existsb (Nat.eqb i) l.

Lemma memn_In : forall P x, memn P x = true <-> In x P.
Proof.
  intros P x. unfold memn. rewrite existsb_exists. split.
  - intros [y [Hy He]]. apply Nat.eqb_eq in He. subst. assumption.
  - intros H. exists x. split; [assumption|apply Nat.eqb_refl].
Qed.

Lemma updl_length : forall {A} (l : list A) k v, length (updl l k v) = length l.
Proof. induction l; destruct k; cbn; auto. Qed.

Lemma updl_map_seq : forall {A} (f : nat -> A) n s k v, k < n ->
  updl (map f (seq s n)) k v = map (fun x => if x =? s + k then v else f x) (seq s n).
Proof.
  intros A f n. induction n as [|n IH]; intros s k v Hk; [lia|].
  cbn [seq map]. destruct k as [|k].
  - cbn [updl]. rewrite Nat.add_0_r, Nat.eqb_refl. f_equal.
    apply map_ext_in. intros x Hx. apply in_seq in Hx.
    destruct (Nat.eqb_spec x s); [lia|reflexivity].
  - cbn [updl]. destruct (Nat.eqb_spec s (s + S k)); [lia|]. f_equal.
    rewrite IH by lia. apply map_ext. intros x. replace (S s + k) with (s + S k) by lia. reflexivity.
Qed.

Lemma nth_map_seq0 : forall {A} (f : nat -> option A) n k,
  nth k (map f (seq 0 n)) None = if k <? n then f k else None.
Proof.
  intros A f n k. destruct (Nat.ltb_spec k n).
  - rewrite (nth_indep _ None (f 0)) by (rewrite map_length, seq_length; assumption).
    rewrite map_nth. rewrite seq_nth by assumption. reflexivity.
  - apply nth_overflow. rewrite map_length, seq_length. assumption.
Qed.

Section Chain.
  Variable A : Type.
  Variable link : option A -> A -> bool.   (* link previous current *)

  (* store m at slot j; check it against slot j-1 (or [lastprev] for slot 0) and slot j+1 *)
  Definition place_ok (slots : list (option A)) (lastprev : option A) (j : nat) (m : A) : bool :=
    let s' := updl slots j (Some m) in
    (if j =? 0 then link lastprev m
     else match nth (j - 1) s' None with Some q => link (Some q) m | None => true end)
    &&
    (match nth (j + 1) s' None with Some q => link (Some m) q | None => true end).

  Definition place (slots : list (option A)) (lastprev : option A) (j : nat) (m : A) : option (list (option A)) :=
    if j <? length slots
    then if place_ok slots lastprev j m then Some (updl slots j (Some m)) else None
    else None.

  Variable g : nat -> A.        (* the item with (global) index i *)
  Variables a n : nat.          (* the batch: indices a .. a+n-1 *)
  Variable lastprev : option A.

  Definition slots_of (P : list nat) : list (option A) :=
    map (fun j => if memn P (a + j) then Some (g (a + j)) else None) (seq 0 n).

  Definition linked_at (j : nat) : bool :=
    if j =? 0 then link lastprev (g a) else link (Some (g (a + j - 1))) (g (a + j)).

  Fixpoint run_place (order : list nat) (slots : list (option A)) : option (list (option A)) :=
    match order with
    | [] => Some slots
    | i :: r => match place slots lastprev (i - a) (g i) with
                | Some s' => run_place r s'
                | None => None
                end
    end.

  Lemma slots_of_length : forall P, length (slots_of P) = n.
  Proof. intros. unfold slots_of. rewrite map_length, seq_length. reflexivity. Qed.

  Lemma slots_of_nil : slots_of [] = repeat None n.
  Proof.
    unfold slots_of. cbn [memn existsb]. generalize 0.
    induction n as [|k IH]; intros s; cbn; [reflexivity|]. rewrite IH. reflexivity.
  Qed.

  Lemma slots_of_upd : forall P j, j < n ->
    updl (slots_of P) j (Some (g (a + j))) = slots_of ((a + j) :: P).
  Proof.
    intros P j Hj. unfold slots_of. rewrite updl_map_seq by assumption.
    apply map_ext. intros x. cbn [memn existsb Nat.add].
    destruct (Nat.eqb_spec x j) as [->|Hne].
    - rewrite Nat.eqb_refl. reflexivity.
    - destruct (Nat.eqb_spec (a + x) (a + j)); [lia|]. reflexivity.
  Qed.

  Lemma nth_slots_of : forall P k,
    nth k (slots_of P) None = if (k <? n) && memn P (a + k) then Some (g (a + k)) else None.
  Proof.
    intros P k. unfold slots_of. rewrite nth_map_seq0.
    destruct (k <? n); [|reflexivity]. cbn. reflexivity.
  Qed.

  Lemma slots_of_full : forall P, (forall j, j < n -> In (a + j) P) ->
    slots_of P = map (fun i => Some (g i)) (seq a n).
  Proof.
    intros P H. unfold slots_of.
    replace (seq a n) with (map (fun j => a + j) (seq 0 n)).
    2:{ clear. revert a. induction n as [|k IH]; intros a; [reflexivity|].
        cbn [seq map]. rewrite Nat.add_0_r. f_equal. rewrite <- seq_shift, map_map.
        rewrite <- (IH (S a)). apply map_ext. intros. lia. }
    rewrite map_map. apply map_ext_in. intros j Hj. apply in_seq in Hj.
    destruct (memn P (a + j)) eqn:E; [reflexivity|].
    assert (Hm : memn P (a + j) = true) by (apply memn_In, H; lia). congruence.
  Qed.

  (* what one placement checks, in terms of the set P of indices already placed *)
  Lemma place_ok_spec : forall P j, j < n ->
    place_ok (slots_of P) lastprev j (g (a + j)) =
    (if j =? 0 then linked_at 0
     else if memn P (a + j - 1) then linked_at j else true)
    &&
    (if (j + 1 <? n) && memn P (a + j + 1) then linked_at (j + 1) else true).
  Proof.
    intros P j Hj. unfold place_ok. rewrite slots_of_upd by assumption.
    rewrite !nth_slots_of. f_equal.
    - destruct (Nat.eqb_spec j 0) as [->|Hj0].
      + unfold linked_at. cbn. rewrite Nat.add_0_r. reflexivity.
      + destruct (Nat.ltb_spec (j - 1) n); [|lia]. cbn [andb].
        cbn [memn existsb]. destruct (Nat.eqb_spec (a + (j - 1)) (a + j)); [lia|]. cbn [orb].
        replace (a + (j - 1)) with (a + j - 1) by lia.
        change (existsb (Nat.eqb (a + j - 1)) P) with (memn P (a + j - 1)).
        destruct (memn P (a + j - 1)); [|reflexivity].
        unfold linked_at. destruct (Nat.eqb_spec j 0); [lia|]. reflexivity.
    - cbn [memn existsb]. destruct (Nat.eqb_spec (a + (j + 1)) (a + j)); [lia|]. cbn [orb].
      replace (a + (j + 1)) with (a + j + 1) by lia.
      change (existsb (Nat.eqb (a + j + 1)) P) with (memn P (a + j + 1)).
      destruct ((j + 1 <? n) && memn P (a + j + 1)); [|reflexivity].
      unfold linked_at. destruct (Nat.eqb_spec (j + 1) 0); [lia|].
      replace (a + (j + 1) - 1) with (a + j) by lia. replace (a + (j + 1)) with (a + j + 1) by lia.
      reflexivity.
  Qed.

  (* invariant: every adjacent pair inside P (and slot 0 against lastprev) has been checked *)
  Definition pairs_ok (P : list nat) : Prop :=
    forall j, j < n -> In (a + j) P -> (j = 0 \/ In (a + j - 1) P) -> linked_at j = true.

  Definition in_batch (order : list nat) : Prop := Forall (fun i => a <= i < a + n) order.

  Lemma run_place_inv : forall order P s,
    in_batch order -> pairs_ok P ->
    run_place order (slots_of P) = Some s ->
    s = slots_of (rev order ++ P) /\ pairs_ok (rev order ++ P).
  Proof.
    induction order as [|i r IH]; intros P s Hin Hp Hrun.
    - cbn in Hrun. inversion Hrun. cbn. auto.
    - inversion Hin as [|x y Hi Hr]; subst.
      assert (Hex : exists j, j < n /\ i = a + j) by (exists (i - a); lia).
      destruct Hex as [j [Hj Hij]]. subst i.
      cbn [run_place] in Hrun. unfold place in Hrun. rewrite slots_of_length in Hrun.
      replace (a + j - a) with j in Hrun by lia.
      destruct (Nat.ltb_spec j n); [|lia].
      destruct (place_ok (slots_of P) lastprev j (g (a + j))) eqn:Eok; [|discriminate].
      rewrite slots_of_upd in Hrun by assumption.
      rewrite place_ok_spec in Eok by assumption. apply andb_prop in Eok. destruct Eok as [E1 E2].
      assert (Hp' : pairs_ok ((a + j) :: P)).
      { intros k Hk Hink Hprev. destruct Hink as [Hink|Hink].
        - assert (k = j) by lia. subst k.
          destruct (Nat.eqb_spec j 0) as [->|Hj0]; [assumption|].
          destruct Hprev as [|Hprev]; [lia|]. destruct Hprev as [Hprev|Hprev]; [lia|].
          apply memn_In in Hprev. rewrite Hprev in E1. assumption.
        - destruct (Nat.eq_dec k 0) as [->|Hkn0]; [apply Hp; auto|].
          destruct Hprev as [Hk0|[Hprev|Hprev]].
          + apply Hp; auto.
          + (* predecessor of k is the new index j: k = j+1 *)
            assert (k = j + 1) by lia. subst k.
            destruct (Nat.ltb_spec (j + 1) n); [|lia].
            replace (a + (j + 1)) with (a + j + 1) in Hink by lia.
            apply memn_In in Hink. rewrite Hink in E2. cbn in E2. assumption.
          + apply Hp; auto. }
      destruct (IH _ _ Hr Hp' Hrun) as [Hs Hpp].
      cbn [rev]. rewrite <- !app_assoc. cbn [app]. auto.
  Qed.

  Lemma run_place_complete : forall order P,
    in_batch order -> (forall j, j < n -> linked_at j = true) ->
    run_place order (slots_of P) = Some (slots_of (rev order ++ P)).
  Proof.
    induction order as [|i r IH]; intros P Hin Hl; [reflexivity|].
    inversion Hin as [|x y Hi Hr]; subst.
    assert (Hex : exists j, j < n /\ i = a + j) by (exists (i - a); lia).
    destruct Hex as [j [Hj Hij]]. subst i.
    cbn [run_place]. unfold place. rewrite slots_of_length.
    replace (a + j - a) with j by lia.
    destruct (Nat.ltb_spec j n); [|lia].
    rewrite place_ok_spec by assumption.
    assert (E : (if j =? 0 then linked_at 0 else if memn P (a + j - 1) then linked_at j else true) &&
                (if (j + 1 <? n) && memn P (a + j + 1) then linked_at (j + 1) else true) = true).
    { apply andb_true_intro. split.
      - destruct (j =? 0); [apply Hl; lia|]. destruct (memn P (a + j - 1)); [apply Hl; lia|reflexivity].
      - destruct (Nat.ltb_spec (j + 1) n); cbn [andb]; [|reflexivity].
        destruct (memn P (a + j + 1)); [apply Hl; lia|reflexivity]. }
    rewrite E. rewrite slots_of_upd by assumption. rewrite IH by assumption.
    cbn [rev]. rewrite <- !app_assoc. reflexivity.
  Qed.

  (* the main result: any arrival order that is a permutation of the batch *)
  Theorem run_place_iff : forall order, Permutation (seq a n) order ->
    (forall s, run_place order (repeat None n) = Some s ->
       s = map (fun i => Some (g i)) (seq a n) /\ forall j, j < n -> linked_at j = true) /\
    ((forall j, j < n -> linked_at j = true) ->
       run_place order (repeat None n) = Some (map (fun i => Some (g i)) (seq a n))).
  Proof.
    intros order Hp.
    assert (Hin : in_batch order).
    { apply Forall_forall. intros i Hi. apply Permutation_sym in Hp.
      apply (Permutation_in _ Hp) in Hi. apply in_seq in Hi. lia. }
    assert (Hall : forall j, j < n -> In (a + j) (rev order ++ [])).
    { intros j Hj. rewrite app_nil_r. apply (proj1 (in_rev _ _)).
      apply (Permutation_in _ Hp). apply in_seq. lia. }
    rewrite <- slots_of_nil. split.
    - intros s Hrun. apply run_place_inv in Hrun; [|assumption|intros j _ []].
      destruct Hrun as [Hs Hpairs]. split.
      + rewrite Hs. apply slots_of_full. assumption.
      + intros j Hj. apply Hpairs; [assumption|apply Hall; assumption|].
        destruct j; [left; reflexivity|right]. replace (a + S j - 1) with (a + j) by lia.
        apply Hall. lia.
    - intros Hl. rewrite run_place_complete by assumption. f_equal. apply slots_of_full. assumption.
  Qed.
End Chain.

Arguments place_ok {A} link slots lastprev j m.
Arguments place {A} link slots lastprev j m.
Arguments run_place {A} link g a lastprev order slots.
Arguments linked_at {A} link g a lastprev j.
