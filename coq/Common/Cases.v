(* Shared helpers for the correspondence files (cases_NNN.v) written by the Go harnesses. *)
From Coq Require Import List ZArith NArith String Ascii Bool.
Import ListNotations.

Fixpoint bad_indices_from {A} (check : A -> bool) (i : nat) (l : list A) : list nat :=
  match l with
  | [] => []
  | x :: r => if check x then bad_indices_from check (S i) r else i :: bad_indices_from check (S i) r
  end.

Definition bad_indices {A} (check : A -> bool) (l : list A) : list nat := bad_indices_from check 0 l.

(* hex strings -> byte values (as N < 256) *)
Definition hexval (c : ascii) : option N :=
  let n := N_of_ascii c in
  if andb (N.leb 48 n) (N.leb n 57) then Some (n - 48)%N
  else if andb (N.leb 97 n) (N.leb n 102) then Some (n - 87)%N
  else if andb (N.leb 65 n) (N.leb n 70) then Some (n - 55)%N
  else None.

Fixpoint unhex (s : string) : list N :=
  match s with
  | String a (String b r) =>
      match hexval a, hexval b with
      | Some x, Some y => (16 * x + y)%N :: unhex r
      | _, _ => []
      end
  | _ => []
  end.

Fixpoint bytes_of_string (s : string) : list N :=
  match s with
  | EmptyString => []
  | String a r => N_of_ascii a :: bytes_of_string r
  end.

Fixpoint list_eqb {A} (eqb : A -> A -> bool) (a b : list A) : bool :=
  match a, b with
  | [], [] => true
  | x :: a', y :: b' => andb (eqb x y) (list_eqb eqb a' b')
  | _, _ => false
  end.

Definition option_eqb {A} (eqb : A -> A -> bool) (a b : option A) : bool :=
  match a, b with
  | None, None => true
  | Some x, Some y => eqb x y
  | _, _ => false
  end.
