(* C26 -- fixed-width digit strings: lexicographic order = numeric order; the two key encodings of a height. *)
From Coq Require Import List NArith ZArith Bool Lia.
From MV Require Import Gen.C26 C26.Model.
Import ListNotations.
Open Scope Z_scope.

(* ---------------------------------------------------------------- key equality *)

Lemma key_eqb_eq : forall a b, key_eqb a b = true <-> a = b.
Proof.
  induction a as [|x a IH]; destruct b as [|y b]; cbn; split; intros H; try discriminate; auto.
  - apply andb_prop in H. destruct H as [E1 E2]. apply N.eqb_eq in E1. apply IH in E2. subst; auto.
  - inversion H; subst. rewrite N.eqb_refl. cbn. apply IH. reflexivity.
Qed.

Lemma key_eqb_refl : forall a, key_eqb a a = true.
Proof. intros. apply key_eqb_eq. reflexivity. Qed.

Lemma key_eqb_neq : forall a b, a <> b -> key_eqb a b = false.
Proof. intros a b H. destruct (key_eqb a b) eqn:E; auto. apply key_eqb_eq in E. contradiction. Qed.

(* ---------------------------------------------------------------- prefixes *)

Lemma lex_le_app : forall p a b, lex_le (p ++ a) (p ++ b) = lex_le a b.
Proof.
  induction p as [|x p IH]; intros; cbn; auto.
  rewrite N.ltb_irrefl, N.eqb_refl. apply IH.
Qed.

Lemma lex_le_cons : forall x a b, lex_le (x :: a) (x :: b) = lex_le a b.
Proof. intros. cbn. rewrite N.ltb_irrefl, N.eqb_refl. reflexivity. Qed.

Lemma app_inj_prefix : forall (p a b : key), p ++ a = p ++ b -> a = b.
Proof. intros. eapply app_inv_head; eauto. Qed.

(* ---------------------------------------------------------------- digits *)

Section Digits.
  Variables off b : Z.
  Hypothesis Hoff : 0 <= off.
  Hypothesis Hb : 2 <= b.

  Lemma pow_pos : forall w : nat, 0 < b ^ Z.of_nat w.
  Proof. intros. apply Z.pow_pos_nonneg; lia. Qed.

  Lemma pow_succ : forall w : nat, b ^ Z.of_nat (S w) = b * b ^ Z.of_nat w.
  Proof. intros. rewrite Nat2Z.inj_succ, Z.pow_succ_r; lia. Qed.

  Lemma split_range : forall (w : nat) x, 0 <= x < b ^ Z.of_nat (S w) ->
    0 <= x / b ^ Z.of_nat w < b /\ 0 <= x mod b ^ Z.of_nat w < b ^ Z.of_nat w.
  Proof.
    intros w x H. pose proof (pow_pos w) as P. rewrite pow_succ in H. split.
    - split. apply Z.div_pos; lia. apply Z.div_lt_upper_bound; lia.
    - apply Z.mod_pos_bound; lia.
  Qed.

  Lemma digits_le : forall (w : nat) x y, 0 <= x < b ^ Z.of_nat w -> 0 <= y < b ^ Z.of_nat w ->
    lex_le (digits off b w x) (digits off b w y) = (x <=? y).
  Proof.
    induction w as [|w IH]; intros x y Hx Hy.
    - cbn in *. assert (x = 0) by lia. assert (y = 0) by lia. subst. reflexivity.
    - cbn [digits lex_le].
      destruct (split_range w x Hx) as [Qx Rx]. destruct (split_range w y Hy) as [Qy Ry].
      pose proof (pow_pos w) as P.
      pose proof (Z.div_mod x (b ^ Z.of_nat w) ltac:(lia)) as Dx.
      pose proof (Z.div_mod y (b ^ Z.of_nat w) ltac:(lia)) as Dy.
      set (qx := x / b ^ Z.of_nat w) in *. set (qy := y / b ^ Z.of_nat w) in *.
      set (rx := x mod b ^ Z.of_nat w) in *. set (ry := y mod b ^ Z.of_nat w) in *.
      set (B := b ^ Z.of_nat w) in *.
      destruct (N.ltb (Z.to_N (off + qx)) (Z.to_N (off + qy))) eqn:L.
      + apply N.ltb_lt in L. apply Z2N.inj_lt in L; try lia. symmetry. apply Z.leb_le. nia.
      + apply N.ltb_ge in L. apply Z2N.inj_le in L; try lia.
        destruct (N.eqb (Z.to_N (off + qx)) (Z.to_N (off + qy))) eqn:E.
        * apply N.eqb_eq in E. apply Z2N.inj in E; try lia. assert (qx = qy) by lia.
          rewrite (IH rx ry Rx Ry).
          destruct (rx <=? ry) eqn:C; symmetry; [apply Z.leb_le | apply Z.leb_gt]; [apply Z.leb_le in C | apply Z.leb_gt in C]; nia.
        * apply N.eqb_neq in E. assert (qy < qx). { assert (qx <> qy) by (intros ->; apply E; reflexivity). lia. }
          symmetry. apply Z.leb_gt. nia.
  Qed.

  Lemma digits_inj : forall (w : nat) x y, 0 <= x < b ^ Z.of_nat w -> 0 <= y < b ^ Z.of_nat w ->
    digits off b w x = digits off b w y -> x = y.
  Proof.
    induction w as [|w IH]; intros x y Hx Hy E.
    - cbn in *. lia.
    - cbn [digits] in E. inversion E as [[E1 E2]].
      destruct (split_range w x Hx) as [Qx Rx]. destruct (split_range w y Hy) as [Qy Ry].
      pose proof (pow_pos w) as P.
      apply Z2N.inj in E1; try lia. apply IH in E2; auto.
      pose proof (Z.div_mod x (b ^ Z.of_nat w) ltac:(lia)) as Dx.
      pose proof (Z.div_mod y (b ^ Z.of_nat w) ltac:(lia)) as Dy.
      assert (x / b ^ Z.of_nat w = y / b ^ Z.of_nat w) by lia. rewrite Dx, Dy, H, E2. reflexivity.
  Qed.

  Lemma digits_eqb : forall (w : nat) x y, 0 <= x < b ^ Z.of_nat w -> 0 <= y < b ^ Z.of_nat w ->
    key_eqb (digits off b w x) (digits off b w y) = (x =? y).
  Proof.
    intros w x y Hx Hy. destruct (x =? y) eqn:E.
    - apply Z.eqb_eq in E. subst. apply key_eqb_refl.
    - apply Z.eqb_neq in E. apply key_eqb_neq. intros C. apply E. eapply digits_inj; eauto.
  Qed.
End Digits.

(* ---------------------------------------------------------------- the domain of heights: int64, non negative *)

Definition max_height : Z := 2 ^ 63.

(* ---------------------------------------------------------------- leveldb: 8 bytes big endian *)

Lemma be8_le : forall a c, 0 <= a <= max_height -> 0 <= c <= max_height -> lex_le (be8 a) (be8 c) = (a <=? c).
Proof.
  intros a c Ha Hc. unfold be8, max_height in *.
  rewrite (Z.mod_small a), (Z.mod_small c) by lia.
  apply digits_le; try lia; change (256 ^ Z.of_nat 8) with (2 ^ 64); lia.
Qed.

Lemma be8_eqb : forall a c, - max_height <= a < max_height -> 0 <= c < max_height -> key_eqb (be8 a) (be8 c) = (a =? c).
Proof.
  intros a c Ha Hc. unfold be8, max_height in *.
  assert (M : 0 <= a mod 2 ^ 64 < 2 ^ 64) by (apply Z.mod_pos_bound; lia).
  rewrite (Z.mod_small c) by lia.
  rewrite digits_eqb; try lia; try (change (256 ^ Z.of_nat 8) with (2 ^ 64); lia).
  destruct (Z.eq_dec a c) as [->|N].
  - rewrite Z.mod_small by lia. reflexivity.
  - replace (a =? c) with false by (symmetry; apply Z.eqb_neq; auto). apply Z.eqb_neq.
    destruct (Z_lt_le_dec a 0).
    + replace (a mod 2 ^ 64) with (a + 2 ^ 64). lia.
      symmetry. rewrite <- (Z.mod_small (a + 2 ^ 64) (2 ^ 64)) by lia.
      rewrite <- Z.add_mod_idemp_r by lia. rewrite Z.mod_same by lia. rewrite Z.add_0_r. reflexivity.
    + rewrite Z.mod_small by lia. auto.
Qed.

(* ---------------------------------------------------------------- Redis: zero padded decimal *)

Lemma dec_width_21 : dec_width = 21%nat.
Proof. reflexivity. Qed.

Lemma max_height_dec : max_height < 10 ^ 20.
Proof. unfold max_height. lia. Qed.

Lemma dec21_nonneg : forall a, 0 <= a -> dec21 a = digits 48 10 dec_width a.
Proof. intros a H. unfold dec21. replace (a <? 0) with false by (symmetry; apply Z.ltb_ge; lia). reflexivity. Qed.

Lemma dec21_le : forall a c, 0 <= a <= max_height -> 0 <= c <= max_height -> lex_le (dec21 a) (dec21 c) = (a <=? c).
Proof.
  intros a c Ha Hc. rewrite !dec21_nonneg by lia. pose proof max_height_dec.
  apply digits_le; try lia; rewrite dec_width_21; change (10 ^ Z.of_nat 21) with (10 * 10 ^ 20); lia.
Qed.

Lemma dec21_head : forall a, 0 <= a <= max_height -> exists t, dec21 a = 48%N :: t.
Proof.
  intros a Ha. rewrite dec21_nonneg by lia. rewrite dec_width_21. cbn [digits].
  pose proof max_height_dec. change (10 ^ Z.of_nat 20) with (10 ^ 20).
  rewrite Z.div_small by lia. eexists. reflexivity.
Qed.

Lemma dec21_neg_head : forall a, a < 0 -> exists t, dec21 a = ascii_dash :: t.
Proof. intros a H. unfold dec21. replace (a <? 0) with true by (symmetry; apply Z.ltb_lt; lia). eexists. reflexivity. Qed.

Lemma dec21_eqb : forall a c, a < max_height -> 0 <= c < max_height -> key_eqb (dec21 a) (dec21 c) = (a =? c).
Proof.
  intros a c Ha Hc. destruct (Z_lt_le_dec a 0) as [N|P].
  - destruct (dec21_neg_head a N) as [t ->]. destruct (dec21_head c ltac:(lia)) as [u ->].
    cbn. symmetry. apply Z.eqb_neq. lia.
  - rewrite !dec21_nonneg by lia. pose proof max_height_dec.
    apply digits_eqb; try lia; rewrite dec_width_21; change (10 ^ Z.of_nat 21) with (10 * 10 ^ 20); lia.
Qed.

(* a stored key is never above a negative bound, and always within the closing run of nines *)
Lemma dec21_le_neg : forall a c, a < 0 -> 0 <= c <= max_height -> lex_le (dec21 c) (dec21 a) = false.
Proof.
  intros a c Ha Hc. destruct (dec21_neg_head a Ha) as [t ->]. destruct (dec21_head c Hc) as [u ->]. reflexivity.
Qed.

Lemma dec21_le_nines : forall c n, 0 <= c <= max_height -> (0 < n)%nat -> lex_le (dec21 c) (nines n) = true.
Proof.
  intros c n Hc Hn. destruct (dec21_head c Hc) as [u ->]. destruct n; [lia|]. reflexivity.
Qed.
