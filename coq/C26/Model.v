(* C26 -- the Redis-backed permanent database answers every read as the leveldb-backed one.

   Transcribes isaac/database/perm_redis.go, perm_leveldb.go, perm_base.go (and the ordered queries of
   storage/redis/db.go ZRangeArgs ByLex/Rev/Count=1, storage/leveldb Iter over a prefix range).

   One read model, written once over a *backend*: per table an association list from keys (byte strings)
   to values, an ordered "greatest key within bounds" query, and (Redis only) the sorted sets that index
   two of the tables.  The two instances differ in
     - the key encoding of a height: leveldb = 8 bytes big endian (base.Height.Bytes),
       Redis = "%021d" ASCII decimal (base.Height.FixedString) behind a textual prefix;
     - how "last"/"greatest not above h" is asked: leveldb iterates a key range in reverse,
       Redis asks ZRANGE BYLEX REV LIMIT 1 on a sorted set of key names and then GETs that key.
   Values are opaque identifiers (N): which object / which stored frame (enchint, meta, body).

   No proofs here. *)
From Coq Require Import List NArith ZArith Bool.
From MV Require Import Gen.C26.
Import ListNotations.
Open Scope Z_scope.

Definition key := list N.            (* bytes *)

(* ---------------------------------------------------------------- lexicographic order on keys (bytes.Compare / Redis BYLEX) *)

Fixpoint lex_le (a b : key) : bool :=
  match a, b with
  | [], _ => true
  | _ :: _, [] => false
  | x :: a', y :: b' => if N.ltb x y then true else if N.eqb x y then lex_le a' b' else false
  end.

Definition lex_lt (a b : key) : bool := negb (lex_le b a).

Fixpoint key_eqb (a b : key) : bool :=
  match a, b with
  | [], [] => true
  | x :: a', y :: b' => N.eqb x y && key_eqb a' b'
  | _, _ => false
  end.

(* ---------------------------------------------------------------- fixed-width digit strings *)

(* [digits off b w z]: the w digits of z (0 <= z < b^w) in base b, most significant first, each shifted by [off] *)
Fixpoint digits (off b : Z) (w : nat) (z : Z) : list N :=
  match w with
  | O => []
  | S w' => Z.to_N (off + z / b ^ Z.of_nat w') :: digits off b w' (z mod b ^ Z.of_nat w')
  end.

(* base.Height.Bytes = util.Int64ToBigBytes: 8 bytes big endian (two's complement for negative heights) *)
Definition be8 (h : Z) : key := digits 0 256 8 (h mod 2 ^ 64).

Definition ascii_dash : N := 45%N.

(* base.Height.FixedString = fmt.Sprintf("%021d", h): for h < 0 the sign counts in the width *)
Definition dec_width : nat := Z.to_nat height_fixed_width.
Definition dec21 (h : Z) : key :=
  if Z.ltb h 0
  then ascii_dash :: digits 48 10 (pred dec_width) (- h)
  else digits 48 10 dec_width h.

Definition nines (n : nat) : key := repeat 57%N n.

(* Redis key names: prefix ++ "-" ++ FixedString *)
Definition rkey (prefix : list N) (h : Z) : key := prefix ++ ascii_dash :: dec21 h.
Definition rend (prefix : list N) (n : Z) : key := prefix ++ ascii_dash :: nines (Z.to_nat n).   (* strings.Repeat("9", n) *)

(* ---------------------------------------------------------------- tables *)

Definition val := N.

(* the greatest key (in lexicographic order) among those satisfying [inr]; None when there is none *)
Fixpoint bestk (inr : key -> bool) (l : list key) : option key :=
  match l with
  | [] => None
  | k :: r =>
      match bestk inr r with
      | None => if inr k then Some k else None
      | Some m => if inr k && lex_le m k then Some k else Some m
      end
  end.

(* ---------------------------------------------------------------- what a block writes (the temp database of one block) *)

Record block := mkBlock {
  b_height : Z;
  b_map : val;                              (* the block map (object id = frame id) *)
  b_states : list (N * Z * val);            (* state key id, state height, state id *)
  b_known : list N;                         (* known operation hashes *)
  b_instate : list N;                       (* in-state operation (fact) hashes *)
  b_proof : option (Z * val);               (* suffrage proof: suffrage height, proof id *)
  b_policy : option val                     (* network policy carried by a network policy state *)
}.

(* ---------------------------------------------------------------- in-memory part shared by both (perm_base.go) *)

Record mem := mkMem {
  m_last : option (Z * val);                (* last block map: height, id *)
  m_proof : option (Z * Z * val);           (* last suffrage proof: suffrage height, block height, id *)
  m_policy : option val
}.

Definition mem0 : mem := mkMem None None None.

(* basePermanent.updateLast *)
Definition update_last (m : mem) (b : block) : mem :=
  let newer := match m_last m with None => true | Some (h, _) => Z.ltb h (b_height b) end in
  if newer then
    mkMem (Some (b_height b, b_map b))
          (match b_proof b with Some (sh, p) => Some (sh, b_height b, p) | None => m_proof m end)
          (match b_policy b with Some p => Some p | None => m_policy m end)
  else m.

(* ---------------------------------------------------------------- persistent part: tables *)

Record tables := mkTables {
  t_bmp : list (key * (Z * val));           (* block maps by block height: (height, id) *)
  t_sup : list (key * (Z * Z * val));       (* suffrage proofs by suffrage height: (suffrage height, block height, id) *)
  t_sph : list (key * (Z * Z * val));       (* suffrage proofs by block height *)
  t_stt : list (N * (Z * val));             (* states by state key: (height, id); a later Set/Put overwrites *)
  t_pol : option val;                       (* the policy inside the stored network policy state *)
  t_kno : list N;
  t_iso : list N;
  z_bmp : list key;                         (* Redis only: sorted set "blockmaps" *)
  z_sph : list key                          (* Redis only: sorted set "suffrageproofs_by_blockheight" *)
}.

Definition tables0 : tables := mkTables [] [] [] [] None [] [] [] [].

Fixpoint assocp {A} (k : key) (t : list (key * A)) : option A :=
  match t with
  | [] => None
  | (k', v) :: r => if key_eqb k k' then Some v else assocp k r
  end.

Definition get_bestp {A} (inr : key -> bool) (names : list key) (t : list (key * A)) : option A :=
  match bestk inr names with
  | None => None
  | Some k => assocp k t
  end.

Fixpoint assocN {A} (k : N) (t : list (N * A)) : option A :=
  match t with
  | [] => None
  | (k', v) :: r => if N.eqb k k' then Some v else assocN k r
  end.

Fixpoint memN (x : N) (l : list N) : bool :=
  match l with [] => false | y :: r => N.eqb x y || memN x r end.

(* ---------------------------------------------------------------- a backend: how heights become keys and how ranges are asked *)

Inductive backend := Leveldb | Redis.

Definition bytes_of (l : list Z) : list N := map Z.to_N l.

Definition k_bmp (be : backend) (h : Z) : key :=
  match be with Leveldb => bytes_of leveldb_prefix_blockmap ++ be8 h | Redis => rkey (bytes_of redis_prefix_blockmap) h end.
Definition k_sup (be : backend) (h : Z) : key :=
  match be with Leveldb => bytes_of leveldb_prefix_suffrageproof ++ be8 h | Redis => rkey (bytes_of redis_prefix_suffrageproof) h end.
Definition k_sph (be : backend) (h : Z) : key :=
  match be with
  | Leveldb => bytes_of leveldb_prefix_suffrageproof_by_blockheight ++ be8 h
  | Redis => rkey (bytes_of redis_prefix_suffrageproof_by_blockheight) h
  end.

(* mergeTempDatabaseFromLeveldb (both): every record of the block's temp database is copied *)
Definition put_states (t : list (N * (Z * val))) (sts : list (N * Z * val)) : list (N * (Z * val)) :=
  fold_left (fun acc s => let '(k, h, v) := s in (k, (h, v)) :: acc) sts t.

Definition merge_tables (be : backend) (t : tables) (b : block) : tables :=
  let h := b_height b in
  mkTables
    ((k_bmp be h, (h, b_map b)) :: t_bmp t)
    (match b_proof b with Some (sh, p) => (k_sup be sh, (sh, h, p)) :: t_sup t | None => t_sup t end)
    (match b_proof b with Some (sh, p) => (k_sph be h, (sh, h, p)) :: t_sph t | None => t_sph t end)
    (put_states (t_stt t) (b_states b))
    (match b_policy b with Some p => Some p | None => t_pol t end)
    (b_known b ++ t_kno t)
    (b_instate b ++ t_iso t)
    (match be with Redis => k_bmp be h :: z_bmp t | Leveldb => z_bmp t end)
    (match be, b_proof b with Redis, Some _ => k_sph be h :: z_sph t | _, _ => z_sph t end).

Record db := mkDb { d_mem : mem; d_tab : tables }.

Definition db0 : db := mkDb mem0 tables0.

Definition merge (be : backend) (d : db) (b : block) : db :=
  mkDb (update_last (d_mem d) b) (merge_tables be (d_tab d) b).

Definition run (be : backend) (chain : list block) : db := fold_left (merge be) chain db0.

(* ---------------------------------------------------------------- ordered queries *)

Definition all_keys (_ : key) : bool := true.

(* leveldb: Iter(BytesPrefix(prefix), reverse) first element = greatest key of the table;
   with r.Limit = key(h+1): greatest key strictly below key(h+1) *)
Definition ldb_last {A} (t : list (key * A)) : option A := get_bestp all_keys (map fst t) t.
Definition ldb_last_below {A} (limit : key) (t : list (key * A)) : option A :=
  get_bestp (fun k => lex_lt k limit) (map fst t) t.

(* Redis: ZRANGE zkey [begin [stop BYLEX REV LIMIT 0 1, then GET of that member *)
Definition rds_last {A} (zs : list key) (lo hi : key) (t : list (key * A)) : option A :=
  get_bestp (fun k => lex_le lo k && lex_le k hi) zs t.

(* ---------------------------------------------------------------- reopen: New*Permanent = load* from the tables *)

Definition load_last_map (be : backend) (t : tables) : option (Z * val) :=
  match be with
  | Leveldb => ldb_last (t_bmp t)
  | Redis => rds_last (z_bmp t) (k_bmp Redis 0) (rend (bytes_of redis_prefix_blockmap) redis_end_nines_blockmaps) (t_bmp t)
  end.

Definition load_last_proof (be : backend) (t : tables) : option (Z * Z * val) :=
  match be with
  | Leveldb => ldb_last (t_sup t)                      (* greatest suffrage height *)
  | Redis => rds_last (z_sph t) (k_sph Redis 0)
               (rend (bytes_of redis_prefix_suffrageproof_by_blockheight) redis_end_nines_suffrageproofs) (t_sph t)
                                                        (* greatest block height *)
  end.

Definition reopen (be : backend) (d : db) : db :=
  let t := d_tab d in
  mkDb (mkMem (load_last_map be t) (load_last_proof be t) (t_pol t)) t.

(* ---------------------------------------------------------------- reads (isaac.PermanentDatabase) *)

Inductive read :=
| RLastMap | RLastProof | RLastPolicy
| RMap (h : Z) | RProof (sh : Z) | RProofByBlock (h : Z)
| RState (k : N) | RKnown (o : N) | RInState (o : N).

(* answers: an object/frame id, or a flag *)
Inductive ans := ANone | AVal (v : val) | ABool (b : bool).

Definition of_opt (o : option val) : ans := match o with Some v => AVal v | None => ANone end.

Definition do_read (be : backend) (d : db) (r : read) : ans :=
  let m := d_mem d in
  let t := d_tab d in
  match r with
  | RLastMap => of_opt (option_map snd (m_last m))
  | RLastProof => of_opt (option_map snd (m_proof m))
  | RLastPolicy => of_opt (m_policy m)
  | RMap h =>
      match m_last m with
      | None => ANone
      | Some (lh, lv) => if Z.eqb lh h then AVal lv else of_opt (option_map snd (assocp (k_bmp be h) (t_bmp t)))
      end
  | RProof sh =>                                          (* compareWithLastSuffrageProof, then Get *)
      match m_proof m with
      | Some (lsh, _, lv) => if Z.eqb sh lsh then AVal lv else of_opt (option_map snd (assocp (k_sup be sh) (t_sup t)))
      | None => of_opt (option_map snd (assocp (k_sup be sh) (t_sup t)))
      end
  | RProofByBlock h =>
      match m_last m with
      | None => ANone
      | Some (lh, _) =>
          if Z.ltb lh h then ANone
          else match m_proof m with
               | None => ANone
               | Some (_, ph, pv) =>
                   if Z.leb ph h then AVal pv
                   else of_opt (option_map snd
                          match be with
                          | Leveldb => ldb_last_below (k_sph Leveldb (h + 1)) (t_sph t)
                          | Redis => rds_last (z_sph t) (k_sph Redis 0) (k_sph Redis h) (t_sph t)
                          end)
               end
      end
  | RState k => of_opt (option_map snd (assocN k (t_stt t)))
  | RKnown o => ABool (memN o (t_kno t))
  | RInState o => ABool (memN o (t_iso t))
  end.

(* ---------------------------------------------------------------- the specification: reads of a chain *)

(* the chain is looked at from its newest block backwards *)
Fixpoint first_some {A B} (f : A -> option B) (l : list A) : option B :=
  match l with
  | [] => None
  | x :: r => match f x with Some y => Some y | None => first_some f r end
  end.

Definition proof_of (b : block) : option (Z * Z * val) :=
  match b_proof b with Some (sh, p) => Some (sh, b_height b, p) | None => None end.

Definition proofs_of (l : list block) : list (Z * Z * val) :=
  flat_map (fun b => match proof_of b with Some p => [p] | None => [] end) l.

Definition p_sh (p : Z * Z * val) : Z := fst (fst p).
Definition p_bh (p : Z * Z * val) : Z := snd (fst p).

Definition state_pairs (b : block) : list (N * (Z * val)) :=
  rev (map (fun s : N * Z * val => let '(k, h, v) := s in (k, (h, v))) (b_states b)).

Definition spec_read (chain : list block) (r : read) : ans :=
  let newest := rev chain in
  match r with
  | RLastMap => of_opt (option_map b_map (hd_error newest))
  | RLastProof => of_opt (option_map snd (hd_error (proofs_of newest)))
  | RLastPolicy => of_opt (first_some b_policy newest)
  | RMap h => of_opt (option_map b_map (find (fun b => Z.eqb h (b_height b)) newest))
  | RProof sh => of_opt (option_map snd (find (fun p => Z.eqb sh (p_sh p)) (proofs_of newest)))
  | RProofByBlock h =>                       (* the newest suffrage proof of a block not above h, for h up to the last block *)
      match newest with
      | [] => ANone
      | lb :: _ =>
          if Z.ltb (b_height lb) h then ANone
          else of_opt (option_map snd (find (fun p => Z.leb (p_bh p) h) (proofs_of newest)))
      end
  | RState k => of_opt (first_some (fun b => option_map snd (assocN k (state_pairs b))) newest)
  | RKnown o => ABool (memN o (flat_map b_known newest))
  | RInState o => ABool (memN o (flat_map b_instate newest))
  end.

(* ---------------------------------------------------------------- correspondence *)

Definition ans_eqb (a b : ans) : bool :=
  match a, b with
  | ANone, ANone => true
  | AVal x, AVal y => N.eqb x y
  | ABool x, ABool y => Bool.eqb x y
  | _, _ => false
  end.

(* a case: the chain merged so far, whether the databases were reopened after the last merge, and for a list of
   reads the answers observed on the real RedisPermanent and on the real LeveldbPermanent *)
Definition state_of (be : backend) (chain : list block) (reopened : bool) : db :=
  let d := run be chain in if reopened then reopen be d else d.

Definition check (c : list block * bool * list (read * ans * ans)) : bool :=
  let '(chain, reopened, obs) := c in
  let dr := state_of Redis chain reopened in
  let dl := state_of Leveldb chain reopened in
  forallb (fun o => let '(r, a_redis, a_leveldb) := o in
                    ans_eqb (do_read Redis dr r) a_redis
                    && ans_eqb (do_read Leveldb dl r) a_leveldb
                    && ans_eqb (spec_read chain r) a_leveldb) obs.
