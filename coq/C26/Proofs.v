(* C26 -- lemmas. *)
From Coq Require Import List NArith ZArith Bool Lia.
From MV Require Import Gen.C26 C26.Model.
Import ListNotations.
Open Scope Z_scope.

(* ---------------------------------------------------------------- the parts that do not depend on the backend *)

Lemma merge_mem : forall be d b, d_mem (merge be d b) = update_last (d_mem d) b.
Proof. reflexivity. Qed.

Lemma run_mem_eq_gen : forall chain d1 d2, d_mem d1 = d_mem d2 ->
  d_mem (fold_left (merge Redis) chain d1) = d_mem (fold_left (merge Leveldb) chain d2).
Proof.
  induction chain as [|b r IH]; intros d1 d2 H; cbn [fold_left]; auto.
  apply IH. rewrite !merge_mem, H. reflexivity.
Qed.

Lemma run_mem_eq : forall chain, d_mem (run Redis chain) = d_mem (run Leveldb chain).
Proof. intros. apply run_mem_eq_gen. reflexivity. Qed.

Definition plain_tables_eq (a b : tables) : Prop :=
  t_stt a = t_stt b /\ t_pol a = t_pol b /\ t_kno a = t_kno b /\ t_iso a = t_iso b.

Lemma run_plain_eq_gen : forall chain d1 d2, plain_tables_eq (d_tab d1) (d_tab d2) ->
  plain_tables_eq (d_tab (fold_left (merge Redis) chain d1)) (d_tab (fold_left (merge Leveldb) chain d2)).
Proof.
  induction chain as [|b r IH]; intros d1 d2 H; cbn [fold_left]; auto.
  apply IH. destruct H as (A & B & C & D). unfold plain_tables_eq, merge, merge_tables; cbn.
  rewrite A, B, C, D. auto.
Qed.

Lemma run_plain_eq : forall chain, plain_tables_eq (d_tab (run Redis chain)) (d_tab (run Leveldb chain)).
Proof. intros. apply run_plain_eq_gen. repeat split. Qed.

Definition unordered_read (r : read) : bool :=
  match r with
  | RLastMap | RLastProof | RLastPolicy | RState _ | RKnown _ | RInState _ => true
  | _ => false
  end.

Lemma unordered_reads_agree : forall chain r, unordered_read r = true ->
  do_read Redis (run Redis chain) r = do_read Leveldb (run Leveldb chain) r.
Proof.
  intros chain r U. pose proof (run_mem_eq chain) as M. destruct (run_plain_eq chain) as (A & B & C & D).
  destruct r; cbn in U; try discriminate; unfold do_read; rewrite ?M, ?A, ?C, ?D; reflexivity.
Qed.
