(* C26 -- lemmas. *)
From Coq Require Import List NArith ZArith Bool Lia.
From MV Require Import Gen.C26 C26.Model.
Import ListNotations.
Open Scope Z_scope.

(* ---------------------------------------------------------------- the parts that do not depend on the backend *)

Lemma merge_mem : forall be d b, d_mem (merge be d b) = update_last (d_mem d) b.
Proof. reflexivity. Qed.

Lemma run_mem_eq_gen : forall chain d1 d2, d_mem d1 = d_mem d2 ->
  d_mem (fold_left (merge Redis) chain d1) = d_mem (fold_left (merge Leveldb) chain d2).
Proof.
  induction chain as [|b r IH]; intros d1 d2 H; cbn [fold_left]; auto.
  apply IH. rewrite !merge_mem, H. reflexivity.
Qed.

Lemma run_mem_eq : forall chain, d_mem (run Redis chain) = d_mem (run Leveldb chain).
Proof. intros. apply run_mem_eq_gen. reflexivity. Qed.

Definition plain_tables_eq (a b : tables) : Prop :=
  t_stt a = t_stt b /\ t_pol a = t_pol b /\ t_kno a = t_kno b /\ t_iso a = t_iso b.

Lemma run_plain_eq_gen : forall chain d1 d2, plain_tables_eq (d_tab d1) (d_tab d2) ->
  plain_tables_eq (d_tab (fold_left (merge Redis) chain d1)) (d_tab (fold_left (merge Leveldb) chain d2)).
Proof.
  induction chain as [|b r IH]; intros d1 d2 H; cbn [fold_left]; auto.
  apply IH. destruct H as (A & B & C & D). unfold plain_tables_eq, merge, merge_tables; cbn.
  rewrite A, B, C, D. auto.
Qed.

Lemma run_plain_eq : forall chain, plain_tables_eq (d_tab (run Redis chain)) (d_tab (run Leveldb chain)).
Proof. intros. apply run_plain_eq_gen. repeat split. Qed.

Definition unordered_read (r : read) : bool :=
  match r with
  | RLastMap | RLastProof | RLastPolicy | RState _ | RKnown _ | RInState _ => true
  | _ => false
  end.

Lemma unordered_reads_agree : forall chain r, unordered_read r = true ->
  do_read Redis (run Redis chain) r = do_read Leveldb (run Leveldb chain) r.
Proof.
  intros chain r U. pose proof (run_mem_eq chain) as M. destruct (run_plain_eq chain) as (A & B & C & D).
  destruct r; cbn in U; try discriminate; unfold do_read; rewrite ?M, ?A, ?C, ?D; reflexivity.
Qed.

(* ================================================================ refinement to the chain specification *)
From MV Require Import C26.Keys.

(* ---------------------------------------------------------------- closed forms: the database after a chain, newest block first *)

Fixpoint mem_of (l : list block) : mem :=
  match l with [] => mem0 | b :: r => update_last (mem_of r) b end.

Fixpoint tab_of (be : backend) (l : list block) : tables :=
  match l with [] => tables0 | b :: r => merge_tables be (tab_of be r) b end.

Lemma run_closed : forall be chain, run be chain = mkDb (mem_of (rev chain)) (tab_of be (rev chain)).
Proof.
  intros be chain. induction chain as [|b r IH] using rev_ind.
  - reflexivity.
  - unfold run in *. rewrite fold_left_app, IH. cbn [fold_left]. rewrite rev_app_distr. reflexivity.
Qed.

(* ---------------------------------------------------------------- strictly decreasing lists *)

Fixpoint desc (l : list Z) : Prop :=
  match l with [] => True | x :: r => (forall y, In y r -> y < x) /\ desc r end.

Fixpoint bestZ (P : Z -> bool) (l : list Z) : option Z :=
  match l with
  | [] => None
  | k :: r =>
      match bestZ P r with
      | None => if P k then Some k else None
      | Some m => if P k && Z.leb m k then Some k else Some m
      end
  end.

Lemma bestZ_in : forall P l x, bestZ P l = Some x -> In x l /\ P x = true.
Proof.
  induction l as [|k r IH]; cbn; intros x H; try discriminate.
  destruct (bestZ P r) as [m|] eqn:B.
  - destruct (P k) eqn:Pk; cbn in H.
    + destruct (m <=? k); inversion H; subst; auto. destruct (IH _ eq_refl); auto.
    + inversion H; subst. destruct (IH _ eq_refl); auto.
  - destruct (P k) eqn:Pk; inversion H; subst; auto.
Qed.

Lemma bestZ_none : forall P l, bestZ P l = None -> forall x, In x l -> P x = false.
Proof.
  induction l as [|k r IH]; cbn; intros H x I; [contradiction|].
  destruct (bestZ P r) as [m|] eqn:B.
  - destruct (P k && (m <=? k)); discriminate.
  - destruct (P k) eqn:Pk; try discriminate. destruct I as [->|I]; auto.
Qed.

(* in a strictly decreasing list the greatest element satisfying P is the first one *)
Lemma bestZ_desc : forall P l, desc l -> bestZ P l = find P l.
Proof.
  induction l as [|k r IH]; cbn; intros D; auto. destruct D as [D1 D2]. rewrite (IH D2).
  destruct (find P r) as [m|] eqn:F.
  - apply find_some in F. destruct F as [I Pm]. specialize (D1 m I).
    destruct (P k); cbn; auto. replace (m <=? k) with true by (symmetry; apply Z.leb_le; lia). reflexivity.
  - destruct (P k); reflexivity.
Qed.

Lemma bestk_map : forall (enc : Z -> key) inr P (l : list Z),
  (forall a, In a l -> inr (enc a) = P a) ->
  (forall a c, In a l -> In c l -> lex_le (enc a) (enc c) = (a <=? c)) ->
  bestk inr (map enc l) = option_map enc (bestZ P l).
Proof.
  induction l as [|k r IH]; intros H1 H2; cbn; auto.
  rewrite IH; [ | intros; apply H1; cbn; auto | intros; apply H2; cbn; auto ].
  destruct (bestZ P r) as [m|] eqn:B; cbn.
  - rewrite H1 by (cbn; auto). destruct (bestZ_in _ _ _ B) as [Im _].
    rewrite H2 by (cbn; auto). destruct (P k && (m <=? k)); reflexivity.
  - rewrite H1 by (cbn; auto). destruct (P k); reflexivity.
Qed.

Lemma assocp_map : forall {E A} (enc : Z -> key) (f : E -> Z) (g : E -> A) (l : list E) x,
  (forall e, In e l -> key_eqb (enc x) (enc (f e)) = (x =? f e)) ->
  assocp (enc x) (map (fun e => (enc (f e), g e)) l) = option_map g (find (fun e => x =? f e) l).
Proof.
  induction l as [|e r IH]; intros x H; cbn; auto.
  rewrite H by (cbn; auto). destruct (x =? f e); cbn; auto. apply IH. intros; apply H; cbn; auto.
Qed.

Lemma find_first : forall {E} (f : E -> Z) P (l : list E) x, find P (map f l) = Some x ->
  find (fun e => x =? f e) l = find (fun e => P (f e)) l.
Proof.
  induction l as [|e r IH]; cbn; intros x H; auto.
  destruct (P (f e)) eqn:Pe.
  - inversion H; subst. rewrite Z.eqb_refl. reflexivity.
  - assert (x <> f e). { intros ->. apply find_some in H. destruct H as [_ Px]. congruence. }
    replace (x =? f e) with false by (symmetry; apply Z.eqb_neq; auto). auto.
Qed.

Lemma find_none_map : forall {E} (f : E -> Z) P (l : list E), find P (map f l) = None -> find (fun e => P (f e)) l = None.
Proof.
  induction l as [|e r IH]; cbn; intros H; auto. destruct (P (f e)); [discriminate|auto].
Qed.

(* the ordered query through an order-preserving, injective key encoding = "first element of the decreasing list
   that satisfies P" *)
Lemma get_best_spec : forall {E} (enc : Z -> key) (f : E -> Z) inr P (l : list E),
  desc (map f l) ->
  (forall e, In e l -> inr (enc (f e)) = P (f e)) ->
  (forall a c, In a l -> In c l -> lex_le (enc (f a)) (enc (f c)) = (f a <=? f c)) ->
  (forall a c, In a l -> In c l -> key_eqb (enc (f a)) (enc (f c)) = (f a =? f c)) ->
  get_bestp inr (map enc (map f l)) (map (fun e => (enc (f e), e)) l) = find (fun e => P (f e)) l.
Proof.
  intros E enc f inr P l D H1 H2 H3. unfold get_bestp.
  rewrite (bestk_map enc inr P).
  - rewrite (bestZ_desc _ _ D). destruct (find P (map f l)) as [x|] eqn:F; cbn.
    + pose proof (find_some _ _ F) as [Ix _]. apply in_map_iff in Ix. destruct Ix as (e0 & <- & I0).
      rewrite (assocp_map enc f (fun e => e)) by (intros; apply H3; auto).
      rewrite (find_first f P l _ F). destruct (find _ l); reflexivity.
    + symmetry. apply find_none_map. auto.
  - intros a Ia. apply in_map_iff in Ia. destruct Ia as (e & <- & I). auto.
  - intros a c Ia Ic. apply in_map_iff in Ia, Ic. destruct Ia as (e1 & <- & I1). destruct Ic as (e2 & <- & I2). auto.
Qed.

(* ---------------------------------------------------------------- valid chains *)

(* heights and suffrage heights are non-negative int64, strictly increasing along the chain *)
Record valid (newest : list block) : Prop := mkValid {
  v_desc : desc (map b_height newest);
  v_range : forall b, In b newest -> 0 <= b_height b < max_height;
  v_sdesc : desc (map p_sh (proofs_of newest));
  v_srange : forall p, In p (proofs_of newest) -> 0 <= p_sh p < max_height
}.

Lemma valid_tail : forall b r, valid (b :: r) -> valid r.
Proof.
  intros b r [D R S SR]. constructor.
  - cbn in D. tauto.
  - intros; apply R; cbn; auto.
  - unfold proofs_of in *. cbn [flat_map] in S. destruct (proof_of b); cbn in S; tauto.
  - intros p I. apply SR. unfold proofs_of in *. cbn [flat_map]. apply in_or_app. auto.
Qed.

Lemma proofs_heights : forall l p, In p (proofs_of l) -> exists b, In b l /\ p_bh p = b_height b /\ proof_of b = Some p.
Proof.
  induction l as [|b r IH]; cbn; intros p I; [contradiction|].
  apply in_app_or in I. destruct I as [I|I].
  - destruct (proof_of b) as [q|] eqn:Q; cbn in I; [|contradiction]. destruct I as [<-|[]].
    exists b. split; auto. split; auto. unfold proof_of in Q. destruct (b_proof b) as [[sh v]|]; inversion Q. reflexivity.
  - destruct (IH p I) as (b' & I' & E). exists b'. auto.
Qed.

Lemma proofs_desc : forall l, desc (map b_height l) -> desc (map p_bh (proofs_of l)).
Proof.
  induction l as [|b r IH]; cbn; intros D; auto. destruct D as [D1 D2].
  unfold proofs_of in *. cbn [flat_map]. destruct (proof_of b) as [q|] eqn:Q; cbn; auto. split; auto.
  - intros y Iy. apply in_map_iff in Iy. destruct Iy as (p & <- & Ip).
    destruct (proofs_heights r p Ip) as (b' & I' & E & _). rewrite E.
    replace (p_bh q) with (b_height b).
    + apply D1. apply in_map. auto.
    + unfold proof_of in Q. destruct (b_proof b) as [[sh v]|]; inversion Q. reflexivity.
Qed.

(* ---------------------------------------------------------------- closed forms of the tables *)

Definition e_bmp (be : backend) (b : block) := (k_bmp be (b_height b), (b_height b, b_map b)).

Lemma tab_bmp : forall be l, t_bmp (tab_of be l) = map (e_bmp be) l.
Proof. induction l as [|b r IH]; cbn; auto. rewrite IH. reflexivity. Qed.

Lemma tab_sup : forall be l, t_sup (tab_of be l) = map (fun p => (k_sup be (p_sh p), p)) (proofs_of l).
Proof.
  induction l as [|b r IH]; cbn; auto. rewrite IH. unfold proofs_of. cbn [flat_map]. unfold proof_of.
  destruct (b_proof b) as [[sh v]|]; reflexivity.
Qed.

Lemma tab_sph : forall be l, t_sph (tab_of be l) = map (fun p => (k_sph be (p_bh p), p)) (proofs_of l).
Proof.
  induction l as [|b r IH]; cbn; auto. rewrite IH. unfold proofs_of. cbn [flat_map]. unfold proof_of.
  destruct (b_proof b) as [[sh v]|]; reflexivity.
Qed.

Lemma tab_zbmp : forall l, z_bmp (tab_of Redis l) = map (k_bmp Redis) (map b_height l).
Proof. induction l as [|b r IH]; cbn; auto. rewrite IH. reflexivity. Qed.

Lemma tab_zsph : forall l, z_sph (tab_of Redis l) = map (k_sph Redis) (map p_bh (proofs_of l)).
Proof.
  induction l as [|b r IH]; cbn; auto. rewrite IH. unfold proofs_of. cbn [flat_map]. unfold proof_of.
  destruct (b_proof b) as [[sh v]|]; reflexivity.
Qed.

Lemma tab_pol : forall be l, t_pol (tab_of be l) = first_some b_policy l.
Proof. induction l as [|b r IH]; cbn; auto. rewrite IH. destruct (b_policy b); reflexivity. Qed.

Lemma tab_kno : forall be l, t_kno (tab_of be l) = flat_map b_known l.
Proof. induction l as [|b r IH]; cbn; auto. rewrite IH. reflexivity. Qed.

Lemma tab_iso : forall be l, t_iso (tab_of be l) = flat_map b_instate l.
Proof. induction l as [|b r IH]; cbn; auto. rewrite IH. reflexivity. Qed.

Lemma put_states_app : forall sts t,
  put_states t sts = rev (map (fun s : N * Z * val => let '(k, h, v) := s in (k, (h, v))) sts) ++ t.
Proof.
  unfold put_states. induction sts as [|s r IH]; intros t; cbn; auto.
  rewrite IH. destruct s as [[k h] v]. rewrite <- app_assoc. reflexivity.
Qed.

Lemma assocN_app : forall {A} k (a c : list (N * A)),
  assocN k (a ++ c) = match assocN k a with Some v => Some v | None => assocN k c end.
Proof.
  induction a as [|[k' v] r IH]; intros c; cbn; auto. destruct (N.eqb k k'); auto.
Qed.

Lemma tab_stt : forall be l k,
  option_map snd (assocN k (t_stt (tab_of be l))) = first_some (fun b => option_map snd (assocN k (state_pairs b))) l.
Proof.
  induction l as [|b r IH]; intros k; cbn; auto.
  rewrite put_states_app, assocN_app. fold (state_pairs b).
  destruct (assocN k (state_pairs b)); cbn; auto.
Qed.

(* ---------------------------------------------------------------- closed form of the in-memory part *)

Lemma mem_last : forall l, valid l ->
  m_last (mem_of l) = option_map (fun b => (b_height b, b_map b)) (hd_error l)
  /\ m_proof (mem_of l) = hd_error (proofs_of l)
  /\ m_policy (mem_of l) = first_some b_policy l.
Proof.
  induction l as [|b r IH]; intros V; cbn; auto.
  destruct (IH (valid_tail _ _ V)) as (A & B & C).
  unfold update_last. rewrite A.
  assert (N : match option_map (fun b0 => (b_height b0, b_map b0)) (hd_error r) with
              | Some (h, _) => h <? b_height b | None => true end = true).
  { destruct r as [|b' r']; cbn; auto. apply Z.ltb_lt. destruct V as [D _ _ _]. cbn in D. apply D. auto. }
  rewrite N. cbn. rewrite B, C. split; [reflexivity | split].
  - unfold proofs_of. cbn [flat_map]. unfold proof_of. destruct (b_proof b) as [[sh v]|]; reflexivity.
  - destruct (b_policy b); reflexivity.
Qed.

(* ---------------------------------------------------------------- keys of the two backends on the domain *)

Definition enc_le (enc : Z -> key) : Prop :=
  forall a c, 0 <= a <= max_height -> 0 <= c <= max_height -> lex_le (enc a) (enc c) = (a <=? c).
Definition enc_eq (enc : Z -> key) : Prop :=
  forall a c, -1 <= a < max_height -> 0 <= c < max_height -> key_eqb (enc a) (enc c) = (a =? c).

Lemma app_eqb : forall p a c, key_eqb (p ++ a) (p ++ c) = key_eqb a c.
Proof. induction p as [|x p IH]; intros; cbn; auto. rewrite N.eqb_refl. cbn. apply IH. Qed.

Lemma k_le : forall be, enc_le (k_bmp be) /\ enc_le (k_sup be) /\ enc_le (k_sph be).
Proof.
  intros [|]; repeat split; intros a c Ha Hc; unfold k_bmp, k_sup, k_sph, rkey;
    rewrite ?lex_le_app, ?lex_le_cons; auto using be8_le, dec21_le.
Qed.

Lemma k_eq : forall be, enc_eq (k_bmp be) /\ enc_eq (k_sup be) /\ enc_eq (k_sph be).
Proof.
  assert (M : max_height = 2 ^ 63) by reflexivity.
  intros [|]; repeat split; intros a c Ha Hc; unfold k_bmp, k_sup, k_sph, rkey; rewrite ?app_eqb; cbn [key_eqb];
    rewrite ?N.eqb_refl; cbn [andb]; try (apply be8_eqb; lia); try (apply dec21_eqb; lia).
Qed.

(* ---------------------------------------------------------------- the keyed reads *)

Lemma read_map : forall be l h, valid l -> -1 <= h < max_height ->
  option_map snd (assocp (k_bmp be h) (t_bmp (tab_of be l))) = option_map b_map (find (fun b => h =? b_height b) l).
Proof.
  intros be l h V Hh. rewrite tab_bmp. unfold e_bmp.
  rewrite (assocp_map (k_bmp be) b_height (fun b => (b_height b, b_map b))).
  - destruct (find _ l); reflexivity.
  - intros e I. destruct (k_eq be) as (E & _ & _). apply E; auto. apply (v_range _ V); auto.
Qed.

Lemma read_proof : forall be l sh, valid l -> -1 <= sh < max_height ->
  assocp (k_sup be sh) (t_sup (tab_of be l)) = find (fun p => sh =? p_sh p) (proofs_of l).
Proof.
  intros be l sh V Hh. rewrite tab_sup.
  rewrite (assocp_map (k_sup be) p_sh (fun p => p)).
  - destruct (find _ _); reflexivity.
  - intros e I. destruct (k_eq be) as (_ & E & _). apply E; auto. apply (v_srange _ V); auto.
Qed.

Lemma proofs_bh_range : forall l p, valid l -> In p (proofs_of l) -> 0 <= p_bh p < max_height.
Proof.
  intros l p V I. destruct (proofs_heights l p I) as (b & Ib & E & _). rewrite E. apply (v_range _ V); auto.
Qed.

(* "greatest stored block height not above h" on the suffrage-proofs-by-block-height table *)
Lemma read_proof_by_block : forall be l h, valid l -> -1 <= h < max_height ->
  match be with
  | Leveldb => ldb_last_below (k_sph Leveldb (h + 1)) (t_sph (tab_of Leveldb l))
  | Redis => rds_last (z_sph (tab_of Redis l)) (k_sph Redis 0) (k_sph Redis h) (t_sph (tab_of Redis l))
  end = find (fun p => p_bh p <=? h) (proofs_of l).
Proof.
  intros be l h V Hh.
  assert (R : forall p, In p (proofs_of l) -> 0 <= p_bh p < max_height) by (intros; eapply proofs_bh_range; eauto).
  assert (D : desc (map p_bh (proofs_of l))) by (apply proofs_desc, (v_desc _ V)).
  destruct (k_le be) as (_ & _ & LE). destruct (k_eq be) as (_ & _ & EQ).
  assert (M : 0 < max_height) by (unfold max_height; lia).
  destruct be.
  - unfold ldb_last_below. rewrite tab_sph, map_map. cbn [fst].
    rewrite <- (map_map p_bh (k_sph Leveldb)).
    apply (get_best_spec (k_sph Leveldb) p_bh _ (fun x => x <=? h)); auto.
    + intros e I. unfold lex_lt. rewrite LE by (specialize (R e I); lia).
      destruct (p_bh e <=? h) eqn:C; [apply Z.leb_le in C | apply Z.leb_gt in C].
      * apply negb_true_iff. apply Z.leb_gt. lia.
      * apply negb_false_iff. apply Z.leb_le. lia.
    + intros a c Ia Ic. apply LE; [specialize (R a Ia) | specialize (R c Ic)]; lia.
    + intros a c Ia Ic. apply EQ; [specialize (R a Ia) | specialize (R c Ic)]; lia.
  - unfold rds_last. rewrite tab_sph, tab_zsph.
    apply (get_best_spec (k_sph Redis) p_bh _ (fun x => x <=? h)); auto.
    + intros e I. specialize (R e I). rewrite LE by lia.
      replace (0 <=? p_bh e) with true by (symmetry; apply Z.leb_le; lia). cbn [andb].
      destruct (Z_lt_le_dec h 0) as [N|P].
      * unfold k_sph, rkey. rewrite lex_le_app, lex_le_cons. rewrite dec21_le_neg by lia.
        symmetry. apply Z.leb_gt. lia.
      * apply LE; lia.
    + intros a c Ia Ic. apply LE; [specialize (R a Ia) | specialize (R c Ic)]; lia.
    + intros a c Ia Ic. apply EQ; [specialize (R a Ia) | specialize (R c Ic)]; lia.
Qed.

(* ---------------------------------------------------------------- refinement *)

Definition read_in_domain (r : read) : Prop :=
  match r with
  | RMap h | RProof h | RProofByBlock h => -1 <= h < max_height
  | _ => True
  end.

Lemma hd_find : forall {E} (P : E -> bool) (l : list E) x, hd_error l = Some x -> P x = true -> find P l = Some x.
Proof. intros E P [|y r] x H Px; cbn in *; inversion H; subst. rewrite Px. reflexivity. Qed.

Theorem closed_refines : forall be l r, valid l -> read_in_domain r ->
  do_read be (mkDb (mem_of l) (tab_of be l)) r = spec_read (rev l) r.
Proof.
  intros be l r V Dm. unfold spec_read. rewrite rev_involutive.
  destruct (mem_last l V) as (ML & MP & MPol).
  destruct r; unfold do_read; cbn [d_mem d_tab].
  - rewrite ML. destruct (hd_error l); reflexivity.
  - rewrite MP. destruct (hd_error (proofs_of l)); reflexivity.
  - rewrite MPol. reflexivity.
  - (* RMap *) cbn in Dm. rewrite ML. destruct l as [|lb l']; cbn [hd_error option_map]; auto.
    rewrite read_map by auto. cbn [find]. rewrite (Z.eqb_sym h). destruct (b_height lb =? h) eqn:E.
    + reflexivity.
    + reflexivity.
  - (* RProof *) cbn in Dm. rewrite MP.
    destruct (hd_error (proofs_of l)) as [[[lsh lbh] lv]|] eqn:H.
    + destruct (sh =? lsh) eqn:E.
      * apply Z.eqb_eq in E. subst. rewrite (hd_find _ _ _ H) by (cbn; apply Z.eqb_refl). reflexivity.
      * rewrite read_proof by auto. reflexivity.
    + rewrite read_proof by auto. reflexivity.
  - (* RProofByBlock *) cbn in Dm. rewrite ML, MP. destruct l as [|lb l']; cbn [hd_error option_map]; auto.
    destruct (b_height lb <? h); auto.
    destruct (hd_error (proofs_of (lb :: l'))) as [[[lsh lbh] lv]|] eqn:H.
    + destruct (lbh <=? h) eqn:E.
      * rewrite (hd_find _ _ _ H) by (cbn; auto). reflexivity.
      * pose proof (read_proof_by_block be (lb :: l') h V Dm) as Q. destruct be; rewrite Q; reflexivity.
    + destruct (proofs_of (lb :: l')); [reflexivity | discriminate].
  - (* RState *) rewrite tab_stt. reflexivity.
  - rewrite tab_kno. reflexivity.
  - rewrite tab_iso. reflexivity.
Qed.

Theorem read_refines : forall be chain r, valid (rev chain) -> read_in_domain r ->
  do_read be (run be chain) r = spec_read chain r.
Proof.
  intros be chain r V D. rewrite run_closed. rewrite (closed_refines be (rev chain) r V D), rev_involutive. reflexivity.
Qed.

Theorem backends_agree : forall chain r, valid (rev chain) -> read_in_domain r ->
  do_read Redis (run Redis chain) r = do_read Leveldb (run Leveldb chain) r.
Proof. intros. rewrite !read_refines; auto. Qed.

(* ---------------------------------------------------------------- reopening *)

Lemma load_map_closed : forall be l, valid l ->
  load_last_map be (tab_of be l) = option_map (fun b => (b_height b, b_map b)) (hd_error l).
Proof.
  intros be l V.
  assert (R : forall b, In b l -> 0 <= b_height b < max_height) by apply (v_range _ V).
  destruct (k_le be) as (LE & _ & _). destruct (k_eq be) as (EQ & _ & _).
  assert (G : forall inr, (forall e, In e l -> inr (k_bmp be (b_height e)) = true) ->
     get_bestp inr (map (k_bmp be) (map b_height l)) (map (fun e => (k_bmp be (b_height e), e)) l) = hd_error l).
  { intros inr Hin. rewrite (get_best_spec (k_bmp be) b_height inr (fun _ => true)); auto.
    - destruct l; reflexivity.
    - apply (v_desc _ V).
    - intros a c Ia Ic. apply LE; [specialize (R a Ia) | specialize (R c Ic)]; lia.
    - intros a c Ia Ic. apply EQ; [specialize (R a Ia) | specialize (R c Ic)]; lia. }
  assert (T : forall inr names, names = map (k_bmp be) (map b_height l) ->
     (forall e, In e l -> inr (k_bmp be (b_height e)) = true) ->
     get_bestp inr names (map (e_bmp be) l) = option_map (fun b => (b_height b, b_map b)) (hd_error l)).
  { intros inr names -> Hin. specialize (G inr Hin). unfold get_bestp in *.
    destruct (bestk inr (map (k_bmp be) (map b_height l))) as [k|]; [|destruct l; [reflexivity | discriminate]].
    unfold e_bmp. clear Hin.
    assert (A : forall (l0 : list block), assocp k (map (fun b => (k_bmp be (b_height b), (b_height b, b_map b))) l0)
                = option_map (fun b => (b_height b, b_map b)) (assocp k (map (fun e => (k_bmp be (b_height e), e)) l0))).
    { induction l0 as [|b r IH]; cbn; auto. destruct (key_eqb k (k_bmp be (b_height b))); auto. }
    rewrite A, G. reflexivity. }
  unfold load_last_map. rewrite tab_bmp. destruct be.
  - unfold ldb_last. apply T; auto. rewrite map_map. unfold e_bmp. cbn [fst]. rewrite map_map. reflexivity.
  - unfold rds_last. rewrite tab_zbmp. apply T; auto.
    intros e I. specialize (R e I). unfold max_height in *. rewrite LE by (unfold max_height; lia).
    replace (0 <=? b_height e) with true by (symmetry; apply Z.leb_le; lia). cbn [andb].
    unfold k_bmp, rkey, rend. rewrite lex_le_app, lex_le_cons. apply dec21_le_nines.
    + unfold max_height; lia.
    + vm_compute. lia.
Qed.

Lemma load_proof_closed : forall be l, valid l -> load_last_proof be (tab_of be l) = hd_error (proofs_of l).
Proof.
  intros be l V.
  assert (R : forall p, In p (proofs_of l) -> 0 <= p_bh p < max_height) by (intros; eapply proofs_bh_range; eauto).
  assert (S : forall p, In p (proofs_of l) -> 0 <= p_sh p < max_height) by apply (v_srange _ V).
  destruct (k_le be) as (_ & LE1 & LE2). destruct (k_eq be) as (_ & EQ1 & EQ2).
  unfold load_last_proof. destruct be.
  - unfold ldb_last. rewrite tab_sup, map_map. cbn [fst]. rewrite <- (map_map p_sh (k_sup Leveldb)).
    rewrite (get_best_spec (k_sup Leveldb) p_sh all_keys (fun _ => true)); auto.
    + destruct (proofs_of l); reflexivity.
    + apply (v_sdesc _ V).
    + intros a c Ia Ic. apply LE1; [specialize (S a Ia) | specialize (S c Ic)]; lia.
    + intros a c Ia Ic. apply EQ1; [specialize (S a Ia) | specialize (S c Ic)]; lia.
  - unfold rds_last. rewrite tab_sph, tab_zsph.
    rewrite (get_best_spec (k_sph Redis) p_bh _ (fun _ => true)); auto.
    + destruct (proofs_of l); reflexivity.
    + apply proofs_desc, (v_desc _ V).
    + intros e I. specialize (R e I). unfold max_height in *. rewrite LE2 by (unfold max_height; lia).
      replace (0 <=? p_bh e) with true by (symmetry; apply Z.leb_le; lia). cbn [andb].
      unfold k_sph, rkey, rend. rewrite lex_le_app, lex_le_cons. apply dec21_le_nines.
      * unfold max_height; lia.
      * vm_compute. lia.
    + intros a c Ia Ic. apply LE2; [specialize (R a Ia) | specialize (R c Ic)]; lia.
    + intros a c Ia Ic. apply EQ2; [specialize (R a Ia) | specialize (R c Ic)]; lia.
Qed.

(* closing and reopening either database changes nothing *)
Theorem reopen_id : forall be chain, valid (rev chain) -> reopen be (run be chain) = run be chain.
Proof.
  intros be chain V. rewrite run_closed. unfold reopen. cbn [d_tab d_mem].
  destruct (mem_last _ V) as (A & B & C).
  rewrite load_map_closed, load_proof_closed, tab_pol by auto.
  f_equal. destruct (mem_of (rev chain)) as [ml mp mpol]. cbn in *. subst. reflexivity.
Qed.

(* ---------------------------------------------------------------- statements used by Props *)

Theorem backends_agree_after_reopen : forall merges r, valid (rev merges) -> read_in_domain r ->
  do_read Redis (reopen Redis (run Redis merges)) r = do_read Leveldb (reopen Leveldb (run Leveldb merges)) r.
Proof. intros. rewrite !reopen_id by auto. apply backends_agree; auto. Qed.

Theorem key_encodings_preserve_order : forall a c, 0 <= a <= max_height -> 0 <= c <= max_height ->
  lex_le (be8 a) (be8 c) = (a <=? c) /\ lex_le (dec21 a) (dec21 c) = (a <=? c)
  /\ lex_le (dec21 a) (nines (Z.to_nat redis_end_nines_blockmaps)) = true
  /\ lex_le (dec21 a) (nines (Z.to_nat redis_end_nines_suffrageproofs)) = true.
Proof.
  intros a c Ha Hc. repeat split; auto using be8_le, dec21_le; apply dec21_le_nines; auto; vm_compute; lia.
Qed.

Theorem generated_constants : height_fixed_width = 21 /\ redis_end_nines_blockmaps = 20
  /\ redis_end_nines_suffrageproofs = 20
  /\ NoDup [leveldb_prefix_blockmap; leveldb_prefix_suffrageproof; leveldb_prefix_suffrageproof_by_blockheight;
            leveldb_prefix_state; leveldb_prefix_instate_operation; leveldb_prefix_known_operation]
  /\ NoDup [redis_prefix_blockmap; redis_prefix_suffrageproof; redis_prefix_suffrageproof_by_blockheight;
            redis_prefix_state; redis_prefix_instate_operation; redis_prefix_known_operation]
  /\ redis_zkey_blockmaps <> redis_zkey_suffrageproofs_by_blockheight.
Proof.
  repeat split; try reflexivity; try discriminate;
    repeat (constructor; [cbn; intuition discriminate|]); constructor.
Qed.
