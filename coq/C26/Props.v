(* C26 -- Redis-backed permanent store behaves like the leveldb one.  Property theorems only.

   run be merges        : the database after merging the blocks, in order, into backend be
   reopen be            : close and reopen (all in-memory fields rebuilt by the load* functions)
   do_read be db r      : one isaac.PermanentDatabase read
   spec_read merges r   : the same read answered from the list of merged blocks
   valid (rev merges)   : block heights and suffrage heights are int64 >= 0 and strictly increasing
   read_in_domain r     : a height argument is >= base.NilHeight (-1) and an int64 *)
From Coq Require Import List NArith ZArith Bool Lia.
From MV Require Import Gen.C26 C26.Model C26.Keys C26.Proofs.
Import ListNotations.
Open Scope Z_scope.

(* For any sequence of merged blocks the Redis-backed database answers every read exactly as the
   leveldb-backed one ... *)
Theorem C26_backends_agree : forall merges r, valid (rev merges) -> read_in_domain r ->
  do_read Redis (run Redis merges) r = do_read Leveldb (run Leveldb merges) r.
Proof. exact backends_agree. Qed.

(* ... including after reopening *)
Theorem C26_backends_agree_after_reopen : forall merges r, valid (rev merges) -> read_in_domain r ->
  do_read Redis (reopen Redis (run Redis merges)) r = do_read Leveldb (reopen Leveldb (run Leveldb merges)) r.
Proof. exact backends_agree_after_reopen. Qed.

(* both refine the same specification of a chain *)
Theorem C26_read_refines : forall be merges r, valid (rev merges) -> read_in_domain r ->
  do_read be (run be merges) r = spec_read merges r.
Proof. exact read_refines. Qed.

(* reopening changes nothing at all (every in-memory field is rebuilt to the same value) *)
Theorem C26_reopen_id : forall be merges, valid (rev merges) -> reopen be (run be merges) = run be merges.
Proof. exact reopen_id. Qed.

(* reads that involve no height-keyed lookup agree for every sequence of merges whatsoever *)
Theorem C26_unordered_reads_agree : forall merges r, unordered_read r = true ->
  do_read Redis (run Redis merges) r = do_read Leveldb (run Leveldb merges) r.
Proof. exact unordered_reads_agree. Qed.

(* the two key encodings of a height preserve order: leveldb's 8 big-endian bytes and Redis' "%021d"
   (the width 21 and the closing run of 20 nines are the constants regenerated from the Go source) *)
Theorem C26_key_encodings_preserve_order : forall a c, 0 <= a <= max_height -> 0 <= c <= max_height ->
  lex_le (be8 a) (be8 c) = (a <=? c) /\ lex_le (dec21 a) (dec21 c) = (a <=? c)
  /\ lex_le (dec21 a) (nines (Z.to_nat redis_end_nines_blockmaps)) = true
  /\ lex_le (dec21 a) (nines (Z.to_nat redis_end_nines_suffrageproofs)) = true.
Proof. exact key_encodings_preserve_order. Qed.

Theorem C26_generated_constants : height_fixed_width = 21 /\ redis_end_nines_blockmaps = 20
  /\ redis_end_nines_suffrageproofs = 20
  /\ NoDup [leveldb_prefix_blockmap; leveldb_prefix_suffrageproof; leveldb_prefix_suffrageproof_by_blockheight;
            leveldb_prefix_state; leveldb_prefix_instate_operation; leveldb_prefix_known_operation]
  /\ NoDup [redis_prefix_blockmap; redis_prefix_suffrageproof; redis_prefix_suffrageproof_by_blockheight;
            redis_prefix_state; redis_prefix_instate_operation; redis_prefix_known_operation]
  /\ redis_zkey_blockmaps <> redis_zkey_suffrageproofs_by_blockheight.
Proof. exact generated_constants. Qed.

(* non-vacuity: a chain crossing heights 9 -> 10 -> 11 with two suffrage proofs is valid, and the read
   "suffrage proof for block height 9" is answered with the proof of block 8 by both *)
Definition ex_chain : list block :=
  [mkBlock 8 1%N [(1%N, 8, 2%N)] [3%N] [4%N] (Some (0, 5%N)) None;
   mkBlock 9 6%N [] [] [] None (Some 7%N);
   mkBlock 10 8%N [(1%N, 10, 9%N)] [] [] (Some (1, 10%N)) None;
   mkBlock 11 11%N [] [] [] None None].

Example C26_example_valid : valid (rev ex_chain).
Proof.
  constructor; cbn.
  - repeat split; intros y H; cbn in H; intuition lia.
  - intros b H. unfold max_height. intuition (subst; cbn; lia).
  - repeat split; intros y H; cbn in H; intuition lia.
  - intros p H. unfold max_height. intuition (subst; cbn; lia).
Qed.

Example C26_example_read :
  do_read Redis (reopen Redis (run Redis ex_chain)) (RProofByBlock 9) = AVal 5%N
  /\ do_read Leveldb (reopen Leveldb (run Leveldb ex_chain)) (RProofByBlock 9) = AVal 5%N
  /\ spec_read ex_chain (RProofByBlock 9) = AVal 5%N.
Proof. vm_compute. repeat split; reflexivity. Qed.
