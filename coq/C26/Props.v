(* C26 -- Redis-backed permanent store behaves like the leveldb one.  Property theorems only. *)
From Coq Require Import List NArith ZArith Bool.
From MV Require Import Gen.C26 C26.Model C26.Proofs.
Import ListNotations.
Open Scope Z_scope.

(* reads that involve no height-keyed lookup agree for every sequence of merges whatsoever *)
Theorem C26_unordered_reads_agree : forall chain r, unordered_read r = true ->
  do_read Redis (run Redis chain) r = do_read Leveldb (run Leveldb chain) r.
Proof. exact unordered_reads_agree. Qed.
