(* C27 -- lemmas about the generic key<->field codec model. *)
From Coq Require Import String List Bool NArith Ascii Lia.
From MV Require Import Common.Cases Gen.Codecs C27.Model.
Import ListNotations.
Open Scope string_scope.
Open Scope list_scope.

Lemma mem_In : forall k l, mem k l = true <-> In k l.
Proof.
  induction l as [|x r IH]; cbn; split; intro H; try discriminate; try contradiction.
  - apply orb_true_iff in H. destruct H as [H|H].
    + apply String.eqb_eq in H. left; congruence.
    + right; apply IH; exact H.
  - apply orb_true_iff. destruct H as [H|H].
    + left. subst. apply String.eqb_refl.
    + right; apply IH; exact H.
Qed.

Lemma mem_false_notIn : forall k l, mem k l = false -> ~ In k l.
Proof. intros k l H Hin. apply mem_In in Hin. congruence. Qed.

Lemma nodupb_NoDup : forall l, nodupb l = true -> NoDup l.
Proof.
  induction l as [|x r IH]; cbn; intro H; [constructor|].
  apply andb_true_iff in H. destruct H as [H1 H2]. constructor.
  - apply mem_false_notIn. now apply negb_true_iff in H1.
  - now apply IH.
Qed.

(* ---------------- encode *)

Definition emit (x : store) (e : string * string * bool) : store :=
  let v := get (m_field e) x in if m_omit e && is_nil v then [] else [(m_key e, v)].

Lemma encode_emit : forall d x, encode d x = flat_map (emit x) (d_marshal d).
Proof. reflexivity. Qed.

Lemma get_app : forall k a b, get k (a ++ b) = match a with [] => get k b | _ => if mem k (map fst a) then get k a else get k b end.
Proof.
  intros k a. induction a as [|[k' v] r IH]; intro b; [reflexivity|].
  cbn. destruct (String.eqb k k') eqn:E; [reflexivity|].
  cbn. rewrite IH. destruct r; reflexivity.
Qed.

Lemma get_absent : forall k s, mem k (map fst s) = false -> get k s = [].
Proof.
  induction s as [|[k' v] r IH]; cbn; intro H; [reflexivity|].
  apply orb_false_iff in H. destruct H as [H1 H2]. rewrite H1. now apply IH.
Qed.

Lemma emitted_keys : forall x l k, In k (map fst (flat_map (emit x) l)) -> In k (map m_key l).
Proof.
  induction l as [|e r IH]; cbn; intros k H; [exact H|].
  rewrite map_app in H. apply in_app_or in H. destruct H as [H|H].
  - unfold emit in H. destruct (m_omit e && is_nil (get (m_field e) x)); cbn in H; [contradiction|].
    destruct H as [H|[]]. left. exact H.
  - right. now apply IH.
Qed.

Lemma get_encode_entry : forall x l e,
  NoDup (map m_key l) -> In e l -> get (m_key e) (flat_map (emit x) l) = get (m_field e) x.
Proof.
  induction l as [|e0 r IH]; intros e Hnd Hin; [contradiction|].
  cbn in Hnd. inversion Hnd as [|? ? Hnotin Hnd']; subst.
  cbn [flat_map]. destruct Hin as [->|Hin].
  - unfold emit at 1. destruct (m_omit e && is_nil (get (m_field e) x)) eqn:E.
    + cbn [app]. apply andb_true_iff in E. destruct E as [_ E].
      rewrite get_absent.
      * destruct (get (m_field e) x); [reflexivity|discriminate].
      * destruct (mem (m_key e) (map fst (flat_map (emit x) r))) eqn:M; [|reflexivity].
        apply mem_In in M. apply emitted_keys in M. contradiction.
    + cbn. now rewrite String.eqb_refl.
  - assert (Hne : m_key e <> m_key e0).
    { intro Heq. apply Hnotin. rewrite <- Heq. now apply in_map. }
    unfold emit at 1. destruct (m_omit e0 && is_nil (get (m_field e0) x)).
    + cbn [app]. now apply IH.
    + cbn. destruct (String.eqb (m_key e) (m_key e0)) eqn:E.
      * apply String.eqb_eq in E. contradiction.
      * now apply IH.
Qed.

(* ---------------- decode *)

Lemma get_decode_in : forall l f j rest,
  get f (map (fun e : string * string => (snd e, get (fst e) j)) l ++ rest) =
  match target_key_in l f with Some k => get k j | None => get f rest end.
Proof.
  induction l as [|[k f'] r IH]; intros f j rest; [reflexivity|].
  cbn. destruct (String.eqb f f'); [reflexivity|]. apply IH.
Qed.

Lemma get_decode : forall d f j,
  get f (decode d j) = match target_key d f with Some k => get k j | None => [] end.
Proof.
  intros d f j. unfold decode, target_key. rewrite get_decode_in.
  destruct (target_key_in (d_decode d) f); [reflexivity|].
  destruct (d_hinted d); cbn; [|reflexivity].
  destruct (String.eqb f hint_field); reflexivity.
Qed.

(* ---------------- round trip *)

Lemma desc_ok_parts : forall d, desc_ok d = true ->
  NoDup (marshal_keys d) /\
  forall e, In e (d_marshal d) -> target_key d (m_field e) = Some (m_key e).
Proof.
  intros d H. unfold desc_ok in H. apply andb_true_iff in H. destruct H as [H1 H2]. split.
  - now apply nodupb_NoDup.
  - intros e Hin. rewrite forallb_forall in H2. specialize (H2 e Hin).
    destruct (target_key d (m_field e)); cbn in H2; [|discriminate].
    apply String.eqb_eq in H2. now subst.
Qed.

Theorem roundtrip_field : forall d, desc_ok d = true ->
  forall x f, In f (fields d) -> get f (decode d (encode d x)) = get f x.
Proof.
  intros d Hok x f Hf. destruct (desc_ok_parts d Hok) as [Hnd Htk].
  unfold fields in Hf. apply in_map_iff in Hf. destruct Hf as [e [<- Hin]].
  rewrite get_decode, (Htk e Hin), encode_emit.
  now apply get_encode_entry.
Qed.

Lemma encode_ext : forall d x y, (forall f, In f (fields d) -> get f x = get f y) -> encode d x = encode d y.
Proof.
  intros d x y H. unfold encode, fields in *.
  induction (d_marshal d) as [|e r IH]; [reflexivity|].
  cbn. rewrite (H (m_field e)) by (left; reflexivity).
  f_equal. apply IH. intros f Hf. apply H. right. exact Hf.
Qed.

Theorem reencode_same : forall d, desc_ok d = true ->
  forall x, encode d (decode d (encode d x)) = encode d x.
Proof. intros d Hok x. apply encode_ext. intros f Hf. now apply roundtrip_field. Qed.

Lemma hash_input_ext : forall d x y, (forall f, In f (d_hash d) -> get f x = get f y) -> hash_input d x = hash_input d y.
Proof.
  intros d x y H. unfold hash_input. f_equal. apply map_ext_in. exact H.
Qed.

Theorem hash_preserved : forall d, desc_ok d = true -> hash_ok d = true ->
  forall x, hash_input d (decode d (encode d x)) = hash_input d x.
Proof.
  intros d Hok Hh x. apply hash_input_ext. intros f Hf. apply roundtrip_field; [exact Hok|].
  unfold hash_ok, subset in Hh. rewrite forallb_forall in Hh. apply mem_In. now apply Hh.
Qed.

(* desc_ok is also necessary: a marshaled (non-omitempty) field without a target key is lost *)
Theorem roundtrip_needs_target : forall d e, In e (d_marshal d) -> target_key d (m_field e) = None ->
  exists x, get (m_field e) (decode d (encode d x)) <> get (m_field e) x.
Proof.
  intros d e Hin Hnone. exists [(m_field e, [1%N])].
  rewrite get_decode, Hnone. cbn. rewrite String.eqb_refl. discriminate.
Qed.

(* hint dispatch *)
Lemma find_desc_sound : forall h l d, find_desc h l = Some d -> In d l /\ d_hint d = h.
Proof.
  induction l as [|d0 r IH]; cbn; intros d H; [discriminate|].
  destruct (String.eqb h (d_hint d0)) eqn:E.
  - inversion H; subst. split; [now left|]. apply String.eqb_eq in E. now symmetry.
  - destruct (IH d H) as [H1 H2]. split; [now right|exact H2].
Qed.

Lemma find_desc_complete : forall l d, NoDup (map d_hint l) -> In d l -> find_desc (d_hint d) l = Some d.
Proof.
  induction l as [|d0 r IH]; intros d Hnd Hin; [contradiction|].
  cbn in Hnd. inversion Hnd as [|? ? Hnotin Hnd']; subst. cbn.
  destruct Hin as [->|Hin]; [now rewrite String.eqb_refl|].
  destruct (String.eqb (d_hint d) (d_hint d0)) eqn:E.
  - apply String.eqb_eq in E. exfalso. apply Hnotin. rewrite <- E. now apply in_map.
  - now apply IH.
Qed.

(* ---------------- instances over the generated tables *)

Lemma all_checked_ok : forallb desc_ok checked_descs = true.
Proof. vm_compute. reflexivity. Qed.

Lemma hints_nodup : nodupb (map d_hint descs) = true.
Proof. vm_compute. reflexivity. Qed.
