(* C27 -- Encoded objects decode to the same object.  Property theorems only.
   The codec tables (MV.Gen.Codecs.codecs) are regenerated from the Go source on every run; the instance
   theorems below are re-checked by the kernel whenever a MarshalJSON / DecodeJSON / hash function changes. *)
From Coq Require Import String List Bool NArith Permutation.
From MV Require Import Gen.Codecs C27.Model C27.Proofs.
Import ListNotations.
Open Scope string_scope.

(* Generic: for every codec table in which each marshaled field is read back from the key it was written
   under (desc_ok), decoding an encoded object restores every field, for every object. *)
Theorem C27_roundtrip : forall d, desc_ok d = true ->
  forall x f, In f (fields d) -> get f (decode d (encode d x)) = get f x.
Proof. exact roundtrip_field. Qed.

(* ... and re-encoding the decoded object gives the same encoding *)
Theorem C27_reencode : forall d, desc_ok d = true ->
  forall x, encode d (decode d (encode d x)) = encode d x.
Proof. exact reencode_same. Qed.

(* ... and the bytes fed to the hash are the same (so is the hash, for every hash function) *)
Theorem C27_hash_preserved : forall d, desc_ok d = true -> hash_ok d = true ->
  forall (H : list N -> list N) x, H (hash_input d (decode d (encode d x))) = H (hash_input d x).
Proof. intros d Hok Hh H x. f_equal. now apply hash_preserved. Qed.

(* desc_ok is not stronger than needed: a marshaled field that no key is decoded into is lost *)
Theorem C27_roundtrip_needs_target : forall d e, In e (d_marshal d) -> target_key d (m_field e) = None ->
  exists x, get (m_field e) (decode d (encode d x)) <> get (m_field e) x.
Proof. exact roundtrip_needs_target. Qed.

(* Instance: every JSON-object type registered in launch/hinters.go (93 of 97: all but the member below and
   the three string-encoded ones) has such a table. *)
Theorem C27_all_descriptors_ok : forall d, In d checked_descs -> desc_ok d = true.
Proof. apply forallb_forall. exact all_checked_ok. Qed.

(* the registered types not covered by the table argument are exactly the hinted *strings* (keys, address);
   they are covered by the dynamic round trip only *)
Theorem C27_string_encoded_exactly : string_encoded = ["mpr-v0.0.1"; "mpu-v0.0.1"; "sas-v2.0.0"].
Proof. vm_compute. reflexivity. Qed.

(* hint dispatch (Encoder.Decode): hints are pairwise distinct, so the "_hint" of an encoded object selects
   the decoder of its own type *)
Theorem C27_dispatch : forall d, In d descs -> find_desc (d_hint d) descs = Some d.
Proof. intros d Hin. apply find_desc_complete; [|exact Hin]. apply nodupb_NoDup. exact hints_nodup. Qed.

(* hash inputs traced to marshaled fields for every type but these (their inputs are re-derived after
   decoding: voteproof majority / sign facts, ballot voteproof, embedded node, block map items); for these
   the hash comparison is made on the real code only *)
Theorem C27_hash_untraced_exactly : hash_untraced =
  ["accept-ballot-v0.0.1"; "accept-voteproof-v0.0.1"; "accept-expel-voteproof-v0.0.1";
   "accept-stuck-voteproof-v0.0.1"; "init-ballot-v0.0.1"; "init-voteproof-v0.0.1";
   "init-expel-voteproof-v0.0.1"; "init-stuck-voteproof-v0.0.1"; "suffrage-node-state-value-v0.0.1";
   "blockmap-v0.0.1"].
Proof. vm_compute. reflexivity. Qed.

(* Known finding (class member-json-roundtrip): quicmemberlist.BaseMember writes "meta" from the field metab
   and reads it into the field meta; metab is never restored, so the round trip fails. *)
Theorem C27_member_roundtrip_refuted : exists d, find_desc "memberlist-member-v0.0.1" descs = Some d /\
  desc_ok d = false /\
  exists x, get "metab" (decode d (encode d x)) <> get "metab" x.
Proof.
  eexists. split; [vm_compute; reflexivity|]. split; [vm_compute; reflexivity|].
  exists [("metab", [1%N])]. vm_compute. discriminate.
Qed.

(* non-vacuity: a concrete table and object *)
Example C27_example :
  exists d, find_desc "init-ballot-fact-v0.0.1" descs = Some d /\ desc_ok d = true /\ hash_ok d = true /\
  encode d [("point", [7%N]); ("proposal", [9%N])] =
    [("previous_block", []); ("proposal", [9%N]); ("point", [7%N]); ("hash", []); ("token", []); ("_hint", [])].
Proof. eexists. split; [vm_compute; reflexivity|]. repeat split; vm_compute; reflexivity. Qed.

(* Known finding (class reencode-map-key-order): the bytes of a map-valued member depend on the iteration
   order, not only on the object: two orders of the same keys render the same map differently.  (For
   struct-shaped encodings the order is the table order and C27_reencode applies.) *)
Theorem C27_map_member_order_refuted : exists (m : store) (o1 o2 : list string),
  Permutation.Permutation o1 o2 /\ render o1 m <> render o2 m.
Proof.
  exists [("proposal", [1%N]); ("voteproofs", [2%N])], ["proposal"; "voteproofs"], ["voteproofs"; "proposal"].
  split; [apply Permutation.perm_swap|]. vm_compute. discriminate.
Qed.

(* No key that is decoded through a presence-tracking decoder (missing => non-zero default, e.g. HeightDecoder:
   NilHeight) is written with omitempty: a zero value (genesis height) is always present in the encoding.
   (Regenerated from the struct tags on every run; the point, manifest, state, suffrage tables are covered.) *)
Theorem C27_no_omitempty_on_sentinel_decoded : omit_on_sentinel = [].
Proof. vm_compute. reflexivity. Qed.

Example C27_sentinel_fields_nonvacuous :
  sentinel_key_listed "base.pointJSONMarshaler" "height" = true /\
  sentinel_key_listed "isaac.ManifestJSONMarshaler" "height" = true /\
  sentinel_key_listed "base.baseStateJSONMarshaler" "height" = true.
Proof. vm_compute. repeat split; reflexivity. Qed.
