(* C27 -- Encoded objects decode to the same object.
   Executable model of the per-type JSON codecs at the level of (json key <-> receiver field) tables.
   The tables themselves are NOT written here: they are MV.Gen.Codecs.codecs, regenerated from the Go
   source (launch/hinters.go, the ...JSONMarshaler / ...JSONUnmarshaler structs, MarshalJSON / DecodeJSON
   bodies, hash functions, IsValid) by harness/cmd/translate_codecs on every check run.

   Transcribes, generically:
     util/encoder/json/encoder.go  Encoder.Decode   : "_hint" -> registered decoder (find_desc)
     encoder.AnalyzeSetHinter                       : BaseHinter set from "_hint" after DecodeJSON
     <T>.MarshalJSON                                : emit (key, value of source field), omitempty
     <T>.DecodeJSON / UnmarshalJSON                 : store the value found under key into target field
   Values are opaque byte strings ([] = the zero value / absent).  No proofs in this file. *)
From Coq Require Import String List Bool NArith Ascii.
From MV Require Import Common.Cases Gen.Codecs.
Import ListNotations.
Open Scope string_scope.

Definition value := list N.
Definition store := list (string * value).      (* json object: key -> value ; Go object: field -> value *)

Fixpoint get (k : string) (s : store) : value :=
  match s with
  | [] => []
  | (k', v) :: r => if String.eqb k k' then v else get k r
  end.

Definition is_nil (v : value) : bool := match v with [] => true | _ => false end.

Fixpoint mem (k : string) (l : list string) : bool :=
  match l with [] => false | x :: r => String.eqb k x || mem k r end.

Fixpoint nodupb (l : list string) : bool :=
  match l with [] => true | x :: r => negb (mem x r) && nodupb r end.

Definition subset (a b : list string) : bool := forallb (fun x => mem x b) a.

Record desc := mkDesc {
  d_hint : string;
  d_type : string;
  d_marshal : list (string * string * bool);   (* json key, source field, omitempty *)
  d_decode : list (string * string);           (* json key, target field *)
  d_hinted : bool;
  d_isfact : bool;
  d_hashfn : string;
  d_hash : list string;                        (* fields fed to the hash, in order *)
  d_hashtypes : list string;                   (* their Go types *)
  d_recompute : bool
}.

Definition hint_key := "_hint".
Definition hint_field := "BaseHinter".

Definition m_key (e : string * string * bool) : string := fst (fst e).
Definition m_field (e : string * string * bool) : string := snd (fst e).
Definition m_omit (e : string * string * bool) : bool := snd e.

Definition marshal_keys (d : desc) : list string := map m_key (d_marshal d).
Definition fields (d : desc) : list string := map m_field (d_marshal d).
Definition decode_keys (d : desc) : list string := map fst (d_decode d).
Definition required_keys (d : desc) : list string :=
  map m_key (filter (fun e => negb (m_omit e)) (d_marshal d)).

(* MarshalJSON *)
Definition encode (d : desc) (x : store) : store :=
  flat_map (fun e => let v := get (m_field e) x in
                     if m_omit e && is_nil v then [] else [(m_key e, v)]) (d_marshal d).

(* DecodeJSON followed by the encoder's SetHint *)
Definition decode (d : desc) (j : store) : store :=
  (map (fun e => (snd e, get (fst e) j)) (d_decode d)
   ++ (if d_hinted d then [(hint_field, get hint_key j)] else []))%list.

(* key a field is loaded from: first decode entry with that target; BaseHinter from "_hint" *)
Fixpoint target_key_in (l : list (string * string)) (f : string) : option string :=
  match l with
  | [] => None
  | (k, f') :: r => if String.eqb f f' then Some k else target_key_in r f
  end.

Definition target_key (d : desc) (f : string) : option string :=
  match target_key_in (d_decode d) f with
  | Some k => Some k
  | None => if d_hinted d && String.eqb f hint_field then Some hint_key else None
  end.

Definition opt_str_eqb (a b : option string) : bool :=
  match a, b with Some x, Some y => String.eqb x y | None, None => true | _, _ => false end.

(* the table is a bijection key <-> field on what is marshaled, and every marshaled field is loaded back
   from the key it was written under *)
Definition desc_ok (d : desc) : bool :=
  nodupb (marshal_keys d) &&
  forallb (fun e => opt_str_eqb (target_key d (m_field e)) (Some (m_key e))) (d_marshal d).

(* hash of an object: H over the raw concatenation of the hash input fields (util.ConcatByters) *)
Definition hash_input (d : desc) (x : store) : list N := concat (map (fun f => get f x) (d_hash d)).

Definition hash_ok (d : desc) : bool := subset (d_hash d) (fields d).

(* ------------------------------------------------------------------ from the generated tables *)

Definition unknown (f : string) : bool := String.eqb f "?" || String.eqb f "*" || String.eqb f "".

Fixpoint decode_field_of (l : list (string * string)) (k : string) : string :=
  match l with [] => "?" | (k', f) :: r => if String.eqb k k' then f else decode_field_of r k end.

Fixpoint marshal_field_of (l : list (string * string * bool)) (k : string) : string :=
  match l with [] => "?" | e :: r => if String.eqb k (m_key e) then m_field e else marshal_field_of r k end.

(* A key whose source or target field the translator could not resolve ("?" / "*": built from several
   fields, nested documents, helper functions) is tracked at key level only: both sides get the
   pseudo-field "key:<k>".  "_hint" is always the BaseHinter. *)
Definition pseudo (k : string) : string := "key:" ++ k.

Definition norm_field (c : codec) (k : string) : string :=
  if String.eqb k hint_key then hint_field
  else
    let mf := marshal_field_of (c_marshal c) k in
    let df := decode_field_of (c_decode c) k in
    if unknown mf || unknown df then pseudo k else mf.

Definition norm_marshal (c : codec) : list (string * string * bool) :=
  map (fun e => (m_key e, norm_field c (m_key e), m_omit e)) (c_marshal c).

Definition norm_decode (c : codec) : list (string * string) :=
  map (fun e =>
         let k := fst e in
         if String.eqb k hint_key then (k, hint_field)
         else
           let mf := marshal_field_of (c_marshal c) k in
           if unknown mf || unknown (snd e) then (k, pseudo k) else (k, snd e)) (c_decode c).

(* hash input fields: a field that is marshaled under an unresolved key keeps its own name *)
Definition of_codec (c : codec) : desc :=
  mkDesc (c_hint c) (c_type c) (norm_marshal c) (norm_decode c) (c_hinted c) (c_isfact c)
         (c_hashfn c) (map fst (c_hash c)) (map snd (c_hash c)) (c_recompute c).

Definition descs : list desc := map of_codec codecs.

(* types encoded as JSON objects by a MarshalJSON/DecodeJSON pair the translator could read; the rest
   (keys and addresses: hinted strings) are covered by the dynamic round trip only *)
Definition is_object (c : codec) : bool := c_marshal_ok c && c_decode_ok c.
Definition object_descs : list desc := map of_codec (filter is_object codecs).
Definition string_encoded : list string := map c_hint (filter (fun c => negb (is_object c)) codecs).

Fixpoint find_desc (h : string) (l : list desc) : option desc :=
  match l with [] => None | d :: r => if String.eqb h (d_hint d) then Some d else find_desc h r end.

(* known finding (C27): the memberlist member is written from one field (metab) and read into another
   (meta), so the decoded object re-encodes differently *)
Definition roundtrip_findings : list string := ["memberlist-member-v0.0.1"].

Definition checked_descs : list desc :=
  filter (fun d => negb (mem (d_hint d) roundtrip_findings)) object_descs.

(* types whose hash inputs cannot all be traced to a marshaled field by the translator (the field is
   written through a local / re-derived after decoding): hash preservation for them is checked on the
   real code only *)
Definition hash_untraced : list string :=
  map d_hint (filter (fun d => negb (hash_ok d)) checked_descs).

(* ------------------------------------------------------------------ correspondence with the real JSON *)

(* one case: hint, keys present in the encoded object, keys whose removal changed the decoded object
   (or made decoding fail), keys holding a non-zero value *)
Definition case := (string * list string * list string * list string)%type.

Definition inter (a b : list string) : list string := filter (fun x => mem x b) a.

Definition check (c : case) : bool :=
  let '(h, present, consumed, nonzero) := c in
  match find_desc h object_descs with
  | None => mem h string_encoded && match present with [] => true | _ => false end
  | Some d =>
      subset present (marshal_keys d) &&
      subset (required_keys d) present &&
      subset consumed (hint_key :: decode_keys d) &&
      subset (filter (fun k => negb (String.eqb k hint_key)) (inter nonzero (decode_keys d))) consumed
  end.

(* ------------------------------------------------------------------ map-valued members
   BlockMap and BlockItemFiles hand a Go map (items) to the JSON library; neither backend (sonic, jsoniter)
   sorts map keys, so the member order of the "items" object is the map iteration order.  render lists the
   members of a store in a given key order. *)
Definition render (order : list string) (m : store) : list (string * value) :=
  map (fun k => (k, get k m)) order.

(* ------------------------------------------------------------------ omitempty vs. presence-tracking decoders
   Gen.Codecs.sentinel_fields: every marshaled key that is read back through a decoder recording whether the key
   was present (base.HeightDecoder: missing -> NilHeight = -1, not 0).  Such a key must always be written:
   with omitempty a zero value (genesis height 0) would come back as the non-zero default. *)
Definition sf_omit (e : string * string * bool * string) : bool := snd (fst e).
Definition omit_on_sentinel : list (string * string * bool * string) := filter sf_omit sentinel_fields.
Definition sentinel_key_listed (st k : string) : bool :=
  existsb (fun e => String.eqb (fst (fst (fst e))) st && String.eqb (snd (fst (fst e))) k) sentinel_fields.
