(* C12 -- completeness: the proof extracted for a key of a valid tree verifies (every size, every index). *)
From Coq Require Import List NArith ZArith Arith Bool Lia.
From MV Require Import Common.Cases Gen.C12 C12.Model C12.Proofs C12.Proofs2.
Import ListNotations.
Open Scope list_scope.

Lemma try_two : forall H lvl0 key lh rh a b,
  try_cands H lvl0 key lh rh [a; b] =
  match cand H lvl0 key lh rh a with
  | CPass => CPass
  | CErr => CErr
  | CNo => match cand H lvl0 key lh rh b with CPass => CPass | CErr => CErr | CNo => CNo end
  end.
Proof. reflexivity. Qed.

Lemma try_one : forall H lvl0 key lh rh a,
  try_cands H lvl0 key lh rh [a] =
  match cand H lvl0 key lh rh a with CPass => CPass | CErr => CErr | CNo => CNo end.
Proof. reflexivity. Qed.

Section Complete.
Variable H : bytes -> bytes.
Hypothesis Hlen : forall x, length (H x) = 32.
Variable t : list node.
Hypothesis V : is_valid H t = true.
Variable key : bytes.
Variable index : nat.

(* z is what ExtractProofMaterial puts for tree position c: the node, or an empty node past the end *)
Definition slot (c : nat) (z : node) : Prop :=
  match nth_error t c with Some w => z = w | None => z = empty_node end.

Lemma slot_hash : forall c z, slot c z -> nhash z = child_hash t c.
Proof. intros c z S. unfold slot in S. unfold child_hash. destruct (nth_error t c); subst; reflexivity. Qed.

Lemma pair_at_spec : forall l, l = index \/ 2 * l + 1 <= index -> index < length t ->
  exists x y, pair_at t index l = Some [x; y] /\ slot (2 * l + 1) x /\ slot (2 * l + 2) y.
Proof.
  intros l A Li. unfold pair_at, children, slot.
  destruct (2 * l + 1 <? length t) eqn:C.
  - apply Nat.ltb_lt in C. destruct (nth_error t (2 * l + 1)) as [ca|] eqn:Ea; [|apply nth_error_None in Ea; lia].
    exists ca. destruct (nth_error t (2 * l + 2)) as [cb|] eqn:Eb.
    + exists cb. auto.
    + exists empty_node. auto.
  - apply Nat.ltb_ge in C. assert (l = index) by lia. subst l. rewrite Nat.eqb_refl.
    exists empty_node, empty_node.
    assert (E1 : nth_error t (2 * index + 1) = None) by (apply nth_error_None; lia).
    assert (E2 : nth_error t (2 * index + 2) = None) by (apply nth_error_None; lia).
    rewrite E1, E2. auto.
Qed.

(* a valid tree node passes as candidate parent of its own children hashes *)
Lemma cand_tree_node : forall lvl0 l n, nth_error t l = Some n -> (lvl0 = true -> nkey n = key) ->
  cand H lvl0 key (child_hash t (2 * l + 1)) (child_hash t (2 * l + 2)) n = CPass.
Proof.
  intros lvl0 l n E K. destruct (valid_node_facts H Hlen t l n V E) as [A1 [A2 [A3 _]]].
  rewrite node_input_eq in A3. unfold cand, node_hash. rewrite A1.
  assert (K2 : lvl0 && negb (key_is key n) = false).
  { destruct lvl0; auto. simpl. unfold key_is. rewrite (K eq_refl). rewrite bytes_eqb_refl. reflexivity. }
  rewrite K2. apply is_nil_false in A2. rewrite A2. rewrite <- A3. rewrite bytes_eqb_refl. reflexivity.
Qed.

Lemma cand_no_err : forall lvl0 lh rh c u, slot c u -> cand H lvl0 key lh rh u <> CErr.
Proof.
  intros lvl0 lh rh c u S. unfold slot in S. unfold cand, node_hash.
  destruct (nth_error t c) as [w|] eqn:E; subst u.
  - destruct (valid_node_facts H Hlen t c w V E) as [A1 [A2 _]]. rewrite A1.
    destruct (lvl0 && negb (key_is key w)); try discriminate.
    apply is_nil_false in A2. rewrite A2.
    destruct (bytes_eqb (nhash w) (H (nkey w ++ lh ++ rh))); discriminate.
  - simpl. discriminate.
Qed.

Definition shape (l : nat) (rest : list node) : Prop :=
  match l with
  | O => exists r, nth_error t 0 = Some r /\ rest = [r]
  | S l' => exists u v rest', rest = u :: v :: rest' /\ rest' <> [] /\
              slot (2 * (l' / 2) + 1) u /\ slot (2 * (l' / 2) + 2) v
  end.

Lemma ext_loop_root : forall fuel tt idx,
  ext_loop fuel tt idx 0 =
  match pair_at tt idx 0 with
  | None => None
  | Some pr => match nth_error tt 0 with Some r => Some (pr ++ [r]) | None => None end
  end.
Proof. intros. destruct fuel; reflexivity. Qed.

Lemma ext_loop_step : forall f tt idx l',
  ext_loop (S f) tt idx (S l') =
  match pair_at tt idx (S l') with
  | None => None
  | Some pr => match ext_loop f tt idx (l' / 2) with None => None | Some rest => Some (pr ++ rest) end
  end.
Proof. reflexivity. Qed.

Lemma ext_ok : forall fuel l lvl0 n, l <= fuel -> index < length t ->
  l = index \/ 2 * l + 1 <= index ->
  nth_error t l = Some n -> (lvl0 = true -> nkey n = key) ->
  exists x y rest, ext_loop fuel t index l = Some (x :: y :: rest) /\
    slot (2 * l + 1) x /\ slot (2 * l + 2) y /\
    levels H lvl0 key (nhash x) (nhash y) rest = true /\ shape l rest /\
    Nat.odd (length rest) = true /\ last rest empty_node = nth 0 t empty_node.
Proof.
  induction fuel as [|f IH]; intros l lvl0 n Lf Li A E K.
  - assert (l = 0) by lia. subst l.
    destruct (pair_at_spec 0 A Li) as [x [y [P [Sx Sy]]]].
    exists x, y, [n]. rewrite ext_loop_root, P, E.
    split; [reflexivity|]. split; [exact Sx|]. split; [exact Sy|]. split; [|split; [|split]]; auto.
    + rewrite (slot_hash _ _ Sx), (slot_hash _ _ Sy).
      pose proof (cand_tree_node lvl0 0 n E K) as C. rewrite levels_one, try_one, C. reflexivity.
    + exists n. auto.
    + destruct t; simpl in *; congruence.
  - destruct (pair_at_spec l A Li) as [x [y [P [Sx Sy]]]].
    destruct l as [|l'].
    + exists x, y, [n]. rewrite ext_loop_root, P, E.
      split; [reflexivity|]. split; [exact Sx|]. split; [exact Sy|]. split; [|split; [|split]]; auto.
      * rewrite (slot_hash _ _ Sx), (slot_hash _ _ Sy).
        pose proof (cand_tree_node lvl0 0 n E K) as C. rewrite levels_one, try_one, C. reflexivity.
      * exists n. auto.
      * destruct t; simpl in *; congruence.
    + set (p := l' / 2).
      assert (Pl : S l' = 2 * p + 1 \/ S l' = 2 * p + 2).
      { unfold p. pose proof (Nat.div_mod l' 2). pose proof (Nat.mod_upper_bound l' 2). lia. }
      assert (Ll : S l' < length t) by (apply nth_error_Some; congruence).
      destruct (nth_error t p) as [np|] eqn:Ep; [|apply nth_error_None in Ep; lia].
      assert (Ap : p = index \/ 2 * p + 1 <= index) by lia.
      assert (Lp : p <= f) by lia.
      assert (Kp : false = true -> nkey np = key) by discriminate.
      destruct (IH p false np Lp Li Ap Ep Kp) as [u [v [rest' [X [Su [Sv [Lv [Sh [Od La]]]]]]]]].
      exists x, y, (u :: v :: rest').
      assert (NE : rest' <> []). { intro; subst; simpl in Od; discriminate. }
      split; [|split; [exact Sx|split; [exact Sy|split; [|split; [|split; [exact Od|]]]]]].
      * rewrite ext_loop_step, P. fold p. rewrite X. reflexivity.
      * destruct rest' as [|c r]; [contradiction|]. rewrite levels_more.
        rewrite (slot_hash _ _ Sx), (slot_hash _ _ Sy).
        assert (T : try_cands H lvl0 key (child_hash t (2 * S l' + 1)) (child_hash t (2 * S l' + 2)) [u; v] = CPass).
        { pose proof (cand_tree_node lvl0 (S l') n E K) as C. rewrite try_two.
          destruct Pl as [Pl|Pl].
          - (* left child: u is the node itself *)
            assert (u = n). { unfold slot in Su. rewrite <- Pl, E in Su. exact Su. } subst u. rewrite C. reflexivity.
          - assert (v = n). { unfold slot in Sv. rewrite <- Pl, E in Sv. exact Sv. } subst v.
            pose proof (cand_no_err lvl0 (child_hash t (2 * S l' + 1)) (child_hash t (2 * S l' + 2)) _ u Su) as NErr.
            destruct (cand H lvl0 key (child_hash t (2 * S l' + 1)) (child_hash t (2 * S l' + 2)) u); try reflexivity; try contradiction.
            rewrite C. reflexivity. }
        rewrite T. exact Lv.
      * simpl. exists u, v, rest'. auto.
      * destruct rest' as [|c r]; [contradiction|]. exact La.
Qed.

Hypothesis First : find_index (key_is key) t 0 = Some index.
(* the key does not occur again at the children of its first occurrence (e.g. all keys pairwise different) *)
Hypothesis ChildrenDiffer : forall c n, c = 2 * index + 1 \/ c = 2 * index + 2 ->
  nth_error t c = Some n -> nkey n <> key.

Theorem proof_complete :
  exists p, extract t key = Some p /\ prove H p key = true /\ Nat.odd (length p) = true /\
            nhash (last p empty_node) = child_hash t 0.
Proof.
  destruct (find_index_spec _ _ _ _ _ First) as [_ [Li [[n [En Kn]] Fst]]].
  rewrite Nat.sub_0_r in *. unfold key_is in Kn. apply bytes_eqb_eq in Kn.
  assert (Kn' : true = true -> nkey n = key) by auto.
  destruct (ext_ok index index true n (le_n _) Li (or_introl eq_refl) En Kn')
    as [x [y [rest [X [Sx [Sy [Lv [Sh [Od La]]]]]]]]].
  exists (x :: y :: rest). unfold extract. rewrite First. split; [exact X|].
  destruct (valid_node_facts H Hlen t index n V En) as [_ [Knz _]].
  assert (NotKey : forall c z, c = 2 * index + 1 \/ c = 2 * index + 2 -> slot c z -> key_is key z = false).
  { intros c z Hc S. unfold slot in S. unfold key_is. apply bytes_eqb_neq.
    destruct (nth_error t c) as [w|] eqn:E; subst z.
    - apply (ChildrenDiffer c w Hc E).
    - simpl. congruence. }
  pose proof (NotKey _ x (or_introl eq_refl) Sx) as Kx.
  pose proof (NotKey _ y (or_intror eq_refl) Sy) as Ky.
  assert (Pr : prove H (x :: y :: rest) key = levels H true key (nhash x) (nhash y) rest).
  { unfold prove, filter_nodes. simpl find_index. rewrite Kx, Ky.
    destruct index as [|i'].
    - destruct Sh as [r [Er Rr]]. subst rest. rewrite En in Er. inversion Er; subst r.
      simpl find_index. unfold key_is at 1. rewrite Kn, bytes_eqb_refl. reflexivity.
    - destruct Sh as [u [v [rest' [Rr [NE [Su Sv]]]]]]. subst rest.
      set (p := i' / 2) in *.
      assert (Pl : S i' = 2 * p + 1 \/ S i' = 2 * p + 2).
      { unfold p. pose proof (Nat.div_mod i' 2). pose proof (Nat.mod_upper_bound i' 2). lia. }
      destruct Pl as [Pl|Pl].
      + assert (u = n). { unfold slot in Su. rewrite <- Pl, En in Su. exact Su. } subst u.
        simpl find_index. unfold key_is at 1. rewrite Kn, bytes_eqb_refl. reflexivity.
      + assert (v = n). { unfold slot in Sv. rewrite <- Pl, En in Sv. exact Sv. } subst v.
        assert (Ku : key_is key u = false).
        { unfold slot in Su. destruct (nth_error t (2 * p + 1)) as [w|] eqn:E; subst u.
          - apply (Fst (2 * p + 1) w); auto. lia.
          - apply nth_error_None in E. lia. }
        simpl find_index. rewrite Ku. unfold key_is at 1. rewrite Kn, bytes_eqb_refl.
        destruct rest' as [|c r]; [contradiction|]. reflexivity. }
  rewrite Pr. split; [exact Lv|]. split.
  - exact Od.
  - assert (NE : rest <> []) by (intro; subst; simpl in Od; discriminate).
    destruct rest as [|c r]; [contradiction|].
    change (last (x :: y :: c :: r) empty_node) with (last (c :: r) empty_node).
    rewrite La. unfold child_hash. destruct t; reflexivity.
Qed.

End Complete.
