(* C12 -- the index arithmetic transcribed from tree.go (log2 / pow) is heap indexing. *)
From Coq Require Import List NArith ZArith Arith Bool Lia.
From MV Require Import Common.Cases Gen.C12 C12.Model.
Import ListNotations.
Open Scope N_scope.

Lemma go_height_bounds : forall i, 2 ^ go_index_height i <= i + 1 /\ i + 1 < 2 * 2 ^ go_index_height i.
Proof.
  intro i. unfold go_index_height. destruct (i =? 0) eqn:Z.
  - apply N.eqb_eq in Z. subst. change (2 ^ 0) with 1. lia.
  - apply N.eqb_neq in Z. assert (P : 0 < i + 1) by lia.
    pose proof (N.log2_spec (i + 1) P) as [A B]. rewrite N.pow_succ_r' in B. split; assumption.
Qed.

Lemma go_height_zero : forall i, go_index_height i = 0 <-> i = 0.
Proof.
  intro i. split; intro E.
  - pose proof (go_height_bounds i) as [A B]. rewrite E in *. change (2 ^ 0) with 1 in *. lia.
  - subst. reflexivity.
Qed.

Theorem go_children_spec : forall size i,
  go_children size i = if size <=? 2 * i + 1 then None else Some (2 * i + 1, 2 * i + 2).
Proof.
  intros size i. unfold go_children. pose proof (go_height_bounds i) as [A B].
  set (h := go_index_height i) in *. rewrite N.pow_add_r. change (2 ^ 1) with 2.
  set (P := 2 ^ h) in *.
  assert (E : P * 2 - 1 + (i - (P - 1)) * 2 = 2 * i + 1) by lia.
  rewrite E. destruct (size <=? 2 * i + 1); auto. f_equal. f_equal. lia.
Qed.

Theorem go_parent_spec : forall i,
  go_parent i = if i =? 0 then None else Some ((i - 1) / 2).
Proof.
  intro i. unfold go_parent. destruct (i =? 0) eqn:Z.
  - apply N.eqb_eq in Z. subst. reflexivity.
  - apply N.eqb_neq in Z.
    assert (Hz : go_index_height i <> 0) by (rewrite go_height_zero; exact Z).
    apply N.eqb_neq in Hz. rewrite Hz. apply N.eqb_neq in Hz.
    pose proof (go_height_bounds i) as [A B].
    set (h := go_index_height i) in *.
    assert (Hh : h = N.succ (h - 1)) by lia.
    assert (PQ : 2 ^ h = 2 * 2 ^ (h - 1)) by (rewrite Hh at 1; apply N.pow_succ_r').
    set (Q := 2 ^ (h - 1)) in *. rewrite PQ in *.
    assert (Qpos : 1 <= Q) by (unfold Q; pose proof (N.pow_nonzero 2 (h - 1)); lia).
    f_equal.
    set (pos := i - (2 * Q - 1)).
    assert (Ei : i - 1 = pos + (Q - 1) * 2) by (unfold pos; lia).
    rewrite Ei. rewrite N.div_add by lia.
    assert (Ep : (if N.odd pos then pos - 1 else pos) / 2 = pos / 2).
    { destruct (N.odd pos) eqn:O; auto.
      apply N.odd_spec in O. destruct O as [k Ek]. rewrite Ek.
      replace (2 * k + 1 - 1) with (k * 2) by lia. rewrite N.div_mul by lia.
      replace (2 * k + 1) with (1 + k * 2) by lia. rewrite N.div_add by lia. reflexivity. }
    rewrite Ep. lia.
Qed.

(* the heap-index functions used by the tree model are the transcribed ones *)
Theorem index_arith_nat : forall size i : nat,
  go_children (N.of_nat size) (N.of_nat i) = nat_pair_to_N (children size i) /\
  go_parent (N.of_nat i) = option_map N.of_nat (parent i).
Proof.
  intros size i. rewrite go_children_spec, go_parent_spec. split.
  - unfold children, nat_pair_to_N.
    destruct (Nat.ltb_spec (2 * i + 1)%nat size) as [L|L].
    + assert (E : (N.of_nat size <=? 2 * N.of_nat i + 1) = false) by (apply N.leb_gt; lia).
      rewrite E. f_equal. f_equal; lia.
    + assert (E : (N.of_nat size <=? 2 * N.of_nat i + 1) = true) by (apply N.leb_le; lia).
      rewrite E. reflexivity.
  - destruct i as [|j]; [reflexivity|].
    assert (E : (N.of_nat (S j) =? 0) = false) by (apply N.eqb_neq; lia).
    rewrite E. unfold parent, option_map. f_equal.
    rewrite Nat2N.inj_div. f_equal. lia.
Qed.
