(* C12 -- Merkle fixed tree commits to every node and proofs are sound.  Property theorems only.

   H is the hash function of the tree (valuehash.NewSHA256), universally quantified with the only hypothesis
   that its outputs have 32 bytes.  Statements that depend on collision resistance are in reduction form:
   "... \/ collision H" where  collision H := exists x y, x <> y /\ H x = H y ; all proofs are constructive
   (Print Assumptions: closed), so the colliding pair is computed from the inputs of the theorem. *)
From Coq Require Import List NArith ZArith Arith Bool Lia.
From MV Require Import Gen.C12 C12.Model C12.Proofs C12.Proofs2 C12.Proofs3 C12.Proofs4 C12.Proofs5.
Import ListNotations.
Open Scope nat_scope.
Open Scope list_scope.

(* A tree validates iff every node is well-formed and its hash is H(key ++ left child's hash ++ right child's hash)
   (absent children contribute nothing; children of node i are 2i+1, 2i+2). *)
Theorem C12_valid_iff : forall (H : bytes -> bytes) t,
  is_valid H t = true <->
  (forall i n, nth_error t i = Some n ->
     node_valid n = true /\ nkey n <> [] /\
     nhash n = H (nkey n ++ child_hash t (2 * i + 1) ++ child_hash t (2 * i + 2))).
Proof. exact valid_iff_explicit. Qed.

(* The index arithmetic of tree.go (indexHeight by log2, children/parent by powers of two) is heap indexing. *)
Theorem C12_index_arith : forall size i : nat,
  go_children (N.of_nat size) (N.of_nat i) = nat_pair_to_N (children size i) /\
  go_parent (N.of_nat i) = option_map N.of_nat (parent i).
Proof. exact index_arith_nat. Qed.

(* Writer: every non-empty list of non-empty keys yields a tree; that tree is valid and carries the keys in order. *)
Theorem C12_generated_valid : forall (H : bytes -> bytes), (forall x, length (H x) = 32) ->
  forall ks, ks <> [] -> (forall k, In k ks -> k <> []) ->
  exists t, generate H ks = Some t /\ is_valid H t = true /\ map nkey t = ks /\ t <> [].
Proof.
  intros H Hlen ks N NE. destruct (generate_total H ks N NE) as [t G]. exists t. split; [exact G|].
  exact (generated_valid H Hlen ks t G).
Qed.

(* For every key of a valid tree of any size (first occurrence at index; the key not repeated at the two children
   of that node, e.g. keys pairwise different) the extracted proof exists, verifies, has odd length and ends in the root. *)
Theorem C12_proof_complete : forall (H : bytes -> bytes), (forall x, length (H x) = 32) ->
  forall t, is_valid H t = true -> forall key index,
  find_index (key_is key) t 0 = Some index ->
  (forall c n, c = 2 * index + 1 \/ c = 2 * index + 2 -> nth_error t c = Some n -> nkey n <> key) ->
  exists p, extract t key = Some p /\ prove H p key = true /\ Nat.odd (length p) = true /\
            nhash (last p empty_node) = child_hash t 0.
Proof. exact proof_complete. Qed.

(* Changing one field of one node of a valid tree: another hash -> invalid; an empty node -> invalid;
   another key -> invalid, or the old and new hash inputs of that node are a collision of H. *)
Theorem C12_tree_mutation : forall (H : bytes -> bytes), (forall x, length (H x) = 32) ->
  forall t i n n', is_valid H t = true -> nth_error t i = Some n ->
  (nkey n' = nkey n -> nhash n' <> nhash n -> is_valid H (replace_nth t i n') = false) /\
  (nempty n' = true -> is_valid H (replace_nth t i n') = false) /\
  (nkey n' <> nkey n -> nhash n' = nhash n ->
     is_valid H (replace_nth t i n') = false \/
     (node_input t i n <> node_input t i n' /\ H (node_input t i n) = H (node_input t i n'))).
Proof.
  intros H Hlen t i n n' V E. split; [|split].
  - intros K D. exact (mutation_hash H Hlen t i n n' V E K D).
  - intro Em. apply (mutation_empty H Hlen t i n'); auto. apply nth_error_Some. congruence.
  - intros K D. exact (mutation_key H Hlen t i n n' V E K D).
Qed.

(* Two valid trees of the same size with the same root hash have the same keys at every index, or a collision
   is found at some index. *)
Theorem C12_root_binds_keys : forall (H : bytes -> bytes), (forall x, length (H x) = 32) ->
  forall t t', length t = length t' -> is_valid H t = true -> is_valid H t' = true ->
  child_hash t 0 = child_hash t' 0 ->
  map nkey t = map nkey t' \/ collide_at H t t'.
Proof. exact root_binds_keys. Qed.

(* The root changes whenever any key changes (trees generated from key lists of the same length). *)
Theorem C12_root_changes : forall (H : bytes -> bytes), (forall x, length (H x) = 32) ->
  forall ks ks' t t', generate H ks = Some t -> generate H ks' = Some t' ->
  length ks = length ks' -> ks <> ks' ->
  child_hash t 0 <> child_hash t' 0 \/ collision H.
Proof. exact root_changes. Qed.

(* Soundness: a proof accepted for key whose last node carries the hash of a node of a valid tree (the root,
   when compared with the trusted root) proves that key is a key of that tree -- or yields a collision.
   Hypotheses on the untrusted proof: odd length (Proof.IsValid), hashes of 0 or 32 bytes, key lengths within
   32 bytes of the tree's key lengths (so that key ++ hashes is uniquely decomposable). *)
Theorem C12_proof_sound : forall (H : bytes -> bytes), (forall x, length (H x) = 32) ->
  forall t, is_valid H t = true ->
  forall p key, prove H p key = true -> Nat.odd (length p) = true -> wf_proof t p ->
  in_tree_hash t (nhash (last p empty_node)) ->
  collision H \/ exists i n, nth_error t i = Some n /\ nkey n = key.
Proof. exact prove_sound. Qed.

(* Every hash the verification of such a proof used (all nodes from the alignment on, and the two children
   hashes of the first level) is a hash of a node of the tree or the empty hash of an absent child: replacing
   any of them by a value that is not a hash of the tree makes Prove fail (or exhibits a collision).
   Partial: a replacement by another hash of the same tree is not covered by a theorem (searched by the harness). *)
Theorem C12_proof_mutation_partial : forall (H : bytes -> bytes), (forall x, length (H x) = 32) ->
  forall t, is_valid H t = true ->
  forall p key al, filter_nodes p key = Some al ->
  prove H p key = true -> Nat.odd (length p) = true -> wf_proof t p ->
  in_tree_hash t (nhash (last p empty_node)) ->
  collision H \/
  ((exists i n, nth_error t i = Some n /\ nkey n = key) /\
   Forall (hash_ok t) (al_rest al) /\ hash_ok_b t (fst (pad_hashes al)) /\ hash_ok_b t (snd (pad_hashes al))).
Proof. exact prove_sound_strong. Qed.

(* The proved key itself is bound: the node that passes the first level carries the key and its hash is H over that key. *)
Theorem C12_proof_binds_key : forall (H : bytes -> bytes) p key, prove H p key = true ->
  exists c lh rh, In c p /\ nempty c = false /\ nkey c = key /\ nhash c = H (key ++ lh ++ rh).
Proof. exact prove_binds_key. Qed.

(* Known finding proof-sibling-key: the key of a proof node that is not on the path is not bound.  For every
   hash function: tree with keys [1] [2] [3], proof of [2], the sibling renamed to [9]: Prove [2] still succeeds. *)
Theorem C12_sibling_key_refuted : forall H : bytes -> bytes,
  exists t p c c',
    generate H [[1%N]; [2%N]; [3%N]] = Some t /\ extract t [2%N] = Some p /\
    nth_error p 3 = Some c /\ nkey c' <> nkey c /\ nh c' = nh c /\ nempty c' = nempty c /\
    prove H (replace_nth p 3 c') [2%N] = true.
Proof. exact sibling_key_witness. Qed.

(* the constant of valuehash.Bytes.IsValid the model depends on admits 32-byte hashes *)
Theorem C12_hash_size_const : (32 <= max_bytes_hash_size)%Z.
Proof. vm_compute. discriminate. Qed.

(* ---- non-vacuity ---- *)
Definition H0 (x : bytes) : bytes := firstn 32 (x ++ repeat 0%N 32).
Example H0_len : forall x, length (H0 x) = 32.
Proof.
  intro x. unfold H0. apply firstn_length_le. rewrite app_length, repeat_length. apply Nat.le_add_l.
Qed.

Example C12_example_tree :
  exists t p, generate H0 [[1%N]; [2%N]; [3%N]; [4%N]; [5%N]; [6%N]] = Some t /\ is_valid H0 t = true /\
    extract t [5%N] = Some p /\ prove H0 p [5%N] = true /\ length p = 7 /\ prove H0 p [6%N] = false /\
    wf_proof t p /\ in_tree_hash t (nhash (last p empty_node)).
Proof.
  eexists. eexists. split; [vm_compute; reflexivity|]. split; [vm_compute; reflexivity|].
  split; [vm_compute; reflexivity|]. split; [vm_compute; reflexivity|]. split; [reflexivity|].
  split; [vm_compute; reflexivity|]. split.
  - apply Forall_forall. intros c Ic. split.
    + simpl in Ic. repeat (destruct Ic as [Ic|Ic]; [subst c; vm_compute; auto|]). contradiction.
    + intros n In'. simpl in Ic, In'.
      repeat (destruct Ic as [Ic|Ic]; [subst c|]); try contradiction;
        repeat (destruct In' as [In'|In']; [subst n|]); try contradiction; simpl; lia.
  - exists 0, (mkNode [1%N] (H0 ([1%N] ++ H0 ([2%N] ++ H0 [4%N] ++ H0 [5%N]) ++ H0 ([3%N] ++ H0 [6%N] ++ []))) false).
    split; vm_compute; reflexivity.
Qed.
