From Coq Require Import List NArith ZArith Arith Bool.
From MV Require Import C12.Model C12.Proofs.
Import ListNotations.
Open Scope list_scope.
