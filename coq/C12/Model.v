(* C12 -- executable model of util/fixedtree (tree.go, writer.go, proof.go, node.go).  No proofs here.

   bytes = list N (each element < 256).  Keys are Go strings (arbitrary bytes), hashes are util.Hash
   byte strings.  The hash function (valuehash.NewSHA256, in fact SHA3-256) is the Section variable H.
   Nodes of a Tree / Proof are never nil here (Writer.Tree() shrinks nils away, Proof.UnmarshalJSON
   always builds BaseNode values); a non-empty node always has a (possibly zero-length) hash value. *)
From Coq Require Import String List NArith ZArith Arith Bool PArith FMapPositive.
From Coq Require Export Uint63.
From MV Require Import Common.Cases Gen.C12.
Import ListNotations.
Open Scope list_scope.

Definition bytes := list N.
Definition bytes_eqb (a b : bytes) : bool := list_eqb N.eqb a b.
Definition is_nil {A} (l : list A) : bool := match l with [] => true | _ => false end.

(* node.go: BaseNode{h, key, isempty} *)
Record node := mkNode { nkey : bytes; nh : bytes; nempty : bool }.
(* BaseNode.Hash(): valuehash.Bytes(nil) for an empty node *)
Definition nhash (n : node) : bytes := if nempty n then [] else nh n.
Definition empty_node : node := mkNode [] [] true.

(* valuehash.Bytes.IsValid: 1 <= len <= maxBytesHashSize (regenerated constant) *)
Definition hash_valid (h : bytes) : bool :=
  (1 <=? length h)%nat && (Z.of_nat (length h) <=? max_bytes_hash_size)%Z.
(* BaseNode.IsValid *)
Definition node_valid (n : node) : bool :=
  nempty n || (negb (is_nil (nkey n)) && hash_valid (nh n)).

(* ---- index arithmetic, transcribed from tree.go (indexHeight / children / parent) with exact log2 / pow ---- *)
Definition go_index_height (i : N) : N := if (i =? 0)%N then 0%N else N.log2 (i + 1).
Definition go_children (size i : N) : option (N * N) :=
  let height := go_index_height i in
  let current_first := (2 ^ height - 1)%N in
  let pos := (i - current_first)%N in
  let next_first := (2 ^ (height + 1) - 1)%N in
  if (size <=? next_first + pos * 2)%N then None
  else Some ((next_first + pos * 2)%N, (next_first + pos * 2 + 1)%N).
Definition go_parent (i : N) : option N :=
  let height := go_index_height i in
  if (height =? 0)%N then None
  else
    let current_first := (2 ^ height - 1)%N in
    let pos := (i - current_first)%N in
    let pos := if N.odd pos then (pos - 1)%N else pos in
    let up_first := (2 ^ (height - 1) - 1)%N in
    Some (up_first + pos / 2)%N.

(* the same functions in heap-index form (Proofs.v: equal to the transcribed ones); used by the tree functions *)
Definition children (size i : nat) : option (nat * nat) :=
  if (2 * i + 1 <? size)%nat then Some (2 * i + 1, 2 * i + 2)%nat else None.
Definition parent (i : nat) : option nat := match i with O => None | S j => Some (j / 2)%nat end.

Fixpoint find_index {A} (f : A -> bool) (l : list A) (i : nat) : option nat :=
  match l with
  | [] => None
  | x :: r => if f x then Some i else find_index f r (S i)
  end.

Fixpoint forallb_i {A} (f : nat -> A -> bool) (i : nat) (l : list A) : bool :=
  match l with [] => true | x :: r => f i x && forallb_i f (S i) r end.

Fixpoint nodup_b (l : list bytes) : bool :=
  match l with
  | [] => true
  | x :: r => negb (existsb (bytes_eqb x) r) && nodup_b r
  end.

Section WithH.
Variable H : bytes -> bytes.

(* tree.go nodeHash: error on empty key; absent (nil) child contributes no bytes *)
Definition node_hash (key lh rh : bytes) : option bytes :=
  if is_nil key then None else Some (H (key ++ lh ++ rh)).

Definition child_hash (t : list node) (c : nat) : bytes :=
  match nth_error t c with Some n => nhash n | None => [] end.

(* tree.go childrenNodes + the hashes nodeHash takes from them *)
Definition children_hashes (t : list node) (i : nat) : bytes * bytes :=
  match children (length t) i with
  | None => ([], [])
  | Some (a, b) => (child_hash t a, child_hash t b)
  end.

Definition node_input (t : list node) (i : nat) (n : node) : bytes :=
  nkey n ++ fst (children_hashes t i) ++ snd (children_hashes t i).

(* body of the Traverse callback in Tree.IsValid *)
Definition node_ok (t : list node) (i : nat) (n : node) : bool :=
  node_valid n &&
  match node_hash (nkey n) (fst (children_hashes t i)) (snd (children_hashes t i)) with
  | None => false
  | Some h => bytes_eqb (nhash n) h
  end.

(* Tree.IsValid (the hint check is not modelled); an empty tree is valid *)
Definition is_valid (t : list node) : bool := forallb_i (node_ok t) 0 t.

(* writer.go generateNodesHash: from the last index down to 0; [gen_from ks i] = nodes i.. for keys ks = keys i.. *)
Fixpoint gen_from (ks : list bytes) (i : nat) : option (list node) :=
  match ks with
  | [] => Some []
  | k :: ks' =>
      match gen_from ks' (S i) with
      | None => None
      | Some acc =>
          (* index 2i+1 is at offset i of the nodes (i+1).. *)
          match node_hash k (child_hash acc i) (child_hash acc (S i)) with
          | None => None
          | Some h => Some (mkNode k h false :: acc)
          end
      end
  end.
(* NewWriter refuses size 0 *)
Definition generate (ks : list bytes) : option (list node) :=
  match ks with [] => None | _ => gen_from ks 0 end.

(* ---- proof.go ---- *)

(* one iteration of the loop in ExtractProofMaterial: the two children of l (or two empties for a childless target) *)
Definition pair_at (t : list node) (index l : nat) : option (list node) :=
  match children (length t) l with
  | Some (a, b) =>
      match nth_error t a with
      | Some ca => Some [ca; match nth_error t b with Some cb => cb | None => empty_node end]
      | None => None
      end
  | None => if (l =? index)%nat then Some [empty_node; empty_node] else None
  end.

Fixpoint ext_loop (fuel : nat) (t : list node) (index l : nat) : option (list node) :=
  match pair_at t index l with
  | None => None
  | Some pr =>
      match parent l with
      | None => match nth_error t l with Some r => Some (pr ++ [r]) | None => None end
      | Some j =>
          match fuel with
          | O => None
          | S f => match ext_loop f t index j with None => None | Some rest => Some (pr ++ rest) end
          end
      end
  end.

Definition key_is (key : bytes) (n : node) : bool := bytes_eqb (nkey n) key.

(* ExtractProofMaterial: None = error *)
Definition extract (t : list node) (key : bytes) : option (list node) :=
  match find_index (key_is key) t 0 with
  | None => None
  | Some index => ext_loop index t index index
  end.

(* Proof.filterNodes: the aligned slice is  [pad0; pad1] ++ rest  where the pad is nil,nil when the key
   is found at position 0 or 1 *)
Record aligned := mkAligned { al_pad : option (node * node); al_rest : list node }.

Definition pad_of (p : list node) (i a b : nat) : option (node * node) :=
  if (1 <? i)%nat then
    match nth_error p a, nth_error p b with
    | Some x, Some y => Some (x, y)
    | _, _ => None
    end
  else None.

Definition filter_nodes (p : list node) (key : bytes) : option aligned :=
  match find_index (key_is key) p 0 with
  | None => None
  | Some i =>
      if Nat.even i then Some (mkAligned (pad_of p i (i - 2) (i - 1)) (skipn i p))
      else if (i + 1 =? length p)%nat then Some (mkAligned (pad_of p i (i - 2) (i - 1)) (firstn 1 (skipn i p)))
      else Some (mkAligned (pad_of p i (i - 3) (i - 2)) (skipn (i - 1) p))
  end.

Inductive cres := CPass | CNo | CErr.

(* one candidate parent in Proof.Prove.  lvl0: first level, where (after fix) only a node carrying the
   proved key may pass *)
Definition cand (lvl0 : bool) (key lh rh : bytes) (c : node) : cres :=
  if nempty c then CNo
  else if lvl0 && negb (key_is key c) then CNo
  else match node_hash (nkey c) lh rh with
       | None => CErr
       | Some h => if bytes_eqb (nhash c) h then CPass else CNo
       end.

Fixpoint try_cands (lvl0 : bool) (key lh rh : bytes) (cs : list node) : cres :=
  match cs with
  | [] => CNo
  | c :: r =>
      match cand lvl0 key lh rh c with
      | CPass => CPass
      | CErr => CErr
      | CNo => try_cands lvl0 key lh rh r
      end
  end.

(* the loop of Proof.Prove over the aligned slice; lh/rh = hashes of nodes[2i], nodes[2i+1] *)
Fixpoint levels (lvl0 : bool) (key lh rh : bytes) (rest : list node) : bool :=
  match rest with
  | [] => true
  | a :: r1 =>
      match r1 with
      | b :: ((_ :: _) as r2) =>
          match try_cands lvl0 key lh rh [a; b] with
          | CPass => levels false key (nhash a) (nhash b) r2
          | _ => false
          end
      | _ => match try_cands lvl0 key lh rh [a] with CPass => true | _ => false end
      end
  end.

Definition pad_hashes (al : aligned) : bytes * bytes :=
  match al_pad al with Some (x, y) => (nhash x, nhash y) | None => ([], []) end.

(* Proof.Prove: true = nil error *)
Definition prove (p : list node) (key : bytes) : bool :=
  match filter_nodes p key with
  | None => false
  | Some al => levels true key (fst (pad_hashes al)) (snd (pad_hashes al)) (al_rest al)
  end.

(* Proof.IsValid *)
Definition nonempty_nodes (p : list node) : list node := filter (fun n => negb (nempty n)) p.
Definition proof_is_valid (p : list node) : bool :=
  negb (is_nil p) && Nat.odd (length p) && forallb node_valid p
  && nodup_b (map nkey (nonempty_nodes p)) && nodup_b (map nhash (nonempty_nodes p)).

(* ---- every H application the functions above can perform (for the table-driven correspondence) ---- *)
Definition tree_queries (t : list node) : list bytes :=
  let fix go (i : nat) (l : list node) :=
    match l with
    | [] => []
    | n :: r => (if is_nil (nkey n) then [] else [node_input t i n]) ++ go (S i) r
    end in go 0%nat t.

Definition cand_queries (lvl0 : bool) (key lh rh : bytes) (cs : list node) : list bytes :=
  flat_map (fun c => if nempty c || (lvl0 && negb (key_is key c)) || is_nil (nkey c) then []
                     else [nkey c ++ lh ++ rh]) cs.

Fixpoint levels_queries (lvl0 : bool) (key lh rh : bytes) (rest : list node) : list bytes :=
  match rest with
  | [] => []
  | a :: r1 =>
      match r1 with
      | b :: ((_ :: _) as r2) =>
          cand_queries lvl0 key lh rh [a; b] ++ levels_queries false key (nhash a) (nhash b) r2
      | _ => cand_queries lvl0 key lh rh [a]
      end
  end.

Definition prove_queries (p : list node) (key : bytes) : list bytes :=
  match filter_nodes p key with
  | None => []
  | Some al => levels_queries true key (fst (pad_hashes al)) (snd (pad_hashes al)) (al_rest al)
  end.

End WithH.

(* ================= correspondence ================= *)

(* injective code of a byte string as a positive: 1 b0 b1 ... (8 bits per byte) *)
Definition push_byte (p : positive) (b : N) : positive :=
  match b with
  | N0 => Pos.shiftl p 8
  | Npos q => Pos.lor (Pos.shiftl p 8) q
  end.
Definition pos_of_bytes (x : bytes) : positive := fold_left push_byte x 1%positive.

(* byte strings in the case files: (length, big-endian words of 7 bytes) over primitive integers *)
Definition bstr := (int * list int)%type.
Definition byte_at (w : int) (j : nat) : N :=
  Z.to_N (Uint63.to_Z (Uint63.land (Uint63.lsr w (Uint63.of_Z (Z.of_nat (8 * j)))) 255%uint63)).
Definition word_bytes (k : nat) (w : int) : bytes := map (byte_at w) (rev (seq 0 k)).
Fixpoint unb_words (n : nat) (ws : list int) : bytes :=
  match ws with
  | [] => []
  | w :: r => if (n <=? 7)%nat then word_bytes n w else word_bytes 7 w ++ unb_words (n - 7) r
  end.
Definition unb (b : bstr) : bytes := unb_words (Z.to_nat (Uint63.to_Z (fst b))) (snd b).

Definition htable := PositiveMap.t bytes.
Definition tbl_of (l : list (bstr * bstr)) : htable :=
  fold_left (fun m e => PositiveMap.add (pos_of_bytes (unb (fst e))) (unb (snd e)) m) l (PositiveMap.empty bytes).
(* H given by the (input, output) pairs the harness recorded from the real hash function *)
Definition Htbl (m : htable) (x : bytes) : bytes :=
  match PositiveMap.find (pos_of_bytes x) m with Some y => y | None => [] end.
Definition in_tbl (m : htable) (x : bytes) : bool :=
  match PositiveMap.find (pos_of_bytes x) m with Some _ => true | None => false end.

Definition rnode := (bstr * bstr * bool)%type.   (* key, hash, isempty *)
Definition node_of (r : rnode) : node := let '(k, h, e) := r in mkNode (unb k) (unb h) e.
Definition node_eqb (a b : node) : bool :=
  bytes_eqb (nkey a) (nkey b) && bytes_eqb (nh a) (nh b) && Bool.eqb (nempty a) (nempty b).
Definition nodes_eqb (a b : list node) : bool := list_eqb node_eqb a b.

Fixpoint replace_nth {A} (l : list A) (i : nat) (x : A) : list A :=
  match l, i with
  | [], _ => []
  | _ :: r, O => x :: r
  | y :: r, S j => y :: replace_nth r j x
  end.

Definition opt_pair_eqb (a b : option (N * N)) : bool :=
  option_eqb (fun x y => N.eqb (fst x) (fst y) && N.eqb (snd x) (snd y)) a b.
Definition nat_pair_to_N (o : option (nat * nat)) : option (N * N) :=
  match o with Some (a, b) => Some (N.of_nat a, N.of_nat b) | None => None end.

Inductive case :=
(* indexHeight i = h, children size i = ch, parent i = par *)
| CArith (i size h : N) (ch : option (N * N)) (par : option N)
(* Tree.IsValid of the tree = valid; for each (index, node, v): IsValid after Set(index, node) = v *)
| CTree (tbl : list (bstr * bstr)) (nodes : list rnode) (valid : bool) (muts : list (N * rnode * bool))
(* Writer over the keys -> Tree().Nodes() (None = error) *)
| CGen (tbl : list (bstr * bstr)) (keys : list bstr) (res : option (list rnode))
(* ExtractProofMaterial *)
| CExtract (nodes : list rnode) (qs : list (bstr * option (list rnode)))
(* Proof.IsValid = pvalid; Prove(key) = ok for each (key, ok); after replacing position j by node: Prove(key) = ok *)
| CProof (tbl : list (bstr * bstr)) (pnodes : list rnode) (pvalid : bool)
         (proves : list (bstr * bool)) (muts : list (N * rnode * bstr * bool)).

Definition check (c : case) : bool :=
  match c with
  | CArith i size h ch par =>
      N.eqb (go_index_height i) h && opt_pair_eqb (go_children size i) ch && option_eqb N.eqb (go_parent i) par
      && (if (size <? 65536)%N && (i <? 65536)%N then   (* unary nat only for small indices *)
            opt_pair_eqb (nat_pair_to_N (children (N.to_nat size) (N.to_nat i))) ch
            && option_eqb N.eqb (option_map N.of_nat (parent (N.to_nat i))) par
          else true)
  | CTree tbl nodes valid muts =>
      let m := tbl_of tbl in
      let t := map node_of nodes in
      let one t' v := forallb (in_tbl m) (tree_queries t') && Bool.eqb (is_valid (Htbl m) t') v in
      one t valid
      && forallb (fun mu => let '(i, r, v) := mu in one (replace_nth t (N.to_nat i) (node_of r)) v) muts
  | CGen tbl keys res =>
      let m := tbl_of tbl in
      let g := generate (Htbl m) (map unb keys) in
      option_eqb nodes_eqb g (option_map (map node_of) res)
      && match g with Some t => forallb (in_tbl m) (tree_queries t) | None => true end
  | CExtract nodes qs =>
      let t := map node_of nodes in
      forallb (fun q => option_eqb nodes_eqb (extract t (unb (fst q))) (option_map (map node_of) (snd q))) qs
  | CProof tbl pnodes pvalid proves muts =>
      let m := tbl_of tbl in
      let p := map node_of pnodes in
      let one p' k v := forallb (in_tbl m) (prove_queries p' k) && Bool.eqb (prove (Htbl m) p' k) v in
      Bool.eqb (proof_is_valid p) pvalid
      && forallb (fun kv => one p (unb (fst kv)) (snd kv)) proves
      && forallb (fun mu => let '(j, r, k, v) := mu in one (replace_nth p (N.to_nat j) (node_of r)) (unb k) v) muts
  end.
