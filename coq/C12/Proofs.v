From Coq Require Import List NArith ZArith Arith Bool Lia.
From MV Require Import C12.Model.
Import ListNotations.
Open Scope list_scope.
