(* C12 -- lemmas about the tree part of the model (validity, generation, mutation, root binds keys). *)
From Coq Require Import List NArith ZArith Arith Bool Lia.
From MV Require Import Common.Cases Gen.C12 C12.Model.
Import ListNotations.
Open Scope list_scope.

(* ---------- generic ---------- *)

Lemma list_eqb_N_eq : forall a b : list N, list_eqb N.eqb a b = true <-> a = b.
Proof.
  induction a as [|x a IH]; destruct b as [|y b]; simpl; split; intro E; try congruence; try discriminate.
  - apply andb_true_iff in E. destruct E as [E1 E2]. apply N.eqb_eq in E1. apply IH in E2. congruence.
  - inversion E; subst. apply andb_true_iff. split. apply N.eqb_refl. apply IH. reflexivity.
Qed.

Lemma bytes_eqb_eq : forall a b, bytes_eqb a b = true <-> a = b.
Proof. exact list_eqb_N_eq. Qed.

Lemma bytes_eqb_refl : forall a, bytes_eqb a a = true.
Proof. intro a. apply bytes_eqb_eq. reflexivity. Qed.

Lemma bytes_eqb_neq : forall a b, bytes_eqb a b = false <-> a <> b.
Proof.
  intros a b. split.
  - intros E C. apply bytes_eqb_eq in C. congruence.
  - intro C. destruct (bytes_eqb a b) eqn:E; auto. apply bytes_eqb_eq in E. contradiction.
Qed.

Definition bytes_eq_dec : forall a b : bytes, {a = b} + {a <> b} := list_eq_dec N.eq_dec.

Lemma is_nil_true : forall (A : Type) (l : list A), is_nil l = true <-> l = [].
Proof. intros A l. destruct l; simpl; split; congruence. Qed.

Lemma is_nil_false : forall (A : Type) (l : list A), is_nil l = false <-> l <> [].
Proof. intros A l. destruct l; simpl; split; congruence. Qed.

Lemma app_inj_len : forall (A : Type) (a a' b b' : list A),
  a ++ b = a' ++ b' -> length a = length a' -> a = a' /\ b = b'.
Proof.
  induction a as [|x a IH]; destruct a' as [|y a']; simpl; intros b b' E L; try discriminate.
  - auto.
  - inversion E; subst. inversion L. destruct (IH a' b b' H1 H0) as [E1 E2]. subst. auto.
Qed.

Lemma app_inj_len_r : forall (A : Type) (a a' b b' : list A),
  a ++ b = a' ++ b' -> length b = length b' -> a = a' /\ b = b'.
Proof.
  intros A a a' b b' E L. apply app_inj_len; auto.
  assert (length (a ++ b) = length (a' ++ b')) by congruence.
  rewrite !app_length in H. lia.
Qed.

Lemma forallb_i_spec : forall (A : Type) (f : nat -> A -> bool) l i,
  forallb_i f i l = true <-> (forall j n, nth_error l j = Some n -> f (i + j) n = true).
Proof.
  induction l as [|x l IH]; intro i; simpl.
  - split; auto. intros _ j n E. destruct j; discriminate.
  - rewrite andb_true_iff, IH. split.
    + intros [E1 E2] j n E. destruct j; simpl in E.
      * inversion E; subst. rewrite Nat.add_0_r. exact E1.
      * replace (i + S j) with (S i + j) by lia. apply E2. exact E.
    + intro E. split.
      * specialize (E 0 x eq_refl). rewrite Nat.add_0_r in E. exact E.
      * intros j n Ej. replace (S i + j) with (i + S j) by lia. apply E. exact Ej.
Qed.

Lemma nth_error_replace_same : forall (A : Type) (l : list A) i x,
  i < length l -> nth_error (replace_nth l i x) i = Some x.
Proof.
  induction l as [|y l IH]; intros i x L; simpl in L; try lia.
  destruct i; simpl; auto. apply IH. lia.
Qed.

Lemma nth_error_replace_other : forall (A : Type) (l : list A) i j x,
  i <> j -> nth_error (replace_nth l i x) j = nth_error l j.
Proof.
  induction l as [|y l IH]; intros i j x N; simpl.
  - destruct i; reflexivity.
  - destruct i; destruct j; simpl; auto; try congruence; try (apply IH; congruence).
Qed.

Lemma replace_nth_length : forall (A : Type) (l : list A) i x, length (replace_nth l i x) = length l.
Proof. induction l as [|y l IH]; intros i x; destruct i; simpl; auto. Qed.

Lemma nth_error_ext : forall (A : Type) (a b : list A),
  (forall j, nth_error a j = nth_error b j) -> a = b.
Proof.
  induction a as [|x a IH]; destruct b as [|y b]; intro E; auto.
  - specialize (E 0). discriminate.
  - specialize (E 0). discriminate.
  - f_equal. specialize (E 0). simpl in E. congruence. apply IH. intro j. apply (E (S j)).
Qed.

(* ---------- the tree ---------- *)

Section Tree.
Variable H : bytes -> bytes.
Hypothesis Hlen : forall x, length (H x) = 32.

Definition collision : Prop := exists x y : bytes, x <> y /\ H x = H y.

Lemma children_hashes_eq : forall t i,
  children_hashes t i = (child_hash t (2 * i + 1), child_hash t (2 * i + 2)).
Proof.
  intros t i. unfold children_hashes, children.
  destruct (2 * i + 1 <? length t) eqn:E; auto.
  apply Nat.ltb_ge in E. unfold child_hash.
  assert (E1 : nth_error t (2 * i + 1) = None) by (apply nth_error_None; lia).
  assert (E2 : nth_error t (2 * i + 2) = None) by (apply nth_error_None; lia).
  rewrite E1, E2. reflexivity.
Qed.

Lemma node_input_eq : forall t i n,
  node_input t i n = nkey n ++ child_hash t (2 * i + 1) ++ child_hash t (2 * i + 2).
Proof. intros. unfold node_input. rewrite children_hashes_eq. reflexivity. Qed.

Lemma hash_valid_H : forall x, hash_valid (H x) = true.
Proof. intro x. unfold hash_valid. rewrite Hlen. reflexivity. Qed.

(* what Tree.IsValid checks of one node *)
Definition node_spec (t : list node) (i : nat) (n : node) : Prop :=
  node_valid n = true /\ nkey n <> [] /\ nhash n = H (node_input t i n).

Lemma node_ok_spec : forall t i n, node_ok H t i n = true <-> node_spec t i n.
Proof.
  intros t i n. unfold node_ok, node_spec, node_hash, node_input.
  destruct (node_valid n); simpl; [|split; [discriminate|intros [C _]; discriminate]].
  destruct (is_nil (nkey n)) eqn:K.
  - apply is_nil_true in K. split; [discriminate|]. intros [_ [C _]]. contradiction.
  - apply is_nil_false in K. rewrite bytes_eqb_eq. split; [intro E; auto|intros [_ [_ E]]; exact E].
Qed.

Theorem valid_iff : forall t,
  is_valid H t = true <-> (forall i n, nth_error t i = Some n -> node_spec t i n).
Proof.
  intro t. unfold is_valid. rewrite forallb_i_spec. split; intros E i n Ei.
  - apply node_ok_spec. apply (E i n Ei).
  - apply node_ok_spec. simpl. apply E. exact Ei.
Qed.

Lemma valid_node_facts : forall t i n, is_valid H t = true -> nth_error t i = Some n ->
  nempty n = false /\ nkey n <> [] /\ nhash n = H (node_input t i n) /\ length (nhash n) = 32.
Proof.
  intros t i n V E. destruct (proj1 (valid_iff t) V i n E) as [_ [K Hh]].
  assert (L : length (nhash n) = 32) by (rewrite Hh; apply Hlen).
  repeat split; auto. unfold nhash in L. destruct (nempty n); auto. discriminate.
Qed.

Lemma child_hash_len : forall t c, is_valid H t = true ->
  (c < length t -> length (child_hash t c) = 32) /\ (length t <= c -> child_hash t c = []).
Proof.
  intros t c V. unfold child_hash. split; intro L.
  - destruct (nth_error t c) eqn:E.
    + destruct (valid_node_facts t c n V E) as [_ [_ [_ L32]]]. exact L32.
    + apply nth_error_None in E. lia.
  - assert (E : nth_error t c = None) by (apply nth_error_None; lia). rewrite E. reflexivity.
Qed.

Lemma child_hash_replace_other : forall t i c x, i <> c ->
  child_hash (replace_nth t i x) c = child_hash t c.
Proof. intros. unfold child_hash. rewrite nth_error_replace_other; auto. Qed.

Lemma node_input_replace : forall t i x n,
  node_input (replace_nth t i x) i n = nkey n ++ child_hash t (2 * i + 1) ++ child_hash t (2 * i + 2).
Proof.
  intros. rewrite node_input_eq. rewrite !child_hash_replace_other by lia. reflexivity.
Qed.

(* changing only the hash of one node *)
Theorem mutation_hash : forall t i n n',
  is_valid H t = true -> nth_error t i = Some n ->
  nkey n' = nkey n -> nhash n' <> nhash n ->
  is_valid H (replace_nth t i n') = false.
Proof.
  intros t i n n' V E K Hd.
  destruct (is_valid H (replace_nth t i n')) eqn:V'; auto. exfalso.
  assert (L : i < length t) by (apply nth_error_Some; congruence).
  destruct (valid_node_facts _ i n' V' (nth_error_replace_same _ t i n' L)) as [_ [_ [E' _]]].
  destruct (valid_node_facts _ i n V E) as [_ [_ [E0 _]]].
  rewrite node_input_replace in E'. rewrite node_input_eq in E0. rewrite K in E'. congruence.
Qed.

(* changing only the key of one node: the tree is invalid, or the two hash inputs of that node collide *)
Theorem mutation_key : forall t i n n',
  is_valid H t = true -> nth_error t i = Some n ->
  nkey n' <> nkey n -> nhash n' = nhash n ->
  is_valid H (replace_nth t i n') = false \/
  (node_input t i n <> node_input t i n' /\ H (node_input t i n) = H (node_input t i n')).
Proof.
  intros t i n n' V E K Hd.
  destruct (is_valid H (replace_nth t i n')) eqn:V'; auto. right.
  assert (L : i < length t) by (apply nth_error_Some; congruence).
  destruct (valid_node_facts _ i n' V' (nth_error_replace_same _ t i n' L)) as [_ [_ [E' _]]].
  destruct (valid_node_facts _ i n V E) as [_ [_ [E0 _]]].
  rewrite node_input_replace in E'. rewrite <- node_input_eq in E'.
  split; [|congruence].
  rewrite !node_input_eq. intro C. apply app_inv_tail in C. congruence.
Qed.

(* turning a node into an empty node *)
Theorem mutation_empty : forall t i n',
  i < length t -> nempty n' = true -> is_valid H (replace_nth t i n') = false.
Proof.
  intros t i n' L Em.
  destruct (is_valid H (replace_nth t i n')) eqn:V'; auto. exfalso.
  destruct (valid_node_facts _ i n' V' (nth_error_replace_same _ t i n' L)) as [C _]. congruence.
Qed.

(* ---------- generation ---------- *)

Lemma gen_from_spec : forall ks i L, gen_from H ks i = Some L ->
  length L = length ks /\
  forall j n, nth_error L j = Some n ->
    nempty n = false /\ nth_error ks j = Some (nkey n) /\ nkey n <> [] /\
    nh n = H (nkey n ++ child_hash L (i + 2 * j + 1) ++ child_hash L (i + 2 * j + 2)).
Proof.
  induction ks as [|k ks IH]; intros i L G; simpl in G.
  - inversion G; subst. split; auto. intros j n E. destruct j; discriminate.
  - destruct (gen_from H ks (S i)) as [acc|] eqn:GA; try discriminate.
    unfold node_hash in G. destruct (is_nil k) eqn:K; try discriminate.
    inversion G; subst; clear G. destruct (IH (S i) acc GA) as [LA SA].
    split; [simpl; congruence|].
    intros j n E. destruct j; simpl in E.
    + inversion E; subst; clear E. simpl. apply is_nil_false in K. repeat split; auto.
      replace (i + 0 + 1) with (S i) by lia. replace (i + 0 + 2) with (S (S i)) by lia.
      unfold child_hash. simpl. reflexivity.
    + destruct (SA j n E) as [A1 [A2 [A3 A4]]]. repeat split; auto.
      rewrite A4. replace (i + 2 * S j + 1) with (S (S i + 2 * j + 1)) by lia.
      replace (i + 2 * S j + 2) with (S (S i + 2 * j + 2)) by lia.
      unfold child_hash. simpl. reflexivity.
Qed.

Theorem generated_valid : forall ks t, generate H ks = Some t ->
  is_valid H t = true /\ map nkey t = ks /\ t <> [].
Proof.
  intros ks t G. unfold generate in G.
  assert (G' : gen_from H ks 0 = Some t /\ ks <> []) by (destruct ks; [discriminate|split; [exact G|discriminate]]).
  destruct G' as [G' NE]. destruct (gen_from_spec ks 0 t G') as [L S].
  split; [|split].
  - apply valid_iff. intros i n E. destruct (S i n E) as [A1 [A2 [A3 A4]]].
    unfold node_spec. rewrite node_input_eq. unfold nhash, node_valid. rewrite A1. simpl.
    rewrite A4. simpl in *. split; [|split; auto].
    apply is_nil_false in A3. rewrite A3. simpl. apply hash_valid_H.
  - apply nth_error_ext. intro j. rewrite nth_error_map.
    destruct (nth_error t j) as [n|] eqn:E; simpl.
    + destruct (S j n E) as [_ [A2 _]]. symmetry. exact A2.
    + apply nth_error_None in E. symmetry. apply nth_error_None. lia.
  - intro C. subst. simpl in L. destruct ks; [contradiction|discriminate].
Qed.

(* ---------- the root binds every key (same size) ---------- *)

Definition collide_at (t t' : list node) : Prop :=
  exists i n n', nth_error t i = Some n /\ nth_error t' i = Some n' /\
    node_input t i n <> node_input t' i n' /\ H (node_input t i n) = H (node_input t' i n').

Lemma child_hash_len_eq : forall t t' c, is_valid H t = true -> is_valid H t' = true ->
  length t = length t' -> length (child_hash t c) = length (child_hash t' c).
Proof.
  intros t t' c V V' L.
  destruct (child_hash_len t c V) as [A1 A2]. destruct (child_hash_len t' c V') as [B1 B2].
  destruct (Nat.lt_ge_cases c (length t)) as [C|C].
  - rewrite A1, B1; auto. lia.
  - rewrite A2, B2; auto. lia.
Qed.

Lemma inputs_decompose : forall t t' i n n', is_valid H t = true -> is_valid H t' = true ->
  length t = length t' -> node_input t i n = node_input t' i n' ->
  nkey n = nkey n' /\ child_hash t (2 * i + 1) = child_hash t' (2 * i + 1)
  /\ child_hash t (2 * i + 2) = child_hash t' (2 * i + 2).
Proof.
  intros t t' i n n' V V' L E. rewrite !node_input_eq in E.
  pose proof (child_hash_len_eq t t' (2 * i + 1) V V' L) as L1.
  pose proof (child_hash_len_eq t t' (2 * i + 2) V V' L) as L2.
  apply app_inj_len_r in E; [|rewrite !app_length; lia].
  destruct E as [E1 E2]. apply app_inj_len in E2; auto; try tauto.
Qed.

Lemma same_hash_step : forall t t' j n n', is_valid H t = true -> is_valid H t' = true ->
  nth_error t j = Some n -> nth_error t' j = Some n' -> nhash n = nhash n' ->
  node_input t j n = node_input t' j n' \/ collide_at t t'.
Proof.
  intros t t' j n n' V V' E E' Hh.
  destruct (bytes_eq_dec (node_input t j n) (node_input t' j n')) as [Q|Q]; auto.
  right. exists j, n, n'. repeat split; auto.
  destruct (valid_node_facts t j n V E) as [_ [_ [A _]]].
  destruct (valid_node_facts t' j n' V' E') as [_ [_ [B _]]]. congruence.
Qed.

Lemma root_binds_inv : forall t t', is_valid H t = true -> is_valid H t' = true ->
  length t = length t' -> child_hash t 0 = child_hash t' 0 ->
  forall m,
  (forall j n n', j <= m -> nth_error t j = Some n -> nth_error t' j = Some n' ->
     nhash n = nhash n' /\ node_input t j n = node_input t' j n') \/ collide_at t t'.
Proof.
  intros t t' V V' L R. induction m as [|m IH].
  - destruct (nth_error t 0) as [n0|] eqn:E0; destruct (nth_error t' 0) as [n0'|] eqn:E0'.
    + assert (Hh : nhash n0 = nhash n0') by (unfold child_hash in R; rewrite E0, E0' in R; exact R).
      destruct (same_hash_step t t' 0 n0 n0' V V' E0 E0' Hh) as [Q|Q]; auto.
      left. intros j n n' Lj Ej Ej'. assert (j = 0) by lia. subst. rewrite E0 in Ej. rewrite E0' in Ej'.
      inversion Ej; inversion Ej'; subst. auto.
    + left. intros j n n' Lj Ej Ej'. assert (j = 0) by lia. subst. congruence.
    + left. intros j n n' Lj Ej Ej'. assert (j = 0) by lia. subst. congruence.
    + left. intros j n n' Lj Ej Ej'. assert (j = 0) by lia. subst. congruence.
  - destruct IH as [IH|IH]; auto.
    destruct (nth_error t (S m)) as [a|] eqn:Ea; destruct (nth_error t' (S m)) as [a'|] eqn:Ea';
      try (left; intros j n n' Lj Ej Ej'; destruct (Nat.eq_dec j (S m)); [subst; congruence|apply IH; auto; lia]).
    (* the parent of S m *)
    set (p := m / 2).
    assert (Pm : S m = 2 * p + 1 \/ S m = 2 * p + 2).
    { unfold p. pose proof (Nat.div_mod m 2). pose proof (Nat.mod_upper_bound m 2). lia. }
    assert (Lp : p < length t). { assert (S m < length t) by (apply nth_error_Some; congruence). lia. }
    destruct (nth_error t p) as [b|] eqn:Eb; [|apply nth_error_None in Eb; lia].
    destruct (nth_error t' p) as [b'|] eqn:Eb'; [|apply nth_error_None in Eb'; lia].
    assert (Pp : p <= m) by (unfold p; apply Nat.div_le_upper_bound; lia).
    destruct (IH p b b' Pp Eb Eb') as [_ Qp].
    destruct (inputs_decompose t t' p b b' V V' L Qp) as [_ [C1 C2]].
    assert (Hh : nhash a = nhash a').
    { destruct Pm as [Pm|Pm]; rewrite <- Pm in *; unfold child_hash in *.
      - rewrite Ea, Ea' in C1. exact C1.
      - rewrite Ea, Ea' in C2. exact C2. }
    destruct (same_hash_step t t' (S m) a a' V V' Ea Ea' Hh) as [Q|Q]; auto.
    left. intros j n n' Lj Ej Ej'. destruct (Nat.eq_dec j (S m)).
    + subst. rewrite Ea in Ej. rewrite Ea' in Ej'. inversion Ej; inversion Ej'; subst. auto.
    + apply IH; auto. lia.
Qed.

Theorem root_binds_keys : forall t t', length t = length t' ->
  is_valid H t = true -> is_valid H t' = true -> child_hash t 0 = child_hash t' 0 ->
  map nkey t = map nkey t' \/ collide_at t t'.
Proof.
  intros t t' L V V' R.
  destruct (root_binds_inv t t' V V' L R (length t)) as [I|I]; auto.
  left. apply nth_error_ext. intro j. rewrite !nth_error_map.
  destruct (nth_error t j) as [n|] eqn:E; destruct (nth_error t' j) as [n'|] eqn:E'; simpl; auto.
  - assert (Lj : j <= length t). { assert (j < length t) by (apply nth_error_Some; congruence). lia. }
    destruct (I j n n' Lj E E') as [_ Q].
    destruct (inputs_decompose t t' j n n' V V' L Q) as [K _]. congruence.
  - apply nth_error_None in E'. assert (j < length t) by (apply nth_error_Some; congruence). lia.
  - apply nth_error_None in E. assert (j < length t') by (apply nth_error_Some; congruence). lia.
Qed.

Lemma collide_at_collision : forall t t', collide_at t t' -> collision.
Proof. intros t t' [i [n [n' [_ [_ [A B]]]]]]. exists (node_input t i n), (node_input t' i n'). auto. Qed.

End Tree.
