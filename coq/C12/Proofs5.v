(* C12 -- corollaries used by Props.v and the witness of the sibling-key finding. *)
From Coq Require Import List NArith ZArith Arith Bool Lia.
From MV Require Import Common.Cases Gen.C12 C12.Model C12.Proofs C12.Proofs2 C12.Proofs3.
Import ListNotations.
Open Scope list_scope.

Section Cor.
Variable H : bytes -> bytes.
Hypothesis Hlen : forall x, length (H x) = 32.

Lemma gen_from_total : forall ks i, (forall k, In k ks -> k <> []) -> exists L, gen_from H ks i = Some L.
Proof.
  induction ks as [|k ks IH]; intros i NE; simpl.
  - exists []. reflexivity.
  - destruct (IH (S i)) as [acc E]; [intros k' I; apply NE; right; exact I|]. rewrite E.
    unfold node_hash. assert (K : is_nil k = false) by (apply is_nil_false; apply NE; left; reflexivity).
    rewrite K. eexists. reflexivity.
Qed.

Theorem generate_total : forall ks, ks <> [] -> (forall k, In k ks -> k <> []) ->
  exists t, generate H ks = Some t.
Proof.
  intros ks N NE. unfold generate. destruct ks as [|k ks]; [contradiction|]. apply gen_from_total. exact NE.
Qed.

Theorem valid_iff_explicit : forall t,
  is_valid H t = true <->
  (forall i n, nth_error t i = Some n ->
     node_valid n = true /\ nkey n <> [] /\
     nhash n = H (nkey n ++ child_hash t (2 * i + 1) ++ child_hash t (2 * i + 2))).
Proof.
  intro t. rewrite valid_iff. unfold node_spec. split; intros E i n Ei; specialize (E i n Ei).
  - rewrite node_input_eq in E. exact E.
  - rewrite node_input_eq. exact E.
Qed.

Theorem root_changes : forall ks ks' t t',
  generate H ks = Some t -> generate H ks' = Some t' -> length ks = length ks' -> ks <> ks' ->
  child_hash t 0 <> child_hash t' 0 \/ collision H.
Proof.
  intros ks ks' t t' G G' L D.
  destruct (generated_valid H Hlen ks t G) as [V [K _]].
  destruct (generated_valid H Hlen ks' t' G') as [V' [K' _]].
  destruct (bytes_eq_dec (child_hash t 0) (child_hash t' 0)) as [E|E]; auto.
  right. assert (Lt : length t = length t').
  { rewrite <- (map_length nkey t), <- (map_length nkey t'), K, K'. exact L. }
  destruct (root_binds_keys H Hlen t t' Lt V V' E) as [M|C].
  - congruence.
  - apply (collide_at_collision H t t' C).
Qed.

End Cor.

Lemma list_eqb_N_refl : forall a : list N, list_eqb N.eqb a a = true.
Proof. intro a. apply list_eqb_N_eq. reflexivity. Qed.

(* the witness of the known finding proof-sibling-key, for every hash function: tree of three nodes with keys
   [1] [2] [3]; in the proof of key [2] the sibling (position 3) is renamed to [9]; Prove [2] still succeeds *)
Theorem sibling_key_witness : forall H : bytes -> bytes,
  exists t p c c',
    generate H [[1%N]; [2%N]; [3%N]] = Some t /\ extract t [2%N] = Some p /\
    nth_error p 3 = Some c /\ nkey c' <> nkey c /\ nh c' = nh c /\ nempty c' = nempty c /\
    prove H (replace_nth p 3 c') [2%N] = true.
Proof.
  intro H.
  eexists. eexists. eexists. exists (mkNode [9%N] (H ([3%N] ++ [] ++ [])) false).
  split; [reflexivity|]. split; [reflexivity|]. split; [reflexivity|].
  split; [simpl; discriminate|]. split; [reflexivity|]. split; [reflexivity|].
  unfold prove. cbn. unfold bytes_eqb. rewrite !list_eqb_N_refl. reflexivity.
Qed.
