(* C12 -- lemmas about Proof.Prove: soundness relative to a valid tree. *)
From Coq Require Import List NArith ZArith Arith Bool Lia.
From MV Require Import Common.Cases Gen.C12 C12.Model C12.Proofs.
Import ListNotations.
Open Scope list_scope.

Lemma find_index_spec : forall (A : Type) (f : A -> bool) l i0 i,
  find_index f l i0 = Some i ->
  i0 <= i /\ i - i0 < length l /\
  (exists x, nth_error l (i - i0) = Some x /\ f x = true) /\
  (forall j x, j < i - i0 -> nth_error l j = Some x -> f x = false).
Proof.
  induction l as [|y l IH]; intros i0 i E; simpl in E; try discriminate.
  destruct (f y) eqn:F.
  - inversion E; subst i. replace (i0 - i0) with 0 by lia.
    split; [lia|]. split; [simpl; lia|]. split; [exists y; simpl; auto|intros j x Lj; lia].
  - destruct (IH (S i0) i E) as [A1 [A2 [[x [A3 A4]] A5]]].
    replace (i - i0) with (S (i - S i0)) by lia.
    split; [lia|]. split; [simpl; lia|]. split; [exists x; simpl; auto|].
    intros j z Lj Ej. destruct j; simpl in Ej.
    + inversion Ej; subst. exact F.
    + apply (A5 j z); auto. lia.
Qed.

Lemma find_index_none : forall (A : Type) (f : A -> bool) l i0,
  find_index f l i0 = None -> forall x, In x l -> f x = false.
Proof.
  induction l as [|y l IH]; intros i0 E x I; simpl in *; try contradiction.
  destruct (f y) eqn:F; try discriminate. destruct I as [I|I]; subst; auto. apply (IH (S i0)); auto.
Qed.

Lemma levels_one : forall H lvl0 key lh rh a,
  levels H lvl0 key lh rh [a] = match try_cands H lvl0 key lh rh [a] with CPass => true | _ => false end.
Proof. reflexivity. Qed.
Lemma levels_two : forall H lvl0 key lh rh a b,
  levels H lvl0 key lh rh [a; b] = match try_cands H lvl0 key lh rh [a] with CPass => true | _ => false end.
Proof. reflexivity. Qed.
Lemma levels_more : forall H lvl0 key lh rh a b c r,
  levels H lvl0 key lh rh (a :: b :: c :: r) =
  match try_cands H lvl0 key lh rh [a; b] with
  | CPass => levels H false key (nhash a) (nhash b) (c :: r)
  | _ => false
  end.
Proof. reflexivity. Qed.

Lemma last_skipn : forall (A : Type) (l : list A) k d, k < length l -> last (skipn k l) d = last l d.
Proof.
  induction l as [|x l IH]; intros k d L; simpl in L; try lia.
  destruct k; auto. simpl skipn. destruct l as [|y l]; simpl in L; try lia.
  rewrite IH by (simpl; lia). reflexivity.
Qed.

Lemma Forall_skipn : forall (A : Type) (P : A -> Prop) l k, Forall P l -> Forall P (skipn k l).
Proof.
  intros A P l k F. apply Forall_forall. intros x I. rewrite Forall_forall in F. apply F.
  rewrite <- (firstn_skipn k l). apply in_or_app. auto.
Qed.

Lemma In_firstn' : forall (A : Type) (l : list A) k x, In x (firstn k l) -> In x l.
Proof.
  induction l as [|y l IH]; intros k x I; destruct k; simpl in *; try contradiction.
  destruct I as [I|I]; auto. right. apply (IH k). exact I.
Qed.

Section Sound.
Variable H : bytes -> bytes.
Hypothesis Hlen : forall x, length (H x) = 32.

Lemma cand_pass : forall lvl0 key lh rh c, cand H lvl0 key lh rh c = CPass ->
  nempty c = false /\ (lvl0 = true -> nkey c = key) /\ nkey c <> [] /\ nhash c = H (nkey c ++ lh ++ rh).
Proof.
  intros lvl0 key lh rh c E. unfold cand, node_hash in E.
  destruct (nempty c) eqn:Em; try discriminate.
  destruct (lvl0 && negb (key_is key c)) eqn:K; try discriminate.
  destruct (is_nil (nkey c)) eqn:N; try discriminate.
  destruct (bytes_eqb (nhash c) (H (nkey c ++ lh ++ rh))) eqn:B; try discriminate.
  apply bytes_eqb_eq in B. apply is_nil_false in N. repeat split; auto.
  intro L. subst. simpl in K. apply negb_false_iff in K. unfold key_is in K. apply bytes_eqb_eq in K. exact K.
Qed.

Lemma try_pass : forall lvl0 key lh rh cs, try_cands H lvl0 key lh rh cs = CPass ->
  exists c, In c cs /\ cand H lvl0 key lh rh c = CPass.
Proof.
  induction cs as [|c cs IH]; simpl; intro E; try discriminate.
  destruct (cand H lvl0 key lh rh c) eqn:C; try discriminate.
  - exists c. auto.
  - destruct (IH E) as [c' [I C']]. exists c'. auto.
Qed.

Variable t : list node.
Hypothesis V : is_valid H t = true.

Definition in_tree_hash (h : bytes) : Prop := exists i n, nth_error t i = Some n /\ nhash n = h.
Definition len0_32 (h : bytes) : Prop := length h = 0 \/ length h = 32.
(* key lengths of proof node and tree nodes are within 32 of each other (no ambiguity of key ++ hashes) *)
Definition key_near (c : node) : Prop :=
  forall n, In n t -> length (nkey c) < length (nkey n) + 32 /\ length (nkey n) < length (nkey c) + 32.
Definition wf_node (c : node) : Prop := len0_32 (nhash c) /\ key_near c.

(* a passing candidate whose hash is the hash of tree node i carries that node's key and children hashes *)
Definition bound_at (c : node) (lh rh : bytes) : Prop :=
  exists i n, nth_error t i = Some n /\ nhash n = nhash c /\ nkey n = nkey c /\
    lh ++ rh = child_hash t (2 * i + 1) ++ child_hash t (2 * i + 2).

Lemma tree_child_lens : forall i,
  (length (child_hash t (2 * i + 1)) = 32 /\ len0_32 (child_hash t (2 * i + 2))) \/
  (child_hash t (2 * i + 1) = [] /\ child_hash t (2 * i + 2) = []).
Proof.
  intro i. destruct (child_hash_len H Hlen t (2 * i + 1) V) as [A1 A2].
  destruct (child_hash_len H Hlen t (2 * i + 2) V) as [B1 B2].
  destruct (Nat.lt_ge_cases (2 * i + 1) (length t)) as [C|C].
  - left. split; auto. destruct (Nat.lt_ge_cases (2 * i + 2) (length t)) as [D|D].
    + right. auto.
    + left. rewrite B2; auto.
  - right. split; [apply A2; auto|apply B2; lia].
Qed.

Lemma bind_step : forall c lh rh,
  nhash c = H (nkey c ++ lh ++ rh) -> in_tree_hash (nhash c) ->
  len0_32 lh -> len0_32 rh -> key_near c ->
  collision H \/ bound_at c lh rh.
Proof.
  intros c lh rh Hc [i [n [E Hn]]] Ll Lr Kn.
  destruct (valid_node_facts H Hlen t i n V E) as [_ [_ [Hi _]]].
  rewrite node_input_eq in Hi.
  destruct (bytes_eq_dec (nkey c ++ lh ++ rh) (nkey n ++ child_hash t (2 * i + 1) ++ child_hash t (2 * i + 2))) as [Q|Q].
  - right. exists i, n.
    assert (In n t) as I by (eapply nth_error_In; eauto).
    destruct (Kn n I) as [K1 K2].
    assert (LQ : length (nkey c ++ lh ++ rh) = length (nkey n ++ child_hash t (2 * i + 1) ++ child_hash t (2 * i + 2))) by congruence.
    rewrite !app_length in LQ.
    assert (LK : length (nkey c) = length (nkey n)).
    { unfold len0_32 in *. destruct (tree_child_lens i) as [[T1 [T2|T2]]|[T1 T2]];
        try rewrite T1 in LQ; try rewrite T2 in LQ; simpl in LQ; destruct Ll, Lr; lia. }
    apply app_inj_len in Q; auto. destruct Q as [Q1 Q2]. repeat split; auto.
  - left. exists (nkey c ++ lh ++ rh), (nkey n ++ child_hash t (2 * i + 1) ++ child_hash t (2 * i + 2)).
    split; auto. congruence.
Qed.

(* a 32-byte hash among lh, rh that concatenate to the children hashes of node i is the hash of a tree node *)
Lemma child_in_tree : forall i lh rh x,
  lh ++ rh = child_hash t (2 * i + 1) ++ child_hash t (2 * i + 2) ->
  len0_32 lh -> len0_32 rh -> (x = lh \/ x = rh) -> length x = 32 -> in_tree_hash x.
Proof.
  intros i lh rh x E Ll Lr Hx L32.
  assert (Hc : x = child_hash t (2 * i + 1) \/ x = child_hash t (2 * i + 2)).
  { assert (LE : length (lh ++ rh) = length (child_hash t (2 * i + 1) ++ child_hash t (2 * i + 2))) by congruence.
    rewrite !app_length in LE. unfold len0_32 in *.
    destruct (tree_child_lens i) as [[T1 [T2|T2]]|[T1 T2]].
    - (* one child *)
      apply length_zero_iff_nil in T2. rewrite T2, app_nil_r in E. left.
      destruct Hx; subst x.
      + destruct Lr as [Lr|Lr]; [apply length_zero_iff_nil in Lr; subst; rewrite app_nil_r in E; exact E|].
        rewrite T1, T2 in LE. simpl in LE. lia.
      + destruct Ll as [Ll|Ll]; [apply length_zero_iff_nil in Ll; subst; simpl in E; exact E|].
        rewrite T1, T2 in LE. simpl in LE. lia.
    - (* two children *)
      rewrite T1, T2 in LE.
      assert (length lh = 32 /\ length rh = 32) as [A B] by (destruct Ll, Lr; lia).
      apply app_inj_len in E; [|lia]. destruct E as [E1 E2]. destruct Hx; subst; auto.
    - rewrite T1, T2 in LE. simpl in LE. destruct Hx; subst; lia. }
  unfold in_tree_hash. destruct Hc as [Hc|Hc]; unfold child_hash in Hc.
  - destruct (nth_error t (2 * i + 1)) as [n|] eqn:En; [exists (2 * i + 1), n; auto|subst; simpl in L32; lia].
  - destruct (nth_error t (2 * i + 2)) as [n|] eqn:En; [exists (2 * i + 2), n; auto|subst; simpl in L32; lia].
Qed.

Definition hash_ok_b (h : bytes) : Prop := h = [] \/ in_tree_hash h.
Definition hash_ok (n : node) : Prop := hash_ok_b (nhash n).

Lemma halves_ok : forall i lh rh,
  lh ++ rh = child_hash t (2 * i + 1) ++ child_hash t (2 * i + 2) ->
  len0_32 lh -> len0_32 rh -> hash_ok_b lh /\ hash_ok_b rh.
Proof.
  intros i lh rh E Ll Lr. split.
  - destruct Ll as [L|L]; [left; apply length_zero_iff_nil; exact L|right].
    apply (child_in_tree i lh rh lh E (or_intror L) Lr (or_introl eq_refl) L).
  - destruct Lr as [L|L]; [left; apply length_zero_iff_nil; exact L|right].
    apply (child_in_tree i lh rh rh E Ll (or_intror L) (or_intror eq_refl) L).
Qed.

Lemma levels_sound : forall key m rest, length rest <= m ->
  forall lvl0 lh rh, levels H lvl0 key lh rh rest = true -> Nat.odd (length rest) = true ->
  len0_32 lh -> len0_32 rh -> Forall wf_node rest ->
  in_tree_hash (nhash (last rest empty_node)) ->
  collision H \/
  ((exists c, In c rest /\ nempty c = false /\ (lvl0 = true -> nkey c = key) /\ bound_at c lh rh)
   /\ Forall hash_ok rest /\ hash_ok_b lh /\ hash_ok_b rh).
Proof.
  intros key. induction m as [|m IH]; intros rest Lm lvl0 lh rh Lv Od Ll Lr Wf Top.
  - destruct rest; simpl in *; try discriminate; lia.
  - destruct rest as [|a [|b [|c r]]].
    + simpl in Od. discriminate.
    + (* top level *)
      rewrite levels_one in Lv.
      destruct (try_cands H lvl0 key lh rh [a]) eqn:T; try discriminate.
      destruct (try_pass _ _ _ _ _ T) as [x [Ix Cx]]. destruct Ix as [Ix|[]]. subst x.
      destruct (cand_pass _ _ _ _ _ Cx) as [P1 [P2 [P3 P4]]].
      inversion Wf as [|? ? [W1 W2] _]; subst. simpl in Top.
      destruct (bind_step a lh rh P4 Top Ll Lr W2) as [C|B]; auto.
      right. destruct B as [i [n [E [B1 [B2 B3]]]]].
      destruct (halves_ok i lh rh B3 Ll Lr) as [O1 O2].
      split; [|split; [|split; [exact O1|exact O2]]].
      * exists a. simpl. repeat split; auto. exists i, n. auto.
      * constructor; [right; exact Top|constructor].
    + simpl in Od. discriminate.
    + rewrite levels_more in Lv.
      destruct (try_cands H lvl0 key lh rh [a; b]) eqn:T; try discriminate.
      destruct (try_pass _ _ _ _ _ T) as [x [Ix Cx]].
      destruct (cand_pass _ _ _ _ _ Cx) as [P1 [P2 [P3 P4]]].
      inversion Wf as [|? ? [Wa1 Wa2] Wf1]; subst. inversion Wf1 as [|? ? [Wb1 Wb2] Wf2]; subst.
      assert (Od2 : Nat.odd (length (c :: r)) = true) by exact Od.
      assert (Top2 : in_tree_hash (nhash (last (c :: r) empty_node))) by exact Top.
      assert (Lm2 : length (c :: r) <= m) by (simpl in *; lia).
      destruct (IH (c :: r) Lm2 false (nhash a) (nhash b) Lv Od2 Wa1 Wb1 Wf2 Top2)
        as [C|[[c2 [I2 [_ [_ B2]]]] [F2 [Oa Ob]]]]; auto.
      destruct B2 as [i2 [n2 [E2 [_ [_ Q2]]]]].
      assert (Hx : nhash x = nhash a \/ nhash x = nhash b).
      { destruct Ix as [Ix|[Ix|[]]]; subst; auto. }
      assert (L32 : length (nhash x) = 32) by (rewrite P4; apply Hlen).
      pose proof (child_in_tree i2 (nhash a) (nhash b) (nhash x) Q2 Wa1 Wb1 Hx L32) as Tx.
      assert (Wx : key_near x). { destruct Ix as [Ix|[Ix|[]]]; subst; auto. }
      destruct (bind_step x lh rh P4 Tx Ll Lr Wx) as [C|B]; auto.
      right. destruct B as [i [n [E [B1 [B2 B3]]]]].
      destruct (halves_ok i lh rh B3 Ll Lr) as [O1 O2].
      split; [|split; [|split; [exact O1|exact O2]]].
      * exists x. split; [|split; [|split]]; auto.
        -- destruct Ix as [Ix|[Ix|[]]]; subst; simpl; auto.
        -- exists i, n. auto.
      * constructor; [exact Oa|constructor; [exact Ob|exact F2]].
Qed.

Definition wf_proof (p : list node) : Prop := Forall wf_node p.

(* an accepted proof whose last hash is a hash of the tree: the proved key is a key of the tree and every
   hash the verification used is a hash of the tree (or of an absent child) -- or a collision is at hand *)
Theorem prove_sound_strong : forall p key al,
  filter_nodes p key = Some al ->
  prove H p key = true -> Nat.odd (length p) = true -> wf_proof p ->
  in_tree_hash (nhash (last p empty_node)) ->
  collision H \/
  ((exists i n, nth_error t i = Some n /\ nkey n = key) /\
   Forall hash_ok (al_rest al) /\ hash_ok_b (fst (pad_hashes al)) /\ hash_ok_b (snd (pad_hashes al))).
Proof.
  intros p key al F P Od Wf Top. unfold prove in P. rewrite F in P.
  unfold filter_nodes in F. destruct (find_index (key_is key) p 0) as [i|] eqn:FI; try discriminate.
  destruct (find_index_spec _ _ _ _ _ FI) as [_ [Li _]]. rewrite Nat.sub_0_r in Li.
  assert (Pad : forall a b, let al' := mkAligned (pad_of p i a b) [] in
            len0_32 (fst (pad_hashes al')) /\ len0_32 (snd (pad_hashes al'))).
  { intros a b. unfold pad_hashes, pad_of. simpl. destruct (1 <? i); [|simpl; split; left; reflexivity].
    destruct (nth_error p a) as [x|] eqn:Ea; [|simpl; split; left; reflexivity].
    destruct (nth_error p b) as [y|] eqn:Eb; [|simpl; split; left; reflexivity].
    simpl. unfold wf_proof in Wf. rewrite Forall_forall in Wf.
    split; [apply (Wf x); eapply nth_error_In; eauto|apply (Wf y); eapply nth_error_In; eauto]. }
  assert (Fin : forall k a b, Nat.even k = true -> k <= i ->
            let al' := mkAligned (pad_of p i a b) (skipn k p) in
            levels H true key (fst (pad_hashes al')) (snd (pad_hashes al')) (al_rest al') = true ->
            collision H \/
            ((exists i n, nth_error t i = Some n /\ nkey n = key) /\
             Forall hash_ok (al_rest al') /\ hash_ok_b (fst (pad_hashes al')) /\ hash_ok_b (snd (pad_hashes al')))).
  { intros k a b Ev Lk al' Lv.
    assert (Od2 : Nat.odd (length (skipn k p)) = true).
    { rewrite skipn_length. rewrite Nat.odd_sub by lia. rewrite Od. rewrite <- Nat.negb_even. rewrite Ev. reflexivity. }
    assert (Top2 : in_tree_hash (nhash (last (skipn k p) empty_node))) by (rewrite last_skipn by lia; exact Top).
    destruct (Pad a b) as [Pa Pb]. unfold al' in *. unfold pad_hashes in *. simpl in *.
    destruct (levels_sound key (length (skipn k p)) (skipn k p) (le_n _) true _ _ Lv Od2 Pa Pb
                (Forall_skipn _ _ _ k Wf) Top2) as [C|[[c [_ [_ [Kc [j [n [E [_ [Kn _]]]]]]]]] [F2 [O1 O2]]]]; auto.
    right. split; [|split; [|split]]; auto.
    exists j, n. split; auto. rewrite Kn. apply Kc. reflexivity. }
  destruct (Nat.even i) eqn:Ev.
  - inversion F; subst al; clear F. apply (Fin i (i - 2) (i - 1)); auto.
  - destruct (i + 1 =? length p) eqn:Last.
    + apply Nat.eqb_eq in Last. exfalso. rewrite <- Last in Od.
      rewrite Nat.add_1_r, Nat.odd_succ in Od. congruence.
    + inversion F; subst al; clear F.
      assert (i <> 0) by (intro; subst; simpl in Ev; discriminate).
      apply (Fin (i - 1) (i - 3) (i - 2)); auto; try lia.
      replace i with (S (i - 1)) in Ev by lia. rewrite Nat.even_succ in Ev.
      rewrite <- Nat.negb_odd. rewrite Ev. reflexivity.
Qed.

Theorem prove_sound : forall p key,
  prove H p key = true -> Nat.odd (length p) = true -> wf_proof p ->
  in_tree_hash (nhash (last p empty_node)) ->
  collision H \/ exists i n, nth_error t i = Some n /\ nkey n = key.
Proof.
  intros p key P Od Wf Top.
  destruct (filter_nodes p key) as [al|] eqn:F.
  - destruct (prove_sound_strong p key al F P Od Wf Top) as [C|[M _]]; auto.
  - unfold prove in P. rewrite F in P. discriminate.
Qed.

(* the node that passes the first level carries the proved key and its hash is taken over that key *)
Theorem prove_binds_key : forall p key, prove H p key = true ->
  exists c lh rh, In c p /\ nempty c = false /\ nkey c = key /\ nhash c = H (key ++ lh ++ rh).
Proof.
  intros p key P. unfold prove in P.
  destruct (filter_nodes p key) as [al|] eqn:F; try discriminate.
  assert (Sub : forall x, In x (al_rest al) -> In x p).
  { unfold filter_nodes in F. destruct (find_index (key_is key) p 0) as [i|]; try discriminate.
    intros x I. destruct (Nat.even i); [|destruct (i + 1 =? length p)]; inversion F; subst al; cbn [al_rest] in I.
    - rewrite <- (firstn_skipn i p). apply in_or_app. auto.
    - assert (I' : In x (firstn 1 (skipn i p))) by exact I. apply In_firstn' in I'. rewrite <- (firstn_skipn i p). apply in_or_app. auto.
    - rewrite <- (firstn_skipn (i - 1) p). apply in_or_app. auto. }
  assert (NE : al_rest al <> []).
  { unfold filter_nodes in F. destruct (find_index (key_is key) p 0) as [i|] eqn:FI; try discriminate.
    destruct (find_index_spec _ _ _ _ _ FI) as [_ [Li _]]. rewrite Nat.sub_0_r in Li.
    assert (SK : forall k, k < length p -> skipn k p <> []).
    { intros k Lk C. assert (length (skipn k p) = 0) by (rewrite C; reflexivity). rewrite skipn_length in H0. lia. }
    destruct (Nat.even i); [|destruct (i + 1 =? length p)]; inversion F; subst al; cbn [al_rest].
    - apply SK; lia.
    - specialize (SK i Li). destruct (skipn i p); [contradiction|simpl; discriminate].
    - apply SK; lia. }
  set (lh := fst (pad_hashes al)) in *. set (rh := snd (pad_hashes al)) in *.
  assert (T : exists cs, (forall x, In x cs -> In x (al_rest al)) /\ try_cands H true key lh rh cs = CPass).
  { destruct (al_rest al) as [|a [|b [|c r]]] eqn:R; [contradiction| | |].
    - rewrite levels_one in P. exists [a]. split; [intros x I; exact I|].
      destruct (try_cands H true key lh rh [a]); auto; discriminate.
    - rewrite levels_two in P. exists [a]. split; [intros x [I|[]]; subst; simpl; auto|].
      destruct (try_cands H true key lh rh [a]); auto; discriminate.
    - rewrite levels_more in P. exists [a; b]. split; [intros x [I|[I|[]]]; subst; simpl; auto|].
      destruct (try_cands H true key lh rh [a; b]); auto; discriminate. }
  destruct T as [cs [Ics T]]. destruct (try_pass _ _ _ _ _ T) as [c [Ic Cc]].
  destruct (cand_pass _ _ _ _ _ Cc) as [P1 [P2 [P3 P4]]].
  exists c, lh, rh. rewrite (P2 eq_refl) in P4. repeat split; auto.
Qed.

End Sound.
