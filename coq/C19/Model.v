(* C19 -- database reads agree with the committed chain.  Executable model, no proofs.

   Transcribes (after the three fix: commits, see notes/C19.md)
     isaac/database/center.go        Center reads, MergeBlockWriteDatabase, mergePermanent/mergeToPermanent,
                                     removeTemp, RemoveBlocks, cleanRemoved, findTemp, state/dig,
                                     suffrageProofInTemps
     isaac/database/temp_leveldb.go  TempLeveldb (in-memory fields + its prefix storage)
     isaac/database/block_write.go   LeveldbBlockWrite (what one block write puts under its prefix)
     isaac/database/perm_leveldb.go  LeveldbPermanent reads, mergeTempDatabaseFromLeveldb
     isaac/database/perm_base.go     basePermanent (last block map / last proof / policy, updateLast)

   Objects (block maps, states, suffrage proofs, policies, operation hashes) are opaque ids (N); the
   fields the code branches on are kept next to the id (height of a map, suffrage height and block height
   of a proof, kind of a state).  A value stored by EncodeOneHeaderFrame is the object; reading it back
   as bytes yields the triple (object, meta present, body present), so that "a field was not loaded"
   is representable ([framed]).

   The key-value storage under one prefix is modelled partitioned by key prefix (one association list
   per leveldbKeyPrefix* the code uses here; a Put is a cons, a Get the first match, "Iter descending,
   first" the entry with the greatest key).  Caches (stcache, instateoperationcache of the permanent
   database, state cache of a temp) are not modelled: they are meant to be transparent, and the
   correspondence + oracle check that they are.

   The PERMANENT STORE part (store, perm, perm_merge, perm_load, perm_* reads) does not mention temps
   or the center and is meant to be reused (C20 reopen, C21 crash atomicity, C26 Redis permanent). *)
From Coq Require Import ZArith NArith List Bool.
From MV Require Import Common.Cases.
Import ListNotations.
Open Scope Z_scope.

(* ------------------------------------------------------------------ objects *)

Record mapv := mkMapv { m_id : N; m_h : Z }.
Record proofv := mkProofv { pf_id : N; pf_sh : Z; pf_h : Z }.   (* suffrage height; height of its block/state *)
Inductive skind := SPlain | SSuf (sh : Z) | SPol (p : N).
Record statev := mkStatev { st_id : N; st_h : Z; st_kind : skind }.

(* a block as written through LeveldbBlockWrite.  Key 0 = isaac.SuffrageStateKey, key 1 =
   isaac.NetworkPolicyStateKey; ordinary states use keys >= 2.
   b_suf = (suffrage height, suffrage state id, suffrage proof id), b_pol = (policy state id, policy id). *)
Record block := mkBlock {
  b_h : Z; b_map : N; b_states : list (N * N);
  b_suf : option (Z * N * N); b_pol : option (N * N);
  b_instate : list N; b_known : list N }.

Definition key_suf : N := 0%N.
Definition key_pol : N := 1%N.

(* (object, meta present, body present) *)
Definition framed (A : Type) : Type := (A * bool * bool)%type.
Definition fv {A} (x : framed A) : A := fst (fst x).
Definition full {A} (x : A) : framed A := (x, true, true).

Fixpoint lookupN {A} (k : N) (l : list (N * A)) : option A :=
  match l with
  | [] => None
  | (k', v) :: r => if N.eqb k k' then Some v else lookupN k r
  end.

Fixpoint lookupZ {A} (k : Z) (l : list (Z * A)) : option A :=
  match l with
  | [] => None
  | (k', v) :: r => if Z.eqb k k' then Some v else lookupZ k r
  end.

Definition memN (x : N) (l : list N) : bool := existsb (N.eqb x) l.

(* entry with the greatest key ("Iter(prefix, descending), first"); the first one on equal keys
   (a later Put of the same key replaces the earlier one: newest entries are in front) *)
Fixpoint amax {A} (l : list (Z * A)) : option (Z * A) :=
  match l with
  | [] => None
  | (k, v) :: r =>
      match amax r with
      | Some (k', v') => if k' >? k then Some (k', v') else Some (k, v)
      | None => Some (k, v)
      end
  end.

Definition amax_le {A} (h : Z) (l : list (Z * A)) : option (Z * A) :=
  amax (filter (fun e => fst e <=? h) l).

(* ------------------------------------------------------------------ what a block puts in its storage *)

Definition block_map (b : block) : mapv := mkMapv (b_map b) (b_h b).

Definition block_proof (b : block) : option proofv :=
  match b_suf b with Some (sh, _, pid) => Some (mkProofv pid sh (b_h b)) | None => None end.

Definition block_policy (b : block) : option N :=
  match b_pol b with Some (_, p) => Some p | None => None end.

(* SetStates: every state of the block, under its key *)
Definition block_states (b : block) : list (N * statev) :=
  (match b_suf b with Some (sh, sid, _) => [(key_suf, mkStatev sid (b_h b) (SSuf sh))] | None => [] end) ++
  (match b_pol b with Some (sid, p) => [(key_pol, mkStatev sid (b_h b) (SPol p))] | None => [] end) ++
  map (fun e => (fst e, mkStatev (snd e) (b_h b) SPlain)) (b_states b).

(* ================================================================== PERMANENT STORE (reusable part) *)

(* one prefix storage, partitioned by key prefix:
     s_states     leveldbKeyPrefixState + key                 -> state
     s_instate    leveldbKeyPrefixInStateOperation + facthash
     s_known      leveldbKeyPrefixKnownOperation + ophash
     s_maps       leveldbKeyPrefixBlockMap + height           -> block map
     s_proofs     leveldbKeySuffrageProof + suffrage height   -> proof
     s_proofs_bh  leveldbKeySuffrageProofByBlockHeight + height -> proof
     s_merged     leveldbKeyTempMerged + height
   s_ghost is a history variable (the blocks whose data went into this storage, newest first); no
   read of the implementation model looks at it; it only defines the abstraction function. *)
Record store := mkStore {
  s_states : list (N * statev); s_instate : list N; s_known : list N;
  s_maps : list (Z * mapv); s_proofs : list (Z * proofv); s_proofs_bh : list (Z * proofv);
  s_merged : list Z; s_ghost : list block }.

Definition store_empty : store := mkStore [] [] [] [] [] [] [] [].

(* Batch-put every key of [t] into [p] (mergeTempDatabaseFromLeveldb: tpst.Iter -> batch.Put) *)
Definition store_merge (t p : store) : store :=
  mkStore (s_states t ++ s_states p) (s_instate t ++ s_instate p) (s_known t ++ s_known p)
          (s_maps t ++ s_maps p) (s_proofs t ++ s_proofs p) (s_proofs_bh t ++ s_proofs_bh p)
          (s_merged t ++ s_merged p) (s_ghost t ++ s_ghost p).

(* LeveldbBlockWrite: SetBlockMap, SetStates, SetOperations, SetSuffrageProof; TempLeveldb.Merge marker *)
Definition store_of_block (b : block) : store :=
  mkStore (block_states b) (b_instate b) (b_known b)
          [(b_h b, block_map b)]
          (match block_proof b with Some p => [(pf_sh p, p)] | None => [] end)
          (match block_proof b with Some p => [(b_h b, p)] | None => [] end)
          [b_h b] [b].

(* baseLeveldb.loadNetworkPolicy: the policy of the state stored under the network policy key;
   None = error ("not NetworkPolicy state"), Some None = no such state *)
Definition load_policy (s : store) : option (option N) :=
  match lookupN key_pol (s_states s) with
  | Some st => match st_kind st with SPol p => Some (Some p) | _ => None end
  | None => Some None
  end.

(* LeveldbPermanent = storage + basePermanent's in-memory last block map / last proof / policy *)
Record perm := mkPerm {
  p_store : store;
  p_mp : option (framed mapv);
  p_proof : option (framed proofv);
  p_policy : option N }.

Definition perm_empty : perm := mkPerm store_empty None None None.

(* NewLeveldbPermanent on an existing storage: loadLastBlockMap (greatest block map key),
   loadLastSuffrageProof (greatest suffrage height key; meta AND body, after the fix), loadNetworkPolicy.
   None = the constructor returns an error. *)
Definition perm_load (s : store) : option perm :=
  match load_policy s with
  | None => None
  | Some pol =>
      Some (mkPerm s
              (option_map (fun e => full (snd e)) (amax (s_maps s)))
              (option_map (fun e => full (snd e)) (amax (s_proofs s)))
              pol)
  end.

(* what mergeTempDatabaseFromLeveldb takes from the temp: its storage and in-memory fields *)
Record temp := mkTemp {
  t_store : store;
  t_mp : framed mapv;                (* mp, mpmeta, mpbody *)
  t_sufst : option Z;                (* SuffrageHeight() of sufst *)
  t_proof : option (framed proofv);  (* proof, proofmeta, proofbody *)
  t_policy : option N;
  t_instate : list N }.              (* instateoperationcache *)

Definition t_h (t : temp) : Z := m_h (fv (t_mp t)).

(* mergeTempDatabaseFromLeveldb + basePermanent.updateLast *)
Definition perm_merge (p : perm) (t : temp) : perm :=
  let st := store_merge (t_store t) (p_store p) in
  let old := match p_mp p with Some lm => t_h t <=? m_h (fv lm) | None => false end in
  if old then mkPerm st (p_mp p) (p_proof p) (p_policy p)
  else mkPerm st (Some (t_mp t))
         (match t_proof t with Some pr => Some pr | None => p_proof p end)
         (match t_policy t with Some pl => Some pl | None => p_policy p end).

Definition perm_state (p : perm) (k : N) : option statev := lookupN k (s_states (p_store p)).

Definition perm_blockmap (p : perm) (h : Z) : option (framed mapv) :=
  match p_mp p with
  | None => None
  | Some lm => if m_h (fv lm) =? h then Some lm else option_map full (lookupZ h (s_maps (p_store p)))
  end.

(* SuffrageProof / SuffrageProofBytes: compareWithLastSuffrageProof, then Get(leveldbSuffrageProofKey) *)
Definition perm_suf (p : perm) (sh : Z) : option (framed proofv) :=
  let stored := option_map full (lookupZ sh (s_proofs (p_store p))) in
  match p_proof p with
  | Some lp => if pf_sh (fv lp) =? sh then Some lp else stored
  | None => stored
  end.

Definition perm_sufbh (p : perm) (h : Z) : option (framed proofv) :=
  match p_mp p with
  | None => None
  | Some lm =>
      if h >? m_h (fv lm) then None else
      match p_proof p with
      | None => None
      | Some lp =>
          if h >=? pf_h (fv lp) then Some lp
          else option_map (fun e => full (snd e)) (amax_le h (s_proofs_bh (p_store p)))
      end
  end.

(* basePermanent.LastSuffrageProofBytes needs lenc, which is set together with the last block map *)
Definition perm_lastsuf_bytes (p : perm) : option (framed proofv) :=
  match p_mp p with None => None | Some _ => p_proof p end.

Definition perm_instate (p : perm) (o : N) : bool := memN o (s_instate (p_store p)).
Definition perm_known (p : perm) (o : N) : bool := memN o (s_known (p_store p)).

(* ================================================================== TEMPS AND CENTER *)

(* newTempLeveldbFromBlockWriteStorage *)
Definition temp_of_block (b : block) : temp :=
  mkTemp (store_of_block b) (full (block_map b))
         (match b_suf b with Some (sh, _, _) => Some sh | None => None end)
         (option_map full (block_proof b))
         (block_policy b)
         (b_instate b).

Record center := mkCenter { c_perm : perm; c_temps : list temp; c_removed : list temp }.

Definition center_init : center := mkCenter perm_empty [] [].

Inductive op := Write (b : block) | MergePerm | RemoveBlocks (h : Z) | CleanRemoved (limit : nat).

(* MergeBlockWriteDatabase: new temp must be at previous height + 1 (when there is a previous height) *)
Definition pre_height (c : center) : Z :=
  match c_temps c with
  | t :: _ => t_h t
  | [] => match p_mp (c_perm c) with Some lm => m_h (fv lm) | None => -1 end
  end.

Definition step_write (c : center) (b : block) : center * bool :=
  let pre := pre_height c in
  if (pre >? -1) && negb (b_h b =? pre + 1) then (c, false)
  else (mkCenter (c_perm c) (temp_of_block b :: c_temps c) (c_removed c), true).

Fixpoint remove_nth {A} (n : nat) (l : list A) : list A :=
  match l, n with
  | [], _ => []
  | _ :: r, O => r
  | x :: r, S n' => x :: remove_nth n' r
  end.

(* mergeToPermanent + removeTemp: the oldest temp goes to the permanent store when >= 2 temps exist.
   (removeTemp's "not found" error branch: the permanent store keeps the merged data, the temp stays) *)
Definition step_merge (c : center) : center * bool :=
  match c_temps c with
  | [] | [_] => (c, false)
  | t0 :: _ =>
      let t := last (c_temps c) t0 in
      let p' := perm_merge (c_perm c) t in
      let found := t_h t0 - t_h t in
      if (found <? 0) || (found >=? Z.of_nat (length (c_temps c)))
      then (mkCenter p' (c_temps c) (c_removed c), false)
      else (mkCenter p' (remove_nth (Z.to_nat found) (c_temps c)) (c_removed c ++ [t]), true)
  end.

Fixpoint index_of_height (h : Z) (ts : list temp) : option nat :=
  match ts with
  | [] => None
  | t :: r => if t_h t =? h then Some O else option_map S (index_of_height h r)
  end.

Definition step_remove (c : center) (h : Z) : center * bool :=
  match c_temps c with
  | [] => (c, false)
  | t0 :: _ =>
      if h >? t_h t0 then (c, false) else
      match index_of_height h (c_temps c) with
      | None => (c, false)
      | Some i => (mkCenter (c_perm c) (skipn (S i) (c_temps c)) (c_removed c), true)
      end
  end.

(* cleanRemoved(limit): keep the last [limit] removed temps *)
Definition step_clean (c : center) (limit : nat) : center * bool :=
  if Nat.leb (length (c_removed c)) limit then (c, true)
  else (mkCenter (c_perm c) (c_temps c) (skipn (length (c_removed c) - limit) (c_removed c)), true).

Definition step (c : center) (o : op) : center * bool :=
  match o with
  | Write b => step_write c b
  | MergePerm => step_merge c
  | RemoveBlocks h => step_remove c h
  | CleanRemoved n => step_clean c n
  end.

Definition run_from (c : center) (ops : list op) : center := fold_left (fun c o => fst (step c o)) ops c.
Definition run (ops : list op) : center := run_from center_init ops.

(* ------------------------------------------------------------------ reads of the Center *)

(* Center.state + dig: every temp is visited (in an order decided by the scheduler: [ts] is that
   order) under the lock of the height guard: skipped when its height is not above the guard; when it
   has the key, the guard becomes its height and the value its state *)
Definition dig_step (k : N) (acc : Z * option statev) (t : temp) : Z * option statev :=
  if t_h t <=? fst acc then acc
  else match lookupN k (s_states (t_store t)) with
       | Some st => (t_h t, Some st)
       | None => acc
       end.

Definition state_dig (ts : list temp) (k : N) : option statev :=
  snd (fold_left (dig_step k) ts (-1, None)).

(* the read as a function of the visiting order [ts] of the temps *)
Definition c_state_order (c : center) (ts : list temp) (k : N) : option statev :=
  match state_dig ts k with
  | Some st => Some st
  | None => perm_state (c_perm c) k
  end.

Definition c_state (c : center) (k : N) : option statev := c_state_order c (c_temps c) k.

Definition find_temp (ts : list temp) (h : Z) : option temp :=
  match ts with
  | [] => None
  | t0 :: _ =>
      let f := t_h t0 - h in
      if (0 <=? f) && (f <? Z.of_nat (length ts)) then nth_error ts (Z.to_nat f) else None
  end.

Definition c_blockmap (c : center) (h : Z) : option (framed mapv) :=
  match c_temps c with
  | [] => perm_blockmap (c_perm c) h
  | t0 :: _ =>
      if t_h t0 <? h then None else
      match find_temp (c_temps c) h with
      | Some t => Some (t_mp t)
      | None => perm_blockmap (c_perm c) h
      end
  end.

Definition c_lastmap (c : center) : option (framed mapv) :=
  match c_temps c with
  | t0 :: _ => Some (t_mp t0)
  | [] => p_mp (c_perm c)
  end.

(* suffrageProofInTemps (after the fix: only the temp whose suffrage height IS the asked one) *)
Fixpoint suf_in_temps (ts : list temp) (sh : Z) : option (framed proofv) :=
  match ts with
  | [] => None
  | t :: r =>
      match t_sufst t with
      | None => suf_in_temps r sh
      | Some s =>
          if negb (s =? sh) then suf_in_temps r sh
          else match t_proof t with Some p => Some p | None => suf_in_temps r sh end
      end
  end.

Definition c_suf (c : center) (sh : Z) : option (framed proofv) :=
  match suf_in_temps (c_temps c) sh with
  | Some p => Some p
  | None => perm_suf (c_perm c) sh
  end.

(* first temp (newest first) not above h that has a proof *)
Fixpoint first_proof_le (ts : list temp) (h : Z) : option (framed proofv) :=
  match ts with
  | [] => None
  | t :: r =>
      if t_h t >? h then first_proof_le r h
      else match t_proof t with Some p => Some p | None => first_proof_le r h end
  end.

(* SuffrageProofByBlockHeight for h >= 0 (after the fix: below the temps the permanent store is asked
   for h itself) *)
Definition c_sufbh (c : center) (h : Z) : option (framed proofv) :=
  match c_temps c with
  | [] => perm_sufbh (c_perm c) h
  | t0 :: _ =>
      if h >? t_h t0 then None else
      match find_temp (c_temps c) h with
      | Some th =>
          match t_proof th with
          | Some p => Some p
          | None =>
              match first_proof_le (c_temps c) h with
              | Some p => Some p
              | None => perm_sufbh (c_perm c) (t_h (last (c_temps c) t0) - 1)
              end
          end
      | None => perm_sufbh (c_perm c) h
      end
  end.

Fixpoint first_temp_proof (ts : list temp) : option (framed proofv) :=
  match ts with
  | [] => None
  | t :: r => match t_proof t with Some p => Some p | None => first_temp_proof r end
  end.

Definition c_lastsuf (c : center) : option (framed proofv) :=
  match first_temp_proof (c_temps c) with
  | Some p => Some p
  | None => p_proof (c_perm c)
  end.

Definition c_lastsuf_bytes (c : center) : option (framed proofv) :=
  match first_temp_proof (c_temps c) with
  | Some p => Some p
  | None => perm_lastsuf_bytes (c_perm c)
  end.

Fixpoint first_temp_policy (ts : list temp) : option N :=
  match ts with
  | [] => None
  | t :: r => match t_policy t with Some p => Some p | None => first_temp_policy r end
  end.

Definition c_policy (c : center) : option N :=
  match first_temp_policy (c_temps c) with
  | Some p => Some p
  | None => p_policy (c_perm c)
  end.

Definition c_instate (c : center) (o : N) : bool :=
  existsb (fun t => memN o (t_instate t)) (c_temps c) || perm_instate (c_perm c) o.

Definition c_known (c : center) (o : N) : bool :=
  existsb (fun t => memN o (s_known (t_store t))) (c_temps c) || perm_known (c_perm c) o.

(* ------------------------------------------------------------------ reads as numbers (shared with the harness) *)

Inductive read :=
| RState (k : N) | RStateB (k : N) | RMap (h : Z) | RMapB (h : Z) | RLastMap | RLastMapB
| RSuf (sh : Z) | RSufB (sh : Z) | RSufBH (h : Z) | RLastSuf | RLastSufB | RPolicy
| RInState (o : N) | RKnown (o : N).

(* -1 not found, -2 error, object reads: id, bytes reads: 4*id + 2*meta + body, boolean reads: 0/1 *)
Definition enc_id (o : option N) : Z := match o with Some i => Z.of_N i | None => -1 end.
Definition enc_fr (o : option (N * bool * bool)) : Z :=
  match o with
  | Some (i, m, b) => 4 * Z.of_N i + (if m then 2 else 0) + (if b then 1 else 0)
  | None => -1
  end.
Definition enc_bool (b : bool) : Z := if b then 1 else 0.

Definition fr_id {A} (f : A -> N) (x : option (framed A)) : option N := option_map (fun y => f (fv y)) x.
Definition fr_fr {A} (f : A -> N) (x : option (framed A)) : option (N * bool * bool) :=
  option_map (fun y => (f (fv y), snd (fst y), snd y)) x.

Definition eval_read (c : center) (r : read) : Z :=
  match r with
  | RState k => enc_id (option_map st_id (c_state c k))
  | RStateB k => enc_fr (option_map (fun s => (st_id s, true, true)) (c_state c k))
  | RMap h => enc_id (fr_id m_id (c_blockmap c h))
  | RMapB h => enc_fr (fr_fr m_id (c_blockmap c h))
  | RLastMap => enc_id (fr_id m_id (c_lastmap c))
  | RLastMapB => enc_fr (fr_fr m_id (c_lastmap c))
  | RSuf sh => enc_id (fr_id pf_id (c_suf c sh))
  | RSufB sh => enc_fr (fr_fr pf_id (c_suf c sh))
  | RSufBH h => if h <? 0 then -2 else enc_id (fr_id pf_id (c_sufbh c h))
  | RLastSuf => enc_id (fr_id pf_id (c_lastsuf c))
  | RLastSufB => enc_fr (fr_fr pf_id (c_lastsuf_bytes c))
  | RPolicy => enc_id (c_policy c)
  | RInState o => enc_bool (c_instate c o)
  | RKnown o => enc_bool (c_known c o)
  end.

(* ------------------------------------------------------------------ specification: keep all committed blocks *)

(* chain = committed blocks, newest first *)
Fixpoint spec_state (ch : list block) (k : N) : option statev :=
  match ch with
  | [] => None
  | b :: r => match lookupN k (block_states b) with Some s => Some s | None => spec_state r k end
  end.

Fixpoint spec_map (ch : list block) (h : Z) : option mapv :=
  match ch with
  | [] => None
  | b :: r => if b_h b =? h then Some (block_map b) else spec_map r h
  end.

Definition spec_lastmap (ch : list block) : option mapv :=
  match ch with b :: _ => Some (block_map b) | [] => None end.

Fixpoint spec_suf (ch : list block) (sh : Z) : option proofv :=
  match ch with
  | [] => None
  | b :: r =>
      match block_proof b with
      | Some p => if pf_sh p =? sh then Some p else spec_suf r sh
      | None => spec_suf r sh
      end
  end.

(* newest proof among the blocks not above h *)
Fixpoint spec_proof_le (ch : list block) (h : Z) : option proofv :=
  match ch with
  | [] => None
  | b :: r =>
      if b_h b >? h then spec_proof_le r h
      else match block_proof b with Some p => Some p | None => spec_proof_le r h end
  end.

Definition spec_sufbh (ch : list block) (h : Z) : option proofv :=
  match ch with
  | [] => None
  | b0 :: _ => if h >? b_h b0 then None else spec_proof_le ch h
  end.

Fixpoint spec_lastsuf (ch : list block) : option proofv :=
  match ch with
  | [] => None
  | b :: r => match block_proof b with Some p => Some p | None => spec_lastsuf r end
  end.

Fixpoint spec_policy (ch : list block) : option N :=
  match ch with
  | [] => None
  | b :: r => match block_policy b with Some p => Some p | None => spec_policy r end
  end.

Definition spec_instate (ch : list block) (o : N) : bool := existsb (fun b => memN o (b_instate b)) ch.
Definition spec_known (ch : list block) (o : N) : bool := existsb (fun b => memN o (b_known b)) ch.

Definition full_id (o : option N) : option (N * bool * bool) := option_map (fun i => (i, true, true)) o.

Definition spec_read (ch : list block) (r : read) : Z :=
  match r with
  | RState k => enc_id (option_map st_id (spec_state ch k))
  | RStateB k => enc_fr (full_id (option_map st_id (spec_state ch k)))
  | RMap h => enc_id (option_map m_id (spec_map ch h))
  | RMapB h => enc_fr (full_id (option_map m_id (spec_map ch h)))
  | RLastMap => enc_id (option_map m_id (spec_lastmap ch))
  | RLastMapB => enc_fr (full_id (option_map m_id (spec_lastmap ch)))
  | RSuf sh => enc_id (option_map pf_id (spec_suf ch sh))
  | RSufB sh => enc_fr (full_id (option_map pf_id (spec_suf ch sh)))
  | RSufBH h => if h <? 0 then -2 else enc_id (option_map pf_id (spec_sufbh ch h))
  | RLastSuf => enc_id (option_map pf_id (spec_lastsuf ch))
  | RLastSufB => enc_fr (full_id (option_map pf_id (spec_lastsuf ch)))
  | RPolicy => enc_id (spec_policy ch)
  | RInState o => enc_bool (spec_instate ch o)
  | RKnown o => enc_bool (spec_known ch o)
  end.

(* abstraction: the committed chain of an implementation state = the ghost blocks of the temps
   (newest first) followed by those merged into the permanent store *)
Definition abs (c : center) : list block :=
  flat_map (fun t => s_ghost (t_store t)) (c_temps c) ++ s_ghost (p_store (c_perm c)).

(* ------------------------------------------------------------------ correspondence *)

Record cfg := mkCfg { g_nkeys : N; g_hlo : Z; g_hhi : Z; g_shhi : Z; g_nin : N; g_nkn : N }.

Definition zrange (lo hi : Z) : list Z := map (fun i => lo + Z.of_nat i) (seq 0 (Z.to_nat (hi - lo + 1))).
Definition nrange (n : N) : list N := map N.of_nat (seq 0 (S (N.to_nat n))).

(* the order harness/cmd/c19/chain.ReadAll uses *)
Definition all_reads (g : cfg) : list read :=
  map RState (nrange (g_nkeys g)) ++ map RStateB (nrange (g_nkeys g)) ++
  map RMap (zrange (g_hlo g) (g_hhi g)) ++ map RMapB (zrange (g_hlo g) (g_hhi g)) ++
  [RLastMap; RLastMapB] ++
  map RSuf (zrange (-1) (g_shhi g)) ++ map RSufB (zrange (-1) (g_shhi g)) ++
  map RSufBH (zrange (g_hlo g) (g_hhi g)) ++
  [RLastSuf; RLastSufB; RPolicy] ++
  map RInState (nrange (g_nin g)) ++ map RKnown (nrange (g_nkn g)).

(* one case = one history.  cs_init: every read of the implementation on the empty database;
   then per step: the op, its outcome flag, and the reads that CHANGED with respect to the previous step
   as (index in all_reads, new value) -- the full observation vector is rebuilt here, nothing is lost,
   the case files just stay small *)
Record case := mkCase { cs_cfg : cfg; cs_init : list Z; cs_steps : list (op * bool * list (Z * Z)) }.

Fixpoint patch_from (i : Z) (obs : list Z) (d : list (Z * Z)) : list Z :=
  match obs with
  | [] => []
  | x :: r => (match lookupZ i d with Some v => v | None => x end) :: patch_from (i + 1) r d
  end.

Definition patch (obs : list Z) (d : list (Z * Z)) : list Z := patch_from 0 obs d.

Fixpoint check_steps (g : cfg) (c : center) (prev : list Z) (steps : list (op * bool * list (Z * Z))) : bool :=
  match steps with
  | [] => true
  | (o, ok, d) :: r =>
      let c' := fst (step c o) in
      let obs := patch prev d in
      Bool.eqb ok (snd (step c o)) &&
      list_eqb Z.eqb (map (eval_read c') (all_reads g)) obs &&
      check_steps g c' obs r
  end.

Definition check (cs : case) : bool :=
  list_eqb Z.eqb (map (eval_read center_init) (all_reads (cs_cfg cs))) (cs_init cs) &&
  check_steps (cs_cfg cs) center_init (cs_init cs) (cs_steps cs).
