(* C19 -- lemmas, part 3: the State read does not depend on the order in which the temps are visited;
   reads of a key never go back to an older state; reads concurrent with merges / cleans. *)
From Coq Require Import ZArith NArith List Bool Lia ZifyBool ZifyNat Permutation.
From MV Require Import C19.Model C19.Proofs C19.Refine.
Import ListNotations.
Open Scope Z_scope.

(* ------------------------------------------------------------------ order independence of Center.state *)

(* two visits commute when the temps have different heights *)
Lemma dig_step_comm : forall k acc t1 t2, t_h t1 <> t_h t2 ->
  dig_step k (dig_step k acc t1) t2 = dig_step k (dig_step k acc t2) t1.
Proof.
  intros k [g v] t1 t2 Hne. unfold dig_step. cbn [fst].
  destruct (lookupN k (s_states (t_store t1))) as [s1|]; destruct (lookupN k (s_states (t_store t2))) as [s2|];
    destruct (t_h t1 <=? g) eqn:E1; destruct (t_h t2 <=? g) eqn:E2; cbn [fst];
    rewrite ?E1, ?E2; cbn [fst];
    repeat match goal with
           | |- context [?a <=? ?b] => let E := fresh "E" in destruct (a <=? b) eqn:E; cbn [fst]
           end; try reflexivity; exfalso; lia.
Qed.

Lemma dig_perm : forall k l l', Permutation l l' -> NoDup (map t_h l) ->
  forall acc, fold_left (dig_step k) l acc = fold_left (dig_step k) l' acc.
Proof.
  intros k l l' HP. induction HP as [|x l l' HP IH|x y l|l l' l'' HP1 IH1 HP2 IH2]; intros Hnd acc.
  - reflexivity.
  - simpl. apply IH. inversion Hnd; assumption.
  - simpl. rewrite dig_step_comm; [reflexivity|].
    simpl in Hnd. inversion Hnd as [|? ? Hnin _]. intros Heq. apply Hnin. left. symmetry. exact Heq.
  - rewrite IH1 by assumption. apply IH2.
    eapply Permutation_NoDup; [|exact Hnd]. apply Permutation_map. exact HP1.
Qed.

Lemma consec_nodup_heights : forall tb, consec tb -> NoDup (map b_h tb).
Proof.
  induction tb as [|b r IH]; intros Hc; [constructor|].
  simpl. constructor; [|apply IH; eapply consec_tail; eauto].
  intros Hin. apply in_map_iff in Hin. destruct Hin as (x & Hx & Hin).
  pose proof (consec_lt _ _ Hc x Hin). lia.
Qed.

Lemma state_dig_order : forall tb ts k, consec tb -> Permutation ts (map temp_of_block tb) ->
  state_dig ts k = spec_state tb k.
Proof.
  intros tb ts k Hc HP. rewrite <- (dig_temps tb k Hc). unfold state_dig. f_equal.
  apply dig_perm; [exact HP|].
  eapply Permutation_NoDup; [apply Permutation_map; apply Permutation_sym; exact HP|].
  rewrite map_map. simpl. apply consec_nodup_heights. exact Hc.
Qed.

Lemma c_state_any_order : forall c ts k, Inv c -> Permutation ts (c_temps c) -> c_state_order c ts k = c_state c k.
Proof.
  intros c ts k (tb & pc & Ht & Hp & Hc) HP. unfold c_state, c_state_order.
  pose proof (consec_app_l _ _ Hc) as Hct.
  rewrite Ht in *. rewrite (state_dig_order tb ts k Hct HP), dig_temps by exact Hct. reflexivity.
Qed.

(* ------------------------------------------------------------------ reads never go back to an older state *)

Lemma block_states_height : forall b k s, lookupN k (block_states b) = Some s -> st_h s = b_h b.
Proof.
  intros b k s. unfold block_states. rewrite !lookupN_app.
  destruct (b_suf b) as [[[sh sid] pid]|]; simpl.
  - destruct (N.eqb k key_suf); [intros H; inversion H; reflexivity|].
    destruct (b_pol b) as [[sid' p]|]; simpl.
    + destruct (N.eqb k key_pol); [intros H; inversion H; reflexivity|].
      induction (b_states b) as [|[k' i] l IH]; simpl; [discriminate|].
      destruct (N.eqb k k'); [intros H; inversion H; reflexivity|exact IH].
    + induction (b_states b) as [|[k' i] l IH]; simpl; [discriminate|].
      destruct (N.eqb k k'); [intros H; inversion H; reflexivity|exact IH].
  - destruct (b_pol b) as [[sid' p]|]; simpl.
    + destruct (N.eqb k key_pol); [intros H; inversion H; reflexivity|].
      induction (b_states b) as [|[k' i] l IH]; simpl; [discriminate|].
      destruct (N.eqb k k'); [intros H; inversion H; reflexivity|exact IH].
    + induction (b_states b) as [|[k' i] l IH]; simpl; [discriminate|].
      destruct (N.eqb k k'); [intros H; inversion H; reflexivity|exact IH].
Qed.

Lemma spec_state_in : forall ch k s, spec_state ch k = Some s -> exists b, In b ch /\ st_h s = b_h b.
Proof.
  induction ch as [|b r IH]; intros k s H; [discriminate|]. simpl in H.
  destruct (lookupN k (block_states b)) eqn:E.
  - inversion H; subst. exists b. split; [left; reflexivity|]. eapply block_states_height; eauto.
  - destruct (IH _ _ H) as (x & Hx & Hh). exists x. split; [right|]; assumption.
Qed.

(* blocks put on top of a chain can only move a key to a higher state *)
Lemma spec_state_extend : forall news ch k s, consec (news ++ ch) -> spec_state ch k = Some s ->
  exists s', spec_state (news ++ ch) k = Some s' /\ st_h s <= st_h s'.
Proof.
  intros news ch k s Hc H. rewrite spec_state_app.
  destruct (spec_state news k) as [s'|] eqn:E.
  - exists s'. split; [reflexivity|].
    destruct (spec_state_in _ _ _ E) as (b' & Hb' & ->). destruct (spec_state_in _ _ _ H) as (b & Hb & ->).
    clear E H. induction news as [|a news IH]; [destruct Hb'|].
    destruct Hb' as [->|Hb'].
    + assert (Hin : In b (news ++ ch)) by (apply in_or_app; right; exact Hb).
      pose proof (consec_lt _ _ Hc b Hin). lia.
    + apply IH; [eapply consec_tail; exact Hc|exact Hb'].
  - exists s. split; [exact H|lia].
Qed.

Definition no_remove (o : op) : Prop := match o with RemoveBlocks _ => False | _ => True end.

Lemma run_from_app : forall c l1 l2, run_from c (l1 ++ l2) = run_from (run_from c l1) l2.
Proof. intros. unfold run_from. apply fold_left_app. Qed.

(* without RemoveBlocks the committed chain only grows at the top *)
Lemma abs_extends : forall more c, Inv c -> Forall op_ok more -> Forall no_remove more ->
  exists news, abs (run_from c more) = news ++ abs c.
Proof.
  induction more as [|o more IH]; intros c HI Hok Hnr; [exists []; reflexivity|].
  inversion Hok; subst. inversion Hnr; subst.
  assert (HI' : Inv (fst (step c o))) by (apply Inv_step; assumption).
  destruct (IH _ HI' H2 H4) as (news & Hn).
  change (run_from c (o :: more)) with (run_from (fst (step c o)) more). rewrite Hn.
  destruct o as [b| |h|n]; simpl.
  - destruct (abs_write c b HI) as (_ & Habs). rewrite Habs.
    destruct (snd (step_write c b)); [exists (news ++ [b]); rewrite <- app_assoc; reflexivity|exists news; reflexivity].
  - destruct (Inv_merge c HI) as (_ & ->). exists news. reflexivity.
  - contradiction.
  - destruct (Inv_clean c n HI) as (_ & ->). exists news. reflexivity.
Qed.

Lemma state_monotone : forall ops more, Forall op_ok ops -> Forall op_ok more -> Forall no_remove more ->
  forall k s, c_state (run ops) k = Some s ->
  exists s', c_state (run (ops ++ more)) k = Some s' /\ st_h s <= st_h s'.
Proof.
  intros ops more Hok Hok' Hnr k s H.
  pose proof (Inv_run ops Hok) as HI.
  assert (HI' : Inv (run (ops ++ more))) by (apply Inv_run; apply Forall_app; split; assumption).
  unfold run in *. rewrite run_from_app in *.
  destruct (abs_extends more _ HI Hok' Hnr) as (news & Hn).
  destruct HI as (tb & pc & Ht & Hp & Hc). destruct HI' as (tb' & pc' & Ht' & Hp' & Hc').
  rewrite (r_state _ _ _ Ht Hp Hc) in H. rewrite (r_state _ _ _ Ht' Hp' Hc').
  rewrite (Inv_abs _ _ _ Ht Hp), (Inv_abs _ _ _ Ht' Hp') in Hn. rewrite Hn in *.
  eapply spec_state_extend; eauto.
Qed.

(* ------------------------------------------------------------------ reads concurrent with mergePermanent / cleanRemoved *)

(* the steps the ticker of Center.start performs while a read is in flight: merges, and cleans that
   keep at least [keep] removed temps; at most [keep] merges *)
Definition env_step_ok (keep : nat) (o : op) : Prop :=
  match o with MergePerm => True | CleanRemoved n => (keep <= n)%nat | _ => False end.

Fixpoint count_merges (env : list op) : nat :=
  match env with [] => O | MergePerm :: r => S (count_merges r) | _ :: r => count_merges r end.

Definition env_ok (keep : nat) (env : list op) : Prop :=
  Forall (env_step_ok keep) env /\ (count_merges env <= keep)%nat.

Lemma step_merge_cases : forall c tb pc,
  c_temps c = map temp_of_block tb -> c_perm c = perm_of_chain pc -> consec (tb ++ pc) ->
  (fst (step_merge c) = c /\ (length tb < 2)%nat) \/
  (exists tb' x, tb = tb' ++ [x] /\ tb' <> [] /\
     fst (step_merge c) = mkCenter (perm_of_chain (x :: pc)) (map temp_of_block tb') (c_removed c ++ [temp_of_block x])).
Proof.
  intros c tb pc Ht Hp Hc. unfold step_merge. rewrite Ht.
  destruct tb as [|b0 tb']; [left; split; [reflexivity|simpl; lia]|].
  destruct tb' as [|b1 tb'']; [left; split; [reflexivity|simpl; lia]|].
  right. remember (b1 :: tb'') as tb' eqn:Etb'.
  assert (Hne : tb' <> []) by (subst; discriminate).
  cbn [map]. destruct (map temp_of_block tb') as [|t1 tl] eqn:Emap; [subst; discriminate|].
  rewrite <- Emap. clear t1 tl Emap.
  change (temp_of_block b0 :: map temp_of_block tb') with (map temp_of_block (b0 :: tb')).
  rewrite last_map, !t_h_temp_of_block.
  assert (Hc' : consec (b0 :: tb')) by (eapply consec_app_l with (l2 := pc); exact Hc).
  rewrite (consec_top_bottom _ _ b0 Hc'). rewrite map_length.
  replace (Z.of_nat (length tb') <? 0) with false by lia.
  replace (Z.of_nat (length tb') >=? Z.of_nat (length (b0 :: tb'))) with false by (simpl length; lia).
  cbn [orb fst]. rewrite Nat2Z.id.
  replace (length tb') with (length (map temp_of_block (b0 :: tb')) - 1)%nat by (rewrite map_length; simpl; lia).
  rewrite remove_nth_last by (simpl; discriminate).
  assert (Hrl : forall l, removelast (map temp_of_block l) = map temp_of_block (removelast l)).
  { induction l as [|a l IH]; [reflexivity|]. simpl. destruct l; [reflexivity|]. simpl in IH. simpl. rewrite IH. reflexivity. }
  rewrite Hrl.
  exists (removelast (b0 :: tb')), (last (b0 :: tb') b0).
  split; [apply app_removelast_last; discriminate|]. split.
  - rewrite Etb'. simpl. discriminate.
  - rewrite Hp. reflexivity.
Qed.

(* state of the center while the environment runs, relative to the snapshot (tb, pc) taken at c0:
   the temps are a prefix tb' of the snapshot, the rest (mid) has been merged on top of pc, and the
   temps merged since the snapshot are still at the end of c_removed *)
Definition env_inv (tb pc : list block) (m : nat) (c : center) : Prop :=
  exists tb' mid old,
    tb = tb' ++ mid /\ c_temps c = map temp_of_block tb' /\ c_perm c = perm_of_chain (mid ++ pc) /\
    c_removed c = old ++ map temp_of_block (rev mid) /\ (length mid <= m)%nat.

Lemma env_inv_step : forall keep tb pc m c o, consec (tb ++ pc) -> env_step_ok keep o ->
  (m + (match o with MergePerm => 1 | _ => 0 end) <= keep)%nat ->
  env_inv tb pc m c -> env_inv tb pc (m + (match o with MergePerm => 1 | _ => 0 end)) (fst (step c o)).
Proof.
  intros keep tb pc m c o Hc Hok Hm (tb' & mid & old & Htb & Ht & Hp & Hr & Hlen).
  destruct o as [b| |h|n]; simpl in Hok; try contradiction; simpl step.
  - (* MergePerm *)
    assert (Hc2 : consec (tb' ++ (mid ++ pc))) by (rewrite app_assoc, <- Htb; exact Hc).
    destruct (step_merge_cases c tb' (mid ++ pc) Ht Hp Hc2) as [(-> & _)|(tb'' & x & E1 & Hne & ->)].
    + exists tb', mid, old. repeat split; auto. lia.
    + exists tb'', (x :: mid), old. cbn [c_temps c_perm c_removed].
      split; [rewrite Htb, E1, <- app_assoc; reflexivity|]. split; [reflexivity|]. split; [reflexivity|].
      split; [rewrite Hr; simpl rev; rewrite map_app, <- app_assoc; reflexivity|simpl; lia].
  - (* CleanRemoved n, keep <= n *)
    unfold step_clean. destruct (Nat.leb (length (c_removed c)) n) eqn:E; cbn [fst].
    + exists tb', mid, old. repeat split; auto. lia.
    + exists tb', mid, (skipn (length (c_removed c) - n) old). cbn [c_temps c_perm c_removed].
      repeat split; auto; [|lia].
      rewrite Hr, skipn_app, app_length, map_length, rev_length.
      replace (length old + length mid - n - length old)%nat with 0%nat by lia. reflexivity.
Qed.

Lemma env_inv_run : forall keep tb pc env m c, consec (tb ++ pc) -> Forall (env_step_ok keep) env ->
  (m + count_merges env <= keep)%nat -> env_inv tb pc m c ->
  env_inv tb pc (m + count_merges env) (run_from c env).
Proof.
  intros keep tb pc env. induction env as [|o env IH]; intros m c Hc Hok Hm HI.
  - simpl. rewrite Nat.add_0_r. exact HI.
  - inversion Hok; subst.
    change (run_from c (o :: env)) with (run_from (fst (step c o)) env).
    assert (Hcm : count_merges (o :: env) = ((match o with MergePerm => 1 | _ => 0 end) + count_merges env)%nat)
      by (destruct o; reflexivity).
    rewrite Hcm in *. rewrite Nat.add_assoc.
    apply IH; [exact Hc|assumption|lia|].
    eapply env_inv_step; eauto. lia.
Qed.

(* every temp of the snapshot is still there (active or removed-but-kept) at any point of the environment *)
Lemma snapshot_alive : forall keep c0 env, Inv c0 -> env_ok keep env ->
  forall t, In t (c_temps c0) -> In t (c_temps (run_from c0 env)) \/ In t (c_removed (run_from c0 env)).
Proof.
  intros keep c0 env (tb & pc & Ht & Hp & Hc) (Hok & Hm) t Hin.
  assert (H0 : env_inv tb pc 0 c0).
  { exists tb, [], (c_removed c0). rewrite !app_nil_r. simpl. repeat split; auto. }
  destruct (env_inv_run keep tb pc env 0 c0 Hc Hok Hm H0) as (tb' & mid & old & Htb & Ht' & _ & Hr & _).
  rewrite Ht, Htb, map_app in Hin. apply in_app_or in Hin. destruct Hin as [Hin|Hin].
  - left. rewrite Ht'. exact Hin.
  - right. rewrite Hr. apply in_or_app. right. rewrite map_rev. apply in_rev. rewrite rev_involutive. exact Hin.
Qed.

(* a State read that took its snapshot of the temps at c0, visits them in any order and asks the
   permanent database at any later point of the environment, returns the committed latest state *)
Lemma concurrent_state : forall keep c0 env ts k, Inv c0 -> env_ok keep env ->
  Permutation ts (c_temps c0) ->
  c_state_order (run_from c0 env) ts k = spec_state (abs c0) k.
Proof.
  intros keep c0 env ts k (tb & pc & Ht & Hp & Hc) (Hok & Hm) HP.
  assert (H0 : env_inv tb pc 0 c0).
  { exists tb, [], (c_removed c0). rewrite !app_nil_r. simpl. repeat split; auto. }
  destruct (env_inv_run keep tb pc env 0 c0 Hc Hok Hm H0) as (tb' & mid & old & Htb & _ & Hp' & _ & _).
  pose proof (consec_app_l _ _ Hc) as Hct.
  unfold c_state_order. rewrite Ht in HP. rewrite (state_dig_order tb ts k Hct HP).
  rewrite (Inv_abs _ _ _ Ht Hp), spec_state_app.
  destruct (spec_state tb k) eqn:E; [reflexivity|].
  rewrite Hp', perm_state_chain.
  - rewrite spec_state_app. rewrite Htb, spec_state_app in E.
    destruct (spec_state tb' k); [discriminate|]. rewrite E. reflexivity.
  - rewrite Htb, <- app_assoc in Hc. eapply consec_app_r. exact Hc.
Qed.
