(* C19 -- lemmas, part 1: well-formed chains, closed form of the permanent store, the invariant and
   its preservation, the abstraction function. *)
From Coq Require Import ZArith NArith List Bool Lia ZifyBool ZifyNat.
From MV Require Import C19.Model.
Import ListNotations.
Open Scope Z_scope.

(* ------------------------------------------------------------------ small list facts *)

Lemma lookupN_app : forall A k (l1 l2 : list (N * A)),
  lookupN k (l1 ++ l2) = match lookupN k l1 with Some v => Some v | None => lookupN k l2 end.
Proof.
  induction l1 as [|[k' v] l1 IH]; intros; simpl; [reflexivity|].
  destruct (N.eqb k k'); [reflexivity|apply IH].
Qed.

Lemma lookupZ_app : forall A k (l1 l2 : list (Z * A)),
  lookupZ k (l1 ++ l2) = match lookupZ k l1 with Some v => Some v | None => lookupZ k l2 end.
Proof.
  induction l1 as [|[k' v] l1 IH]; intros; simpl; [reflexivity|].
  destruct (Z.eqb k k'); [reflexivity|apply IH].
Qed.

Lemma memN_app : forall x l1 l2, memN x (l1 ++ l2) = memN x l1 || memN x l2.
Proof. intros. unfold memN. apply existsb_app. Qed.

(* ------------------------------------------------------------------ well-formed chains (newest first) *)

(* heights are >= 0 and consecutive *)
Fixpoint consec (ch : list block) : Prop :=
  match ch with
  | [] => True
  | b :: r => 0 <= b_h b /\ match r with [] => True | b' :: _ => b_h b = b_h b' + 1 end /\ consec r
  end.

Lemma consec_tail : forall b r, consec (b :: r) -> consec r.
Proof. intros b r H. simpl in H. tauto. Qed.

Lemma consec_app_r : forall l1 l2, consec (l1 ++ l2) -> consec l2.
Proof. induction l1; intros l2 H; [exact H|]. apply IHl1. eapply consec_tail. exact H. Qed.

Lemma consec_app_l : forall l1 l2, consec (l1 ++ l2) -> consec l1.
Proof.
  induction l1 as [|b l1 IH]; intros l2 H; [exact I|].
  simpl in H. destruct H as (H0 & H1 & H2). simpl. split; [exact H0|]. split.
  - destruct l1; [exact I|]. simpl in H1. exact H1.
  - eapply IH. exact H2.
Qed.

Lemma consec_skipn : forall n l, consec l -> consec (skipn n l).
Proof.
  induction n; intros l H; [exact H|]. destruct l; [exact I|]. simpl. apply IHn. eapply consec_tail; eauto.
Qed.

Lemma consec_lt : forall b r, consec (b :: r) -> forall x, In x r -> b_h x < b_h b.
Proof.
  intros b r. revert b. induction r as [|b' r IH]; intros b H x Hin; [destruct Hin|].
  simpl in H. destruct H as (H0 & H1 & H2).
  destruct Hin as [->|Hin]; [lia|].
  specialize (IH b' H2 x Hin). lia.
Qed.

Lemma consec_nonneg : forall l, consec l -> forall x, In x l -> 0 <= b_h x.
Proof.
  induction l as [|b l IH]; intros H x Hin; [destruct Hin|].
  simpl in H. destruct Hin as [->|Hin]; [tauto|]. apply IH; tauto.
Qed.

Lemma consec_app_heads : forall l1 b1 l2 b2, consec (l1 ++ b1 :: b2 :: l2) -> b_h b1 = b_h b2 + 1.
Proof.
  intros. apply consec_app_r in H. simpl in H. tauto.
Qed.

(* bottom of a non-empty prefix sits right above the top of the suffix *)
Lemma consec_last_hd : forall l1 d b2 l2, l1 <> [] -> consec (l1 ++ b2 :: l2) -> b_h (last l1 d) = b_h b2 + 1.
Proof.
  intros l1 d b2 l2 Hne H.
  destruct (exists_last Hne) as (l1' & x & ->).
  rewrite last_last. rewrite <- app_assoc in H. simpl in H.
  eapply consec_app_heads. exact H.
Qed.

(* ------------------------------------------------------------------ closed form of the permanent store *)

Fixpoint store_of_chain (pc : list block) : store :=
  match pc with
  | [] => store_empty
  | b :: r => store_merge (store_of_block b) (store_of_chain r)
  end.

(* the permanent database after merging the temps of [pc] one after the other, oldest first *)
Fixpoint perm_of_chain (pc : list block) : perm :=
  match pc with
  | [] => perm_empty
  | b :: r => perm_merge (perm_of_chain r) (temp_of_block b)
  end.

Definition perm_closed (pc : list block) : perm :=
  mkPerm (store_of_chain pc)
         (match pc with b :: _ => Some (full (block_map b)) | [] => None end)
         (option_map full (spec_lastsuf pc))
         (spec_policy pc).

Lemma perm_of_chain_closed : forall pc, consec pc -> perm_of_chain pc = perm_closed pc.
Proof.
  induction pc as [|b r IH]; intros H; [reflexivity|].
  simpl perm_of_chain. rewrite IH by (eapply consec_tail; eauto).
  unfold perm_merge, perm_closed at 1. cbn [p_mp p_store p_proof p_policy].
  assert (Hold : match (match r with b0 :: _ => Some (full (block_map b0)) | [] => None end) with
                 | Some lm => t_h (temp_of_block b) <=? m_h (fv lm) | None => false end = false).
  { destruct r as [|b' r']; [reflexivity|]. simpl in H. destruct H as (_ & H1 & _).
    unfold t_h, temp_of_block, full, fv, block_map. simpl. apply Z.leb_gt. lia. }
  rewrite Hold. unfold perm_closed. f_equal.
  unfold temp_of_block; simpl. destruct (block_proof b); reflexivity.
Qed.

Lemma ghost_store_of_chain : forall pc, s_ghost (store_of_chain pc) = pc.
Proof. induction pc; simpl; [reflexivity|]. rewrite IHpc. reflexivity. Qed.

Lemma ghost_perm_of_chain : forall pc, s_ghost (p_store (perm_of_chain pc)) = pc.
Proof.
  induction pc as [|b r IH]; [reflexivity|].
  simpl. unfold perm_merge.
  destruct (match p_mp (perm_of_chain r) with Some lm => t_h (temp_of_block b) <=? m_h (fv lm) | None => false end);
    simpl; rewrite IH; reflexivity.
Qed.

Lemma ghost_temps : forall tb, flat_map (fun t => s_ghost (t_store t)) (map temp_of_block tb) = tb.
Proof. induction tb; simpl; [reflexivity|]. rewrite IHtb. reflexivity. Qed.

(* ------------------------------------------------------------------ invariant *)

Definition Inv (c : center) : Prop :=
  exists tb pc, c_temps c = map temp_of_block tb /\ c_perm c = perm_of_chain pc /\ consec (tb ++ pc).

Lemma Inv_abs : forall c tb pc,
  c_temps c = map temp_of_block tb -> c_perm c = perm_of_chain pc -> abs c = tb ++ pc.
Proof. intros c tb pc Ht Hp. unfold abs. rewrite Ht, Hp, ghost_temps, ghost_perm_of_chain. reflexivity. Qed.

Lemma Inv_consec_abs : forall c, Inv c -> consec (abs c).
Proof. intros c (tb & pc & Ht & Hp & Hc). rewrite (Inv_abs _ _ _ Ht Hp). exact Hc. Qed.

Lemma Inv_init : Inv center_init.
Proof. exists [], []. repeat split; try reflexivity. Qed.

Lemma t_h_temp_of_block : forall b, t_h (temp_of_block b) = b_h b.
Proof. reflexivity. Qed.

(* the height the next block must follow: the top of the committed chain, -1 when nothing is committed *)
Lemma pre_height_abs : forall c tb pc,
  c_temps c = map temp_of_block tb -> c_perm c = perm_of_chain pc -> consec (tb ++ pc) ->
  pre_height c = match tb ++ pc with b :: _ => b_h b | [] => -1 end.
Proof.
  intros c tb pc Ht Hp Hc. unfold pre_height. rewrite Ht.
  destruct tb as [|b tb']; simpl; [|reflexivity].
  rewrite Hp, perm_of_chain_closed by exact Hc.
  destruct pc; reflexivity.
Qed.

(* valid operations: a block carries a non-negative height (everything else is checked by the code) *)
Definition op_ok (o : op) : Prop := match o with Write b => 0 <= b_h b | _ => True end.

Lemma Inv_write : forall c b, Inv c -> 0 <= b_h b -> Inv (fst (step_write c b)).
Proof.
  intros c b (tb & pc & Ht & Hp & Hc) Hb. unfold step_write.
  rewrite (pre_height_abs _ _ _ Ht Hp Hc).
  destruct ((match tb ++ pc with b0 :: _ => b_h b0 | [] => -1 end >? -1) &&
            negb (b_h b =? match tb ++ pc with b0 :: _ => b_h b0 | [] => -1 end + 1)) eqn:E; simpl.
  - exists tb, pc. auto.
  - exists (b :: tb), pc. simpl. rewrite Ht. repeat split; auto.
    destruct (tb ++ pc) as [|b0 l] eqn:El; [exact I|].
    apply andb_false_iff in E. destruct E as [E|E].
    + pose proof (consec_nonneg _ Hc b0 (or_introl eq_refl)). lia.
    + lia.
Qed.

Lemma last_map : forall A B (f : A -> B) l d, last (map f l) (f d) = f (last l d).
Proof. induction l as [|a l IH]; intros; [reflexivity|]. simpl. destruct l; [reflexivity|]. apply IH. Qed.

Lemma remove_nth_last : forall A (l : list A), l <> [] -> remove_nth (length l - 1) l = removelast l.
Proof.
  induction l as [|a l IH]; intros H; [congruence|].
  destruct l as [|a' l']; [reflexivity|].
  replace (length (a :: a' :: l') - 1)%nat with (S (length (a' :: l') - 1)) by (simpl; lia).
  change (remove_nth (S (length (a' :: l') - 1)) (a :: a' :: l')) with (a :: remove_nth (length (a' :: l') - 1) (a' :: l')).
  rewrite IH by discriminate. reflexivity.
Qed.

(* in a consecutive chain the bottom of the first n blocks is n-1 below the top *)
Lemma consec_top_bottom : forall b tb d, consec (b :: tb) -> b_h b - b_h (last (b :: tb) d) = Z.of_nat (length tb).
Proof.
  intros b tb. revert b. induction tb as [|b' tb IH]; intros b d H; [simpl; lia|].
  change (last (b :: b' :: tb) d) with (last (b' :: tb) d).
  simpl in H. destruct H as (_ & H1 & H2).
  specialize (IH b' d H2). simpl length. lia.
Qed.

Lemma Inv_merge : forall c, Inv c -> Inv (fst (step_merge c)) /\ abs (fst (step_merge c)) = abs c.
Proof.
  intros c (tb & pc & Ht & Hp & Hc).
  assert (Habs := Inv_abs _ _ _ Ht Hp).
  unfold step_merge. rewrite Ht.
  destruct tb as [|b0 tb']; [simpl; split; [exists [], pc; auto | reflexivity]|].
  destruct tb' as [|b1 tb'']; [simpl; split; [exists [b0], pc; auto | reflexivity]|].
  remember (b1 :: tb'') as tb' eqn:Etb'.
  assert (Hne : tb' <> []) by (subst; discriminate).
  change (map temp_of_block (b0 :: tb')) with (temp_of_block b0 :: map temp_of_block tb').
  destruct (map temp_of_block tb') as [|t1 tl] eqn:Emap; [subst; discriminate|].
  rewrite <- Emap. clear t1 tl Emap.
  change (temp_of_block b0 :: map temp_of_block tb') with (map temp_of_block (b0 :: tb')).
  rewrite last_map, !t_h_temp_of_block.
  assert (Hc' : consec (b0 :: tb')) by (eapply consec_app_l with (l2 := pc); exact Hc).
  rewrite (consec_top_bottom _ _ b0 Hc'). rewrite map_length.
  assert (E1 : (Z.of_nat (length tb') <? 0) = false) by (apply Z.ltb_ge; lia).
  assert (E2 : (Z.of_nat (length tb') >=? Z.of_nat (length (b0 :: tb'))) = false).
  { rewrite Z.geb_leb. apply Z.leb_gt. simpl length. lia. }
  rewrite E1, E2. cbn [orb fst].
  rewrite Nat2Z.id.
  replace (length tb') with (length (map temp_of_block (b0 :: tb')) - 1)%nat by (rewrite map_length; simpl; lia).
  rewrite remove_nth_last by (simpl; discriminate).
  assert (Hrl : removelast (map temp_of_block (b0 :: tb')) = map temp_of_block (removelast (b0 :: tb'))).
  { clear. generalize (b0 :: tb'). induction l as [|a l IH]; [reflexivity|].
    simpl. destruct l; [reflexivity|]. simpl in IH. simpl. rewrite IH. reflexivity. }
  rewrite Hrl.
  assert (Hsplit : b0 :: tb' = removelast (b0 :: tb') ++ [last (b0 :: tb') b0]) by (apply app_removelast_last; discriminate).
  assert (Hchain : removelast (b0 :: tb') ++ last (b0 :: tb') b0 :: pc = (b0 :: tb') ++ pc).
  { rewrite Hsplit at 3. rewrite <- app_assoc. reflexivity. }
  split.
  - exists (removelast (b0 :: tb')), (last (b0 :: tb') b0 :: pc).
    split; [reflexivity|]. split; [simpl; rewrite Hp; reflexivity|].
    rewrite Hchain. exact Hc.
  - rewrite (Inv_abs _ (removelast (b0 :: tb')) (last (b0 :: tb') b0 :: pc)); [|reflexivity|simpl; rewrite Hp; reflexivity].
    rewrite Hchain. symmetry. exact Habs.
Qed.

Lemma Inv_remove : forall c h, Inv c -> Inv (fst (step_remove c h)).
Proof.
  intros c h (tb & pc & Ht & Hp & Hc).
  assert (Hsame : Inv c) by (exists tb, pc; auto).
  unfold step_remove. rewrite Ht.
  destruct (map temp_of_block tb) as [|t0 tl] eqn:E; [exact Hsame|].
  destruct (h >? t_h t0); [exact Hsame|].
  destruct (index_of_height h (t0 :: tl)) as [i|]; [|exact Hsame].
  cbn [fst]. exists (skipn (S i) tb), pc. cbn [c_temps c_perm].
  split; [rewrite <- E, skipn_map; reflexivity|]. split; [exact Hp|].
  rewrite <- (firstn_skipn (S i) tb), <- app_assoc in Hc. eapply consec_app_r. exact Hc.
Qed.

Lemma Inv_clean : forall c n, Inv c -> Inv (fst (step_clean c n)) /\ abs (fst (step_clean c n)) = abs c.
Proof.
  intros c n (tb & pc & Ht & Hp & Hc). unfold step_clean.
  destruct (Nat.leb (length (c_removed c)) n); simpl; (split; [exists tb, pc; auto | reflexivity]).
Qed.

Lemma Inv_step : forall c o, Inv c -> op_ok o -> Inv (fst (step c o)).
Proof.
  intros c [b| |h|n] H Hok; simpl.
  - apply Inv_write; assumption.
  - apply Inv_merge; assumption.
  - apply Inv_remove; assumption.
  - apply Inv_clean; assumption.
Qed.

Lemma Inv_run_from : forall ops c, Inv c -> Forall op_ok ops -> Inv (run_from c ops).
Proof.
  induction ops as [|o ops IH]; intros c H Hok; [exact H|].
  inversion Hok; subst. unfold run_from. simpl. apply IH; [apply Inv_step; assumption|assumption].
Qed.

Lemma Inv_run : forall ops, Forall op_ok ops -> Inv (run ops).
Proof. intros. apply Inv_run_from; [apply Inv_init|assumption]. Qed.

(* ------------------------------------------------------------------ how the committed chain evolves *)

Lemma abs_write : forall c b, Inv c ->
  (snd (step_write c b) = true <-> (abs c = [] \/ exists b0 r, abs c = b0 :: r /\ b_h b = b_h b0 + 1)) /\
  abs (fst (step_write c b)) = if snd (step_write c b) then b :: abs c else abs c.
Proof.
  intros c b (tb & pc & Ht & Hp & Hc).
  assert (Habs := Inv_abs _ _ _ Ht Hp).
  unfold step_write. rewrite (pre_height_abs _ _ _ Ht Hp Hc), Habs.
  destruct (tb ++ pc) as [|b0 l] eqn:El.
  - simpl. split; [split; auto|]. unfold abs. simpl. fold (abs c). rewrite Habs. reflexivity.
  - assert (H0 : 0 <= b_h b0) by (apply (consec_nonneg _ Hc); left; reflexivity).
    assert (Eg : (b_h b0 >? -1) = true) by (apply Z.gtb_lt; lia).
    rewrite Eg. cbn [andb].
    destruct (b_h b =? b_h b0 + 1) eqn:Ee; cbn [negb fst snd].
    + apply Z.eqb_eq in Ee. split.
      * split; auto. intros _. right. exists b0, l. auto.
      * unfold abs. simpl. fold (abs c). rewrite Habs. reflexivity.
    + apply Z.eqb_neq in Ee. split; [|exact Habs].
      split; [discriminate|]. intros [H|(b0' & r & H & H')]; [discriminate|]. inversion H; subst. lia.
Qed.

Lemma index_of_height_spec : forall h tb i,
  index_of_height h (map temp_of_block tb) = Some i ->
  exists b, nth_error tb i = Some b /\ b_h b = h.
Proof.
  intros h tb. induction tb as [|b tb IH]; intros i H; [discriminate|].
  simpl in H. rewrite t_h_temp_of_block in H.
  destruct (b_h b =? h) eqn:E.
  - inversion H; subst. exists b. split; [reflexivity|]. apply Z.eqb_eq. exact E.
  - destruct (index_of_height h (map temp_of_block tb)) as [j|]; [|discriminate].
    inversion H; subst. destruct (IH j eq_refl) as (b' & H1 & H2). exists b'. auto.
Qed.

Lemma filter_all_false : forall A (f : A -> bool) l, (forall x, In x l -> f x = false) -> filter f l = [].
Proof.
  induction l as [|a l IH]; intros H; [reflexivity|]. simpl. rewrite (H a (or_introl eq_refl)). apply IH.
  intros x Hx. apply H. right. exact Hx.
Qed.

Lemma filter_all_true : forall A (f : A -> bool) l, (forall x, In x l -> f x = true) -> filter f l = l.
Proof.
  induction l as [|a l IH]; intros H; [reflexivity|]. simpl. rewrite (H a (or_introl eq_refl)). f_equal. apply IH.
  intros x Hx. apply H. right. exact Hx.
Qed.

(* cutting a consecutive chain right below the block of height h = keeping the blocks below h *)
Lemma consec_cut : forall l i b h, consec l -> nth_error l i = Some b -> b_h b = h ->
  skipn (S i) l = filter (fun x => b_h x <? h) l.
Proof.
  induction l as [|a l IH]; intros i b h Hc Hn Hh; [destruct i; discriminate|].
  destruct i as [|i].
  - simpl in Hn. inversion Hn; subst a. simpl skipn. simpl filter.
    rewrite Hh, Z.ltb_irrefl. symmetry. apply filter_all_true.
    intros x Hx. apply Z.ltb_lt. rewrite <- Hh. eapply consec_lt; eauto.
  - simpl in Hn. change (skipn (S (S i)) (a :: l)) with (skipn (S i) l).
    simpl filter.
    assert (b_h b < b_h a) by (eapply consec_lt; eauto; eapply nth_error_In; eauto).
    replace (b_h a <? h) with false by (symmetry; apply Z.ltb_ge; lia).
    eapply IH; eauto. eapply consec_tail; eauto.
Qed.

(* RemoveBlocks(h): when it reports true, exactly the blocks with height >= h are gone; they were temps *)
Lemma abs_remove : forall c h, Inv c ->
  abs (fst (step_remove c h)) = if snd (step_remove c h) then filter (fun x => b_h x <? h) (abs c) else abs c.
Proof.
  intros c h (tb & pc & Ht & Hp & Hc).
  assert (Habs := Inv_abs _ _ _ Ht Hp).
  unfold step_remove. rewrite Ht.
  destruct tb as [|b0 tb']; [reflexivity|].
  cbn [map]. destruct (h >? t_h (temp_of_block b0)); [reflexivity|].
  change (temp_of_block b0 :: map temp_of_block tb') with (map temp_of_block (b0 :: tb')).
  destruct (index_of_height h (map temp_of_block (b0 :: tb'))) as [i|] eqn:Ei; [|reflexivity].
  cbn [fst snd].
  destruct (index_of_height_spec _ _ _ Ei) as (b & Hn & Hh).
  rewrite (Inv_abs _ (skipn (S i) (b0 :: tb')) pc); [|cbn [c_temps]; rewrite skipn_map; reflexivity|exact Hp].
  rewrite Habs.
  assert (Hn' : nth_error ((b0 :: tb') ++ pc) i = Some b).
  { rewrite nth_error_app1; [exact Hn|]. apply nth_error_Some. congruence. }
  rewrite <- (consec_cut _ _ _ _ Hc Hn' Hh).
  assert (Hlen : (S i <= length (b0 :: tb'))%nat) by (apply nth_error_Some; congruence).
  rewrite skipn_app.
  replace (S i - length (b0 :: tb'))%nat with 0%nat by lia. reflexivity.
Qed.
