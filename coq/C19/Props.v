(* C19 -- Database reads agree with the committed chain.  Property theorems only.

   Implementation model: C19.Model (Center over TempLeveldb temps and LeveldbPermanent, transcribed).
   Specification: the committed chain [abs c] (a list of blocks, newest first) and reads that are plain
   scans of that list (spec_read).  A history is any list of Write / MergePerm / RemoveBlocks /
   CleanRemoved steps whose written blocks carry a height >= 0 (op_ok); everything else -- heights that
   do not follow, merges with fewer than two temps, removals of heights that are not temps -- is part
   of the quantification: the model, like the code, refuses those steps. *)
From Coq Require Import ZArith NArith List Bool Permutation.
From MV Require Import C19.Model C19.Proofs C19.Refine C19.Conc Gen.C19.
Import ListNotations.
Open Scope Z_scope.

(* 1. Refinement, every read kind (State, StateBytes, BlockMap, BlockMapBytes, LastBlockMap(+Bytes),
      SuffrageProof(+Bytes) by suffrage height, SuffrageProofByBlockHeight, LastSuffrageProof(+Bytes),
      LastNetworkPolicy, ExistsInStateOperation, ExistsKnownOperation), every argument (in and out of
      range), after every history. *)
Theorem C19_read_refines : forall ops, Forall op_ok ops ->
  forall r, eval_read (run ops) r = spec_read (abs (run ops)) r.
Proof. intros ops H r. apply read_refines. apply Inv_run. exact H. Qed.

(* 2. The abstraction really is "keep all committed blocks":
      - a write is accepted iff nothing is committed yet or its height follows the top block; then the
        block is put on top, otherwise nothing changes;
      - merging into the permanent store and cleaning removed temps do not change the chain;
      - RemoveBlocks(h), when it reports true, drops exactly the blocks with height >= h. *)
Theorem C19_chain_write : forall ops b, Forall op_ok ops ->
  let c := run ops in
  (snd (step c (Write b)) = true <-> (abs c = [] \/ exists b0 r, abs c = b0 :: r /\ b_h b = b_h b0 + 1)) /\
  abs (fst (step c (Write b))) = if snd (step c (Write b)) then b :: abs c else abs c.
Proof. intros ops b H. apply abs_write. apply Inv_run. exact H. Qed.

Theorem C19_chain_merge_clean : forall ops n, Forall op_ok ops ->
  abs (fst (step (run ops) MergePerm)) = abs (run ops) /\
  abs (fst (step (run ops) (CleanRemoved n))) = abs (run ops).
Proof.
  intros ops n H. split; [apply Inv_merge|apply Inv_clean]; apply Inv_run; exact H.
Qed.

Theorem C19_chain_remove : forall ops h, Forall op_ok ops ->
  let c := run ops in
  abs (fst (step c (RemoveBlocks h))) =
  if snd (step c (RemoveBlocks h)) then filter (fun x => b_h x <? h) (abs c) else abs c.
Proof. intros ops h H. apply abs_remove. apply Inv_run. exact H. Qed.

(* the committed chain always has consecutive heights (so "the block at height h" is unique) *)
Theorem C19_chain_consecutive : forall ops, Forall op_ok ops -> consec (abs (run ops)).
Proof. intros ops H. apply Inv_consec_abs. apply Inv_run. exact H. Qed.

(* 3. Center.State visits the temps concurrently (dig): whatever order the scheduler picks, the
      answer is the same. *)
Theorem C19_state_any_order : forall ops ts k, Forall op_ok ops ->
  Permutation ts (c_temps (run ops)) -> c_state_order (run ops) ts k = c_state (run ops) k.
Proof. intros ops ts k H HP. apply c_state_any_order; [apply Inv_run; exact H|exact HP]. Qed.

(* 4. Reads of a key never go back to an older state: after any further writes, merges and cleans
      (RemoveBlocks is the one operation meant to take blocks away) a key that was found is still found,
      at the same or a greater height. *)
Theorem C19_state_monotone : forall ops more, Forall op_ok ops -> Forall op_ok more -> Forall no_remove more ->
  forall k s, c_state (run ops) k = Some s ->
  exists s', c_state (run (ops ++ more)) k = Some s' /\ st_h s <= st_h s'.
Proof. exact state_monotone. Qed.

(* 5. Reads concurrent with the ticker of Center.start (mergePermanent + cleanRemoved(keep)).
      keep is the literal in Center.start, regenerated from the source on every run. *)
Definition keep : nat := Z.to_nat (nth 0 center_start_ints 0).

Theorem C19_keep_is_code_constant : center_start_ints = [3] /\ keep = 3%nat /\ merge_to_permanent_ints = [2; 1].
Proof. repeat split; reflexivity. Qed.

(* every temp of the snapshot a reader took at c0 is still there -- active, or removed but not yet
   cleaned -- after any run of the ticker with at most [keep] merges *)
Theorem C19_concurrent_snapshot_alive : forall ops env, Forall op_ok ops -> env_ok keep env ->
  forall t, In t (c_temps (run ops)) ->
  In t (c_temps (run_from (run ops) env)) \/ In t (c_removed (run_from (run ops) env)).
Proof. intros ops env H. apply snapshot_alive. apply Inv_run. exact H. Qed.

(* a State read that snapshots the temps at c0, visits them in any order and asks the permanent
   database at any later point of such a run returns the latest committed state of the key *)
Theorem C19_concurrent_state : forall ops env ts k, Forall op_ok ops -> env_ok keep env ->
  Permutation ts (c_temps (run ops)) ->
  c_state_order (run_from (run ops) env) ts k = spec_state (abs (run ops)) k.
Proof. intros ops env ts k H. apply concurrent_state. apply Inv_run. exact H. Qed.

(* ------------------------------------------------------------------ non-vacuity *)

Definition ex_b0 : block := mkBlock 0 10 [(2%N, 20%N)] (Some (0, 30%N, 40%N)) (Some (31%N, 50%N)) [1%N] [2%N].
Definition ex_b1 : block := mkBlock 1 11 [(2%N, 21%N); (3%N, 22%N)] None None [] [3%N].
Definition ex_b2 : block := mkBlock 2 12 [(3%N, 23%N)] (Some (1, 32%N, 41%N)) None [4%N] [].
Definition ex_ops : list op :=
  [Write ex_b0; Write ex_b1; MergePerm; Write ex_b2; Write ex_b2; MergePerm; CleanRemoved 1; RemoveBlocks 2].

Example C19_example_valid : Forall op_ok ex_ops.
Proof. repeat constructor; simpl; discriminate. Qed.

(* the second write of height 2 is refused, block 2 is removed again: blocks 1 and 0 remain, both merged
   or merging; the reads see exactly them *)
Example C19_example_chain : abs (run ex_ops) = [ex_b1; ex_b0].
Proof. vm_compute. reflexivity. Qed.

Example C19_example_reads :
  map (eval_read (run ex_ops)) [RState 2; RState 3; RMap 1; RMap 2; RSuf 0; RSuf 1; RSufBH 1; RSufBH (-1); RPolicy; RKnown 3; RKnown 9]
  = [21; 22; 11; -1; 40; -1; 40; -2; 50; 1; 0].
Proof. vm_compute. reflexivity. Qed.

Example C19_example_env : env_ok keep [MergePerm; CleanRemoved 3; MergePerm; MergePerm; CleanRemoved 5].
Proof. split; [repeat constructor|]; vm_compute; repeat constructor. Qed.
