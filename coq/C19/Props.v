(* C19 -- property theorems only. *)
From Coq Require Import ZArith NArith List Bool.
From MV Require Import C19.Model C19.Proofs.
Import ListNotations.
Open Scope Z_scope.

Theorem C19_write_appends : forall c b, snd (step_write c b) = true -> abs (fst (step_write c b)) = b :: abs c.
Proof. exact abs_write. Qed.
