(* C19 -- lemmas, part 2: under the invariant every read of the implementation model equals the read of
   the specification on the abstracted chain. *)
From Coq Require Import ZArith NArith List Bool Lia ZifyBool ZifyNat.
From MV Require Import C19.Model C19.Proofs.
Import ListNotations.
Open Scope Z_scope.

(* ------------------------------------------------------------------ the specification over l1 ++ l2 *)

Lemma spec_state_app : forall l1 l2 k,
  spec_state (l1 ++ l2) k = match spec_state l1 k with Some s => Some s | None => spec_state l2 k end.
Proof. induction l1; intros; simpl; [reflexivity|]. destruct (lookupN k (block_states a)); auto. Qed.

Lemma spec_map_app : forall l1 l2 h,
  spec_map (l1 ++ l2) h = match spec_map l1 h with Some s => Some s | None => spec_map l2 h end.
Proof. induction l1; intros; simpl; [reflexivity|]. destruct (b_h a =? h); auto. Qed.

Lemma spec_suf_app : forall l1 l2 sh,
  spec_suf (l1 ++ l2) sh = match spec_suf l1 sh with Some s => Some s | None => spec_suf l2 sh end.
Proof.
  induction l1; intros; simpl; [reflexivity|].
  destruct (block_proof a); auto. destruct (pf_sh p =? sh); auto.
Qed.

Lemma spec_proof_le_app : forall l1 l2 h,
  spec_proof_le (l1 ++ l2) h = match spec_proof_le l1 h with Some s => Some s | None => spec_proof_le l2 h end.
Proof.
  induction l1; intros; simpl; [reflexivity|].
  destruct (b_h a >? h); auto. destruct (block_proof a); auto.
Qed.

Lemma spec_lastsuf_app : forall l1 l2,
  spec_lastsuf (l1 ++ l2) = match spec_lastsuf l1 with Some s => Some s | None => spec_lastsuf l2 end.
Proof. induction l1; intros; simpl; [reflexivity|]. destruct (block_proof a); auto. Qed.

Lemma spec_policy_app : forall l1 l2,
  spec_policy (l1 ++ l2) = match spec_policy l1 with Some s => Some s | None => spec_policy l2 end.
Proof. induction l1; intros; simpl; [reflexivity|]. destruct (block_policy a); auto. Qed.

Lemma spec_map_find : forall ch h, spec_map ch h = option_map block_map (find (fun b => b_h b =? h) ch).
Proof. induction ch; intros; simpl; [reflexivity|]. destruct (b_h a =? h); auto. Qed.

Lemma find_app : forall A (f : A -> bool) l1 l2,
  find f (l1 ++ l2) = match find f l1 with Some x => Some x | None => find f l2 end.
Proof. induction l1; intros; simpl; [reflexivity|]. destruct (f a); auto. Qed.

Lemma find_none_above : forall ch h, (forall x, In x ch -> b_h x < h) -> find (fun b => b_h b =? h) ch = None.
Proof.
  induction ch as [|a ch IH]; intros h H; [reflexivity|]. simpl.
  pose proof (H a (or_introl eq_refl)).
  replace (b_h a =? h) with false by lia. apply IH. intros x Hx. apply H. right. exact Hx.
Qed.

Lemma spec_proof_le_skip : forall l1 l2 h, (forall x, In x l1 -> b_h x > h) ->
  spec_proof_le (l1 ++ l2) h = spec_proof_le l2 h.
Proof.
  induction l1 as [|a l1 IH]; intros l2 h H; [reflexivity|]. simpl.
  pose proof (H a (or_introl eq_refl)).
  replace (b_h a >? h) with true by lia. apply IH. intros x Hx. apply H. right. exact Hx.
Qed.

Lemma spec_proof_le_all : forall ch h, (forall x, In x ch -> b_h x <= h) -> spec_proof_le ch h = spec_lastsuf ch.
Proof.
  induction ch as [|a ch IH]; intros h H; [reflexivity|]. simpl.
  pose proof (H a (or_introl eq_refl)).
  replace (b_h a >? h) with false by lia. destruct (block_proof a); [reflexivity|].
  apply IH. intros x Hx. apply H. right. exact Hx.
Qed.

Lemma spec_lastsuf_none_le : forall ch h, spec_lastsuf ch = None -> spec_proof_le ch h = None.
Proof.
  induction ch as [|a ch IH]; intros h H; [reflexivity|]. simpl in *.
  destruct (block_proof a); [discriminate|]. destruct (b_h a >? h); auto.
Qed.

Lemma block_proof_h : forall b p, block_proof b = Some p -> pf_h p = b_h b.
Proof. intros b p. unfold block_proof. destruct (b_suf b) as [[[sh sid] pid]|]; [|discriminate]. intros H; inversion H; reflexivity. Qed.

Lemma spec_lastsuf_le : forall ch h lp, spec_lastsuf ch = Some lp -> pf_h lp <= h -> spec_proof_le ch h = Some lp.
Proof.
  induction ch as [|a ch IH]; intros h lp H Hle; [discriminate|]. simpl in *.
  destruct (block_proof a) eqn:E.
  - inversion H; subst p. apply block_proof_h in E. replace (b_h a >? h) with false by lia. reflexivity.
  - destruct (b_h a >? h); auto.
Qed.

Lemma spec_lastsuf_suf : forall ch sh lp, spec_lastsuf ch = Some lp -> pf_sh lp = sh -> spec_suf ch sh = Some lp.
Proof.
  induction ch as [|a ch IH]; intros sh lp H Hs; [discriminate|]. simpl in *.
  destruct (block_proof a) eqn:E.
  - inversion H; subst p. replace (pf_sh lp =? sh) with true by lia. reflexivity.
  - auto.
Qed.

(* the block of height h (present in a consecutive chain) decides spec_proof_le when it has a proof *)
Lemma spec_proof_le_at : forall ch b h p, consec ch -> In b ch -> b_h b = h -> block_proof b = Some p ->
  spec_proof_le ch h = Some p.
Proof.
  induction ch as [|a ch IH]; intros b h p Hc Hin Hh Hp; [destruct Hin|]. simpl.
  destruct (b_h a >? h) eqn:E.
  - destruct Hin as [->|Hin]; [lia|]. eapply IH; eauto. eapply consec_tail; eauto.
  - destruct Hin as [->|Hin]; [rewrite Hp; reflexivity|].
    pose proof (consec_lt _ _ Hc b Hin). lia.
Qed.

(* ------------------------------------------------------------------ the permanent store of a chain *)

Lemma store_states_chain : forall pc k, lookupN k (s_states (store_of_chain pc)) = spec_state pc k.
Proof.
  induction pc as [|b r IH]; intros k; [reflexivity|].
  simpl. rewrite lookupN_app, IH. reflexivity.
Qed.

Lemma store_maps_chain : forall pc h, lookupZ h (s_maps (store_of_chain pc)) = spec_map pc h.
Proof.
  induction pc as [|b r IH]; intros h; [reflexivity|].
  simpl. rewrite Z.eqb_sym. destruct (b_h b =? h); [reflexivity|apply IH].
Qed.

Lemma store_proofs_chain : forall pc sh, lookupZ sh (s_proofs (store_of_chain pc)) = spec_suf pc sh.
Proof.
  induction pc as [|b r IH]; intros sh; [reflexivity|].
  simpl. rewrite lookupZ_app, IH. destruct (block_proof b); simpl; [|reflexivity].
  rewrite Z.eqb_sym. destruct (pf_sh p =? sh); reflexivity.
Qed.

Lemma store_instate_chain : forall pc o, memN o (s_instate (store_of_chain pc)) = spec_instate pc o.
Proof.
  induction pc as [|b r IH]; intros o; [reflexivity|].
  simpl. rewrite memN_app, IH. reflexivity.
Qed.

Lemma store_known_chain : forall pc o, memN o (s_known (store_of_chain pc)) = spec_known pc o.
Proof.
  induction pc as [|b r IH]; intros o; [reflexivity|].
  simpl. rewrite memN_app, IH. reflexivity.
Qed.

Lemma store_proofs_bh_keys : forall pc k v, In (k, v) (s_proofs_bh (store_of_chain pc)) -> exists x, In x pc /\ b_h x = k.
Proof.
  induction pc as [|b r IH]; intros k v H; [destruct H|].
  simpl in H. apply in_app_or in H. destruct H as [H|H].
  - destruct (block_proof b); [|destruct H]. destruct H as [H|[]]. inversion H; subst. exists b. split; [left|]; reflexivity.
  - destruct (IH _ _ H) as (x & Hx & Hk). exists x. split; [right|]; assumption.
Qed.

Lemma amax_in : forall A (l : list (Z * A)) e, amax l = Some e -> In e l.
Proof.
  induction l as [|[k v] l IH]; intros e H; [discriminate|]. simpl in H.
  destruct (amax l) as [[k' v']|].
  - destruct (k' >? k); inversion H; subst; [right; apply IH; reflexivity|left; reflexivity].
  - inversion H. left. reflexivity.
Qed.

Lemma amax_cons_top : forall A k (v : A) l, (forall k' v', In (k', v') l -> k' < k) -> amax ((k, v) :: l) = Some (k, v).
Proof.
  intros A k v l H. simpl. destruct (amax l) as [[k' v']|] eqn:E; [|reflexivity].
  apply amax_in in E. specialize (H _ _ E). replace (k' >? k) with false by lia. reflexivity.
Qed.

Lemma store_proofs_bh_chain : forall pc h, consec pc ->
  option_map snd (amax_le h (s_proofs_bh (store_of_chain pc))) = spec_proof_le pc h.
Proof.
  induction pc as [|b r IH]; intros h Hc; [reflexivity|].
  assert (Hr : consec r) by (eapply consec_tail; eauto).
  unfold amax_le in *. simpl s_proofs_bh. rewrite filter_app. simpl spec_proof_le.
  destruct (block_proof b) as [p|] eqn:Ep.
  - simpl filter. destruct (b_h b >? h) eqn:E.
    + replace (b_h b <=? h) with false by lia. simpl. apply IH. exact Hr.
    + replace (b_h b <=? h) with true by lia. simpl app.
      rewrite amax_cons_top; [reflexivity|].
      intros k' v' Hin. apply filter_In in Hin. destruct Hin as (Hin & _).
      destruct (store_proofs_bh_keys _ _ _ Hin) as (x & Hx & <-).
      eapply consec_lt; eauto.
  - simpl. rewrite IH by exact Hr. destruct (b_h b >? h); reflexivity.
Qed.

Lemma perm_state_chain : forall pc k, consec pc -> perm_state (perm_of_chain pc) k = spec_state pc k.
Proof. intros. rewrite perm_of_chain_closed by assumption. apply store_states_chain. Qed.

Lemma perm_blockmap_chain : forall pc h, consec pc ->
  perm_blockmap (perm_of_chain pc) h = option_map full (spec_map pc h).
Proof.
  intros pc h Hc. rewrite perm_of_chain_closed by assumption. unfold perm_blockmap, perm_closed. cbn [p_mp p_store].
  destruct pc as [|b r]; [reflexivity|].
  unfold fv, full. cbn [fst m_h block_map]. simpl spec_map.
  destruct (b_h b =? h) eqn:E; [reflexivity|].
  rewrite store_maps_chain. simpl. rewrite E. reflexivity.
Qed.

Lemma perm_suf_chain : forall pc sh, consec pc -> perm_suf (perm_of_chain pc) sh = option_map full (spec_suf pc sh).
Proof.
  intros pc sh Hc. rewrite perm_of_chain_closed by assumption. unfold perm_suf, perm_closed. cbn [p_proof p_store].
  rewrite store_proofs_chain.
  destruct (spec_lastsuf pc) as [lp|] eqn:E; simpl; [|reflexivity].
  unfold fv, full. cbn [fst].
  destruct (pf_sh lp =? sh) eqn:E2; [|reflexivity].
  rewrite (spec_lastsuf_suf _ sh _ E) by lia. reflexivity.
Qed.

Lemma perm_sufbh_chain : forall pc h, consec pc -> perm_sufbh (perm_of_chain pc) h = option_map full (spec_sufbh pc h).
Proof.
  intros pc h Hc. rewrite perm_of_chain_closed by assumption. unfold perm_sufbh, perm_closed. cbn [p_mp p_proof p_store].
  destruct pc as [|b r]; [reflexivity|].
  unfold spec_sufbh. unfold fv at 1. unfold full at 1. cbn [fst m_h block_map].
  destruct (h >? b_h b); [reflexivity|].
  destruct (spec_lastsuf (b :: r)) as [lp|] eqn:E.
  - simpl option_map at 1. cbv iota. unfold fv, full. cbn [fst].
    destruct (h >=? pf_h lp) eqn:E2.
    + rewrite (spec_lastsuf_le _ h _ E) by lia. reflexivity.
    + rewrite <- (store_proofs_bh_chain (b :: r) h Hc).
      destruct (amax_le h (s_proofs_bh (store_of_chain (b :: r)))) as [[k v]|]; reflexivity.
  - cbn [option_map]. rewrite (spec_lastsuf_none_le _ h E). reflexivity.
Qed.

(* ------------------------------------------------------------------ the temps of a chain *)

Lemma dig_skip : forall k ts g v, (forall t, In t ts -> t_h t <= g) -> fold_left (dig_step k) ts (g, v) = (g, v).
Proof.
  induction ts as [|t ts IH]; intros g v H; [reflexivity|]. simpl.
  unfold dig_step at 2. cbn [fst].
  pose proof (H t (or_introl eq_refl)).
  replace (t_h t <=? g) with true by lia. apply IH. intros t' Ht'. apply H. right. exact Ht'.
Qed.

Lemma dig_temps : forall tb k, consec tb -> state_dig (map temp_of_block tb) k = spec_state tb k.
Proof.
  unfold state_dig. induction tb as [|b r IH]; intros k Hc; [reflexivity|].
  simpl. unfold dig_step at 2. cbn [fst]. rewrite t_h_temp_of_block.
  assert (0 <= b_h b) by (simpl in Hc; tauto).
  replace (b_h b <=? -1) with false by lia.
  change (s_states (t_store (temp_of_block b))) with (block_states b).
  destruct (lookupN k (block_states b)) as [st|].
  - rewrite dig_skip; [reflexivity|].
    intros t Ht. apply in_map_iff in Ht. destruct Ht as (x & <- & Hx). rewrite t_h_temp_of_block.
    pose proof (consec_lt _ _ Hc x Hx). lia.
  - apply IH. eapply consec_tail; eauto.
Qed.

Lemma find_temp_blocks : forall tb h, consec tb ->
  find_temp (map temp_of_block tb) h = option_map temp_of_block (find (fun b => b_h b =? h) tb).
Proof.
  induction tb as [|b r IH]; intros h Hc; [reflexivity|].
  unfold find_temp. cbn [map]. rewrite t_h_temp_of_block. cbn [length find].
  destruct (b_h b =? h) eqn:E.
  - replace (b_h b - h) with 0 by lia. simpl. reflexivity.
  - destruct (0 <=? b_h b - h) eqn:E0; cbn [andb].
    + (* h below the top: look in the rest *)
      assert (Hr : consec r) by (eapply consec_tail; eauto).
      specialize (IH h Hr).
      destruct r as [|b' r'].
      * simpl. replace (b_h b - h <? 1) with false by lia. reflexivity.
      * assert (Hb' : b_h b = b_h b' + 1) by (simpl in Hc; tauto).
        rewrite <- IH. unfold find_temp. cbn [map]. rewrite t_h_temp_of_block.
        replace (0 <=? b_h b' - h) with true by lia. cbn [andb].
        remember (temp_of_block b' :: map temp_of_block r') as ts' eqn:Ets'.
        replace (b_h b - h <? Z.of_nat (S (length ts'))) with (b_h b' - h <? Z.of_nat (length ts')) by lia.
        destruct (b_h b' - h <? Z.of_nat (length ts')); [|reflexivity].
        replace (Z.to_nat (b_h b - h)) with (S (Z.to_nat (b_h b' - h))) by lia.
        reflexivity.
    + (* h above the top *)
      symmetry. rewrite find_none_above; [reflexivity|].
      intros x Hx. pose proof (consec_lt _ _ Hc x Hx). lia.
Qed.

Lemma find_some : forall A (f : A -> bool) l x, find f l = Some x -> In x l /\ f x = true.
Proof. intros. apply find_some. assumption. Qed.

Lemma suf_in_temps_blocks : forall tb sh, suf_in_temps (map temp_of_block tb) sh = option_map full (spec_suf tb sh).
Proof.
  induction tb as [|b r IH]; intros sh; [reflexivity|].
  simpl. unfold block_proof. destruct (b_suf b) as [[[s sid] pid]|]; simpl; [|apply IH].
  destruct (s =? sh); simpl; [reflexivity|apply IH].
Qed.

Lemma first_proof_le_blocks : forall tb h, first_proof_le (map temp_of_block tb) h = option_map full (spec_proof_le tb h).
Proof.
  induction tb as [|b r IH]; intros h; [reflexivity|].
  simpl. rewrite t_h_temp_of_block. destruct (b_h b >? h); [apply IH|].
  destruct (block_proof b); simpl; [reflexivity|apply IH].
Qed.

Lemma first_temp_proof_blocks : forall tb, first_temp_proof (map temp_of_block tb) = option_map full (spec_lastsuf tb).
Proof.
  induction tb as [|b r IH]; [reflexivity|].
  simpl. destruct (block_proof b); simpl; [reflexivity|apply IH].
Qed.

Lemma first_temp_policy_blocks : forall tb, first_temp_policy (map temp_of_block tb) = spec_policy tb.
Proof.
  induction tb as [|b r IH]; [reflexivity|].
  simpl. destruct (block_policy b); simpl; [reflexivity|apply IH].
Qed.

Lemma temps_instate_blocks : forall tb o,
  existsb (fun t => memN o (t_instate t)) (map temp_of_block tb) = spec_instate tb o.
Proof. induction tb as [|b r IH]; intros; [reflexivity|]. simpl. rewrite IH. reflexivity. Qed.

Lemma temps_known_blocks : forall tb o,
  existsb (fun t => memN o (s_known (t_store t))) (map temp_of_block tb) = spec_known tb o.
Proof. induction tb as [|b r IH]; intros; [reflexivity|]. simpl. rewrite IH. reflexivity. Qed.

(* in a consecutive chain every block is at or above the bottom one *)
Lemma consec_ge_last : forall l d, consec l -> forall x, In x l -> b_h (last l d) <= b_h x.
Proof.
  induction l as [|a l IH]; intros d Hc x Hin; [destruct Hin|].
  destruct l as [|a' l'].
  - destruct Hin as [->|[]]. simpl. lia.
  - change (last (a :: a' :: l') d) with (last (a' :: l') d).
    assert (Hc' : consec (a' :: l')) by (eapply consec_tail; eauto).
    destruct Hin as [->|Hin].
    + pose proof (IH d Hc' a' (or_introl eq_refl)). simpl in Hc. lia.
    + apply IH; assumption.
Qed.

(* a height between bottom and top of a consecutive chain is the height of one of its blocks *)
Lemma consec_find_range : forall l d h, consec l -> l <> [] ->
  b_h (last l d) <= h -> h <= b_h (hd d l) -> find (fun b => b_h b =? h) l <> None.
Proof.
  induction l as [|a l IH]; intros d h Hc Hne Hlo Hhi; [congruence|].
  simpl. destruct (b_h a =? h) eqn:E; [discriminate|].
  destruct l as [|a' l'].
  - simpl in *. lia.
  - change (last (a :: a' :: l') d) with (last (a' :: l') d) in Hlo.
    apply (IH d); [eapply consec_tail; eauto|discriminate|exact Hlo|].
    simpl in *. lia.
Qed.

(* ------------------------------------------------------------------ the reads of the center *)

Lemma r_state : forall c tb pc, c_temps c = map temp_of_block tb -> c_perm c = perm_of_chain pc -> consec (tb ++ pc) ->
  forall k, c_state c k = spec_state (tb ++ pc) k.
Proof.
  intros c tb pc Ht Hp Hc. pose proof (consec_app_l _ _ Hc) as Hct. pose proof (consec_app_r _ _ Hc) as Hcp.
  intros k. unfold c_state, c_state_order. rewrite Ht, dig_temps by exact Hct.
  rewrite spec_state_app. destruct (spec_state tb k); [reflexivity|].
  rewrite Hp. apply perm_state_chain. exact Hcp.
Qed.

Lemma r_blockmap : forall c tb pc, c_temps c = map temp_of_block tb -> c_perm c = perm_of_chain pc -> consec (tb ++ pc) ->
  forall h, c_blockmap c h = option_map full (spec_map (tb ++ pc) h).
Proof.
  intros c tb pc Ht Hp Hc. pose proof (consec_app_l _ _ Hc) as Hct. pose proof (consec_app_r _ _ Hc) as Hcp.
  intros h. unfold c_blockmap. rewrite Ht, Hp.
  destruct tb as [|b0 tb'].
  - simpl. apply perm_blockmap_chain. exact Hcp.
  - cbn [map]. rewrite t_h_temp_of_block.
    change (temp_of_block b0 :: map temp_of_block tb') with (map temp_of_block (b0 :: tb')).
    rewrite spec_map_find, find_app.
    destruct (b_h b0 <? h) eqn:E.
    + assert (F1 : find (fun b => b_h b =? h) (b0 :: tb') = None).
      { apply find_none_above. intros x Hx. destruct Hx as [<-|Hx]; [lia|].
        pose proof (consec_lt _ _ Hct x Hx). lia. }
      assert (F2 : find (fun b => b_h b =? h) pc = None).
      { apply find_none_above. intros x Hx.
        assert (Hin : In x (tb' ++ pc)) by (apply in_or_app; right; exact Hx).
        pose proof (consec_lt b0 (tb' ++ pc) Hc x Hin). lia. }
      rewrite F1, F2. reflexivity.
    + rewrite find_temp_blocks by exact Hct.
      destruct (find (fun b => b_h b =? h) (b0 :: tb')) as [b|]; [reflexivity|].
      cbn [option_map]. rewrite perm_blockmap_chain by exact Hcp. rewrite spec_map_find. reflexivity.
Qed.

Lemma r_lastmap : forall c tb pc, c_temps c = map temp_of_block tb -> c_perm c = perm_of_chain pc -> consec (tb ++ pc) ->
  c_lastmap c = option_map full (spec_lastmap (tb ++ pc)).
Proof.
  intros c tb pc Ht Hp Hc. pose proof (consec_app_l _ _ Hc) as Hct. pose proof (consec_app_r _ _ Hc) as Hcp.
  unfold c_lastmap. rewrite Ht, Hp. destruct tb as [|b0 tb']; [|reflexivity].
  simpl. rewrite perm_of_chain_closed by exact Hcp. destruct pc; reflexivity.
Qed.

Lemma r_suf : forall c tb pc, c_temps c = map temp_of_block tb -> c_perm c = perm_of_chain pc -> consec (tb ++ pc) ->
  forall sh, c_suf c sh = option_map full (spec_suf (tb ++ pc) sh).
Proof.
  intros c tb pc Ht Hp Hc. pose proof (consec_app_l _ _ Hc) as Hct. pose proof (consec_app_r _ _ Hc) as Hcp.
  intros sh. unfold c_suf. rewrite Ht, Hp, suf_in_temps_blocks, spec_suf_app.
  destruct (spec_suf tb sh); [reflexivity|]. apply perm_suf_chain. exact Hcp.
Qed.

Lemma r_lastsuf : forall c tb pc, c_temps c = map temp_of_block tb -> c_perm c = perm_of_chain pc -> consec (tb ++ pc) ->
  c_lastsuf c = option_map full (spec_lastsuf (tb ++ pc)).
Proof.
  intros c tb pc Ht Hp Hc. pose proof (consec_app_l _ _ Hc) as Hct. pose proof (consec_app_r _ _ Hc) as Hcp.
  unfold c_lastsuf. rewrite Ht, Hp, first_temp_proof_blocks, spec_lastsuf_app.
  destruct (spec_lastsuf tb); [reflexivity|]. rewrite perm_of_chain_closed by exact Hcp. reflexivity.
Qed.

Lemma r_lastsuf_bytes : forall c tb pc, c_temps c = map temp_of_block tb -> c_perm c = perm_of_chain pc -> consec (tb ++ pc) ->
  c_lastsuf_bytes c = option_map full (spec_lastsuf (tb ++ pc)).
Proof.
  intros c tb pc Ht Hp Hc. pose proof (consec_app_l _ _ Hc) as Hct. pose proof (consec_app_r _ _ Hc) as Hcp.
  unfold c_lastsuf_bytes. rewrite Ht, Hp, first_temp_proof_blocks, spec_lastsuf_app.
  destruct (spec_lastsuf tb); [reflexivity|]. rewrite perm_of_chain_closed by exact Hcp.
  unfold perm_lastsuf_bytes, perm_closed. cbn [p_mp p_proof]. destruct pc; reflexivity.
Qed.

Lemma r_policy : forall c tb pc, c_temps c = map temp_of_block tb -> c_perm c = perm_of_chain pc -> consec (tb ++ pc) ->
  c_policy c = spec_policy (tb ++ pc).
Proof.
  intros c tb pc Ht Hp Hc. pose proof (consec_app_l _ _ Hc) as Hct. pose proof (consec_app_r _ _ Hc) as Hcp.
  unfold c_policy. rewrite Ht, Hp, first_temp_policy_blocks, spec_policy_app.
  destruct (spec_policy tb); [reflexivity|]. rewrite perm_of_chain_closed by exact Hcp. reflexivity.
Qed.

Lemma r_instate : forall c tb pc, c_temps c = map temp_of_block tb -> c_perm c = perm_of_chain pc -> consec (tb ++ pc) ->
  forall o, c_instate c o = spec_instate (tb ++ pc) o.
Proof.
  intros c tb pc Ht Hp Hc. pose proof (consec_app_l _ _ Hc) as Hct. pose proof (consec_app_r _ _ Hc) as Hcp.
  intros o. unfold c_instate, perm_instate, spec_instate. rewrite Ht, Hp, temps_instate_blocks, existsb_app.
  rewrite perm_of_chain_closed by exact Hcp. cbn [p_store perm_closed]. rewrite store_instate_chain. reflexivity.
Qed.

Lemma r_known : forall c tb pc, c_temps c = map temp_of_block tb -> c_perm c = perm_of_chain pc -> consec (tb ++ pc) ->
  forall o, c_known c o = spec_known (tb ++ pc) o.
Proof.
  intros c tb pc Ht Hp Hc. pose proof (consec_app_l _ _ Hc) as Hct. pose proof (consec_app_r _ _ Hc) as Hcp.
  intros o. unfold c_known, perm_known, spec_known. rewrite Ht, Hp, temps_known_blocks, existsb_app.
  rewrite perm_of_chain_closed by exact Hcp. cbn [p_store perm_closed]. rewrite store_known_chain. reflexivity.
Qed.

Lemma r_sufbh : forall c tb pc, c_temps c = map temp_of_block tb -> c_perm c = perm_of_chain pc -> consec (tb ++ pc) ->
  forall h, c_sufbh c h = option_map full (spec_sufbh (tb ++ pc) h).
Proof.
  intros c tb pc Ht Hp Hc. pose proof (consec_app_l _ _ Hc) as Hct. pose proof (consec_app_r _ _ Hc) as Hcp.
  intros h. unfold c_sufbh. rewrite Ht, Hp.
  destruct tb as [|b0 tb'].
  - simpl. apply perm_sufbh_chain. exact Hcp.
  - cbn [map]. rewrite t_h_temp_of_block.
    change (temp_of_block b0 :: map temp_of_block tb') with (map temp_of_block (b0 :: tb')).
    assert (Hspec : spec_sufbh ((b0 :: tb') ++ pc) h = if h >? b_h b0 then None else spec_proof_le ((b0 :: tb') ++ pc) h)
      by reflexivity.
    rewrite Hspec. clear Hspec.
    remember (b0 :: tb') as tb eqn:Etb.
    assert (Hne : tb <> []) by (rewrite Etb; discriminate).
    assert (Htop : b_h (hd b0 tb) = b_h b0) by (rewrite Etb; reflexivity).
    destruct (h >? b_h b0) eqn:Etop; [reflexivity|].
    rewrite find_temp_blocks by exact Hct.
    destruct (find (fun b => b_h b =? h) tb) as [b|] eqn:Ef; cbn [option_map].
    + (* h is the height of a temp *)
      apply find_some in Ef. destruct Ef as (Hin & Hh).
      change (t_proof (temp_of_block b)) with (option_map full (block_proof b)).
      destruct (block_proof b) as [p|] eqn:Ep; cbn [option_map].
      * rewrite (spec_proof_le_at (tb ++ pc) b h p); [reflexivity|exact Hc|apply in_or_app; left; exact Hin|lia|exact Ep].
      * rewrite first_proof_le_blocks, spec_proof_le_app.
        destruct (spec_proof_le tb h); [reflexivity|]. cbn [option_map].
        rewrite (last_map _ _ temp_of_block tb b0), t_h_temp_of_block.
        rewrite perm_sufbh_chain by exact Hcp.
        pose proof (consec_ge_last tb b0 Hct b Hin) as Hbot.
        destruct pc as [|p0 pc']; [reflexivity|].
        pose proof (consec_last_hd tb b0 p0 pc' Hne Hc) as Hlast.
        unfold spec_sufbh. replace (b_h (last tb b0) - 1 >? b_h p0) with false by lia.
        assert (A1 : spec_proof_le (p0 :: pc') (b_h (last tb b0) - 1) = spec_lastsuf (p0 :: pc')).
        { apply spec_proof_le_all. intros x Hx. destruct Hx as [<-|Hx]; [lia|]. pose proof (consec_lt _ _ Hcp x Hx). lia. }
        assert (A2 : spec_proof_le (p0 :: pc') h = spec_lastsuf (p0 :: pc')).
        { apply spec_proof_le_all. intros x Hx. destruct Hx as [<-|Hx]; [lia|]. pose proof (consec_lt _ _ Hcp x Hx). lia. }
        rewrite A1, A2. reflexivity.
    + (* h is below the temps *)
      assert (Hlow : h < b_h (last tb b0)).
      { destruct (Z_lt_le_dec h (b_h (last tb b0))) as [|Hge]; [assumption|].
        exfalso. apply (consec_find_range tb b0 h Hct Hne Hge); [lia|exact Ef]. }
      rewrite perm_sufbh_chain by exact Hcp.
      rewrite spec_proof_le_skip.
      * destruct pc as [|p0 pc']; [reflexivity|].
        pose proof (consec_last_hd tb b0 p0 pc' Hne Hc) as Hlast.
        unfold spec_sufbh. replace (h >? b_h p0) with false by lia. reflexivity.
      * intros x Hx. pose proof (consec_ge_last tb b0 Hct x Hx). lia.
Qed.

Lemma fr_id_full : forall A (f : A -> N) x, fr_id f (option_map full x) = option_map f x.
Proof. intros. destruct x; reflexivity. Qed.

Lemma fr_fr_full : forall A (f : A -> N) x, fr_fr f (option_map full x) = full_id (option_map f x).
Proof. intros. destruct x; reflexivity. Qed.

(* every read kind, on every argument *)
Lemma read_refines : forall c r, Inv c -> eval_read c r = spec_read (abs c) r.
Proof.
  intros c r (tb & pc & Ht & Hp & Hc). rewrite (Inv_abs _ _ _ Ht Hp).
  destruct r; simpl.
  - rewrite (r_state c tb pc Ht Hp Hc). reflexivity.
  - rewrite (r_state c tb pc Ht Hp Hc). destruct (spec_state (tb ++ pc) k); reflexivity.
  - rewrite (r_blockmap c tb pc Ht Hp Hc), fr_id_full. reflexivity.
  - rewrite (r_blockmap c tb pc Ht Hp Hc), fr_fr_full. reflexivity.
  - rewrite (r_lastmap c tb pc Ht Hp Hc), fr_id_full. reflexivity.
  - rewrite (r_lastmap c tb pc Ht Hp Hc), fr_fr_full. reflexivity.
  - rewrite (r_suf c tb pc Ht Hp Hc), fr_id_full. reflexivity.
  - rewrite (r_suf c tb pc Ht Hp Hc), fr_fr_full. reflexivity.
  - rewrite (r_sufbh c tb pc Ht Hp Hc), fr_id_full. reflexivity.
  - rewrite (r_lastsuf c tb pc Ht Hp Hc), fr_id_full. reflexivity.
  - rewrite (r_lastsuf_bytes c tb pc Ht Hp Hc), fr_fr_full. reflexivity.
  - rewrite (r_policy c tb pc Ht Hp Hc). reflexivity.
  - rewrite (r_instate c tb pc Ht Hp Hc). reflexivity.
  - rewrite (r_known c tb pc Ht Hp Hc). reflexivity.
Qed.
