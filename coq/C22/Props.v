(* C22 -- Operation pool hands out a valid, de-duplicated operation set.  Property theorems only.
   [run ops] = the pool after any history of SetOperation / OperationHashes calls (any limits, any filters).
   entry = (operation, fact); [passes flt e] = the filter callback answered (true, nil) for e. *)
From Coq Require Import ZArith NArith List Bool.
From MV Require Import C22.Model C22.Proofs.
Import ListNotations.
Open Scope N_scope.

Section Handout.
  Variables (ops : list op) (limit : N) (flt : filter_t) (res : list entry) (st' : state).
  Hypothesis Hcall : operation_hashes limit flt (run ops) = (Ok res, st').
  Let pool := ordered (run ops).

  (* at most L entries *)
  Theorem C22_len : N.of_nat (length res) <= limit.
  Proof. exact (handout_len _ _ _ _ _ (SI_run ops) Hcall). Qed.

  (* pairwise distinct operations and facts *)
  Theorem C22_distinct_ops : NoDup (map fst res).
  Proof. exact (handout_distinct_ops _ _ _ _ _ (SI_run ops) Hcall). Qed.

  Theorem C22_distinct_facts : NoDup (map snd res).
  Proof. exact (handout_distinct_facts _ _ _ _ _ (SI_run ops) Hcall). Qed.

  (* every entry is stored in the pool and passes the filter *)
  Theorem C22_from_pool_and_filter : forall e, In e res -> In e pool /\ passes flt e = true.
  Proof. exact (handout_from_pool_and_filter _ _ _ _ _ (SI_run ops) Hcall). Qed.

  (* for a fact submitted several times the most recently added operation is chosen: the answer consists of
     exactly those passing records, among the first n records of the pool, that are not followed (within these n)
     by another passing record of the same fact; n is the whole pool unless the answer is full (limit reached) *)
  Theorem C22_latest_per_fact :
    exists n, (n <= length pool)%nat /\
      (forall e, In e res <-> exists P1 P2, filter (passes flt) (firstn n pool) = P1 ++ e :: P2 /\
                                            ~ In (snd e) (map snd P2)) /\
      (n = length pool \/ N.of_nat (length res) = limit).
  Proof. exact (handout_latest _ _ _ _ _ (SI_run ops) Hcall). Qed.

  (* when there was room left, the whole pool was looked at: every passing fact is present, with its latest operation *)
  Theorem C22_complete_when_short : N.of_nat (length res) < limit ->
    forall e, In e res <-> exists P1 P2, filter (passes flt) pool = P1 ++ e :: P2 /\ ~ In (snd e) (map snd P2).
  Proof.
    intros H e. rewrite (handout_complete_when_short _ _ _ _ _ (SI_run ops) Hcall H). apply lpf_in_iff.
  Qed.

  (* a returned operation is still in the pool after the call (the hand-out does not consume it) *)
  Theorem C22_returned_stay : forall e, In e res -> In e (ordered st').
  Proof. exact (handout_returned_stay _ _ _ _ _ (SI_run ops) Hcall). Qed.

  (* what was looked at and not returned (filtered out, or superseded by a later operation of its fact) has left
     the pool; what was not looked at is untouched *)
  Theorem C22_pool_after :
    exists n, (n <= length pool)%nat /\ (n = length pool \/ N.of_nat (length res) = limit) /\
      (forall e, In e (firstn n pool) -> ~ In e res -> ~ In (fst e) (map fst (ordered st'))) /\
      (forall e, In e (skipn n pool) -> In e (ordered st')).
  Proof.
    destruct (handout_scanned_removed _ _ _ _ _ (SI_run ops) Hcall) as [n [A [_ [B [C D]]]]].
    exists n; auto.
  Qed.

  (* filtered-out operations are not returned: not now ... *)
  Theorem C22_filtered_not_returned : forall e, passes flt e = false -> ~ In e res.
  Proof. intros e. exact (filtered_is_not_returned _ _ _ _ _ e (SI_run ops) Hcall). Qed.

  (* ... and never again, whatever is submitted or asked later (even if a later filter would accept them): this
     holds for every record looked at and not returned *)
  Theorem C22_filtered_not_returned_again :
    exists n, (n <= length pool)%nat /\ (n = length pool \/ N.of_nat (length res) = limit) /\
      forall e, In e (firstn n pool) -> ~ In e res ->
        forall ops2 limit' flt' res' st2,
          operation_hashes limit' flt' (run_from st' ops2) = (Ok res', st2) -> ~ In (fst e) (map fst res').
  Proof. exact (removed_never_again _ _ _ _ _ Hcall). Qed.
End Handout.

(* the index bookkeeping never goes out of range / never meets an emptied slot, for any history, limit, filter *)
Theorem C22_no_panic : forall limit flt ops, fst (operation_hashes limit flt (run ops)) <> Bad.
Proof. exact no_bad. Qed.

(* an error comes only from the filter callback, and leaves the pool unchanged *)
Theorem C22_error_only_from_filter : forall limit flt ops,
  fst (operation_hashes limit flt (run ops)) = Err ->
  snd (operation_hashes limit flt (run ops)) = run ops /\
  exists e, In e (ordered (run ops)) /\ flt_eval flt (fst e) (snd e) = FError.
Proof. exact error_only_from_filter. Qed.

(* adding an operation is idempotent *)
Theorem C22_set_idempotent : forall o f g st,
  set_operation o g (snd (set_operation o f st)) = (false, snd (set_operation o f st)).
Proof. exact set_idempotent. Qed.

(* in every reachable pool an operation has at most one record, and every record has its body stored *)
Theorem C22_pool_invariant : forall ops,
  NoDup (map fst (ordered (run ops))) /\ forall o, In o (map fst (ordered (run ops))) -> In o (bodies (run ops)).
Proof. exact SI_run. Qed.

(* ---------------------------------------------------------------- non-vacuity / documentation *)

Definition nofilter : filter_t := mkFilter [] [] None.

(* DESIGN 5.4 witness: facts in the order f0 f1 f0 f2 f1 f0 (operations 0..5) *)
Definition witness : list op := [OSet 0 0; OSet 1 1; OSet 2 0; OSet 3 2; OSet 4 1; OSet 5 0].

Example C22_example_handout :
  operation_hashes 10 nofilter (run witness) =
  (Ok [(3, 2); (4, 1); (5, 0)], mkState [(3, 2); (4, 1); (5, 0)] [5; 4; 3; 2; 1; 0]).
Proof. vm_compute. reflexivity. Qed.

(* limit 1, the first two operations filtered out: the third is returned, the two are gone *)
Example C22_example_filtered :
  operation_hashes 1 (mkFilter [0; 1] [] None) (run [OSet 0 0; OSet 1 1; OSet 2 2]) =
  (Ok [(2, 2)], mkState [(2, 2)] [2; 1; 0]).
Proof. vm_compute. reflexivity. Qed.

(* the limit bounds how much of the pool is looked at: a newer operation of fact 0 beyond that point is not seen
   (it stays in the pool) -- this is the "n" of C22_latest_per_fact *)
Example C22_example_latest_within_window :
  fst (operation_hashes 2 nofilter (run [OSet 0 0; OSet 1 1; OSet 2 0])) = Ok [(0, 0); (1, 1)].
Proof. vm_compute. reflexivity. Qed.

(* the code before the fix: commit on the same witness: fact 1 twice, fact 2 lost; and with limit 1 after one
   superseded operation the removal array is out of range *)
Example C22_unfixed_code_duplicate_fact :
  match scan_old 10 (ordered (run witness)) (mkAccOld [] [] []) with
  | Ok a => o_ops a = [(1, 1); (4, 1); (5, 0)]
  | _ => False
  end.
Proof. vm_compute. reflexivity. Qed.
