(* C22 -- lemmas about the operation pool hand-out model. *)
From Coq Require Import ZArith NArith List Bool Lia ZifyBool ZifyNat ZifyN.
From MV Require Import C22.Model.
Import ListNotations.
Open Scope N_scope.

(* ---------------------------------------------------------------- specification vocabulary *)

Definition passes (flt : filter_t) (e : entry) : bool :=
  match flt_eval flt (fst e) (snd e) with FPass => true | _ => false end.

Definition remove_fact (f : N) (sel : list entry) : list entry :=
  filter (fun x => negb (N.eqb (snd x) f)) sel.

(* "latest per fact": going through the records in pool order, a record replaces the selected record of the
   same fact and goes to the end *)
Definition lpf_step (sel : list entry) (e : entry) : list entry := remove_fact (snd e) sel ++ [e].
Definition lpf (l : list entry) : list entry := fold_left lpf_step l [].

Lemma lpf_snoc : forall l e, lpf (l ++ [e]) = remove_fact (snd e) (lpf l) ++ [e].
Proof. intros; unfold lpf; rewrite fold_left_app; reflexivity. Qed.

Lemma remove_fact_in : forall f l e, In e (remove_fact f l) <-> In e l /\ snd e <> f.
Proof.
  intros; unfold remove_fact; rewrite filter_In, negb_true_iff, N.eqb_neq; tauto.
Qed.

Lemma remove_fact_notin : forall f l, ~ In f (map snd l) -> remove_fact f l = l.
Proof.
  intros f l; induction l as [|x t IH]; cbn [remove_fact filter map In]; intros H; [reflexivity|].
  destruct (N.eqb (snd x) f) eqn:E; cbn [negb].
  - apply N.eqb_eq in E. exfalso; apply H; auto.
  - f_equal. apply IH. intros I; apply H; auto.
Qed.

Lemma remove_fact_app : forall f a b, remove_fact f (a ++ b) = remove_fact f a ++ remove_fact f b.
Proof. intros; unfold remove_fact; apply filter_app. Qed.

Lemma remove_fact_unique : forall l1 e l2, NoDup (map snd (l1 ++ e :: l2)) ->
  remove_fact (snd e) (l1 ++ e :: l2) = l1 ++ l2.
Proof.
  intros l1 e l2 H. rewrite map_app in H. cbn [map] in H.
  pose proof (NoDup_remove_2 _ _ _ H) as Hn.
  rewrite remove_fact_app. cbn [remove_fact filter]. rewrite N.eqb_refl. cbn [negb].
  fold (remove_fact (snd e) l2).
  rewrite !remove_fact_notin; auto; intros I; apply Hn; apply in_or_app; auto.
Qed.

(* the last occurrence of each fact, in pool order *)
Lemma lpf_in_iff : forall P e,
  In e (lpf P) <-> exists P1 P2, P = P1 ++ e :: P2 /\ ~ In (snd e) (map snd P2).
Proof.
  intros P; induction P as [|x P IH] using rev_ind; intros e.
  - cbn. split; [tauto|]. intros [P1 [P2 [H _]]]. destruct P1; discriminate.
  - rewrite lpf_snoc, in_app_iff, remove_fact_in. cbn [In]. split.
    + intros [[Hi Hn]|[->|[]]].
      * apply IH in Hi. destruct Hi as [P1 [P2 [-> H2]]].
        exists P1, (P2 ++ [x]). split; [now rewrite <- app_assoc|].
        rewrite map_app, in_app_iff. cbn [map In]. intros [I|[I|[]]]; auto.
      * exists P, []. split; auto.
    + intros [P1 [P2 [H Hn]]].
      destruct P2 as [|y P2'] using rev_ind.
      * apply app_inj_tail in H. destruct H as [_ ->]. right; auto.
      * clear IHP2'. replace (P1 ++ e :: P2' ++ [y]) with ((P1 ++ e :: P2') ++ [y]) in H
          by (rewrite <- app_assoc; reflexivity).
        apply app_inj_tail in H. destruct H as [-> ->].
        rewrite map_app, in_app_iff in Hn. cbn [map In] in Hn.
        left. split.
        -- apply IH. exists P1, P2'. split; auto.
        -- intros E. apply Hn. right; left; auto.
Qed.

Lemma NoDup_app_snoc_helper : forall {A} (l : list A) x, NoDup l -> ~ In x l -> NoDup (l ++ [x]).
Proof.
  intros A l x Hd Hn. induction l as [|y t IH]; cbn [app]; [constructor; auto; constructor|].
  inversion Hd; subst. constructor.
  - rewrite in_app_iff. cbn [In]. intros [I|[E|[]]]; auto. subst. apply Hn; left; reflexivity.
  - apply IH; auto. intros I; apply Hn; right; auto.
Qed.

(* ---------------------------------------------------------------- lists with emptied slots *)

Lemma live_app : forall a b, live (a ++ b) = live a ++ live b.
Proof. induction a as [|[e|] t IH]; intros b; cbn [live app]; [reflexivity| |]; now rewrite IH. Qed.

Lemma live_set_nth_none : forall l i e, nth_error l i = Some (Some e) ->
  exists l1 l2, live l = l1 ++ e :: l2 /\ live (set_nth i None l) = l1 ++ l2.
Proof.
  induction l as [|x t IH]; intros i e H; [destruct i; discriminate|].
  destruct i as [|j]; cbn [nth_error] in H.
  - inversion H; subst. exists [], (live t). split; reflexivity.
  - destruct (IH _ _ H) as [l1 [l2 [A B]]]. cbn [set_nth].
    destruct x as [y|]; cbn [live]; rewrite A, B.
    + exists (y :: l1), l2. split; reflexivity.
    + exists l1, l2. split; reflexivity.
Qed.

Lemma nth_error_set_nth_other : forall {A} (l : list A) i j x, i <> j ->
  nth_error (set_nth i x l) j = nth_error l j.
Proof.
  induction l as [|y t IH]; intros i j x H; [destruct i; reflexivity|].
  destruct i, j; cbn [set_nth nth_error]; try reflexivity; [congruence|]. apply IH. congruence.
Qed.

Lemma length_set_nth : forall {A} (l : list A) i x, length (set_nth i x l) = length l.
Proof. induction l as [|y t IH]; intros [|i] x; cbn [set_nth length]; auto. Qed.

Lemma nth_error_live_in : forall l i e, nth_error l i = Some (Some e) -> In e (live l).
Proof.
  intros l i e H. destruct (live_set_nth_none _ _ _ H) as [l1 [l2 [A _]]]. rewrite A.
  apply in_or_app; right; left; reflexivity.
Qed.

(* ---------------------------------------------------------------- the invariant of the scan *)

Record Inv (flt : filter_t) (S : list entry) (a : acc) : Prop := mkInv {
  inv_live : live (a_ops a) = lpf (filter (passes flt) S);
  inv_sel : a_sel a = N.of_nat (length (live (a_ops a)));
  inv_facts_some : forall f i, facts_get f (a_facts a) = Some i -> exists o, nth_error (a_ops a) i = Some (Some (o, f));
  inv_facts_none : forall f, facts_get f (a_facts a) = None -> ~ In f (map snd (live (a_ops a)));
  inv_nodup_facts : NoDup (map snd (live (a_ops a)));
  inv_nodup_ops : NoDup (map fst (live (a_ops a)));
  inv_live_in : forall e, In e (live (a_ops a)) -> In e S /\ passes flt e = true;
  inv_rm_in : forall x, In x (a_rm a) -> In x (map fst S);
  inv_rm_disj : forall x, In x (a_rm a) -> ~ In x (map fst (live (a_ops a)));
  inv_cover : forall e, In e S -> In e (live (a_ops a)) \/ In (fst e) (a_rm a) }.

Lemma inv_init : forall flt, Inv flt [] empty_acc.
Proof.
  intros; constructor; cbn; try tauto; try constructor; try discriminate.
Qed.

Lemma filter_snoc : forall {A} (p : A -> bool) l x, filter p (l ++ [x]) = filter p l ++ (if p x then [x] else []).
Proof. intros; rewrite filter_app; cbn [filter]; destruct (p x); reflexivity. Qed.

Lemma in_map_fst : forall (e : entry) l, In e l -> In (fst e) (map fst l).
Proof. intros; now apply in_map. Qed.

Lemma reject_inv : forall flt S a o f, Inv flt S a -> ~ In o (map fst S) -> passes flt (o, f) = false ->
  Inv flt (S ++ [(o, f)]) (mkAcc (a_ops a) (a_facts a) (o :: a_rm a) (a_sel a)).
Proof.
  intros flt S a o f I Hn Hp. destruct I. constructor; cbn [a_ops a_facts a_rm a_sel]; auto.
  - rewrite filter_snoc, Hp, app_nil_r. assumption.
  - intros e He. destruct (inv_live_in0 e He). split; auto. apply in_or_app; auto.
  - intros x [<-|Hx]; rewrite map_app, in_app_iff; cbn [map In]; auto.
  - intros x [<-|Hx]; auto. intros Hi. apply Hn.
    apply in_map_iff in Hi. destruct Hi as [e [E He]]. destruct (inv_live_in0 e He) as [HS _].
    rewrite <- E. now apply in_map.
  - intros e He. apply in_app_or in He. destruct He as [He|[<-|[]]].
    + destruct (inv_cover0 e He); auto. right; right; auto.
    + right; left; reflexivity.
Qed.

Lemma select_inv : forall flt S a o f, Inv flt S a -> ~ In o (map fst S) -> passes flt (o, f) = true ->
  exists a', select o f a = Ok a' /\ Inv flt (S ++ [(o, f)]) a' /\ a_sel a' <= a_sel a + 1.
Proof.
  intros flt S a o f I Hn Hp. destruct I. unfold select.
  assert (Hlive_notin : forall e, In e (live (a_ops a)) -> fst e <> o).
  { intros e He E. apply Hn. rewrite <- E. apply in_map. now destruct (inv_live_in0 e He). }
  destruct (facts_get f (a_facts a)) as [prev|] eqn:G.
  - destruct (inv_facts_some0 _ _ G) as [po Hnth]. rewrite Hnth.
    destruct (live_set_nth_none _ _ _ Hnth) as [l1 [l2 [A B]]].
    eexists; split; [reflexivity|]. cbn [a_ops a_facts a_rm a_sel].
    assert (Hrf : remove_fact f (live (a_ops a)) = l1 ++ l2).
    { pose proof inv_nodup_facts0 as Q. rewrite A in Q. rewrite A. exact (remove_fact_unique l1 (po, f) l2 Q). }
    assert (Hf12 : ~ In f (map snd (l1 ++ l2))).
    { rewrite A, map_app in inv_nodup_facts0. cbn [map snd] in inv_nodup_facts0.
      pose proof (NoDup_remove_2 _ _ _ inv_nodup_facts0) as Q. now rewrite map_app. }
    assert (Hpo12 : ~ In po (map fst (l1 ++ l2))).
    { rewrite A, map_app in inv_nodup_ops0. cbn [map fst] in inv_nodup_ops0.
      pose proof (NoDup_remove_2 _ _ _ inv_nodup_ops0) as Q. now rewrite map_app. }
    assert (Hsub : forall e, In e (l1 ++ l2) -> In e (live (a_ops a))).
    { intros e He. rewrite A. apply in_app_or in He. apply in_or_app. destruct He; [left|right; right]; auto. }
    assert (Hlen : length (live (a_ops a)) = Datatypes.S (length (l1 ++ l2))).
    { rewrite A, !app_length. cbn [length]. lia. }
    split; [constructor; cbn [a_ops a_facts a_rm a_sel]|].
    + rewrite live_app, B. cbn [live]. rewrite filter_snoc, Hp, lpf_snoc. cbn [snd].
      rewrite <- inv_live0, Hrf. reflexivity.
    + rewrite live_app, B. cbn [live]. rewrite inv_sel0, Hlen, !app_length. cbn [length]. lia.
    + intros g i Hg. unfold facts_set in Hg. cbn [facts_get] in Hg.
      rewrite length_set_nth in Hg.
      destruct (N.eqb f g) eqn:E.
      * apply N.eqb_eq in E. subst g. inversion Hg; subst i. exists o.
        rewrite nth_error_app2; rewrite length_set_nth; [|lia]. now rewrite Nat.sub_diag.
      * apply N.eqb_neq in E. destruct (inv_facts_some0 _ _ Hg) as [o' Ho'].
        exists o'. assert (Hip : prev <> i).
        { intros ->. rewrite Ho' in Hnth. inversion Hnth. congruence. }
        rewrite nth_error_app1.
        -- now rewrite nth_error_set_nth_other.
        -- rewrite length_set_nth. apply nth_error_Some. congruence.
    + intros g Hg. unfold facts_set in Hg. cbn [facts_get] in Hg.
      destruct (N.eqb f g) eqn:E; [discriminate|]. apply N.eqb_neq in E.
      rewrite live_app, B. cbn [live]. rewrite map_app, in_app_iff. cbn [map In snd].
      intros [Hi|[Hi|[]]]; [|congruence].
      apply (inv_facts_none0 _ Hg). apply in_map_iff in Hi. destruct Hi as [e [Ee He]].
      apply in_map_iff. exists e. split; auto.
    + rewrite live_app, B. cbn [live]. rewrite map_app. cbn [map snd].
      apply NoDup_app_snoc_helper; auto.
      rewrite A, map_app in inv_nodup_facts0. cbn [map] in inv_nodup_facts0.
      apply NoDup_remove_1 in inv_nodup_facts0. now rewrite map_app.
    + rewrite live_app, B. cbn [live]. rewrite map_app. cbn [map fst].
      apply NoDup_app_snoc_helper.
      * rewrite A, map_app in inv_nodup_ops0. cbn [map] in inv_nodup_ops0.
        apply NoDup_remove_1 in inv_nodup_ops0. now rewrite map_app.
      * intros Hi. apply in_map_iff in Hi. destruct Hi as [e [Ee He]].
        apply (Hlive_notin e); auto.
    + intros e He. rewrite live_app, B in He. cbn [live] in He. apply in_app_or in He.
      destruct He as [He|[<-|[]]].
      * destruct (inv_live_in0 e (Hsub e He)). split; auto. apply in_or_app; auto.
      * split; auto. apply in_or_app; right; left; reflexivity.
    + intros x [<-|Hx]; rewrite map_app, in_app_iff; left.
      * (* po is the operation of a live entry, hence scanned *)
        assert (Hin : In (po, f) (live (a_ops a))) by (rewrite A; apply in_or_app; right; left; reflexivity).
        destruct (inv_live_in0 _ Hin) as [HS _]. now apply (in_map fst) in HS.
      * auto.
    + intros x Hx. rewrite live_app, B. cbn [live]. rewrite map_app, in_app_iff. cbn [map In fst].
      destruct Hx as [<-|Hx].
      * intros [Hi|[Hi|[]]]; [now apply Hpo12|].
        assert (Hin : In (po, f) (live (a_ops a))) by (rewrite A; apply in_or_app; right; left; reflexivity).
        apply (Hlive_notin _ Hin). auto.
      * intros [Hi|[Hi|[]]].
        -- apply (inv_rm_disj0 x Hx). apply in_map_iff in Hi. destruct Hi as [e [Ee He]].
           apply in_map_iff. exists e; split; auto.
        -- subst x. apply Hn. auto.
    + intros e He. rewrite live_app, B. cbn [live]. apply in_app_or in He. destruct He as [He|[<-|[]]].
      * destruct (inv_cover0 e He) as [Hl|Hr]; [|right; right; auto].
        rewrite A in Hl. apply in_app_or in Hl. destruct Hl as [Hl|[<-|Hl]].
        -- left. apply in_or_app; left. apply in_or_app; auto.
        -- right; left; reflexivity.
        -- left. apply in_or_app; left. apply in_or_app; auto.
      * left. apply in_or_app; right; left; reflexivity.
    + cbn [a_sel]. lia.
  - eexists; split; [reflexivity|]. cbn [a_ops a_facts a_rm a_sel].
    pose proof (inv_facts_none0 _ G) as Hfn.
    split; [constructor; cbn [a_ops a_facts a_rm a_sel]|].
    + rewrite live_app. cbn [live]. rewrite filter_snoc, Hp, lpf_snoc. cbn [snd].
      rewrite <- inv_live0, remove_fact_notin; auto.
    + rewrite live_app. cbn [live]. rewrite inv_sel0, app_length. cbn [length]. lia.
    + intros g i Hg. unfold facts_set in Hg. cbn [facts_get] in Hg.
      destruct (N.eqb f g) eqn:E.
      * apply N.eqb_eq in E. subst g. inversion Hg; subst i. exists o.
        rewrite nth_error_app2; [|lia]. now rewrite Nat.sub_diag.
      * destruct (inv_facts_some0 _ _ Hg) as [o' Ho']. exists o'.
        rewrite nth_error_app1; auto. apply nth_error_Some. congruence.
    + intros g Hg. unfold facts_set in Hg. cbn [facts_get] in Hg.
      destruct (N.eqb f g) eqn:E; [discriminate|]. apply N.eqb_neq in E.
      rewrite live_app. cbn [live]. rewrite map_app, in_app_iff. cbn [map In snd].
      intros [Hi|[Hi|[]]]; [|congruence]. now apply (inv_facts_none0 _ Hg).
    + rewrite live_app. cbn [live]. rewrite map_app. cbn [map snd]. now apply NoDup_app_snoc_helper.
    + rewrite live_app. cbn [live]. rewrite map_app. cbn [map fst]. apply NoDup_app_snoc_helper; auto.
      intros Hi. apply in_map_iff in Hi. destruct Hi as [e [Ee He]]. apply (Hlive_notin e); auto.
    + intros e He. rewrite live_app in He. cbn [live] in He. apply in_app_or in He.
      destruct He as [He|[<-|[]]].
      * destruct (inv_live_in0 e He). split; auto. apply in_or_app; auto.
      * split; auto. apply in_or_app; right; left; reflexivity.
    + intros x Hx. rewrite map_app, in_app_iff; left; auto.
    + intros x Hx. rewrite live_app. cbn [live]. rewrite map_app, in_app_iff. cbn [map In fst].
      intros [Hi|[Hi|[]]]; [now apply (inv_rm_disj0 x Hx)|]. subst x. apply Hn; auto.
    + intros e He. rewrite live_app. cbn [live]. apply in_app_or in He. destruct He as [He|[<-|[]]].
      * destruct (inv_cover0 e He); [left; apply in_or_app|right]; auto.
      * left. apply in_or_app; right; left; reflexivity.
    + cbn [a_sel]. lia.
Qed.

(* ---------------------------------------------------------------- the scan *)

Lemma passes_cases : forall flt o f,
  (flt_eval flt o f = FPass /\ passes flt (o, f) = true) \/
  (flt_eval flt o f = FReject /\ passes flt (o, f) = false) \/
  (flt_eval flt o f = FError /\ passes flt (o, f) = false).
Proof. intros; unfold passes; cbn [fst snd]; destruct (flt_eval flt o f); auto. Qed.

Lemma scan_inv : forall limit flt l S a,
  Inv flt S a -> NoDup (map fst (S ++ l)) -> a_sel a < limit ->
  match scan limit flt l a with
  | Ok a' => exists n, (n <= length l)%nat /\ Inv flt (S ++ firstn n l) a' /\ a_sel a' <= limit /\
                       (n = length l \/ a_sel a' = limit)
  | Err => exists e, In e l /\ flt_eval flt (fst e) (snd e) = FError
  | Bad => False
  end.
Proof.
  intros limit flt l; induction l as [|[o f] t IH]; intros S a I Hd Hs; cbn [scan].
  - exists 0%nat. cbn [firstn length]. rewrite app_nil_r.
    split; [lia|]. split; [exact I|]. split; [lia|left; reflexivity].
  - assert (Hn : ~ In o (map fst S)).
    { rewrite map_app in Hd. cbn [map fst] in Hd. apply NoDup_remove_2 in Hd.
      intros Hi; apply Hd; apply in_or_app; auto. }
    assert (Hd' : NoDup (map fst ((S ++ [(o, f)]) ++ t))) by (rewrite <- app_assoc; exact Hd).
    assert (Hfirst : forall n, S ++ firstn (Datatypes.S n) ((o, f) :: t) = (S ++ [(o, f)]) ++ firstn n t).
    { intros n. cbn [firstn]. rewrite <- app_assoc. reflexivity. }
    destruct (passes_cases flt o f) as [[E P]|[[E P]|[E P]]]; rewrite E.
    + destruct (select_inv flt S a o f I Hn P) as [a2 [Hsel [I2 Hle]]]. rewrite Hsel.
      destruct (a_sel a2 <? limit) eqn:L.
      * apply N.ltb_lt in L. specialize (IH _ _ I2 Hd' L).
        destruct (scan limit flt t a2) as [a'| |]; auto.
        -- destruct IH as [n [Hn' [I' [Hl Hstop]]]]. exists (Datatypes.S n). rewrite Hfirst. cbn [length].
           split; [lia|]. split; [exact I'|]. split; [exact Hl|]. destruct Hstop; [left; lia|right; auto].
        -- destruct IH as [e [He1 He2]]. exists e. split; auto. right; auto.
      * apply N.ltb_ge in L. exists 1%nat. rewrite Hfirst. cbn [firstn length]. rewrite app_nil_r.
        split; [lia|]. split; [exact I2|]. split; [lia|right; lia].
    + pose proof (reject_inv flt S a o f I Hn P) as I2.
      specialize (IH _ _ I2 Hd' Hs).
      destruct (scan limit flt t _) as [a'| |]; auto.
      * destruct IH as [n [Hn' [I' [Hl Hstop]]]]. exists (Datatypes.S n). rewrite Hfirst. cbn [length].
        split; [lia|]. split; [exact I'|]. split; [exact Hl|]. destruct Hstop; [left; lia|right; auto].
      * destruct IH as [e [He1 He2]]. exists e. split; auto. right; auto.
    + exists (o, f). split; [left; reflexivity|exact E].
Qed.

(* ---------------------------------------------------------------- states *)

(* state invariant of every reachable pool: one ordered record per operation, every ordered operation has a body *)
Definition SI (st : state) : Prop :=
  NoDup (map fst (ordered st)) /\ forall o, In o (map fst (ordered st)) -> In o (bodies st).

Lemma mem_true_iff : forall x l, mem x l = true <-> In x l.
Proof.
  intros; unfold mem; rewrite existsb_exists; split.
  - intros [y [Hy E]]. apply N.eqb_eq in E. now subst.
  - intros H. exists x. split; auto. apply N.eqb_refl.
Qed.

Lemma mem_false_iff : forall x l, mem x l = false <-> ~ In x l.
Proof. intros. rewrite <- mem_true_iff. destruct (mem x l); split; congruence. Qed.

Lemma SI_init : SI init.
Proof. split; cbn; [constructor|tauto]. Qed.

Lemma SI_set : forall o f st, SI st -> SI (snd (set_operation o f st)).
Proof.
  intros o f st [Hd Hb]. unfold set_operation. destruct (mem o (bodies st)) eqn:M; cbn [snd]; [split; auto|].
  apply mem_false_iff in M. split; cbn [ordered bodies].
  - rewrite map_app. cbn [map fst]. apply NoDup_app_snoc_helper; auto.
  - intros x Hx. rewrite map_app, in_app_iff in Hx. cbn [map In fst] in Hx.
    destruct Hx as [Hx|[<-|[]]]; [right; auto|left; reflexivity].
Qed.

Lemma filter_map_nodup : forall (p : entry -> bool) l, NoDup (map fst l) -> NoDup (map fst (filter p l)).
Proof.
  intros p l; induction l as [|x t IH]; cbn [filter map]; intros H; [constructor|].
  inversion H; subst. destruct (p x); cbn [map]; auto. constructor; auto.
  intros I. apply H2. apply in_map_iff in I. destruct I as [y [E Hy]]. apply filter_In in Hy.
  apply in_map_iff. exists y; tauto.
Qed.

Lemma SI_remove_ops : forall rm st, SI st -> SI (remove_ops rm st).
Proof.
  intros rm st [Hd Hb]. split; cbn [remove_ops ordered bodies].
  - now apply filter_map_nodup.
  - intros o Ho. apply Hb. apply in_map_iff in Ho. destruct Ho as [e [E He]]. apply filter_In in He.
    apply in_map_iff. exists e; tauto.
Qed.

Lemma state_eta : forall st, mkState (ordered st) (bodies st) = st.
Proof. now destruct st. Qed.

Lemma remove_ops_nil : forall st, remove_ops [] st = st.
Proof.
  intros st. unfold remove_ops. cbn [mem existsb negb].
  assert (E : forall l : list entry, filter (fun _ : entry => true) l = l)
    by (induction l as [|x t IH]; cbn [filter]; congruence).
  rewrite E. apply state_eta.
Qed.

(* the full description of one OperationHashes call *)
Lemma hashes_spec : forall limit flt st, SI st ->
  match operation_hashes limit flt st with
  | (Ok res, st') =>
      exists n a, (n <= length (ordered st))%nat /\ Inv flt (firstn n (ordered st)) a /\
                  res = live (a_ops a) /\ st' = remove_ops (a_rm a) st /\
                  N.of_nat (length res) <= limit /\
                  (n = length (ordered st) \/ N.of_nat (length res) = limit)
  | (Err, st') => st' = st /\ exists e, In e (ordered st) /\ flt_eval flt (fst e) (snd e) = FError
  | (Bad, _) => False
  end.
Proof.
  intros limit flt st [Hd Hb]. unfold operation_hashes.
  destruct (limit <? 1) eqn:L.
  - apply N.ltb_lt in L. exists 0%nat, empty_acc. cbn [firstn a_ops a_rm live length].
    rewrite remove_ops_nil.
    split; [lia|]. split; [apply inv_init|]. split; [reflexivity|]. split; [reflexivity|]. split; [lia|right; lia].
  - apply N.ltb_ge in L.
    pose proof (scan_inv limit flt (ordered st) [] empty_acc (inv_init flt)) as H.
    cbn [app] in H. specialize (H Hd). cbn [a_sel empty_acc] in H. specialize (H ltac:(lia)).
    destruct (scan limit flt (ordered st) empty_acc) as [a| |].
    + destruct H as [n [Hn [I [Hl Hstop]]]]. exists n, a.
      pose proof (inv_sel _ _ _ I) as Hsel. rewrite <- Hsel.
      split; [exact Hn|]. split; [exact I|]. split; [reflexivity|]. split; [reflexivity|]. split; [exact Hl|exact Hstop].
    + split; auto.
    + exact H.
Qed.

Lemma SI_hashes : forall limit flt st, SI st -> SI (snd (operation_hashes limit flt st)).
Proof.
  intros limit flt st H. pose proof (hashes_spec limit flt st H) as Hs.
  destruct (operation_hashes limit flt st) as [[res| |] st']; cbn [snd].
  - destruct Hs as [n [a [_ [_ [_ [-> _]]]]]]. now apply SI_remove_ops.
  - destruct Hs as [-> _]. exact H.
  - destruct Hs.
Qed.

Lemma SI_apply : forall st x, SI st -> SI (apply st x).
Proof. intros st [o f|limit flt] H; cbn [apply]; [now apply SI_set|now apply SI_hashes]. Qed.

Lemma SI_run_from : forall ops st, SI st -> SI (run_from st ops).
Proof. unfold run_from. induction ops as [|x t IH]; intros st H; cbn [fold_left]; auto. apply IH. now apply SI_apply. Qed.

Lemma SI_run : forall ops, SI (run ops).
Proof. intros; apply SI_run_from, SI_init. Qed.

(* ---------------------------------------------------------------- consequences, for any state satisfying SI *)

Lemma nodup_app_disjoint : forall {A} (l1 l2 : list A) x, NoDup (l1 ++ l2) -> In x l1 -> In x l2 -> False.
Proof.
  intros A l1 l2 x Hd H1 H2. induction l1 as [|y t IH]; [destruct H1|].
  cbn [app] in Hd. inversion Hd as [|? ? Hn Hd']; subst. destruct H1 as [->|H1].
  - apply Hn. apply in_or_app; auto.
  - now apply IH.
Qed.

Section Handout.
  Variables (limit : N) (flt : filter_t) (st st' : state) (res : list entry).
  Hypothesis HSI : SI st.
  Hypothesis Hcall : operation_hashes limit flt st = (Ok res, st').

  Lemma handout_facts :
    exists n a, (n <= length (ordered st))%nat /\ Inv flt (firstn n (ordered st)) a /\
                res = live (a_ops a) /\ st' = remove_ops (a_rm a) st /\
                N.of_nat (length res) <= limit /\ (n = length (ordered st) \/ N.of_nat (length res) = limit).
  Proof. pose proof (hashes_spec limit flt st HSI) as H. rewrite Hcall in H. exact H. Qed.

  Lemma handout_len : N.of_nat (length res) <= limit.
  Proof. destruct handout_facts as [n [a [_ [_ [_ [_ [H _]]]]]]]. exact H. Qed.

  Lemma handout_distinct_ops : NoDup (map fst res).
  Proof. destruct handout_facts as [n [a [_ [I [-> _]]]]]. exact (inv_nodup_ops _ _ _ I). Qed.

  Lemma handout_distinct_facts : NoDup (map snd res).
  Proof. destruct handout_facts as [n [a [_ [I [-> _]]]]]. exact (inv_nodup_facts _ _ _ I). Qed.

  Lemma handout_from_pool_and_filter : forall e, In e res -> In e (ordered st) /\ passes flt e = true.
  Proof.
    destruct handout_facts as [n [a [_ [I [-> _]]]]]. intros e He.
    destruct (inv_live_in _ _ _ I e He) as [H1 H2]. split; auto.
    rewrite <- (firstn_skipn n (ordered st)). apply in_or_app; auto.
  Qed.

  (* the answer is "latest per fact" of the passing records among the first n pool records; n is the whole
     pool unless the limit was reached *)
  Lemma handout_is_lpf :
    exists n, (n <= length (ordered st))%nat /\ res = lpf (filter (passes flt) (firstn n (ordered st))) /\
              (n = length (ordered st) \/ N.of_nat (length res) = limit).
  Proof.
    destruct handout_facts as [n [a [Hn [I [-> [_ [_ Hs]]]]]]]. exists n. repeat split; auto.
    exact (inv_live _ _ _ I).
  Qed.

  Lemma handout_latest :
    exists n, (n <= length (ordered st))%nat /\
      (forall e, In e res <-> exists P1 P2, filter (passes flt) (firstn n (ordered st)) = P1 ++ e :: P2 /\
                                            ~ In (snd e) (map snd P2)) /\
      (n = length (ordered st) \/ N.of_nat (length res) = limit).
  Proof.
    destruct handout_is_lpf as [n [Hn [-> Hs]]]. exists n. repeat split; auto; apply lpf_in_iff.
  Qed.

  Lemma handout_complete_when_short : N.of_nat (length res) < limit ->
    res = lpf (filter (passes flt) (ordered st)).
  Proof.
    intros Hlt. destruct handout_is_lpf as [n [Hn [E [->|Hs]]]]; [|lia].
    now rewrite firstn_all in E.
  Qed.

  Lemma handout_returned_stay : forall e, In e res -> In e (ordered st').
  Proof.
    destruct handout_facts as [n [a [_ [I [-> [-> _]]]]]]. intros e He.
    cbn [remove_ops ordered]. apply filter_In. split.
    - destruct (inv_live_in _ _ _ I e He) as [H1 _].
      rewrite <- (firstn_skipn n (ordered st)). apply in_or_app; auto.
    - apply negb_true_iff, mem_false_iff. intros Hr.
      apply (inv_rm_disj _ _ _ I _ Hr). now apply in_map.
  Qed.

  (* every record looked at is either returned or removed from the pool (filtered out, or superseded by a later
     operation of the same fact) *)
  Lemma handout_scanned_removed :
    exists n, (n <= length (ordered st))%nat /\
      res = lpf (filter (passes flt) (firstn n (ordered st))) /\
      (n = length (ordered st) \/ N.of_nat (length res) = limit) /\
      (forall e, In e (firstn n (ordered st)) -> ~ In e res -> ~ In (fst e) (map fst (ordered st'))) /\
      (forall e, In e (skipn n (ordered st)) -> In e (ordered st')).
  Proof.
    destruct handout_facts as [n [a [Hn [I [-> [-> [_ Hs]]]]]]]. exists n. repeat split; auto.
    - exact (inv_live _ _ _ I).
    - intros e He Hnr. destruct (inv_cover _ _ _ I e He) as [H|H]; [contradiction|].
      cbn [remove_ops ordered]. intros Hi. apply in_map_iff in Hi. destruct Hi as [x [E Hx]].
      apply filter_In in Hx. destruct Hx as [_ Hx]. apply negb_true_iff, mem_false_iff in Hx.
      apply Hx. now rewrite E.
    - intros e He. cbn [remove_ops ordered]. apply filter_In. split.
      + rewrite <- (firstn_skipn n (ordered st)). apply in_or_app; auto.
      + apply negb_true_iff, mem_false_iff. intros Hr.
        pose proof (inv_rm_in _ _ _ I _ Hr) as Hin.
        destruct HSI as [Hd _]. rewrite <- (firstn_skipn n (ordered st)), map_app in Hd.
        apply (in_map fst) in He.
        exact (nodup_app_disjoint _ _ _ Hd Hin He).
  Qed.
End Handout.

(* ---------------------------------------------------------------- SetOperation *)

Lemma set_known_noop : forall o f st, In o (bodies st) -> set_operation o f st = (false, st).
Proof. intros o f st H. unfold set_operation. apply mem_true_iff in H. now rewrite H. Qed.

Lemma set_new : forall o f st, ~ In o (bodies st) ->
  set_operation o f st = (true, mkState (ordered st ++ [(o, f)]) (o :: bodies st)).
Proof. intros o f st H. unfold set_operation. apply mem_false_iff in H. now rewrite H. Qed.

Lemma set_idempotent : forall o f g st,
  set_operation o g (snd (set_operation o f st)) = (false, snd (set_operation o f st)).
Proof.
  intros o f g st. apply set_known_noop. unfold set_operation.
  destruct (mem o (bodies st)) eqn:M; cbn [snd bodies].
  - now apply mem_true_iff.
  - left; reflexivity.
Qed.

(* ---------------------------------------------------------------- removed operations stay removed *)

Definition dead (st : state) (o : N) : Prop := In o (bodies st) /\ ~ In o (map fst (ordered st)).

Lemma dead_apply : forall st x o, SI st -> dead st o -> dead (apply st x) o.
Proof.
  intros st [o' f|limit flt] o HSI [Hb Hn]; cbn [apply].
  - unfold set_operation. destruct (mem o' (bodies st)) eqn:M; cbn [snd]; [split; auto|].
    apply mem_false_iff in M. split; cbn [bodies ordered]; [right; auto|].
    rewrite map_app, in_app_iff. cbn [map In fst]. intros [H|[H|[]]]; auto. subst. auto.
  - pose proof (hashes_spec limit flt st HSI) as Hs.
    destruct (operation_hashes limit flt st) as [[res| |] st']; cbn [snd].
    + destruct Hs as [n [a [_ [_ [_ [-> _]]]]]]. split; cbn [remove_ops bodies ordered]; auto.
      intros Hi. apply Hn. apply in_map_iff in Hi. destruct Hi as [e [E He]]. apply filter_In in He.
      apply in_map_iff. exists e; tauto.
    + destruct Hs as [-> _]. split; auto.
    + destruct Hs.
Qed.

Lemma dead_run_from : forall ops st o, SI st -> dead st o -> dead (run_from st ops) o.
Proof.
  unfold run_from. induction ops as [|x t IH]; intros st o HSI Hd; cbn [fold_left]; auto.
  apply IH; [now apply SI_apply|now apply dead_apply].
Qed.

Lemma dead_not_returned : forall st o limit flt res st', SI st -> dead st o ->
  operation_hashes limit flt st = (Ok res, st') -> ~ In o (map fst res).
Proof.
  intros st o limit flt res st' HSI [_ Hn] Hcall Hi. apply Hn.
  apply in_map_iff in Hi. destruct Hi as [e [E He]].
  destruct (handout_from_pool_and_filter limit flt st st' res HSI Hcall e He) as [H _].
  apply in_map_iff. exists e; auto.
Qed.

Lemma removed_never_again : forall ops1 limit flt res st1,
  operation_hashes limit flt (run ops1) = (Ok res, st1) ->
  exists n, (n <= length (ordered (run ops1)))%nat /\
    (n = length (ordered (run ops1)) \/ N.of_nat (length res) = limit) /\
    forall e, In e (firstn n (ordered (run ops1))) -> ~ In e res ->
      forall ops2 limit' flt' res' st2,
        operation_hashes limit' flt' (run_from st1 ops2) = (Ok res', st2) -> ~ In (fst e) (map fst res').
Proof.
  intros ops1 limit flt res st1 Hcall.
  pose proof (SI_run ops1) as HSI.
  destruct (handout_scanned_removed limit flt _ _ _ HSI Hcall) as [n [Hn [_ [Hs [Hrem _]]]]].
  exists n. split; auto. split; auto.
  intros e He Hnr ops2 limit' flt' res' st2 Hcall2.
  assert (HSI1 : SI st1).
  { pose proof (SI_hashes limit flt _ HSI) as Q. now rewrite Hcall in Q. }
  assert (Hdead : dead st1 (fst e)).
  { split; [|now apply Hrem].
    assert (Hb : bodies st1 = bodies (run ops1)).
    { destruct (handout_facts limit flt _ _ _ HSI Hcall) as [m [a [_ [_ [_ [-> _]]]]]]. reflexivity. }
    rewrite Hb. destruct HSI as [_ Hinc]. apply Hinc. apply in_map.
    rewrite <- (firstn_skipn n (ordered (run ops1))). apply in_or_app; auto. }
  eapply dead_not_returned; [apply SI_run_from; exact HSI1|apply dead_run_from; eauto|exact Hcall2].
Qed.

Lemma filtered_is_not_returned : forall limit flt st st' res e, SI st ->
  operation_hashes limit flt st = (Ok res, st') -> passes flt e = false -> ~ In e res.
Proof.
  intros limit flt st st' res e HSI Hcall Hp Hi.
  destruct (handout_from_pool_and_filter limit flt st st' res HSI Hcall e Hi) as [_ H]. congruence.
Qed.

Lemma no_bad : forall limit flt ops, fst (operation_hashes limit flt (run ops)) <> Bad.
Proof.
  intros limit flt ops E. pose proof (hashes_spec limit flt (run ops) (SI_run ops)) as H.
  destruct (operation_hashes limit flt (run ops)) as [[r| |] st']; cbn [fst] in E; try discriminate. exact H.
Qed.

Lemma error_only_from_filter : forall limit flt ops,
  fst (operation_hashes limit flt (run ops)) = Err ->
  snd (operation_hashes limit flt (run ops)) = run ops /\
  exists e, In e (ordered (run ops)) /\ flt_eval flt (fst e) (snd e) = FError.
Proof.
  intros limit flt ops E. pose proof (hashes_spec limit flt (run ops) (SI_run ops)) as H.
  destruct (operation_hashes limit flt (run ops)) as [[r| |] st']; cbn [fst snd] in *; try discriminate. exact H.
Qed.
