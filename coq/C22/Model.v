(* C22 -- operation pool hand-out.  Transcribes isaac/database/pool.go (after the fix: commit):

     TempPool.SetOperation      Exists(body key) ? (false,nil) : Batch{Put body; Put ordered key; Put keys key}
     TempPool.OperationHashes   Iter over the ordered keys (ascending = insertion time), filter, de-duplication of
                                facts with the index map `facts`, removal bookkeeping, setRemoveNewOperations
     TempPool.setRemoveNewOperations   for each hash: Delete(keys key), Delete(ordered key), Put(removed marker)

   Operations and facts are identifiers (N).  The ordered key is  prefix ++ UnixNano(now) ++ ophash : iteration
   order = insertion order (assumed: the clock advances between two SetOperation calls).  The operation body stays
   stored after a removal (it is deleted later by cleanRemovedNewOperations, not modelled), which is why a removed
   operation cannot be added again.

   Go slices/maps: `ops` is a list of option (None = the emptied slot of a superseded operation), `facts` an
   association list fact -> index.  An index outside `ops`, or an emptied slot reached through `facts`, is the
   explicit outcome [Bad] (Go: index-out-of-range panic / nil hash handed to setRemoveNewOperations). *)
From Coq Require Import ZArith NArith List Bool.
From MV Require Import Common.Cases.
Import ListNotations.
Open Scope N_scope.

Definition entry := (N * N)%type.   (* (operation, fact) *)

Record state := mkState { ordered : list entry; bodies : list N }.

Definition init : state := mkState [] [].

Definition mem (x : N) (l : list N) : bool := existsb (N.eqb x) l.

(* SetOperation *)
Definition set_operation (o f : N) (st : state) : bool * state :=
  if mem o (bodies st) then (false, st)
  else (true, mkState (ordered st ++ [(o, f)]) (o :: bodies st)).

(* the filter callback: (rejected operations, rejected facts, operation on which it returns an error) *)
Record filter_t := mkFilter { rej_ops : list N; rej_facts : list N; err_op : option N }.

Inductive fres := FPass | FReject | FError.

Definition flt_eval (flt : filter_t) (o f : N) : fres :=
  match err_op flt with
  | Some e => if N.eqb e o then FError else if mem o (rej_ops flt) || mem f (rej_facts flt) then FReject else FPass
  | None => if mem o (rej_ops flt) || mem f (rej_facts flt) then FReject else FPass
  end.

Inductive outcome (A : Type) := Ok (a : A) | Err | Bad.
Arguments Ok {A} a. Arguments Err {A}. Arguments Bad {A}.

Record acc := mkAcc {
  a_ops : list (option entry);       (* ops *)
  a_facts : list (N * nat);          (* facts: fact -> index in ops *)
  a_rm : list N;                     (* removeops *)
  a_sel : N }.                       (* selected *)

Fixpoint facts_get (f : N) (m : list (N * nat)) : option nat :=
  match m with
  | [] => None
  | (k, i) :: t => if N.eqb k f then Some i else facts_get f t
  end.

Definition facts_set (f : N) (i : nat) (m : list (N * nat)) : list (N * nat) := (f, i) :: m.

Fixpoint set_nth {A} (i : nat) (x : A) (l : list A) : list A :=
  match l, i with
  | [], _ => []
  | _ :: t, O => x :: t
  | y :: t, S j => y :: set_nth j x t
  end.

(* the body of the Iter callback after the filter said ok; returns the new accumulator *)
Definition select (o f : N) (a : acc) : outcome acc :=
  let a1 :=
    match facts_get f (a_facts a) with
    | Some prev =>
        match nth_error (a_ops a) prev with
        | Some (Some (po, _)) =>        (* removeops = append(removeops, ops[prev][0]); ops[prev] = {}; selected-- *)
            Ok (mkAcc (set_nth prev None (a_ops a)) (a_facts a) (po :: a_rm a) (a_sel a - 1))
        | _ => Bad
        end
    | None => Ok a
    end in
  match a1 with
  | Ok a1 =>
      Ok (mkAcc (a_ops a1 ++ [Some (o, f)]) (facts_set f (List.length (a_ops a1)) (a_facts a1)) (a_rm a1) (a_sel a1 + 1))
  | e => e
  end.

Fixpoint scan (limit : N) (flt : filter_t) (l : list entry) (a : acc) : outcome acc :=
  match l with
  | [] => Ok a
  | (o, f) :: t =>
      match flt_eval flt o f with
      | FError => Err
      | FReject => scan limit flt t (mkAcc (a_ops a) (a_facts a) (o :: a_rm a) (a_sel a))
      | FPass =>
          match select o f a with
          | Ok a2 => if a_sel a2 <? limit then scan limit flt t a2 else Ok a2      (* return selected < limit *)
          | e => e
          end
      end
  end.

Fixpoint live (l : list (option entry)) : list entry :=
  match l with
  | [] => []
  | Some e :: t => e :: live t
  | None :: t => live t
  end.

(* setRemoveNewOperations: the ordered records of the listed operations disappear *)
Definition remove_ops (rm : list N) (st : state) : state :=
  mkState (filter (fun e => negb (mem (fst e) rm)) (ordered st)) (bodies st).

Definition empty_acc : acc := mkAcc [] [] [] 0.

(* OperationHashes(ctx, height, limit, filter) *)
Definition operation_hashes (limit : N) (flt : filter_t) (st : state) : outcome (list entry) * state :=
  if limit <? 1 then (Ok [], st)
  else
    match scan limit flt (ordered st) empty_acc with
    | Ok a => (Ok (live (a_ops a)), remove_ops (a_rm a) st)
    | Err => (Err, st)
    | Bad => (Bad, st)
    end.

Inductive op :=
| OSet (o f : N)
| OHashes (limit : N) (flt : filter_t).

Definition apply (st : state) (x : op) : state :=
  match x with
  | OSet o f => snd (set_operation o f st)
  | OHashes limit flt => snd (operation_hashes limit flt st)
  end.

Definition run_from (st : state) (ops : list op) : state := fold_left apply ops st.
Definition run (ops : list op) : state := run_from init ops.

(* ---------------------------------------------------------------- the code before the fix: commit, for the
   documentation Examples in Props.v: fixed arrays of size limit; the *new* operation is recorded as removed;
   the slot is deleted by shifting, the index map is not re-indexed. *)
Record acc_old := mkAccOld { o_ops : list entry; o_facts : list (N * nat); o_rm : list N }.

Fixpoint remove_nth {A} (i : nat) (l : list A) : list A :=
  match l, i with
  | [], _ => []
  | _ :: t, O => t
  | y :: t, S j => y :: remove_nth j t
  end.

Fixpoint scan_old (limit : nat) (l : list entry) (a : acc_old) : outcome acc_old :=
  match l with
  | [] => Ok a
  | (o, f) :: t =>
      let a1 :=
        match facts_get f (o_facts a) with
        | Some prev =>
            if Nat.leb limit (List.length (o_rm a)) then Bad     (* removeops[removeopsindex] out of range *)
            else Ok (mkAccOld (if Nat.ltb prev (List.length (o_ops a)) then remove_nth prev (o_ops a) else removelast (o_ops a))
                              (o_facts a) (o :: o_rm a))   (* opsindex-- ; a stale prev beyond opsindex loses the last slot *)
        | None => Ok a
        end in
      match a1 with
      | Ok a1 =>
          let a2 := mkAccOld (o_ops a1 ++ [(o, f)]) (facts_set f (List.length (o_ops a1)) (o_facts a1)) (o_rm a1) in
          if Nat.eqb (List.length (o_ops a2)) limit then Ok a2 else scan_old limit t a2
      | e => e
      end
  end.

(* ---------------------------------------------------------------- correspondence *)

Inductive obs := ROk (l : list entry) | RErr | RPanic.

Inductive item :=
| ISet (o f : N) (added : bool) (after : list entry)
| IHashes (limit : N) (flt : filter_t) (res : obs) (after : list entry).

Definition entry_eqb (a b : entry) : bool := N.eqb (fst a) (fst b) && N.eqb (snd a) (snd b).
Definition entry_leb (a b : entry) : bool :=
  N.ltb (fst a) (fst b) || (N.eqb (fst a) (fst b) && N.leb (snd a) (snd b)).

Fixpoint insert_e (x : entry) (l : list entry) : list entry :=
  match l with
  | [] => [x]
  | y :: t => if entry_leb x y then x :: l else y :: insert_e x t
  end.
Definition sort_e (l : list entry) : list entry := fold_right insert_e [] l.

(* sets of entries are compared (harness sorts by operation id): the property fixes neither the order of the
   returned entries nor the order of the surviving pool *)
Definition same_set (impl model : list entry) : bool := list_eqb entry_eqb impl (sort_e model).

Definition check_item (st : state) (i : item) : bool * state :=
  match i with
  | ISet o f added after =>
      let (b, st') := set_operation o f st in
      (Bool.eqb b added && same_set after (ordered st'), st')
  | IHashes limit flt res after =>
      let (r, st') := operation_hashes limit flt st in
      (match r, res with
       | Ok l, ROk l' => same_set l' l
       | Err, RErr => true
       | Bad, RPanic => true
       | _, _ => false
       end && same_set after (ordered st'), st')
  end.

Fixpoint check_from (st : state) (l : list item) : bool :=
  match l with
  | [] => true
  | i :: t => let (b, st') := check_item st i in b && check_from st' t
  end.

Definition check (c : list item) : bool := check_from init c.
