(* C15 -- lemmas.  Main result: on success the history is exactly
   concat over the batches b of  (map ESave b ++ map EDeferred b ++ [EMerge]),  for every job order. *)
From Coq Require Import List Arith Bool ZArith PeanoNat Lia Permutation.
From MV Require Import Common.Batch C15.Model.
Import ListNotations.

(* ------------------------------------------------------------------ slots *)

(* contents of the slots of the batch starting at [a] of length [n] after the jobs in [P] ran *)
Definition fill (a n : nat) (P : list nat) : list (option nat) :=
  map (fun j => if mem P (a + j) then Some (a + j) else None) (seq 0 n).

Lemma fill_length : forall a n P, length (fill a n P) = n.
Proof. intros. unfold fill. rewrite map_length, seq_length. reflexivity. Qed.

Lemma fill_nil : forall a n, fill a n [] = repeat None n.
Proof.
  intros a n. unfold fill. cbn [mem existsb].
  generalize 0. induction n as [|n IH]; intros s; cbn; [reflexivity|]. rewrite IH. reflexivity.
Qed.

Lemma upd_map_seq : forall {A} (f : nat -> A) n s k v, k < n ->
  upd (map f (seq s n)) k v = map (fun x => if x =? s + k then v else f x) (seq s n).
Proof.
  intros A f n. induction n as [|n IH]; intros s k v Hk; [lia|].
  cbn [seq map]. destruct k as [|k].
  - cbn [upd]. rewrite Nat.add_0_r, Nat.eqb_refl. f_equal.
    apply map_ext_in. intros x Hx. apply in_seq in Hx.
    destruct (Nat.eqb_spec x s); [lia|reflexivity].
  - cbn [upd]. destruct (Nat.eqb_spec s (s + S k)); [lia|]. f_equal.
    rewrite IH by lia. apply map_ext. intros x. replace (S s + k) with (s + S k) by lia. reflexivity.
Qed.

Lemma fill_upd : forall a n P j, j < n ->
  upd (fill a n P) j (Some (a + j)) = fill a n ((a + j) :: P).
Proof.
  intros a n P j Hj. unfold fill. rewrite upd_map_seq by assumption.
  apply map_ext. intros x. cbn [mem existsb Nat.add].
  destruct (Nat.eqb_spec x j) as [->|Hne].
  - rewrite Nat.eqb_refl. reflexivity.
  - destruct (Nat.eqb_spec (a + x) (a + j)); [lia|]. reflexivity.
Qed.

Lemma mem_In : forall P x, mem P x = true <-> In x P.
Proof.
  intros P x. unfold mem. rewrite existsb_exists. split.
  - intros [y [Hy He]]. apply Nat.eqb_eq in He. subst. assumption.
  - intros H. exists x. split; [assumption|apply Nat.eqb_refl].
Qed.

Lemma fill_full : forall a n P, (forall j, j < n -> In (a + j) P) ->
  fill a n P = map Some (seq a n).
Proof.
  intros a n P H. unfold fill.
  replace (seq a n) with (map (fun j => a + j) (seq 0 n)).
  2:{ clear. revert a. induction n as [|n IH]; intros a; [reflexivity|].
      cbn [seq map]. rewrite Nat.add_0_r. f_equal. rewrite <- seq_shift, map_map.
      rewrite <- (IH (S a)). apply map_ext. intros. lia. }
  rewrite map_map. apply map_ext_in. intros j Hj. apply in_seq in Hj.
  destruct (mem P (a + j)) eqn:E; [reflexivity|].
  assert (Hm : mem P (a + j) = true) by (apply mem_In, H; lia). congruence.
Qed.

Lemma all_some_map_Some : forall l, all_some (map Some l) = Some l.
Proof. induction l as [|x l IH]; cbn; [reflexivity|]. rewrite IH. reflexivity. Qed.

(* ------------------------------------------------------------------ jobs of one batch *)

Section P.
  Variable F : faults.
  Variable limit : nat.
  Hypothesis Hlimit : 1 <= limit.

  Lemma run_jobs_fill : forall k n last order P lg mg s',
    n <= limit ->
    Forall (fun i => exists j, j < n /\ i = k * limit + j) order ->
    run_jobs (job F limit) last order {| ims := Some (fill (k * limit) n P); log := lg; merges := mg |} = Ok s' ->
    s' = {| ims := Some (fill (k * limit) n (rev order ++ P)); log := lg; merges := mg |}.
  Proof.
    intros k n last order. induction order as [|i r IH]; intros P lg mg s' Hn Hall Hrun.
    - cbn in Hrun. inversion Hrun. reflexivity.
    - inversion Hall as [|x y [j [Hj ->]] Hr]; subst.
      cbn [run_jobs] in Hrun. unfold job at 1 in Hrun. cbn [ims log merges] in Hrun.
      destruct (f_import F (k * limit + j)); [discriminate|].
      assert (Hmod : (k * limit + j) mod limit = j).
      { rewrite Nat.add_comm, Nat.mod_add by lia. apply Nat.mod_small. lia. }
      rewrite Hmod, fill_length in Hrun.
      destruct (Nat.ltb_spec j n); [|lia].
      rewrite fill_upd in Hrun by assumption.
      apply IH in Hrun; try assumption.
      rewrite Hrun. cbn [rev]. rewrite <- app_assoc. reflexivity.
  Qed.

  (* the history of one successfully saved batch *)
  Definition batch_log (js : list nat) : list ev :=
    map ESave js ++ map EDeferred js ++ (if has_merge F then [EMerge] else []).

  Lemma run_deferreds_ok : forall all js lg lg',
    run_deferreds F all js lg = Ok lg' -> lg' = lg ++ map EDeferred js.
  Proof.
    intros all js. induction js as [|j r IH]; intros lg lg' H.
    - cbn in H. inversion H. rewrite app_nil_r. reflexivity.
    - cbn [run_deferreds] in H. destruct (f_def F j); [discriminate|].
      apply IH in H. rewrite H. cbn [map]. rewrite <- app_assoc. reflexivity.
  Qed.

  Lemma save_importers_ok : forall s js s', js <> [] ->
    save_importers F s (map Some js) = Ok s' ->
    ims s' = ims s /\ log s' = log s ++ batch_log js /\
    merges s' = (if has_merge F then S (merges s) else merges s).
  Proof.
    intros s js s' Hne H. unfold save_importers in H.
    destruct js as [|j0 js0]; [congruence|]. set (js := j0 :: js0) in *.
    change (map Some js) with (Some j0 :: map Some js0) in H.
    cbv iota beta in H. change (Some j0 :: map Some js0) with (map Some js) in H.
    rewrite all_some_map_Some in H.
    destruct (existsb (f_save F) js); [discriminate|].
    destruct (run_deferreds F js js (log s ++ map ESave js)) as [lg|e] eqn:Ed; [|discriminate].
    apply run_deferreds_ok in Ed. unfold batch_log.
    destruct (has_merge F).
    - destruct (f_merge F (merges s)); [discriminate|]. inversion H. cbn.
      rewrite Ed. rewrite <- !app_assoc. auto.
    - inversion H. cbn. rewrite Ed, app_nil_r, <- !app_assoc. auto.
  Qed.

  (* ---------------------------------------------------------------- all batches *)

  Definition full_log (bs : list batch) : list ev := concat (map (fun b => batch_log (snd b)) bs).

  (* state between batches: the previous batch [pb] is in the slots, everything before is saved *)
  Definition between (done : list batch) (pb : option batch) (s : st) : Prop :=
    log s = full_log done /\
    match pb with
    | None => ims s = None
    | Some b => ims s = Some (map Some (snd b)) /\ snd b <> []
    end.

  Lemma perm_Forall_shape : forall k n order, Permutation (seq (k * limit) n) order ->
    Forall (fun i => exists j, j < n /\ i = k * limit + j) order.
  Proof.
    intros k n order Hp. apply Forall_forall. intros i Hi.
    apply Permutation_sym in Hp. apply (Permutation_in _ Hp) in Hi. apply in_seq in Hi.
    exists (i - k * limit). lia.
  Qed.

  Lemma run_batches_ok : forall size bs orders done pb s s',
    Forall (batch_wf size limit) bs ->
    valid_orders bs orders ->
    between done pb s ->
    run_batches (pref F limit) (job F limit) bs orders s = Ok s' ->
    exists done' pb',
      done' ++ match pb' with Some b => [b] | None => [] end =
        done ++ match pb with Some b => [b] | None => [] end ++ bs /\
      (bs <> [] -> pb' <> None) /\
      between done' pb' s'.
  Proof.
    intros size bs. induction bs as [|b bs IH]; intros orders done pb s s' Hwf Hvo Hbt Hrun.
    - cbn in Hrun. inversion Hrun; subst. exists done, pb. rewrite app_nil_r. split; [reflexivity|].
      split; [congruence|assumption].
    - inversion Hwf as [|x y Hb Hwf']; subst.
      inversion Hvo as [|x o l os Hperm Hvo']; subst.
      destruct (batch_wf_shape _ _ _ Hlimit Hb) as [k [n [Hsnd [Hn [Hfst [Hle Hr]]]]]].
      cbn [run_batches hd tl] in Hrun.
      destruct (pref F limit (fst b) s) as [s1|e] eqn:Epref; [|discriminate].
      destruct (run_jobs (job F limit) (fst b) o s1) as [s2|e] eqn:Ejobs; [|discriminate].
      (* after pref *)
      assert (H1 : exists done1, ims s1 = Some (fill (k * limit) n []) /\ log s1 = full_log done1 /\
                   done1 = done ++ match pb with Some b => [b] | None => [] end).
      { unfold pref in Epref. destruct Hbt as [Hlog Hims].
        rewrite fill_nil, Hr.
        destruct pb as [p|].
        - destruct Hims as [Hims Hne]. rewrite Hims in Epref.
          destruct (save_importers F s (map Some (snd p))) as [sx|e] eqn:Es; [|discriminate].
          apply save_importers_ok in Es; [|assumption]. destruct Es as [_ [Hl _]].
          inversion Epref; subst. cbn [ims log].
          exists (done ++ [p]). split; [reflexivity|]. split; [|reflexivity].
          rewrite Hl, Hlog. unfold full_log. rewrite map_app, concat_app. cbn. rewrite app_nil_r. reflexivity.
        - rewrite Hims in Epref. inversion Epref; subst. cbn [ims log].
          exists done. rewrite app_nil_r. auto. }
      destruct H1 as [done1 [Hi1 [Hl1 Hd1]]].
      destruct s1 as [i1 l1 m1]. cbn [ims log] in Hi1, Hl1. subst i1.
      rewrite Hsnd in Hperm.
      apply run_jobs_fill in Ejobs; [|lia|apply perm_Forall_shape; assumption].
      rewrite app_nil_r in Ejobs.
      rewrite fill_full in Ejobs.
      2:{ intros j Hj. apply (proj1 (in_rev _ _)). apply (Permutation_in _ Hperm). apply in_seq. lia. }
      assert (Hbt2 : between done1 (Some b) s2).
      { subst s2. split; cbn [ims log]; [assumption|]. rewrite Hsnd. split; [reflexivity|].
        destruct n; [lia|discriminate]. }
      destruct (IH os done1 (Some b) s2 s' Hwf' Hvo' Hbt2 Hrun) as [done' [pb' [Heq [Hnn Hbt']]]].
      exists done', pb'. split; [|split; [|assumption]].
      + rewrite Heq, Hd1. rewrite <- !app_assoc. reflexivity.
      + intros _. destruct bs as [|b2 bs2].
        * cbn in Hrun. inversion Hrun; subst s'.
          destruct pb'; [congruence|]. exfalso.
          rewrite app_nil_r in Heq. cbn in Heq.
          destruct Hbt' as [_ Hnone]. destruct Hbt2 as [_ [Hsome _]]. congruence.
        * apply Hnn. discriminate.
  Qed.

  (* success of the whole import: the history is the full history of all batches *)
  Lemma import_blocks_ok : forall count orders lg,
    1 <= count ->
    valid_orders (batches count limit) orders ->
    import_blocks F limit count orders = Ok lg ->
    lg = full_log (batches count limit).
  Proof.
    intros count orders lg Hc Hvo H. unfold import_blocks, import_blocks_gen, batch_work in H.
    destruct (Nat.ltb_spec count 1); [lia|].
    destruct (run_batches (pref F limit) (job F limit) (batches count limit) orders init) as [s|e] eqn:Er; [|discriminate].
    assert (Hb0 : between [] None init) by (split; reflexivity).
    destruct (run_batches_ok count _ _ [] None init s (batches_wf count limit Hlimit Hc) Hvo Hb0 Er)
      as [done' [pb' [Heq [Hnn [Hlog Hims]]]]].
    cbn [app] in Heq.
    assert (Hne : batches count limit <> []).
    { intros Hnil. pose proof (batches_concat count limit Hlimit Hc) as Hcc. rewrite Hnil in Hcc.
      cbn in Hcc. destruct count; [lia|discriminate]. }
    destruct pb' as [p|]; [|exfalso; apply (Hnn Hne); reflexivity].
    destruct Hims as [Hims Hpne]. rewrite Hims in H. cbv beta iota in H.
    destruct (save_importers F s (map Some (snd p))) as [sx|e] eqn:Es; [|discriminate].
    apply save_importers_ok in Es; [|assumption]. destruct Es as [_ [Hl _]].
    inversion H; subst lg. rewrite Hl, Hlog, <- Heq.
    unfold full_log. rewrite map_app, concat_app. cbn. rewrite app_nil_r. reflexivity.
  Qed.

  (* ---------------------------------------------------------------- projections of the full history *)

  Lemma saves_app : forall a b, saves (a ++ b) = saves a ++ saves b.
  Proof. induction a as [|[]]; intros; cbn; rewrite ?IHa; reflexivity. Qed.
  Lemma deferreds_app : forall a b, deferreds (a ++ b) = deferreds a ++ deferreds b.
  Proof. induction a as [|[]]; intros; cbn; rewrite ?IHa; reflexivity. Qed.

  Lemma saves_batch_log : forall js, saves (batch_log js) = js.
  Proof.
    intros js. unfold batch_log. rewrite !saves_app.
    assert (H1 : saves (map ESave js) = js) by (clear; induction js as [|a r IHr]; cbn; [reflexivity|now rewrite IHr]).
    assert (H2 : saves (map EDeferred js) = []) by (clear; induction js as [|a r IHr]; cbn; [reflexivity|now rewrite IHr]).
    rewrite H1, H2. destruct (has_merge F); cbn; rewrite app_nil_r; reflexivity.
  Qed.

  Lemma deferreds_batch_log : forall js, deferreds (batch_log js) = js.
  Proof.
    intros js. unfold batch_log. rewrite !deferreds_app.
    assert (H1 : deferreds (map ESave js) = []) by (clear; induction js as [|a r IHr]; cbn; [reflexivity|now rewrite IHr]).
    assert (H2 : deferreds (map EDeferred js) = js) by (clear; induction js as [|a r IHr]; cbn; [reflexivity|now rewrite IHr]).
    rewrite H1, H2. destruct (has_merge F); cbn; rewrite app_nil_r; reflexivity.
  Qed.

  Lemma saves_full_log : forall bs, saves (full_log bs) = concat (map snd bs).
  Proof.
    induction bs as [|b bs IH]; [reflexivity|].
    unfold full_log in *. cbn [map concat]. rewrite saves_app, saves_batch_log, IH. reflexivity.
  Qed.

  Lemma deferreds_full_log : forall bs, deferreds (full_log bs) = concat (map snd bs).
  Proof.
    induction bs as [|b bs IH]; [reflexivity|].
    unfold full_log in *. cbn [map concat]. rewrite deferreds_app, deferreds_batch_log, IH. reflexivity.
  Qed.

  (* every stored block is merged: its EDeferred is preceded by its ESave and followed by an EMerge *)
  Lemma full_log_order : forall bs i, has_merge F = true -> In i (concat (map snd bs)) ->
    exists l1 l2 l3, full_log bs = l1 ++ ESave i :: l2 ++ EDeferred i :: l3 /\ In EMerge l3.
  Proof.
    induction bs as [|b bs IH]; intros i Hm Hi; [destruct Hi|].
    cbn [map concat] in Hi. apply in_app_or in Hi. destruct Hi as [Hi|Hi].
    - apply in_split in Hi. destruct Hi as [p [q Hpq]].
      unfold full_log. cbn [map concat]. unfold batch_log at 1. rewrite Hm, Hpq.
      rewrite !map_app. cbn [map].
      exists (map ESave p), (map ESave q ++ map EDeferred p),
             (map EDeferred q ++ [EMerge] ++ concat (map (fun b0 => batch_log (snd b0)) bs)).
      split.
      + repeat (rewrite <- app_assoc; cbn [app]). reflexivity.
      + apply in_or_app. right. left. reflexivity.
    - destruct (IH i Hm Hi) as [l1 [l2 [l3 [He Hin]]]].
      exists (batch_log (snd b) ++ l1), l2, l3. split; [|assumption].
      unfold full_log in *. cbn [map concat]. rewrite He, <- app_assoc. reflexivity.
  Qed.

  Lemma full_log_ends_with_merge : forall bs, has_merge F = true -> bs <> [] ->
    exists l, full_log bs = l ++ [EMerge].
  Proof.
    intros bs Hm Hne. destruct (exists_last Hne) as [bs' [b ->]].
    unfold full_log. rewrite map_app, concat_app. cbn. rewrite app_nil_r.
    unfold batch_log. rewrite Hm.
    exists (concat (map (fun b0 => batch_log (snd b0)) bs') ++ map ESave (snd b) ++ map EDeferred (snd b)).
    unfold batch_log. rewrite Hm. rewrite <- !app_assoc. reflexivity.
  Qed.
End P.

(* ------------------------------------------------------------------ the property *)

Theorem success_saves_all : forall F limit count orders lg,
  1 <= limit -> 1 <= count ->
  valid_orders (batches count limit) orders ->
  import_blocks F limit count orders = Ok lg ->
  saves lg = seq 0 count /\ deferreds lg = seq 0 count /\
  (has_merge F = true ->
     (forall i, i < count -> exists l1 l2 l3, lg = l1 ++ ESave i :: l2 ++ EDeferred i :: l3 /\ In EMerge l3) /\
     exists l, lg = l ++ [EMerge]).
Proof.
  intros F limit count orders lg Hl Hc Hvo H.
  apply import_blocks_ok in H; try assumption. subst lg.
  rewrite saves_full_log, deferreds_full_log, batches_concat by assumption.
  split; [reflexivity|]. split; [reflexivity|]. intros Hm. split.
  - intros i Hi. apply full_log_order; [assumption|]. rewrite batches_concat by assumption.
    apply in_seq. lia.
  - apply full_log_ends_with_merge; [assumption|].
    intros Hnil. pose proof (batches_concat count limit Hl Hc) as Hcc. rewrite Hnil in Hcc.
    cbn in Hcc. destruct count; [lia|discriminate].
Qed.

(* in heights: success => the stored heights are exactly from, from+1, ..., to, in this order *)
Theorem success_saves_all_heights : forall F limit (from to : Z) orders lg,
  1 <= limit -> (from <= to)%Z ->
  let count := Z.to_nat (to - from + 1) in
  valid_orders (batches count limit) orders ->
  import_blocks F limit count orders = Ok lg ->
  map (height_of from) (deferreds lg) = zrange from count /\
  map (height_of from) (saves lg) = zrange from count /\
  last (map (height_of from) (deferreds lg)) (from - 1)%Z = to.
Proof.
  intros F limit from to orders lg Hl Hft count Hvo H.
  assert (Hc : 1 <= count) by (unfold count; lia).
  destruct (success_saves_all F limit count orders lg Hl Hc Hvo H) as [Hs [Hd _]].
  rewrite Hs, Hd. unfold zrange. split; [reflexivity|]. split; [reflexivity|].
  destruct count as [|c] eqn:Ec; [lia|].
  rewrite seq_S, map_app. cbn [map]. rewrite last_last. unfold height_of.
  unfold count in Ec. lia.
Qed.

(* fault-free runs succeed (the theorem above is not vacuous, and nothing is rejected needlessly) *)
Definition no_faults (hm : bool) : faults :=
  {| f_import := fun _ => false; f_save := fun _ => false; f_def := fun _ => false;
     f_merge := fun _ => false; has_merge := hm |}.
