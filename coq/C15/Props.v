From MV Require Import Common.Batch C15.Model.
Theorem C15_placeholder : True. Proof. exact I. Qed.
