(* C15 -- Importing a block range stores every block.  Property theorems only.
   Model: C15/Model.v (ImportBlocks / saveImporters of isaac/block/import_block.go over the shared
   util.BatchWork model Common/Batch.v). *)
From Coq Require Import List ZArith Arith.
From MV Require Import Common.Batch C15.Model C15.Proofs.
Import ListNotations.

(* For every range from <= to, every batch limit >= 1, every behaviour of the importers / block-map
   source / merge callback ([F]: which calls fail) and every order in which the jobs of each batch
   take effect: if ImportBlocks reports success, then the blocks saved (Save) and merged (deferred
   function of Save) are exactly from, from+1, ..., to -- so the last stored height is [to]. *)
Theorem C15_success_saves_all : forall F limit (from to : Z) orders lg,
  1 <= limit -> (from <= to)%Z ->
  let count := Z.to_nat (to - from + 1) in
  valid_orders (batches count limit) orders ->
  import_blocks F limit count orders = Ok lg ->
  map (height_of from) (deferreds lg) = zrange from count /\
  map (height_of from) (saves lg) = zrange from count /\
  last (map (height_of from) (deferreds lg)) (from - 1)%Z = to.
Proof. exact success_saves_all_heights. Qed.

(* ... and, when a merge callback is given, every block's Save is followed by its deferred merge
   and later by a run of mergeBlockWriterDatabasesf; the history ends with that callback. *)
Theorem C15_success_each_merged : forall F limit count orders lg,
  1 <= limit -> 1 <= count ->
  valid_orders (batches count limit) orders ->
  import_blocks F limit count orders = Ok lg ->
  saves lg = seq 0 count /\ deferreds lg = seq 0 count /\
  (has_merge F = true ->
     (forall i, i < count -> exists l1 l2 l3, lg = l1 ++ ESave i :: l2 ++ EDeferred i :: l3 /\ In EMerge l3) /\
     exists l, lg = l ++ [EMerge]).
Proof. exact success_saves_all. Qed.

(* the batches BatchWork hands out cover [0..size-1] exactly (no fuel exhaustion in the model) *)
Theorem C15_batches_cover : forall size limit, 1 <= limit -> 1 <= size ->
  concat (map snd (batches size limit)) = seq 0 size.
Proof. exact batches_concat. Qed.

(* non-vacuity: the formerly failing inputs now succeed and store everything *)
Example C15_example_3_3 :
  import_blocks (no_faults true) 3 3 (in_order (batches 3 3)) =
  Ok [ESave 0; ESave 1; ESave 2; EDeferred 0; EDeferred 1; EDeferred 2; EMerge].
Proof. vm_compute. reflexivity. Qed.

Example C15_example_4_2 :
  import_blocks (no_faults true) 2 4 (in_order (batches 4 2)) =
  Ok [ESave 0; ESave 1; EDeferred 0; EDeferred 1; EMerge; ESave 2; ESave 3; EDeferred 2; EDeferred 3; EMerge].
Proof. vm_compute. reflexivity. Qed.

(* history: with the guard the code had before the fix (`if int64(len(ims)) < batchlimit`) the same
   inputs report success with the last batch never saved *)
Example C15_old_guard_3_3 : import_blocks_old (no_faults true) 3 3 (in_order (batches 3 3)) = Ok [].
Proof. vm_compute. reflexivity. Qed.
Example C15_old_guard_4_2 :
  import_blocks_old (no_faults true) 2 4 (in_order (batches 4 2)) = Ok [ESave 0; ESave 1; EDeferred 0; EDeferred 1; EMerge].
Proof. vm_compute. reflexivity. Qed.
