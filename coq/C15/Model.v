(* C15 -- importing a block range stores every block.
   Transcribes isaac/block/import_block.go: ImportBlocks / saveImporters / cancelImporters
   (after the fix: commit: the final saveImporters is unconditional), on top of the shared model of
   util.BatchWork (Common/Batch.v).

   Blocks are identified by their offset i = height - from (0 <= i < count, count = to-from+1).
   An importer is identified by the offset of its block.  What the importers, the block-map source
   and the merge callback do is arbitrary: [faults] says which call fails.

   Events (the observable history):
     ESave i      ims[slot].Save(ctx) of block i returned without error
     EDeferred i  the function returned by Save ("deferred": merges the block write database of
                  block i) returned without error
     EMerge       mergeBlockWriterDatabasesf returned without error
     ECancel i    CancelImport of block i was called
   No proofs in this file. *)
From Coq Require Import List Arith Bool ZArith PeanoNat.
From MV Require Import Common.Batch Common.Cases.
Import ListNotations.

Inductive ev : Type := ESave (i : nat) | EDeferred (i : nat) | EMerge | ECancel (i : nat).

(* error classes (what the harness maps Go errors to) *)
Inductive ecode : Type :=
| EWrongSize      (* BatchWork: size < 1 *)
| EImport         (* blockMapf / newBlockImporter / importBlock failed in a job *)
| ESaveFail       (* BlockImporter.Save failed *)
| EDeferredFail   (* deferred function failed *)
| EMergeFail      (* mergeBlockWriterDatabasesf failed *)
| EEmpty          (* saveImporters: "empty BlockImporters" *)
| EPanic.         (* Go would panic: nil importer in a slot / slot index out of range *)

Record faults : Type := {
  f_import : nat -> bool;   (* job of block i fails *)
  f_save : nat -> bool;     (* Save of block i fails *)
  f_def : nat -> bool;      (* deferred of block i fails *)
  f_merge : nat -> bool;    (* the k-th call (k = number of earlier successful calls) of the merge callback fails *)
  has_merge : bool          (* mergeBlockWriterDatabasesf != nil *)
}.

Record st : Type := {
  ims : option (list (option nat));   (* var ims []isaac.BlockImporter ; None = nil slice *)
  log : list ev;
  merges : nat
}.

Definition E : Type := (ecode * list ev)%type.

Definition init : st := {| ims := None; log := []; merges := 0 |}.

Fixpoint all_some (l : list (option nat)) : option (list nat) :=
  match l with
  | [] => Some []
  | Some x :: r => match all_some r with Some r' => Some (x :: r') | None => None end
  | None :: _ => None
  end.

Fixpoint upd {A} (l : list A) (k : nat) (v : A) : list A :=
  match l, k with
  | [], _ => []
  | _ :: r, 0 => v :: r
  | x :: r, S k' => x :: upd r k' v
  end.

Section Import.
  Variable F : faults.
  Variable limit : nat.

  (* deferreds[i](ctx) one after the other, in slot order; the first failure cancels all importers *)
  Fixpoint run_deferreds (all js : list nat) (lg : list ev) : res (list ev) E :=
    match js with
    | [] => Ok lg
    | j :: r =>
        if f_def F j then Err (EDeferredFail, lg ++ map ECancel all)
        else run_deferreds all r (lg ++ [EDeferred j])
    end.

  (* saveImporters(ctx, ims, mergef).  The two branches of the Go code (len < 2: Save then deferred;
     otherwise all Saves in a RunJobWorker, then the deferreds in slot order) produce the same
     events up to the order of the Saves of one batch, which the model lists in slot order.
     When a Save fails, which other Saves of the batch ran is not determined: none is logged. *)
  Definition save_importers (s : st) (l : list (option nat)) : res st E :=
    match l with
    | [] => Err (EEmpty, log s)
    | _ =>
        match all_some l with
        | None => Err (EPanic, log s)
        | Some js =>
            if existsb (f_save F) js then Err (ESaveFail, log s ++ map ECancel js)
            else
              match run_deferreds js js (log s ++ map ESave js) with
              | Err e => Err e
              | Ok lg =>
                  if has_merge F then
                    if f_merge F (merges s) then Err (EMergeFail, lg ++ map ECancel js)
                    else Ok {| ims := ims s; log := lg ++ [EMerge]; merges := S (merges s) |}
                  else Ok {| ims := ims s; log := lg; merges := merges s |}
              end
        end
    end.

  (* pref: save the previous batch, then allocate the slots of this one *)
  Definition pref (last : nat) (s : st) : res st E :=
    let alloc (s' : st) : res st E :=
      let r := (last + 1) mod limit in
      Ok {| ims := Some (repeat None (if r =? 0 then limit else r)); log := log s'; merges := merges s' |} in
    match ims s with
    | Some l => match save_importers s l with Ok s' => alloc s' | Err e => Err e end
    | None => alloc s
    end.

  (* job: import block i, then ims[(height-from) % batchlimit] = im *)
  Definition job (i _last : nat) (s : st) : res st E :=
    if f_import F i then Err (EImport, log s)
    else
      match ims s with
      | None => Err (EPanic, log s)
      | Some l =>
          let k := i mod limit in
          if k <? length l
          then Ok {| ims := Some (upd l k (Some i)); log := log s; merges := merges s |}
          else Err (EPanic, log s)
      end.

  (* [final_guard len limit]: whether the save after the loop runs.  Fixed code: always. *)
  Definition import_blocks_gen (final_guard : nat -> nat -> bool) (count : nat) (orders : list (list nat))
    : res (list ev) E :=
    match batch_work pref job (EWrongSize, []) count limit orders init with
    | Err e => Err e
    | Ok s =>
        let l := match ims s with Some l => l | None => [] end in
        if final_guard (length l) limit then
          match save_importers s l with
          | Ok s' => Ok (log s')
          | Err e => Err e
          end
        else Ok (log s)
    end.

  Definition import_blocks := import_blocks_gen (fun _ _ => true).
  (* the guard before the fix: `if int64(len(ims)) < batchlimit` *)
  Definition import_blocks_old := import_blocks_gen (fun n l => n <? l).
End Import.

(* ---------------------------------------------------------------- observables *)

Fixpoint saves (l : list ev) : list nat :=
  match l with [] => [] | ESave i :: r => i :: saves r | _ :: r => saves r end.
Fixpoint deferreds (l : list ev) : list nat :=
  match l with [] => [] | EDeferred i :: r => i :: deferreds r | _ :: r => deferreds r end.
Fixpoint cancels (l : list ev) : list nat :=
  match l with [] => [] | ECancel i :: r => i :: cancels r | _ :: r => cancels r end.
Fixpoint nmerges (l : list ev) : nat :=
  match l with [] => 0 | EMerge :: r => S (nmerges r) | _ :: r => nmerges r end.

(* number of deferreds done before each EMerge: where the merges sit in the history *)
Fixpoint merge_points (l : list ev) (n : nat) : list nat :=
  match l with
  | [] => []
  | EMerge :: r => n :: merge_points r n
  | EDeferred _ :: r => merge_points r (S n)
  | _ :: r => merge_points r n
  end.

Definition height_of (from : Z) (i : nat) : Z := (from + Z.of_nat i)%Z.
Definition zrange (from : Z) (count : nat) : list Z := map (height_of from) (seq 0 count).

Definition code_nat (c : ecode) : nat :=
  match c with
  | EWrongSize => 1 | EImport => 2 | ESaveFail => 3 | EDeferredFail => 4
  | EMergeFail => 5 | EEmpty => 6 | EPanic => 7
  end.

(* ---------------------------------------------------------------- correspondence *)

Definition mem (l : list nat) (i : nat) : bool := existsb (Nat.eqb i) l.

Definition mk_faults (fi fs fd fm : list nat) (hm : bool) : faults :=
  {| f_import := mem fi; f_save := mem fs; f_def := mem fd; f_merge := mem fm; has_merge := hm |}.

Fixpoint insert_sorted (x : nat) (l : list nat) : list nat :=
  match l with [] => [x] | y :: r => if x <=? y then x :: l else y :: insert_sorted x r end.
Definition sort (l : list nat) : list nat := fold_right insert_sorted [] l.

(* case: ((count, limit, reversed order?), (import-fail, save-fail, deferred-fail, merge-fail, has_merge),
          observed (code, saves sorted, deferreds in order, merge points, cancels sorted)) *)
Definition case : Type :=
  ((nat * nat * bool) * (list nat * list nat * list nat * list nat * bool) *
   (nat * list nat * list nat * list nat * list nat))%type.

Definition eqb_ln := list_eqb Nat.eqb.

Definition check (c : case) : bool :=
  let '((count, limit, rev_order), (fi, fs, fd, fm, hm), (ocode, osaves, odefs, omp, ocancels)) := c in
  let F := mk_faults fi fs fd fm hm in
  let bs := batches count limit in
  let orders := if rev_order then map (fun b => rev (snd b)) bs else in_order bs in
  let '(code, lg) := match import_blocks F limit count orders with
                     | Ok lg => (0, lg)
                     | Err (c, lg) => (code_nat c, lg)
                     end in
  Nat.eqb code ocode && eqb_ln (sort (saves lg)) osaves && eqb_ln (deferreds lg) odefs &&
  eqb_ln (merge_points lg 0) omp && eqb_ln (sort (cancels lg)) ocancels.
