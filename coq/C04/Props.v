(* C04 -- Ballotbox emits only sound voteproofs.  Property theorems only. *)
From Coq Require Import ZArith List Bool String.
From MV Require Import C04.Model C04.Proofs.
From MV Require Gen.C04.
Import ListNotations.
Open Scope Z_scope.

(* the constants the model hard-codes are those of the Go source (regenerated on every run) *)
Theorem C04_consts : Gen.C04.max_threshold10 = 1000 /\ pf_get pfx = pf_new pfx /\ pf_new pfx = pf_clean pfx.
Proof. exact consts_ok. Qed.
