(* C04 -- Ballotbox emits only sound voteproofs.  Property theorems only.
   Model: C04/Model.v, a transcription of isaac/states/ballotbox.go (after the fixes 1fd631b, fbc0fd9, 3e29325,
   02be2ab), isaac/lastpoint.go, isaac.IsValidVoteproofWithSuffrage, base.IsValidVoteproof.
   [emitted e ops v]: v is put on the Voteproof() channel by some step of the history [ops] -- ANY sequence of the
   atomic steps Vote/VoteSignFact, countVoterecords of any record object (also through stale pointers), countHolded,
   the deferred forward of an embedded voteproof, SetLastPoint, clean, a suffrage becoming known -- a superset of
   all interleavings of concurrent callers; the Go map iteration order (which embedded voteproof, which expel set),
   sync.Pool.Get and the wall clock are oracle arguments of the steps, universally quantified.
   [input_ok]: what Ballot.IsValid(networkID) guarantees for ballots handed to Vote (no expel target twice, a
   ballot with expels carries a voteproof, the embedded voteproof is well formed). *)
From Coq Require Import ZArith List Bool String.
From MV Require Import C04.Model C04.PSound C04.PThresh C04.Proofs.
From MV Require Gen.C04.
Import ListNotations.
Open Scope Z_scope.

(* the constants the model hard-codes are those of the Go source (regenerated on every run): MaxThreshold = 100,
   and the key prefixes of voterecords / newVoterecords / clean agree and are not empty (used by every proof below:
   sign facts "for that stage point" needs a record to be owned by one key) *)
Theorem C04_consts :
  Gen.C04.max_threshold10 = 1000 /\ pf_get pfx = pf_new pfx /\ pf_clean pfx = pf_new pfx /\ pf_new pfx <> EmptyString.
Proof. exact consts_ok. Qed.

(* It passes the same full validation other nodes apply: the structural part of Voteproof.IsValid and
   isaac.IsValidVoteproofWithSuffrage with the suffrage of its height; and it consists of sign facts that were
   voted, or is a voteproof that arrived embedded in a ballot. *)
Theorem C04_passes_validation : forall e ops v,
  Forall input_ok ops -> emitted e ops v ->
  exists s, suffrage_of e v = Some s /\ vp_wellformed v = true /\ vp_valid_suf v s = true /\
            ((forall sf, In sf (v_sfs v) -> In sf (voted_sfs ops)) \/ In v (embedded ops)).
Proof. exact emitted_ok. Qed.

(* It is for a stage point the ballotbox was voting on: it has sign facts, each of them was handed to
   Vote/VoteSignFact and is for the voteproof's stage point -- or it is a voteproof carried by a ballot. *)
Theorem C04_point_voted : forall e ops v,
  Forall input_ok ops -> emitted e ops v ->
  ((exists sf, In sf (v_sfs v)) /\
   forall sf, In sf (v_sfs v) -> In sf (voted_sfs ops) /\ f_sp (sf_fact sf) = v_sp v) \/
  In v (embedded ops).
Proof. exact emitted_point_voted. Qed.

(* It contains only sign facts for that stage point from distinct nodes of the suffrage (address and key). *)
Theorem C04_signfacts_sound : forall e ops v,
  Forall input_ok ops -> emitted e ops v ->
  exists s, suffrage_of e v = Some s /\ NoDup (map sf_node (v_sfs v)) /\
            forall sf, In sf (v_sfs v) ->
              suf_exists_pub (sf_node sf) (sf_pub sf) s = true /\ f_sp (sf_fact sf) = v_sp v.
Proof. exact emitted_signfacts. Qed.

(* Its result equals a fresh recount of the votes it contains, with the quorum and threshold the validator uses
   (its own threshold over the suffrage; 100% of the suffrage without the expelled nodes for an expel voteproof). *)
Theorem C04_recount : forall e ops v,
  Forall input_ok ops -> emitted e ops v -> v_kind v <> VStuck ->
  exists s q th, suffrage_of e v = Some s /\ validator_count v s = Some (q, th) /\
                 result_matches (tally q th (sf_ids (v_sfs v))) (v_maj v).
Proof. exact emitted_recount. Qed.

(* The threshold an emitted voteproof carries (and is validated with) is never below the threshold of the box -- for
   the voteproofs it builds and for embedded ones handed on through the Count() path, the hold timer and the deferred
   path of not yet validated ballots alike (no input assumption needed).  (seeded change C04-D) *)
Theorem C04_threshold_not_below_box : forall e ops v, emitted e ops v -> en_th e <= v_th v.
Proof. exact emitted_threshold. Qed.

(* The last point of the box changes, in any step, only through the guard of SetLastPoint (LastPoint.Before of the new
   point against the old one); countVoterecords cannot move it otherwise.  (seeded change C06-D; the monotonicity that
   follows from the guard is C06's subject) *)
Theorem C04_last_point_guarded : forall e b o, last_guarded b (fst (step pfx e b o)).
Proof. exact last_point_guarded. Qed.

(* non-vacuity: a history satisfying input_ok that emits an expel voteproof with a majority *)
Example C04_example_inputs : Forall input_ok x_ops.
Proof. exact x_input_ok. Qed.
Example C04_example :
  exists v, emitted x_env x_ops v /\ v_kind v = VExpel /\ v_sp v = x_sp /\
            option_map f_id (v_maj v) = Some 1 /\ map sf_node (v_sfs v) = [0; 1].
Proof. exact x_emits. Qed.
