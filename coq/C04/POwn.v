(* C04/C05 -- ownership invariant of the ballotbox model: keys, record identities, removed, pool. *)
From Coq Require Import ZArith List Bool String Lia PeanoNat.
From MV Require Import C04.Model C04.PLib.
Import ListNotations.

Definition live (b : box) : list nat := map snd (bx_vrs b).
Definition rec_of (b : box) (i : nat) : rec := rget i (bx_recs b).

Section Own.
Variable pf : prefixes.
Hypothesis Hnc : pf_clean pf = pf_new pf.
Hypothesis Hne : pf_new pf <> EmptyString.

Record Inv (b : box) : Prop := mkInv {
  i_keys : forall k i, In (k, i) (bx_vrs b) -> kget k (bx_vrs b) = Some i;
  i_live : NoDup (live b);
  i_rec : forall k i, In (k, i) (bx_vrs b) ->
            exists sp, r_sp (rec_of b i) = Some sp /\ k = mkkey (pf_new pf) (r_isc (rec_of b i)) sp;
  i_rem : NoDup (bx_removed b);
  i_pool : NoDup (bx_pool b);
  i_lr : forall i, In i (live b) -> ~ In i (bx_removed b);
  i_lp : forall i, In i (live b) -> ~ In i (bx_pool b);
  i_rp : forall i, In i (bx_removed b) -> ~ In i (bx_pool b);
  i_pz : forall i, In i (bx_pool b) -> r_sp (rec_of b i) = None;
  i_next : forall i, In i (live b) \/ In i (bx_removed b) \/ In i (bx_pool b) -> (i < bx_next b)%nat }.

Lemma inv_init : Inv box_init.
Proof.
  constructor; simpl; try (intros; contradiction); try constructor.
  intros i [H|[H|H]]; contradiction.
Qed.

Lemma live_In b k i : In (k, i) (bx_vrs b) -> In i (live b).
Proof. intros H. unfold live. apply in_map_iff. exists (k, i); auto. Qed.

Lemma In_live b i : In i (live b) -> exists k, In (k, i) (bx_vrs b).
Proof. unfold live. intros H. apply in_map_iff in H. destruct H as [[k j] [E H]]. simpl in E; subst. eauto. Qed.

(* ---------------------------------------------------------------- updates of one record that keep its header *)

Lemma rec_of_upd b i r j : rec_of (upd_rec i r b) j = if Nat.eqb j i then r else rec_of b j.
Proof. unfold rec_of, upd_rec, set_recs. cbn [bx_recs]. apply rget_rset. Qed.

Lemma inv_upd_rec b i r' :
  Inv b -> r_sp r' = r_sp (rec_of b i) -> r_isc r' = r_isc (rec_of b i) -> Inv (upd_rec i r' b).
Proof.
  intros [K L R RM P LR LP RP PZ NX] Hs Hi.
  constructor; auto.
  - intros k j H. destruct (R k j H) as [sp [A B]].
    rewrite rec_of_upd. destruct (Nat.eqb j i) eqn:E.
    + apply Nat.eqb_eq in E; subst j. exists sp. rewrite Hs, Hi. auto.
    + exists sp; auto.
  - intros j H. rewrite rec_of_upd. destruct (Nat.eqb j i) eqn:E.
    + apply Nat.eqb_eq in E; subst j. rewrite Hs. apply PZ; auto.
    + apply PZ; auto.
Qed.

Lemma inv_set_last b l : Inv b -> Inv (set_last l b).
Proof. intros [K L R RM P LR LP RP PZ NX]. constructor; simpl; auto. Qed.

Lemma inv_box_set_last b l : Inv b -> Inv (box_set_last l b).
Proof. intros H. unfold box_set_last. destruct (before _ _ _); auto. apply inv_set_last; auto. Qed.

(* ---------------------------------------------------------------- record-level steps keep the header *)

Lemma rec_vote_hdr suf last bl r r' v w :
  rec_vote suf last bl r = (r', v, w) -> r_sp r' = r_sp r /\ r_isc r' = r_isc r.
Proof.
  unfold rec_vote. destruct (r_sp r) eqn:S; [|intros H; inversion H; subst; auto].
  destruct (negb (before last s (r_isc r))); [intros H; inversion H; subst; auto|].
  destruct (is_some (r_vp r)); [intros H; inversion H; subst; auto|].
  destruct (is_voted _ r); [intros H; inversion H; subst; auto|].
  destruct suf as [su|].
  - destruct (negb (ballot_valid_suf _ _ _)); intros H; inversion H; subst; auto.
    unfold recorded. destruct (b_vp bl), (b_ex bl); simpl; auto.
  - intros H; inversion H; subst. unfold recorded. destruct (b_vp bl), (b_ex bl); simpl; auto.
Qed.

Lemma count_from_voted_hdr local th s el px sp r r' o :
  count_from_voted local th s el px sp r = (r', o) -> r_sp r' = r_sp r /\ r_isc r' = r_isc r.
Proof.
  unfold count_from_voted. destruct (r_voted r); [intros H; inversion H; subst; auto|].
  destruct (match px with Some n => expel_candidate local s th r n | None => None end) as [[[w m] ex]|].
  - intros H; inversion H; subst; auto.
  - destruct (tally _ _ _).
    + intros H; inversion H; subst; auto.
    + destruct (_ && _ && _); intros H; inversion H; subst; auto.
    + intros H; inversion H; subst; auto.
Qed.

Lemma rec_count_hdr e known last th el pv px r r' vps :
  rec_count e known last th el pv px r = (r', vps) -> r_sp r' = r_sp r /\ r_isc r' = r_isc r.
Proof.
  unfold rec_count. destruct (r_sp r) eqn:S; [|intros H; inversion H; subst; auto].
  destruct (negb (before last s (r_isc r))); [intros H; inversion H; subst; auto|].
  destruct (is_some (r_vp r)); [intros H; inversion H; subst; auto|].
  destruct (match r_voted r, r_ballots r with [], [] => true | _, _ => false end); [intros H; inversion H; subst; auto|].
  destruct (get_suf e known _) as [su|]; [|intros H; inversion H; subst; auto].
  set (r1 := match r_ballots r with [] => r | _ => count_from_ballots su r end).
  assert (H1 : r_sp r1 = r_sp r /\ r_isc r1 = r_isc r).
  { unfold r1. destruct (r_ballots r); auto. }
  destruct (count_from_voted _ _ _ _ _ _ r1) as [r2 [v|]] eqn:C;
    apply count_from_voted_hdr in C; destruct C as [A B], H1 as [A1 B1];
    intros H; inversion H; subst; simpl; split; congruence.
Qed.

(* ---------------------------------------------------------------- newVoterecords *)

Definition add_rec (b : box) (k : key) (i : nat) (r : rec) (pool : list nat) (next : nat) : box :=
  mkBox (bx_last b) (bx_vrs b ++ [(k, i)]) (rset i r (bx_recs b)) (bx_removed b) pool next (bx_known b).

Lemma inv_add_rec b p isc i r pool next :
  Inv b -> kget (mkkey (pf_new pf) isc p) (bx_vrs b) = None ->
  r_sp r = Some p -> r_isc r = isc ->
  ~ In i (live b) -> ~ In i (bx_removed b) -> ~ In i pool -> NoDup pool ->
  (forall x, In x pool -> In x (bx_pool b)) -> (i < next)%nat -> (bx_next b <= next)%nat ->
  Inv (add_rec b (mkkey (pf_new pf) isc p) i r pool next).
Proof.
  intros [K L R RM P LR LP RP PZ NX] G Hs Hi NL NR NP NDP SUB LT LE.
  set (k := mkkey (pf_new pf) isc p) in *.
  assert (LV : live (add_rec b k i r pool next) = live b ++ [i]).
  { unfold live, add_rec; simpl. rewrite map_app. reflexivity. }
  constructor; try rewrite LV; simpl; auto.
  - intros k' j H. apply in_app_iff in H. rewrite kget_app. destruct H as [H|[H|[]]].
    + rewrite (K _ _ H). reflexivity.
    + inversion H; subst k' j. rewrite G. simpl. rewrite key_eqb_refl. reflexivity.
  - apply NoDup_app_disj; auto.
    + constructor; auto. constructor.
    + intros x X [E|[]]. subst. contradiction.
  - intros k' j H. unfold rec_of, add_rec; cbn [bx_recs]. rewrite rget_rset.
    apply in_app_iff in H. destruct H as [H|[H|[]]].
    + destruct (Nat.eqb j i) eqn:E.
      * apply Nat.eqb_eq in E; subst j. exfalso. apply NL. eapply live_In; eauto.
      * apply R; auto.
    + inversion H; subst k' j. rewrite Nat.eqb_refl. exists p. rewrite Hs, Hi. auto.
  - intros j H. apply in_app_iff in H. destruct H as [H|[H|[]]]; subst; auto.
  - intros j H. apply in_app_iff in H. destruct H as [H|[H|[]]]; subst; auto.
    intros X. apply (LP j); auto.
  - intros j H X. apply (RP j); auto.
  - intros j H. unfold rec_of, add_rec; cbn [bx_recs]. rewrite rget_rset.
    destruct (Nat.eqb j i) eqn:E.
    + apply Nat.eqb_eq in E; subst j. contradiction.
    + apply PZ; auto.
  - intros j H. rewrite in_app_iff in H. destruct H as [[H|[H|[]]]|[H|H]].
    + apply Nat.lt_le_trans with (bx_next b); auto.
    + subst; auto.
    + apply Nat.lt_le_trans with (bx_next b); auto.
    + apply Nat.lt_le_trans with (bx_next b); auto.
Qed.

Lemma new_rec_spec b p isc get b' i :
  Inv b -> box_new_rec pf p isc get b = (b', i) ->
  Inv b' /\ kget (mkkey (pf_new pf) isc p) (bx_vrs b') = Some i /\
  r_sp (rec_of b' i) = Some p /\ r_isc (rec_of b' i) = isc /\
  bx_last b' = bx_last b /\ bx_known b' = bx_known b /\
  (forall j, j <> i -> rec_of b' j = rec_of b j) /\
  (forall k, k <> mkkey (pf_new pf) isc p -> kget k (bx_vrs b') = kget k (bx_vrs b)) /\
  (kget (mkkey (pf_new pf) isc p) (bx_vrs b) = Some i -> b' = b) /\
  ((kget (mkkey (pf_new pf) isc p) (bx_vrs b) = None) ->
     rec_of b' i = rec_init p isc (rec_of b i) /\ ~ In i (live b) /\ ~ In i (bx_removed b)).
Proof.
  intros I. unfold box_new_rec.
  destruct (kget (mkkey (pf_new pf) isc p) (bx_vrs b)) as [j|] eqn:G.
  - intros H; inversion H; subst b' j. split; auto. split; auto.
    apply kget_In in G. destruct (i_rec _ I _ _ G) as [sp [A B]].
    apply mkkey_inj in B; auto. destruct B as [B1 B2]. subst.
    repeat split; auto; try congruence.
  - set (k := mkkey (pf_new pf) isc p) in *.
    assert (FR : ~ In (bx_next b) (live b) /\ ~ In (bx_next b) (bx_removed b) /\ ~ In (bx_next b) (bx_pool b)).
    { repeat split; intros X; eapply Nat.lt_irrefl; apply (i_next _ I); eauto. }
    destruct FR as [F1 [F2 F3]].
    assert (FRESH : Inv (add_rec b k (bx_next b) (rec_init p isc (rget (bx_next b) (bx_recs b))) (bx_pool b) (S (bx_next b)))).
    { apply inv_add_rec; auto. apply (i_pool _ I). }
    assert (COMMON : forall j pool next,
              Inv (add_rec b k j (rec_init p isc (rget j (bx_recs b))) pool next) ->
              ~ In j (live b) -> ~ In j (bx_removed b) ->
              let b1 := add_rec b k j (rec_init p isc (rget j (bx_recs b))) pool next in
              Inv b1 /\ kget k (bx_vrs b1) = Some j /\ r_sp (rec_of b1 j) = Some p /\ r_isc (rec_of b1 j) = isc /\
              bx_last b1 = bx_last b /\ bx_known b1 = bx_known b /\
              (forall x, x <> j -> rec_of b1 x = rec_of b x) /\
              (forall k', k' <> k -> kget k' (bx_vrs b1) = kget k' (bx_vrs b)) /\
              ((@None nat = Some j) -> b1 = b) /\
              ((@None nat = None) -> rec_of b1 j = rec_init p isc (rec_of b j) /\ ~ In j (live b) /\ ~ In j (bx_removed b))).
    { intros j pool next IV N1 N2. cbv zeta. split; auto.
      unfold add_rec, rec_of; cbn [bx_vrs bx_recs bx_last bx_known].
      rewrite kget_app, G. cbn [kget]. rewrite key_eqb_refl. rewrite !rget_rset_same.
      cbn [rec_init r_sp r_isc].
      repeat split; auto.
      - intros x X. apply rget_rset_other; auto.
      - intros k' X. rewrite kget_app. destruct (kget k' (bx_vrs b)); auto. simpl.
        destruct (key_eqb k' k) eqn:E; auto. apply key_eqb_eq in E. contradiction.
      - intros X; discriminate. }
    destruct get as [g|].
    + destruct (nmem g (bx_pool b)) eqn:M.
      * intros H; inversion H; subst b' i. apply nmem_In in M.
        destruct (NoDup_nremove1 g _ (i_pool _ I)) as [ND NI].
        assert (N1 : ~ In g (live b)). { intros X. apply (i_lp _ I g X M). }
        assert (N2 : ~ In g (bx_removed b)). { intros X. apply (i_rp _ I g X M). }
        apply COMMON; auto.
        apply inv_add_rec; auto.
        -- intros x X. eapply In_nremove1; eauto.
        -- apply (i_next _ I). auto.
      * intros H; inversion H; subst b' i. apply COMMON; auto.
    + intros H; inversion H; subst b' i. apply COMMON; auto.
Qed.
(* ---------------------------------------------------------------- clean *)

Definition pool_recs (removed : list nat) (recs : list (nat * rec)) : list (nat * rec) :=
  fold_left (fun m i => rset i (rec_pooled (rget i m)) m) removed recs.

Lemma pool_recs_spec removed : forall recs j,
  (In j removed -> r_sp (rget j (pool_recs removed recs)) = None) /\
  (~ In j removed -> rget j (pool_recs removed recs) = rget j recs).
Proof.
  induction removed as [|a l IH]; intros recs j; simpl.
  - split; [contradiction|auto].
  - destruct (IH (rset a (rec_pooled (rget a recs)) recs) j) as [A B]. split.
    + intros [E|H]; auto. subst a.
      destruct (in_dec Nat.eq_dec j l) as [X|X]; auto.
      unfold pool_recs in *. rewrite (B X). rewrite rget_rset_same. reflexivity.
    + intros N. unfold pool_recs in *. rewrite B; [|intros X; apply N; auto].
      apply rget_rset_other. intros E; apply N; auto.
Qed.

Definition del_keys (ks : list key) (m : list (key * nat)) : list (key * nat) :=
  fold_left (fun m k => kdel k m) ks m.

Lemma In_del_keys ks : forall m kv, In kv (del_keys ks m) <-> In kv m /\ ~ In (fst kv) ks.
Proof.
  induction ks as [|k ks IH]; intros m kv; simpl.
  - tauto.
  - unfold del_keys in *. simpl. rewrite IH, In_kdel. split.
    + intros [[A B] C]. split; auto. intros [X|X]; auto.
    + intros [A B]. repeat split; auto.
Qed.

Lemma kget_kdel_other k k' m : k <> k' -> kget k (kdel k' m) = kget k m.
Proof.
  intros N. unfold kdel. apply kget_filter_keep. intros i. simpl.
  apply negb_true_iff, key_eqb_neq. auto.
Qed.

Lemma kget_del_keys ks : forall m k, ~ In k ks -> kget k (del_keys ks m) = kget k m.
Proof.
  induction ks as [|a ks IH]; intros m k N; simpl; auto.
  unfold del_keys in *. simpl. rewrite IH; [|intros X; apply N; simpl; auto].
  apply kget_kdel_other. intros E; apply N; simpl; auto.
Qed.

Lemma NoDup_map_del_keys ks : forall m, NoDup (map snd m) -> NoDup (map snd (del_keys ks m)).
Proof.
  induction ks as [|a ks IH]; intros m H; simpl; auto.
  unfold del_keys in *. simpl. apply IH. unfold kdel. apply NoDup_map_filter; auto.
Qed.

Lemma NoDup_map_inj {A B} (f : A -> B) l x y :
  NoDup (map f l) -> In x l -> In y l -> f x = f y -> x = y.
Proof.
  induction l as [|a l IH]; simpl; intros H Hx Hy E; [contradiction|].
  inversion H; subst. destruct Hx as [Hx|Hx], Hy as [Hy|Hy]; subst; auto.
  - exfalso. apply H2. rewrite E. apply in_map; auto.
  - exfalso. apply H2. rewrite <- E. apply in_map; auto.
Qed.

Definition clean_key (recs1 : list (nat * rec)) (m : list (key * nat)) (i : nat) : list (key * nat) :=
  let r := rget i recs1 in
  match r_sp r with
  | Some sp => kdel (mkkey (pf_clean pf) (r_isc r) sp) m
  | None => m
  end.

Lemma clean_fold_eq recs1 old : forall m,
  (forall kv, In kv old -> exists sp, r_sp (rget (snd kv) recs1) = Some sp /\
                                     mkkey (pf_clean pf) (r_isc (rget (snd kv) recs1)) sp = fst kv) ->
  fold_left (clean_key recs1) (map snd old) m = del_keys (map fst old) m.
Proof.
  induction old as [|kv old IH]; intros m H; simpl; auto.
  unfold del_keys in *. simpl.
  destruct (H kv (or_introl eq_refl)) as [sp [A B]].
  unfold clean_key at 2. rewrite A, B. apply IH. intros kv' X. apply H; simpl; auto.
Qed.

Definition old_pred (recs1 : list (nat * rec)) (l : lastpoint) (kv : key * nat) : bool :=
  match r_sp (rget (snd kv) recs1) with
  | Some sp => sp_lt sp (lp_sp l)
  | None => sp_lt (mkSP (-1) 0 INIT) (lp_sp l)
  end.

Lemma box_clean_unfold b :
  box_clean pf b =
  let recs1 := pool_recs (bx_removed b) (bx_recs b) in
  let pool1 := bx_pool b ++ bx_removed b in
  match bx_last b with
  | None => mkBox (bx_last b) (bx_vrs b) recs1 [] pool1 (bx_next b) (bx_known b)
  | Some l =>
      let old := filter (old_pred recs1 l) (bx_vrs b) in
      mkBox (bx_last b) (fold_left (clean_key recs1) (map snd old) (bx_vrs b)) recs1 (map snd old) pool1
            (bx_next b) (bx_known b)
  end.
Proof. reflexivity. Qed.

Lemma inv_clean b :
  Inv b ->
  let b' := box_clean pf b in
  Inv b' /\ bx_last b' = bx_last b /\ bx_known b' = bx_known b /\
  (forall i, In i (live b) -> rec_of b' i = rec_of b i) /\
  (forall k i, In (k, i) (bx_vrs b') -> In (k, i) (bx_vrs b)) /\
  (forall i, In i (bx_removed b) -> In i (bx_pool b')) /\
  (forall i, In i (bx_pool b') -> In i (bx_pool b) \/ In i (bx_removed b)) /\
  match bx_last b with
  | None => bx_vrs b' = bx_vrs b /\ bx_removed b' = []
  | Some l =>
      (forall k i, In (k, i) (bx_vrs b') -> sp_lt (snd k) (lp_sp l) = false) /\
      (forall k i, In (k, i) (bx_vrs b) -> sp_lt (snd k) (lp_sp l) = false -> In (k, i) (bx_vrs b')) /\
      (forall k i, In (k, i) (bx_vrs b) -> sp_lt (snd k) (lp_sp l) = true ->
                   In i (bx_removed b') /\ kget k (bx_vrs b') = None) /\
      (forall i, In i (bx_removed b') -> In i (live b))
  end.
Proof.
  intros I. cbv zeta. rewrite box_clean_unfold. cbv zeta.
  set (recs1 := pool_recs (bx_removed b) (bx_recs b)).
  assert (RS : forall i, ~ In i (bx_removed b) -> rget i recs1 = rget i (bx_recs b)).
  { intros i N. apply (pool_recs_spec (bx_removed b) (bx_recs b) i); auto. }
  assert (RZ : forall i, In i (bx_removed b) -> r_sp (rget i recs1) = None).
  { intros i N. apply (pool_recs_spec (bx_removed b) (bx_recs b) i); auto. }
  assert (LS : forall i, In i (live b) -> rget i recs1 = rget i (bx_recs b)).
  { intros i H. apply RS. apply (i_lr _ I); auto. }
  assert (NDP : NoDup (bx_pool b ++ bx_removed b)).
  { apply NoDup_app_disj; [apply (i_pool _ I)|apply (i_rem _ I)|].
    intros x X Y. apply (i_rp _ I x Y X). }
  assert (PZ1 : forall i, In i (bx_pool b ++ bx_removed b) -> r_sp (rget i recs1) = None).
  { intros i H. apply in_app_iff in H. destruct H as [H|H]; auto.
    destruct (in_dec Nat.eq_dec i (bx_removed b)) as [X|X]; auto.
    rewrite RS; auto. apply (i_pz _ I); auto. }
  destruct (bx_last b) as [l|] eqn:LAST.
  - set (old := filter (old_pred recs1 l) (bx_vrs b)).
    assert (OLDIN : forall kv, In kv old -> In kv (bx_vrs b)).
    { intros kv H. apply filter_In in H. tauto. }
    assert (OLDKEY : forall kv, In kv old -> exists sp, r_sp (rget (snd kv) recs1) = Some sp /\
              mkkey (pf_clean pf) (r_isc (rget (snd kv) recs1)) sp = fst kv).
    { intros [k i] H. apply OLDIN in H. simpl. rewrite LS; [|eapply live_In; eauto].
      destruct (i_rec _ I _ _ H) as [sp [A B]]. exists sp. split; auto. rewrite Hnc. auto. }
    rewrite (clean_fold_eq recs1 old (bx_vrs b) OLDKEY).
    set (vrs1 := del_keys (map fst old) (bx_vrs b)).
    assert (V1 : forall kv, In kv vrs1 <-> In kv (bx_vrs b) /\ ~ In (fst kv) (map fst old)).
    { intros kv. apply In_del_keys. }
    assert (SPK : forall k i, In (k, i) (bx_vrs b) -> r_sp (rget i recs1) = Some (snd k)).
    { intros k i H. rewrite LS; [|eapply live_In; eauto].
      destruct (i_rec _ I _ _ H) as [sp [A B]]. fold (rec_of b i). rewrite A, B. reflexivity. }
    assert (OLDP : forall k i, In (k, i) (bx_vrs b) -> (In (k, i) old <-> sp_lt (snd k) (lp_sp l) = true)).
    { intros k i H. unfold old. rewrite filter_In. unfold old_pred. simpl. rewrite (SPK _ _ H). tauto. }
    assert (KOLD : forall k i, In (k, i) (bx_vrs b) -> (In k (map fst old) <-> In (k, i) old)).
    { intros k i H. split.
      - intros X. apply in_map_iff in X. destruct X as [[k' j] [E X]]. simpl in E; subst k'.
        assert (Y := OLDIN _ X).
        assert (Z := i_keys _ I _ _ Y). rewrite (i_keys _ I _ _ H) in Z. inversion Z; subst. auto.
      - intros X. apply in_map_iff. exists (k, i); auto. }
    split; [constructor; cbn [bx_vrs bx_recs bx_removed bx_pool bx_next]|].
    + (* keys *)
      intros k i H. apply V1 in H. destruct H as [H N]. simpl in N.
      fold vrs1. unfold vrs1. rewrite kget_del_keys; auto. apply (i_keys _ I); auto.
    + unfold live; cbn [bx_vrs]. apply NoDup_map_del_keys. apply (i_live _ I).
    + intros k i H. apply V1 in H. destruct H as [H N]. unfold rec_of; cbn [bx_recs].
      rewrite LS; [|eapply live_In; eauto]. apply (i_rec _ I); auto.
    + unfold old. apply NoDup_map_filter. apply (i_live _ I).
    + auto.
    + intros i H X. unfold live in H; cbn [bx_vrs] in H. apply in_map_iff in H.
      destruct H as [[k j] [E H]]. simpl in E; subst j. apply V1 in H. destruct H as [H N]. simpl in N.
      apply in_map_iff in X. destruct X as [[k' j] [E X]]. simpl in E; subst j.
      assert (Y := OLDIN _ X).
      assert (EQ : (k, i) = (k', i)).
      { apply (NoDup_map_inj snd (bx_vrs b)); auto. apply (i_live _ I). }
      inversion EQ; subst k'. apply N. apply in_map_iff. exists (k, i); auto.
    + intros i H X. unfold live in H; cbn [bx_vrs] in H. apply in_map_iff in H.
      destruct H as [[k j] [E H]]. simpl in E; subst j. apply V1 in H. destruct H as [H N].
      assert (LV := live_In _ _ _ H). apply in_app_iff in X. destruct X as [X|X].
      * apply (i_lp _ I i LV X).
      * apply (i_lr _ I i LV X).
    + intros i H X. apply in_map_iff in H. destruct H as [[k j] [E H]]. simpl in E; subst j.
      assert (LV := live_In _ _ _ (OLDIN _ H)). apply in_app_iff in X. destruct X as [X|X].
      * apply (i_lp _ I i LV X).
      * apply (i_lr _ I i LV X).
    + intros i H. unfold rec_of; cbn [bx_recs]. auto.
    + intros i [H|[H|H]]; apply (i_next _ I).
      * unfold live in H; cbn [bx_vrs] in H. apply in_map_iff in H.
        destruct H as [[k j] [E H]]. simpl in E; subst j. apply V1 in H. destruct H as [H N].
        left. eapply live_In; eauto.
      * apply in_map_iff in H. destruct H as [[k j] [E H]]. simpl in E; subst j.
        left. eapply live_In. apply OLDIN. eauto.
      * apply in_app_iff in H. tauto.
    + cbn [bx_last bx_known bx_vrs bx_removed bx_pool].
      split; [reflexivity|]. split; [reflexivity|].
      split. { intros i H. unfold rec_of; cbn [bx_recs]. auto. }
      split. { intros k i H. apply V1 in H. tauto. }
      split. { intros i H. apply in_app_iff; auto. }
      split. { intros i H. apply in_app_iff in H. auto. }
      split. { intros k i H. apply V1 in H. destruct H as [H N]. simpl in N.
               destruct (sp_lt (snd k) (lp_sp l)) eqn:E; auto. exfalso. apply N.
               apply (KOLD _ _ H). apply (OLDP _ _ H). auto. }
      split. { intros k i H E. apply V1. split; auto. simpl. intros X.
               apply (KOLD _ _ H) in X. apply (OLDP _ _ H) in X. congruence. }
      split. { intros k i H E. split.
               - apply in_map_iff. exists (k, i). split; auto. apply (OLDP _ _ H). auto.
               - apply kget_None. intros j X. apply V1 in X. destruct X as [X N]. simpl in N.
                 apply N. apply (KOLD _ _ X). apply (OLDP _ _ X). auto. }
      intros i H. apply in_map_iff in H. destruct H as [[k j] [E H]]. simpl in E; subst j.
      eapply live_In. apply OLDIN. eauto.
  - split; [constructor; cbn [bx_vrs bx_recs bx_removed bx_pool bx_next]|].
    + apply (i_keys _ I).
    + apply (i_live _ I).
    + intros k i H. unfold rec_of; cbn [bx_recs]. rewrite LS; [|eapply live_In; eauto]. apply (i_rec _ I); auto.
    + constructor.
    + auto.
    + intros i H X; contradiction.
    + intros i H X. apply in_app_iff in X. destruct X as [X|X].
      * apply (i_lp _ I i H X).
      * apply (i_lr _ I i H X).
    + intros i H; contradiction.
    + intros i H. unfold rec_of; cbn [bx_recs]. auto.
    + intros i [H|[H|H]].
      * apply (i_next _ I); auto.
      * contradiction.
      * apply (i_next _ I). apply in_app_iff in H. tauto.
    + cbn [bx_last bx_known bx_vrs bx_removed bx_pool].
      split; [reflexivity|]. split; [reflexivity|].
      split. { intros i H. unfold rec_of; cbn [bx_recs]. auto. }
      split. { auto. }
      split. { intros i H. apply in_app_iff; auto. }
      split. { intros i H. apply in_app_iff in H. auto. }
      split; reflexivity.
Qed.
(* ---------------------------------------------------------------- every atomic step keeps the invariant *)

Lemma inv_vote e bl get b : Inv b -> Inv (fst (fst (box_vote pf e bl get b))).
Proof.
  intros I. unfold box_vote.
  destruct (b_full bl && negb (check_ballot e b bl)); auto.
  destruct (negb (is_new_ballot b _ _)); auto.
  destruct (box_new_rec pf _ _ get b) as [b1 i] eqn:N.
  destruct (new_rec_spec _ _ _ _ _ _ I N) as [I1 _].
  destruct (rec_vote _ (bx_last b1) bl (rget i (bx_recs b1))) as [[r' v] w] eqn:V.
  apply rec_vote_hdr in V. destruct V. simpl. apply inv_upd_rec; auto.
Qed.

Lemma inv_count e i el pv px b : Inv b -> Inv (fst (box_count pf e i el pv px b)).
Proof.
  intros I. unfold box_count.
  destruct (r_sp (rget i (bx_recs b))) as [sp|] eqn:S; auto.
  destruct (negb (is_new_ballot b sp _)); auto.
  destruct (rec_count e (bx_known b) (bx_last b) (en_th e) el pv px (rget i (bx_recs b))) as [r' vps] eqn:C.
  apply rec_count_hdr in C. destruct C as [C1 C2].
  assert (I1 : Inv (upd_rec i r' b)) by (apply inv_upd_rec; auto).
  destruct (rev _) as [|lastvp t]; auto. simpl.
  apply (inv_clean (box_set_last_vp lastvp (upd_rec i r' b))).
  unfold box_set_last_vp. apply inv_box_set_last. auto.
Qed.

Lemma inv_held e i el pv px b : Inv b -> Inv (fst (box_held e i el pv px b)).
Proof.
  intros I. unfold box_held.
  destruct (negb (r_hold _)); auto. destruct (negb el); auto.
  destruct (rec_count _ _ _ _ _ _ _ _) as [r' vps] eqn:C.
  apply rec_count_hdr in C. destruct C. simpl. apply inv_upd_rec; auto.
Qed.

Lemma inv_step e b o : Inv b -> Inv (fst (step pf e b o)).
Proof.
  intros I. destruct o; simpl.
  - assert (X := inv_vote e bl get b I). destruct (box_vote pf e bl get b) as [[b' v] d]. auto.
  - assert (X := inv_count e i elapsed pickvp pickex b I). destruct (box_count _ _ _ _ _ _ _) as [b' v]. auto.
  - assert (X := inv_held e i elapsed pickvp pickex b I). destruct (box_held _ _ _ _ _ _) as [b' v]. auto.
  - unfold box_forward. destruct (vp_from_ballots _ _ _ _ _ _ _); auto.
  - apply inv_box_set_last; auto.
  - apply (inv_clean b I).
  - destruct I as [K L R RM P LR LP RP PZ NX]. constructor; auto.
Qed.

Lemma inv_run e ops : forall b, Inv b -> Inv (fst (run pf e b ops)).
Proof.
  induction ops as [|o ops IH]; intros b I; simpl; auto.
  assert (X := inv_step e b o I). destruct (step pf e b o) as [b1 x].
  assert (Y := IH b1 X). destruct (run pf e b1 ops) as [b2 xs]. auto.
Qed.

(* ---------------------------------------------------------------- isolation: the frame of a step *)

Definition about (o : op) (k : key) (i : nat) : Prop :=
  match o with
  | OVote bl _ => mkkey (pf_new pf) (is_sc (sf_fact (b_sf bl))) (f_sp (sf_fact (b_sf bl))) = k
  | OCount j _ _ _ => j = i
  | OHeld j _ _ _ => j = i
  | _ => False
  end.

Definition kept_or_released (b b' : box) (k : key) (i : nat) : Prop :=
  (kget k (bx_vrs b') = Some i /\ rec_of b' i = rec_of b i) \/
  (kget k (bx_vrs b') = None /\ exists l, bx_last b' = Some l /\ sp_lt (snd k) (lp_sp l) = true).

Lemma frame_clean b k i :
  Inv b -> kget k (bx_vrs b) = Some i -> kept_or_released b (box_clean pf b) k i.
Proof.
  intros I G. assert (H := inv_clean b I). cbv zeta in H.
  destruct H as [I' [L [_ [RL [_ [_ [_ M]]]]]]].
  assert (IN := kget_In _ _ _ G).
  destruct (bx_last b) as [l|] eqn:LAST.
  - destruct M as [_ [KEEP [REL _]]].
    destruct (sp_lt (snd k) (lp_sp l)) eqn:E.
    + right. split; [apply (REL _ _ IN E)|]. exists l. rewrite L. auto.
    + left. split.
      * apply (i_keys _ I'). apply KEEP; auto.
      * apply RL. eapply live_In; eauto.
  - destruct M as [V _]. left. split.
    + rewrite V. auto.
    + apply RL. eapply live_In; eauto.
Qed.

Lemma kept_upd_other b k i j r :
  i <> j -> kget k (bx_vrs b) = Some i ->
  kget k (bx_vrs (upd_rec j r b)) = Some i /\ rec_of (upd_rec j r b) i = rec_of b i.
Proof.
  intros N G. split; auto. rewrite rec_of_upd.
  destruct (Nat.eqb i j) eqn:E; auto. apply Nat.eqb_eq in E. contradiction.
Qed.

Lemma frame_step e b o k i :
  Inv b -> kget k (bx_vrs b) = Some i -> ~ about o k i ->
  kept_or_released b (fst (step pf e b o)) k i.
Proof.
  intros I G NA. destruct o; simpl in *.
  - (* vote for another key *)
    unfold box_vote.
    destruct (b_full bl && negb (check_ballot e b bl)); [left; auto|].
    destruct (negb (is_new_ballot b _ _)); [left; auto|].
    destruct (box_new_rec pf _ _ get b) as [b1 j] eqn:N.
    destruct (new_rec_spec _ _ _ _ _ _ I N) as [I1 [G1 [_ [_ [_ [_ [OTH [KOTH _]]]]]]]].
    destruct (rec_vote _ (bx_last b1) bl (rget j (bx_recs b1))) as [[r' v] w] eqn:V. simpl.
    assert (NK : k <> mkkey (pf_new pf) (is_sc (sf_fact (b_sf bl))) (f_sp (sf_fact (b_sf bl)))) by congruence.
    assert (GK : kget k (bx_vrs b1) = Some i) by (rewrite KOTH; auto).
    assert (NE : i <> j).
    { intros E. subst j. apply kget_In in GK. apply kget_In in G1.
      assert (X : (k, i) = (mkkey (pf_new pf) (is_sc (sf_fact (b_sf bl))) (f_sp (sf_fact (b_sf bl))), i)).
      { apply (NoDup_map_inj snd (bx_vrs b1)); auto. apply (i_live _ I1). }
      inversion X. contradiction. }
    left. destruct (kept_upd_other b1 k i j r' NE GK) as [A B]. split; auto.
    rewrite B. apply OTH; auto.
  - (* count of another record *)
    unfold box_count.
    destruct (r_sp (rget i0 (bx_recs b))) as [sp|] eqn:S; [|left; auto].
    destruct (negb (is_new_ballot b sp _)); [left; auto|].
    destruct (rec_count e (bx_known b) (bx_last b) (en_th e) elapsed pickvp pickex (rget i0 (bx_recs b))) as [r' vps] eqn:C.
    apply rec_count_hdr in C. destruct C as [C1 C2].
    assert (NE : i <> i0) by (intros E; apply NA; auto).
    destruct (kept_upd_other b k i i0 r' NE G) as [A B].
    destruct (rev _) as [|lastvp t]; [left; auto|]. simpl.
    set (b2 := box_set_last_vp lastvp (upd_rec i0 r' b)).
    assert (I2 : Inv b2).
    { unfold b2, box_set_last_vp. apply inv_box_set_last. apply inv_upd_rec; auto. }
    assert (G2 : kget k (bx_vrs b2) = Some i /\ rec_of b2 i = rec_of b i).
    { unfold b2, box_set_last_vp, box_set_last. destruct (before _ _ _); auto. }
    destruct G2 as [G2 R2].
    destruct (frame_clean b2 k i I2 G2) as [[X Y]|X]; [left|right]; auto.
    split; auto. congruence.
  - unfold box_held.
    destruct (negb (r_hold _)); [left; auto|]. destruct (negb elapsed); [left; auto|].
    destruct (rec_count _ _ _ _ _ _ _ _) as [r' vps] eqn:C. simpl.
    assert (NE : i <> i0) by (intros E; apply NA; auto).
    left. apply kept_upd_other; auto.
  - unfold box_forward. destruct (vp_from_ballots _ _ _ _ _ _ _); left; auto.
  - left. unfold box_set_last. destruct (before _ _ _); auto.
  - apply frame_clean; auto.
  - left; auto.
Qed.
End Own.

(* ---------------------------------------------------------------- a passed stage point is not consulted *)

(* voterecords.count does nothing for a record whose stage point the last point has moved past: no voteproof, no
   change of the record (the guard "!last.Before(vr.sp, vr.isc)" of count(); countHolded() reaches count() without
   the isNewBallot() check of countVoterecords()) *)
Lemma rec_count_passed e known last th el pv px r sp :
  r_sp r = Some sp -> before last sp (r_isc r) = false ->
  rec_count e known last th el pv px r = (r, []).
Proof. intros S B. unfold rec_count. rewrite S, B. reflexivity. Qed.

Lemma count_passed pf e i el pv px b sp :
  r_sp (rec_of b i) = Some sp -> bx_last b <> None -> before (bx_last b) sp (r_isc (rec_of b i)) = false ->
  box_count pf e i el pv px b = (b, []).
Proof.
  intros S L B. unfold rec_of in *. unfold box_count. rewrite S.
  unfold is_new_ballot. destruct (bx_last b) as [l|] eqn:E; [|contradiction]. rewrite B. reflexivity.
Qed.

Lemma held_passed e i el pv px b sp :
  r_sp (rec_of b i) = Some sp -> before (bx_last b) sp (r_isc (rec_of b i)) = false ->
  snd (box_held e i el pv px b) = [] /\ forall j, rec_of (fst (box_held e i el pv px b)) j = rec_of b j.
Proof.
  intros S B. unfold rec_of in S, B. unfold box_held.
  destruct (negb (r_hold _)); [split; auto|]. destruct (negb el); [split; auto|].
  rewrite (rec_count_passed e (bx_known b) (bx_last b) _ el pv px _ sp S B). cbn [fst snd]. split; auto.
  intros j. rewrite rec_of_upd. destruct (Nat.eqb j i) eqn:X; auto. apply Nat.eqb_eq in X; subst. reflexivity.
Qed.
