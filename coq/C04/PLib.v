(* C04 -- lemmas about the association lists and small helpers of the model. *)
From Coq Require Import ZArith List Bool String Lia.
From MV Require Import C04.Model.
Import ListNotations.
Open Scope Z_scope.

Lemma stage_eqb_eq a b : stage_eqb a b = true <-> a = b.
Proof. destruct a, b; simpl; split; intro; try discriminate; auto. Qed.

Lemma sp_eqb_eq a b : sp_eqb a b = true <-> a = b.
Proof.
  destruct a as [h r s], b as [h' r' s']; unfold sp_eqb, pt_eqb; simpl.
  rewrite !andb_true_iff, !Z.eqb_eq, stage_eqb_eq. split.
  - intros [[-> ->] ->]; reflexivity.
  - intros H; inversion H; auto.
Qed.

Lemma sp_eqb_refl a : sp_eqb a a = true.
Proof. apply sp_eqb_eq; reflexivity. Qed.

Lemma key_eqb_eq (a b : key) : key_eqb a b = true <-> a = b.
Proof.
  destruct a as [p s], b as [p' s']; unfold key_eqb; simpl.
  rewrite andb_true_iff, String.eqb_eq, sp_eqb_eq. split.
  - intros [-> ->]; reflexivity.
  - intros H; inversion H; auto.
Qed.

Lemma key_eqb_refl a : key_eqb a a = true.
Proof. apply key_eqb_eq; reflexivity. Qed.

Lemma key_eqb_neq (a b : key) : key_eqb a b = false <-> a <> b.
Proof.
  split; intros H.
  - intros E. apply key_eqb_eq in E. congruence.
  - destruct (key_eqb a b) eqn:E; auto. apply key_eqb_eq in E. contradiction.
Qed.

(* ---------------------------------------------------------------- kget / kdel *)

Lemma kget_In k m i : kget k m = Some i -> In (k, i) m.
Proof.
  induction m as [|[k' v] m IH]; simpl; intros H; [discriminate|].
  destruct (key_eqb k k') eqn:E.
  - apply key_eqb_eq in E; subst. inversion H; auto.
  - right; auto.
Qed.

Lemma kget_None k m : kget k m = None <-> (forall i, ~ In (k, i) m).
Proof.
  induction m as [|[k' v] m IH]; simpl.
  - split; auto.
  - destruct (key_eqb k k') eqn:E.
    + apply key_eqb_eq in E; subst. split; [discriminate|]. intros H. exfalso. apply (H v); auto.
    + apply key_eqb_neq in E. rewrite IH. split; intros H i.
      * intros [X|X]; [inversion X; subst; contradiction| apply (H i X)].
      * intros X. apply (H i); auto.
Qed.

Lemma kget_app k m1 m2 :
  kget k (m1 ++ m2) = match kget k m1 with Some i => Some i | None => kget k m2 end.
Proof.
  induction m1 as [|[k' v] m IH]; simpl; auto.
  destruct (key_eqb k k'); auto.
Qed.

Lemma kget_filter_keep k m (P : key * nat -> bool) :
  (forall i, P (k, i) = true) -> kget k (filter P m) = kget k m.
Proof.
  intros HP. induction m as [|[k' v] m IH]; simpl; auto.
  destruct (P (k', v)) eqn:E; simpl.
  - destruct (key_eqb k k'); auto.
  - destruct (key_eqb k k') eqn:E2; auto.
    apply key_eqb_eq in E2; subst. rewrite HP in E. discriminate.
Qed.

Lemma In_kdel k kv m : In kv (kdel k m) <-> In kv m /\ fst kv <> k.
Proof.
  unfold kdel. rewrite filter_In. split; intros [H1 H2]; split; auto.
  - apply negb_true_iff, key_eqb_neq in H2. auto.
  - apply negb_true_iff, key_eqb_neq. auto.
Qed.

(* ---------------------------------------------------------------- rget / rset *)

Lemma rget_rset_same i r m : rget i (rset i r m) = r.
Proof. unfold rset; simpl. rewrite Nat.eqb_refl. reflexivity. Qed.

Lemma rget_filter_other i j m :
  i <> j -> rget i (filter (fun kv => negb (Nat.eqb j (fst kv))) m) = rget i m.
Proof.
  intros N. induction m as [|[j' r] m IH]; simpl; auto.
  destruct (Nat.eqb j j') eqn:E; simpl.
  - apply Nat.eqb_eq in E; subst. destruct (Nat.eqb i j') eqn:E2; auto.
    apply Nat.eqb_eq in E2; subst; contradiction.
  - destruct (Nat.eqb i j'); auto.
Qed.

Lemma rget_rset_other i j r m : i <> j -> rget i (rset j r m) = rget i m.
Proof.
  intros N. unfold rset; simpl.
  destruct (Nat.eqb i j) eqn:E; [apply Nat.eqb_eq in E; contradiction|].
  apply rget_filter_other; auto.
Qed.

Lemma rget_rset i j r m : rget i (rset j r m) = if Nat.eqb i j then r else rget i m.
Proof.
  destruct (Nat.eqb i j) eqn:E.
  - apply Nat.eqb_eq in E; subst. apply rget_rset_same.
  - apply rget_rset_other. intros X; subst. rewrite Nat.eqb_refl in E; discriminate.
Qed.

(* ---------------------------------------------------------------- nmem / nremove1 *)

Lemma nmem_In i l : nmem i l = true <-> In i l.
Proof.
  unfold nmem. rewrite existsb_exists. split.
  - intros [x [H E]]. apply Nat.eqb_eq in E; subst; auto.
  - intros H. exists i; split; auto. apply Nat.eqb_refl.
Qed.

Lemma In_nremove1 x i l : In x (nremove1 i l) -> In x l.
Proof.
  induction l as [|j l IH]; simpl; auto.
  destruct (Nat.eqb i j); simpl; auto. intros [H|H]; auto.
Qed.

Lemma NoDup_nremove1 i l : NoDup l -> NoDup (nremove1 i l) /\ ~ In i (nremove1 i l).
Proof.
  induction l as [|j l IH]; simpl; intros H.
  - split; auto.
  - inversion H; subst. destruct (Nat.eqb i j) eqn:E.
    + apply Nat.eqb_eq in E; subst. auto.
    + destruct (IH H3) as [A B]. split.
      * constructor; auto. intros X. apply H2. eapply In_nremove1; eauto.
      * simpl. intros [X|X]; auto. subst. rewrite Nat.eqb_refl in E; discriminate.
Qed.

(* ---------------------------------------------------------------- zmem / znodup / aget *)

Lemma zmem_In x l : zmem x l = true <-> In x l.
Proof.
  unfold zmem. rewrite existsb_exists. split.
  - intros [y [H E]]. apply Z.eqb_eq in E; subst; auto.
  - intros H. exists x; split; auto. apply Z.eqb_refl.
Qed.

Lemma znodup_NoDup l : znodup l = true <-> NoDup l.
Proof.
  induction l as [|x l IH]; simpl.
  - split; auto. constructor.
  - rewrite andb_true_iff, negb_true_iff, IH. split.
    + intros [A B]. constructor; auto. intros X. apply zmem_In in X. congruence.
    + intros H; inversion H; subst. split; auto.
      destruct (zmem x l) eqn:E; auto. apply zmem_In in E. contradiction.
Qed.

Lemma aget_In {A} k (m : list (Z * A)) v : aget k m = Some v -> In (k, v) m.
Proof.
  induction m as [|[k' v'] m IH]; simpl; intros H; [discriminate|].
  destruct (k =? k') eqn:E.
  - apply Z.eqb_eq in E; subst. inversion H; auto.
  - auto.
Qed.

Lemma aget_None_notin {A} k (m : list (Z * A)) : aget k m = None -> ~ In k (map fst m).
Proof.
  induction m as [|[k' v'] m IH]; simpl; intros H; auto.
  destruct (k =? k') eqn:E; [discriminate|].
  apply Z.eqb_neq in E. intros [X|X]; auto.
  apply IH in H. contradiction.
Qed.

Lemma ahas_false_notin {A} k (m : list (Z * A)) : ahas k m = false -> ~ In k (map fst m).
Proof.
  unfold ahas. destruct (aget k m) eqn:E; [discriminate|]. intros _. apply aget_None_notin; auto.
Qed.

Lemma In_adel {A} k (kv : Z * A) m : In kv (adel k m) <-> In kv m /\ fst kv <> k.
Proof.
  unfold adel. rewrite filter_In. split; intros [H1 H2]; split; auto.
  - apply negb_true_iff, Z.eqb_neq in H2. auto.
  - apply negb_true_iff, Z.eqb_neq. auto.
Qed.

Lemma In_aset {A} k (v : A) m kv : In kv (aset k v m) <-> (In kv m /\ fst kv <> k) \/ kv = (k, v).
Proof.
  unfold aset. rewrite in_app_iff, In_adel. simpl. split.
  - intros [H|[H|[]]]; auto.
  - intros [H|H]; auto.
Qed.

Lemma NoDup_map_filter {A B} (f : A -> B) (P : A -> bool) l : NoDup (map f l) -> NoDup (map f (filter P l)).
Proof.
  induction l as [|x l IH]; simpl; intros H; auto.
  inversion H; subst. destruct (P x); simpl; auto.
  constructor; auto. intros X. apply H2.
  apply in_map_iff in X. destruct X as [y [E Y]]. apply filter_In in Y. destruct Y as [Y _].
  apply in_map_iff. exists y; auto.
Qed.

Lemma NoDup_app_disj {A} (l1 l2 : list A) :
  NoDup l1 -> NoDup l2 -> (forall x, In x l1 -> ~ In x l2) -> NoDup (l1 ++ l2).
Proof.
  induction l1 as [|x l1 IH]; simpl; intros H1 H2 H; auto.
  inversion H1; subst. constructor.
  - rewrite in_app_iff. intros [X|X]; auto. apply (H x); auto.
  - apply IH; auto.
Qed.

Lemma NoDup_keys_aset {A} k (v : A) m : NoDup (map fst m) -> NoDup (map fst (aset k v m)).
Proof.
  intros H. unfold aset. rewrite map_app. simpl.
  apply NoDup_app_disj.
  - unfold adel. apply NoDup_map_filter; auto.
  - constructor; auto. constructor.
  - intros x X [E|[]]. subst. apply in_map_iff in X. destruct X as [kv [E X]].
    apply In_adel in X. destruct X as [_ X]. congruence.
Qed.

Lemma mkkey_inj pfx a b p q : pfx <> EmptyString -> mkkey pfx a p = mkkey pfx b q -> a = b /\ p = q.
Proof.
  unfold mkkey. intros N H. inversion H; subst. split; auto.
  destruct a, b; auto; congruence.
Qed.

Arguments rset : simpl never.
Arguments kdel : simpl never.
Arguments aset : simpl never.
Arguments adel : simpl never.
