(* C04 -- lemmas about the ballotbox model. *)
From Coq Require Import ZArith List Bool String Lia.
From MV Require Import C04.Model.
From MV Require Gen.C04.
Import ListNotations.
Open Scope Z_scope.

Lemma consts_ok : Gen.C04.max_threshold10 = 1000 /\ pf_get pfx = pf_new pfx /\ pf_new pfx = pf_clean pfx.
Proof. repeat split; reflexivity. Qed.
