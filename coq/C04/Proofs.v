(* C04 -- the theorems about the ballotbox model, instantiated with the constants regenerated from the Go source. *)
From Coq Require Import ZArith List Bool String Lia.
From MV Require Import C04.Model C04.PLib C04.POwn C04.PSound C04.PStep C04.PThresh.
From MV Require Gen.C04.
Import ListNotations.
Open Scope Z_scope.

Lemma consts_ok :
  Gen.C04.max_threshold10 = 1000 /\ pf_get pfx = pf_new pfx /\ pf_clean pfx = pf_new pfx /\ pf_new pfx <> EmptyString.
Proof. repeat split; try reflexivity. discriminate. Qed.

Definition Hnc4 : pf_clean pfx = pf_new pfx := proj1 (proj2 (proj2 consts_ok)).
Definition Hne4 : pf_new pfx <> EmptyString := proj2 (proj2 (proj2 consts_ok)).

(* the sign facts handed to Vote / VoteSignFact, and the voteproofs that came embedded in ballots *)
Definition voted_sfs (ops : list op) : list signfact :=
  flat_map (fun o => match o with OVote bl _ => [b_sf bl] | _ => [] end) ops.
Definition embedded (ops : list op) : list vproof :=
  flat_map (fun o => match o with
                     | OVote bl _ => match b_vp bl with Some v => [v] | None => [] end
                     | OForward _ v => [v]
                     | _ => []
                     end) ops.

(* what Ballot.IsValid(networkID) guarantees about the ballots handed to Vote: no expel target twice, a ballot with
   expels carries a voteproof, the embedded voteproof is well formed (Voteproof.IsValid) *)
Definition input_ok (o : op) : Prop :=
  match o with
  | OVote bl _ => NoDup (map e_node (b_ex bl)) /\ (b_ex bl <> [] -> b_vp bl <> None) /\
                  (forall v, b_vp bl = Some v -> vp_wellformed v = true)
  | OForward _ v => vp_wellformed v = true
  | _ => True
  end.

Definition emitted (e : env) (ops : list op) (v : vproof) : Prop :=
  exists x, In x (snd (run pfx e box_init ops)) /\ In v (o_vps x).

Definition suffrage_of (e : env) (v : vproof) : option suffrage := aget (safe_prev (sp_h (v_sp v))) (en_sufs e).

Lemma emitted_ok e ops v :
  Forall input_ok ops -> emitted e ops v ->
  exists s, suffrage_of e v = Some s /\ vp_wellformed v = true /\ vp_valid_suf v s = true /\
            ((forall sf, In sf (v_sfs v) -> In sf (voted_sfs ops)) \/ In v (embedded ops)).
Proof.
  intros IN [x [X V]].
  set (Psf := fun sf => In sf (voted_sfs ops)). set (Pvp := fun v => In v (embedded ops)).
  assert (OK : Forall (op_ok Psf Pvp) ops).
  { apply Forall_forall. intros o O. rewrite Forall_forall in IN. specialize (IN o O).
    destruct o; simpl in *; auto.
    - destruct IN as [A [B C]]. unfold ballot_ok. split; [|split; [auto|split; auto]].
      + unfold Psf, voted_sfs. apply in_flat_map. exists (OVote bl get). split; simpl; auto.
      + intros v0 E. split; auto. unfold Pvp, embedded. apply in_flat_map. exists (OVote bl get).
        split; auto. rewrite E. simpl; auto.
    - split; auto. unfold Pvp, embedded. apply in_flat_map. exists (OForward i v0). split; simpl; auto. }
  destruct (run_ok pfx Hnc4 Hne4 e Psf Pvp ops box_init (ginv_init pfx e Psf Pvp) OK) as [_ R].
  destruct (R x X v V) as [s [A [B [C D]]]]. exists s. auto.
Qed.

Lemma emitted_point_voted e ops v :
  Forall input_ok ops -> emitted e ops v ->
  ((exists sf, In sf (v_sfs v)) /\
   forall sf, In sf (v_sfs v) -> In sf (voted_sfs ops) /\ f_sp (sf_fact sf) = v_sp v) \/
  In v (embedded ops).
Proof.
  intros IN EM. destruct (emitted_ok e ops v IN EM) as [s [_ [W [_ [P|P]]]]]; auto. left.
  destruct (wellformed_signers v W) as [_ [SP NE]]. split.
  - destruct (v_sfs v) as [|sf l]; [contradiction|]. exists sf; simpl; auto.
  - intros sf X. split; auto.
Qed.

Lemma emitted_signfacts e ops v :
  Forall input_ok ops -> emitted e ops v ->
  exists s, suffrage_of e v = Some s /\ NoDup (map sf_node (v_sfs v)) /\
            forall sf, In sf (v_sfs v) ->
              suf_exists_pub (sf_node sf) (sf_pub sf) s = true /\ f_sp (sf_fact sf) = v_sp v.
Proof.
  intros IN EM. destruct (emitted_ok e ops v IN EM) as [s [S [W [V _]]]]. exists s. split; auto.
  destruct (wellformed_signers v W) as [ND [SP _]]. split; auto.
  intros sf X. split; auto. eapply valid_members; eauto.
Qed.

Lemma emitted_recount e ops v :
  Forall input_ok ops -> emitted e ops v -> v_kind v <> VStuck ->
  exists s q th, suffrage_of e v = Some s /\ validator_count v s = Some (q, th) /\
                 result_matches (tally q th (sf_ids (v_sfs v))) (v_maj v).
Proof.
  intros IN EM K. destruct (emitted_ok e ops v IN EM) as [s [S [_ [V _]]]].
  destruct (valid_recount v s V K) as [q [th [A B]]]. exists s, q, th. auto.
Qed.

Lemma emitted_threshold e ops v : emitted e ops v -> en_th e <= v_th v.
Proof.
  intros [x [X V]]. eapply (run_th pfx e ops box_init (tinv_init e)); eauto.
Qed.

Lemma last_point_guarded e b o : last_guarded b (fst (step pfx e b o)).
Proof. apply step_last. Qed.

(* ---------------------------------------------------------------- non-vacuity: a concrete history *)

Definition x_sp : spoint := mkSP 33 0 INIT.
Definition x_env : env := mkEnv 0 670 [(32, [(0, 0); (1, 1); (2, 2)])].
Definition x_expel : expel := mkExpel 9 2 32 34 [(0, 0); (1, 1)].
Definition x_fact : fact := mkFact 1 x_sp KInit [9].
Definition x_prev : vproof :=
  mkVP 5 (mkSP 32 0 ACCEPT) 670 None [mkSF 0 0 (mkFact 7 (mkSP 32 0 ACCEPT) KAccept [])] [] VPlain.
Definition x_ballot (n : Z) : ballot := mkBallot (mkSF n n x_fact) (Some x_prev) [x_expel] true.
Definition x_ops : list op :=
  [OLearn 32; OVote (x_ballot 0) None; OVote (x_ballot 1) None; OCount 0 false None (Some 0)].

Lemma x_input_ok : Forall input_ok x_ops.
Proof.
  repeat constructor; simpl; auto; try (intros; discriminate);
    try (intros v H; inversion H; subst; reflexivity); try (intros [|]; contradiction).
Qed.

Lemma x_emits :
  exists v, emitted x_env x_ops v /\ v_kind v = VExpel /\ v_sp v = x_sp /\
            option_map f_id (v_maj v) = Some 1 /\ map sf_node (v_sfs v) = [0; 1].
Proof.
  eexists. split.
  - unfold emitted. eexists. split.
    + vm_compute. right. right. right. left. reflexivity.
    + simpl. left. reflexivity.
  - vm_compute. repeat split.
Qed.
