(* C04/C05 -- executable model of isaac/states/ballotbox.go (Ballotbox + voterecords), of the validator
   isaac.IsValidVoteproofWithSuffrage / base.IsValidVoteproof and of isaac/lastpoint.go.
   No proofs here.  Every definition cites the Go function it transcribes.

   Abstractions (see notes/C04.md): addresses, public keys, fact hashes and expel-fact hashes are opaque
   integers (equal hash <-> equal id); StagePoint.String() is injective, so a key is (prefix, stage point);
   signatures are not modelled (ballots are assumed to have passed Ballot.IsValid(networkID));
   wall-clock time is the boolean oracle [elapsed]; Go map iteration order and sync.Pool.Get are oracle
   arguments of the steps ([pickvp], [pickex], [get]). *)
From Coq Require Import ZArith List Bool String.
Import ListNotations.
Open Scope Z_scope.

(* ------------------------------------------------------------------ small helpers *)

Fixpoint aget {A} (k : Z) (m : list (Z * A)) : option A :=
  match m with
  | [] => None
  | (k', v) :: r => if k =? k' then Some v else aget k r
  end.
Definition adel {A} (k : Z) (m : list (Z * A)) : list (Z * A) :=
  filter (fun kv => negb (k =? fst kv)) m.
Definition aset {A} (k : Z) (v : A) (m : list (Z * A)) : list (Z * A) := adel k m ++ [(k, v)].
Definition ahas {A} (k : Z) (m : list (Z * A)) : bool := match aget k m with Some _ => true | None => false end.
Definition zmem (x : Z) (l : list Z) : bool := existsb (Z.eqb x) l.
Definition zlen {A} (l : list A) : Z := Z.of_nat (List.length l).
Definition is_some {A} (o : option A) : bool := match o with Some _ => true | None => false end.

Fixpoint zinsert (x : Z) (l : list Z) : list Z :=
  match l with [] => [x] | y :: r => if x <=? y then x :: l else y :: zinsert x r end.
Definition zsort (l : list Z) : list Z := fold_right zinsert [] l.
Fixpoint zlist_eqb (a b : list Z) : bool :=
  match a, b with
  | [], [] => true
  | x :: a', y :: b' => (x =? y) && zlist_eqb a' b'
  | _, _ => false
  end.
Fixpoint znodup (l : list Z) : bool :=
  match l with [] => true | x :: r => negb (zmem x r) && znodup r end.

(* ------------------------------------------------------------------ base/point.go, base/stage.go *)

Inductive stage := INIT | ACCEPT.
Definition stage_eqb (a b : stage) : bool :=
  match a, b with INIT, INIT | ACCEPT, ACCEPT => true | _, _ => false end.
(* statesmap: INIT 1, ACCEPT 3 *)
Definition stage_num (s : stage) : Z := match s with INIT => 1 | ACCEPT => 3 end.

Record spoint := mkSP { sp_h : Z; sp_r : Z; sp_s : stage }.
Definition pt_eqb (a b : spoint) : bool := (sp_h a =? sp_h b) && (sp_r a =? sp_r b).
Definition sp_eqb (a b : spoint) : bool := pt_eqb a b && stage_eqb (sp_s a) (sp_s b).
(* Point.Compare / StagePoint.Compare *)
Definition pt_cmp (a b : spoint) : comparison :=
  match sp_h a ?= sp_h b with Eq => sp_r a ?= sp_r b | c => c end.
Definition sp_cmp (a b : spoint) : comparison :=
  match pt_cmp a b with Eq => stage_num (sp_s a) ?= stage_num (sp_s b) | c => c end.
Definition sp_lt (a b : spoint) : bool := match sp_cmp a b with Lt => true | _ => false end.

(* ------------------------------------------------------------------ isaac/lastpoint.go *)

Record lastpoint := mkLP { lp_sp : spoint; lp_maj : bool; lp_sc : bool }.

(* LastPoint.beforeSamePoint *)
Definition before_same (l : lastpoint) (p : spoint) (isc : bool) : bool :=
  if isc then negb (lp_sc l)
  else if negb (lp_maj l) then false
  else if stage_eqb (sp_s p) (sp_s (lp_sp l)) then false
  else true.
(* LastPoint.beforeNotSamePoint *)
Definition before_notsame (l : lastpoint) (p : spoint) (isc : bool) : bool :=
  if lp_maj l && (stage_num (sp_s p) <? stage_num (sp_s (lp_sp l))) then false
  else match sp_cmp p (lp_sp l) with
       | Gt => true
       | _ => if isc && negb (lp_maj l) then true else false
       end.
(* LastPoint.Before; None = the zero LastPoint *)
Definition before (last : option lastpoint) (p : spoint) (isc : bool) : bool :=
  match last with
  | None => true
  | Some l =>
      if negb (sp_h p =? sp_h (lp_sp l)) then sp_h (lp_sp l) <? sp_h p
      else if pt_eqb p (lp_sp l) && (stage_num (sp_s (lp_sp l)) <=? stage_num (sp_s p))
           then before_same l p isc
           else before_notsame l p isc
  end.
(* IsNewVoteproofbyPoint *)
Definition is_new_vp_by_point (last : option lastpoint) (p : spoint) (maj isc : bool) : bool :=
  before last p isc ||
  match last with
  | None => false
  | Some l => negb (lp_maj l) && maj && pt_eqb p (lp_sp l) && (stage_num (sp_s (lp_sp l)) <=? stage_num (sp_s p))
  end.

(* ------------------------------------------------------------------ ballots, facts, voteproofs *)

(* INITBallotFact / SuffrageConfirmBallotFact / ACCEPTBallotFact *)
Inductive fkind := KInit | KSC | KAccept.
Definition fkind_eqb (a b : fkind) : bool :=
  match a, b with KInit, KInit | KSC, KSC | KAccept, KAccept => true | _, _ => false end.
Definition kind_stage (k : fkind) : stage := match k with KAccept => ACCEPT | _ => INIT end.
(* f_id = the fact hash; f_ex = ExpelFacts() (hashes of expel facts) *)
Record fact := mkFact { f_id : Z; f_sp : spoint; f_kind : fkind; f_ex : list Z }.
Definition is_sc (f : fact) : bool := fkind_eqb (f_kind f) KSC.
Record signfact := mkSF { sf_node : Z; sf_pub : Z; sf_fact : fact }.
(* SuffrageExpelOperation: e_id = hash of the expel fact, e_node = expelled node, e_signs = NodeSigns (node, signer) *)
Record expel := mkExpel { e_id : Z; e_node : Z; e_start : Z; e_end : Z; e_signs : list (Z * Z) }.
Inductive vkind := VPlain | VExpel | VStuck.
Definition vkind_eqb (a b : vkind) : bool :=
  match a, b with VPlain, VPlain | VExpel, VExpel | VStuck, VStuck => true | _, _ => false end.
(* a finished voteproof; result = MAJORITY iff v_maj <> None, else DRAW.  v_tag identifies an embedded voteproof
   object (0 for voteproofs built by the ballotbox) *)
Record vproof := mkVP { v_tag : Z; v_sp : spoint; v_th : Z; v_maj : option fact; v_sfs : list signfact;
                        v_ex : list expel; v_kind : vkind }.
(* argument of Ballotbox.Vote (b_full = true; b_ex = Ballot.Expels()) or VoteSignFact (b_full = false) *)
Record ballot := mkBallot { b_sf : signfact; b_vp : option vproof; b_ex : list expel; b_full : bool }.

Definition suffrage := list (Z * Z).            (* (address, publickey) *)
Definition suf_exists (n : Z) (s : suffrage) : bool := existsb (fun x => fst x =? n) s.
Definition suf_exists_pub (n p : Z) (s : suffrage) : bool := existsb (fun x => (fst x =? n) && (snd x =? p)) s.

(* ------------------------------------------------------------------ base/threshold.go, base/vote.go *)

(* Threshold.Threshold (after fix fc2ac0f; th10 = tenths of a percent) *)
Definition thr (th10 n : Z) : Z := (n * th10 + 999) / 1000.

Inductive vresult := RNotYet | RDraw | RMaj (id : Z).
Definition count_id (x : Z) (l : list Z) : Z := zlen (filter (Z.eqb x) l).
(* the id with the largest count (first such in list order) and that count *)
Fixpoint max_count (ids all : list Z) : Z * Z :=
  match ids with
  | [] => (0, 0)
  | x :: r => let '(bx, bc) := max_count r all in
              let c := count_id x all in
              if bc <=? c then (x, c) else (bx, bc)
  end.
(* FindVoteResult/FindMajority, with the over-vote subtraction saturating (local tally: DRAW iff
   max_count + max(0, quorum - total) < threshold) *)
Definition tally (quorum threshold : Z) (ids : list Z) : vresult :=
  let th := Z.min threshold quorum in
  match ids with
  | [] => RNotYet
  | _ => let '(k, c) := max_count ids ids in
         if th <=? c then RMaj k
         else if c + Z.max 0 (quorum - zlen ids) <? th then RDraw
         else RNotYet
  end.

(* ------------------------------------------------------------------ isaac/suffrage_operation.go, isaac/suffrage.go *)

(* IsValidExpelWithSuffrage *)
Definition expel_valid (h : Z) (e : expel) (s : suffrage) : bool :=
  negb (e_end e <? h) && suf_exists (e_node e) s &&
  forallb (fun ns => suf_exists_pub (fst ns) (snd ns) s) (e_signs e).

(* NewSuffrageWithExpels; None = error *)
Definition suffrage_with_expels (s : suffrage) (th10 : Z) (ex : list expel) : option suffrage :=
  match ex with
  | [] => Some s
  | _ =>
      let n := zlen s in
      let k := zlen ex in
      let th := thr th10 n in
      if n <? k then None     (* uint wrap: no number of signs is enough *)
      else
        let th' := if n - th <? k then n - k else th in
        if negb (forallb (fun e => th' <=? zlen (e_signs e)) ex) then None
        else
          let f := filter (fun x => negb (existsb (fun e => e_node e =? fst x) ex)) s in
          match f with [] => None | _ => Some f end
  end.

(* ------------------------------------------------------------------ the validator *)

Definition sf_ids (sfs : list signfact) : list Z := map (fun sf => f_id (sf_fact sf)) sfs.
Definition find_fact (id : Z) (sfs : list signfact) : option fact :=
  match find (fun sf => f_id (sf_fact sf) =? id) sfs with Some sf => Some (sf_fact sf) | None => None end.

(* base.IsValidVoteproofWithSuffrage *)
Definition base_valid_suf (v : vproof) (rs : suffrage) (th10 : Z) : bool :=
  forallb (fun sf => suf_exists_pub (sf_node sf) (sf_pub sf) rs) (v_sfs v) &&
  (if vkind_eqb (v_kind v) VStuck then true
   else match tally (zlen rs) (thr th10 (zlen rs)) (sf_ids (v_sfs v)), v_maj v with
        | RDraw, None => true
        | RMaj id, Some m => f_id m =? id
        | _, _ => false
        end).

(* isaac.IsValidVoteproofWithSuffrage *)
Definition vp_valid_suf (v : vproof) (s : suffrage) : bool :=
  match v_ex v with
  | [] => (if vkind_eqb (v_kind v) VStuck then zlen s =? zlen (v_sfs v) else true) &&
          base_valid_suf v s (v_th v)
  | ex =>
      forallb (fun e => expel_valid (sp_h (v_sp v)) e s) ex &&
      match suffrage_with_expels s (v_th v) ex with
      | None => false
      | Some rs =>
          (if vkind_eqb (v_kind v) VStuck then zlen s =? zlen (v_sfs v) + zlen ex else true) &&
          base_valid_suf v rs 1000
      end
  end.

(* the structural part of Voteproof.IsValid(networkID) (base.IsValidVoteproof, baseExpelVoteproof.isValid):
   signatures, hints, ids and threshold range are not modelled *)
Definition vp_wellformed (v : vproof) : bool :=
  negb (match v_sfs v with [] => true | _ => false end) &&
  znodup (map sf_node (v_sfs v)) &&
  forallb (fun sf => sp_eqb (f_sp (sf_fact sf)) (v_sp v)) (v_sfs v) &&
  match v_maj v with
  | None => true
  | Some m => sp_eqb (f_sp m) (v_sp v) && zmem (f_id m) (sf_ids (v_sfs v))
  end &&
  match v_kind v with
  | VPlain => match v_ex v with [] => true | _ => false end
  | VExpel | VStuck =>
      negb (match v_ex v with [] => true | _ => false end) &&
      znodup (map e_node (v_ex v)) &&
      forallb (fun sf => negb (zmem (sf_node sf) (map e_node (v_ex v)))) (v_sfs v) &&
      (if vkind_eqb (v_kind v) VStuck then negb (is_some (v_maj v))   (* fd2029f: a stuck voteproof is a draw *)
       else match v_maj v with
            | Some m => match f_ex m with [] => true | fx => zlist_eqb fx (map e_id (v_ex v)) end
            | None => true
            end)
  end.

(* ------------------------------------------------------------------ voterecords *)

(* r_sp = None: the zero stage point of a pooled record.  r_hold: countAfter is set. *)
Record rec := mkRec { r_sp : option spoint; r_isc : bool;
                      r_voted : list (Z * signfact); r_ballots : list (Z * signfact);
                      r_vps : list (Z * vproof); r_ex : list (Z * list expel);
                      r_vp : option vproof; r_hold : bool; r_lastth : Z }.
Definition rec_zero : rec := mkRec None false [] [] [] [] None false 0.

Definition set_voted v (r : rec) := mkRec (r_sp r) (r_isc r) v (r_ballots r) (r_vps r) (r_ex r) (r_vp r) (r_hold r) (r_lastth r).
Definition set_ballots v (r : rec) := mkRec (r_sp r) (r_isc r) (r_voted r) v (r_vps r) (r_ex r) (r_vp r) (r_hold r) (r_lastth r).
Definition set_vps v (r : rec) := mkRec (r_sp r) (r_isc r) (r_voted r) (r_ballots r) v (r_ex r) (r_vp r) (r_hold r) (r_lastth r).
Definition set_ex v (r : rec) := mkRec (r_sp r) (r_isc r) (r_voted r) (r_ballots r) (r_vps r) v (r_vp r) (r_hold r) (r_lastth r).
Definition set_vp v (r : rec) := mkRec (r_sp r) (r_isc r) (r_voted r) (r_ballots r) (r_vps r) (r_ex r) v (r_hold r) (r_lastth r).
Definition set_hold h t (r : rec) := mkRec (r_sp r) (r_isc r) (r_voted r) (r_ballots r) (r_vps r) (r_ex r) (r_vp r) h t.

(* newVoterecords: countAfter / lastthreshold are NOT reset *)
Definition rec_init (p : spoint) (isc : bool) (r : rec) : rec :=
  mkRec (Some p) isc [] [] [] [] None (r_hold r) (r_lastth r).
(* voterecordsPoolPut: vp, isc, countAfter, lastthreshold are NOT reset *)
Definition rec_pooled (r : rec) : rec :=
  mkRec None (r_isc r) [] [] [] [] (r_vp r) (r_hold r) (r_lastth r).

(* voterecords.isVoted *)
Definition is_voted (n : Z) (r : rec) : bool := ahas n (r_vps r) || ahas n (r_ballots r) || ahas n (r_voted r).

(* isValidBallotWithSuffrage (voterecords.isValidBallot) *)
Definition ballot_valid_suf (sf : signfact) (ex : list expel) (s : suffrage) : bool :=
  suf_exists_pub (sf_node sf) (sf_pub sf) s &&
  forallb (fun e => expel_valid (sp_h (f_sp (sf_fact sf))) e s) ex.

(* the part of voterecords.vote that records the embedded voteproof and the expels of the ballot of node n *)
Definition recorded (n : Z) (b : ballot) (r : rec) : rec :=
  let r1 := match b_vp b with Some v => set_vps (aset n v (r_vps r)) r | None => r end in
  match b_ex b with [] => r1 | ex => set_ex (aset n ex (r_ex r1)) r1 end.

(* voterecords.vote; [suf] = vr.getSuffrage() (None: not found).  Returns (record, voted, validated). *)
Definition rec_vote (suf : option suffrage) (last : option lastpoint) (b : ballot) (r : rec) : rec * bool * bool :=
  match r_sp r with
  | None => (r, false, false)
  | Some sp =>
      let n := sf_node (b_sf b) in
      if negb (before last sp (r_isc r)) then (r, false, false)
      else if is_some (r_vp r) then (r, false, false)
      else if is_voted n r then (r, false, false)
      else
        match suf with
        | Some s =>
            if negb (ballot_valid_suf (b_sf b) (b_ex b) s) then (r, false, false)
            else let r2 := recorded n b r in (set_voted (aset n (b_sf b) (r_voted r2)) r2, true, true)
        | None =>
            let r2 := recorded n b r in (set_ballots (aset n (b_sf b) (r_ballots r2)) r2, true, false)
        end
  end.

(* isNewVoteproofWithSuffrageConfirmFunc *)
Definition vp_is_maj (v : vproof) : bool := is_some (v_maj v).
Definition vp_is_sc (v : vproof) : bool := match v_maj v with Some m => is_sc m | None => false end.
Definition is_new_vp (last : option lastpoint) (v : vproof) : bool :=
  is_new_vp_by_point last (v_sp v) (vp_is_maj v) (vp_is_sc v).
Definition last_is_maj (last : option lastpoint) : bool := match last with Some l => lp_maj l | None => false end.
Definition is_new_vp_sc (isc : bool) (last : option lastpoint) (v : vproof) : bool :=
  is_new_vp last v || (isc && negb (last_is_maj last)).

(* environment: suffrage by height (getSuffrage), and which heights are known so far *)
Record env := mkEnv { en_local : Z; en_th : Z; en_sufs : list (Z * suffrage) }.
Definition get_suf (e : env) (known : list Z) (h : Z) : option suffrage :=
  if zmem h known then aget h (en_sufs e) else None.
(* Height.SafePrev (GenesisHeight = 0) *)
Definition safe_prev (h : Z) : Z := if h <=? 0 then 0 else h - 1.

(* voterecords.voteproofFromBallots; filter given as a function *)
Definition vp_from_ballots (e : env) (known : list Z) (r : rec) (filter : option lastpoint -> vproof -> bool)
           (last : option lastpoint) (th10 : Z) (v : vproof) : bool :=
  if is_some (r_vp r) then false
  else if negb (filter last v) then false
  else if v_th v <? th10 then false
  else match get_suf e known (safe_prev (sp_h (v_sp v))) with
       | None => false
       | Some s => vp_valid_suf v s
       end.

(* voterecords.countFromBallots *)
Definition count_from_ballots (s : suffrage) (r : rec) : rec :=
  let ok := filter (fun kv => ballot_valid_suf (snd kv) (match aget (sf_node (snd kv)) (r_ex r) with Some x => x | None => [] end) s)
                   (r_ballots r) in
  set_ballots [] (set_voted (fold_left (fun m kv => aset (sf_node (snd kv)) (snd kv) m) ok (r_voted r)) r).

(* isExpelsOfBallotFact *)
Definition expels_of_fact (m : fact) (ex : list expel) : bool :=
  match f_ex m with [] => true | fx => zlist_eqb fx (map e_id ex) end.

(* extractExpelsFromBallot + one iteration of the loop of countWithExpels (after the fix: the validator's rule).
   [n] is the node whose ballot carries the expels.  Result: (sign facts, majority, expels) *)
Definition expel_candidate (local : Z) (s : suffrage) (th10 : Z) (r : rec) (n : Z)
  : option (list signfact * option fact * list expel) :=
  match aget n (r_voted r), aget n (r_ex r) with
  | Some _, Some ex =>
      match ex with
      | [] => None
      | _ =>
          if zmem local (map e_node ex) then None
          else
            let wsfs := filter (fun sf => negb (zmem (sf_node sf) (map e_node ex))) (map snd (r_voted r)) in
            match suffrage_with_expels s th10 ex with
            | None => None
            | Some rs =>
                let q := zlen rs in
                if zlen wsfs <? thr 1000 q then None
                else match tally q (thr 1000 q) (sf_ids wsfs) with
                     | RNotYet => None
                     | RDraw => None   (* countFromVoted: "case majority == nil: expelsnotyet = found" *)
                     | RMaj id =>
                         (* isExpelsOfBallotFact: the majority must have been voted with these expels *)
                         match find_fact id wsfs with
                         | Some m => if expels_of_fact m ex then Some (wsfs, Some m, ex) else None
                         | None => None
                         end
                     end
            end
      end
  | _, _ => None
  end.
(* len(sortBallotSignFactsByExpels(...)) >= 1 *)
Definition has_expel_candidates (local : Z) (r : rec) : bool :=
  existsb (fun kv => match aget (fst kv) (r_ex r) with
                     | Some (e :: ex) => negb (zmem local (map e_node (e :: ex)))
                     | _ => false
                     end) (r_voted r).

(* voterecords.newVoteproof *)
Definition new_vp (sp : spoint) (sfs : list signfact) (maj : option fact) (th10 : Z) (ex : list expel) : vproof :=
  mkVP 0 sp th10 maj sfs ex (match ex with [] => VPlain | _ => VExpel end).

(* voterecords.countFromVoted.  [pickex]: the node whose expels the Go loop settled on (None: no candidate used);
   [elapsed]: not time.Now().Before(countAfter + d). *)
Definition count_from_voted (local : Z) (th10 : Z) (s : suffrage) (elapsed : bool) (pickex : option Z)
           (sp : spoint) (r : rec) : rec * option vproof :=
  match r_voted r with
  | [] => (r, None)
  | _ =>
      let cand := match pickex with Some n => expel_candidate local s th10 r n | None => None end in
      match cand with
      | Some (wsfs, maj, ex) =>
          let v := new_vp sp wsfs maj th10 ex in (set_vp (Some v) r, Some v)
      | None =>
          let sfs := map snd (r_voted r) in
          let emit maj := let v := new_vp sp sfs maj th10 [] in (set_vp (Some v) r, Some v) in
          match tally (zlen s) (thr th10 (zlen s)) (sf_ids sfs) with
          | RDraw =>
              if has_expel_candidates local r && stage_eqb (sp_s sp) INIT && (negb (r_hold r) || negb elapsed)
              then (set_hold true th10 r, None)
              else emit None
          | RMaj id => emit (find_fact id sfs)
          | RNotYet => (r, None)
          end
      end
  end.

(* voterecords.count.  [pickvp]: node whose embedded voteproof the Go loop of voteproofFromBallot settled on *)
Definition rec_count (e : env) (known : list Z) (last : option lastpoint) (th10 : Z) (elapsed : bool)
           (pickvp pickex : option Z) (r : rec) : rec * list vproof :=
  match r_sp r with
  | None => (r, [])
  | Some sp =>
      if negb (before last sp (r_isc r)) then (r, [])
      else if is_some (r_vp r) then (r, [])
      else if match r_voted r, r_ballots r with [], [] => true | _, _ => false end then (r, [])
      else
        let fwd := match pickvp with
                   | Some n => match aget n (r_vps r) with
                               | Some v => if vp_from_ballots e known r (is_new_vp_sc (r_isc r)) last th10 v then [v] else []
                               | None => []
                               end
                   | None => []
                   end in
        match get_suf e known (safe_prev (sp_h sp)) with
        | None => (r, fwd)
        | Some s =>
            let r1 := match r_ballots r with [] => r | _ => count_from_ballots s r end in
            match count_from_voted (en_local e) th10 s elapsed pickex sp r1 with
            | (r2, Some v) => (set_hold false (r_lastth r2) r2, fwd ++ [v])
            | (r2, None) => (r2, fwd)
            end
        end
  end.

(* ------------------------------------------------------------------ Ballotbox *)

(* key of vrs: StagePoint.String() with a prefix for suffrage-confirm records.  The three prefixes are the string
   literals of Ballotbox.voterecords, Ballotbox.newVoterecords and Ballotbox.clean (regenerated in Gen). *)
Record prefixes := mkPfx { pf_get : string; pf_new : string; pf_clean : string }.
Definition key := (string * spoint)%type.
Definition mkkey (pfx : string) (isc : bool) (p : spoint) : key := (if isc then pfx else EmptyString, p).
Definition key_eqb (a b : key) : bool := String.eqb (fst a) (fst b) && sp_eqb (snd a) (snd b).

Record box := mkBox { bx_last : option lastpoint; bx_vrs : list (key * nat); bx_recs : list (nat * rec);
                      bx_removed : list nat; bx_pool : list nat; bx_next : nat; bx_known : list Z }.
Definition box_init : box := mkBox None [] [] [] [] 0 [].

Fixpoint kget (k : key) (m : list (key * nat)) : option nat :=
  match m with [] => None | (k', v) :: r => if key_eqb k k' then Some v else kget k r end.
Definition kdel (k : key) (m : list (key * nat)) : list (key * nat) := filter (fun kv => negb (key_eqb k (fst kv))) m.
Fixpoint rget (i : nat) (m : list (nat * rec)) : rec :=
  match m with [] => rec_zero | (j, r) :: t => if Nat.eqb i j then r else rget i t end.
Definition rset (i : nat) (r : rec) (m : list (nat * rec)) : list (nat * rec) :=
  (i, r) :: filter (fun kv => negb (Nat.eqb i (fst kv))) m.
Definition nmem (i : nat) (l : list nat) : bool := existsb (Nat.eqb i) l.
Fixpoint nremove1 (i : nat) (l : list nat) : list nat :=
  match l with [] => [] | j :: r => if Nat.eqb i j then r else j :: nremove1 i r end.

Definition set_last v (b : box) := mkBox v (bx_vrs b) (bx_recs b) (bx_removed b) (bx_pool b) (bx_next b) (bx_known b).
Definition set_recs v (b : box) := mkBox (bx_last b) (bx_vrs b) v (bx_removed b) (bx_pool b) (bx_next b) (bx_known b).
Definition upd_rec (i : nat) (r : rec) (b : box) := set_recs (rset i r (bx_recs b)) b.

(* Ballotbox.SetLastPoint *)
Definition box_set_last (l : lastpoint) (b : box) : box :=
  if before (bx_last b) (lp_sp l) (lp_sc l) then set_last (Some l) b else b.
(* NewLastPointFromVoteproof + SetLastPoint *)
Definition box_set_last_vp (v : vproof) (b : box) : box :=
  box_set_last (mkLP (v_sp v) (vp_is_maj v) (vp_is_sc v)) b.

(* Ballotbox.isNewBallot *)
Definition is_new_ballot (b : box) (p : spoint) (isc : bool) : bool :=
  match bx_last b with None => true | l => before l p isc end.

(* Ballotbox.newVoterecords (+ newVoterecords, sync.Pool.Get as the oracle [get]) *)
Definition box_new_rec (pf : prefixes) (p : spoint) (isc : bool) (get : option nat) (b : box) : box * nat :=
  let k := mkkey (pf_new pf) isc p in
  match kget k (bx_vrs b) with
  | Some i => (b, i)
  | None =>
      let '(i, pool, next) :=
        match get with
        | Some i => if nmem i (bx_pool b) then (i, nremove1 i (bx_pool b), bx_next b)
                    else (bx_next b, bx_pool b, S (bx_next b))
        | None => (bx_next b, bx_pool b, S (bx_next b))
        end in
      (mkBox (bx_last b) (bx_vrs b ++ [(k, i)]) (rset i (rec_init p isc (rget i (bx_recs b))) (bx_recs b))
             (bx_removed b) pool next (bx_known b), i)
  end.

(* Ballotbox.checkBallot *)
Definition check_ballot (e : env) (b : box) (bl : ballot) : bool :=
  let p := f_sp (sf_fact (b_sf bl)) in
  (match get_suf e (bx_known b) (safe_prev (sp_h p)) with
   | Some s => suf_exists (sf_node (b_sf bl)) s
   | None => true
   end) &&
  (match b_vp bl with Some v => negb (zmem (en_local e) (map e_node (v_ex v))) | None => true end) &&
  negb (zmem (en_local e) (map e_node (b_ex bl))).

(* what Ballotbox.vote hands to a goroutine *)
Inductive deferred := DNone | DCount (i : nat) | DForward (i : nat) (v : vproof).

(* Ballotbox.Vote / VoteSignFact up to the goroutines: checkBallot, isNewBallot, newVoterecords, voterecords.vote *)
Definition box_vote (pf : prefixes) (e : env) (bl : ballot) (get : option nat) (b : box) : box * bool * deferred :=
  if b_full bl && negb (check_ballot e b bl) then (b, false, DNone)
  else
    let f := sf_fact (b_sf bl) in
    if negb (is_new_ballot b (f_sp f) (is_sc f)) then (b, false, DNone)
    else
      let '(b1, i) := box_new_rec pf (f_sp f) (is_sc f) get b in
      let r := rget i (bx_recs b1) in
      let suf := match r_sp r with Some sp => get_suf e (bx_known b1) (safe_prev (sp_h sp)) | None => None end in
      let '(r', voted, validated) := rec_vote suf (bx_last b1) bl r in
      (upd_rec i r' b1, voted,
       if validated then DCount i
       else match b_vp bl with Some v => DForward i v | None => DNone end).

(* Ballotbox.clean *)
Definition box_clean (pf : prefixes) (b : box) : box :=
  let recs1 := fold_left (fun m i => rset i (rec_pooled (rget i m)) m) (bx_removed b) (bx_recs b) in
  let pool1 := bx_pool b ++ bx_removed b in
  match bx_last b with
  | None => mkBox (bx_last b) (bx_vrs b) recs1 [] pool1 (bx_next b) (bx_known b)
  | Some l =>
      let old := filter (fun kv => match r_sp (rget (snd kv) recs1) with
                                   | Some sp => sp_lt sp (lp_sp l)
                                   | None => sp_lt (mkSP (-1) 0 INIT) (lp_sp l)   (* ZeroStagePoint compares below *)
                                   end) (bx_vrs b) in
      let removed := map snd old in
      let vrs1 := fold_left (fun m i =>
                    let r := rget i recs1 in
                    match r_sp r with
                    | Some sp => kdel (mkkey (pf_clean pf) (r_isc r) sp) m
                    | None => m
                    end) removed (bx_vrs b) in
      mkBox (bx_last b) vrs1 recs1 removed pool1 (bx_next b) (bx_known b)
  end.

(* Ballotbox.countVoterecords on the record object [i] (possibly a stale pointer) *)
Definition box_count (pf : prefixes) (e : env) (i : nat) (elapsed : bool) (pickvp pickex : option Z) (b : box)
  : box * list vproof :=
  let r := rget i (bx_recs b) in
  match r_sp r with
  | None => (b, [])      (* ZeroStagePoint: isNewBallot may pass, count() returns nil *)
  | Some sp =>
      if negb (is_new_ballot b sp (r_isc r)) then (b, [])
      else
        let '(r', vps) := rec_count e (bx_known b) (bx_last b) (en_th e) elapsed pickvp pickex r in
        let b1 := upd_rec i r' b in
        let filtered := match bx_last b1 with
                        | None => vps
                        | l => filter (is_new_vp_sc (r_isc r') l) vps
                        end in
        match rev filtered with
        | [] => (b1, [])
        | lastvp :: _ => (box_clean pf (box_set_last_vp lastvp b1), filtered)
        end
  end.

(* one iteration of Ballotbox.countHoldeds (voterecords.countHolded): no filter, no last point, no clean *)
Definition box_held (e : env) (i : nat) (elapsed : bool) (pickvp pickex : option Z) (b : box) : box * list vproof :=
  let r := rget i (bx_recs b) in
  if negb (r_hold r) then (b, [])
  else if negb elapsed then (b, [])
  else let '(r', vps) := rec_count e (bx_known b) (bx_last b) (r_lastth r) elapsed pickvp pickex r in
       (upd_rec i r' b, vps).

(* the goroutine of Ballotbox.vote for a ballot that was not validated: voteproofFromBallotsLocked *)
Definition box_forward (e : env) (i : nat) (v : vproof) (b : box) : box * list vproof :=
  let r := rget i (bx_recs b) in
  if vp_from_ballots e (bx_known b) r is_new_vp (bx_last b) (en_th e) v then (b, [v]) else (b, []).

(* Ballotbox.Voted for all nodes: addresses that voted (validated) for the stage point *)
Definition box_voted (pf : prefixes) (p : spoint) (b : box) : list Z :=
  match kget (mkkey (pf_get pf) false p) (bx_vrs b) with
  | Some i => zsort (map fst (r_voted (rget i (bx_recs b))))
  | None => []
  end.

(* ------------------------------------------------------------------ atomic steps *)

Inductive op :=
| OVote (bl : ballot) (get : option nat)
| OCount (i : nat) (elapsed : bool) (pickvp pickex : option Z)
| OHeld (i : nat) (elapsed : bool) (pickvp pickex : option Z)
| OForward (i : nat) (v : vproof)
| OSetLast (l : lastpoint)
| OClean
| OLearn (h : Z).

(* observable output of a step *)
Record out := mkOut { o_voted : bool; o_def : deferred; o_vps : list vproof }.

Definition step (pf : prefixes) (e : env) (b : box) (o : op) : box * out :=
  match o with
  | OVote bl get => let '(b', v, d) := box_vote pf e bl get b in (b', mkOut v d [])
  | OCount i el pv px => let '(b', vps) := box_count pf e i el pv px b in (b', mkOut false DNone vps)
  | OHeld i el pv px => let '(b', vps) := box_held e i el pv px b in (b', mkOut false DNone vps)
  | OForward i v => let '(b', vps) := box_forward e i v b in (b', mkOut false DNone vps)
  | OSetLast l => (box_set_last l b, mkOut false DNone [])
  | OClean => (box_clean pf b, mkOut false DNone [])
  | OLearn h => (mkBox (bx_last b) (bx_vrs b) (bx_recs b) (bx_removed b) (bx_pool b) (bx_next b) (h :: bx_known b),
                 mkOut false DNone [])
  end.

Fixpoint run (pf : prefixes) (e : env) (b : box) (ops : list op) : box * list out :=
  match ops with
  | [] => (b, [])
  | o :: r => let '(b1, x) := step pf e b o in
              let '(b2, xs) := run pf e b1 r in (b2, x :: xs)
  end.

(* ------------------------------------------------------------------ correspondence cases (decoding + comparison) *)
From MV Require Import Common.Cases.

Definition csf := (Z * Z * nat)%type.       (* node, publickey, index of the fact *)
Record cvp := mkCVP { c_sp : spoint; c_th : Z; c_maj : option nat; c_sfs : list csf; c_ex : list nat; c_kind : vkind }.
Record tabs := mkTabs { t_facts : list fact; t_expels : list expel; t_vps : list cvp }.

Definition fact0 : fact := mkFact 0 (mkSP 0 0 INIT) KInit [].
Definition expel0 : expel := mkExpel 0 0 0 0 [].
Definition dfact (t : tabs) (i : nat) : fact := nth i (t_facts t) fact0.
Definition dexpel (t : tabs) (i : nat) : expel := nth i (t_expels t) expel0.
Definition dsf (t : tabs) (c : csf) : signfact := let '(n, p, i) := c in mkSF n p (dfact t i).
Definition dvp (t : tabs) (i : nat) : vproof :=
  match nth_error (t_vps t) i with
  | Some c => mkVP (Z.of_nat (S i)) (c_sp c) (c_th c) (option_map (dfact t) (c_maj c)) (map (dsf t) (c_sfs c))
                   (map (dexpel t) (c_ex c)) (c_kind c)
  | None => mkVP (-1) (mkSP 0 0 INIT) 0 None [] [] VPlain
  end.

Inductive cop :=
| CVote (sf : csf) (vp : option nat) (ex : list nat) (full : bool) (get : option nat)
| CCount (i : nat) (el : bool) (pv px : option Z)
| CHeld (i : nat) (el : bool) (pv px : option Z)
| CForward (i : nat) (vp : nat)
| CSetLast (l : lastpoint)
| CClean
| CLearn (h : Z).

Definition dop (t : tabs) (c : cop) : op :=
  match c with
  | CVote sf vp ex full get => OVote (mkBallot (dsf t sf) (option_map (dvp t) vp) (map (dexpel t) ex) full) get
  | CCount i el pv px => OCount i el pv px
  | CHeld i el pv px => OHeld i el pv px
  | CForward i vp => OForward i (dvp t vp)
  | CSetLast l => OSetLast l
  | CClean => OClean
  | CLearn h => OLearn h
  end.

(* observation of an emitted voteproof: embedded ones by tag only *)
Record vobs := mkVO { vo_tag : Z; vo_sp : spoint; vo_th : Z; vo_maj : option Z; vo_sfs : list (Z * Z);
                      vo_ex : list Z; vo_kind : vkind }.
Fixpoint pinsert (x : Z * Z) (l : list (Z * Z)) : list (Z * Z) :=
  match l with [] => [x] | y :: r => if fst x <=? fst y then x :: l else y :: pinsert x r end.
Definition psort (l : list (Z * Z)) : list (Z * Z) := fold_right pinsert [] l.
Definition vobs_of (v : vproof) : vobs :=
  if v_tag v =? 0
  then mkVO 0 (v_sp v) (v_th v) (option_map f_id (v_maj v))
            (psort (map (fun sf => (sf_node sf, f_id (sf_fact sf))) (v_sfs v))) (map e_id (v_ex v)) (v_kind v)
  else mkVO (v_tag v) (mkSP 0 0 INIT) 0 None [] [] VPlain.

Definition pair_eqb (a b : Z * Z) : bool := (fst a =? fst b) && (snd a =? snd b).
Definition vobs_eqb (a b : vobs) : bool :=
  (vo_tag a =? vo_tag b) && sp_eqb (vo_sp a) (vo_sp b) && (vo_th a =? vo_th b) &&
  option_eqb Z.eqb (vo_maj a) (vo_maj b) && list_eqb pair_eqb (vo_sfs a) (vo_sfs b) &&
  zlist_eqb (vo_ex a) (vo_ex b) && vkind_eqb (vo_kind a) (vo_kind b).
Definition lp_eqb (a b : lastpoint) : bool :=
  sp_eqb (lp_sp a) (lp_sp b) && Bool.eqb (lp_maj a) (lp_maj b) && Bool.eqb (lp_sc a) (lp_sc b).

(* observation of one live record *)
Record lobs := mkLO { lo_pfx : string; lo_key : spoint; lo_id : nat; lo_sp : option spoint; lo_isc : bool;
                      lo_nv : Z; lo_nb : Z; lo_nvp : Z; lo_nex : Z; lo_fin : bool; lo_hold : bool }.
Definition lobs_eqb (a b : lobs) : bool :=
  String.eqb (lo_pfx a) (lo_pfx b) && sp_eqb (lo_key a) (lo_key b) && Nat.eqb (lo_id a) (lo_id b) &&
  option_eqb sp_eqb (lo_sp a) (lo_sp b) && Bool.eqb (lo_isc a) (lo_isc b) &&
  (lo_nv a =? lo_nv b) && (lo_nb a =? lo_nb b) && (lo_nvp a =? lo_nvp b) && (lo_nex a =? lo_nex b) &&
  Bool.eqb (lo_fin a) (lo_fin b) && Bool.eqb (lo_hold a) (lo_hold b).
Definition lobs_of (b : box) (kv : key * nat) : lobs :=
  let r := rget (snd kv) (bx_recs b) in
  mkLO (fst (fst kv)) (snd (fst kv)) (snd kv) (r_sp r) (r_isc r) (zlen (r_voted r)) (zlen (r_ballots r))
       (zlen (r_vps r)) (zlen (r_ex r)) (is_some (r_vp r)) (r_hold r).

Fixpoint ninsert (x : nat) (l : list nat) : list nat :=
  match l with [] => [x] | y :: r => if Nat.leb x y then (if Nat.eqb x y then l else x :: l) else y :: ninsert x r end.
Definition nset (l : list nat) : list nat := fold_right ninsert [] l.

(* deferred: (0,_,_) none; (1, record, _) count; (2, record, tag) forward *)
Definition def_obs (d : deferred) : Z * nat * Z :=
  match d with DNone => (0, 0%nat, 0) | DCount i => (1, i, 0) | DForward i v => (2, i, v_tag v) end.
Definition def_eqb (a b : Z * nat * Z) : bool :=
  let '(k1, i1, t1) := a in let '(k2, i2, t2) := b in (k1 =? k2) && Nat.eqb i1 i2 && (t1 =? t2).

Record sobs := mkSO { so_voted : bool; so_def : bool; so_vps : list vobs; so_last : option lastpoint;
                      so_live : list lobs; so_removed : list nat; so_pool : list nat;
                      so_votedq : list (spoint * list Z) }.

Definition cmp4 (b : box) (o : out) (ob : sobs) : bool :=
  Bool.eqb (o_voted o) (so_voted ob) &&
  Bool.eqb (match o_def o with DNone => false | _ => true end) (so_def ob) &&
  list_eqb vobs_eqb (map vobs_of (o_vps o)) (so_vps ob) && option_eqb lp_eqb (bx_last b) (so_last ob).

Definition cmp5 (pf : prefixes) (b : box) (ob : sobs) : bool :=
  option_eqb lp_eqb (bx_last b) (so_last ob) &&
  Nat.eqb (List.length (bx_vrs b)) (List.length (so_live ob)) &&
  forallb (fun l => existsb (lobs_eqb l) (map (lobs_of b) (bx_vrs b))) (so_live ob) &&
  list_eqb Nat.eqb (nset (bx_removed b)) (nset (so_removed ob)) &&
  list_eqb Nat.eqb (nset (bx_pool b)) (nset (so_pool ob)) &&
  forallb (fun q => zlist_eqb (box_voted pf (fst q) b) (snd q)) (so_votedq ob).

Fixpoint check_steps (mode5 : bool) (pf : prefixes) (e : env) (t : tabs) (b : box) (steps : list (cop * sobs)) : bool :=
  match steps with
  | [] => true
  | (c, ob) :: r =>
      let '(b', o) := step pf e b (dop t c) in
      (if mode5 then cmp5 pf b' ob else cmp4 b' o ob) && check_steps mode5 pf e t b' r
  end.

(* index of the first step at which model and implementation differ (for debugging) *)
Fixpoint first_bad (mode5 : bool) (pf : prefixes) (e : env) (t : tabs) (b : box) (steps : list (cop * sobs)) (i : nat) : option nat :=
  match steps with
  | [] => None
  | (c, ob) :: r =>
      let '(b', o) := step pf e b (dop t c) in
      if (if mode5 then cmp5 pf b' ob else cmp4 b' o ob) then first_bad mode5 pf e t b' r (S i) else Some i
  end.

(* a case: one forced history (environment, tables, steps with the observation after each) and validator checks:
   (index of a voteproof of the table, height of the suffrage, what the real code said:
   Voteproof.IsValid(networkID) == nil, isaac.IsValidVoteproofWithSuffrage == nil) *)
Inductive case :=
| CaseHist (e : env) (t : tabs) (steps : list (cop * sobs)) (valids : list (nat * Z * bool * bool)).

(* the key prefix among the string literals of a function: the literal ending in "-" *)
Fixpoint last_char (s : string) : option Ascii.ascii :=
  match s with EmptyString => None | String c EmptyString => Some c | String _ r => last_char r end.
Definition prefix_of (l : list string) : string :=
  match find (fun s => match last_char s with Some c => Ascii.eqb c (Ascii.ascii_of_nat 45) | None => false end) l with
  | Some s => s
  | None => "?"%string
  end.

Definition check_valid (e : env) (t : tabs) (v : nat * Z * bool * bool) : bool :=
  let '(i, h, wf, valid) := v in
  match aget h (en_sufs e) with
  | Some s => Bool.eqb (vp_wellformed (dvp t i)) wf && Bool.eqb (vp_valid_suf (dvp t i) s) valid
  | None => false
  end.

Definition check_case (mode5 : bool) (pf : prefixes) (c : case) : bool :=
  match c with
  | CaseHist e t steps valids => check_steps mode5 pf e t box_init steps && forallb (check_valid e t) valids
  end.

(* the prefixes and constants of the current Go source (regenerated by the translator) *)
From MV Require Gen.C04.
Definition pfx_of (g n c : list string) : prefixes := mkPfx (prefix_of g) (prefix_of n) (prefix_of c).
Definition pfx : prefixes := pfx_of Gen.C04.bb_get_strings Gen.C04.bb_new_strings Gen.C04.bb_clean_strings.
(* C04: outputs of every step (Vote result, deferred, emitted voteproofs, last point) + validator cases *)
Definition check (c : case) : bool := check_case false pfx c.
