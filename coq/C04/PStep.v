(* C04 -- every atomic step keeps the invariants and emits only sound voteproofs. *)
From Coq Require Import ZArith List Bool String Lia PeanoNat.
From MV Require Import C04.Model C04.PLib C04.POwn C04.PSound.
Import ListNotations.
Open Scope Z_scope.

Section Step.
Variable pf : prefixes.
Hypothesis Hnc : pf_clean pf = pf_new pf.
Hypothesis Hne : pf_new pf <> EmptyString.
Variable e : env.
Variable Psf : signfact -> Prop.
Variable Pvp : vproof -> Prop.

Notation RInv := (RInv e Psf Pvp).
Notation suf_at := (suf_at e).

(* what every emitted voteproof satisfies: it passes the validator (structural part of IsValid and
   IsValidVoteproofWithSuffrage with the suffrage of its height), and it is made of sign facts given to Vote
   or is a voteproof that came embedded in a ballot *)
Definition vp_ok (v : vproof) : Prop :=
  exists s, suf_at (v_sp v) = Some s /\ vp_wellformed v = true /\ vp_valid_suf v s = true /\
            ((forall sf, In sf (v_sfs v) -> Psf sf) \/ Pvp v).

Definition op_ok (o : op) : Prop :=
  match o with
  | OVote bl _ => ballot_ok Psf Pvp bl
  | OForward _ v => Pvp v /\ vp_wellformed v = true
  | _ => True
  end.

Definition GInv (b : box) : Prop := Inv pf b /\ forall i, RInv (rec_of b i).

Lemma ginv_init : GInv box_init.
Proof. split; [apply inv_init|]. intros i. exact I. Qed.

Lemma get_suf_at known sp s : get_suf e known (safe_prev (sp_h sp)) = Some s -> suf_at sp = Some s.
Proof. unfold get_suf, PSound.suf_at. destruct (zmem _ known); [auto|discriminate]. Qed.

Lemma same_maps_rinv r r' :
  r_sp r' = r_sp r -> r_voted r' = r_voted r -> r_ballots r' = r_ballots r -> r_vps r' = r_vps r -> r_ex r' = r_ex r ->
  RInv r -> RInv r'.
Proof. intros A B C D E. unfold PSound.RInv. rewrite A, B, C, D, E. auto. Qed.

Lemma cfv_maps local th s el px sp r r' o :
  count_from_voted local th s el px sp r = (r', o) ->
  r_sp r' = r_sp r /\ r_voted r' = r_voted r /\ r_ballots r' = r_ballots r /\ r_vps r' = r_vps r /\ r_ex r' = r_ex r.
Proof.
  unfold count_from_voted. destruct (r_voted r) eqn:V; [intros H; inversion H; subst; auto 10|]. rewrite <- V.
  destruct (match px with Some n => expel_candidate local s th r n | None => None end) as [[[w m] ex]|].
  - intros H; inversion H; subst; simpl; auto 10.
  - destruct (tally _ _ _).
    + intros H; inversion H; subst; auto 10.
    + destruct (_ && _ && _); intros H; inversion H; subst; simpl; auto 10.
    + intros H; inversion H; subst; simpl; auto 10.
Qed.

Lemma vfb_ok known r filter last th v :
  vp_from_ballots e known r filter last th v = true ->
  exists s, suf_at (v_sp v) = Some s /\ vp_valid_suf v s = true.
Proof.
  unfold vp_from_ballots. destruct (is_some (r_vp r)); [discriminate|].
  destruct (negb (filter last v)); [discriminate|]. destruct (v_th v <? th); [discriminate|].
  destruct (get_suf e known _) as [s|] eqn:G; [|discriminate].
  intros H. exists s. split; auto. eapply get_suf_at; eauto.
Qed.

Lemma rec_count_ok known last th el pv px r r' vps :
  RInv r -> rec_count e known last th el pv px r = (r', vps) ->
  RInv r' /\ forall v, In v vps -> vp_ok v.
Proof.
  intros RI. unfold rec_count. destruct (r_sp r) as [sp|] eqn:S; [|intros H; inversion H; subst; split; auto; intros v []].
  destruct (negb (before last sp (r_isc r))); [intros H; inversion H; subst; split; auto; intros v []|].
  destruct (is_some (r_vp r)); [intros H; inversion H; subst; split; auto; intros v []|].
  destruct (match r_voted r, r_ballots r with [], [] => true | _, _ => false end);
    [intros H; inversion H; subst; split; auto; intros v []|].
  set (fwd := match pv with
              | Some n => match aget n (r_vps r) with
                          | Some v => if vp_from_ballots e known r (is_new_vp_sc (r_isc r)) last th v then [v] else []
                          | None => []
                          end
              | None => []
              end).
  assert (FWD : forall v, In v fwd -> vp_ok v).
  { intros v. unfold fwd. destruct pv as [n|]; [|intros []].
    destruct (aget n (r_vps r)) as [v0|] eqn:G; [|intros []].
    destruct (vp_from_ballots _ _ _ _ _ _ v0) eqn:F; [|intros []].
    intros [X|[]]. subst v0. apply vfb_ok in F. destruct F as [s [A B]].
    apply aget_In in G. unfold PSound.RInv in RI. rewrite S in RI. destruct RI as [_ [_ [_ [R4 _]]]].
    destruct (R4 _ _ G) as [P W]. exists s. auto. }
  destruct (get_suf e known (safe_prev (sp_h sp))) as [s|] eqn:G; [|intros H; inversion H; subst; auto].
  apply get_suf_at in G.
  set (r1 := match r_ballots r with [] => r | _ => count_from_ballots s r end).
  assert (R1 : RInv r1 /\ r_sp r1 = Some sp).
  { unfold r1. destruct (r_ballots r); auto. split; [eapply rinv_cfb; eauto|]. unfold count_from_ballots; simpl; auto. }
  destruct R1 as [R1 S1].
  destruct (count_from_voted (en_local e) th s el px sp r1) as [r2 o] eqn:C.
  destruct (cfv_maps _ _ _ _ _ _ _ _ _ C) as [M1 [M2 [M3 [M4 M5]]]].
  assert (R2 : RInv r2) by (eapply same_maps_rinv; eauto).
  destruct o as [v|]; intros H; inversion H; subst r' vps; split.
  - eapply same_maps_rinv; [| | | | |exact R2]; reflexivity.
  - intros v' X. apply in_app_iff in X. destruct X as [X|[X|[]]]; auto. subst v'.
    destruct (cfv_sound e Psf Pvp _ _ _ _ _ _ _ _ _ R1 S1 G C) as [A [B [D E]]].
    exists s. rewrite A. auto.
  - auto.
  - auto.
Qed.

(* ---------------------------------------------------------------- box level *)

Lemma clean_recs b j :
  rec_of (box_clean pf b) j = rec_of b j \/ r_sp (rec_of (box_clean pf b) j) = None.
Proof.
  rewrite box_clean_unfold. cbv zeta.
  assert (X : rget j (pool_recs (bx_removed b) (bx_recs b)) = rget j (bx_recs b) \/
              r_sp (rget j (pool_recs (bx_removed b) (bx_recs b))) = None).
  { destruct (in_dec Nat.eq_dec j (bx_removed b)) as [Y|Y].
    - right. apply (pool_recs_spec (bx_removed b) (bx_recs b) j); auto.
    - left. apply (pool_recs_spec (bx_removed b) (bx_recs b) j); auto. }
  destruct (bx_last b); unfold rec_of; cbn [bx_recs]; exact X.
Qed.

Lemma ginv_clean b : GInv b -> GInv (box_clean pf b).
Proof.
  intros [IV R]. split; [apply (inv_clean pf Hnc b IV)|].
  intros j. destruct (clean_recs b j) as [X|X].
  - rewrite X. auto.
  - unfold PSound.RInv. rewrite X. exact Logic.I.
Qed.

Lemma ginv_upd b i r :
  GInv b -> r_sp r = r_sp (rec_of b i) -> r_isc r = r_isc (rec_of b i) -> RInv r -> GInv (upd_rec i r b).
Proof.
  intros [I R] A B C. split; [apply inv_upd_rec; auto|].
  intros j. rewrite rec_of_upd. destruct (Nat.eqb j i); auto.
Qed.

Lemma ginv_set_last b l : GInv b -> GInv (box_set_last l b).
Proof.
  intros [I R]. split; [apply inv_box_set_last; auto|].
  unfold box_set_last. destruct (before _ _ _); auto.
Qed.

Lemma step_ok b o :
  GInv b -> op_ok o ->
  GInv (fst (step pf e b o)) /\ forall v, In v (o_vps (snd (step pf e b o))) -> vp_ok v.
Proof.
  intros G OK. destruct o; simpl in *.
  - (* Vote *)
    unfold box_vote.
    destruct (b_full bl && negb (check_ballot e b bl)); [simpl; split; auto; intros v []|].
    destruct (negb (is_new_ballot b _ _)); [simpl; split; auto; intros v []|].
    destruct (box_new_rec pf _ _ get b) as [b1 i] eqn:N.
    destruct G as [I R].
    destruct (new_rec_spec pf Hne _ _ _ _ _ _ I N) as [I1 [G1 [S1 [C1 [L1 [K1 [OTH [_ [SAME NEW]]]]]]]]].
    assert (R1 : forall j, RInv (rec_of b1 j)).
    { intros j. destruct (kget (mkkey (pf_new pf) (is_sc (sf_fact (b_sf bl))) (f_sp (sf_fact (b_sf bl)))) (bx_vrs b)) as [i0|] eqn:KG.
      - unfold box_new_rec in N. rewrite KG in N. inversion N; subst. auto.
      - destruct (NEW eq_refl) as [X _]. destruct (Nat.eq_dec j i) as [E|E].
        + subst j. rewrite X. apply rinv_init.
        + rewrite OTH; auto. }
    fold (rec_of b1 i). rewrite S1.
    destruct (rec_vote _ (bx_last b1) bl (rec_of b1 i)) as [[r' v] w] eqn:V. simpl.
    split; [|intros v0 []].
    destruct (rec_vote_hdr _ _ _ _ _ _ _ V) as [H1 H2].
    apply ginv_upd; auto. { split; auto. }
    eapply (rinv_vote e Psf Pvp _ _ bl (rec_of b1 i) r' v w (f_sp (sf_fact (b_sf bl))));
      [apply R1 | exact S1 | reflexivity | exact OK | | exact V].
    intros s X. eapply get_suf_at; eauto.
  - (* countVoterecords *)
    unfold box_count.
    destruct (r_sp (rget i (bx_recs b))) as [sp|] eqn:S; [|simpl; split; auto; intros v []].
    destruct (negb (is_new_ballot b sp _)); [simpl; split; auto; intros v []|].
    destruct (rec_count e (bx_known b) (bx_last b) (en_th e) elapsed pickvp pickex (rget i (bx_recs b))) as [r' vps] eqn:C.
    destruct (rec_count_hdr _ _ _ _ _ _ _ _ _ _ C) as [C1 C2].
    destruct (rec_count_ok _ _ _ _ _ _ _ _ _ (proj2 G i) C) as [RR VOK].
    assert (G1 : GInv (upd_rec i r' b)) by (apply ginv_upd; auto).
    set (filtered := match bx_last (upd_rec i r' b) with
                     | None => vps
                     | l => filter (is_new_vp_sc (r_isc r') l) vps
                     end).
    assert (FOK : forall v, In v filtered -> vp_ok v).
    { intros v. unfold filtered. destruct (bx_last (upd_rec i r' b)); auto. intros X. apply filter_In in X. apply VOK; tauto. }
    destruct (rev filtered) as [|lastvp t] eqn:RV; simpl.
    + split; auto. intros v [].
    + split; auto. apply ginv_clean. apply ginv_set_last. auto.
  - (* countHolded *)
    unfold box_held.
    destruct (negb (r_hold _)); [simpl; split; auto; intros v []|].
    destruct (negb elapsed); [simpl; split; auto; intros v []|].
    destruct (rec_count _ _ _ _ _ _ _ _) as [r' vps] eqn:C. simpl.
    destruct (rec_count_hdr _ _ _ _ _ _ _ _ _ _ C) as [C1 C2].
    destruct (rec_count_ok _ _ _ _ _ _ _ _ _ (proj2 G i) C) as [RR VOK].
    split; auto. apply ginv_upd; auto.
  - (* forward *)
    unfold box_forward. destruct (vp_from_ballots _ _ _ _ _ _ _) eqn:F; simpl.
    + split; [exact G|]. intros v1 [X|[]]. subst v1. apply vfb_ok in F. destruct F as [s [A B]]. destruct OK as [P W].
      exists s. auto.
    + split; [exact G|]. intros v1 [].
  - split; [apply ginv_set_last; auto|intros v []].
  - split; [apply ginv_clean; auto|intros v []].
  - split; [|intros v []]. destruct G as [[K L R RM P LR LP RP PZ NX] RR]. split; [constructor; auto|auto].
Qed.

Lemma run_ok ops : forall b,
  GInv b -> Forall op_ok ops ->
  GInv (fst (run pf e b ops)) /\
  forall x, In x (snd (run pf e b ops)) -> forall v, In v (o_vps x) -> vp_ok v.
Proof.
  induction ops as [|o ops IH]; intros b G OK; simpl.
  - split; auto. intros x [].
  - inversion OK; subst. destruct (step_ok b o G H1) as [G1 V1].
    destruct (step pf e b o) as [b1 x1]. simpl in *.
    destruct (IH b1 G1 H2) as [G2 V2]. destruct (run pf e b1 ops) as [b2 xs]. simpl in *.
    split; auto. intros x [X|X]; [subst; auto|eauto].
Qed.
End Step.
