(* C04 -- soundness of the voteproofs emitted by the ballotbox model. *)
From Coq Require Import ZArith List Bool String Lia PeanoNat.
From MV Require Import C04.Model C04.PLib C04.POwn.
Import ListNotations.
Open Scope Z_scope.

(* ---------------------------------------------------------------- tally *)

Lemma zlen_nonneg {A} (l : list A) : 0 <= zlen l.
Proof. unfold zlen. lia. Qed.

Lemma count_id_nonneg x l : 0 <= count_id x l.
Proof. unfold count_id. apply zlen_nonneg. Qed.

Lemma max_count_in ids all : ids <> [] -> In (fst (max_count ids all)) ids.
Proof.
  induction ids as [|x r IH]; intros N; [contradiction|]. simpl.
  destruct (max_count r all) as [bx bc] eqn:M.
  destruct (bc <=? count_id x all) eqn:E; simpl; auto.
  right. destruct r as [|y r'].
  - simpl in M. inversion M; subst. apply Z.leb_gt in E. pose proof (count_id_nonneg x all). lia.
  - apply IH. discriminate.
Qed.

Lemma tally_maj_in q t ids k : tally q t ids = RMaj k -> In k ids.
Proof.
  unfold tally. destruct ids as [|x r]; [discriminate|].
  destruct (max_count (x :: r) (x :: r)) as [k' c] eqn:M.
  destruct (Z.min t q <=? c).
  - intros H; inversion H; subst. assert (X := max_count_in (x :: r) (x :: r)). rewrite M in X. apply X. discriminate.
  - destruct (_ <? _); discriminate.
Qed.

Lemma find_fact_in id sfs :
  In id (sf_ids sfs) -> exists m sf, find_fact id sfs = Some m /\ f_id m = id /\ In sf sfs /\ sf_fact sf = m.
Proof.
  unfold sf_ids, find_fact. intros H. apply in_map_iff in H. destruct H as [sf [E H]].
  destruct (find (fun sf0 => f_id (sf_fact sf0) =? id) sfs) as [sf'|] eqn:F.
  - apply find_some in F. destruct F as [F1 F2]. apply Z.eqb_eq in F2. exists (sf_fact sf'), sf'. auto.
  - exfalso. apply (find_none _ _ F) in H. rewrite E, Z.eqb_refl in H. discriminate.
Qed.

Lemma thr_max q : 0 <= q -> thr 1000 q = q.
Proof. intros H. unfold thr. symmetry. apply Z.div_unique with 999; lia. Qed.

(* ---------------------------------------------------------------- reduced suffrage *)

Definition not_expelled (ex : list expel) (x : Z * Z) : bool := negb (existsb (fun e => e_node e =? fst x) ex).

Lemma swe_some s th ex rs :
  suffrage_with_expels s th ex = Some rs ->
  (ex = [] /\ rs = s) \/ (ex <> [] /\ rs = filter (not_expelled ex) s /\ rs <> []).
Proof.
  unfold suffrage_with_expels. destruct ex as [|e ex]; [intros H; inversion H; auto|].
  destruct (zlen s <? zlen (e :: ex)); [discriminate|].
  destruct (negb (forallb _ (e :: ex))); [discriminate|].
  fold (not_expelled (e :: ex)).
  destruct (filter (not_expelled (e :: ex)) s) as [|a l] eqn:F; [discriminate|].
  intros H; inversion H; subst. right. split; [discriminate|]. split; auto. discriminate.
Qed.

Lemma suf_exists_pub_filter n p P s :
  suf_exists_pub n p (filter P s) = true -> suf_exists_pub n p s = true.
Proof.
  unfold suf_exists_pub. rewrite !existsb_exists. intros [x [H E]]. apply filter_In in H. exists x; tauto.
Qed.

Lemma suf_exists_pub_keep n p ex s :
  suf_exists_pub n p s = true -> zmem n (map e_node ex) = false ->
  suf_exists_pub n p (filter (not_expelled ex) s) = true.
Proof.
  unfold suf_exists_pub. rewrite !existsb_exists. intros [x [H E]] Z. exists x. split; auto.
  apply filter_In. split; auto. unfold not_expelled. apply negb_true_iff.
  apply andb_true_iff in E. destruct E as [E1 E2]. apply Z.eqb_eq in E1.
  destruct (existsb (fun e => e_node e =? fst x) ex) eqn:X; auto.
  apply existsb_exists in X. destruct X as [e [X1 X2]]. apply Z.eqb_eq in X2.
  assert (Y : zmem n (map e_node ex) = true).
  { apply zmem_In. apply in_map_iff. exists e. split; auto. congruence. }
  congruence.
Qed.

(* ---------------------------------------------------------------- consequences of validity (C04_signfacts_sound, C04_recount) *)

Lemma valid_members v s :
  vp_valid_suf v s = true -> forall sf, In sf (v_sfs v) -> suf_exists_pub (sf_node sf) (sf_pub sf) s = true.
Proof.
  unfold vp_valid_suf. intros H sf X. destruct (v_ex v) as [|e ex] eqn:EX.
  - apply andb_true_iff in H. destruct H as [_ H]. unfold base_valid_suf in H.
    apply andb_true_iff in H. destruct H as [H _]. rewrite forallb_forall in H. auto.
  - apply andb_true_iff in H. destruct H as [_ H].
    destruct (suffrage_with_expels s (v_th v) (e :: ex)) as [rs|] eqn:W; [|discriminate].
    apply andb_true_iff in H. destruct H as [_ H]. unfold base_valid_suf in H.
    apply andb_true_iff in H. destruct H as [H _]. rewrite forallb_forall in H.
    apply swe_some in W. destruct W as [[W _]|[_ [W _]]]; [discriminate|]. subst rs.
    eapply suf_exists_pub_filter. apply H. auto.
Qed.

Lemma wellformed_signers v :
  vp_wellformed v = true ->
  NoDup (map sf_node (v_sfs v)) /\ (forall sf, In sf (v_sfs v) -> f_sp (sf_fact sf) = v_sp v) /\ v_sfs v <> [].
Proof.
  unfold vp_wellformed. rewrite !andb_true_iff. intros [[[[A B] C] _] _].
  split; [apply znodup_NoDup; auto|]. split.
  - intros sf X. rewrite forallb_forall in C. apply sp_eqb_eq. auto.
  - destruct (v_sfs v); [discriminate|discriminate].
Qed.

(* the (quorum, threshold) the validator counts with *)
Definition validator_count (v : vproof) (s : suffrage) : option (Z * Z) :=
  match v_ex v with
  | [] => Some (zlen s, thr (v_th v) (zlen s))
  | ex => match suffrage_with_expels s (v_th v) ex with
          | Some rs => Some (zlen rs, thr 1000 (zlen rs))
          | None => None
          end
  end.

Definition result_matches (r : vresult) (maj : option fact) : Prop :=
  match r, maj with
  | RDraw, None => True
  | RMaj id, Some m => f_id m = id
  | _, _ => False
  end.

Lemma valid_recount v s :
  vp_valid_suf v s = true -> v_kind v <> VStuck ->
  exists q th, validator_count v s = Some (q, th) /\ result_matches (tally q th (sf_ids (v_sfs v))) (v_maj v).
Proof.
  unfold vp_valid_suf, validator_count. intros H NS.
  assert (K : vkind_eqb (v_kind v) VStuck = false) by (destruct (v_kind v); auto; contradiction).
  destruct (v_ex v) as [|e ex] eqn:EX.
  - apply andb_true_iff in H. destruct H as [_ H]. unfold base_valid_suf in H. rewrite K in H.
    apply andb_true_iff in H. destruct H as [_ H]. eexists; eexists; split; [reflexivity|].
    unfold result_matches. destruct (tally _ _ _), (v_maj v); try discriminate; auto. apply Z.eqb_eq; auto.
  - apply andb_true_iff in H. destruct H as [_ H].
    destruct (suffrage_with_expels s (v_th v) (e :: ex)) as [rs|]; [|discriminate].
    apply andb_true_iff in H. destruct H as [_ H]. unfold base_valid_suf in H. rewrite K in H.
    apply andb_true_iff in H. destruct H as [_ H]. eexists; eexists; split; [reflexivity|].
    unfold result_matches. destruct (tally _ _ _), (v_maj v); try discriminate; auto. apply Z.eqb_eq; auto.
Qed.

(* ---------------------------------------------------------------- association list facts *)

Lemma aget_app {A} k (m1 m2 : list (Z * A)) :
  aget k (m1 ++ m2) = match aget k m1 with Some v => Some v | None => aget k m2 end.
Proof. induction m1 as [|[k' v] m IH]; simpl; auto. destruct (k =? k'); auto. Qed.

Lemma aget_adel_same {A} k (m : list (Z * A)) : aget k (adel k m) = None.
Proof.
  unfold adel. induction m as [|[k' v] m IH]; simpl; auto.
  destruct (k =? k') eqn:E; simpl; auto. rewrite E. auto.
Qed.

Lemma aget_adel_other {A} k k' (m : list (Z * A)) : k <> k' -> aget k (adel k' m) = aget k m.
Proof.
  intros N. unfold adel. induction m as [|[k2 v] m IH]; simpl; auto.
  destruct (k' =? k2) eqn:E; simpl.
  - apply Z.eqb_eq in E; subst. destruct (k =? k2) eqn:E2; auto. apply Z.eqb_eq in E2. contradiction.
  - destruct (k =? k2); auto.
Qed.

Lemma aget_aset_same {A} k (v : A) m : aget k (aset k v m) = Some v.
Proof. unfold aset. rewrite aget_app, aget_adel_same. simpl. rewrite Z.eqb_refl. reflexivity. Qed.

Lemma aget_aset_other {A} k k' (v : A) m : k <> k' -> aget k (aset k' v m) = aget k m.
Proof.
  intros N. unfold aset. rewrite aget_app, aget_adel_other; auto.
  destruct (aget k m); auto. simpl. destruct (k =? k') eqn:E; auto. apply Z.eqb_eq in E. contradiction.
Qed.

Lemma ahas_aset_mono {A} k k' (v : A) m : ahas k m = true -> ahas k (aset k' v m) = true.
Proof.
  unfold ahas. destruct (Z.eq_dec k k') as [E|N].
  - subst. rewrite aget_aset_same. auto.
  - rewrite aget_aset_other; auto.
Qed.

Lemma ahas_aset_same {A} k (v : A) m : ahas k (aset k v m) = true.
Proof. unfold ahas. rewrite aget_aset_same. reflexivity. Qed.

Lemma ahas_In {A} k (m : list (Z * A)) : ahas k m = true <-> In k (map fst m).
Proof.
  unfold ahas. split.
  - destruct (aget k m) eqn:E; [|discriminate]. intros _. apply aget_In in E. apply in_map_iff. exists (k, a); auto.
  - intros H. destruct (aget k m) eqn:E; auto. apply aget_None_notin in E. contradiction.
Qed.

(* ---------------------------------------------------------------- the invariant of one record *)

Section Sound.
Variable e : env.
Variable Psf : signfact -> Prop.
Variable Pvp : vproof -> Prop.

Definition suf_at (sp : spoint) : option suffrage := aget (safe_prev (sp_h sp)) (en_sufs e).

Definition voted_ok (rex : list (Z * list expel)) (sp : spoint) (n : Z) (sf : signfact) : Prop :=
  sf_node sf = n /\ f_sp (sf_fact sf) = sp /\ Psf sf /\
  exists s, suf_at sp = Some s /\ suf_exists_pub n (sf_pub sf) s = true /\
            (forall ex, aget n rex = Some ex -> forallb (fun x => expel_valid (sp_h sp) x s) ex = true).

Definition RInv (r : rec) : Prop :=
  match r_sp r with
  | None => True
  | Some sp =>
      NoDup (map fst (r_voted r)) /\
      (forall n sf, In (n, sf) (r_voted r) -> voted_ok (r_ex r) sp n sf) /\
      (forall n sf, In (n, sf) (r_ballots r) -> sf_node sf = n /\ f_sp (sf_fact sf) = sp /\ Psf sf) /\
      (forall n v, In (n, v) (r_vps r) -> Pvp v /\ vp_wellformed v = true) /\
      (forall n ex, In (n, ex) (r_ex r) -> NoDup (map e_node ex)) /\
      (forall n, ahas n (r_ex r) = true -> ahas n (r_vps r) = true)
  end.

(* what a ballot handed to Vote must satisfy (consequences of Ballot.IsValid(networkID)) *)
Definition ballot_ok (bl : ballot) : Prop :=
  Psf (b_sf bl) /\ NoDup (map e_node (b_ex bl)) /\ (b_ex bl <> [] -> b_vp bl <> None) /\
  (forall v, b_vp bl = Some v -> Pvp v /\ vp_wellformed v = true).

Lemma rinv_zero : RInv rec_zero.
Proof. exact I. Qed.

Lemma rinv_init p isc r : RInv (rec_init p isc r).
Proof.
  unfold RInv, rec_init; simpl. repeat split; try (intros; contradiction); try constructor.
  intros n H; discriminate.
Qed.

Lemma rinv_pooled r : RInv (rec_pooled r).
Proof. exact I. Qed.

Lemma recorded_props n bl r :
  let r2 := recorded n bl r in
  r_sp r2 = r_sp r /\ r_isc r2 = r_isc r /\ r_voted r2 = r_voted r /\ r_ballots r2 = r_ballots r /\
  r_vps r2 = (match b_vp bl with Some v => aset n v (r_vps r) | None => r_vps r end) /\
  r_ex r2 = (match b_ex bl with [] => r_ex r | ex => aset n ex (r_ex r) end).
Proof. unfold recorded. destruct (b_vp bl), (b_ex bl); simpl; repeat split; auto. Qed.

Lemma rinv_vote suf last bl r r' v w sp :
  RInv r -> r_sp r = Some sp -> f_sp (sf_fact (b_sf bl)) = sp -> ballot_ok bl ->
  (forall s, suf = Some s -> suf_at sp = Some s) ->
  rec_vote suf last bl r = (r', v, w) -> RInv r'.
Proof.
  intros RI S FS [BP [BN [BX BV]]] SUF. unfold rec_vote. rewrite S.
  destruct (negb (before last sp (r_isc r))); [intros H; inversion H; subst; auto|].
  destruct (is_some (r_vp r)); [intros H; inversion H; subst; auto|].
  set (n := sf_node (b_sf bl)).
  destruct (is_voted n r) eqn:IV; [intros H; inversion H; subst; auto|].
  unfold is_voted in IV. apply orb_false_iff in IV. destruct IV as [IV NV].
  apply orb_false_iff in IV. destruct IV as [NVP NB].
  unfold RInv in RI. rewrite S in RI. destruct RI as [R1 [R2 [R3 [R4 [R5 R6]]]]].
  assert (NEX : aget n (r_ex r) = None).
  { destruct (aget n (r_ex r)) eqn:E; auto. assert (X : ahas n (r_ex r) = true) by (unfold ahas; rewrite E; auto).
    apply R6 in X. congruence. }
  destruct (recorded_props n bl r) as [P1 [P2 [P3 [P4 [P5 P6]]]]].
  set (r2 := recorded n bl r) in *.
  (* facts about the recorded maps *)
  assert (EXO : forall n', n' <> n -> aget n' (r_ex r2) = aget n' (r_ex r)).
  { intros n' N. rewrite P6. destruct (b_ex bl); auto. apply aget_aset_other; auto. }
  assert (EXN : forall ex, aget n (r_ex r2) = Some ex -> ex = b_ex bl).
  { intros ex. rewrite P6. destruct (b_ex bl) eqn:BE; [rewrite NEX; discriminate|].
    rewrite aget_aset_same. intros H; inversion H; auto. }
  assert (EXI : forall n' ex, In (n', ex) (r_ex r2) -> NoDup (map e_node ex)).
  { intros n' ex. rewrite P6. destruct (b_ex bl) eqn:BE; [apply R5|].
    intros H. apply In_aset in H. destruct H as [[H _]|H]; [eapply R5; eauto|]. inversion H; subst. auto. }
  assert (VPI : forall n' v', In (n', v') (r_vps r2) -> Pvp v' /\ vp_wellformed v' = true).
  { intros n' v'. rewrite P5. destruct (b_vp bl) eqn:BVP; [|apply R4].
    intros H. apply In_aset in H. destruct H as [[H _]|H]; [eapply R4; eauto|]. inversion H; subst. apply BV; auto. }
  assert (R6' : forall n', ahas n' (r_ex r2) = true -> ahas n' (r_vps r2) = true).
  { intros n'. rewrite P5, P6. destruct (b_ex bl) eqn:BE.
    - intros H. apply R6 in H. destruct (b_vp bl); auto. apply ahas_aset_mono; auto.
    - assert (BVN : b_vp bl <> None) by (apply BX; discriminate).
      destruct (b_vp bl) as [v0|]; [|contradiction].
      destruct (Z.eq_dec n' n) as [E|N].
      + subst. intros _. apply ahas_aset_same.
      + unfold ahas at 1. rewrite aget_aset_other; auto. intros H. apply ahas_aset_mono. apply R6. exact H. }
  assert (OLDV : forall n' sf, In (n', sf) (r_voted r) -> n' <> n).
  { intros n' sf H E. subst. apply ahas_false_notin in NV. apply NV. apply in_map_iff. exists (n, sf); auto. }
  destruct suf as [s|].
  - destruct (negb (ballot_valid_suf (b_sf bl) (b_ex bl) s)) eqn:BVS; [intros H; inversion H; subst; unfold RInv; rewrite S; auto 10|].
    apply negb_false_iff in BVS. unfold ballot_valid_suf in BVS. apply andb_true_iff in BVS. destruct BVS as [MEM EXV].
    intros H; inversion H; subst r' v w. unfold RInv. cbn [set_voted r_sp r_voted r_ballots r_vps r_ex].
    rewrite P1, S, P3, P4. split; [apply NoDup_keys_aset; auto|]. split; [|split; [auto|split; [auto|split; auto]]].
    intros n' sf H'. apply In_aset in H'. destruct H' as [[H' _]|H'].
    + assert (N := OLDV _ _ H'). destruct (R2 _ _ H') as [A [B [C [s' [D [E F]]]]]].
      repeat split; auto. exists s'. repeat split; auto. intros ex. rewrite EXO; auto.
    + inversion H'; subst n' sf. repeat split; auto. exists s. split; [apply SUF; auto|]. split; [exact MEM|].
      intros ex X. apply EXN in X. subst ex. rewrite FS in EXV. exact EXV.
  - intros H; inversion H; subst r' v w. unfold RInv. cbn [set_ballots r_sp r_voted r_ballots r_vps r_ex].
    rewrite P1, S, P3, P4. split; [auto|]. split; [|split; [|split; [auto|split; auto]]].
    + intros n' sf H'. assert (N := OLDV _ _ H'). destruct (R2 _ _ H') as [A [B [C [s' [D [E F]]]]]].
      repeat split; auto. exists s'. repeat split; auto. intros ex. rewrite EXO; auto.
    + intros n' sf H'. apply In_aset in H'. destruct H' as [[H' _]|H']; [eapply R3; eauto|].
      inversion H'; subst. auto.
Qed.

(* ---------------------------------------------------------------- countFromBallots *)

Lemma fold_aset_props (ok : list (Z * signfact)) : forall m,
  NoDup (map fst m) ->
  let m' := fold_left (fun m kv => aset (sf_node (snd kv)) (snd kv) m) ok m in
  NoDup (map fst m') /\
  (forall n sf, In (n, sf) m' -> In (n, sf) m \/ exists kv, In kv ok /\ n = sf_node (snd kv) /\ sf = snd kv).
Proof.
  induction ok as [|kv ok IH]; intros m ND; cbv zeta; simpl.
  - split; auto.
  - destruct (IH (aset (sf_node (snd kv)) (snd kv) m) (NoDup_keys_aset _ _ _ ND)) as [A B]. split; auto.
    intros n sf H. apply B in H. destruct H as [H|[kv' [H1 H2]]].
    + apply In_aset in H. destruct H as [[H _]|H]; auto. right. exists kv. inversion H; subst. auto.
    + right. exists kv'. tauto.
Qed.

Lemma rinv_cfb s r sp :
  RInv r -> r_sp r = Some sp -> suf_at sp = Some s -> RInv (count_from_ballots s r).
Proof.
  intros RI S SA. unfold RInv in *. rewrite S in RI. destruct RI as [R1 [R2 [R3 [R4 [R5 R6]]]]].
  unfold count_from_ballots. cbn [set_ballots set_voted r_sp r_voted r_ballots r_vps r_ex]. rewrite S.
  match goal with |- context [fold_left ?f ?ok (r_voted r)] => destruct (fold_aset_props ok (r_voted r) R1) as [A B] end.
  cbv zeta in A, B. split; [exact A|]. split; [|split; [intros n sf H; contradiction|auto]].
  intros n sf H. apply B in H. destruct H as [H|[kv [H1 [H2 H3]]]]; [apply R2; auto|].
  apply filter_In in H1. destruct H1 as [H1 V]. destruct kv as [n0 sf0]. simpl in *. subst n sf.
  destruct (R3 _ _ H1) as [N [F P]].
  unfold ballot_valid_suf in V. apply andb_true_iff in V. destruct V as [V1 V2].
  repeat split; auto. exists s. split; auto. split; auto.
  intros ex X. rewrite X in V2. rewrite F in V2. exact V2.
Qed.

(* ---------------------------------------------------------------- countFromVoted: what it emits is sound *)

Definition own_sound (sp : spoint) (s : suffrage) (v : vproof) : Prop :=
  v_sp v = sp /\ vp_wellformed v = true /\ vp_valid_suf v s = true /\ (forall sf, In sf (v_sfs v) -> Psf sf).

Lemma wf_intro v :
  v_sfs v <> [] -> NoDup (map sf_node (v_sfs v)) ->
  (forall sf, In sf (v_sfs v) -> f_sp (sf_fact sf) = v_sp v) ->
  match v_maj v with None => True | Some m => f_sp m = v_sp v /\ In (f_id m) (sf_ids (v_sfs v)) end ->
  match v_kind v with
  | VPlain => v_ex v = []
  | VExpel => v_ex v <> [] /\ NoDup (map e_node (v_ex v)) /\
              (forall sf, In sf (v_sfs v) -> ~ In (sf_node sf) (map e_node (v_ex v))) /\
              match v_maj v with Some m => expels_of_fact m (v_ex v) = true | None => True end
  | VStuck => False
  end ->
  vp_wellformed v = true.
Proof.
  intros H1 H2 H3 H4 H5. unfold vp_wellformed. rewrite !andb_true_iff. repeat split.
  - destruct (v_sfs v); auto.
  - apply znodup_NoDup; auto.
  - apply forallb_forall. intros sf X. apply sp_eqb_eq. auto.
  - destruct (v_maj v) as [m|]; auto. destruct H4 as [A B]. apply andb_true_iff. split.
    + apply sp_eqb_eq; auto.
    + apply zmem_In; auto.
  - destruct (v_kind v).
    + rewrite H5. reflexivity.
    + destruct H5 as [A [B [C D]]]. rewrite !andb_true_iff. repeat split.
      * destruct (v_ex v); auto.
      * apply znodup_NoDup; auto.
      * apply forallb_forall. intros sf X. apply negb_true_iff.
        destruct (zmem (sf_node sf) (map e_node (v_ex v))) eqn:E; auto. apply zmem_In in E. exfalso. eapply C; eauto.
      * simpl. destruct (v_maj v) as [m|]; auto.
    + contradiction.
Qed.

Lemma bvs_intro v rs th :
  v_kind v <> VStuck ->
  (forall sf, In sf (v_sfs v) -> suf_exists_pub (sf_node sf) (sf_pub sf) rs = true) ->
  result_matches (tally (zlen rs) (thr th (zlen rs)) (sf_ids (v_sfs v))) (v_maj v) ->
  base_valid_suf v rs th = true.
Proof.
  intros K M T. unfold base_valid_suf. apply andb_true_iff. split.
  - apply forallb_forall. auto.
  - destruct (v_kind v); try contradiction; simpl;
      unfold result_matches in T; destruct (tally _ _ _), (v_maj v); try contradiction; auto; apply Z.eqb_eq; auto.
Qed.

Lemma voted_facts r sp s :
  RInv r -> r_sp r = Some sp -> suf_at sp = Some s ->
  let sfs := map snd (r_voted r) in
  NoDup (map sf_node sfs) /\
  (forall sf, In sf sfs -> f_sp (sf_fact sf) = sp /\ Psf sf /\ suf_exists_pub (sf_node sf) (sf_pub sf) s = true /\
                           In (sf_node sf, sf) (r_voted r)).
Proof.
  intros RI S SA. unfold RInv in RI. rewrite S in RI. destruct RI as [R1 [R2 _]]. cbv zeta.
  assert (E : map sf_node (map snd (r_voted r)) = map fst (r_voted r)).
  { rewrite map_map. apply map_ext_in. intros [n sf] H. simpl. destruct (R2 _ _ H) as [A _]. auto. }
  split; [rewrite E; auto|].
  intros sf H. apply in_map_iff in H. destruct H as [[n sf'] [X H]]. simpl in X; subst sf'.
  destruct (R2 _ _ H) as [A [B [C [s' [D [F _]]]]]]. rewrite SA in D. inversion D; subst s'.
  subst n. repeat split; auto.
Qed.

Lemma maj_fact sfs id sp :
  (forall sf, In sf sfs -> f_sp (sf_fact sf) = sp) -> In id (sf_ids sfs) ->
  exists m, find_fact id sfs = Some m /\ f_id m = id /\ f_sp m = sp.
Proof.
  intros H X. destruct (find_fact_in id sfs X) as [m [sf [A [B [C D]]]]]. exists m. repeat split; auto.
  subst m. auto.
Qed.

Lemma cfv_sound local th10 s el px sp r r' v :
  RInv r -> r_sp r = Some sp -> suf_at sp = Some s ->
  count_from_voted local th10 s el px sp r = (r', Some v) -> own_sound sp s v.
Proof.
  intros RI S SA. destruct (voted_facts r sp s RI S SA) as [ND VF]. cbv zeta in *.
  unfold count_from_voted. destruct (r_voted r) as [|x0 l0] eqn:VOT; [discriminate|]. rewrite <- VOT in *.
  set (sfs := map snd (r_voted r)) in *.
  assert (NE : sfs <> []). { unfold sfs. rewrite VOT. discriminate. }
  destruct (match px with Some n => expel_candidate local s th10 r n | None => None end) as [[[wsfs maj] ex]|] eqn:CAND.
  - (* expel voteproof *)
    intros H; inversion H; subst r' v. clear H.
    destruct px as [n|]; [|discriminate]. unfold expel_candidate in CAND.
    destruct (aget n (r_voted r)) as [sfn|] eqn:GV; [|discriminate].
    destruct (aget n (r_ex r)) as [ex0|] eqn:GE; [|discriminate].
    destruct ex0 as [|e0 ex0'] eqn:EX0; [discriminate|]. rewrite <- EX0 in *.
    destruct (zmem local (map e_node ex0)); [discriminate|].
    fold sfs in CAND.
    set (w := filter (fun sf => negb (zmem (sf_node sf) (map e_node ex0))) sfs) in *.
    destruct (suffrage_with_expels s th10 ex0) as [rs|] eqn:SWE; [|discriminate].
    destruct (zlen w <? thr 1000 (zlen rs)) eqn:LEN; [discriminate|].
    assert (EXNE : ex0 <> []) by (rewrite EX0; discriminate).
    destruct (swe_some _ _ _ _ SWE) as [[X _]|[_ [RS RSNE]]]; [contradiction|].
    assert (WIN : forall sf, In sf w -> In sf sfs /\ ~ In (sf_node sf) (map e_node ex0)).
    { intros sf X. apply filter_In in X. destruct X as [X Y]. split; auto.
      apply negb_true_iff in Y. intros Z. apply zmem_In in Z. congruence. }
    assert (WNE : w <> []).
    { apply Z.ltb_ge in LEN. rewrite thr_max in LEN by apply zlen_nonneg.
      destruct rs; [contradiction|]. destruct w; [|discriminate]. unfold zlen in LEN. simpl in LEN. lia. }
    assert (WND : NoDup (map sf_node w)) by (apply NoDup_map_filter; auto).
    assert (WSP : forall sf, In sf w -> f_sp (sf_fact sf) = sp) by (intros sf X; apply WIN in X; apply VF; tauto).
    assert (EXV : forallb (fun x => expel_valid (sp_h sp) x s) ex0 = true).
    { apply aget_In in GV. unfold RInv in RI. rewrite S in RI. destruct RI as [_ [R2 _]].
      destruct (R2 _ _ GV) as [_ [_ [_ [s' [D [_ F]]]]]]. rewrite SA in D. inversion D; subst s'. apply F; auto. }
    assert (EXND : NoDup (map e_node ex0)).
    { apply aget_In in GE. unfold RInv in RI. rewrite S in RI. destruct RI as [_ [_ [_ [_ [R5 _]]]]]. eapply R5; eauto. }
    assert (WMEM : forall sf, In sf w -> suf_exists_pub (sf_node sf) (sf_pub sf) rs = true).
    { intros sf X. destruct (WIN _ X) as [A B]. rewrite RS. apply suf_exists_pub_keep.
      - apply VF; auto.
      - destruct (zmem (sf_node sf) (map e_node ex0)) eqn:Z; auto. apply zmem_In in Z. contradiction. }
    assert (KIND : forall m, v_kind (new_vp sp w m th10 ex0) = VExpel).
    { intros m. unfold new_vp; simpl. rewrite EX0. reflexivity. }
    assert (VAL : forall m, result_matches (tally (zlen rs) (thr 1000 (zlen rs)) (sf_ids w)) m ->
                            vp_valid_suf (new_vp sp w m th10 ex0) s = true).
    { intros m RM. unfold vp_valid_suf. cbn [new_vp v_ex v_sp v_th v_sfs].
      rewrite EX0. rewrite <- EX0. rewrite EXV, SWE. cbn [andb].
      replace (vkind_eqb (v_kind (new_vp sp w m th10 ex0)) VStuck) with false by (rewrite KIND; reflexivity).
      cbn [andb]. apply bvs_intro; auto. rewrite KIND. discriminate. }
    destruct (tally (zlen rs) (thr 1000 (zlen rs)) (sf_ids w)) as [| |id] eqn:TAL; [discriminate| |].
    + discriminate.
    + assert (IDIN := tally_maj_in _ _ _ _ TAL).
      destruct (maj_fact w id sp WSP IDIN) as [m [FM [MI MS]]]. rewrite FM in CAND.
      destruct (expels_of_fact m ex0) eqn:EOF; [|discriminate].
      inversion CAND; subst wsfs maj ex. clear CAND.
      unfold own_sound. split; [reflexivity|]. split; [|split].
      * apply wf_intro; cbn [new_vp v_sfs v_sp v_maj v_ex]; auto.
        -- split; auto. rewrite MI. auto.
        -- rewrite KIND. repeat split; auto. intros sf X. apply WIN; auto.
      * apply VAL. exact MI.
      * cbn [new_vp v_sfs]. intros sf X. apply WIN in X. apply VF; tauto.
  - (* plain voteproof *)
    assert (SSP : forall sf, In sf sfs -> f_sp (sf_fact sf) = sp) by (intros sf X; apply VF; auto).
    assert (SMEM : forall sf, In sf sfs -> suf_exists_pub (sf_node sf) (sf_pub sf) s = true) by (intros sf X; apply VF; auto).
    assert (PLAIN : forall m, result_matches (tally (zlen s) (thr th10 (zlen s)) (sf_ids sfs)) m ->
                              match m with None => True | Some f => f_sp f = sp /\ In (f_id f) (sf_ids sfs) end ->
                              own_sound sp s (new_vp sp sfs m th10 [])).
    { intros m RM MM. unfold own_sound. split; [reflexivity|]. split; [|split].
      - apply wf_intro; cbn [new_vp v_sfs v_sp v_maj v_ex v_kind]; auto.
      - unfold vp_valid_suf. cbn [new_vp v_ex v_kind v_th]. cbn [vkind_eqb andb].
        apply bvs_intro; cbn [new_vp v_kind v_sfs v_maj]; auto. discriminate.
      - cbn [new_vp v_sfs]. intros sf X. apply VF; auto. }
    fold sfs. destruct (tally (zlen s) (thr th10 (zlen s)) (sf_ids sfs)) as [| |id] eqn:TAL.
    + intros H; inversion H.
    + destruct (_ && _ && _); intros H; inversion H; subst; apply PLAIN; exact I.
    + intros H; inversion H; subst. assert (IDIN := tally_maj_in _ _ _ _ TAL).
      destruct (maj_fact sfs id sp SSP IDIN) as [m [FM [MI MS]]]. rewrite FM.
      apply PLAIN; [exact MI|]. split; auto. rewrite MI; auto.
Qed.
End Sound.
