(* C04 -- soundness of the voteproofs emitted by the ballotbox model. *)
From Coq Require Import ZArith List Bool String Lia PeanoNat.
From MV Require Import C04.Model C04.PLib C04.POwn.
Import ListNotations.
Open Scope Z_scope.

(* ---------------------------------------------------------------- tally *)

Lemma zlen_nonneg {A} (l : list A) : 0 <= zlen l.
Proof. unfold zlen. lia. Qed.

Lemma count_id_nonneg x l : 0 <= count_id x l.
Proof. unfold count_id. apply zlen_nonneg. Qed.

Lemma max_count_in ids all : ids <> [] -> In (fst (max_count ids all)) ids.
Proof.
  induction ids as [|x r IH]; intros N; [contradiction|]. simpl.
  destruct (max_count r all) as [bx bc] eqn:M.
  destruct (bc <=? count_id x all) eqn:E; simpl; auto.
  right. destruct r as [|y r'].
  - simpl in M. inversion M; subst. apply Z.leb_gt in E. pose proof (count_id_nonneg x all). lia.
  - apply IH. discriminate.
Qed.

Lemma tally_maj_in q t ids k : tally q t ids = RMaj k -> In k ids.
Proof.
  unfold tally. destruct ids as [|x r]; [discriminate|].
  destruct (max_count (x :: r) (x :: r)) as [k' c] eqn:M.
  destruct (Z.min t q <=? c).
  - intros H; inversion H; subst. assert (X := max_count_in (x :: r) (x :: r)). rewrite M in X. apply X. discriminate.
  - destruct (_ <? _); discriminate.
Qed.

Lemma find_fact_in id sfs :
  In id (sf_ids sfs) -> exists m sf, find_fact id sfs = Some m /\ f_id m = id /\ In sf sfs /\ sf_fact sf = m.
Proof.
  unfold sf_ids, find_fact. intros H. apply in_map_iff in H. destruct H as [sf [E H]].
  destruct (find (fun sf0 => f_id (sf_fact sf0) =? id) sfs) as [sf'|] eqn:F.
  - apply find_some in F. destruct F as [F1 F2]. apply Z.eqb_eq in F2. exists (sf_fact sf'), sf'. auto.
  - exfalso. apply (find_none _ _ F) in H. rewrite E, Z.eqb_refl in H. discriminate.
Qed.

Lemma thr_max q : 0 <= q -> thr 1000 q = q.
Proof. intros H. unfold thr. symmetry. apply Z.div_unique with 999; lia. Qed.

(* ---------------------------------------------------------------- reduced suffrage *)

Definition not_expelled (ex : list expel) (x : Z * Z) : bool := negb (existsb (fun e => e_node e =? fst x) ex).

Lemma swe_some s th ex rs :
  suffrage_with_expels s th ex = Some rs ->
  (ex = [] /\ rs = s) \/ (ex <> [] /\ rs = filter (not_expelled ex) s /\ rs <> []).
Proof.
  unfold suffrage_with_expels. destruct ex as [|e ex]; [intros H; inversion H; auto|].
  destruct (zlen s <? zlen (e :: ex)); [discriminate|].
  destruct (negb (forallb _ (e :: ex))); [discriminate|].
  fold (not_expelled (e :: ex)).
  destruct (filter (not_expelled (e :: ex)) s) as [|a l] eqn:F; [discriminate|].
  intros H; inversion H; subst. right. split; [discriminate|]. split; auto. discriminate.
Qed.

Lemma suf_exists_pub_filter n p P s :
  suf_exists_pub n p (filter P s) = true -> suf_exists_pub n p s = true.
Proof.
  unfold suf_exists_pub. rewrite !existsb_exists. intros [x [H E]]. apply filter_In in H. exists x; tauto.
Qed.

Lemma suf_exists_pub_keep n p ex s :
  suf_exists_pub n p s = true -> zmem n (map e_node ex) = false ->
  suf_exists_pub n p (filter (not_expelled ex) s) = true.
Proof.
  unfold suf_exists_pub. rewrite !existsb_exists. intros [x [H E]] Z. exists x. split; auto.
  apply filter_In. split; auto. unfold not_expelled. apply negb_true_iff.
  apply andb_true_iff in E. destruct E as [E1 E2]. apply Z.eqb_eq in E1.
  destruct (existsb (fun e => e_node e =? fst x) ex) eqn:X; auto.
  apply existsb_exists in X. destruct X as [e [X1 X2]]. apply Z.eqb_eq in X2.
  assert (Y : zmem n (map e_node ex) = true).
  { apply zmem_In. apply in_map_iff. exists e. split; auto. congruence. }
  congruence.
Qed.

(* ---------------------------------------------------------------- consequences of validity (C04_signfacts_sound, C04_recount) *)

Lemma valid_members v s :
  vp_valid_suf v s = true -> forall sf, In sf (v_sfs v) -> suf_exists_pub (sf_node sf) (sf_pub sf) s = true.
Proof.
  unfold vp_valid_suf. intros H sf X. destruct (v_ex v) as [|e ex] eqn:EX.
  - apply andb_true_iff in H. destruct H as [_ H]. unfold base_valid_suf in H.
    apply andb_true_iff in H. destruct H as [H _]. rewrite forallb_forall in H. auto.
  - apply andb_true_iff in H. destruct H as [_ H].
    destruct (suffrage_with_expels s (v_th v) (e :: ex)) as [rs|] eqn:W; [|discriminate].
    apply andb_true_iff in H. destruct H as [_ H]. unfold base_valid_suf in H.
    apply andb_true_iff in H. destruct H as [H _]. rewrite forallb_forall in H.
    apply swe_some in W. destruct W as [[W _]|[_ [W _]]]; [discriminate|]. subst rs.
    eapply suf_exists_pub_filter. apply H. auto.
Qed.

Lemma wellformed_signers v :
  vp_wellformed v = true ->
  NoDup (map sf_node (v_sfs v)) /\ (forall sf, In sf (v_sfs v) -> f_sp (sf_fact sf) = v_sp v) /\ v_sfs v <> [].
Proof.
  unfold vp_wellformed. rewrite !andb_true_iff. intros [[[[A B] C] _] _].
  split; [apply znodup_NoDup; auto|]. split.
  - intros sf X. rewrite forallb_forall in C. apply sp_eqb_eq. auto.
  - destruct (v_sfs v); [discriminate|discriminate].
Qed.

(* the (quorum, threshold) the validator counts with *)
Definition validator_count (v : vproof) (s : suffrage) : option (Z * Z) :=
  match v_ex v with
  | [] => Some (zlen s, thr (v_th v) (zlen s))
  | ex => match suffrage_with_expels s (v_th v) ex with
          | Some rs => Some (zlen rs, thr 1000 (zlen rs))
          | None => None
          end
  end.

Definition result_matches (r : vresult) (maj : option fact) : Prop :=
  match r, maj with
  | RDraw, None => True
  | RMaj id, Some m => f_id m = id
  | _, _ => False
  end.

Lemma valid_recount v s :
  vp_valid_suf v s = true -> v_kind v <> VStuck ->
  exists q th, validator_count v s = Some (q, th) /\ result_matches (tally q th (sf_ids (v_sfs v))) (v_maj v).
Proof.
  unfold vp_valid_suf, validator_count. intros H NS.
  assert (K : vkind_eqb (v_kind v) VStuck = false) by (destruct (v_kind v); auto; contradiction).
  destruct (v_ex v) as [|e ex] eqn:EX.
  - apply andb_true_iff in H. destruct H as [_ H]. unfold base_valid_suf in H. rewrite K in H.
    apply andb_true_iff in H. destruct H as [_ H]. eexists; eexists; split; [reflexivity|].
    unfold result_matches. destruct (tally _ _ _), (v_maj v); try discriminate; auto. apply Z.eqb_eq; auto.
  - apply andb_true_iff in H. destruct H as [_ H].
    destruct (suffrage_with_expels s (v_th v) (e :: ex)) as [rs|]; [|discriminate].
    apply andb_true_iff in H. destruct H as [_ H]. unfold base_valid_suf in H. rewrite K in H.
    apply andb_true_iff in H. destruct H as [_ H]. eexists; eexists; split; [reflexivity|].
    unfold result_matches. destruct (tally _ _ _), (v_maj v); try discriminate; auto. apply Z.eqb_eq; auto.
Qed.
