(* C04 -- the threshold of every emitted voteproof is not below the threshold of the box; the last point changes only
   through the guard of SetLastPoint. *)
From Coq Require Import ZArith List Bool String Lia PeanoNat.
From MV Require Import C04.Model C04.PLib C04.POwn.
Import ListNotations.
Open Scope Z_scope.

Section Thresh.
Variable pf : prefixes.
Variable e : env.

(* a record on hold remembers the threshold of the box *)
Definition hold_ok (r : rec) : Prop := r_hold r = true -> r_lastth r = en_th e.
Definition TInv (b : box) : Prop := forall i, hold_ok (rec_of b i).

Lemma tinv_init : TInv box_init.
Proof. intros i H. discriminate. Qed.

Lemma cfv_hold local th s el px sp r r' o :
  count_from_voted local th s el px sp r = (r', o) ->
  ((r_hold r' = r_hold r /\ r_lastth r' = r_lastth r) \/ (r_hold r' = true /\ r_lastth r' = th)) /\
  (forall v, o = Some v -> v_th v = th).
Proof.
  unfold count_from_voted. destruct (r_voted r); [intros H; inversion H; subst; split; auto; intros v X; discriminate|].
  destruct (match px with Some n => expel_candidate local s th r n | None => None end) as [[[w m] ex]|].
  - intros H; inversion H; subst; simpl. split; auto. intros v X; inversion X; reflexivity.
  - destruct (tally _ _ _).
    + intros H; inversion H; subst. split; auto. intros v X; discriminate.
    + destruct (_ && _ && _); intros H; inversion H; subst; simpl; split; auto.
      * intros v X; discriminate.
      * intros v X; inversion X; reflexivity.
    + intros H; inversion H; subst; simpl. split; auto. intros v X; inversion X; reflexivity.
Qed.

Lemma rec_count_th known last th el pv px r r' vps :
  rec_count e known last th el pv px r = (r', vps) ->
  ((r_hold r' = true -> r_lastth r' = th \/ (r_hold r = true /\ r_lastth r' = r_lastth r))) /\
  (forall v, In v vps -> th <= v_th v).
Proof.
  unfold rec_count. destruct (r_sp r) as [sp|]; [|intros H; inversion H; subst; split; auto; intros v []].
  destruct (negb (before last sp (r_isc r))); [intros H; inversion H; subst; split; auto; intros v []|].
  destruct (is_some (r_vp r)); [intros H; inversion H; subst; split; auto; intros v []|].
  destruct (match r_voted r, r_ballots r with [], [] => true | _, _ => false end);
    [intros H; inversion H; subst; split; auto; intros v []|].
  set (fwd := match pv with
              | Some n => match aget n (r_vps r) with
                          | Some v => if vp_from_ballots e known r (is_new_vp_sc (r_isc r)) last th v then [v] else []
                          | None => []
                          end
              | None => []
              end).
  assert (FWD : forall v, In v fwd -> th <= v_th v).
  { intros v. unfold fwd. destruct pv as [n|]; [|intros []].
    destruct (aget n (r_vps r)) as [v0|]; [|intros []].
    destruct (vp_from_ballots _ _ _ _ _ _ v0) eqn:F; [|intros []].
    intros [X|[]]. subst v0. unfold vp_from_ballots in F.
    destruct (is_some (r_vp r)); [discriminate|]. destruct (negb _); [discriminate|].
    destruct (v_th v <? th) eqn:T; [discriminate|]. apply Z.ltb_ge in T. auto. }
  destruct (get_suf e known (safe_prev (sp_h sp))) as [s|]; [|intros H; inversion H; subst; split; auto].
  set (r1 := match r_ballots r with [] => r | _ => count_from_ballots s r end).
  assert (H1 : r_hold r1 = r_hold r /\ r_lastth r1 = r_lastth r).
  { unfold r1. destruct (r_ballots r); auto. }
  destruct H1 as [H1 H2].
  destruct (count_from_voted (en_local e) th s el px sp r1) as [r2 o] eqn:C.
  destruct (cfv_hold _ _ _ _ _ _ _ _ _ C) as [HD TH].
  destruct o as [v|]; intros H; inversion H; subst r' vps; split.
  - simpl. intros X; discriminate.
  - intros v' X. apply in_app_iff in X. destruct X as [X|[X|[]]]; auto. subst v'. rewrite (TH v eq_refl). lia.
  - intros X. destruct HD as [[A B]|[A B]]; auto. right. split; congruence.
  - auto.
Qed.

Lemma rec_vote_hold suf last bl r r' v w :
  rec_vote suf last bl r = (r', v, w) -> r_hold r' = r_hold r /\ r_lastth r' = r_lastth r.
Proof.
  unfold rec_vote. destruct (r_sp r); [|intros H; inversion H; subst; auto].
  destruct (negb _); [intros H; inversion H; subst; auto|].
  destruct (is_some (r_vp r)); [intros H; inversion H; subst; auto|].
  destruct (is_voted _ r); [intros H; inversion H; subst; auto|].
  destruct suf as [su|].
  - destruct (negb _); intros H; inversion H; subst; auto.
    unfold recorded. destruct (b_vp bl), (b_ex bl); simpl; auto.
  - intros H; inversion H; subst. unfold recorded. destruct (b_vp bl), (b_ex bl); simpl; auto.
Qed.

Lemma pool_recs_hold l : forall recs j,
  r_hold (rget j (pool_recs l recs)) = r_hold (rget j recs) /\
  r_lastth (rget j (pool_recs l recs)) = r_lastth (rget j recs).
Proof.
  induction l as [|a l IH]; intros recs j; simpl; auto.
  unfold pool_recs in *. simpl.
  destruct (IH (rset a (rec_pooled (rget a recs)) recs) j) as [A B]. rewrite A, B.
  rewrite rget_rset. destruct (Nat.eqb j a) eqn:E; auto.
  apply Nat.eqb_eq in E; subst. simpl. auto.
Qed.

Lemma tinv_clean b : TInv b -> TInv (box_clean pf b).
Proof.
  intros T j. rewrite box_clean_unfold. cbv zeta. unfold hold_ok.
  destruct (pool_recs_hold (bx_removed b) (bx_recs b) j) as [A B].
  destruct (bx_last b); unfold rec_of; cbn [bx_recs]; rewrite A, B; apply T.
Qed.

Lemma tinv_upd b i r : TInv b -> hold_ok r -> TInv (upd_rec i r b).
Proof. intros T H j. rewrite rec_of_upd. destruct (Nat.eqb j i); auto. Qed.

Lemma tinv_set_last b l : TInv b -> TInv (box_set_last l b).
Proof. intros T. unfold box_set_last. destruct (before _ _ _); auto. Qed.

Lemma new_rec_hold p isc get b b' i :
  box_new_rec pf p isc get b = (b', i) -> TInv b -> TInv b'.
Proof.
  unfold box_new_rec. destruct (kget _ (bx_vrs b)); [intros H; inversion H; subst; auto|].
  assert (G : forall j pool next, TInv b ->
            TInv (mkBox (bx_last b) (bx_vrs b ++ [(mkkey (pf_new pf) isc p, j)])
                        (rset j (rec_init p isc (rget j (bx_recs b))) (bx_recs b)) (bx_removed b) pool next (bx_known b))).
  { intros j pool next T k. unfold rec_of; cbn [bx_recs]. rewrite rget_rset.
    destruct (Nat.eqb k j) eqn:E; [|apply T]. apply Nat.eqb_eq in E; subst. unfold hold_ok; simpl. apply T. }
  destruct get as [g|]; [destruct (nmem g (bx_pool b))|]; intros H; inversion H; subst; apply G.
Qed.

Lemma step_th b o :
  TInv b -> TInv (fst (step pf e b o)) /\ forall v, In v (o_vps (snd (step pf e b o))) -> en_th e <= v_th v.
Proof.
  intros T. destruct o; simpl.
  - unfold box_vote.
    destruct (b_full bl && negb (check_ballot e b bl)); [simpl; split; auto; intros v []|].
    destruct (negb (is_new_ballot b _ _)); [simpl; split; auto; intros v []|].
    destruct (box_new_rec pf _ _ get b) as [b1 i] eqn:N.
    assert (T1 := new_rec_hold _ _ _ _ _ _ N T).
    destruct (rec_vote _ (bx_last b1) bl (rget i (bx_recs b1))) as [[r' v] w] eqn:V. simpl.
    split; [|intros v0 []]. apply tinv_upd; auto.
    destruct (rec_vote_hold _ _ _ _ _ _ _ V) as [A B]. unfold hold_ok. rewrite A, B. apply (T1 i).
  - unfold box_count.
    destruct (r_sp (rget i (bx_recs b))); [|simpl; split; auto; intros v []].
    destruct (negb (is_new_ballot b _ _)); [simpl; split; auto; intros v []|].
    destruct (rec_count e (bx_known b) (bx_last b) (en_th e) elapsed pickvp pickex (rget i (bx_recs b))) as [r' vps] eqn:C.
    destruct (rec_count_th _ _ _ _ _ _ _ _ _ C) as [HD TH].
    assert (T1 : TInv (upd_rec i r' b)).
    { apply tinv_upd; auto. intros X. destruct (HD X) as [Y|[Y Z]]; auto. rewrite Z. apply (T i). exact Y. }
    set (filtered := match bx_last (upd_rec i r' b) with
                     | None => vps
                     | l => filter (is_new_vp_sc (r_isc r') l) vps
                     end).
    assert (FOK : forall v, In v filtered -> en_th e <= v_th v).
    { intros v. unfold filtered. destruct (bx_last (upd_rec i r' b)); auto. intros X. apply filter_In in X. apply TH; tauto. }
    destruct (rev filtered) as [|lastvp t]; simpl.
    + split; auto. intros v [].
    + split; auto. apply tinv_clean. apply tinv_set_last. auto.
  - unfold box_held.
    destruct (negb (r_hold (rget i (bx_recs b)))) eqn:HL; [simpl; split; auto; intros v []|].
    destruct (negb elapsed); [simpl; split; auto; intros v []|].
    apply negb_false_iff in HL.
    assert (LT : r_lastth (rget i (bx_recs b)) = en_th e) by (apply (T i); exact HL).
    destruct (rec_count _ _ _ _ _ _ _ _) as [r' vps] eqn:C. simpl.
    destruct (rec_count_th _ _ _ _ _ _ _ _ _ C) as [HD TH].
    split.
    + apply tinv_upd; auto. intros X. destruct (HD X) as [Y|[Y Z]]; congruence.
    + intros v X. rewrite <- LT. apply TH; auto.
  - unfold box_forward. destruct (vp_from_ballots _ _ _ _ _ _ _) eqn:F; simpl.
    + split; auto. intros v1 [X|[]]. subst v1. unfold vp_from_ballots in F.
      destruct (is_some _); [discriminate|]. destruct (negb _); [discriminate|].
      destruct (v_th v <? en_th e) eqn:X; [discriminate|]. apply Z.ltb_ge in X. auto.
    + split; auto. intros v1 [].
  - split; [apply tinv_set_last; auto|intros v []].
  - split; [apply tinv_clean; auto|intros v []].
  - split; auto. intros v [].
Qed.

Lemma run_th ops : forall b,
  TInv b -> forall x, In x (snd (run pf e b ops)) -> forall v, In v (o_vps x) -> en_th e <= v_th v.
Proof.
  induction ops as [|o ops IH]; intros b T; simpl.
  - intros x [].
  - destruct (step_th b o T) as [T1 V1]. destruct (step pf e b o) as [b1 x1]. simpl in *.
    assert (V2 := IH b1 T1). destruct (run pf e b1 ops) as [b2 xs]. simpl in *.
    intros x [X|X]; [subst; auto|eauto].
Qed.

(* ---------------------------------------------------------------- the last point changes only through the guard *)

Definition last_guarded (b b' : box) : Prop :=
  bx_last b' = bx_last b \/
  exists l, bx_last b' = Some l /\ before (bx_last b) (lp_sp l) (lp_sc l) = true.

Lemma set_last_guarded b l : last_guarded b (box_set_last l b).
Proof. unfold box_set_last. destruct (before _ _ _) eqn:B; [right; exists l; auto|left; auto]. Qed.

Lemma clean_last b : bx_last (box_clean pf b) = bx_last b.
Proof. rewrite box_clean_unfold. cbv zeta. destruct (bx_last b); reflexivity. Qed.

Lemma new_rec_last p isc get b b' i : box_new_rec pf p isc get b = (b', i) -> bx_last b' = bx_last b.
Proof.
  unfold box_new_rec. destruct (kget _ _); [intros H; inversion H; subst; auto|].
  destruct get as [g|]; [destruct (nmem g (bx_pool b))|]; intros H; inversion H; subst; reflexivity.
Qed.

Lemma step_last b o : last_guarded b (fst (step pf e b o)).
Proof.
  destruct o; simpl.
  - unfold box_vote.
    destruct (b_full bl && negb _); [left; auto|]. destruct (negb (is_new_ballot b _ _)); [left; auto|].
    destruct (box_new_rec pf _ _ get b) as [b1 i] eqn:N.
    destruct (rec_vote _ _ _ _) as [[r' v] w]. simpl. left. apply (new_rec_last _ _ _ _ _ _ N).
  - unfold box_count.
    destruct (r_sp _); [|left; auto]. destruct (negb _); [left; auto|].
    destruct (rec_count _ _ _ _ _ _ _ _) as [r' vps].
    destruct (rev _) as [|lastvp t]; [left; auto|]. simpl. unfold last_guarded. rewrite clean_last.
    apply (set_last_guarded (upd_rec i r' b)).
  - unfold box_held. destruct (negb _); [left; auto|]. destruct (negb _); [left; auto|].
    destruct (rec_count _ _ _ _ _ _ _ _) as [r' vps]. left; auto.
  - unfold box_forward. destruct (vp_from_ballots _ _ _ _ _ _ _); left; auto.
  - apply set_last_guarded.
  - left. apply clean_last.
  - left; auto.
Qed.
End Thresh.
