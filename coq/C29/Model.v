(* C29 -- length-prefixed framing (util/bytes.go).  Executable model, no proofs.

   Transcribes, for the code AFTER the fix: commit (see notes/C29.md):
     Uint64ToBytes / BytesToUint64 (util/int.go, big endian)
     WriteLengthed, WriteLengthedSlice / NewLengthedBytesSlice (refuses > maxLengthBytes items)
     ReadLengthBytes, ReadLengthedBytes, ReadLengthedBytesSlice        (buffer readers)
     EnsureRead, ReadLength, ReadLengthed, ReadLengthedSlice           (stream readers)
     BytesFrameWriter{Header,Lengthed,Writer}, NewBytesFrameReader (io.ReadFull for the version),
     BytesFrameReader{Header,Lengthed,Body}
   Bytes are N (< 256 on the Go side); Go panics (slice bounds) are the explicit outcome Panic.
   An io.Reader is a list of chunks plus an ending policy; one Read(p) returns at most one chunk. *)
From Coq Require Import String.
From Coq Require Import List NArith ZArith Bool.
From MV Require Import Common.Cases Gen.C29.
Import ListNotations.
Close Scope string_scope.
Open Scope list_scope.
Open Scope N_scope.

Definition bytes := list N.

Inductive res (A : Type) : Type := Ok (a : A) | Err | Panic.
Arguments Ok {A} a.
Arguments Err {A}.
Arguments Panic {A}.

(* limits, regenerated from util/bytes.go on every run *)
Definition max_items : N := Z.to_N max_length_bytes.       (* maxLengthBytes   *)
Definition max_lengthed : N := Z.to_N max_lengthed_bytes.  (* maxLengthedBytes *)
Definition two64 : N := 18446744073709551616.
Definition two63 : N := 9223372036854775808.

Definition lenN {A} (l : list A) : N := N.of_nat (length l).

(* ---------------------------------------------------------------- uint64 big endian (util/int.go) *)
Fixpoint enc (k : nat) (n : N) : bytes :=
  match k with
  | O => []
  | S k' => enc k' (n / 256) ++ [n mod 256]
  end.
Definition dec (l : bytes) : N := fold_left (fun a b => a * 256 + b) l 0.
(* Uint64ToBytes(uint64(x)) *)
Definition u64be (n : N) : bytes := enc 8 (n mod two64).

(* ---------------------------------------------------------------- writers *)
(* WriteLengthed *)
Definition write_lengthed (x : bytes) : bytes := u64be (lenN x) ++ x.
(* WriteLengthedSlice / NewLengthedBytesSlice / BytesFrameWriter.Header: None = refused with an error, nothing written *)
Definition write_slice (m : list bytes) : option bytes :=
  if max_items <? lenN m then None
  else Some (u64be (lenN m) ++ flat_map write_lengthed m).

(* ---------------------------------------------------------------- buffer readers *)
(* ReadLengthBytes *)
Definition read_length_bytes (b : bytes) : res N :=
  if lenN b <? 8 then Err else Ok (dec (firstn 8 b)).

(* ReadLengthedBytes: guard uint64(len(b)-8) < i, then b[8:i+8], b[i+8:] (uint64 arithmetic wraps).
   n is len(b) (carried along so that evaluation does not recompute the length of the remaining buffer
   for every item); the third component is len of the returned remainder. *)
Definition read_lengthed_bytes_n (n : N) (b : bytes) : res (bytes * bytes * N) :=
  if n <? 8 then Err (* ReadLengthBytes: missing length part *)
  else
    let i := dec (firstn 8 b) in
    if (n - 8) <? i then Err
    else
      let hi := (i + 8) mod two64 in
      if (hi <? 8) || (n <? hi) then Panic
      else Ok (firstn (N.to_nat i) (skipn 8 b), skipn (N.to_nat hi) b, n - hi).

Definition read_lengthed_bytes (b : bytes) : res (bytes * bytes) :=
  match read_lengthed_bytes_n (lenN b) b with
  | Ok (x, l, _) => Ok (x, l)
  | Err => Err
  | Panic => Panic
  end.

Fixpoint read_items_buf_n (k : nat) (n : N) (left : bytes) : res (list bytes * bytes) :=
  match k with
  | O => Ok ([], left)
  | S k' =>
      match read_lengthed_bytes_n n left with
      | Ok (x, l', n') =>
          match read_items_buf_n k' n' l' with
          | Ok (xs, r) => Ok (x :: xs, r)
          | Err => Err
          | Panic => Panic
          end
      | Err => Err
      | Panic => Panic
      end
  end.

Definition read_items_buf (k : nat) (left : bytes) := read_items_buf_n k (lenN left) left.

(* ReadLengthedBytesSlice (fixed: a count above maxLengthBytes is an error) *)
Definition read_slice_buf (b : bytes) : res (list bytes * bytes) :=
  let n := lenN b in
  if n <? 8 then Err
  else match read_length_bytes b with
       | Ok i => if max_items <? i then Err else read_items_buf_n (N.to_nat i) (n - 8) (skipn 8 b)
       | Err => Err
       | Panic => Panic
       end.

(* ---------------------------------------------------------------- io.Reader model *)
Inductive ending := EndEOF | EndEOFWithLast | EndErr.
(* EndEOF: (0, io.EOF) on the call after the last byte; EndEOFWithLast: the Read that delivers the last chunk
   also returns io.EOF; EndErr: a non-EOF error on the call after the last byte. *)
Record reader := mkR { chunks : list bytes; fin : ending }.

Definition last_eof (cs' : list bytes) (e : ending) : bool :=
  match cs', e with
  | [], EndEOFWithLast => true
  | _, _ => false
  end.

(* take up to n elements: (taken, remainder, number still missing); cost O(min(n, |c|)) *)
Fixpoint splitN (c : bytes) (n : N) : bytes * bytes * N :=
  match c with
  | [] => ([], [], n)
  | x :: c' =>
      if n =? 0 then ([], c, 0)
      else let '(a, b, m) := splitN c' (n - 1) in (x :: a, b, m)
  end.

(* EnsureRead with len(b) = need > 0: loop of Reads; every Read asks for the missing `need` bytes.
   Structural on the chunk list: a Read either consumes a whole chunk or fills the buffer. *)
Fixpoint ensure_go (need : N) (cs : list bytes) (e : ending) : res (bytes * bool * reader) :=
  match cs with
  | [] => Err  (* (0, io.EOF) -> "insufficient read"; (0, err) -> err *)
  | c :: cs' =>
      match splitN c need with
      | (a, [], need') =>                                  (* the whole chunk fits: len(c) <= need *)
          let eof := last_eof cs' e in
          if need' =? 0 then Ok (a, eof, mkR cs' e)        (* n == len(b): return n, err (nil or io.EOF) *)
          else if eof then Err                              (* "insufficient read" *)
          else match ensure_go need' cs' e with
               | Ok (d, eof', r) => Ok (a ++ d, eof', r)
               | Err => Err
               | Panic => Panic
               end
      | (a, rest, _) => Ok (a, false, mkR (rest :: cs') e)   (* the Read fills the buffer, the chunk is not exhausted *)
      end
  end.

(* EnsureRead(ctx, r, b) with a context that is never cancelled; result (bytes, err is io.EOF, reader) *)
Definition ensure_read (k : N) (r : reader) : res (bytes * bool * reader) :=
  if k <? 1 then Ok ([], false, r) else ensure_go k (chunks r) (fin r).

(* ReadLength: the io.EOF of EnsureRead is dropped (shadowed err) *)
Definition read_length (r : reader) : res (N * reader) :=
  match ensure_read 8 r with
  | Ok (p, _, r') => Ok (dec p, r')
  | Err => Err
  | Panic => Panic
  end.

(* ReadLengthed: (bytes, err is io.EOF, reader) *)
Definition read_lengthed (r : reader) : res (bytes * bool * reader) :=
  match read_length r with
  | Ok (i, r') =>
      if i <? 1 then Ok ([], false, r')
      else if max_lengthed <? i then Err
      else ensure_read i r'
  | Err => Err
  | Panic => Panic
  end.

Fixpoint read_items_stream (k : nat) (r : reader) : res (list bytes * reader) :=
  match k with
  | O => Ok ([], r)
  | S k' =>
      match read_lengthed r with
      | Ok (x, eof, r') =>
          if eof && negb (Nat.eqb k' 0) then Err      (* i < len(hs)-1 && io.EOF *)
          else match read_items_stream k' r' with
               | Ok (xs, r'') => Ok (x :: xs, r'')
               | Err => Err
               | Panic => Panic
               end
      | Err => Err
      | Panic => Panic
      end
  end.

(* ReadLengthedSlice *)
Definition read_slice_stream (r : reader) : res (list bytes * reader) :=
  match read_length r with
  | Ok (i, r') =>
      if i <? 1 then Ok ([], r')
      else if max_items <? i then Err
      else read_items_stream (N.to_nat i) r'
  | Err => Err
  | Panic => Panic
  end.

(* ---------------------------------------------------------------- frames *)
Definition frame_version : bytes := [0; 0].   (* bytesFrameVersion *)

(* NewBytesFrameWriter; Header(hdrs...); Lengthed(b) for each body; Writer().Write(tail) *)
Definition frame_write (hdrs bodies : list bytes) (tail : bytes) : option bytes :=
  match write_slice hdrs with
  | Some h => Some (frame_version ++ h ++ flat_map write_lengthed bodies ++ tail)
  | None => None
  end.

(* io.ReadFull(r, buf) with len(buf) = need > 0 *)
Inductive rf := RFOk (d : bytes) (r : reader) | RFEof0 (r : reader) | RFErr.

Fixpoint read_full_go (need : N) (got : bool) (cs : list bytes) (e : ending) : rf :=
  match cs with
  | [] => if got then RFErr (* io.ErrUnexpectedEOF or err *)
          else match e with EndErr => RFErr | _ => RFEof0 (mkR [] e) end
  | c :: cs' =>
      if lenN c <=? need then
        let need' := need - lenN c in
        let got' := got || (0 <? lenN c) in
        if need' =? 0 then RFOk c (mkR cs' e)            (* n >= min: err = nil *)
        else if last_eof cs' e then (if got' then RFErr else RFEof0 (mkR cs' e))
        else match read_full_go need' got' cs' e with
             | RFOk d r => RFOk (c ++ d) r
             | RFEof0 r => RFEof0 r
             | RFErr => RFErr
             end
      else RFOk (firstn (N.to_nat need) c) (mkR (skipn (N.to_nat need) c :: cs') e)
  end.

(* NewBytesFrameReader (fixed: io.ReadFull; a stream that is empty is still accepted with a zero version) *)
Definition new_frame_reader (r : reader) : res (bytes * reader) :=
  match read_full_go 2 false (chunks r) (fin r) with
  | RFOk v r' => Ok (v, r')
  | RFEof0 r' => Ok ([0; 0], r')
  | RFErr => Err
  end.

(* BytesFrameReader.Lengthed called k times, collecting what the callback receives *)
Fixpoint read_bodies (k : nat) (r : reader) : res (list bytes * reader) :=
  match k with
  | O => Ok ([], r)
  | S k' =>
      match read_lengthed r with
      | Ok (x, _, r') =>
          match read_bodies k' r' with
          | Ok (xs, r'') => Ok (x :: xs, r'')
          | Err => Err
          | Panic => Panic
          end
      | Err => Err
      | Panic => Panic
      end
  end.

(* io.ReadAll *)
Definition read_all (r : reader) : res bytes :=
  match fin r with
  | EndErr => Err
  | _ => Ok (concat (chunks r))
  end.

(* NewBytesFrameReader; Version(); Header(); nb x Lengthed(); Body() *)
Definition frame_read (nb : nat) (r : reader) : res (bytes * list bytes * list bytes * bytes) :=
  match new_frame_reader r with
  | Ok (v, r1) =>
      match read_slice_stream r1 with
      | Ok (hs, r2) =>
          match read_bodies nb r2 with
          | Ok (bs, r3) =>
              match read_all r3 with
              | Ok t => Ok (v, hs, bs, t)
              | Err => Err
              | Panic => Panic
              end
          | Err => Err
          | Panic => Panic
          end
      | Err => Err
      | Panic => Panic
      end
  | Err => Err
  | Panic => Panic
  end.

(* ---------------------------------------------------------------- correspondence cases *)
(* run-length encoded data: (hex, repeat) *)
Definition seg := (string * N)%type.
Fixpoint repeat_app (d : bytes) (n : nat) : bytes :=
  match n with O => [] | S n' => d ++ repeat_app d n' end.
Definition flat_of (ss : list seg) : bytes :=
  flat_map (fun s => repeat_app (unhex (fst s)) (N.to_nat (snd s))) ss.
Definition items_of (ss : list seg) : list bytes :=
  flat_map (fun s => repeat (unhex (fst s)) (N.to_nat (snd s))) ss.

(* chunking: explicit sizes first, then chunks of `unit` bytes (unit = 0: the rest as one chunk) *)
Fixpoint split_unit (fuel : nat) (u : nat) (d : bytes) : list bytes :=
  match fuel with
  | O => []
  | S f => match d with
           | [] => []
           | _ => firstn u d :: split_unit f u (skipn u d)
           end
  end.
Fixpoint split_sizes (sizes : list N) (u : N) (d : bytes) : list bytes :=
  match sizes with
  | [] => match d with
          | [] => []
          | _ => if u =? 0 then [d] else split_unit (length d) (N.to_nat u) d
          end
  | s :: ss => firstn (N.to_nat s) d :: split_sizes ss u (skipn (N.to_nat s) d)
  end.

Definition ending_of (e : N) : ending :=
  if e =? 0 then EndEOF else if e =? 1 then EndEOFWithLast else EndErr.

Definition mk_reader (d : bytes) (sizes : list N) (u e : N) : reader :=
  mkR (split_sizes sizes u d) (ending_of e).

(* observables: tag 0 = Ok, 1 = Err, 2 = Panic *)
Definition bytes_eqb := list_eqb N.eqb.
Definition items_eqb := list_eqb bytes_eqb.

Definition adler (d : bytes) : N :=
  let '(a, b) := fold_left (fun ab x => let a := (fst ab + x) mod 65521 in (a, (snd ab + a) mod 65521)) d (1, 0) in
  b * 65536 + a.

Inductive case :=
| CBuf (input : list seg) (tag : N) (items : list seg) (rest : string)
| CStream (input : list seg) (sizes : list N) (u e : N) (tag : N) (items : list seg) (rest : string)
| CWrite (items : list seg) (ok : bool) (len sum : N)
| CEnsure (input : string) (sizes : list N) (u e : N) (k : N) (tag : N) (data : string) (eof : bool) (rest : string)
| CFrame (input : string) (sizes : list N) (u e : N) (nb : N) (tag : N) (ver : string) (hdrs bodies : list string) (tail : string).

Definition check (c : case) : bool :=
  match c with
  | CBuf input tag items rest =>
      match read_slice_buf (flat_of input) with
      | Ok (m, r) => (tag =? 0) && items_eqb m (items_of items) && bytes_eqb r (unhex rest)
      | Err => tag =? 1
      | Panic => tag =? 2
      end
  | CStream input sizes u e tag items rest =>
      match read_slice_stream (mk_reader (flat_of input) sizes u e) with
      | Ok (m, r) => (tag =? 0) && items_eqb m (items_of items) && bytes_eqb (concat (chunks r)) (unhex rest)
      | Err => tag =? 1
      | Panic => tag =? 2
      end
  | CWrite items ok len sum =>
      match write_slice (items_of items) with
      | Some w => ok && (lenN w =? len) && (adler w =? sum)
      | None => negb ok
      end
  | CEnsure input sizes u e k tag data eof rest =>
      match ensure_read k (mk_reader (unhex input) sizes u e) with
      | Ok (d, f, r) => (tag =? 0) && bytes_eqb d (unhex data) && Bool.eqb f eof && bytes_eqb (concat (chunks r)) (unhex rest)
      | Err => tag =? 1
      | Panic => tag =? 2
      end
  | CFrame input sizes u e nb tag ver hdrs bodies tail =>
      match frame_read (N.to_nat nb) (mk_reader (unhex input) sizes u e) with
      | Ok (v, hs, bs, t) => (tag =? 0) && bytes_eqb v (unhex ver) && items_eqb hs (map unhex hdrs)
                             && items_eqb bs (map unhex bodies) && bytes_eqb t (unhex tail)
      | Err => tag =? 1
      | Panic => tag =? 2
      end
  end.
