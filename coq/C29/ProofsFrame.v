(* C29 -- BytesFrameWriter / BytesFrameReader over the stream lemmas. *)
From Coq Require Import String.
From Coq Require Import List NArith ZArith Bool Lia ZifyBool ZifyNat ZifyN.
From MV Require Import Common.Cases Gen.C29 C29.Model C29.ProofsBuf C29.ProofsStream.
Import ListNotations.
Close Scope string_scope.
Open Scope list_scope.
Open Scope N_scope.

Definition smalls (m : list bytes) : Prop := Forall (fun x => lenN x <= max_lengthed) m.

(* ------------------------------------------------------------ io.ReadFull *)
Lemma read_full_ok cs : forall e need got a rest,
  0 < need -> concat cs = a ++ rest -> lenN a = need ->
  exists cs', read_full_go need got cs e = RFOk a (mkR cs' e) /\ concat cs' = rest.
Proof.
  induction cs as [|c cs IH]; intros e need got a rest Hpos Hcat Hlen.
  - cbn in Hcat. symmetry in Hcat. apply app_eq_nil in Hcat. destruct Hcat as [-> _]. rewrite lenN_nil in Hlen. lia.
  - cbn [concat] in Hcat. cbn [read_full_go].
    destruct (N.leb_spec (lenN c) need) as [Hle|Hgt].
    + destruct (app_split_le _ _ _ _ Hcat) as [a' [-> Hcs]]. { unfold lenN in *. lia. }
      rewrite lenN_app in Hlen.
      destruct (N.eqb_spec (need - lenN c) 0) as [E0|E0].
      * assert (a' = []) by (apply lenN_zero; lia). subst a'. rewrite app_nil_r. cbn [app] in Hcs.
        exists cs. split; [reflexivity | assumption].
      * destruct (last_eof cs e) eqn:El.
        { apply last_eof_true in El. destruct El as [-> _]. cbn in Hcs. symmetry in Hcs.
          apply app_eq_nil in Hcs. destruct Hcs as [-> _]. rewrite lenN_nil in Hlen. lia. }
        destruct (IH e (need - lenN c) (got || (0 <? lenN c)) a' rest ltac:(lia) Hcs ltac:(lia)) as [cs' [E Hc]].
        rewrite E. exists cs'. split; [reflexivity | assumption].
    + destruct (app_split_lt _ _ _ _ Hcat) as [l [Hl [-> ->]]]. { unfold lenN in *. lia. }
      assert (Hn : N.to_nat need = length a) by (unfold lenN in Hlen; lia).
      rewrite Hn, firstn_len_app, skipn_len_app.
      exists (l :: cs). split; [reflexivity|]. cbn [concat]. reflexivity.
Qed.

(* fewer bytes than asked: never a success; "nothing at all" (io.EOF with n = 0) leaves an empty stream *)
Lemma read_full_short cs : forall e need got,
  lenN (concat cs) < need ->
  match read_full_go need got cs e with
  | RFOk _ _ => False
  | RFEof0 r => got = false /\ concat cs = [] /\ concat (chunks r) = [] /\ fin r = e
  | RFErr => True
  end.
Proof.
  induction cs as [|c cs IH]; intros e need got Hlt; cbn [read_full_go].
  - destruct got; [exact I|]. destruct e; cbn; auto.
  - cbn [concat] in Hlt. rewrite lenN_app in Hlt.
    destruct (N.leb_spec (lenN c) need) as [Hle|Hgt]; [|lia].
    destruct (N.eqb_spec (need - lenN c) 0); [lia|].
    assert (Hgot : forall g, g || (0 <? lenN c) = false -> g = false /\ c = []).
    { intros g Hg. apply orb_false_elim in Hg. destruct Hg as [-> Hc]. split; [reflexivity|].
      apply lenN_zero. destruct (N.ltb_spec 0 (lenN c)); [discriminate | lia]. }
    destruct (last_eof cs e) eqn:El.
    + apply last_eof_true in El. destruct El as [-> ->].
      destruct (got || (0 <? lenN c)) eqn:Eg; [exact I|].
      destruct (Hgot got Eg) as [-> ->]. cbn. auto.
    + specialize (IH e (need - lenN c) (got || (0 <? lenN c)) ltac:(lia)).
      destruct (read_full_go (need - lenN c) (got || (0 <? lenN c)) cs e) as [d r|r|]; [contradiction | | exact I].
      destruct IH as [Eg [H1 [H2 H3]]].
      destruct (Hgot got Eg) as [-> ->]. cbn [concat app]. auto.
Qed.

(* ------------------------------------------------------------ ReadLengthed on a written item *)
Lemma read_lengthed_ok cs e x rest :
  concat cs = write_lengthed x ++ rest -> lenN x <= max_lengthed -> lenN (concat cs) < two64 ->
  exists eof cs', read_lengthed (mkR cs e) = Ok (x, eof, mkR cs' e) /\ concat cs' = rest.
Proof.
  intros Hcat Hsm Hlt. pose proof (read_lengthed_refines cs e Hlt) as R. unfold stream_item_spec in R.
  rewrite Hcat in R. rewrite (rlbn_ok x rest _ eq_refl) in R by (rewrite <- Hcat; assumption).
  unfold small in R. destruct (N.leb_spec (lenN x) max_lengthed); [|lia].
  destruct R as [eof [cs' [E [Hc _]]]]. exists eof, cs'. split; assumption.
Qed.

Lemma read_lengthed_trunc cs e x s :
  write_lengthed x = concat cs ++ s -> s <> [] -> lenN x < two64 -> lenN (concat cs) < two64 ->
  read_lengthed (mkR cs e) = Err.
Proof.
  intros Hw Hs Hx Hlt. pose proof (read_lengthed_refines cs e Hlt) as R. unfold stream_item_spec in R.
  rewrite (rlbn_trunc x (concat cs) s _ Hw Hs eq_refl Hx) in R. exact R.
Qed.

Lemma read_bodies_ok bodies : forall cs e rest,
  concat cs = flat bodies ++ rest -> smalls bodies -> lenN (concat cs) < two64 ->
  exists cs', read_bodies (length bodies) (mkR cs e) = Ok (bodies, mkR cs' e) /\ concat cs' = rest.
Proof.
  induction bodies as [|x bodies IH]; intros cs e rest Hcat Hsm Hlt.
  - exists cs. split; [reflexivity | exact Hcat].
  - rewrite flat_cons, <- app_assoc in Hcat. inversion Hsm; subst.
    destruct (read_lengthed_ok cs e x _ Hcat H1 Hlt) as [eof [cs1 [E Hc1]]].
    cbn [length read_bodies]. rewrite E.
    destruct (IH cs1 e rest Hc1 H2) as [cs' [E2 Hc']].
    { rewrite Hc1. rewrite Hcat, lenN_app in Hlt. lia. }
    rewrite E2. exists cs'. split; [reflexivity | assumption].
Qed.

Lemma read_bodies_trunc bodies : forall cs e s,
  flat bodies = concat cs ++ s -> s <> [] -> smalls bodies -> lenN (flat bodies) < two64 ->
  read_bodies (length bodies) (mkR cs e) = Err.
Proof.
  induction bodies as [|x bodies IH]; intros cs e s Hcat Hs Hsm Hlt.
  - symmetry in Hcat. apply app_eq_nil in Hcat. tauto.
  - rewrite flat_cons in *. inversion Hsm; subst. cbn [length read_bodies].
    assert (Hx : lenN x < two64). { pose proof max_lengthed_lt. lia. }
    assert (Hcs : lenN (concat cs) < two64). { rewrite Hcat, lenN_app in Hlt. lia. }
    destruct (Nat.lt_ge_cases (length (concat cs)) (length (write_lengthed x))) as [Hc|Hc].
    + destruct (app_split_lt _ _ _ _ Hcat Hc) as [l [Hl [Hw _]]].
      rewrite (read_lengthed_trunc cs e x l Hw Hl Hx Hcs). reflexivity.
    + destruct (app_split_le _ _ _ _ Hcat Hc) as [p' [Hp Hm]].
      destruct (read_lengthed_ok cs e x p' Hp H1 Hcs) as [eof [cs1 [E Hc1]]].
      rewrite E. rewrite (IH cs1 e s); [reflexivity | rewrite Hc1; exact Hm | assumption | assumption |].
      rewrite lenN_app in Hlt. lia.
Qed.

(* ------------------------------------------------------------ frames *)
Lemma frame_write_some hdrs bodies tail w :
  frame_write hdrs bodies tail = Some w ->
  exists h, write_slice hdrs = Some h /\ w = frame_version ++ h ++ flat bodies ++ tail.
Proof.
  unfold frame_write. destruct (write_slice hdrs) as [h|]; [|discriminate].
  intros H. injection H as <-. exists h. split; reflexivity.
Qed.

Lemma frame_roundtrip hdrs bodies tail w cs e :
  frame_write hdrs bodies tail = Some w -> smalls hdrs -> smalls bodies ->
  concat cs = w -> e <> EndErr -> lenN w < two63 ->
  frame_read (length bodies) (mkR cs e) = Ok (frame_version, hdrs, bodies, tail).
Proof.
  intros Hw Hsh Hsb Hcat He Hlt. pose proof two63_lt_two64.
  destruct (frame_write_some _ _ _ _ Hw) as [h [Hh ->]].
  unfold frame_read, new_frame_reader. cbn [chunks fin].
  destruct (read_full_ok cs e 2 false frame_version (h ++ flat bodies ++ tail) ltac:(lia) Hcat eq_refl) as [cs1 [E1 Hc1]].
  rewrite E1.
  rewrite !lenN_app in Hlt.
  destruct (stream_roundtrip hdrs h (flat bodies ++ tail) cs1 e Hh Hsh Hc1) as [cs2 [E2 Hc2]].
  { rewrite !lenN_app. lia. }
  rewrite E2.
  destruct (read_bodies_ok bodies cs2 e tail Hc2 Hsb) as [cs3 [E3 Hc3]].
  { rewrite Hc2, lenN_app. lia. }
  rewrite E3. unfold read_all. cbn [fin chunks]. rewrite Hc3.
  destruct e; [reflexivity | reflexivity | congruence].
Qed.

(* every strict prefix of the framed part (version, header, lengthed bodies) is rejected *)
Lemma frame_truncation hdrs bodies w p s cs e :
  frame_write hdrs bodies [] = Some w -> smalls hdrs -> smalls bodies ->
  w = p ++ s -> s <> [] -> concat cs = p -> lenN w < two63 ->
  frame_read (length bodies) (mkR cs e) = Err.
Proof.
  intros Hw Hsh Hsb Hp Hs Hcat Hlt. pose proof two63_lt_two64.
  destruct (frame_write_some _ _ _ _ Hw) as [h [Hh Hw2]]. rewrite app_nil_r in Hw2.
  rewrite Hw2 in Hp, Hlt. clear Hw2.
  unfold frame_read, new_frame_reader. cbn [chunks fin].
  destruct (Nat.lt_ge_cases (length p) 2) as [Hp2|Hp2].
  - (* the version itself is cut *)
    pose proof (read_full_short cs e 2 false) as R. rewrite Hcat in R.
    specialize (R ltac:(unfold lenN; lia)).
    destruct (read_full_go 2 false cs e) as [d r|r|]; [contradiction | | reflexivity].
    destruct R as [_ [_ [Hr Hf]]]. destruct r as [cs1 e1]. cbn [chunks fin] in *. subst e1.
    unfold read_slice_stream, read_length, ensure_read. cbn [chunks fin]. change (8 <? 1) with false. cbv iota.
    rewrite (ensure_go_short cs1 e 8) by (rewrite ?Hr; cbn; lia). reflexivity.
  - destruct (app_split_le frame_version (h ++ flat bodies) p s Hp Hp2) as [p1 [Hp1 Hrest]].
    rewrite Hp1 in Hcat.
    destruct (read_full_ok cs e 2 false frame_version p1 ltac:(lia) Hcat eq_refl) as [cs1 [E1 Hc1]].
    rewrite E1. rewrite !lenN_app in Hlt.
    destruct (Nat.lt_ge_cases (length p1) (length h)) as [Hc|Hc].
    + destruct (app_split_lt _ _ _ _ Hrest Hc) as [l [Hl [Hhl _]]].
      rewrite (stream_truncation hdrs h p1 l cs1 e Hh Hhl Hl Hc1); [reflexivity | lia].
    + destruct (app_split_le _ _ _ _ Hrest Hc) as [p2 [Hp2' Hb]].
      destruct (stream_roundtrip hdrs h p2 cs1 e Hh Hsh) as [cs2 [E2 Hc2]].
      { rewrite Hc1. exact Hp2'. }
      { rewrite Hb, lenN_app in Hlt. rewrite lenN_app. lia. }
      rewrite E2. rewrite (read_bodies_trunc bodies cs2 e s); [reflexivity | rewrite Hc2; exact Hb | assumption | assumption | lia].
Qed.
