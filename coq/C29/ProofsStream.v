(* C29 -- the stream readers (EnsureRead, ReadLength, ReadLengthed, ReadLengthedSlice) refine the buffer readers
   on the concatenation of the chunks, for every chunking and every EOF policy. *)
From Coq Require Import String.
From Coq Require Import List NArith ZArith Bool Lia ZifyBool ZifyNat ZifyN.
From MV Require Import Common.Cases Gen.C29 C29.Model C29.ProofsBuf.
Import ListNotations.
Close Scope string_scope.
Open Scope list_scope.
Open Scope N_scope.

(* ------------------------------------------------------------ splitN *)
Lemma splitN_spec c : forall n,
  splitN c n = (firstn (N.to_nat n) c, skipn (N.to_nat n) c, n - lenN c).
Proof.
  induction c as [|x c IH]; intros n; cbn [splitN].
  - rewrite firstn_nil, skipn_nil. f_equal. rewrite lenN_nil. lia.
  - destruct (N.eqb_spec n 0) as [->|Hn].
    + reflexivity.
    + rewrite IH.
      assert (En : N.to_nat n = S (N.to_nat (n - 1))). { rewrite <- N2Nat.inj_succ. f_equal. clear IH. lia. }
      rewrite En. cbn [firstn skipn]. rewrite lenN_cons.
      replace (n - (1 + lenN c)) with (n - 1 - lenN c) by (clear IH; lia). reflexivity.
Qed.

Lemma skipn_nil_iff {A} (k : nat) (l : list A) : skipn k l = [] <-> (length l <= k)%nat.
Proof.
  split; intros H.
  - pose proof (skipn_length k l) as E. rewrite H in E. cbn in E. lia.
  - apply skipn_all2. assumption.
Qed.

(* ------------------------------------------------------------ EnsureRead *)
Lemma ensure_go_nopanic cs : forall need e, ensure_go need cs e <> Panic.
Proof.
  induction cs as [|c cs IH]; intros need e; cbn [ensure_go]; [discriminate|].
  destruct (splitN c need) as [[a b] m]. destruct b; [|discriminate].
  destruct (m =? 0); [discriminate|]. destruct (last_eof cs e); [discriminate|].
  specialize (IH m e). destruct (ensure_go m cs e) as [[[d f] r]| |]; try discriminate. congruence.
Qed.

Lemma last_eof_true cs e : last_eof cs e = true -> cs = [] /\ e = EndEOFWithLast.
Proof. destruct cs, e; cbn; intros; try discriminate. split; reflexivity. Qed.

Lemma ensure_go_inv cs : forall e need d eof r,
  0 < need -> ensure_go need cs e = Ok (d, eof, r) ->
  concat cs = d ++ concat (chunks r) /\ lenN d = need /\ fin r = e /\ (eof = true -> chunks r = []).
Proof.
  induction cs as [|c cs IH]; intros e need d eof r Hpos H; cbn [ensure_go] in H; [discriminate|].
  rewrite splitN_spec in H.
  destruct (skipn (N.to_nat need) c) as [|y t] eqn:Esk.
  - apply skipn_nil_iff in Esk. rewrite firstn_all2 in H by assumption.
    assert (Hc : lenN c <= need) by (unfold lenN; lia).
    destruct (N.eqb_spec (need - lenN c) 0) as [E0|E0].
    + injection H as <- <- <-. cbn [concat chunks fin]. repeat split; try lia.
      intros Ht. apply last_eof_true in Ht. tauto.
    + destruct (last_eof cs e) eqn:El; [discriminate|].
      destruct (ensure_go (need - lenN c) cs e) as [[[d' f'] r']| |] eqn:E; try discriminate.
      injection H as <- <- <-.
      destruct (IH e (need - lenN c) d' f' r' ltac:(lia) E) as [H1 [H2 [H3 H4]]].
      cbn [concat]. rewrite H1, app_assoc. repeat split; try assumption.
      rewrite lenN_app. lia.
  - injection H as <- <- <-. cbn [concat chunks fin].
    assert (Hlt : (N.to_nat need < length c)%nat).
    { destruct (Nat.lt_ge_cases (N.to_nat need) (length c)); [assumption|].
      apply skipn_nil_iff in H. congruence. }
    repeat split.
    + rewrite app_assoc, <- Esk, firstn_skipn. reflexivity.
    + unfold lenN. rewrite firstn_length_le by lia. lia.
    + discriminate.
Qed.

Lemma ensure_go_ok cs : forall e need a rest,
  0 < need -> concat cs = a ++ rest -> lenN a = need ->
  exists eof r, ensure_go need cs e = Ok (a, eof, r) /\ concat (chunks r) = rest /\ fin r = e /\ (eof = true -> rest = []).
Proof.
  induction cs as [|c cs IH]; intros e need a rest Hpos Hcat Hlen.
  - cbn in Hcat. symmetry in Hcat. apply app_eq_nil in Hcat. destruct Hcat as [-> _]. rewrite lenN_nil in Hlen. lia.
  - cbn [concat] in Hcat. cbn [ensure_go]. rewrite splitN_spec.
    destruct (Nat.le_gt_cases (length c) (length a)) as [Hle|Hgt].
    + destruct (app_split_le _ _ _ _ Hcat Hle) as [a' [-> Hcs]].
      rewrite lenN_app in Hlen.
      replace (skipn (N.to_nat need) c) with (@nil N).
      2:{ symmetry. apply skipn_nil_iff. unfold lenN in Hlen. lia. }
      rewrite firstn_all2 by (unfold lenN in Hlen; lia).
      destruct (N.eqb_spec (need - lenN c) 0) as [E0|E0].
      * assert (a' = []) by (apply lenN_zero; lia). subst a'. rewrite app_nil_r. cbn [app] in Hcs.
        exists (last_eof cs e), (mkR cs e). cbn [chunks fin]. repeat split; try assumption.
        intros Ht. apply last_eof_true in Ht. destruct Ht as [-> _]. cbn in Hcs. congruence.
      * destruct (last_eof cs e) eqn:El.
        { apply last_eof_true in El. destruct El as [-> _]. cbn in Hcs. symmetry in Hcs.
          apply app_eq_nil in Hcs. destruct Hcs as [-> _]. rewrite lenN_nil in Hlen. lia. }
        destruct (IH e (need - lenN c) a' rest ltac:(lia) Hcs ltac:(lia)) as [eof [r [E [H1 [H2 H3]]]]].
        rewrite E. exists eof, r. repeat split; assumption.
    + destruct (app_split_lt _ _ _ _ Hcat Hgt) as [l [Hl [-> ->]]].
      assert (Hn : N.to_nat need = length a) by (unfold lenN in Hlen; lia).
      rewrite Hn, firstn_len_app, skipn_len_app.
      destruct l as [|y l]; [congruence|].
      exists false, (mkR ((y :: l) :: cs) e). cbn [chunks fin concat]. repeat split; try reflexivity; discriminate.
Qed.

Lemma ensure_go_short cs e need :
  0 < need -> lenN (concat cs) < need -> ensure_go need cs e = Err.
Proof.
  intros Hpos Hlt. destruct (ensure_go need cs e) as [[[d f] r]| |] eqn:E; [| reflexivity |].
  - destruct (ensure_go_inv cs e need d f r Hpos E) as [H1 [H2 _]].
    rewrite H1, lenN_app in Hlt. lia.
  - exfalso. eapply ensure_go_nopanic; eassumption.
Qed.

(* ------------------------------------------------------------ ReadLengthed refines ReadLengthedBytes *)
Lemma rlbn_len n b x l n' : read_lengthed_bytes_n n b = Ok (x, l, n') -> n = lenN b -> n < two64 -> n' = lenN l /\ lenN l <= n.
Proof.
  unfold read_lengthed_bytes_n. intros H Hn Hlt.
  destruct (N.ltb_spec n 8); [discriminate|].
  destruct (N.ltb_spec (n - 8) (dec (firstn 8 b))); [discriminate|].
  rewrite N.mod_small in H by lia.
  destruct ((_ <? 8) || _); [discriminate|].
  injection H as _ <- <-. unfold lenN in *. rewrite skipn_length. lia.
Qed.

Definition stream_item_spec (cs : list bytes) (e : ending) (d : bytes) : Prop :=
  match read_lengthed_bytes_n (lenN d) d with
  | Ok (x, d', _) =>
      if small x
      then exists eof cs', read_lengthed (mkR cs e) = Ok (x, eof, mkR cs' e) /\ concat cs' = d' /\ (eof = true -> d' = [])
      else read_lengthed (mkR cs e) = Err
  | Err => read_lengthed (mkR cs e) = Err
  | Panic => True
  end.

Lemma read_lengthed_refines cs e : lenN (concat cs) < two64 -> stream_item_spec cs e (concat cs).
Proof.
  intros Hlt. unfold stream_item_spec. set (d := concat cs) in *.
  unfold read_lengthed_bytes_n, read_lengthed, read_length, ensure_read.
  cbn [chunks fin]. change (8 <? 1) with false. cbv iota.
  destruct (N.ltb_spec (lenN d) 8) as [H8|H8].
  - rewrite (ensure_go_short cs e 8) by (fold d; lia). reflexivity.
  - (* the length field *)
    assert (Hsplit : d = firstn 8 d ++ skipn 8 d) by (symmetry; apply firstn_skipn).
    assert (Hh : lenN (firstn 8 d) = 8).
    { unfold lenN in *. rewrite firstn_length_le by lia. reflexivity. }
    destruct (ensure_go_ok cs e 8 (firstn 8 d) (skipn 8 d) ltac:(lia) Hsplit Hh) as [f1 [r1 [E1 [Hr1 [Hf1 _]]]]].
    rewrite E1. destruct r1 as [cs1 e1]. cbn [chunks fin] in *. subst e1.
    remember (dec (firstn 8 d)) as i eqn:Hi.
    assert (Ht : lenN (skipn 8 d) = lenN d - 8).
    { unfold lenN. rewrite skipn_length. lia. }
    destruct (N.ltb_spec (lenN d - 8) i) as [Hshort|Hfit].
    + (* announced length exceeds what is left *)
      destruct (N.ltb_spec i 1); [lia|].
      destruct (max_lengthed <? i); [reflexivity|].
      destruct (N.ltb_spec i 1); [lia|].
      rewrite (ensure_go_short cs1 e i) by (rewrite ?Hr1; lia). reflexivity.
    + rewrite (N.mod_small (i + 8)) by lia.
      destruct (N.ltb_spec (i + 8) 8); [lia|].
      destruct (N.ltb_spec (lenN d) (i + 8)); [lia|].
      cbn [orb].
      assert (Hx : lenN (firstn (N.to_nat i) (skipn 8 d)) = i).
      { unfold lenN in *. rewrite firstn_length_le by (rewrite skipn_length; lia). lia. }
      assert (Hd' : skipn (N.to_nat (i + 8)) d = skipn (N.to_nat i) (skipn 8 d)).
      { rewrite skipn_add. f_equal. lia. }
      unfold small. rewrite Hx.
      destruct (N.ltb_spec i 1) as [Hz|Hnz].
      * assert (Hi0 : i = 0) by lia. rewrite Hi0 in *.
        change (0 <=? max_lengthed) with true. cbv iota.
        exists false, cs1. cbn [N.to_nat firstn]. repeat split.
        -- rewrite Hd'. cbn [N.to_nat skipn]. exact Hr1.
        -- discriminate.
      * destruct (N.leb_spec i max_lengthed) as [Hsm|Hbig].
        -- destruct (N.ltb_spec max_lengthed i); [lia|].
           destruct (N.ltb_spec i 1); [lia|].
           assert (Hs2 : concat cs1 = firstn (N.to_nat i) (skipn 8 d) ++ skipn (N.to_nat i) (skipn 8 d)).
           { rewrite firstn_skipn. exact Hr1. }
           destruct (ensure_go_ok cs1 e i _ _ ltac:(lia) Hs2 Hx) as [f2 [r2 [E2 [Hr2 [Hf2 Heof]]]]].
           rewrite E2. destruct r2 as [cs2 e2]. cbn [chunks fin] in *. subst e2.
           exists f2, cs2. rewrite Hd'. repeat split; assumption.
        -- destruct (N.ltb_spec max_lengthed i); [reflexivity | lia].
Qed.

(* ------------------------------------------------------------ the item loop *)
Definition all_small (m : list bytes) : bool := forallb small m.

Definition stream_items_spec (k : nat) (cs : list bytes) (e : ending) (d : bytes) : Prop :=
  match read_items_buf_n k (lenN d) d with
  | Ok (m, rest) =>
      if all_small m
      then exists cs', read_items_stream k (mkR cs e) = Ok (m, mkR cs' e) /\ concat cs' = rest
      else read_items_stream k (mkR cs e) = Err
  | Err => read_items_stream k (mkR cs e) = Err
  | Panic => True
  end.

Lemma read_items_refines k : forall cs e, lenN (concat cs) < two64 -> stream_items_spec k cs e (concat cs).
Proof.
  induction k as [|k IH]; intros cs e Hlt; unfold stream_items_spec; cbn [read_items_buf_n read_items_stream].
  - cbn. exists cs. split; reflexivity.
  - pose proof (read_lengthed_refines cs e Hlt) as Hitem. unfold stream_item_spec in Hitem.
    destruct (read_lengthed_bytes_n (lenN (concat cs)) (concat cs)) as [[[x d'] n']| |] eqn:E.
    2:{ rewrite Hitem. reflexivity. }
    2:{ exact I. }
    destruct (rlbn_len _ _ _ _ _ E eq_refl Hlt) as [Hn' Hle]. subst n'.
    destruct (small x) eqn:Esm.
    + destruct Hitem as [eof [cs' [Er [Hcs' Heof]]]]. rewrite Er.
      destruct (eof && negb (Nat.eqb k 0)) eqn:Eb.
      * (* io.EOF before the last item: nothing is left, the buffer reader fails too *)
        apply andb_prop in Eb. destruct Eb as [-> Hk]. specialize (Heof eq_refl). subst d'. rewrite Heof.
        destruct k; [discriminate|]. reflexivity.
      * subst d'. specialize (IH cs' e ltac:(lia)). unfold stream_items_spec in IH.
        destruct (read_items_buf_n k (lenN (concat cs')) (concat cs')) as [[xs rest]| |].
        2:{ rewrite IH. reflexivity. }
        2:{ exact I. }
        cbn [all_small forallb]. fold (all_small xs). rewrite Esm. cbn [andb].
        destruct (all_small xs).
        -- destruct IH as [cs'' [E2 Hc]]. rewrite E2. exists cs''. split; [reflexivity | assumption].
        -- rewrite IH. reflexivity.
    + rewrite Hitem.
      destruct (read_items_buf_n k (lenN d') d') as [[xs rest]| |].
      2:{ reflexivity. }
      2:{ exact I. }
      cbn [all_small forallb]. rewrite Esm. reflexivity.
Qed.

(* ------------------------------------------------------------ ReadLengthedSlice refines ReadLengthedBytesSlice *)
Definition stream_slice_spec (cs : list bytes) (e : ending) (d : bytes) : Prop :=
  match read_slice_buf d with
  | Ok (m, rest) =>
      if all_small m
      then exists cs', read_slice_stream (mkR cs e) = Ok (m, mkR cs' e) /\ concat cs' = rest
      else read_slice_stream (mkR cs e) = Err
  | Err => read_slice_stream (mkR cs e) = Err
  | Panic => True
  end.

Lemma stream_refines_buf cs e : lenN (concat cs) < two64 -> stream_slice_spec cs e (concat cs).
Proof.
  intros Hlt. unfold stream_slice_spec. set (d := concat cs) in *.
  unfold read_slice_buf, read_length_bytes, read_slice_stream, read_length, ensure_read.
  cbn [chunks fin]. change (8 <? 1) with false. cbv iota.
  destruct (N.ltb_spec (lenN d) 8) as [H8|H8].
  - rewrite (ensure_go_short cs e 8) by (fold d; lia). reflexivity.
  - assert (Hsplit : d = firstn 8 d ++ skipn 8 d) by (symmetry; apply firstn_skipn).
    assert (Hh : lenN (firstn 8 d) = 8).
    { unfold lenN in *. rewrite firstn_length_le by lia. reflexivity. }
    destruct (ensure_go_ok cs e 8 (firstn 8 d) (skipn 8 d) ltac:(lia) Hsplit Hh) as [f1 [r1 [E1 [Hr1 [Hf1 _]]]]].
    rewrite E1. destruct r1 as [cs1 e1]. cbn [chunks fin] in *. subst e1.
    remember (dec (firstn 8 d)) as i eqn:Hi.
    assert (Ht : lenN (skipn 8 d) = lenN d - 8).
    { unfold lenN. rewrite skipn_length. lia. }
    destruct (N.ltb_spec i 1) as [Hz|Hnz].
    + assert (Hi0 : i = 0) by lia. rewrite Hi0 in *.
      destruct (N.ltb_spec max_items 0); [lia|].
      cbn [N.to_nat read_items_buf_n all_small forallb].
      exists cs1. split; [reflexivity | exact Hr1].
    + destruct (max_items <? i); [reflexivity|].
      pose proof (read_items_refines (N.to_nat i) cs1 e) as Hloop.
      rewrite Hr1 in Hloop. specialize (Hloop ltac:(lia)). unfold stream_items_spec in Hloop.
      rewrite Ht in Hloop. exact Hloop.
Qed.

(* ------------------------------------------------------------ corollaries for streams *)
Lemma all_small_Forall m : Forall (fun x => lenN x <= max_lengthed) m -> all_small m = true.
Proof.
  intros H. unfold all_small. apply forallb_forall. intros x Hx.
  rewrite Forall_forall in H. specialize (H x Hx). unfold small. apply N.leb_le. assumption.
Qed.

Lemma stream_roundtrip m w rest cs e :
  write_slice m = Some w -> Forall (fun x => lenN x <= max_lengthed) m ->
  concat cs = w ++ rest -> lenN (w ++ rest) < two63 ->
  exists cs', read_slice_stream (mkR cs e) = Ok (m, mkR cs' e) /\ concat cs' = rest.
Proof.
  intros Hw Hsm Hcat Hlt. pose proof two63_lt_two64.
  pose proof (stream_refines_buf cs e) as R. rewrite Hcat in R. specialize (R ltac:(lia)).
  unfold stream_slice_spec in R. rewrite (buf_roundtrip m w rest Hw Hlt) in R.
  rewrite (all_small_Forall m Hsm) in R. exact R.
Qed.

Lemma stream_truncation m w p s cs e :
  write_slice m = Some w -> w = p ++ s -> s <> [] -> concat cs = p -> lenN w < two63 ->
  read_slice_stream (mkR cs e) = Err.
Proof.
  intros Hw Hp Hs Hcat Hlt. pose proof two63_lt_two64.
  pose proof (stream_refines_buf cs e) as R. rewrite Hcat in R.
  assert (lenN p < two64). { rewrite Hp, lenN_app in Hlt. lia. }
  specialize (R H0). unfold stream_slice_spec in R.
  rewrite (buf_truncation m w p s Hw Hp Hs Hlt) in R. exact R.
Qed.

Lemma stream_no_silent_drop cs e m r :
  bytes_ok (concat cs) -> lenN (concat cs) < two63 ->
  read_slice_stream (mkR cs e) = Ok (m, r) ->
  exists w, write_slice m = Some w /\ concat cs = w ++ concat (chunks r) /\ fin r = e.
Proof.
  intros Hb Hlt H. pose proof two63_lt_two64.
  pose proof (stream_refines_buf cs e ltac:(lia)) as R. unfold stream_slice_spec in R.
  pose proof (buf_nopanic (concat cs) ltac:(lia)) as Hnp.
  destruct (read_slice_buf (concat cs)) as [[m' rest]| |] eqn:E; cbv beta iota in R; [| congruence | congruence].
  destruct (all_small m'); [| congruence].
  destruct R as [cs' [E2 Hc]]. rewrite E2 in H. injection H as <- <-.
  destruct (buf_no_silent_drop _ _ _ Hb Hlt E) as [w [Hw Hcat]].
  exists w. cbn [chunks fin]. rewrite Hc. repeat split; assumption.
Qed.

Lemma stream_nopanic cs e : lenN (concat cs) < two64 -> read_slice_stream (mkR cs e) <> Panic.
Proof.
  intros Hlt. pose proof (stream_refines_buf cs e Hlt) as R. unfold stream_slice_spec in R.
  pose proof (buf_nopanic (concat cs) Hlt) as Hnp.
  destruct (read_slice_buf (concat cs)) as [[m' rest]| |]; cbv beta iota in R; [| congruence | congruence].
  destruct (all_small m'); [destruct R as [cs' [E _]]; congruence | congruence].
Qed.
