(* C29 -- lemmas about the big-endian codec and the buffer readers. *)
From Coq Require Import String.
From Coq Require Import List NArith ZArith Bool Lia ZifyBool ZifyNat ZifyN.
From MV Require Import Common.Cases Gen.C29 C29.Model.
Import ListNotations.
Close Scope string_scope.
Open Scope list_scope.
Open Scope N_scope.

Definition bytes_ok (b : bytes) : Prop := Forall (fun x => x < 256) b.
Definition small (x : bytes) : bool := lenN x <=? max_lengthed.

(* ------------------------------------------------------------ lists *)
Lemma lenN_app {A} (a b : list A) : lenN (a ++ b) = lenN a + lenN b.
Proof. unfold lenN. rewrite app_length. lia. Qed.

Lemma lenN_nil {A} : lenN (@nil A) = 0.
Proof. reflexivity. Qed.

Lemma lenN_cons {A} (x : A) l : lenN (x :: l) = 1 + lenN l.
Proof. unfold lenN. cbn [length]. lia. Qed.

Lemma lenN_zero {A} (l : list A) : lenN l = 0 -> l = [].
Proof. destruct l; [reflexivity|]. rewrite lenN_cons. lia. Qed.

Lemma to_nat_lenN {A} (l : list A) : N.to_nat (lenN l) = length l.
Proof. unfold lenN. apply Nat2N.id. Qed.

Lemma firstn_len_app {A} (a b : list A) : firstn (length a) (a ++ b) = a.
Proof. induction a; cbn; [destruct b; reflexivity | now rewrite IHa]. Qed.

Lemma skipn_len_app {A} (a b : list A) : skipn (length a) (a ++ b) = b.
Proof. induction a; cbn; [reflexivity | assumption]. Qed.

Lemma skipn_add {A} (b : nat) : forall (a : nat) (l : list A), skipn a (skipn b l) = skipn (b + a) l.
Proof.
  induction b; intros a l; [reflexivity|].
  destruct l; cbn [skipn Nat.add]; [now rewrite skipn_nil | apply IHb].
Qed.

Lemma Forall_firstn {A} (P : A -> Prop) (k : nat) (l : list A) : Forall P l -> Forall P (firstn k l).
Proof.
  intros H. rewrite <- (firstn_skipn k l) in H. apply Forall_app in H. tauto.
Qed.

Lemma app_split_le {A} (a b p s : list A) :
  a ++ b = p ++ s -> (length a <= length p)%nat -> exists p', p = a ++ p' /\ b = p' ++ s.
Proof.
  revert p. induction a as [|x a IH]; intros p H Hl.
  - exists p. split; [reflexivity | exact H].
  - destruct p as [|y p]; [cbn in Hl; lia|].
    cbn in H. injection H as -> H. cbn in Hl.
    destruct (IH p H ltac:(lia)) as [p' [-> ->]]. exists p'. split; reflexivity.
Qed.

Lemma app_split_lt {A} (a b p s : list A) :
  a ++ b = p ++ s -> (length p < length a)%nat -> exists l, l <> [] /\ a = p ++ l /\ s = l ++ b.
Proof.
  intros H Hl. symmetry in H.
  destruct (app_split_le p s a b H ltac:(lia)) as [l [-> ->]].
  exists l. split; [|split; reflexivity].
  intros ->. rewrite app_nil_r in Hl. lia.
Qed.

(* ------------------------------------------------------------ big endian *)
Lemma dec_app1 l b : dec (l ++ [b]) = dec l * 256 + b.
Proof. unfold dec. rewrite fold_left_app. reflexivity. Qed.

Lemma enc_length k n : length (enc k n) = k.
Proof. revert n. induction k; intros; cbn [enc]; [reflexivity|]. rewrite app_length, IHk. cbn. lia. Qed.

Lemma dec_enc k : forall n, n < 256 ^ N.of_nat k -> dec (enc k n) = n.
Proof.
  induction k; intros n H.
  - cbn in *. unfold dec. cbn. lia.
  - cbn [enc]. rewrite dec_app1. rewrite IHk.
    + pose proof (N.div_mod n 256 ltac:(lia)). lia.
    + rewrite Nat2N.inj_succ, N.pow_succ_r' in H.
      apply N.div_lt_upper_bound; lia.
Qed.

Lemma enc_bytes_ok k n : bytes_ok (enc k n).
Proof.
  revert n. induction k; intros; cbn [enc]; [constructor|].
  apply Forall_app. split; [apply IHk|]. constructor; [|constructor].
  apply N.mod_lt. lia.
Qed.

Lemma enc_dec l : bytes_ok l -> enc (length l) (dec l) = l.
Proof.
  induction l using rev_ind; intros H; [reflexivity|].
  apply Forall_app in H. destruct H as [H1 H2]. inversion H2; subst.
  rewrite app_length. cbn [length]. replace (length l + 1)%nat with (S (length l)) by lia.
  cbn [enc]. rewrite dec_app1.
  replace ((dec l * 256 + x) / 256) with (dec l).
  2:{ apply (N.div_unique _ 256 (dec l) x); lia. }
  replace ((dec l * 256 + x) mod 256) with x.
  2:{ apply (N.mod_unique _ 256 (dec l) x); lia. }
  rewrite IHl by assumption. reflexivity.
Qed.

Lemma dec_bound l : bytes_ok l -> dec l < 256 ^ lenN l.
Proof.
  induction l using rev_ind; intros H.
  - unfold dec. cbn. lia.
  - apply Forall_app in H. destruct H as [H1 H2]. inversion H2; subst.
    rewrite dec_app1, lenN_app. specialize (IHl H1).
    replace (lenN [x]) with 1 by reflexivity.
    rewrite N.pow_add_r. cbn [N.pow]. change (256 ^ 1) with 256. nia.
Qed.

Lemma u64be_length n : length (u64be n) = 8%nat.
Proof. apply enc_length. Qed.

Lemma lenN_u64be n : lenN (u64be n) = 8.
Proof. unfold lenN. rewrite u64be_length. reflexivity. Qed.

Lemma two64_pow : two64 = 256 ^ N.of_nat 8.
Proof. reflexivity. Qed.

Lemma dec_u64be n : n < two64 -> dec (u64be n) = n.
Proof.
  intros H. unfold u64be. rewrite N.mod_small by assumption.
  apply dec_enc. rewrite <- two64_pow. assumption.
Qed.

Lemma u64be_dec l : length l = 8%nat -> bytes_ok l -> u64be (dec l) = l.
Proof.
  intros Hl Hb. unfold u64be.
  pose proof (dec_bound l Hb) as Hd. unfold lenN in Hd. rewrite Hl in Hd.
  rewrite N.mod_small by (rewrite two64_pow; exact Hd).
  rewrite <- Hl. apply enc_dec. assumption.
Qed.

Lemma u64be_ok n : bytes_ok (u64be n).
Proof. apply enc_bytes_ok. Qed.

Lemma firstn8_u64be n t : firstn 8 (u64be n ++ t) = u64be n.
Proof. rewrite <- (u64be_length n) at 1. apply firstn_len_app. Qed.

Lemma skipn8_u64be n t : skipn 8 (u64be n ++ t) = t.
Proof. rewrite <- (u64be_length n) at 1. apply skipn_len_app. Qed.

Lemma two63_lt_two64 : two63 < two64.
Proof. reflexivity. Qed.

(* the limits are regenerated from util/bytes.go: these facts are re-checked whenever they change *)
Lemma max_items_lt : max_items < two64.
Proof. reflexivity. Qed.

Lemma max_lengthed_lt : max_lengthed < two64.
Proof. reflexivity. Qed.

(* ------------------------------------------------------------ ReadLengthedBytes *)
Lemma rlbn_ok x rest n :
  n = lenN (write_lengthed x ++ rest) -> n < two64 ->
  read_lengthed_bytes_n n (write_lengthed x ++ rest) = Ok (x, rest, lenN rest).
Proof.
  intros Hn Hlt. unfold write_lengthed in *. rewrite <- app_assoc in *.
  rewrite !lenN_app, lenN_u64be in Hn.
  unfold read_lengthed_bytes_n.
  destruct (N.ltb_spec n 8); [lia|].
  rewrite firstn8_u64be, skipn8_u64be, dec_u64be by lia.
  destruct (N.ltb_spec (n - 8) (lenN x)); [lia|].
  rewrite (N.mod_small (lenN x + 8)) by lia.
  destruct (N.ltb_spec (lenN x + 8) 8); [lia|].
  destruct (N.ltb_spec n (lenN x + 8)); [lia|].
  cbn [orb]. rewrite to_nat_lenN, firstn_len_app.
  replace (N.to_nat (lenN x + 8)) with (length (u64be (lenN x) ++ x)).
  2:{ rewrite app_length, u64be_length. unfold lenN. lia. }
  rewrite app_assoc, skipn_len_app.
  repeat f_equal. lia.
Qed.

Lemma rlbn_nopanic n b : n < two64 -> read_lengthed_bytes_n n b <> Panic.
Proof.
  intros Hlt. unfold read_lengthed_bytes_n.
  destruct (N.ltb_spec n 8); [discriminate|].
  destruct (N.ltb_spec (n - 8) (dec (firstn 8 b))); [discriminate|].
  rewrite N.mod_small by lia.
  destruct (N.ltb_spec (dec (firstn 8 b) + 8) 8); [lia|].
  destruct (N.ltb_spec n (dec (firstn 8 b) + 8)); [lia|].
  cbn [orb]. discriminate.
Qed.

(* inversion: whatever ReadLengthedBytes accepts is a written item followed by the remainder *)
Lemma rlbn_inv n b x l n' :
  read_lengthed_bytes_n n b = Ok (x, l, n') -> n = lenN b -> bytes_ok b -> n < two64 ->
  b = write_lengthed x ++ l /\ n' = lenN l.
Proof.
  unfold read_lengthed_bytes_n. intros H Hn Hb Hlt.
  destruct (N.ltb_spec n 8); [discriminate|].
  remember (skipn 8 b) as t eqn:Ht.
  remember (dec (firstn 8 b)) as i eqn:Hi.
  destruct (N.ltb_spec (n - 8) i); [discriminate|].
  rewrite (N.mod_small (i + 8)) in H by lia.
  destruct (N.ltb_spec (i + 8) 8); [lia|].
  destruct (N.ltb_spec n (i + 8)); [lia|].
  cbn [orb] in H. injection H as Hx Hl Hn'.
  assert (Hlen8 : length (firstn 8 b) = 8%nat).
  { apply firstn_length_le. unfold lenN in Hn. lia. }
  assert (Hsk : length t = N.to_nat (n - 8)).
  { subst t. rewrite skipn_length. unfold lenN in Hn. lia. }
  assert (Hxl : lenN x = i).
  { subst x. unfold lenN. rewrite firstn_length_le by lia. lia. }
  assert (Hl2 : l = skipn (N.to_nat i) t).
  { subst l t. rewrite skipn_add. f_equal. lia. }
  split.
  - unfold write_lengthed. rewrite Hxl. rewrite Hi at 1.
    rewrite u64be_dec; [| assumption | apply Forall_firstn; assumption ].
    rewrite <- app_assoc. rewrite <- (firstn_skipn 8 b) at 1. f_equal.
    rewrite <- Ht, <- Hx, Hl2. symmetry. apply firstn_skipn.
  - subst l. unfold lenN. rewrite skipn_length. unfold lenN in Hn. lia.
Qed.

Lemma rlbn_trunc x p s n :
  write_lengthed x = p ++ s -> s <> [] -> n = lenN p -> lenN x < two64 ->
  read_lengthed_bytes_n n p = Err.
Proof.
  intros H Hs Hn Hx. unfold read_lengthed_bytes_n.
  destruct (N.ltb_spec n 8); [reflexivity|].
  unfold write_lengthed in H.
  destruct (app_split_le (u64be (lenN x)) x p s H) as [p' [-> ->]].
  { rewrite u64be_length. unfold lenN in Hn. lia. }
  rewrite firstn8_u64be, dec_u64be by assumption.
  rewrite !lenN_app, lenN_u64be in *.
  assert (lenN s <> 0) by (intros E; apply Hs, lenN_zero; exact E).
  destruct (N.ltb_spec (n - 8) (lenN p' + lenN s)); [reflexivity | lia].
Qed.

(* ------------------------------------------------------------ item loop *)
Definition flat (m : list bytes) : bytes := flat_map write_lengthed m.

Lemma flat_cons x m : flat (x :: m) = write_lengthed x ++ flat m.
Proof. reflexivity. Qed.

Lemma rib_ok m : forall rest n,
  n = lenN (flat m ++ rest) -> n < two64 ->
  read_items_buf_n (length m) n (flat m ++ rest) = Ok (m, rest).
Proof.
  induction m as [|x m IH]; intros rest n Hn Hlt; [reflexivity|].
  rewrite flat_cons, <- app_assoc in *. cbn [length read_items_buf_n].
  rewrite (rlbn_ok x (flat m ++ rest) n Hn Hlt).
  rewrite IH; [reflexivity | reflexivity |].
  rewrite lenN_app in Hn. lia.
Qed.

Lemma rib_nopanic k : forall n b, n < two64 -> read_items_buf_n k n b <> Panic.
Proof.
  induction k; intros n b Hlt; cbn [read_items_buf_n]; [discriminate|].
  pose proof (rlbn_nopanic n b Hlt) as Hp.
  destruct (read_lengthed_bytes_n n b) as [[[x l] n']| |] eqn:E; try discriminate; [|congruence].
  assert (n' < two64).
  { unfold read_lengthed_bytes_n in E.
    destruct (n <? 8); [discriminate|]. destruct (n - 8 <? dec (firstn 8 b)); [discriminate|].
    destruct ((_ <? 8) || _); [discriminate|]. injection E as _ _ <-. lia. }
  specialize (IHk n' l H).
  destruct (read_items_buf_n k n' l) as [[xs r]| |]; try discriminate. congruence.
Qed.

Lemma rib_inv k : forall n b m rest,
  read_items_buf_n k n b = Ok (m, rest) -> n = lenN b -> bytes_ok b -> n < two64 ->
  length m = k /\ b = flat m ++ rest.
Proof.
  induction k; intros n b m rest H Hn Hb Hlt; cbn [read_items_buf_n] in H.
  - injection H as <- <-. split; reflexivity.
  - destruct (read_lengthed_bytes_n n b) as [[[x l] n']| |] eqn:E; try discriminate.
    destruct (read_items_buf_n k n' l) as [[xs r]| |] eqn:E2; try discriminate.
    injection H as <- <-.
    destruct (rlbn_inv n b x l n' E Hn Hb Hlt) as [Hb2 Hn2].
    assert (bytes_ok l). { rewrite Hb2 in Hb. apply Forall_app in Hb. tauto. }
    assert (n' < two64). { rewrite Hn2. rewrite Hb2, lenN_app in Hn. lia. }
    destruct (IHk n' l xs r E2 Hn2 H H0) as [Hlen Hl].
    split; [cbn; lia|]. rewrite flat_cons, <- app_assoc, <- Hl. exact Hb2.
Qed.

Lemma lenN_flat_item_bound x m : In x m -> lenN x <= lenN (flat m).
Proof.
  induction m; intros H; [contradiction|]. rewrite flat_cons, lenN_app.
  destruct H as [->|H].
  - unfold write_lengthed. rewrite lenN_app. lia.
  - specialize (IHm H). lia.
Qed.

Lemma rib_trunc m : forall p s n,
  flat m = p ++ s -> s <> [] -> n = lenN p -> lenN (flat m) < two64 ->
  read_items_buf_n (length m) n p = Err.
Proof.
  induction m as [|x m IH]; intros p s n H Hs Hn Hlt.
  - symmetry in H. apply app_eq_nil in H. tauto.
  - rewrite flat_cons in *. cbn [length read_items_buf_n].
    assert (Hx : lenN x < two64).
    { rewrite lenN_app in Hlt. unfold write_lengthed in Hlt. rewrite lenN_app in Hlt. lia. }
    destruct (Nat.lt_ge_cases (length p) (length (write_lengthed x))) as [Hc|Hc].
    + destruct (app_split_lt _ _ _ _ H Hc) as [l [Hl [Hw _]]].
      rewrite (rlbn_trunc x p l n Hw Hl Hn Hx). reflexivity.
    + destruct (app_split_le _ _ _ _ H Hc) as [p' [-> Hm]].
      rewrite (rlbn_ok x p' n Hn).
      2:{ rewrite Hn. rewrite lenN_app in *. rewrite Hm, lenN_app in Hlt. lia. }
      rewrite (IH p' s (lenN p') Hm Hs eq_refl).
      * reflexivity.
      * rewrite lenN_app in Hlt. lia.
Qed.

(* ------------------------------------------------------------ ReadLengthedBytesSlice *)
Lemma write_slice_some m w : write_slice m = Some w ->
  lenN m <= max_items /\ w = u64be (lenN m) ++ flat m.
Proof.
  unfold write_slice. destruct (N.ltb_spec max_items (lenN m)); [discriminate|].
  intros Hw. injection Hw as <-. split; [assumption | reflexivity].
Qed.

Lemma buf_roundtrip m w rest :
  write_slice m = Some w -> lenN (w ++ rest) < two63 ->
  read_slice_buf (w ++ rest) = Ok (m, rest).
Proof.
  intros Hw Hlt. apply write_slice_some in Hw. destruct Hw as [Hm ->].
  pose proof two63_lt_two64. pose proof max_items_lt.
  unfold read_slice_buf, read_length_bytes. rewrite <- app_assoc in *.
  rewrite lenN_app, lenN_u64be in *.
  destruct (N.ltb_spec (8 + lenN (flat m ++ rest)) 8); [lia|].
  rewrite firstn8_u64be, skipn8_u64be, dec_u64be by lia.
  destruct (N.ltb_spec max_items (lenN m)); [lia|].
  rewrite to_nat_lenN. apply rib_ok; lia.
Qed.

Lemma buf_truncation m w p s :
  write_slice m = Some w -> w = p ++ s -> s <> [] -> lenN w < two63 ->
  read_slice_buf p = Err.
Proof.
  intros Hw Hp Hs Hlt. apply write_slice_some in Hw. destruct Hw as [Hm ->].
  pose proof two63_lt_two64. pose proof max_items_lt.
  unfold read_slice_buf, read_length_bytes.
  destruct (N.ltb_spec (lenN p) 8); [reflexivity|].
  destruct (app_split_le _ _ _ _ Hp) as [p' [-> Hf]].
  { rewrite u64be_length. unfold lenN in *. lia. }
  rewrite lenN_app, lenN_u64be in *.
  rewrite firstn8_u64be, skipn8_u64be, dec_u64be by lia.
  destruct (N.ltb_spec max_items (lenN m)); [lia|].
  rewrite to_nat_lenN. apply (rib_trunc m p' s); try assumption; lia.
Qed.

Lemma buf_nopanic b : lenN b < two64 -> read_slice_buf b <> Panic.
Proof.
  intros Hlt. unfold read_slice_buf, read_length_bytes.
  destruct (lenN b <? 8); [discriminate|].
  destruct (max_items <? _); [discriminate|].
  apply rib_nopanic. lia.
Qed.

Lemma buf_no_silent_drop b m rest :
  bytes_ok b -> lenN b < two63 -> read_slice_buf b = Ok (m, rest) ->
  exists w, write_slice m = Some w /\ b = w ++ rest.
Proof.
  intros Hb Hlt H. pose proof two63_lt_two64.
  unfold read_slice_buf, read_length_bytes in H.
  destruct (N.ltb_spec (lenN b) 8); [discriminate|].
  destruct (N.ltb_spec max_items (dec (firstn 8 b))); [discriminate|].
  assert (Hsk : lenN (skipn 8 b) = lenN b - 8).
  { unfold lenN. rewrite skipn_length. lia. }
  assert (Hb2 : bytes_ok (skipn 8 b)).
  { rewrite <- (firstn_skipn 8 b) in Hb. apply Forall_app in Hb. tauto. }
  destruct (rib_inv _ _ _ _ _ H (eq_sym Hsk) Hb2 ltac:(lia)) as [Hlen Hfl].
  assert (Hm : lenN m = dec (firstn 8 b)). { unfold lenN. rewrite Hlen. lia. }
  exists (u64be (lenN m) ++ flat m). split.
  - unfold write_slice. destruct (N.ltb_spec max_items (lenN m)); [lia | reflexivity].
  - rewrite Hm, u64be_dec.
    + rewrite <- app_assoc, <- Hfl. symmetry. apply firstn_skipn.
    + apply firstn_length_le. unfold lenN in *. lia.
    + apply Forall_firstn. assumption.
Qed.
