(* C29 -- Length-prefixed framing round-trips and rejects bad input (util/bytes.go).  Property theorems only.

   Model: C29/Model.v.  Bytes are N values; a Go panic (slice bounds) is the explicit outcome Panic; an io.Reader is
   a list of chunks (one Read returns at most one chunk, zero-length reads allowed) plus an ending policy
   (io.EOF on the call after the last byte / together with the last bytes / a non-EOF error after the last byte).
   write_slice = WriteLengthedSlice / NewLengthedBytesSlice / BytesFrameWriter.Header (None = refused with an error);
   read_slice_buf = ReadLengthedBytesSlice; read_slice_stream = ReadLengthedSlice; frame_* = BytesFrame{Writer,Reader}.
   bytes_ok b: every element < 256 (a Go []byte).  lenN b < two63: the length fits a Go int.
   smalls m: every item is at most maxLengthedBytes long (the stream reader refuses longer items with an error). *)
From Coq Require Import String.
From Coq Require Import List NArith ZArith Bool.
From MV Require Import Gen.C29 C29.Model C29.ProofsBuf C29.ProofsStream C29.ProofsFrame.
Import ListNotations.
Close Scope string_scope.
Open Scope list_scope.
Open Scope N_scope.

(* The writer accepts exactly the lists of at most maxLengthBytes items -- the same (regenerated) constant the
   readers use, so everything that can be written can be read. *)
Theorem C29_writer_domain : forall m,
  (lenN m <= max_items -> exists w, write_slice m = Some w) /\
  (max_items < lenN m -> write_slice m = None).
Proof.
  intros m. unfold write_slice. split; intros H.
  - destruct (N.ltb_spec max_items (lenN m)); [exfalso; apply (N.lt_irrefl max_items); eapply N.lt_le_trans; eauto | eauto].
  - destruct (N.ltb_spec max_items (lenN m)); [reflexivity | exfalso; apply (N.lt_irrefl max_items); eapply N.lt_le_trans; eauto].
Qed.

(* Buffer round trip: whatever the writer accepts reads back identically; the bytes after it are returned untouched. *)
Theorem C29_buf_roundtrip : forall m w rest,
  write_slice m = Some w -> lenN (w ++ rest) < two63 ->
  read_slice_buf (w ++ rest) = Ok (m, rest).
Proof. exact buf_roundtrip. Qed.

(* Every strict prefix of a written buffer is rejected. *)
Theorem C29_buf_truncation : forall m w p s,
  write_slice m = Some w -> w = p ++ s -> s <> [] -> lenN w < two63 ->
  read_slice_buf p = Err.
Proof. exact buf_truncation. Qed.

(* Success never drops or invents data: an accepted buffer is exactly write(result) ++ rest. *)
Theorem C29_no_silent_drop : forall b m rest,
  bytes_ok b -> lenN b < two63 -> read_slice_buf b = Ok (m, rest) ->
  exists w, write_slice m = Some w /\ b = w ++ rest.
Proof. exact buf_no_silent_drop. Qed.

(* No input makes the buffer reader panic (b[8:i+8], b[i+8:] stay in range, uint64 wrap included). *)
Theorem C29_buf_never_panics : forall b, lenN b < two64 -> read_slice_buf b <> Panic.
Proof. exact buf_nopanic. Qed.

(* Chunking independence: for EVERY chunking and EVERY ending policy the stream reader returns what the buffer
   reader returns on the concatenation of the chunks and leaves exactly the unread rest in the reader -- except
   that it refuses (Err) lists holding an item longer than maxLengthedBytes. *)
Theorem C29_stream_refines_buf : forall cs e,
  lenN (concat cs) < two64 ->
  match read_slice_buf (concat cs) with
  | Ok (m, rest) =>
      if forallb (fun x => lenN x <=? max_lengthed) m
      then exists cs', read_slice_stream (mkR cs e) = Ok (m, mkR cs' e) /\ concat cs' = rest
      else read_slice_stream (mkR cs e) = Err
  | Err => read_slice_stream (mkR cs e) = Err
  | Panic => False
  end.
Proof.
  intros cs e H. pose proof (stream_refines_buf cs e H) as R. unfold stream_slice_spec in R.
  pose proof (buf_nopanic (concat cs) H) as P.
  destruct (read_slice_buf (concat cs)) as [[m rest]| |]; [exact R | exact R | congruence].
Qed.

(* Stream round trip for ANY chunking of the written bytes (followed by any other data) and any ending policy. *)
Theorem C29_stream_roundtrip : forall m w rest cs e,
  write_slice m = Some w -> smalls m ->
  concat cs = w ++ rest -> lenN (w ++ rest) < two63 ->
  exists cs', read_slice_stream (mkR cs e) = Ok (m, mkR cs' e) /\ concat cs' = rest.
Proof. exact stream_roundtrip. Qed.

(* A stream that ends (EOF in either style, or an I/O error) inside a written list is rejected, however chunked. *)
Theorem C29_stream_truncation : forall m w p s cs e,
  write_slice m = Some w -> w = p ++ s -> s <> [] -> concat cs = p -> lenN w < two63 ->
  read_slice_stream (mkR cs e) = Err.
Proof. exact stream_truncation. Qed.

(* Stream success never drops or invents data: consumed bytes = write(result), the rest is still in the reader. *)
Theorem C29_stream_no_silent_drop : forall cs e m r,
  bytes_ok (concat cs) -> lenN (concat cs) < two63 ->
  read_slice_stream (mkR cs e) = Ok (m, r) ->
  exists w, write_slice m = Some w /\ concat cs = w ++ concat (chunks r) /\ fin r = e.
Proof. exact stream_no_silent_drop. Qed.

Theorem C29_stream_never_panics : forall cs e, lenN (concat cs) < two64 -> read_slice_stream (mkR cs e) <> Panic.
Proof. exact stream_nopanic. Qed.

(* EnsureRead, the primitive under all stream readers: any chunking of a ++ rest yields exactly a. *)
Theorem C29_ensure_read_exact : forall cs e a rest,
  0 < lenN a -> concat cs = a ++ rest ->
  exists eof cs', ensure_read (lenN a) (mkR cs e) = Ok (a, eof, mkR cs' e) /\ concat cs' = rest /\ (eof = true -> rest = []).
Proof.
  intros cs e a rest Hpos Hcat. unfold ensure_read. cbn [chunks fin].
  destruct (N.ltb_spec (lenN a) 1) as [H|H].
  - exfalso. apply N.lt_1_r in H. rewrite H in Hpos. exact (N.lt_irrefl 0 Hpos).
  - destruct (ensure_go_ok cs e (lenN a) a rest Hpos Hcat eq_refl) as [eof [[cs' e'] [E [H1 [H2 H3]]]]].
    cbn [chunks fin] in *. subst e'. exists eof, cs'. repeat split; assumption.
Qed.

Theorem C29_ensure_read_short : forall cs e k,
  lenN (concat cs) < k -> ensure_read k (mkR cs e) = Err.
Proof.
  intros cs e k H. unfold ensure_read. cbn [chunks fin].
  destruct (N.ltb_spec k 1) as [H1|H1].
  - exfalso. apply N.lt_1_r in H1. subst k. exact (N.nlt_0_r _ H).
  - apply ensure_go_short; [|assumption]. eapply N.lt_le_trans; [|exact H1]. reflexivity.
Qed.

(* Frames: version, header list, lengthed bodies and an unframed tail read back identically under any chunking. *)
Theorem C29_frame_roundtrip : forall hdrs bodies tail w cs e,
  frame_write hdrs bodies tail = Some w -> smalls hdrs -> smalls bodies ->
  concat cs = w -> e <> EndErr -> lenN w < two63 ->
  frame_read (length bodies) (mkR cs e) = Ok (frame_version, hdrs, bodies, tail).
Proof. exact frame_roundtrip. Qed.

(* Every strict prefix of the framed part of a frame is rejected, however chunked and however the stream ends. *)
Theorem C29_frame_truncation : forall hdrs bodies w p s cs e,
  frame_write hdrs bodies [] = Some w -> smalls hdrs -> smalls bodies ->
  w = p ++ s -> s <> [] -> concat cs = p -> lenN w < two63 ->
  frame_read (length bodies) (mkR cs e) = Err.
Proof. exact frame_truncation. Qed.

(* non-vacuity *)
Example C29_ex_roundtrip :
  write_slice [[1; 2]; []; [255]] = Some (u64be 3 ++ u64be 2 ++ [1; 2] ++ u64be 0 ++ u64be 1 ++ [255]) /\
  read_slice_buf (u64be 3 ++ u64be 2 ++ [1; 2] ++ u64be 0 ++ u64be 1 ++ [255] ++ [7; 7]) = Ok ([[1; 2]; []; [255]], [7; 7]).
Proof. split; vm_compute; reflexivity. Qed.

(* formerly: 40000 items read back as (nil, nil, nil); and the limit is exactly where the writer stops *)
Example C29_ex_too_many :
  read_slice_buf (u64be 40000 ++ flat (repeat [171] 40)) = Err /\
  write_slice (repeat [] (N.to_nat 9)) <> None.
Proof. split; vm_compute; [reflexivity | discriminate]. Qed.

(* formerly failing: the first Read delivers one byte of the frame *)
Example C29_ex_frame_one_byte_first :
  exists w, frame_write [[97]; [98; 99]] [[1; 2; 3]] [9] = Some w /\
  frame_read 1 (mkR (firstn 1 w :: skipn 1 w :: nil) EndEOFWithLast) = Ok ([0; 0], [[97]; [98; 99]], [[1; 2; 3]], [9]) /\
  frame_read 1 (mkR (map (fun x => [x]) w) EndEOF) = Ok ([0; 0], [[97]; [98; 99]], [[1; 2; 3]], [9]).
Proof. eexists. split; [vm_compute; reflexivity|]. split; vm_compute; reflexivity. Qed.

Example C29_ex_stream_truncated :
  read_slice_stream (mkR [u64be 1; u64be 2; [5]] EndEOFWithLast) = Err /\
  read_slice_stream (mkR [u64be 1; u64be 2; [5]; []; [6]; [7]] EndErr) = Ok ([[5; 6]], mkR [[7]] EndErr).
Proof. split; vm_compute; reflexivity. Qed.
