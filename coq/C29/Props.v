(* C29 -- Length-prefixed framing round-trips and rejects bad input (util/bytes.go).  Property theorems only.
   Model: C29/Model.v (bytes = N values, Go panics = explicit Panic, io.Reader = chunk list + EOF policy).
   bytes_ok b  = every element is < 256 (a Go []byte);  lenN b < two63 = the length fits a Go int. *)
From Coq Require Import String.
From Coq Require Import List NArith ZArith Bool.
From MV Require Import Gen.C29 C29.Model C29.ProofsBuf.
Import ListNotations.
Close Scope string_scope.
Open Scope list_scope.
Open Scope N_scope.

(* Buffer round trip: whatever WriteLengthedSlice accepts reads back identically, and the bytes after it are
   returned untouched. *)
Theorem C29_buf_roundtrip : forall m w rest,
  write_slice m = Some w -> lenN (w ++ rest) < two63 ->
  read_slice_buf (w ++ rest) = Ok (m, rest).
Proof. exact buf_roundtrip. Qed.

(* The writer accepts exactly the lists of at most maxLengthBytes items (the same constant the readers use). *)
Theorem C29_writer_domain : forall m,
  (lenN m <= max_items -> exists w, write_slice m = Some w) /\
  (max_items < lenN m -> write_slice m = None).
Proof.
  intros m. unfold write_slice. split; intros H.
  - destruct (N.ltb_spec max_items (lenN m)); [exfalso; apply (N.lt_irrefl max_items); eapply N.lt_le_trans; eauto | eauto].
  - destruct (N.ltb_spec max_items (lenN m)); [reflexivity | exfalso; apply (N.lt_irrefl max_items); eapply N.lt_le_trans; eauto].
Qed.

(* Every strict prefix of a written buffer is rejected. *)
Theorem C29_buf_truncation : forall m w p s,
  write_slice m = Some w -> w = p ++ s -> s <> [] -> lenN w < two63 ->
  read_slice_buf p = Err.
Proof. exact buf_truncation. Qed.

(* Success never drops or invents data: an accepted buffer is exactly write(result) ++ rest. *)
Theorem C29_no_silent_drop : forall b m rest,
  bytes_ok b -> lenN b < two63 -> read_slice_buf b = Ok (m, rest) ->
  exists w, write_slice m = Some w /\ b = w ++ rest.
Proof. exact buf_no_silent_drop. Qed.

(* No input makes the buffer reader panic (the slice expressions b[8:i+8], b[i+8:] stay in range). *)
Theorem C29_buf_never_panics : forall b, lenN b < two64 -> read_slice_buf b <> Panic.
Proof. exact buf_nopanic. Qed.

(* non-vacuity *)
Example C29_ex_roundtrip :
  write_slice [[1; 2]; []; [255]] = Some (u64be 3 ++ u64be 2 ++ [1; 2] ++ u64be 0 ++ u64be 1 ++ [255]) /\
  read_slice_buf (u64be 3 ++ u64be 2 ++ [1; 2] ++ u64be 0 ++ u64be 1 ++ [255] ++ [7; 7]) = Ok ([[1; 2]; []; [255]], [7; 7]).
Proof. split; vm_compute; reflexivity. Qed.

Example C29_ex_too_many : read_slice_buf (u64be 40000 ++ flat (repeat [171] 40)) = Err /\ write_slice (repeat [] 32768) = None.
Proof. split; vm_compute; reflexivity. Qed.
