(* C35 -- ACL precedence.  Transcribes launch/acl.go:

     func (acl *ACL) Allow(user, scope, required) (ACLPerm, bool)
     func ( *ACL) fromDefault(perms, required) (assigned ACLPerm, allow bool)
     func (acl *ACL) allow(user, scope, required) (assigned ACLPerm, allow bool)
     func (p ACLPerm) IsValid / String / MarshalText,  func (p *ACLPerm) UnmarshalText
     func convertACLPerm(i interface{}) (the string branch: the only one YAML reaches)

   ACLPerm is a uint8: modelled as Z in [0,255] (the only arithmetic that can wrap is the conversion
   ACLPerm(strings.Count(t,"o")) in UnmarshalText, written out as [mod 256]).
   The lock-protected map  user -> (scope -> perm)  is an association list with first-match lookup
   (Go maps have unique keys; the harness renders each key once).
   Constants (prohibit = 1, super = 79, "_default") come from coq/Gen/C35.v, regenerated from acl.go. *)
From Coq Require Import ZArith List String Ascii Bool.
From MV Require Import Gen.C35.
Import ListNotations.
Open Scope Z_scope.

Definition perms := list (string * Z).               (* map[ACLScope]ACLPerm *)
Record acl := mkACL { superuser : string; users : list (string * perms) }.

Fixpoint lookup {A} (k : string) (m : list (string * A)) : option A :=
  match m with
  | [] => None
  | (k', v) :: r => if String.eqb k k' then Some v else lookup k r
  end.

(* fromDefault *)
Definition from_default (ps : perms) (required : Z) : Z * bool :=
  match lookup acl_default_scope ps with
  | Some p => (p, required <=? p)
  | None => (0, false)
  end.

(* allow *)
Definition allow1 (a : acl) (user scope : string) (required : Z) : Z * bool :=
  match lookup user (users a) with
  | None => (0, false)
  | Some ps =>
      match lookup scope ps with
      | None => from_default ps required
      | Some p => (p, required <=? p)
      end
  end.

(* Allow *)
Definition Allow (a : acl) (user scope : string) (required : Z) : Z * bool :=
  if required =? acl_perm_prohibit then (acl_perm_prohibit, false)
  else if String.eqb user (superuser a) then (acl_perm_super, true)
  else
    let r := allow1 a user scope required in
    if acl_perm_prohibit <=? fst r then r
    else allow1 a acl_default_user scope required.

(* ---- installing tables: ACL.setUser and YAMLACL.Import / loadACLFromYAML ----
   setUser(user, m): refused for the superuser; an empty m removes the user; otherwise the user's table becomes m
   (when the LockedMap already holds an equal table -- compareACLUserValues -- the set is skipped: same content).
   Import(yaml of tbl): when the parsed table differs from the installed one (compareACLUserValues per user, both
   directions) the map is emptied and every user with a non-empty table is set; otherwise nothing is done: in both
   cases the installed table is tbl afterwards.  Tables naming the superuser and empty YAML are not modelled. *)

Fixpoint remove_user {A} (u : string) (m : list (string * A)) : list (string * A) :=
  match m with
  | [] => []
  | (k, v) :: r => if String.eqb u k then remove_user u r else (k, v) :: remove_user u r
  end.

Inductive install :=
| ISet (user : string) (m : perms)
| IImport (tbl : list (string * perms)).

Definition apply_install (a : acl) (i : install) : acl :=
  match i with
  | ISet u m =>
      if String.eqb u (superuser a) then a
      else match m with
           | [] => mkACL (superuser a) (remove_user u (users a))
           | _ => mkACL (superuser a) ((u, m) :: remove_user u (users a))
           end
  | IImport tbl => mkACL (superuser a) (filter (fun e => match snd e with [] => false | _ => true end) tbl)
  end.

(* ---- the specification side: the documented precedence chain ---- *)

Definition cell (a : acl) (user scope : string) : option Z :=
  match lookup user (users a) with
  | None => None
  | Some ps => lookup scope ps
  end.

Fixpoint first_some {A} (l : list (option A)) : option A :=
  match l with
  | [] => None
  | Some x :: _ => Some x
  | None :: r => first_some r
  end.

Definition chain (a : acl) (user scope : string) : list (option Z) :=
  [ cell a user scope; cell a user acl_default_scope;
    cell a acl_default_user scope; cell a acl_default_user acl_default_scope ].

Definition decided_by (a : acl) (user scope : string) : option Z := first_some (chain a user scope).

(* every stored permission is a valid one (what YAML import guarantees: convertACLPerm ends in IsValid) *)
Definition perm_valid (p : Z) : bool := (1 <=? p) && (p <=? acl_perm_super).
Definition table_valid (a : acl) : Prop :=
  forall u ps s p, In (u, ps) (users a) -> In (s, p) ps -> perm_valid p = true.

(* ---- permission text ---- *)

Fixpoint repeat_o (n : nat) : string :=
  match n with O => EmptyString | S k => String "o" (repeat_o k) end.

(* ACLPerm.String *)
Definition perm_string (p : Z) : string :=
  if p =? 0 then "<empty perm>"%string
  else if p =? acl_perm_prohibit then "x"%string
  else if p =? acl_perm_super then "s"%string
  else repeat_o (Z.to_nat (p - 1)).

(* regexp `^o+$` (hand-coded; Props ties the source pattern string to this matcher) *)
Fixpoint all_o (s : string) : bool :=
  match s with
  | EmptyString => true
  | String c r => Ascii.eqb c "o" && all_o r
  end.
Definition perm_regexp_source : string := "^o+$".
Definition match_o_plus (s : string) : bool :=
  match s with EmptyString => false | _ => all_o s end.

Fixpoint count_o (s : string) : Z :=
  match s with
  | EmptyString => 0
  | String c r => (if Ascii.eqb c "o" then 1 else 0) + count_o r
  end.

(* ACLPerm.UnmarshalText ; None = error *)
Definition perm_parse (t : string) : option Z :=
  if String.eqb t "x" then Some acl_perm_prohibit
  else if String.eqb t "s" then Some acl_perm_super
  else if (Z.of_nat (String.length t) <? 1) then None
  else if negb (match_o_plus t) then None
  else
    let c := (count_o t) mod 256 in                       (* ACLPerm(int): uint8 conversion *)
    let c := if c >? acl_perm_super then acl_perm_super else c in
    Some ((c + 1) mod 256).

(* convertACLPerm on a YAML string: UnmarshalText then IsValid *)
Definition convert_perm (t : string) : option Z :=
  match perm_parse t with
  | Some p => if perm_valid p then Some p else None
  | None => None
  end.

(* ---- correspondence cases ----
   An observed answer (assigned, allow) of the real ACL.Allow is coded as 2*assigned + (1 if allow).
   Users are rendered by short aliases of the public-key strings (injective, "_default" kept as is):
   the code only ever compares user strings for equality. *)

Definition code (x : Z * bool) : Z := 2 * fst x + (if snd x then 1 else 0).

Definition grid_answers (a : acl) (us ss : list string) (rs : list Z) : list Z :=
  flat_map (fun u => flat_map (fun s => map (fun r => code (Allow a u s r)) rs) ss) us.

Fixpoint zlist_eqb (x y : list Z) : bool :=
  match x, y with
  | [], [] => true
  | a :: x', b :: y' => Z.eqb a b && zlist_eqb x' y'
  | _, _ => false
  end.

Inductive case :=
| CGrid (super : string) (tbl : list (string * perms)) (us ss : list string) (rs : list Z)
        (observed : list Z)            (* answers for every u in us, s in ss, r in rs, in that order *)
| CAllow (super : string) (tbl : list (string * perms))
         (queries : list (string * string * Z * Z))   (* user, scope, required, observed code *)
| CHist (super : string) (us ss : list string) (rs : list Z)
        (steps : list (list install * list Z))        (* successive installs on ONE ACL; after each group the grid answers *)
| CPrint (p : Z) (observed : string)
| CParse (t : string) (observed : option Z)           (* UnmarshalText: Some p / None = error *)
| CParseO (n : Z) (observed : option Z)               (* the same for the text of n 'o's *)
| CConvert (t : string) (observed : option Z)         (* convertACLPerm via YAML import: accepted as p / rejected *)
| CConvertO (n : Z) (observed : option Z).

Definition optZ_eqb (x y : option Z) : bool :=
  match x, y with Some a, Some b => Z.eqb a b | None, None => true | _, _ => false end.

Fixpoint check_hist (a : acl) (us ss : list string) (rs : list Z) (steps : list (list install * list Z)) : bool :=
  match steps with
  | [] => true
  | (is, obs) :: r =>
      let a' := fold_left apply_install is a in
      zlist_eqb (grid_answers a' us ss rs) obs && check_hist a' us ss rs r
  end.

Definition check (c : case) : bool :=
  match c with
  | CHist su us ss rs steps => check_hist (mkACL su []) us ss rs steps
  | CGrid su tbl us ss rs obs => zlist_eqb (grid_answers (mkACL su tbl) us ss rs) obs
  | CAllow su tbl qs =>
      let a := mkACL su tbl in
      forallb (fun q => let '(u, s, r, obs) := q in Z.eqb (code (Allow a u s r)) obs) qs
  | CPrint p obs => String.eqb (perm_string p) obs
  | CParse t obs => optZ_eqb (perm_parse t) obs
  | CParseO n obs => optZ_eqb (perm_parse (repeat_o (Z.to_nat n))) obs
  | CConvert t obs => optZ_eqb (convert_perm t) obs
  | CConvertO n obs => optZ_eqb (convert_perm (repeat_o (Z.to_nat n))) obs
  end.
