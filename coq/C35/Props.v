(* C35 -- Access control decisions follow the documented precedence.  Property theorems only. *)
From Coq Require Import ZArith List String Bool.
From MV Require Import Gen.C35 C35.Model C35.Proofs.
Import ListNotations.
Open Scope Z_scope.

(* the constants the model takes from launch/acl.go (regenerated each run) have the values the
   statements below are about; the regexp source in acl.go is the pattern the hand-coded matcher implements *)
Theorem C35_consts : acl_perm_prohibit = 1 /\ acl_perm_super = 79 /\ acl_perm_read = 2 /\ acl_perm_write = 3
  /\ acl_default_scope = "_default"%string /\ acl_default_user = "_default"%string
  /\ acl_perm_regexp = perm_regexp_source.
Proof. exact consts. Qed.

Theorem C35_regexp_matcher : forall s, match_o_plus s = true <-> exists n, s = repeat_o (S n).
Proof. exact match_o_plus_spec. Qed.

(* For every table of valid permissions, every non-super user, every scope and every required
   permission other than prohibit: the decision is that of the first defined entry among
   user.scope, user._default, _default.scope, _default._default (allowed iff that entry >= required),
   and nobody is allowed when none is defined. *)
Theorem C35_precedence : forall a u s r,
  table_valid a -> r <> acl_perm_prohibit -> u <> superuser a ->
  Allow a u s r =
  match first_some [cell a u s; cell a u acl_default_scope;
                    cell a acl_default_user s; cell a acl_default_user acl_default_scope] with
  | Some p => (p, r <=? p)
  | None => (0, false)
  end.
Proof. exact allow_precedence. Qed.

(* An explicit prohibit always denies: when the deciding entry is a prohibit, every request with a
   non-zero required permission is denied ... *)
Theorem C35_prohibit_denies : forall a u s r,
  table_valid a -> u <> superuser a -> 0 < r ->
  decided_by a u s = Some acl_perm_prohibit -> snd (Allow a u s r) = false.
Proof. exact prohibit_denies. Qed.

(* ... and, for any table whatsoever (valid or not), whoever is allowed other than the superuser holds
   an assigned permission >= required, which is never the prohibit value *)
Theorem C35_allowed_only_by_sufficient_perm : forall a u s r p,
  u <> superuser a -> Allow a u s r = (p, true) -> r <= p /\ (0 < r -> p <> acl_perm_prohibit).
Proof. exact allowed_means_assigned_ge. Qed.

(* The superuser is always allowed, whatever the table says (required = prohibit is not a permission one
   can require: the code answers (prohibit, false) to everybody, see C35_required_prohibit_edge) *)
Theorem C35_super : forall a s r, r <> acl_perm_prohibit ->
  Allow a (superuser a) s r = (acl_perm_super, true).
Proof. exact super_allowed. Qed.

Theorem C35_required_prohibit_edge : forall a u s, Allow a u s acl_perm_prohibit = (acl_perm_prohibit, false).
Proof. exact required_prohibit_denies. Qed.

(* All 79 valid permissions print to a text that parses back to the same permission. *)
Theorem C35_perm_roundtrip : forall p, 1 <= p <= acl_perm_super -> perm_parse (perm_string p) = Some p.
Proof. exact perm_roundtrip. Qed.

Theorem C35_perm_print_injective : forall p q,
  1 <= p <= acl_perm_super -> 1 <= q <= acl_perm_super -> perm_string p = perm_string q -> p = q.
Proof. exact perm_string_injective. Qed.

(* Conversely a text (shorter than 256 characters) that parses to a valid permission is the printed form
   of that permission, with one alias: 78 o's also denote the super permission 79 (printed "s"). *)
Theorem C35_perm_parse_canonical : forall t p,
  perm_parse t = Some p -> perm_valid p = true -> (String.length t < 256)%nat ->
  perm_string p = t \/ (p = acl_perm_super /\ t = repeat_o 78).
Proof. exact perm_parse_canonical. Qed.

(* what the YAML import path stores is always a valid permission: the hypothesis of C35_precedence
   is established by convertACLPerm *)
Theorem C35_import_stores_valid : forall t p, convert_perm t = Some p -> 1 <= p <= acl_perm_super.
Proof. exact convert_perm_valid. Qed.

(* Decisions follow the LAST installed table: after setUser(u, m) the cells of u are exactly those of m (a scope
   that m no longer names is gone), the other users' cells are unchanged; the superuser's entry cannot be set.
   (Import installs the given table as a whole: by definition of the model, tied by the install histories of the harness.) *)
Theorem C35_set_user_cells : forall a u m u' s, u <> superuser a ->
  cell (apply_install a (ISet u m)) u' s = if String.eqb u' u then lookup s m else cell a u' s.
Proof. exact set_user_cells. Qed.

Theorem C35_set_super_refused : forall a m, apply_install a (ISet (superuser a) m) = a.
Proof. exact set_super_refused. Qed.

(* non-vacuity *)
Definition ex_acl : acl := mkACL "root"
  [ ("_default", [("_default", 1); ("design", 2)]);
    ("alice", [("acl", 3); ("_default", 2)]);
    ("bob", [("design", 1)]) ]%string.

Example C35_ex_valid : table_valid ex_acl.
Proof.
  unfold table_valid, ex_acl. cbn [users]. intros u ps s p H1 H2.
  repeat (destruct H1 as [H1|H1]; [inversion H1; subst; clear H1;
    repeat (destruct H2 as [H2|H2]; [inversion H2; reflexivity|]); contradiction|]).
  contradiction.
Qed.

Example C35_ex_allow :
  Allow ex_acl "alice" "acl" 3 = (3, true) /\ Allow ex_acl "alice" "design" 3 = (2, false) /\
  Allow ex_acl "bob" "design" 2 = (1, false) /\ Allow ex_acl "bob" "acl" 2 = (1, false) /\
  Allow ex_acl "carol" "design" 2 = (2, true) /\ Allow ex_acl "root" "x" 255 = (79, true) /\
  decided_by ex_acl "bob" "design" = Some acl_perm_prohibit.
Proof. vm_compute. repeat split. Qed.

(* edge outside the property's domain: required = 0 is not a valid permission; a prohibit entry "allows" it *)
Example C35_ex_required_zero : Allow ex_acl "bob" "design" 0 = (1, true).
Proof. vm_compute. reflexivity. Qed.

(* edge: an invalid stored 0 shadows the user's default (hence the table_valid hypothesis) *)
Example C35_ex_stored_zero :
  Allow (mkACL "root" [("u", [("s", 0); ("_default", 3)]); ("_default", [("s", 1)])]%string) "u" "s" 2 = (1, false).
Proof. vm_compute. reflexivity. Qed.

Example C35_ex_alias : perm_parse (repeat_o 78) = Some 79 /\ perm_string 79 = "s"%string.
Proof. vm_compute. split; reflexivity. Qed.
