(* C35 -- lemmas about the model of launch/acl.go *)
From Coq Require Import ZArith List String Ascii Bool Lia.
From MV Require Import Gen.C35 C35.Model.
Import ListNotations.
Open Scope Z_scope.

Lemma consts : acl_perm_prohibit = 1 /\ acl_perm_super = 79 /\ acl_perm_read = 2 /\ acl_perm_write = 3
  /\ acl_default_scope = "_default"%string /\ acl_default_user = "_default"%string
  /\ acl_perm_regexp = perm_regexp_source.
Proof. repeat split; reflexivity. Qed.

Lemma lookup_In : forall A k (m : list (string * A)) v, lookup k m = Some v -> In (k, v) m.
Proof.
  induction m as [|[k' v'] m IH]; simpl; intros v H; [discriminate|].
  destruct (String.eqb k k') eqn:E.
  - apply String.eqb_eq in E. inversion H. subst. now left.
  - right. now apply IH.
Qed.

Lemma valid_ge1 : forall p, perm_valid p = true -> 1 <= p <= acl_perm_super.
Proof. unfold perm_valid. intros p H. apply andb_true_iff in H. destruct H. lia. Qed.

Lemma cell_valid : forall a u s p, table_valid a -> cell a u s = Some p -> 1 <= p <= acl_perm_super.
Proof.
  unfold cell. intros a u s p TV H.
  destruct (lookup u (users a)) as [ps|] eqn:E; [|discriminate].
  apply valid_ge1. eapply TV; eauto using lookup_In.
Qed.

(* allow (the per-user part) against the two cells it looks at *)
Lemma allow1_spec : forall a u s r,
  allow1 a u s r =
  match first_some [cell a u s; cell a u acl_default_scope] with
  | Some p => (p, r <=? p)
  | None => (0, false)
  end.
Proof.
  intros. unfold allow1, cell, from_default. simpl.
  destruct (lookup u (users a)) as [ps|]; [|reflexivity].
  destruct (lookup s ps); [reflexivity|].
  destruct (lookup acl_default_scope ps); reflexivity.
Qed.

Lemma first_some_app : forall A (l1 l2 : list (option A)),
  first_some (l1 ++ l2) = match first_some l1 with Some x => Some x | None => first_some l2 end.
Proof. induction l1 as [|[x|] l1 IH]; simpl; intros; auto. Qed.

Definition decision (d : option Z) (r : Z) : Z * bool :=
  match d with Some p => (p, r <=? p) | None => (0, false) end.

Lemma allow_precedence : forall a u s r,
  table_valid a -> r <> acl_perm_prohibit -> u <> superuser a ->
  Allow a u s r = decision (decided_by a u s) r.
Proof.
  intros a u s r TV Hr Hu. unfold Allow.
  destruct (r =? acl_perm_prohibit) eqn:E1; [apply Z.eqb_eq in E1; contradiction|].
  destruct (String.eqb u (superuser a)) eqn:E2; [apply String.eqb_eq in E2; contradiction|].
  cbv zeta. rewrite !allow1_spec.
  unfold decided_by, chain.
  change [cell a u s; cell a u acl_default_scope; cell a acl_default_user s; cell a acl_default_user acl_default_scope]
    with (([cell a u s; cell a u acl_default_scope] ++ [cell a acl_default_user s; cell a acl_default_user acl_default_scope])%list).
  rewrite first_some_app.
  destruct (first_some [cell a u s; cell a u acl_default_scope]) as [p|] eqn:F.
  - assert (1 <= p <= acl_perm_super) as Hp.
    { simpl in F. destruct (cell a u s) eqn:C1.
      - inversion F; subst. eapply cell_valid; eauto.
      - destruct (cell a u acl_default_scope) eqn:C2; [|discriminate].
        inversion F; subst. eapply cell_valid; eauto. }
    cbn [fst decision]. unfold acl_perm_prohibit.
    destruct (1 <=? p) eqn:E3; [reflexivity|]. apply Z.leb_gt in E3. lia.
  - cbn [fst]. unfold acl_perm_prohibit at 1. cbn. reflexivity.
Qed.

(* required is a uint8: 0 <= r.  Stated with that hypothesis. *)
Lemma prohibit_denies : forall a u s r,
  table_valid a -> u <> superuser a -> 0 < r ->
  decided_by a u s = Some acl_perm_prohibit -> snd (Allow a u s r) = false.
Proof.
  intros a u s r TV Hu Hr D.
  destruct (Z.eq_dec r acl_perm_prohibit) as [->|Hn].
  - unfold Allow. rewrite Z.eqb_refl. reflexivity.
  - rewrite allow_precedence by assumption. rewrite D. cbn.
    unfold acl_perm_prohibit in *. apply Z.leb_gt. lia.
Qed.

Lemma required_prohibit_denies : forall a u s, Allow a u s acl_perm_prohibit = (acl_perm_prohibit, false).
Proof. intros. unfold Allow. rewrite Z.eqb_refl. reflexivity. Qed.

(* no table at all is needed for this one: whoever is allowed (other than the superuser) holds an
   assigned permission >= required; in particular never on the basis of a prohibit entry *)
Lemma allowed_means_assigned_ge : forall a u s r p,
  u <> superuser a -> Allow a u s r = (p, true) -> r <= p /\ (0 < r -> p <> acl_perm_prohibit).
Proof.
  intros a u s r p Hu H. unfold Allow in H.
  destruct (r =? acl_perm_prohibit) eqn:E1; [inversion H|].
  destruct (String.eqb u (superuser a)) eqn:E2; [apply String.eqb_eq in E2; contradiction|].
  apply Z.eqb_neq in E1.
  assert (forall x, allow1 a x s r = (p, true) -> r <= p) as A1.
  { intros x. rewrite allow1_spec. destruct (first_some _) as [q|]; cbn; intros Q; inversion Q; subst.
    now apply Z.leb_le. }
  cbv zeta in H.
  assert (r <= p) as Hle.
  { destruct (acl_perm_prohibit <=? fst (allow1 a u s r)); eauto. }
  split; [assumption|]. unfold acl_perm_prohibit in *. lia.
Qed.

Lemma super_allowed : forall a s r, r <> acl_perm_prohibit ->
  Allow a (superuser a) s r = (acl_perm_super, true).
Proof.
  intros a s r Hr. unfold Allow.
  destruct (r =? acl_perm_prohibit) eqn:E1; [apply Z.eqb_eq in E1; contradiction|].
  now rewrite String.eqb_refl.
Qed.

(* ---- permission text ---- *)

Lemma all_o_repeat : forall n, all_o (repeat_o n) = true.
Proof. induction n; simpl; auto. Qed.

Lemma count_o_repeat : forall n, count_o (repeat_o n) = Z.of_nat n.
Proof. induction n; [reflexivity|]. cbn [repeat_o count_o]. rewrite IHn. change (Ascii.eqb "o" "o") with true. cbv iota. lia. Qed.

Lemma length_repeat : forall n, String.length (repeat_o n) = n.
Proof. induction n; simpl; auto. Qed.

Lemma repeat_o_S : forall n, repeat_o (S n) = String "o" (repeat_o n).
Proof. reflexivity. Qed.

Lemma perm_roundtrip_mid : forall p, 2 <= p <= 78 -> perm_parse (perm_string p) = Some p.
Proof.
  intros p Hp. unfold perm_string, acl_perm_prohibit, acl_perm_super.
  destruct (p =? 0) eqn:E0; [apply Z.eqb_eq in E0; lia|].
  destruct (p =? 1) eqn:E1; [apply Z.eqb_eq in E1; lia|].
  destruct (p =? 79) eqn:E2; [apply Z.eqb_eq in E2; lia|].
  remember (Z.to_nat (p - 1)) as n.
  assert (Z.of_nat n = p - 1) as Hn by lia.
  destruct n as [|n]; [lia|].
  unfold perm_parse.
  replace (String.eqb (repeat_o (S n)) "x") with false by reflexivity.
  replace (String.eqb (repeat_o (S n)) "s") with false by reflexivity.
  rewrite length_repeat.
  destruct (Z.of_nat (S n) <? 1) eqn:L; [apply Z.ltb_lt in L; lia|].
  unfold match_o_plus. rewrite repeat_o_S. rewrite <- repeat_o_S. rewrite all_o_repeat.
  cbn [negb]. rewrite count_o_repeat. rewrite Hn.
  unfold acl_perm_super.
  rewrite (Z.mod_small (p - 1) 256) by lia.
  destruct (p - 1 >? 79) eqn:G; [apply Z.gtb_lt in G; lia|].
  rewrite Z.mod_small by lia. f_equal. lia.
Qed.

Lemma perm_roundtrip : forall p, 1 <= p <= acl_perm_super -> perm_parse (perm_string p) = Some p.
Proof.
  unfold acl_perm_super at 1. intros p Hp.
  destruct (Z.eq_dec p 1) as [->|]; [reflexivity|].
  destruct (Z.eq_dec p 79) as [->|]; [reflexivity|].
  apply perm_roundtrip_mid. lia.
Qed.

Lemma perm_string_injective : forall p q,
  1 <= p <= acl_perm_super -> 1 <= q <= acl_perm_super -> perm_string p = perm_string q -> p = q.
Proof.
  intros p q Hp Hq E. apply perm_roundtrip in Hp. apply perm_roundtrip in Hq.
  rewrite E in Hp. congruence.
Qed.

Lemma all_o_is_repeat : forall s, all_o s = true -> s = repeat_o (String.length s).
Proof.
  induction s as [|c s IH]; simpl; intros H; [reflexivity|].
  apply andb_true_iff in H. destruct H as [Hc Hs]. apply Ascii.eqb_eq in Hc. subst. f_equal. auto.
Qed.

(* the other direction: a text that parses to a valid permission is the printed form of that
   permission, except for one alias: 78 o's also denote 79 (= "s"); texts of 256+ characters are
   outside (uint8 wrap of the count) *)
Lemma perm_parse_canonical : forall t p,
  perm_parse t = Some p -> perm_valid p = true -> (String.length t < 256)%nat ->
  perm_string p = t \/ (p = acl_perm_super /\ t = repeat_o 78).
Proof.
  intros t p H V L. unfold perm_parse in H.
  destruct (String.eqb t "x") eqn:Ex; [apply String.eqb_eq in Ex; inversion H; subst; now left|].
  destruct (String.eqb t "s") eqn:Es; [apply String.eqb_eq in Es; inversion H; subst; now left|].
  destruct (Z.of_nat (String.length t) <? 1) eqn:E1; [discriminate|].
  destruct (negb (match_o_plus t)) eqn:E2; [discriminate|].
  apply negb_false_iff in E2. apply Z.ltb_ge in E1.
  assert (all_o t = true) as AO by (destruct t; [discriminate|exact E2]).
  pose proof (all_o_is_repeat t AO) as R.
  remember (String.length t) as n.
  rewrite R in H. rewrite count_o_repeat in H.
  apply valid_ge1 in V. unfold acl_perm_super in *.
  rewrite (Z.mod_small (Z.of_nat n) 256) in H by lia.
  destruct (Z.of_nat n >? 79) eqn:G.
  - inversion H. subst p. cbn in V. lia.
  - rewrite Z.gtb_ltb in G. apply Z.ltb_ge in G.
    rewrite Z.mod_small in H by lia. inversion H. subst p.
    destruct (Z.eq_dec (Z.of_nat n) 78) as [E78|N78].
    + right. split; [lia|]. rewrite R. f_equal. lia.
    + left. unfold perm_string, acl_perm_prohibit, acl_perm_super.
      destruct (Z.of_nat n + 1 =? 0) eqn:A0; [apply Z.eqb_eq in A0; lia|].
      destruct (Z.of_nat n + 1 =? 1) eqn:A1; [apply Z.eqb_eq in A1; lia|].
      destruct (Z.of_nat n + 1 =? 79) eqn:A2; [apply Z.eqb_eq in A2; lia|].
      rewrite R. f_equal. lia.
Qed.

Lemma convert_perm_valid : forall t p, convert_perm t = Some p -> 1 <= p <= acl_perm_super.
Proof.
  unfold convert_perm. intros t p H. destruct (perm_parse t); [|discriminate].
  destruct (perm_valid z) eqn:V; [|discriminate]. inversion H; subst. now apply valid_ge1.
Qed.

(* the hand-coded matcher is what `^o+$` denotes: non-empty and every character is 'o' *)
Lemma match_o_plus_spec : forall s, match_o_plus s = true <-> exists n, s = repeat_o (S n).
Proof.
  intros s. split.
  - intros H. destruct s as [|c s]; [discriminate|]. simpl in H.
    exists (String.length s). apply andb_true_iff in H. destruct H as [Hc Hs].
    apply Ascii.eqb_eq in Hc. subst. rewrite repeat_o_S. f_equal. now apply all_o_is_repeat.
  - intros [n ->]. unfold match_o_plus. rewrite repeat_o_S. rewrite <- repeat_o_S. apply all_o_repeat.
Qed.

(* ---- installs ---- *)

Lemma lookup_remove_same : forall A u (m : list (string * A)), lookup u (remove_user u m) = None.
Proof.
  induction m as [|[k v] m IH]; simpl; auto.
  destruct (String.eqb u k) eqn:E; auto. simpl. now rewrite E.
Qed.

Lemma lookup_remove_other : forall A u u' (m : list (string * A)), u' <> u -> lookup u' (remove_user u m) = lookup u' m.
Proof.
  induction m as [|[k v] m IH]; simpl; intros NE; auto.
  destruct (String.eqb u k) eqn:E.
  - apply String.eqb_eq in E. subst k. destruct (String.eqb u' u) eqn:E2; [apply String.eqb_eq in E2; contradiction|auto].
  - simpl. destruct (String.eqb u' k); auto.
Qed.

(* after setUser(u, m) the cells of u are exactly m (none when m is empty), everybody else's are unchanged,
   and the superuser's entry cannot be set *)
Lemma set_user_cells : forall a u m u' s, u <> superuser a ->
  cell (apply_install a (ISet u m)) u' s =
  if String.eqb u' u then lookup s m else cell a u' s.
Proof.
  intros a u m u' s NE. unfold apply_install.
  destruct (String.eqb u (superuser a)) eqn:E; [apply String.eqb_eq in E; contradiction|].
  unfold cell. destruct (String.eqb u' u) eqn:E2.
  - apply String.eqb_eq in E2. subst u'. destruct m as [|x m]; cbn [users].
    + now rewrite lookup_remove_same.
    + cbn [lookup]. now rewrite String.eqb_refl.
  - assert (u' <> u) as N2 by (intro X; subst; rewrite String.eqb_refl in E2; discriminate).
    destruct m as [|x m]; cbn [users].
    + now rewrite lookup_remove_other.
    + cbn [lookup]. rewrite E2. now rewrite lookup_remove_other.
Qed.

Lemma set_super_refused : forall a m, apply_install a (ISet (superuser a) m) = a.
Proof. intros. unfold apply_install. now rewrite String.eqb_refl. Qed.
