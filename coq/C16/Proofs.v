(* C16 -- lemmas about the two transcribed decision procedures. *)
From Coq Require Import List NArith ZArith Bool Lia.
From MV Require Import C16.Model.
Import ListNotations.

Ltac bsplit :=
  repeat match goal with
         | H : _ && _ = true |- _ => apply andb_prop in H; destruct H
         end.

(* ---------------------------------------------------------------- what the importer really checks *)

Definition all_cks (b : blk) : bool :=
  item_cks (b_pr b) && item_cks (b_ops b) && item_cks (b_opstree b)
  && item_cks (b_sts b) && item_cks (b_ststree b) && item_cks (b_vps b).

Lemma imp_ops_cks : forall b, imp_ops b = true -> item_cks (b_ops b) = true.
Proof.
  intros b; unfold imp_ops; destruct (b_ops b) as [|c [ops|]]; cbn; intros H; try discriminate; auto.
  bsplit; auto.
Qed.

Lemma imp_sts_cks : forall b, imp_sts b = true -> item_cks (b_sts b) = true.
Proof.
  intros b; unfold imp_sts; destruct (b_sts b) as [|c [x|]]; cbn; intros H; try discriminate; auto.
  bsplit; auto.
Qed.

Lemma imp_ststree_cks : forall b, imp_ststree b = true -> item_cks (b_ststree b) = true.
Proof.
  intros b; unfold imp_ststree; destruct (b_ststree b) as [|c [x|]]; cbn; intros H; try discriminate; auto.
Qed.

Lemma imp_vps_cks : forall b, imp_vps b = true -> item_cks (b_vps b) = true.
Proof.
  intros b; unfold imp_vps; destruct (b_vps b) as [|c [x|]]; cbn; intros H; try discriminate; auto.
  bsplit; auto.
Qed.

Lemma imp_ops_decodes : forall b, imp_ops b = true -> item_decodes (b_ops b) = true.
Proof. intros b; unfold imp_ops; destruct (b_ops b) as [|c [x|]]; cbn; auto. Qed.

Lemma imp_sts_decodes : forall b, imp_sts b = true -> item_decodes (b_sts b) = true.
Proof. intros b; unfold imp_sts; destruct (b_sts b) as [|c [x|]]; cbn; auto. Qed.

Lemma imp_ststree_decodes : forall b, imp_ststree b = true -> item_decodes (b_ststree b) = true.
Proof. intros b; unfold imp_ststree; destruct (b_ststree b) as [|c [x|]]; cbn; auto. Qed.

Lemma imp_vps_decodes : forall b, imp_vps b = true -> item_decodes (b_vps b) = true.
Proof. intros b; unfold imp_vps; destruct (b_vps b) as [|c [x|]]; cbn; auto. Qed.

Lemma imp_ops_valid : forall b, imp_ops b = true -> forallb o_valid (item_get [] (b_ops b)) = true.
Proof.
  intros b; unfold imp_ops; destruct (b_ops b) as [|c [ops|]]; cbn; intros H; try discriminate; auto.
  bsplit. rewrite forallb_forall in *. intros o Ho. specialize (H o Ho). bsplit; auto.
Qed.

Lemma imp_ops_genesis : forall b, imp_ops b = true -> genesis b = true ->
  forallb o_gsigned (item_get [] (b_ops b)) = true.
Proof.
  intros b; unfold imp_ops; destruct (b_ops b) as [|c [ops|]]; cbn; intros H G; try discriminate; auto.
  bsplit. rewrite forallb_forall in *. intros o Ho. specialize (H o Ho). bsplit.
  rewrite G in *. cbn in *. auto.
Qed.

Lemma imp_sts_valid : forall b, imp_sts b = true -> forallb s_valid (item_get [] (b_sts b)) = true.
Proof.
  intros b; unfold imp_sts; destruct (b_sts b) as [|c [x|]]; cbn; intros H; try discriminate; auto.
  bsplit; auto.
Qed.

Lemma imp_vps_val : forall b, imp_vps b = true -> item_present (b_vps b) = true -> val_vps b = true.
Proof.
  intros b; unfold imp_vps, val_vps; destruct (b_vps b) as [|c [x|]]; cbn; intros H P; try discriminate; auto.
  bsplit; auto.
Qed.

Lemma save_parts : forall b, importer_accepts b = true ->
  imp_pr b = true /\ imp_ops b = true /\ imp_opstree b = true /\ imp_sts b = true /\ imp_ststree b = true
  /\ imp_vps b = true
  /\ match last_suffrage (item_get [] (b_sts b)) with
     | None => True
     | Some s => memN (s_hash s) (t_keys (item_get empty_tree (b_ststree b))) = true
     end.
Proof.
  intros b H. unfold importer_accepts, imp_save in H. bsplit. repeat split; auto.
  destruct (last_suffrage _); auto.
Qed.

(* the strongest statement that is true of the importer as it is *)
Lemma importer_partial : forall b, importer_accepts b = true ->
  all_cks b = true
  /\ item_decodes (b_ops b) = true /\ forallb o_valid (item_get [] (b_ops b)) = true
  /\ (genesis b = true -> forallb o_gsigned (item_get [] (b_ops b)) = true)
  /\ item_decodes (b_sts b) = true /\ forallb s_valid (item_get [] (b_sts b)) = true
  /\ item_decodes (b_ststree b) = true
  /\ item_decodes (b_vps b) = true
  /\ (item_present (b_vps b) = true -> val_vps b = true)
  /\ (forall s, last_suffrage (item_get [] (b_sts b)) = Some s ->
        memN (s_hash s) (t_keys (item_get empty_tree (b_ststree b))) = true).
Proof.
  intros b H. destruct (save_parts b H) as (P & O & OT & S & ST & V & SUF).
  repeat split.
  - unfold all_cks. unfold imp_pr, imp_opstree in *.
    rewrite P, OT, (imp_ops_cks _ O), (imp_sts_cks _ S), (imp_ststree_cks _ ST), (imp_vps_cks _ V). reflexivity.
  - apply imp_ops_decodes; auto.
  - apply imp_ops_valid; auto.
  - apply imp_ops_genesis; auto.
  - apply imp_sts_decodes; auto.
  - apply imp_sts_valid; auto.
  - apply imp_ststree_decodes; auto.
  - apply imp_vps_decodes; auto.
  - apply imp_vps_val; auto.
  - intros s E. rewrite E in SUF. exact SUF.
Qed.

(* ---------------------------------------------------------------- voteproofs clause, full strength *)

Lemma opt_eqN_true : forall a x, opt_eqN a x = true -> a = Some x.
Proof. intros [y|] x; cbn; intros H; try discriminate. apply N.eqb_eq in H. subst; auto. Qed.

Lemma map_valid_parts : forall b, map_valid b = true ->
  b_map_signed b = true /\ item_present (b_pr b) = true /\ item_present (b_vps b) = true.
Proof. intros b H. unfold map_valid in H. bsplit. auto. Qed.

Lemma voteproofs_for_manifest : forall b, map_valid b = true -> importer_accepts b = true ->
  exists i a, b_vps b = Present true (Some (i, a))
    /\ v_valid i = true /\ v_valid a = true
    /\ v_kind_ok i = true /\ v_kind_ok a = true
    /\ v_height i = b_height b /\ v_height a = b_height b
    /\ v_round i = v_round a
    /\ v_newblock a = Some (b_hash b).
Proof.
  intros b M H. destruct (map_valid_parts b M) as (_ & _ & PV).
  destruct (save_parts b H) as (_ & _ & _ & _ & _ & V & _).
  unfold imp_vps in V. destruct (b_vps b) as [|c [[i a]|]]; cbn in PV; try discriminate.
  unfold vps_ok, vps_with_manifest in V. cbn in V. bsplit. subst c.
  exists i, a. repeat split; auto.
  - apply Z.eqb_eq; auto.
  - apply Z.eqb_eq; auto.
  - apply Z.eqb_eq; auto.
  - apply opt_eqN_true; auto.
Qed.

(* ---------------------------------------------------------------- the implication outside the finding classes *)

Definition pr_consistent (b : blk) : bool := val_pr b.   (* decodes, IsValid, height and fact hash = manifest *)

Lemma val_pr_decodes : forall b, val_pr b = true -> item_decodes (b_pr b) = true.
Proof. intros b; unfold val_pr; destruct (b_pr b) as [|c [x|]]; cbn; auto. Qed.

Lemma import_implies_valid_outside : forall b,
  map_valid b = true -> importer_accepts b = true ->
  pr_consistent b = true ->
  item_decodes (b_opstree b) = true -> ops_consistent b = true ->
  sts_consistent b = true ->
  validator_accepts b = true.
Proof.
  intros b M H P DT OC SC.
  destruct (importer_partial b H) as (_ & DO & VO & _ & DS & VS & DST & DV & VV & _).
  destruct (map_valid_parts b M) as (_ & _ & PV).
  unfold validator_accepts, all_decode, val_ops, val_sts, pr_consistent in *.
  rewrite M, (val_pr_decodes _ P), DO, DT, DS, DST, DV, P, OC, VO, SC, VS, (VV PV). reflexivity.
Qed.

(* hence every stored-but-invalid block falls in one of the three finding classes *)
Lemma classes_complete : forall b,
  map_valid b = true -> importer_accepts b = true -> validator_accepts b = false ->
  pr_consistent b = false
  \/ (item_decodes (b_opstree b) && ops_consistent b) = false
  \/ sts_consistent b = false.
Proof.
  intros b M H V.
  destruct (pr_consistent b) eqn:P; auto.
  destruct (item_decodes (b_opstree b)) eqn:DT; auto.
  destruct (ops_consistent b) eqn:OC; auto.
  destruct (sts_consistent b) eqn:SC; auto.
  rewrite (import_implies_valid_outside b M H P DT OC SC) in V. discriminate.
Qed.

(* ---------------------------------------------------------------- witnesses of the open findings *)

Definition vp_i : vp := mkVp true true 7 0 None.
Definition vp_a : vp := mkVp true true 7 0 (Some 1%N).
Definition good_pr : prop := mkPr true 7 2%N.
Definition st1 : st := mkSt 10%N 7 true false.
Definition st2 : st := mkSt 11%N 7 true false.
Definition op1 : op := mkOp 20%N true true.

(* a consistent block: accepted by both *)
Definition blk_good : blk :=
  mkBlk true 7 1%N 2%N (Some 30%N) (Some 40%N)
    (Present true (Some good_pr))
    (Present true (Some [op1])) (Present true (Some (mkTree [20%N] 30%N true)))
    (Present true (Some [st1; st2])) (Present true (Some (mkTree [10%N; 11%N] 40%N true)))
    (Present true (Some (vp_i, vp_a))).

(* foreign states tree, the manifest names the foreign root (checksums all fine) *)
Definition blk_foreign_states : blk :=
  mkBlk true 7 1%N 2%N (Some 30%N) (Some 41%N)
    (Present true (Some good_pr))
    (Present true (Some [op1])) (Present true (Some (mkTree [20%N] 30%N true)))
    (Present true (Some [st1; st2])) (Present true (Some (mkTree [12%N; 13%N] 41%N true)))
    (Present true (Some (vp_i, vp_a))).

(* operations file without the operation the tree names (what the block Writer produces for a failed operation) *)
Definition blk_failed_operation : blk :=
  mkBlk true 7 1%N 2%N (Some 31%N) (Some 40%N)
    (Present true (Some good_pr))
    (Present true (Some [op1])) (Present true (Some (mkTree [20%N; 21%N] 31%N true)))
    (Present true (Some [st1; st2])) (Present true (Some (mkTree [10%N; 11%N] 40%N true)))
    (Present true (Some (vp_i, vp_a))).

(* proposal that is not the one the manifest names *)
Definition blk_other_proposal : blk :=
  mkBlk true 7 1%N 3%N (Some 30%N) (Some 40%N)
    (Present true (Some good_pr))
    (Present true (Some [op1])) (Present true (Some (mkTree [20%N] 30%N true)))
    (Present true (Some [st1; st2])) (Present true (Some (mkTree [10%N; 11%N] 40%N true)))
    (Present true (Some (vp_i, vp_a))).

(* ACCEPT majority for another block: rejected by both since fix d462c20 *)
Definition blk_other_majority : blk :=
  mkBlk true 7 1%N 2%N (Some 30%N) (Some 40%N)
    (Present true (Some good_pr))
    (Present true (Some [op1])) (Present true (Some (mkTree [20%N] 30%N true)))
    (Present true (Some [st1; st2])) (Present true (Some (mkTree [10%N; 11%N] 40%N true)))
    (Present true (Some (vp_i, mkVp true true 7 0 (Some 99%N)))).

(* ACCEPT voteproof that is a finished DRAW (no majority at all): rejected by both since fix d462c20 *)
Definition blk_accept_draw : blk :=
  mkBlk true 7 1%N 2%N (Some 30%N) (Some 40%N)
    (Present true (Some good_pr))
    (Present true (Some [op1])) (Present true (Some (mkTree [20%N] 30%N true)))
    (Present true (Some [st1; st2])) (Present true (Some (mkTree [10%N; 11%N] 40%N true)))
    (Present true (Some (vp_i, mkVp true true 7 0 None))).

Definition stored_but_invalid (b : blk) : Prop :=
  map_valid b = true /\ importer_accepts b = true /\ validator_accepts b = false.

Lemma refuted_states : stored_but_invalid blk_foreign_states /\ sts_consistent blk_foreign_states = false.
Proof. vm_compute. repeat split; reflexivity. Qed.

Lemma refuted_operations : stored_but_invalid blk_failed_operation /\ ops_consistent blk_failed_operation = false.
Proof. vm_compute. repeat split; reflexivity. Qed.

Lemma refuted_proposal : stored_but_invalid blk_other_proposal /\ pr_consistent blk_other_proposal = false.
Proof. vm_compute. repeat split; reflexivity. Qed.

Lemma import_implies_valid_refuted : exists b, stored_but_invalid b.
Proof. exists blk_foreign_states. exact (proj1 refuted_states). Qed.

(* ---------------------------------------------------------------- Save needs every item *)

Lemma save_needs_every_item : forall fed b, save_fed fed b = true ->
  (forall x, In x fed -> x = true) /\ importer_accepts b = true.
Proof.
  intros fed b H. unfold save_fed in H. apply andb_prop in H. destruct H as [F A]. split; auto.
  rewrite forallb_forall in F. auto.
Qed.
