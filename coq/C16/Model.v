(* C16 -- imported blocks are consistent with their manifest.

   Two decision procedures of /repo are transcribed as boolean functions over one abstract
   description of a block on disk (hashes, keys are interned to N identifiers; "valid" flags stand for
   the per-object IsValid(networkID), which is not what this property is about -- C27/C28):

     importer  : isaac/block/importer.go   BlockImporter.WriteItem (importItem, importOperations etc.) and Save
     validator : isaac/block/validator.go  IsValidBlockFromLocalFS
                 base/block.go             IsValidProposalWithManifest, IsValidOperationsTreeWithManifest,
                                           IsValidStatesTreeWithManifest, IsValidVoteproofsWithManifest

   No proofs here. *)
From Coq Require Import List NArith ZArith Bool.
Import ListNotations.

(* one operation of the operations file *)
Record op := mkOp {
  o_fact : N;          (* op.Fact().Hash() *)
  o_valid : bool;      (* op.IsValid(networkID) = nil *)
  o_gsigned : bool     (* signed by the block map's signer (only looked at for the genesis block) *)
}.

(* one state of the states file *)
Record st := mkSt {
  s_hash : N;          (* st.Hash() *)
  s_height : Z;        (* st.Height() *)
  s_valid : bool;      (* st.IsValid(nil) = nil *)
  s_suffrage : bool    (* base.IsSuffrageNodesState(st) *)
}.

(* a fixedtree: keys of its nodes in index order (operations tree: the fact hash parsed from the node
   key by ParseTreeNodeOperationKey; states tree: the node key), hash of node 0, and Tree.IsValid *)
Record tree := mkTree { t_keys : list N; t_root : N; t_valid : bool }.

Definition empty_tree : tree := mkTree [] 0%N true.

Record vp := mkVp {
  v_kind_ok : bool;        (* slot 0 holds an INITVoteproof, slot 1 an ACCEPTVoteproof *)
  v_valid : bool;          (* vp.IsValid(networkID) = nil *)
  v_height : Z;
  v_round : Z;
  v_newblock : option N    (* ACCEPT: BallotMajority().NewBlock(); None = no majority *)
}.

Record prop := mkPr { p_valid : bool; p_height : Z; p_fact : N }.

(* an item of the block map: absent from the map, or present with
   [cks]: sha256 of the streamed (decompressed) bytes = the map item's checksum,
   [content]: the decoded content, None = the bytes do not decode *)
Inductive item (A : Type) : Type :=
| Absent : item A
| Present : bool -> option A -> item A.
Arguments Absent {A}.
Arguments Present {A} _ _.

Record blk := mkBlk {
  b_map_signed : bool;         (* the part of BlockMap.IsValid(networkID) that is not about items: hint, manifest, signature *)
  b_height : Z;                (* manifest.Height() *)
  b_hash : N;                  (* manifest.Hash() *)
  b_proposal_h : N;            (* manifest.Proposal() *)
  b_opsroot : option N;        (* manifest.OperationsTree() *)
  b_stsroot : option N;        (* manifest.StatesTree() *)
  b_pr : item prop;
  b_ops : item (list op);
  b_opstree : item tree;
  b_sts : item (list st);
  b_ststree : item tree;
  b_vps : item (vp * vp)
}.

Definition genesis (b : blk) : bool := Z.eqb (b_height b) 0.

(* ---------------------------------------------------------------- shared pieces *)

Definition item_cks {A} (i : item A) : bool :=
  match i with Absent => true | Present c _ => c end.

Definition item_decodes {A} (i : item A) : bool :=
  match i with Absent => true | Present _ (Some _) => true | Present _ None => false end.

Definition item_get {A} (d : A) (i : item A) : A :=
  match i with Present _ (Some x) => x | _ => d end.

Definition item_present {A} (i : item A) : bool :=
  match i with Absent => false | _ => true end.

Fixpoint memN (x : N) (l : list N) : bool :=
  match l with [] => false | y :: r => N.eqb x y || memN x r end.

Fixpoint nodupN (l : list N) : bool :=
  match l with [] => true | x :: r => negb (memN x r) && nodupN r end.

Definition opt_eqN (a : option N) (x : N) : bool :=
  match a with Some y => N.eqb x y | None => false end.

(* BlockMap.IsValid(networkID) incl. checkItems: proposal and voteproofs items present, a tree item for every
   root the manifest names.  Checked by the callers of the importer (syncer, import command) and by the validator. *)
Definition map_valid (b : blk) : bool :=
  b_map_signed b && item_present (b_pr b) && item_present (b_vps b)
  && (match b_opsroot b with None => true | Some _ => item_present (b_opstree b) end)
  && (match b_stsroot b with None => true | Some _ => item_present (b_ststree b) end).

(* base.IsValidVoteproofsWithManifest + isValidACCEPTVoteproofWithManifest (fix d462c20: the ACCEPT majority
   must be the manifest) *)
Definition vps_with_manifest (b : blk) (v : vp * vp) : bool :=
  let (i, a) := v in
  v_kind_ok i && v_kind_ok a
  && Z.eqb (v_height i) (b_height b) && Z.eqb (v_height a) (b_height b)
  && Z.eqb (v_round i) (v_round a)
  && opt_eqN (v_newblock a) (b_hash b).

Definition vps_ok (b : blk) (v : vp * vp) : bool :=
  v_valid (fst v) && v_valid (snd v) && vps_with_manifest b v.

(* ---------------------------------------------------------------- importer (isaac/block/importer.go) *)

(* importItem per item type: the type-specific import, then the checksum comparison *)
Definition imp_pr (b : blk) : bool := item_cks (b_pr b).                 (* importOther: Exaust only *)
Definition imp_opstree (b : blk) : bool := item_cks (b_opstree b).       (* importOther *)

Definition imp_ops (b : blk) : bool :=                                    (* importOperations *)
  match b_ops b with
  | Absent => true
  | Present c None => false
  | Present c (Some ops) =>
      forallb (fun o => o_valid o && (negb (genesis b) || o_gsigned o)) ops && c
  end.

Definition imp_sts (b : blk) : bool :=                                    (* importStates *)
  match b_sts b with
  | Absent => true
  | Present c None => false
  | Present c (Some sts) => forallb s_valid sts && c
  end.

Definition imp_ststree (b : blk) : bool :=                                (* importStatesTree *)
  match b_ststree b with
  | Absent => true
  | Present c None => false
  | Present c (Some _) => c
  end.

Definition imp_vps (b : blk) : bool :=                                    (* importVoteproofs *)
  match b_vps b with
  | Absent => true
  | Present c None => false
  | Present c (Some v) => vps_ok b v && c
  end.

(* im.sufst: the last suffrage-nodes state seen by importStates (only set when the item imported) *)
Definition last_suffrage (sts : list st) : option st :=
  fold_left (fun acc s => if s_suffrage s then Some s else acc) sts None.

(* Save: every item of the map finished; the suffrage state (if any) must have a proof in im.statestree *)
Definition imp_save (b : blk) : bool :=
  imp_pr b && imp_ops b && imp_opstree b && imp_sts b && imp_ststree b && imp_vps b
  && match last_suffrage (item_get [] (b_sts b)) with
     | None => true
     | Some s => memN (s_hash s) (t_keys (item_get empty_tree (b_ststree b)))
     end.

Definition importer_accepts (b : blk) : bool := imp_save b.

(* ---------------------------------------------------------------- validator (isaac/block/validator.go) *)

Definition all_decode (b : blk) : bool :=
  item_decodes (b_pr b) && item_decodes (b_ops b) && item_decodes (b_opstree b)
  && item_decodes (b_sts b) && item_decodes (b_ststree b) && item_decodes (b_vps b).

(* pr.IsValid + base.IsValidProposalWithManifest *)
Definition val_pr (b : blk) : bool :=
  match b_pr b with
  | Present _ (Some p) => p_valid p && Z.eqb (p_height p) (b_height b) && N.eqb (p_fact p) (b_proposal_h b)
  | _ => false
  end.

(* opstree.IsValid + base.IsValidOperationsTreeWithManifest.
   Order as in the Go switch: first `tr.Len() != len(ops)` (error), only then `len(ops) < 1` (nothing more to
   compare): an empty operations list against a non-empty tree is rejected; the root is compared only when
   there is at least one operation.  Same shape for the states below. *)
Definition ops_consistent (b : blk) : bool :=
  let tr := item_get empty_tree (b_opstree b) in
  let ops := item_get [] (b_ops b) in
  let facts := map o_fact ops in
  (match t_keys tr with [] => true | _ => t_valid tr end)
  && Nat.eqb (length (t_keys tr)) (length ops)
  && (match ops with
      | [] => true
      | _ => nodupN facts && forallb (fun k => memN k facts) (t_keys tr) && opt_eqN (b_opsroot b) (t_root tr)
      end).

(* IsValidOperationsOfBlock = the above + every op IsValid *)
Definition val_ops (b : blk) : bool :=
  ops_consistent b && forallb o_valid (item_get [] (b_ops b)).

Definition find_st (h : N) (sts : list st) : option st := find (fun s => N.eqb (s_hash s) h) sts.

(* ststree.IsValid + base.IsValidStatesTreeWithManifest *)
Definition sts_consistent (b : blk) : bool :=
  let tr := item_get empty_tree (b_ststree b) in
  let sts := item_get [] (b_sts b) in
  (match t_keys tr with [] => true | _ => t_valid tr end)
  && Nat.eqb (length (t_keys tr)) (length sts)
  && (match sts with
      | [] => true
      | _ => nodupN (map s_hash sts)
             && forallb (fun k => match find_st k sts with
                                  | Some s => Z.eqb (s_height s) (b_height b)
                                  | None => false
                                  end) (t_keys tr)
             && opt_eqN (b_stsroot b) (t_root tr)
      end).

(* IsValidStatesOfBlock = the above + every state IsValid *)
Definition val_sts (b : blk) : bool :=
  sts_consistent b && forallb s_valid (item_get [] (b_sts b)).

(* isValidVoteproofsFromLocalFS *)
Definition val_vps (b : blk) : bool :=
  match b_vps b with
  | Present _ (Some v) => vps_ok b v
  | _ => false
  end.

Definition validator_accepts (b : blk) : bool :=
  map_valid b && all_decode b && val_pr b && val_ops b && val_sts b && val_vps b.

(* ---------------------------------------------------------------- correspondence *)

(* what the harness observed on the real code:
   per-item WriteItem success (proposal, operations, operations tree, states, states tree, voteproofs;
   true for an item absent from the map), Save success,
   IsValidBlockFromLocalFS success, and -- when every item decodes -- the four exported sub-checks *)
Record obs := mkObs {
  ob_items : list bool;
  ob_save : bool;
  ob_valid : bool;
  ob_sub : option (bool * bool * bool * bool)
}.

Fixpoint list_beq (a b : list bool) : bool :=
  match a, b with
  | [], [] => true
  | x :: a', y :: b' => Bool.eqb x y && list_beq a' b'
  | _, _ => false
  end.

(* the caller may fail to hand an item of the map to WriteItem ([fed] false): Save then refuses ("not yet finished",
   BlockImporter.isfinished).  [fed] has one flag per item in the order used everywhere: proposal, operations,
   operations tree, states, states tree, voteproofs (true for items absent from the map). *)
Definition save_fed (fed : list bool) (b : blk) : bool := forallb (fun x => x) fed && importer_accepts b.

Definition items_fed (fed : list bool) (b : blk) : list bool :=
  map (fun p => fst p && snd p)
      (combine fed [imp_pr b; imp_ops b; imp_opstree b; imp_sts b; imp_ststree b; imp_vps b]).

Definition check (c : blk * list bool * obs) : bool :=
  let '(b, fed, o) := c in
  Nat.eqb (length fed) 6
  && list_beq (ob_items o) (items_fed fed b)
  && Bool.eqb (ob_save o) (save_fed fed b)
  && Bool.eqb (ob_valid o) (validator_accepts b)
  && match ob_sub o with
     | None => negb (all_decode b)
     | Some (p, os, ss, vs) =>
         all_decode b && Bool.eqb p (val_pr b) && Bool.eqb os (val_ops b)
         && Bool.eqb ss (val_sts b) && Bool.eqb vs (val_vps b)
     end.
