(* C16 -- Imported blocks are consistent with their manifest.  Property theorems only.

   importer_accepts  = BlockImporter: every WriteItem of the block map's items succeeded and Save succeeded
   validator_accepts = IsValidBlockFromLocalFS
   map_valid         = BlockMap.IsValid(networkID), checked by every caller of the importer before it is used *)
From Coq Require Import List NArith ZArith Bool.
From MV Require Import C16.Model C16.Proofs.
Import ListNotations.

(* The property as stated ("stored only if it would also pass the validator") is FALSE of the code as it is:
   a block with a foreign states tree, consistently re-signed map and correct checksums is stored.
   Open known findings: import-states-vs-tree-vs-manifest, import-operations-vs-tree-vs-manifest,
   import-proposal-vs-manifest (one witness each below; each is replayed on the real code every run). *)
Theorem C16_import_implies_valid_refuted :
  exists b, map_valid b = true /\ importer_accepts b = true /\ validator_accepts b = false.
Proof. exact import_implies_valid_refuted. Qed.

Theorem C16_refuted_states_tree :
  stored_but_invalid blk_foreign_states /\ sts_consistent blk_foreign_states = false.
Proof. exact refuted_states. Qed.

Theorem C16_refuted_operations_tree :
  stored_but_invalid blk_failed_operation /\ ops_consistent blk_failed_operation = false.
Proof. exact refuted_operations. Qed.

Theorem C16_refuted_proposal :
  stored_but_invalid blk_other_proposal /\ pr_consistent blk_other_proposal = false.
Proof. exact refuted_proposal. Qed.

(* The class boundary, proved: outside the three finding classes the property holds for every block.
   The importer itself establishes: every item decodes that it decodes (operations, states, states tree,
   voteproofs), every operation and state is valid, and the whole voteproofs clause. *)
Theorem C16_import_implies_valid_outside_findings : forall b,
  map_valid b = true -> importer_accepts b = true ->
  pr_consistent b = true ->                                           (* proposal decodes, valid, = manifest *)
  item_decodes (b_opstree b) = true -> ops_consistent b = true ->     (* operations <-> tree <-> manifest root *)
  sts_consistent b = true ->                                          (* states <-> tree <-> manifest root *)
  validator_accepts b = true.
Proof. exact import_implies_valid_outside. Qed.

Theorem C16_finding_classes_complete : forall b,
  map_valid b = true -> importer_accepts b = true -> validator_accepts b = false ->
  pr_consistent b = false
  \/ (item_decodes (b_opstree b) && ops_consistent b) = false
  \/ sts_consistent b = false.
Proof. exact classes_complete. Qed.

(* Third clause of the property at full strength (after fix d462c20): a stored block carries an INIT and an
   ACCEPT voteproof, both valid, both at the manifest's height, of the same round, and the ACCEPT majority
   is for the manifest hash. *)
Theorem C16_voteproofs_for_manifest : forall b, map_valid b = true -> importer_accepts b = true ->
  exists i a, b_vps b = Present true (Some (i, a))
    /\ v_valid i = true /\ v_valid a = true
    /\ v_kind_ok i = true /\ v_kind_ok a = true
    /\ v_height i = b_height b /\ v_height a = b_height b
    /\ v_round i = v_round a
    /\ v_newblock a = Some (b_hash b).
Proof. exact voteproofs_for_manifest. Qed.

(* What the importer does guarantee for every block it stores (no hypothesis on the map). *)
Theorem C16_partial : forall b, importer_accepts b = true ->
  all_cks b = true
  /\ item_decodes (b_ops b) = true /\ forallb o_valid (item_get [] (b_ops b)) = true
  /\ (genesis b = true -> forallb o_gsigned (item_get [] (b_ops b)) = true)
  /\ item_decodes (b_sts b) = true /\ forallb s_valid (item_get [] (b_sts b)) = true
  /\ item_decodes (b_ststree b) = true
  /\ item_decodes (b_vps b) = true
  /\ (item_present (b_vps b) = true -> val_vps b = true)
  /\ (forall s, last_suffrage (item_get [] (b_sts b)) = Some s ->
        memN (s_hash s) (t_keys (item_get empty_tree (b_ststree b))) = true).
Proof. exact importer_partial. Qed.

(* Save refuses when an item of the map was not written to the importer (BlockImporter.isfinished). *)
Theorem C16_save_needs_every_item : forall fed b, save_fed fed b = true ->
  (forall x, In x fed -> x = true) /\ importer_accepts b = true.
Proof. exact save_needs_every_item. Qed.

(* non-vacuity: a consistent block is stored and valid; an ACCEPT majority for another block is refused by both *)
Example C16_example_good :
  map_valid blk_good = true /\ importer_accepts blk_good = true /\ validator_accepts blk_good = true.
Proof. vm_compute. repeat split; reflexivity. Qed.

Example C16_example_other_majority :
  map_valid blk_other_majority = true /\ importer_accepts blk_other_majority = false
  /\ validator_accepts blk_other_majority = false.
Proof. vm_compute. repeat split; reflexivity. Qed.

(* a structurally valid ACCEPT voteproof without majority (DRAW) at the manifest's point is refused by both *)
Example C16_example_accept_draw :
  map_valid blk_accept_draw = true /\ importer_accepts blk_accept_draw = false
  /\ validator_accepts blk_accept_draw = false.
Proof. vm_compute. repeat split; reflexivity. Qed.
