(* comparison-valued total orders and their lexicographic combinations (used for Version.Compare) *)
From Coq Require Import List String Ascii Bool NArith Arith Lia OrderedTypeEx.
Import ListNotations.

Record total_cmp {A} (c : A -> A -> comparison) : Prop := mk_total_cmp {
  tc_eq : forall x y, c x y = Eq <-> x = y;
  tc_anti : forall x y, c y x = CompOpp (c x y);
  tc_trans : forall x y z, c x y = Lt -> c y z = Lt -> c x z = Lt }.

Section Facts.
  Context {A} (c : A -> A -> comparison) (T : total_cmp c).

  Lemma tc_refl : forall x, c x x = Eq.
  Proof. intros. now apply (tc_eq c T). Qed.

  Lemma tc_gt_lt : forall x y, c x y = Gt <-> c y x = Lt.
  Proof. intros x y. rewrite (tc_anti c T x y). destruct (c x y); simpl; split; congruence. Qed.

  Lemma tc_le_trans : forall x y z, c x y <> Gt -> c y z <> Gt -> c x z <> Gt.
  Proof.
    intros x y z H1 H2.
    destruct (c x y) eqn:E1; [apply (tc_eq c T) in E1; subst; auto| |congruence].
    destruct (c y z) eqn:E2; [apply (tc_eq c T) in E2; subst; congruence| |congruence].
    rewrite (tc_trans c T x y z E1 E2). discriminate.
  Qed.

  Lemma tc_lt_le_trans : forall x y z, c x y = Lt -> c y z <> Gt -> c x z = Lt.
  Proof.
    intros x y z H1 H2.
    destruct (c y z) eqn:E2; [apply (tc_eq c T) in E2; subst; auto| |congruence].
    eapply (tc_trans c T); eauto.
  Qed.
End Facts.

Lemma total_N : total_cmp N.compare.
Proof.
  constructor.
  - apply N.compare_eq_iff.
  - intros. apply N.compare_antisym.
  - intros x y z. rewrite !N.compare_lt_iff. apply N.lt_trans.
Qed.

Lemma total_nat : total_cmp Nat.compare.
Proof.
  constructor.
  - apply Nat.compare_eq_iff.
  - intros. apply Nat.compare_antisym.
  - intros x y z. rewrite !Nat.compare_lt_iff. apply Nat.lt_trans.
Qed.

Lemma total_string : total_cmp String.compare.
Proof.
  constructor.
  - apply String_as_OT.cmp_eq.
  - intros x y. apply (String_as_OT.cmp_antisym y x).
  - intros x y z H1 H2. apply String_as_OT.cmp_lt in H1. apply String_as_OT.cmp_lt in H2.
    apply String_as_OT.cmp_lt. eapply String_as_OT.lt_trans; eauto.
Qed.

(* lexicographic product *)
Definition lex_pair {A B} (ca : A -> A -> comparison) (cb : B -> B -> comparison) (x y : A * B) : comparison :=
  match ca (fst x) (fst y) with Eq => cb (snd x) (snd y) | r => r end.

Lemma total_pair : forall A B (ca : A -> A -> comparison) (cb : B -> B -> comparison),
  total_cmp ca -> total_cmp cb -> total_cmp (lex_pair ca cb).
Proof.
  intros A B ca cb Ta Tb. constructor.
  - intros [a b] [a' b']. unfold lex_pair. simpl. destruct (ca a a') eqn:E.
    + apply (tc_eq ca Ta) in E. subst. rewrite (tc_eq cb Tb). split; [intros ->; auto|intros H; now inversion H].
    + split; [discriminate|]. intros H. inversion H. subst. rewrite (tc_refl ca Ta) in E. discriminate.
    + split; [discriminate|]. intros H. inversion H. subst. rewrite (tc_refl ca Ta) in E. discriminate.
  - intros [a b] [a' b']. unfold lex_pair. simpl. rewrite (tc_anti ca Ta a a').
    destruct (ca a a'); simpl; auto. apply (tc_anti cb Tb).
  - intros [a b] [a' b'] [a'' b'']. unfold lex_pair. simpl.
    destruct (ca a a') eqn:E1; try discriminate.
    + apply (tc_eq ca Ta) in E1. subst a'. destruct (ca a a'') eqn:E2; try discriminate; auto.
      apply (tc_trans cb Tb).
    + destruct (ca a' a'') eqn:E2; try discriminate.
      * apply (tc_eq ca Ta) in E2. subst a''. rewrite E1. auto.
      * rewrite (tc_trans ca Ta _ _ _ E1 E2). auto.
Qed.

(* lexicographic order on lists, a proper prefix is smaller *)
Fixpoint lex_list {A} (c : A -> A -> comparison) (la lb : list A) : comparison :=
  match la, lb with
  | [], [] => Eq
  | [], _ => Lt
  | _, [] => Gt
  | x :: la', y :: lb' => match c x y with Eq => lex_list c la' lb' | r => r end
  end.

Lemma total_list : forall A (c : A -> A -> comparison), total_cmp c -> total_cmp (lex_list c).
Proof.
  intros A c T. constructor.
  - induction x as [|a x IH]; destruct y as [|b y]; simpl; try (split; [discriminate|discriminate]); [tauto|].
    destruct (c a b) eqn:E.
    + apply (tc_eq c T) in E. subst. rewrite IH. split; [intros ->; auto|intros H; now inversion H].
    + split; [discriminate|]. intros H. inversion H. subst. rewrite (tc_refl c T) in E. discriminate.
    + split; [discriminate|]. intros H. inversion H. subst. rewrite (tc_refl c T) in E. discriminate.
  - induction x as [|a x IH]; destruct y as [|b y]; simpl; auto.
    rewrite (tc_anti c T a b). destruct (c a b); simpl; auto.
  - induction x as [|a x IH]; destruct y as [|b y]; destruct z as [|d z]; simpl; try discriminate; auto.
    destruct (c a b) eqn:E1; try discriminate.
    + apply (tc_eq c T) in E1. subst b. destruct (c a d) eqn:E2; try discriminate; auto. apply IH.
    + destruct (c b d) eqn:E2; try discriminate.
      * apply (tc_eq c T) in E2. subst d. rewrite E1. auto.
      * rewrite (tc_trans c T _ _ _ E1 E2). auto.
Qed.

(* order induced by an injective key *)
Lemma total_map : forall A B (f : A -> B) (c : B -> B -> comparison),
  (forall x y, f x = f y -> x = y) -> total_cmp c -> total_cmp (fun x y => c (f x) (f y)).
Proof.
  intros A B f c Inj T. constructor.
  - intros x y. rewrite (tc_eq c T). split; [apply Inj|intros ->; auto].
  - intros. apply (tc_anti c T).
  - intros x y z. apply (tc_trans c T).
Qed.

(* pointwise equal functions *)
Lemma total_ext : forall A (c c' : A -> A -> comparison),
  (forall x y, c x y = c' x y) -> total_cmp c' -> total_cmp c.
Proof.
  intros A c c' E T. constructor.
  - intros. rewrite E. apply (tc_eq c' T).
  - intros. rewrite !E. apply (tc_anti c' T).
  - intros x y z. rewrite !E. apply (tc_trans c' T).
Qed.
