(* C31 -- CompatibleSet: every lookup by hint returns the registered entry with the same type and major
   and the highest registered version, for every history of operations (cache included). *)
From Coq Require Import List String Ascii Bool NArith ZArith Lia.
From MV Require Import C31.Model C31.Order C31.ProofsVer.
Import ListNotations.
Open Scope string_scope.

(* ------------------------------------------------------------------ association lists *)

Lemma skey_eqb_eq : forall a b, skey_eqb a b = true <-> a = b.
Proof.
  intros [a1 a2] [b1 b2]. unfold skey_eqb. simpl. rewrite andb_true_iff, String.eqb_eq, N.eqb_eq.
  split; [intros [-> ->]; auto|intros H; inversion H; auto].
Qed.

Section AssocFacts.
  Context {K A : Type} (keqb : K -> K -> bool).
  Hypothesis keqb_eq : forall a b, keqb a b = true <-> a = b.

  Lemma keqb_refl : forall a, keqb a a = true.
  Proof. intros. now apply keqb_eq. Qed.

  Lemma aget_aset_same : forall k (v : A) m, aget keqb k (aset keqb k v m) = Some v.
  Proof.
    induction m as [|[k' v'] m IH]; simpl.
    - now rewrite keqb_refl.
    - destruct (keqb k k') eqn:E; simpl.
      + now rewrite keqb_refl.
      + now rewrite E.
  Qed.

  Lemma aget_aset_other : forall k k' (v : A) m, k <> k' -> aget keqb k' (aset keqb k v m) = aget keqb k' m.
  Proof.
    induction m as [|[k2 v2] m IH]; simpl; intros NE.
    - destruct (keqb k' k) eqn:E; [apply keqb_eq in E; congruence|reflexivity].
    - destruct (keqb k k2) eqn:E; simpl.
      + apply keqb_eq in E. subst k2.
        destruct (keqb k' k) eqn:E2; [apply keqb_eq in E2; congruence|reflexivity].
      + destruct (keqb k' k2); auto.
  Qed.
End AssocFacts.

(* ------------------------------------------------------------------ cache keys *)

Lemma hkey_inj : forall a b, hkey a = hkey b -> a = b.
Proof. unfold hkey. intros a b H. simpl in H. now inversion H. Qed.

Lemma hkey_tkey : forall a b, hkey a <> tkey b.
Proof. unfold hkey, tkey. intros a b H. simpl in H. inversion H. Qed.

Definition cview (st : cset) : option (string * centry) := if cs_cache_on st then cs_cache st else None.

Lemma cache_get_view : forall st k,
  cache_get st k = match cview st with
                   | Some (k', e) => if String.eqb k k' then Some e else None
                   | None => None
                   end.
Proof. intros. unfold cache_get, cview. destruct (cs_cache_on st); auto. Qed.

Lemma cview_cache_set : forall st k e, cview (cache_set st k e) = if cs_cache_on st then Some (k, e) else None.
Proof. intros. unfold cview, cache_set. destruct (cs_cache_on st) eqn:E; simpl; auto. now rewrite E. Qed.

Lemma set_cache_set : forall st k e, cs_set (cache_set st k e) = cs_set st.
Proof. intros. unfold cache_set. destruct (cs_cache_on st); auto. Qed.

(* ------------------------------------------------------------------ specification *)

Definition reg_t := list (shint * N).

(* (h, v) is registered under key k and no registered entry under k has a higher version *)
Definition is_highest (reg : reg_t) (k : skey) (h : shint) (v : N) : Prop :=
  In (h, v) reg /\ key_of h = k /\
  forall h' v', In (h', v') reg -> key_of h' = k -> ver_compare (s_ver h') (s_ver h) <> Gt.

Definition none_registered (reg : reg_t) (k : skey) : Prop :=
  forall h' v', In (h', v') reg -> key_of h' <> k.

Definition lookup_ok (reg : reg_t) (h : shint) (found : bool) (v : N) : Prop :=
  if found then exists h', is_highest reg (key_of h) h' v
  else v = 0%N /\ none_registered reg (key_of h).

Section SetProofs.
  Variable parse : string -> option shint.

  Definition out_ok (reg : reg_t) (o : op) (x : out) : Prop :=
    match o, x with
    | OAdd h _, RAdd ok => ok = true -> s_valid h = true
    | OFind h, RFind f v => lookup_ok reg h f v
    | OFindStr s, RRes (err, _, f, v) =>
        match parse s with
        | None => err = true
        | Some p => err = false /\ lookup_ok reg p f v
        end
    | OFindType _, RRes _ => True
    | OFindTypeStr _, RRes _ => True
    | _, _ => False
    end.

  Definition reg_after (reg : reg_t) (o : op) (x : out) : reg_t :=
    match o, x with
    | OAdd h v, RAdd true => (reg ++ [(h, v)])%list
    | _, _ => reg
    end.

  Fixpoint trace_ok (reg : reg_t) (ops : list op) (outs : list out) : Prop :=
    match ops, outs with
    | [], [] => True
    | o :: ops', x :: outs' => out_ok reg o x /\ trace_ok (reg_after reg o x) ops' outs'
    | _, _ => False
    end.

  (* the hints and texts a history uses, and the discipline of their String()s *)
  Variable U : shint -> Prop.
  Variable S : string -> Prop.
  Hypothesis D1 : forall h1 h2, U h1 -> U h2 -> s_str h1 = s_str h2 -> key_of h1 = key_of h2.
  Hypothesis D2 : forall s h, S s -> U h -> s_str h = s -> exists p, parse s = Some p /\ key_of p = key_of h.

  Definition op_ok (o : op) : Prop :=
    match o with
    | OAdd h _ => U h
    | OFind h => U h
    | OFindStr s => S s /\ forall p, parse s = Some p -> U p
    | _ => True
    end.

  (* ---------------------------------------------------------------- invariants *)

  Definition InvS (st : cset) (reg : reg_t) : Prop :=
    forall k, match aget skey_eqb k (cs_set st) with
              | Some (h, v) => is_highest reg k h v
              | None => none_registered reg k
              end.

  Definition entry_ok (st : cset) (e : centry) (h : shint) : Prop :=
    match e with
    | CPair _ v => exists h', aget skey_eqb (key_of h) (cs_set st) = Some (h', v)
    | CBool b => b = false /\ aget skey_eqb (key_of h) (cs_set st) = None
    | CErr => False
    end.

  Definition InvC (st : cset) : Prop :=
    match cview st with
    | None => True
    | Some (k, e) =>
        (forall h, U h -> k = hkey (s_str h) -> entry_ok st e h) /\
        (forall s, S s -> k = hkey s ->
           match parse s with Some p => entry_ok st e p | None => e = CErr end)
    end.

  (* a result read off the current set is a correct lookup result *)
  Lemma entry_lookup : forall st reg h, InvS st reg ->
    match aget skey_eqb (key_of h) (cs_set st) with
    | Some (_, v) => lookup_ok reg h true v
    | None => lookup_ok reg h false 0%N
    end.
  Proof.
    intros st reg h IS. specialize (IS (key_of h)).
    destruct (aget skey_eqb (key_of h) (cs_set st)) as [[h' v]|].
    - simpl. exists h'. exact IS.
    - simpl. auto.
  Qed.

  (* caching, under the key of hint h, an entry that is right for h keeps the cache invariant *)
  Lemma cache_fresh_hint : forall st h e, U h -> entry_ok st e h ->
    InvC (cache_set st (hkey (s_str h)) e).
  Proof.
    intros st h e Uh OK. unfold InvC. rewrite cview_cache_set.
    destruct (cs_cache_on st); [|exact I].
    assert (forall q, key_of q = key_of h -> entry_ok (cache_set st (hkey (s_str h)) e) e q) as T.
    { intros q Kq. unfold entry_ok in *. rewrite set_cache_set. rewrite Kq. exact OK. }
    split.
    - intros q Uq Hk. apply hkey_inj in Hk. apply T. symmetry. apply D1; auto.
    - intros s Ss Hk. apply hkey_inj in Hk. destruct (D2 s h Ss Uh Hk) as (p & Pp & Kp).
      rewrite Pp. apply T. exact Kp.
  Qed.

  (* caching anything under a type key keeps it *)
  Lemma cache_fresh_type : forall st t e, InvC (cache_set st (tkey t) e).
  Proof.
    intros. unfold InvC. rewrite cview_cache_set. destruct (cs_cache_on st); [|exact I].
    split; intros x _ Hk; symmetry in Hk; apply hkey_tkey in Hk; contradiction.
  Qed.

  Lemma InvS_cache_set : forall st reg k e, InvS st reg -> InvS (cache_set st k e) reg.
  Proof. intros st reg k e H k'. rewrite set_cache_set. apply H. Qed.

  (* ---------------------------------------------------------------- find *)

  Lemma find_raw_ok : forall st reg h, U h -> InvS st reg ->
    let '(st', f, v) := cs_find_raw st h in
    lookup_ok reg h f v /\ InvS st' reg /\ InvC st'.
  Proof.
    intros st reg h Uh IS. unfold cs_find_raw.
    pose proof (entry_lookup st reg h IS) as L.
    destruct (aget skey_eqb (key_of h) (cs_set st)) as [[h' v]|] eqn:G.
    - split; [exact L|]. split; [now apply InvS_cache_set|].
      apply cache_fresh_hint; auto. simpl. eauto.
    - split; [exact L|]. split; [now apply InvS_cache_set|].
      apply cache_fresh_hint; auto. simpl. auto.
  Qed.

  Lemma entry_ok_lookup : forall st reg e h, InvS st reg -> entry_ok st e h ->
    match e with
    | CErr => False
    | CBool b => lookup_ok reg h b 0%N
    | CPair _ v => lookup_ok reg h true v
    end.
  Proof.
    intros st reg e h IS OK. pose proof (entry_lookup st reg h IS) as L.
    destruct e as [|b|ch v]; simpl in OK.
    - exact OK.
    - destruct OK as [-> G]. now rewrite G in L.
    - destruct OK as [h' G]. now rewrite G in L.
  Qed.

  Lemma find_ok : forall st reg h, U h -> InvS st reg -> InvC st ->
    let '(st', f, v) := cs_find st h in
    lookup_ok reg h f v /\ InvS st' reg /\ InvC st'.
  Proof.
    intros st reg h Uh IS IC. unfold cs_find. rewrite cache_get_view.
    pose proof IC as IC'.
    unfold InvC in IC. destruct (cview st) as [[k e]|] eqn:CV.
    - destruct (String.eqb (hkey (s_str h)) k) eqn:E.
      + apply String.eqb_eq in E. destruct IC as [C1 _].
        pose proof (entry_ok_lookup st reg e h IS (C1 h Uh (eq_sym E))) as L.
        destruct e as [|b|ch v]; [contradiction| |]; auto.
      + apply find_raw_ok; auto.
    - apply find_raw_ok; auto.
  Qed.

  Lemma find_str_ok : forall st reg s, S s -> (forall p, parse s = Some p -> U p) ->
    InvS st reg -> InvC st ->
    let '(st', r) := cs_find_str parse st s in
    out_ok reg (OFindStr s) (RRes r) /\ InvS st' reg /\ InvC st'.
  Proof.
    intros st reg s Ss Up IS IC. unfold cs_find_str. rewrite cache_get_view.
    assert (match parse s with
            | None => (cache_set st (hkey s) CErr, (true, "", false, 0%N))
            | Some h => let '(st', found, v) := cs_find_raw st h in (st', (false, s_str h, found, v))
            end = (fst (match parse s with
            | None => (cache_set st (hkey s) CErr, (true, "", false, 0%N))
            | Some h => let '(st', found, v) := cs_find_raw st h in (st', (false, s_str h, found, v))
            end), snd (match parse s with
            | None => (cache_set st (hkey s) CErr, (true, "", false, 0%N))
            | Some h => let '(st', found, v) := cs_find_raw st h in (st', (false, s_str h, found, v))
            end))) as _ by (destruct (match parse s with None => _ | Some h => _ end); reflexivity).
    assert (let '(st', r) := match parse s with
            | None => (cache_set st (hkey s) CErr, (true, "", false, 0%N))
            | Some h => let '(st', found, v) := cs_find_raw st h in (st', (false, s_str h, found, v))
            end in out_ok reg (OFindStr s) (RRes r) /\ InvS st' reg /\ InvC st') as MISS.
    { destruct (parse s) as [p|] eqn:P.
      - pose proof (find_raw_ok st reg p (Up p eq_refl) IS) as R.
        destruct (cs_find_raw st p) as [[st' f] v]. simpl. rewrite P. tauto.
      - simpl. rewrite P. split; [reflexivity|]. split; [now apply InvS_cache_set|].
        unfold InvC. rewrite cview_cache_set. destruct (cs_cache_on st); [|exact I]. split.
        + intros q Uq Hk. apply hkey_inj in Hk. destruct (D2 s q Ss Uq (eq_sym Hk)) as (p & Pp & _). congruence.
        + intros s' _ Hk. apply hkey_inj in Hk. subst s'. now rewrite P. }
    pose proof IC as IC'.
    unfold InvC in IC. destruct (cview st) as [[k e]|] eqn:CV; [|exact MISS].
    destruct (String.eqb (hkey s) k) eqn:E; [|exact MISS].
    apply String.eqb_eq in E. destruct IC as [_ C2]. specialize (C2 s Ss (eq_sym E)).
    destruct (parse s) as [p|] eqn:P.
    - pose proof (entry_ok_lookup st reg e p IS C2) as L.
      destruct e as [|b|ch v]; [contradiction| |]; simpl; rewrite P; auto.
    - subst e. simpl. rewrite P. auto.
  Qed.

  (* ---------------------------------------------------------------- add *)

  Lemma is_highest_mono_other : forall reg k h v h0 v0,
    is_highest reg k h v -> key_of h0 <> k -> is_highest ((reg ++ [(h0, v0)])%list) k h v.
  Proof.
    intros reg k h v h0 v0 (I & K & M) NE. split; [apply in_or_app; auto|]. split; [exact K|].
    intros h' v' I' K'. apply in_app_or in I'. destruct I' as [I'|[I'|[]]]; [eauto|].
    inversion I'. subst. contradiction.
  Qed.

  Lemma none_registered_other : forall reg k h0 v0,
    none_registered reg k -> key_of h0 <> k -> none_registered ((reg ++ [(h0, v0)])%list) k.
  Proof.
    intros reg k h0 v0 N NE h' v' I'. apply in_app_or in I'. destruct I' as [I'|[I'|[]]]; [eauto|].
    inversion I'. now subst.
  Qed.

  Lemma ver_refl_not_gt : forall a, ver_compare a a <> Gt.
  Proof. intros a. rewrite (tc_refl _ total_ver_compare). discriminate. Qed.

  Lemma add_ok : forall st reg h v, U h -> InvS st reg -> InvC st ->
    let '(st', ok) := cs_add st h v in
    out_ok reg (OAdd h v) (RAdd ok) /\ InvS st' (reg_after reg (OAdd h v) (RAdd ok)) /\ InvC st'.
  Proof.
    intros st reg h v Uh IS IC. unfold cs_add.
    destruct (add_with_hint st h v) as [st1|] eqn:AW.
    2:{ simpl. split; [discriminate|]. auto. }
    (* what add_with_hint did *)
    assert (s_valid h = true /\ cs_cache_on st1 = cs_cache_on st /\
            InvS st1 ((reg ++ [(h, v)])%list) /\
            exists hs sv, aget skey_eqb (key_of h) (cs_set st1) = Some (hs, sv)) as (Hv & Hon & IS1 & hs & sv & G1).
    { unfold add_with_hint in AW. destruct (s_valid h) eqn:Hv; [|discriminate]. cbn [negb] in AW.
      split; [reflexivity|].
      pose proof (IS (key_of h)) as ISk.
      set (store := mkCSet (aset skey_eqb (key_of h) (h, v) (cs_set st)) (cs_heads st) (cs_cache_on st) (cs_cache st)) in *.
      assert (InvS_store : (match aget skey_eqb (key_of h) (cs_set st) with
                            | Some (eh, _) => ver_compare (s_ver eh) (s_ver h) <> Gt
                            | None => True end) -> InvS store ((reg ++ [(h, v)])%list)).
      { intros Hle k. unfold store. cbn [cs_set].
        destruct (skey_eqb (key_of h) k) eqn:Ek.
        - apply skey_eqb_eq in Ek. subst k. rewrite (aget_aset_same skey_eqb skey_eqb_eq).
          split; [apply in_or_app; right; left; reflexivity|]. split; [reflexivity|].
          intros h' v' I' K'. apply in_app_or in I'. destruct I' as [I'|[I'|[]]].
          + destruct (aget skey_eqb (key_of h) (cs_set st)) as [[eh ev]|].
            * destruct ISk as (_ & _ & M). eapply ver_le_trans; [eapply M; eauto|exact Hle].
            * exfalso. eapply ISk; eauto.
          + inversion I'. subst. apply ver_refl_not_gt.
        - assert (key_of h <> k) as NE by (intro X; apply skey_eqb_eq in X; congruence).
          rewrite (aget_aset_other skey_eqb skey_eqb_eq) by exact NE.
          specialize (IS k). destruct (aget skey_eqb k (cs_set st)) as [[h2 v2]|].
          + now apply is_highest_mono_other.
          + now apply none_registered_other. }
      assert (G_store : exists hs sv, aget skey_eqb (key_of h) (cs_set store) = Some (hs, sv)).
      { exists h, v. unfold store. cbn [cs_set]. apply (aget_aset_same skey_eqb skey_eqb_eq). }
      destruct (aget skey_eqb (key_of h) (cs_set st)) as [[eh ev]|] eqn:G.
      - destruct (hint_equal eh h) eqn:HE; [discriminate|].
        destruct ISk as (Iin & Kk & M).
        destruct (negb (N.eqb (vmaj (s_ver eh)) (vmaj (s_ver h)))) eqn:CM.
        { (* unreachable: same key, same major *)
          exfalso. apply negb_true_iff in CM. apply N.eqb_neq in CM. apply CM.
          unfold key_of in Kk. now inversion Kk. }
        destruct (is_gt (ver_compare (s_ver h) (s_ver eh))) eqn:GT.
        + inversion AW. subst st1. split; [reflexivity|]. split; [|exact G_store].
          apply InvS_store. unfold is_gt in GT. destruct (ver_compare (s_ver h) (s_ver eh)) eqn:C; try discriminate.
          apply ver_gt_lt in C. rewrite C. discriminate.
        + inversion AW. subst st1. split; [reflexivity|]. split; [|rewrite G; eauto].
          intros k. specialize (IS k).
          destruct (skey_eqb (key_of h) k) eqn:Ek.
          * apply skey_eqb_eq in Ek. subst k. rewrite G.
            split; [apply in_or_app; auto|]. split; [exact Kk|].
            intros h' v' I' K'. apply in_app_or in I'. destruct I' as [I'|[I'|[]]]; [eauto|].
            inversion I'. subst. unfold is_gt in GT. destruct (ver_compare (s_ver h') (s_ver eh)); congruence.
          * assert (key_of h <> k) as NE by (intro X; apply skey_eqb_eq in X; congruence).
            destruct (aget skey_eqb k (cs_set st)) as [[h2 v2]|].
            -- now apply is_highest_mono_other.
            -- now apply none_registered_other.
      - inversion AW. subst st1. split; [reflexivity|]. split; [|exact G_store]. apply InvS_store. exact I. }
    rewrite G1. cbn [fst snd].
    split; [intros _; exact Hv|].
    cbn [reg_after].
    set (st2 := cache_set st1 (hkey (s_str h)) (CPair h sv)).
    assert (InvS st2 ((reg ++ [(h, v)])%list)) as IS2 by (now apply InvS_cache_set).
    assert (InvC st2) as IC2.
    { apply cache_fresh_hint; auto. simpl. eauto. }
    split.
    - intros k. specialize (IS2 k). cbn [cs_set]. exact IS2.
    - unfold InvC, cview in *. cbn [cs_cache_on cs_cache cs_set]. unfold entry_ok in *. cbn [cs_set]. exact IC2.
  Qed.

  (* ---------------------------------------------------------------- lookups by type do not disturb *)

  Lemma find_type_raw_ok : forall st reg t, InvS st reg ->
    InvS (fst (cs_find_type_raw st t)) reg /\ InvC (fst (cs_find_type_raw st t)).
  Proof.
    intros st reg t IS. unfold cs_find_type_raw.
    destruct (aget String.eqb t (cs_heads st)) as [[hh v]|]; simpl;
      (split; [now apply InvS_cache_set|apply cache_fresh_type]).
  Qed.

  Lemma find_type_ok : forall st reg t, InvS st reg -> InvC st ->
    InvS (fst (cs_find_type st t)) reg /\ InvC (fst (cs_find_type st t)).
  Proof.
    intros st reg t IS IC. unfold cs_find_type.
    destruct (cache_get st (tkey t)) as [[|b|ch v]|]; simpl; auto. now apply find_type_raw_ok.
  Qed.

  Lemma find_type_str_ok : forall st reg s, InvS st reg -> InvC st ->
    InvS (fst (cs_find_type_str st s)) reg /\ InvC (fst (cs_find_type_str st s)).
  Proof.
    intros st reg s IS IC. unfold cs_find_type_str.
    destruct (cache_get st (tkey s)) as [[|b|ch v]|]; simpl; auto.
    destruct (negb (type_ok s)); simpl.
    - split; [now apply InvS_cache_set|apply cache_fresh_type].
    - now apply find_type_raw_ok.
  Qed.

  (* ---------------------------------------------------------------- one step, all histories *)

  Lemma step_ok : forall st reg o, op_ok o -> InvS st reg -> InvC st ->
    let '(st', x) := step parse st o in
    out_ok reg o x /\ InvS st' (reg_after reg o x) /\ InvC st'.
  Proof.
    intros st reg o OK IS IC. destruct o as [h v|h|s|t|s]; unfold step.
    - pose proof (add_ok st reg h v OK IS IC) as R. destruct (cs_add st h v) as [st' ok]. exact R.
    - pose proof (find_ok st reg h OK IS IC) as R. destruct (cs_find st h) as [[st' f] v]. exact R.
    - destruct OK as [Ss Up]. pose proof (find_str_ok st reg s Ss Up IS IC) as R.
      destruct (cs_find_str parse st s) as [st' r]. destruct R as (R1 & R2 & R3).
      split; [exact R1|]. split; [|exact R3]. destruct r as [[[e hs] f] v]. exact R2.
    - pose proof (find_type_ok st reg t IS IC) as R. destruct (cs_find_type st t) as [st' r]. simpl in *.
      destruct r as [[[e hs] f] v]. tauto.
    - pose proof (find_type_str_ok st reg s IS IC) as R. destruct (cs_find_type_str st s) as [st' r]. simpl in *.
      destruct r as [[[e hs] f] v]. tauto.
  Qed.

  Lemma run_ok : forall ops st reg, Forall op_ok ops -> InvS st reg -> InvC st ->
    trace_ok reg ops (snd (run parse st ops)).
  Proof.
    induction ops as [|o ops IH]; intros st reg F IS IC; [exact I|].
    inversion F as [|? ? Ho Hops]. subst. cbn [run].
    pose proof (step_ok st reg o Ho IS IC) as R.
    destruct (step parse st o) as [st1 x].
    destruct R as (R1 & R2 & R3).
    specialize (IH st1 (reg_after reg o x) Hops R2 R3).
    destruct (run parse st1 ops) as [st2 xs]. cbn [snd] in *. split; assumption.
  Qed.

  Lemma init_inv : forall size, InvS (cs_new size) [] /\ InvC (cs_new size).
  Proof.
    intros size. split.
    - intros k. simpl. intros h' v' [].
    - unfold InvC, cview, cs_new. simpl. destruct (Z.ltb 0 size); exact I.
  Qed.

  Theorem find_is_highest_U : forall size ops, Forall op_ok ops ->
    trace_ok [] ops (snd (run parse (cs_new size) ops)).
  Proof. intros size ops F. destruct (init_inv size). now apply run_ok. Qed.
End SetProofs.

(* ------------------------------------------------------------------ closed form: the discipline is stated on the history itself *)

Definition hints_of_op (parse : string -> option shint) (o : op) : list shint :=
  match o with
  | OAdd h _ => [h]
  | OFind h => [h]
  | OFindStr s => match parse s with Some p => [p] | None => [] end
  | _ => []
  end.

Definition hints_of (parse : string -> option shint) (ops : list op) : list shint :=
  flat_map (hints_of_op parse) ops.

Definition texts_of (ops : list op) : list string :=
  flat_map (fun o => match o with OFindStr s => [s] | _ => [] end) ops.

(* hints with the same String() have the same type and major; a text given to FindByString that is
   the String() of a hint of the history parses, to a hint of the same type and major *)
Definition disciplined (parse : string -> option shint) (ops : list op) : Prop :=
  (forall h1 h2, In h1 (hints_of parse ops) -> In h2 (hints_of parse ops) ->
     s_str h1 = s_str h2 -> key_of h1 = key_of h2) /\
  (forall s h, In s (texts_of ops) -> In h (hints_of parse ops) -> s_str h = s ->
     exists p, parse s = Some p /\ key_of p = key_of h).

Theorem find_is_highest : forall parse size ops, disciplined parse ops ->
  trace_ok parse [] ops (snd (run parse (cs_new size) ops)).
Proof.
  intros parse size ops [D1 D2].
  apply (find_is_highest_U parse (fun h => In h (hints_of parse ops)) (fun s => In s (texts_of ops)) D1 D2).
  apply Forall_forall. intros o Io. unfold op_ok, hints_of, texts_of.
  destruct o as [h v|h|s|t|s]; auto.
  - apply in_flat_map. exists (OAdd h v). simpl. auto.
  - apply in_flat_map. exists (OFind h). simpl. auto.
  - split.
    + apply in_flat_map. exists (OFindStr s). simpl. auto.
    + intros p P. apply in_flat_map. exists (OFindStr s). simpl. rewrite P. simpl. auto.
Qed.
