(* C31 -- lemmas *)
From Coq Require Import List String Ascii Bool NArith ZArith Lia.
From MV Require Import Gen.C31 C31.Model.
Import ListNotations.
Open Scope string_scope.

Lemma consts :
  hint_re_type = re_type_source /\ hint_re_version = re_version_source /\
  hint_min_type_length = 2%Z /\ hint_max_type_length = 100%Z /\ hint_max_version_length = 20%Z /\
  version_min_length = 2%Z /\ compatibleset_new_ints = [0%Z; 1%Z] /\
  hint_cache_key_strings = ["h:"] /\ type_cache_key_strings = ["t:"].
Proof. repeat split; reflexivity. Qed.

(* ------------------------------------------------------------------ strings *)

Fixpoint all_chars (q : ascii -> bool) (s : string) : bool :=
  match s with EmptyString => true | String c r => q c && all_chars q r end.

Lemma length_app : forall a b, String.length (a ++ b) = (String.length a + String.length b)%nat.
Proof. induction a; simpl; intros; auto. Qed.

Lemma all_chars_app : forall q a b, all_chars q (a ++ b) = all_chars q a && all_chars q b.
Proof. induction a; simpl; intros; auto. rewrite IHa. now rewrite andb_assoc. Qed.

Lemma all_chars_impl : forall (q q' : ascii -> bool) s,
  (forall c, q c = true -> q' c = true) -> all_chars q s = true -> all_chars q' s = true.
Proof.
  induction s; simpl; intros H A; auto. apply andb_true_iff in A. destruct A.
  apply andb_true_iff. split; auto.
Qed.

Lemma trim_right_id : forall p s, all_chars (fun c => negb (p c)) s = true -> trim_right p s = s.
Proof.
  induction s as [|c r IH]; simpl; intros H; auto.
  apply andb_true_iff in H. destruct H as [Hc Hr]. rewrite (IH Hr).
  destruct r; [|reflexivity]. apply negb_true_iff in Hc. now rewrite Hc.
Qed.

Lemma trim_left_id : forall p s, all_chars (fun c => negb (p c)) s = true -> trim_left p s = s.
Proof.
  destruct s as [|c r]; simpl; intros H; auto.
  apply andb_true_iff in H. destruct H as [Hc _]. apply negb_true_iff in Hc. now rewrite Hc.
Qed.

Definition plain (c : ascii) : bool := negb (is_space c) && negb (is_nul c).

Lemma hint_trim_id : forall s, all_chars plain s = true -> hint_trim s = s.
Proof.
  intros s H. unfold hint_trim.
  rewrite (trim_right_id is_nul), (trim_right_id is_space), (trim_left_id is_space); auto;
    eapply all_chars_impl; try exact H; unfold plain; intros c Hc; apply andb_true_iff in Hc; tauto.
Qed.

Lemma take_app : forall a b, take (String.length a) (a ++ b) = a.
Proof. induction a; simpl; intros; [destruct b; reflexivity|]. now rewrite IHa. Qed.

Lemma drop_app : forall a c b, drop (S (String.length a)) (a ++ String c b) = b.
Proof. induction a as [|x a IH]; intros c b; [reflexivity|]. simpl. apply IH. Qed.

(* ------------------------------------------------------------------ the type pattern *)

Lemma mid_plain : forall c, type_mid c = true -> plain c = true.
Proof. intros c. destruct c as [[] [] [] [] [] [] [] []]; vm_compute; intros H; try reflexivity; discriminate H. Qed.

Lemma edge_mid : forall c, type_edge c = true -> type_mid c = true.
Proof. intros c H. unfold type_mid. now rewrite H. Qed.

Lemma mid_then_edge_all : forall s, mid_then_edge s = true -> all_chars type_mid s = true.
Proof.
  induction s as [|c r IH]; simpl; intros H; auto.
  destruct r as [|c' r'].
  - simpl. rewrite (edge_mid _ H). reflexivity.
  - apply andb_true_iff in H. destruct H as [Hc Hr]. rewrite Hc. simpl. apply IH. exact Hr.
Qed.

Lemma re_type_all : forall s, re_type s = true -> all_chars type_mid s = true.
Proof.
  destruct s as [|c r]; simpl; intros H; [discriminate|].
  apply andb_true_iff in H. destruct H as [Hc Hr].
  rewrite (edge_mid _ Hc). simpl. now apply mid_then_edge_all.
Qed.

(* the hand-coded matcher against the meaning of ^[a-z0-9][a-z0-9\-_\+]*[a-z0-9]$ :
   s = first ++ middle ++ last with first, last in [a-z0-9] and every middle character in [a-z0-9\-_\+] *)
Lemma mid_then_edge_spec : forall s, mid_then_edge s = true <->
  exists m e, s = m ++ String e EmptyString /\ all_chars type_mid m = true /\ type_edge e = true.
Proof.
  induction s as [|c r IH]; simpl.
  - split; [discriminate|]. intros (m & e & H & _). destruct m; discriminate.
  - destruct r as [|c' r'].
    + split.
      * intros H. exists EmptyString, c. auto.
      * intros (m & e & H & Hm & He). destruct m as [|x m]; simpl in H.
        -- inversion H. subst. exact He.
        -- inversion H. destruct m; discriminate.
    + split.
      * intros H. apply andb_true_iff in H. destruct H as [Hc Hr]. apply IH in Hr.
        destruct Hr as (m & e & E & Hm & He). exists (String c m), e. simpl. rewrite E, Hc, Hm. auto.
      * intros (m & e & H & Hm & He). destruct m as [|x m]; simpl in H; [inversion H|].
        inversion H. subst x. simpl in Hm. apply andb_true_iff in Hm. destruct Hm as [Hc Hm].
        rewrite Hc. simpl. apply IH. exists m, e. auto.
Qed.

Lemma re_type_spec : forall s, re_type s = true <->
  exists f m e, s = String f (m ++ String e EmptyString) /\ type_edge f = true /\
                all_chars type_mid m = true /\ type_edge e = true.
Proof.
  destruct s as [|c r]; simpl.
  - split; [discriminate|]. intros (f & m & e & H & _). discriminate.
  - rewrite andb_true_iff, mid_then_edge_spec. split.
    + intros (Hc & m & e & E & Hm & He). exists c, m, e. subst. auto.
    + intros (f & m & e & E & Hf & Hm & He). inversion E. subst. split; auto. exists m, e. auto.
Qed.

(* find_sep returns the leftmost position where `-v<digit>` starts *)
Lemma find_sep_from_spec : forall s i k, find_sep_from i s = Some k <->
  exists n, k = (i + n)%nat /\ sep_here (drop n s) = true /\ (n < String.length s)%nat /\
            forall j, (j < n)%nat -> sep_here (drop j s) = false.
Proof.
  induction s as [|c r IH]; intros i k.
  - cbn [find_sep_from]. split; [discriminate|]. intros (n & _ & _ & L & _). cbn [String.length] in L. lia.
  - cbn [find_sep_from]. destruct (sep_here (String c r)) eqn:E.
    + split.
      * intros H. inversion H. subst. exists 0%nat. cbn [drop String.length].
        repeat split; auto; try lia.
      * intros (n & -> & Hs & L & Hmin). destruct n; [f_equal; lia|].
        specialize (Hmin 0%nat ltac:(lia)). cbn [drop] in Hmin. congruence.
    + rewrite IH. split.
      * intros (n & -> & Hs & L & Hmin). exists (S n). cbn [drop String.length].
        repeat split; auto; try lia.
        intros j Hj. destruct j; [exact E|]. cbn [drop]. apply Hmin. lia.
      * intros (n & -> & Hs & L & Hmin). destruct n; [cbn [drop] in Hs; congruence|].
        exists n. cbn [drop String.length] in *. repeat split; auto; try lia.
        intros j Hj. apply (Hmin (S j)). lia.
Qed.

(* ------------------------------------------------------------------ print / parse *)

Lemma sep_here_suffix : is_digit "-" = false /\ Ascii.eqb "-" "v" = false.
Proof. split; reflexivity. Qed.

Lemma find_sep_from_none_shift : forall s i j, find_sep_from i s = None -> find_sep_from j s = None.
Proof.
  induction s as [|c r IH]; intros i j H; [reflexivity|].
  cbn [find_sep_from] in *. destruct (sep_here (String c r)); [discriminate|]. eapply IH; eauto.
Qed.

(* no separator inside t, and t followed by "-v<digit>...": the first separator of the whole is at |t| *)
Lemma find_sep_from_print : forall t i d rest,
  find_sep_from 0 t = None -> is_digit d = true ->
  find_sep_from i (t ++ String "-" (String "v" (String d rest))) = Some (i + String.length t)%nat.
Proof.
  induction t as [|c r IH]; intros i d rest Hn Hd.
  - simpl. rewrite Hd. f_equal. lia.
  - assert (sep_here (String c r) = false /\ find_sep_from 0 r = None) as [Hh Hr].
    { cbn [find_sep_from] in Hn. destruct (sep_here (String c r)); [discriminate|]. split; auto.
      eapply find_sep_from_none_shift; eauto. }
    change (String c r ++ String "-" (String "v" (String d rest)))
      with (String c (r ++ String "-" (String "v" (String d rest)))).
    cbn [find_sep_from].
    assert (sep_here (String c (r ++ String "-" (String "v" (String d rest)))) = false) as Hs.
    { destruct r as [|c1 [|c2 r2]]; simpl.
      - (* c - v : needs c = '-' and '-' = 'v' *)
        destruct (Ascii.eqb c "-"); reflexivity.
      - (* c c1 - : '-' is not a digit *)
        destruct (Ascii.eqb c "-"), (Ascii.eqb c1 "v"); reflexivity.
      - exact Hh. }
    rewrite Hs. rewrite (IH (S i) d rest Hr Hd). f_equal. simpl. lia.
Qed.

Section HintProofs.
  Variable V : Type.
  Variable vprint : V -> string.
  Variable vparse : string -> V.
  Variable vsemver : V -> bool.

  (* what is assumed of the semver library, for valid versions only *)
  Hypothesis H_rt : forall v, vsemver v = true -> vparse (vprint v) = v.
  Hypothesis H_head : forall v, vsemver v = true ->
    exists d rest, vprint v = String "v" (String d rest) /\ is_digit d = true.
  Hypothesis H_plain : forall v, vsemver v = true -> all_chars plain (vprint v) = true.

  Let hint := hint V.
  Let print := hint_print V vprint.
  Let parse := parse_hint V vparse.

  Lemma type_ok_parts : forall t, type_ok t = true ->
    (2 <= String.length t)%nat /\ re_type t = true /\ find_sep_from 0 t = None.
  Proof.
    intros t H. unfold type_ok in H. repeat (apply andb_true_iff in H; destruct H as [H ?]).
    unfold hint_min_type_length in H. apply Z.leb_le in H.
    split; [lia|]. split; [assumption|].
    unfold has_sep, find_sep in *. destruct (find_sep_from 0 t); [discriminate|reflexivity].
  Qed.

  Lemma roundtrip : forall t v, type_ok t = true -> vsemver v = true ->
    parse (print (mkHint t v)) = Some (mkHint t v).
  Proof.
    intros t v Ht Hv. destruct (type_ok_parts t Ht) as (Hlen & Hre & Hns).
    destruct (H_head v Hv) as (d & rest & Evs & Hd).
    unfold parse, print, parse_hint, hint_print, hint_string. cbn [htype hver].
    assert (all_chars plain (t ++ "-" ++ vprint v) = true) as Hplain.
    { rewrite all_chars_app. apply andb_true_iff. split.
      - eapply all_chars_impl; [apply mid_plain|]. now apply re_type_all.
      - simpl. now apply H_plain. }
    assert (Z.ltb (Z.of_nat (String.length (t ++ "-" ++ vprint v))) min_hint_length = false) as Hl.
    { apply Z.ltb_ge. rewrite length_app. rewrite Evs. simpl. unfold min_hint_length, hint_min_type_length, version_min_length. lia. }
    rewrite Hl. rewrite (hint_trim_id _ Hplain).
    assert (find_sep (t ++ "-" ++ vprint v) = Some (String.length t)) as Hf.
    { unfold find_sep. rewrite Evs. simpl append. rewrite (find_sep_from_print t 0 d rest Hns Hd). reflexivity. }
    rewrite Hf. unfold ensure_parse_hint. rewrite Hf.
    rewrite take_app. simpl append. rewrite drop_app. rewrite (H_rt v Hv). reflexivity.
  Qed.

  (* parsing what was printed never gives another hint (valid or not) *)
  Lemma parse_never_other : forall t v h', type_ok t = true -> vsemver v = true ->
    parse (print (mkHint t v)) = Some h' -> h' = mkHint t v.
  Proof. intros t v h' Ht Hv H. rewrite (roundtrip t v Ht Hv) in H. now inversion H. Qed.

  (* hence printing is injective on valid (type, version) pairs: the encoding is unambiguous *)
  Lemma print_injective : forall t v t' v',
    type_ok t = true -> vsemver v = true -> type_ok t' = true -> vsemver v' = true ->
    print (mkHint t v) = print (mkHint t' v') -> t = t' /\ v = v'.
  Proof.
    intros t v t' v' Ht Hv Ht' Hv' E.
    pose proof (roundtrip t v Ht Hv) as R. rewrite E in R. rewrite (roundtrip t' v' Ht' Hv') in R.
    inversion R. auto.
  Qed.

  (* the same through EnsureParseHint (Hint.UnmarshalText) *)
  Lemma ensure_roundtrip : forall t v, type_ok t = true -> vsemver v = true ->
    ensure_parse_hint V vparse (print (mkHint t v)) = Some (mkHint t v).
  Proof.
    intros t v Ht Hv. destruct (type_ok_parts t Ht) as (Hlen & Hre & Hns).
    destruct (H_head v Hv) as (d & rest & Evs & Hd).
    unfold print, hint_print, hint_string, ensure_parse_hint. cbn [htype hver].
    assert (find_sep (t ++ "-" ++ vprint v) = Some (String.length t)) as Hf.
    { unfold find_sep. rewrite Evs. simpl append. rewrite (find_sep_from_print t 0 d rest Hns Hd). reflexivity. }
    rewrite Hf. rewrite take_app. simpl append. rewrite drop_app. rewrite (H_rt v Hv). reflexivity.
  Qed.

  (* a printed valid hint is a valid hint again after parsing: validity is a function of (type, version) *)
End HintProofs.
