(* C31 -- hint strings and the compatible set.  Transcribes (after the fix: commits)

     util/hint/type.go   Type.IsValid  (length, reTypeAllowedChars, no version separator inside)
     util/hint/hint.go   hintString, NewHint, EnsureParseHint, parseHint/ParseHint, Hint.IsValid
     util/version.go     Version.Compare, compareVersionPrerelease, versionNextIdent, versionIsNum
     util/hint/set.go    CompatibleSet: add, addWithHint, Find, FindByString, FindBytType,
                         FindBytTypeString, find, findBytType, cacheGet, cacheSet

   Strings are Coq strings (lists of 8-bit characters).  The semver library (Masterminds: text ->
   major/minor/patch/prerelease, canonical printing) is NOT modelled: in the hint part a version is an
   element of an abstract type with print/parse functions (Section variables), in the set part a
   version is the record of the four fields Version.Compare reads.  *)
From Coq Require Import List String Ascii Bool NArith ZArith.
From MV Require Import Gen.C31 Common.Cases.
Import ListNotations.
Open Scope string_scope.

(* ------------------------------------------------------------------ characters *)

Definition in_range (lo hi : N) (c : ascii) : bool :=
  let n := N_of_ascii c in (N.leb lo n) && (N.leb n hi).
Definition is_digit (c : ascii) : bool := in_range 48 57 c.            (* \d  = [0-9] *)
Definition is_lower (c : ascii) : bool := in_range 97 122 c.           (* [a-z] *)
Definition type_edge (c : ascii) : bool := is_lower c || is_digit c.   (* [a-z0-9] *)
Definition type_mid (c : ascii) : bool :=                               (* [a-z0-9\-_\+] *)
  type_edge c || Ascii.eqb c "-" || Ascii.eqb c "_" || Ascii.eqb c "+".

(* ------------------------------------------------------------------ Type.IsValid *)

(* source patterns the hand-coded matchers implement (tied to Gen.C31 in Props) *)
Definition re_type_source : string := "^[a-z0-9][a-z0-9\-_\+]*[a-z0-9]$".
Definition re_version_source : string := "\-v\d+".

(* [a-z0-9\-_\+]*[a-z0-9]$ *)
Fixpoint mid_then_edge (s : string) : bool :=
  match s with
  | EmptyString => false
  | String c r =>
      match r with
      | EmptyString => type_edge c
      | _ => type_mid c && mid_then_edge r
      end
  end.

Definition re_type (s : string) : bool :=
  match s with
  | EmptyString => false
  | String c r => type_edge c && mid_then_edge r
  end.

(* regVersion = `\-v\d+` : does a match start at the head of s? *)
Definition sep_here (s : string) : bool :=
  match s with
  | String a (String b (String c _)) => Ascii.eqb a "-" && Ascii.eqb b "v" && is_digit c
  | _ => false
  end.

(* regVersion.FindStringIndex(s)[0] : start of the leftmost match *)
Fixpoint find_sep_from (i : nat) (s : string) : option nat :=
  match s with
  | EmptyString => None
  | String _ r => if sep_here s then Some i else find_sep_from (S i) r
  end.
Definition find_sep (s : string) : option nat := find_sep_from 0 s.
Definition has_sep (s : string) : bool := match find_sep s with Some _ => true | None => false end.

Definition type_ok (t : string) : bool :=
  let n := Z.of_nat (String.length t) in
  (Z.leb hint_min_type_length n) && (Z.leb n hint_max_type_length) && re_type t && negb (has_sep t).

(* the rule before the fix (kept for the Example that shows the ambiguity it allowed) *)
Definition type_ok_old (t : string) : bool :=
  let n := Z.of_nat (String.length t) in
  (Z.leb hint_min_type_length n) && (Z.leb n hint_max_type_length) && re_type t.

(* ------------------------------------------------------------------ strings: take/drop/trim *)

Fixpoint take (n : nat) (s : string) : string :=
  match n, s with
  | S k, String c r => String c (take k r)
  | _, _ => EmptyString
  end.
Fixpoint drop (n : nat) (s : string) : string :=
  match n, s with
  | S k, String _ r => drop k r
  | _, _ => s
  end.

Definition is_nul (c : ascii) : bool := Ascii.eqb c "000".
(* unicode.IsSpace restricted to one-byte characters < 0x80: \t \n \v \f \r and space *)
Definition is_space (c : ascii) : bool := in_range 9 13 c || Ascii.eqb c " ".

(* remove trailing characters satisfying p *)
Fixpoint trim_right (p : ascii -> bool) (s : string) : string :=
  match s with
  | EmptyString => EmptyString
  | String c r =>
      match trim_right p r with
      | EmptyString => if p c then EmptyString else String c EmptyString
      | r' => String c r'
      end
  end.
Fixpoint trim_left (p : ascii -> bool) (s : string) : string :=
  match s with
  | EmptyString => EmptyString
  | String c r => if p c then trim_left p r else s
  end.

(* parseHint's preprocessing: bytes.TrimRight(b, "\x00") then strings.TrimSpace *)
Definition hint_trim (s : string) : string := trim_left is_space (trim_right is_space (trim_right is_nul s)).

(* ------------------------------------------------------------------ Hint print / parse *)

Definition hint_string (t vs : string) : string := t ++ "-" ++ vs.

Definition min_hint_length : Z := hint_min_type_length + version_min_length + 1.

Section Hint.
  Variable V : Type.                       (* util.Version *)
  Variable vprint : V -> string.           (* Version.String ; "" for Version{} *)
  Variable vparse : string -> V.           (* util.EnsureParseVersion ; Version{} when it fails *)
  Variable vsemver : V -> bool.            (* Version.IsValid(nil) == nil *)

  Record hint := mkHint { htype : string; hver : V }.

  (* NewHint(t, v).String() *)
  Definition hint_print (h : hint) : string := hint_string (htype h) (vprint (hver h)).

  (* EnsureParseHint ; None = the zero Hint{} *)
  Definition ensure_parse_hint (s : string) : option hint :=
    match find_sep s with
    | None => None
    | Some i => Some (mkHint (take i s) (vparse (drop (S i) s)))
    end.

  (* parseHint / ParseHint ; None = error *)
  Definition parse_hint (s : string) : option hint :=
    if Z.ltb (Z.of_nat (String.length s)) min_hint_length then None
    else
      let ns := hint_trim s in
      match find_sep ns with
      | None => None
      | Some _ => ensure_parse_hint ns
      end.

  Definition version_ok (v : V) : bool :=
    vsemver v && Z.leb (Z.of_nat (String.length (vprint v))) hint_max_version_length.

  (* Hint.IsValid for a Hint made by NewHint *)
  Definition hint_ok (h : hint) : bool := type_ok (htype h) && version_ok (hver h).
End Hint.

Arguments mkHint {V}.
Arguments htype {V}.
Arguments hver {V}.

(* ------------------------------------------------------------------ Version.Compare *)

Record ver := mkVer { vmaj : N; vmin : N; vpat : N; vpre : string }.    (* prerelease without the leading '-' *)

(* strings.Split(p, ".") -- the idents versionNextIdent walks through *)
Fixpoint split_dot (s : string) : list string :=
  match s with
  | EmptyString => [EmptyString]
  | String c r =>
      if Ascii.eqb c "." then EmptyString :: split_dot r
      else match split_dot r with
           | x :: l => String c x :: l
           | [] => [String c EmptyString]
           end
  end.

(* versionIsNum *)
Fixpoint is_num (s : string) : bool :=
  match s with EmptyString => true | String c r => is_digit c && is_num r end.

Definition nat_compare_len (x y : string) : comparison := Nat.compare (String.length x) (String.length y).

(* one round of the loop of compareVersionPrerelease for dx <> dy *)
Definition cmp_ident_ne (dx dy : string) : comparison :=
  let ix := is_num dx in
  let iy := is_num dy in
  if negb (Bool.eqb ix iy) then (if ix then Lt else Gt)
  else if ix && Nat.ltb (String.length dx) (String.length dy) then Lt
  else if ix && Nat.ltb (String.length dy) (String.length dx) then Gt
  else match String.compare dx dy with Lt => Lt | _ => Gt end.

Definition cmp_ident (dx dy : string) : comparison :=
  if String.eqb dx dy then Eq else cmp_ident_ne dx dy.

(* the loop: x, y = remaining idents; when one side runs out: `if x == "" { return -1 }; return 1` *)
Fixpoint cmp_idents (la lb : list string) : comparison :=
  match la, lb with
  | [], _ => Lt
  | _, [] => Gt
  | x :: la', y :: lb' => if String.eqb x y then cmp_idents la' lb' else cmp_ident_ne x y
  end.

(* compareVersionPrerelease *)
Definition cmp_pre (a b : string) : comparison :=
  if String.eqb a b then Eq
  else if String.eqb a "" then Gt
  else if String.eqb b "" then Lt
  else cmp_idents (split_dot a) (split_dot b).

(* Version.Compare ; -1/0/1 as Lt/Eq/Gt *)
Definition ver_compare (a b : ver) : comparison :=
  match N.compare (vmaj a) (vmaj b) with
  | Eq => match N.compare (vmin a) (vmin b) with
          | Eq => match N.compare (vpat a) (vpat b) with
                  | Eq => cmp_pre (vpre a) (vpre b)
                  | c => c
                  end
          | c => c
          end
  | c => c
  end.

(* ------------------------------------------------------------------ CompatibleSet *)

(* a Hint as the set sees it: type, the version fields Compare/Major read, its String() (the cache key)
   and the result of IsValid *)
Record shint := mkSHint { s_type : string; s_ver : ver; s_str : string; s_valid : bool }.

Definition skey := (string * N)%type.          (* (type, major): st.set[type][major] flattened *)
Definition key_of (h : shint) : skey := (s_type h, vmaj (s_ver h)).
Definition skey_eqb (a b : skey) : bool := String.eqb (fst a) (fst b) && N.eqb (snd a) (snd b).

Section Assoc.
  Context {K A : Type} (keqb : K -> K -> bool).
  Fixpoint aget (k : K) (m : list (K * A)) : option A :=
    match m with
    | [] => None
    | (k', v) :: r => if keqb k k' then Some v else aget k r
    end.
  Fixpoint aset (k : K) (v : A) (m : list (K * A)) : list (K * A) :=
    match m with
    | [] => [(k, v)]
    | (k', v') :: r => if keqb k k' then (k, v) :: r else (k', v') :: aset k v r
    end.
End Assoc.

Inductive centry :=
| CErr                                  (* an error value *)
| CBool (b : bool)                      (* `false` stored by find / findBytType *)
| CPair (h : shint) (v : N).            (* [2]interface{}{ht, v} *)

Record cset := mkCSet {
  cs_set : list (skey * (shint * N));              (* set + hints, updated in lockstep *)
  cs_heads : list (string * (shint * N));          (* typeheads + typeheadhints *)
  cs_cache_on : bool;                              (* NewCompatibleSet(size): size > 0 *)
  cs_cache : option (string * centry)              (* util.NewLRUGCache(1): one slot *)
}.

(* hintCacheKey / typeCacheKey: the two key spaces of the one cache slot *)
Definition hkey (s : string) : string := "h:" ++ s.
Definition tkey (s : string) : string := "t:" ++ s.

Definition cs_new (size : Z) : cset := mkCSet [] [] (Z.ltb 0 size) None.

Definition cache_set (st : cset) (k : string) (e : centry) : cset :=
  if cs_cache_on st then mkCSet (cs_set st) (cs_heads st) true (Some (k, e)) else st.

(* cacheGet: None = not in the cache *)
Definition cache_get (st : cset) (k : string) : option centry :=
  if cs_cache_on st then
    match cs_cache st with
    | Some (k', e) => if String.eqb k k' then Some e else None
    | None => None
    end
  else None.

(* Hint.Equal *)
Definition hint_equal (a b : shint) : bool :=
  String.eqb (s_type a) (s_type b) && match ver_compare (s_ver a) (s_ver b) with Eq => true | _ => false end.

Definition is_gt (c : comparison) : bool := match c with Gt => true | _ => false end.

(* addWithHint ; None = error *)
Definition add_with_hint (st : cset) (h : shint) (v : N) : option cset :=
  if negb (s_valid h) then None
  else
    let store := mkCSet (aset skey_eqb (key_of h) (h, v) (cs_set st)) (cs_heads st) (cs_cache_on st) (cs_cache st) in
    match aget skey_eqb (key_of h) (cs_set st) with
    | None => Some store
    | Some (eh, _) =>
        if hint_equal eh h then None
        else if negb (N.eqb (vmaj (s_ver eh)) (vmaj (s_ver h))) then Some store      (* !IsCompatible: unreachable, same major *)
        else if is_gt (ver_compare (s_ver h) (s_ver eh)) then Some store
        else Some st
    end.

(* add ; returns (state, ok) *)
Definition cs_add (st : cset) (h : shint) (v : N) : cset * bool :=
  match add_with_hint st h v with
  | None => (st, false)
  | Some st1 =>
      let stored := match aget skey_eqb (key_of h) (cs_set st1) with Some (_, sv) => sv | None => 0%N end in
      let st2 := cache_set st1 (hkey (s_str h)) (CPair h stored) in
      let heads :=
        match aget String.eqb (s_type h) (cs_heads st2) with
        | None => aset String.eqb (s_type h) (h, v) (cs_heads st2)
        | Some (eh, _) =>
            if is_gt (ver_compare (s_ver h) (s_ver eh)) then aset String.eqb (s_type h) (h, v) (cs_heads st2)
            else cs_heads st2
        end in
      (mkCSet (cs_set st2) heads (cs_cache_on st2) (cs_cache st2), true)
  end.

(* find ; (state, found, value) *)
Definition cs_find_raw (st : cset) (h : shint) : cset * bool * N :=
  match aget skey_eqb (key_of h) (cs_set st) with
  | None => (cache_set st (hkey (s_str h)) (CBool false), false, 0%N)
  | Some (_, v) => (cache_set st (hkey (s_str h)) (CPair h v), true, v)
  end.

(* Find *)
Definition cs_find (st : cset) (h : shint) : cset * bool * N :=
  match cache_get st (hkey (s_str h)) with
  | Some CErr => (st, false, 0%N)
  | Some (CBool b) => (st, b, 0%N)
  | Some (CPair _ v) => (st, true, v)
  | None => cs_find_raw st h
  end.

(* result of the lookups that also return a hint and possibly an error:
   (error, String() of the returned hint, found, value) *)
Definition sres := (bool * string * bool * N)%type.

(* FindByString ; parse = hint.ParseHint as a function of the text *)
Definition cs_find_str (parse : string -> option shint) (st : cset) (s : string) : cset * sres :=
  match cache_get st (hkey s) with
  | Some CErr => (st, (true, "", false, 0%N))
  | Some (CBool b) => (st, (false, "", b, 0%N))
  | Some (CPair ch v) => (st, (false, s_str ch, true, v))
  | None =>
      match parse s with
      | None => (cache_set st (hkey s) CErr, (true, "", false, 0%N))
      | Some h => let '(st', found, v) := cs_find_raw st h in (st', (false, s_str h, found, v))
      end
  end.

(* findBytType *)
Definition cs_find_type_raw (st : cset) (t : string) : cset * sres :=
  match aget String.eqb t (cs_heads st) with
  | None => (cache_set st (tkey t) (CBool false), (false, "", false, 0%N))
  | Some (hh, v) => (cache_set st (tkey t) (CPair hh v), (false, s_str hh, true, v))
  end.

(* FindBytType (it has no error result: an error entry in the cache reads as not found) *)
Definition cs_find_type (st : cset) (t : string) : cset * sres :=
  match cache_get st (tkey t) with
  | Some CErr => (st, (false, "", false, 0%N))
  | Some (CBool b) => (st, (false, "", b, 0%N))
  | Some (CPair ch v) => (st, (false, s_str ch, true, v))
  | None => cs_find_type_raw st t
  end.

(* FindBytTypeString *)
Definition cs_find_type_str (st : cset) (s : string) : cset * sres :=
  match cache_get st (tkey s) with
  | Some CErr => (st, (true, "", false, 0%N))
  | Some (CBool b) => (st, (false, "", b, 0%N))
  | Some (CPair ch v) => (st, (false, s_str ch, true, v))
  | None =>
      if negb (type_ok s) then (cache_set st (tkey s) CErr, (true, "", false, 0%N))
      else cs_find_type_raw st s
  end.

Inductive op :=
| OAdd (h : shint) (v : N)
| OFind (h : shint)
| OFindStr (s : string)
| OFindType (t : string)
| OFindTypeStr (s : string).

Inductive out :=
| RAdd (ok : bool)
| RFind (found : bool) (v : N)
| RRes (r : sres).

Definition step (parse : string -> option shint) (st : cset) (o : op) : cset * out :=
  match o with
  | OAdd h v => let '(st', ok) := cs_add st h v in (st', RAdd ok)
  | OFind h => let '(st', f, v) := cs_find st h in (st', RFind f v)
  | OFindStr s => let '(st', r) := cs_find_str parse st s in (st', RRes r)
  | OFindType t => let '(st', r) := cs_find_type st t in (st', RRes r)
  | OFindTypeStr s => let '(st', r) := cs_find_type_str st s in (st', RRes r)
  end.

Fixpoint run (parse : string -> option shint) (st : cset) (ops : list op) : cset * list out :=
  match ops with
  | [] => (st, [])
  | o :: r => let '(st1, x) := step parse st o in let '(st2, xs) := run parse st1 r in (st2, x :: xs)
  end.

(* ------------------------------------------------------------------ correspondence cases *)

(* texts with unprintable characters are written in hex by the harness *)
Fixpoint string_of_bytes (l : list N) : string :=
  match l with [] => EmptyString | b :: r => String (ascii_of_N b) (string_of_bytes r) end.
Definition hx (s : string) : string := string_of_bytes (unhex s).

Definition cmp_code (c : comparison) : Z := match c with Lt => (-1)%Z | Eq => 0%Z | Gt => 1%Z end.

Definition out_eqb (a b : out) : bool :=
  match a, b with
  | RAdd x, RAdd y => Bool.eqb x y
  | RFind f v, RFind f' v' => Bool.eqb f f' && N.eqb v v'
  | RRes (e, s, f, v), RRes (e', s', f', v') => Bool.eqb e e' && String.eqb s s' && Bool.eqb f f' && N.eqb v v'
  | _, _ => false
  end.
Fixpoint outs_eqb (a b : list out) : bool :=
  match a, b with
  | [], [] => true
  | x :: a', y :: b' => out_eqb x y && outs_eqb a' b'
  | _, _ => false
  end.

Definition tbl_parse {A} (tbl : list (string * A)) (d : A) (s : string) : A :=
  match aget String.eqb s tbl with Some x => x | None => d end.

(* a version is rendered, for the hint part, by its canonical text ("" = Version{}) *)
Inductive case :=
| CType (t : string) (valid : bool)                                   (* Type(t).IsValid(nil) == nil *)
| CParse (s : string)                                                 (* hint.ParseHint(s) *)
         (vtable : list (string * string))                            (* text -> String() of EnsureParseVersion(text) *)
         (observed : option (string * string))                        (* None = error ; Some (type, version text) *)
| CEnsure (s : string) (vtable : list (string * string)) (observed : option (string * string))   (* EnsureParseHint ; None = Hint{} *)
| CPrint (t vs : string) (observed : string)                          (* NewHint(t, v).String(), vs = v.String() *)
| CValid (t vs : string) (vsemver : bool) (observed : bool)           (* NewHint(t, v).IsValid(nil) == nil *)
| CCompare (a b : ver) (observed : Z)                                 (* Version.Compare *)
| CSet (size : Z) (ptable : list (string * option shint)) (ops : list op) (observed : list out).

Definition opt_pair_eqb (a b : option (string * string)) : bool :=
  match a, b with
  | None, None => true
  | Some (x, y), Some (x', y') => String.eqb x x' && String.eqb y y'
  | _, _ => false
  end.

Definition proj_hint (h : option (hint string)) : option (string * string) :=
  match h with Some h => Some (htype h, hver h) | None => None end.

Definition check (c : case) : bool :=
  match c with
  | CType t valid => Bool.eqb (type_ok t) valid
  | CParse s vt obs =>
      opt_pair_eqb (proj_hint (parse_hint string (tbl_parse vt "") s)) obs
  | CEnsure s vt obs =>
      opt_pair_eqb (proj_hint (ensure_parse_hint string (tbl_parse vt "") s)) obs
  | CPrint t vs obs => String.eqb (hint_print string (fun x => x) (mkHint t vs)) obs
  | CValid t vs sv obs => Bool.eqb (hint_ok string (fun x => x) (fun _ => sv) (mkHint t vs)) obs
  | CCompare a b obs => Z.eqb (cmp_code (ver_compare a b)) obs
  | CSet size pt ops obs => outs_eqb (snd (run (tbl_parse pt None) (cs_new size) ops)) obs
  end.
