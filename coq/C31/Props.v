(* C31 -- Hint strings are an unambiguous encoding.  Property theorems only. *)
From Coq Require Import List String Ascii Bool NArith ZArith.
From MV Require Import Gen.C31 C31.Model C31.Proofs.
Import ListNotations.
Open Scope string_scope.

(* the regexps, length limits, the cache size (LRU of 1) and the cache key prefixes in the Go source are
   the ones the model implements *)
Theorem C31_consts :
  hint_re_type = re_type_source /\ hint_re_version = re_version_source /\
  hint_min_type_length = 2%Z /\ hint_max_type_length = 100%Z /\ hint_max_version_length = 20%Z /\
  version_min_length = 2%Z /\ compatibleset_new_ints = [0%Z; 1%Z] /\
  hint_cache_key_strings = ["h:"] /\ type_cache_key_strings = ["t:"].
Proof. exact consts. Qed.
