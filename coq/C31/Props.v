(* C31 -- Hint strings are an unambiguous encoding.  Property theorems only. *)
From Coq Require Import List String Ascii Bool NArith ZArith.
From MV Require Import Gen.C31 C31.Model C31.Order C31.Proofs C31.ProofsVer C31.ProofsSet.
Import ListNotations.
Open Scope string_scope.

(* the regexps, length limits, the cache size (LRU of 1) and the cache key prefixes in the Go source are
   the ones the model implements *)
Theorem C31_consts :
  hint_re_type = re_type_source /\ hint_re_version = re_version_source /\
  hint_min_type_length = 2%Z /\ hint_max_type_length = 100%Z /\ hint_max_version_length = 20%Z /\
  version_min_length = 2%Z /\ compatibleset_new_ints = [0%Z; 1%Z] /\
  hint_cache_key_strings = ["h:"] /\ type_cache_key_strings = ["t:"].
Proof. exact consts. Qed.

(* the hand-coded matchers mean what the patterns say:
   ^[a-z0-9][a-z0-9\-_\+]*[a-z0-9]$ and the leftmost occurrence of -v<digit> *)
Theorem C31_type_regexp_matcher : forall s, re_type s = true <->
  exists f m e, s = String f (m ++ String e EmptyString) /\ type_edge f = true /\
                all_chars type_mid m = true /\ type_edge e = true.
Proof. exact re_type_spec. Qed.

Theorem C31_separator_matcher : forall s k, find_sep s = Some k <->
  exists n, k = n /\ sep_here (drop n s) = true /\ (n < String.length s)%nat /\
            forall j, (j < n)%nat -> sep_here (drop j s) = false.
Proof. intros s k. unfold find_sep. exact (find_sep_from_spec s 0 k). Qed.

(* Every hint made from a valid type and a valid version prints to a string that parses back to the same
   type and version.  The semver library is abstract: V with print/parse; what is assumed of it (for valid
   versions only): parse (print v) = v, the text starts with "v<digit>", and has no blank or NUL. *)
Theorem C31_roundtrip :
  forall (V : Type) (vprint : V -> string) (vparse : string -> V) (vsemver : V -> bool),
  (forall v, vsemver v = true -> vparse (vprint v) = v) ->
  (forall v, vsemver v = true -> exists d rest, vprint v = String "v" (String d rest) /\ is_digit d = true) ->
  (forall v, vsemver v = true -> all_chars plain (vprint v) = true) ->
  forall t v, type_ok t = true -> vsemver v = true ->
  parse_hint V vparse (hint_print V vprint (mkHint t v)) = Some (mkHint t v).
Proof. exact roundtrip. Qed.

(* Parsing never returns a hint that differs from the one that was printed. *)
Theorem C31_parse_never_other :
  forall (V : Type) (vprint : V -> string) (vparse : string -> V) (vsemver : V -> bool),
  (forall v, vsemver v = true -> vparse (vprint v) = v) ->
  (forall v, vsemver v = true -> exists d rest, vprint v = String "v" (String d rest) /\ is_digit d = true) ->
  (forall v, vsemver v = true -> all_chars plain (vprint v) = true) ->
  forall t v h', type_ok t = true -> vsemver v = true ->
  parse_hint V vparse (hint_print V vprint (mkHint t v)) = Some h' -> h' = mkHint t v.
Proof. exact parse_never_other. Qed.

(* ... so two valid (type, version) pairs never print to the same string *)
Theorem C31_print_injective :
  forall (V : Type) (vprint : V -> string) (vparse : string -> V) (vsemver : V -> bool),
  (forall v, vsemver v = true -> vparse (vprint v) = v) ->
  (forall v, vsemver v = true -> exists d rest, vprint v = String "v" (String d rest) /\ is_digit d = true) ->
  (forall v, vsemver v = true -> all_chars plain (vprint v) = true) ->
  forall t v t' v', type_ok t = true -> vsemver v = true -> type_ok t' = true -> vsemver v' = true ->
  hint_print V vprint (mkHint t v) = hint_print V vprint (mkHint t' v') -> t = t' /\ v = v'.
Proof. exact print_injective. Qed.

(* the same round trip through EnsureParseHint (Hint.UnmarshalText) *)
Theorem C31_ensure_roundtrip :
  forall (V : Type) (vprint : V -> string) (vparse : string -> V) (vsemver : V -> bool),
  (forall v, vsemver v = true -> vparse (vprint v) = v) ->
  (forall v, vsemver v = true -> exists d rest, vprint v = String "v" (String d rest) /\ is_digit d = true) ->
  forall t v, type_ok t = true -> vsemver v = true ->
  ensure_parse_hint V vparse (hint_print V vprint (mkHint t v)) = Some (mkHint t v).
Proof. exact ensure_roundtrip. Qed.

(* Version.Compare is a total order on (major, minor, patch, prerelease): "highest version" is well defined *)
Theorem C31_version_compare_total_order :
  (forall a b, ver_compare a b = Eq <-> a = b) /\
  (forall a b, ver_compare b a = CompOpp (ver_compare a b)) /\
  (forall a b c, ver_compare a b = Lt -> ver_compare b c = Lt -> ver_compare a c = Lt).
Proof.
  split; [exact (tc_eq _ total_ver_compare)|].
  split; [exact (tc_anti _ total_ver_compare)|exact (tc_trans _ total_ver_compare)].
Qed.

(* Decoder lookup by hint finds the registered entry with the same type and major version and the highest
   registered version.

   PLANNED statement (DESIGN section 6 C31, properties.jsonl): for EVERY history, unconditionally.
   That statement is FALSE of the faithful model and of the code: C31_find_is_highest_refuted below.
   What is proved is the restricted statement C31_find_is_highest_partial, whose hypothesis [disciplined]
   delimits the finding class: hints of the history with equal String() have equal (type, major), and a
   FindByString text that is the String() of a hint of the history parses to that (type, major).
   For valid hints this is a consequence of C31_roundtrip / C31_print_injective; it can only fail when an
   INVALID Hint object is handed to Add/Find (known finding class lookup-poisoned-by-invalid-hint-string).

   For every disciplined history of Add / Find / FindByString / FindBytType / FindBytTypeString on a new
   set (cache on or off), every Find and every FindByString whose text parses answers
     found = true  with the value of a registered entry of that (type, major) such that no registered entry
                   of that (type, major) has a higher version, or
     found = false when nothing is registered under that (type, major);
   FindByString answers an error exactly when the text does not parse; only valid hints get registered.
   (registered = the Adds that returned nil so far; [trace_ok], [lookup_ok], [is_highest] in ProofsSet.v.) *)
Theorem C31_find_is_highest_partial : forall parse size ops, disciplined parse ops ->
  trace_ok parse [] ops (snd (run parse (cs_new size) ops)).
Proof. exact find_is_highest. Qed.

(* the witness: Add(abc-v2.0.0, 7); Find(NewHint("abc-v2", v1.0.0)) -- an invalid hint whose String() is
   "abc-v2-v1.0.0" -- caches `false` under that text; FindByString("abc-v2-v1.0.0"), which parses to
   abc / v2.0.0-v1.0.0 (major 2, registered), then answers not found.  Reproduced on the real code. *)
Definition rf_reg := mkSHint "abc" (mkVer 2 0 0 "") "abc-v2.0.0" true.
Definition rf_bad := mkSHint "abc-v2" (mkVer 1 0 0 "") "abc-v2-v1.0.0" false.
Definition rf_parsed := mkSHint "abc" (mkVer 2 0 0 "v1.0.0") "abc-v2.0.0-v1.0.0" true.
Definition rf_parse (s : string) : option shint :=
  if String.eqb s "abc-v2-v1.0.0" then Some rf_parsed else None.
Definition rf_ops := [OAdd rf_reg 7; OFind rf_bad; OFindStr "abc-v2-v1.0.0"]%N.

Theorem C31_find_is_highest_refuted :
  exists parse size ops, ~ trace_ok parse [] ops (snd (run parse (cs_new size) ops)).
Proof.
  exists rf_parse, 10%Z, rf_ops. vm_compute.
  intros (_ & _ & (_ & _ & N) & _). specialize (N rf_reg 7%N (or_introl eq_refl)). apply N. reflexivity.
Qed.

(* ---------------------------------------------------------------- non-vacuity *)

(* a two-element "semver library" satisfying the three hypotheses, with a prerelease containing -v1 *)
Definition toy_print (b : bool) : string := if b then "v1.0.0" else "v2.0.0-v1".
Definition toy_parse (s : string) : bool := String.eqb s "v1.0.0".

Example C31_ex_hyps :
  (forall v, true = true -> toy_parse (toy_print v) = v) /\
  (forall v, true = true -> exists d rest, toy_print v = String "v" (String d rest) /\ is_digit d = true) /\
  (forall v, true = true -> all_chars plain (toy_print v) = true).
Proof.
  repeat split; intros [] _; try reflexivity.
  - exists "1"%char, ".0.0". split; reflexivity.
  - exists "2"%char, ".0.0-v1". split; reflexivity.
Qed.

Example C31_ex_roundtrip :
  type_ok "ab-v" = true /\
  parse_hint bool toy_parse (hint_print bool toy_print (mkHint "ab-v" false)) = Some (mkHint "ab-v" false) /\
  hint_print bool toy_print (mkHint "ab-v" false) = "ab-v-v2.0.0-v1".
Proof. vm_compute. repeat split. Qed.

(* the rule before the fix accepted "abc-v2", whose hints parse back as another type and version *)
Example C31_ex_old_rule_ambiguous :
  type_ok_old "abc-v2" = true /\ type_ok "abc-v2" = false /\
  parse_hint string (fun s => s) (hint_string "abc-v2" "v1.0.0") = Some (mkHint "abc" "v2-v1.0.0").
Proof. vm_compute. repeat split. Qed.

(* prerelease order: the pairs the code before the fix got wrong *)
Example C31_ex_compare :
  ver_compare (mkVer 1 0 0 "a") (mkVer 1 0 0 "b") = Lt /\ ver_compare (mkVer 1 0 0 "b") (mkVer 1 0 0 "a") = Gt /\
  ver_compare (mkVer 1 0 0 "1.12") (mkVer 1 0 0 "1.13") = Lt /\ ver_compare (mkVer 1 0 0 "") (mkVer 1 0 0 "rc.1") = Gt /\
  ver_compare (mkVer 1 0 0 "2") (mkVer 1 0 0 "13") = Lt /\ ver_compare (mkVer 1 0 0 "alpha") (mkVer 1 0 0 "alpha.1") = Lt.
Proof. vm_compute. repeat split. Qed.

(* a disciplined history: add a higher version, then a lower one, then look both up (the cache-poisoning witness) *)
Definition ex_hi := mkSHint "abc" (mkVer 1 5 0 "") "abc-v1.5.0" true.
Definition ex_lo := mkSHint "abc" (mkVer 1 2 0 "") "abc-v1.2.0" true.
Definition ex_parse (s : string) : option shint :=
  if String.eqb s "abc-v1.2.0" then Some ex_lo else if String.eqb s "abc-v1.5.0" then Some ex_hi else None.
Definition ex_ops := [OAdd ex_hi 1; OAdd ex_lo 2; OFind ex_lo; OFindStr "abc-v1.2.0"; OFindStr "abc"; OFindType "abc"; OFind ex_hi]%N.

Example C31_ex_history :
  snd (run ex_parse (cs_new 10) ex_ops) =
  [RAdd true; RAdd true; RFind true 1; RRes (false, "abc-v1.2.0", true, 1); RRes (true, "", false, 0);
   RRes (false, "abc-v1.5.0", true, 1); RFind true 1]%N.
Proof. vm_compute. reflexivity. Qed.

Example C31_ex_disciplined : disciplined ex_parse ex_ops.
Proof.
  split.
  - intros h1 h2 H1 H2 E. vm_compute in H1, H2.
    repeat (destruct H1 as [H1|H1]; [subst h1|]); try contradiction;
    repeat (destruct H2 as [H2|H2]; [subst h2|]); try contradiction; try reflexivity; discriminate E.
  - intros s h Hs Hh E. vm_compute in Hs, Hh.
    repeat (destruct Hs as [Hs|Hs]; [subst s|]); try contradiction;
    repeat (destruct Hh as [Hh|Hh]; [subst h|]); try contradiction; try discriminate E;
    eexists; split; reflexivity.
Qed.
