(* C31 -- Version.Compare (after the fix) is a total order: semver precedence on (major, minor, patch, prerelease) *)
From Coq Require Import List String Ascii Bool NArith Arith Lia.
From MV Require Import C31.Model C31.Order.
Import ListNotations.
Open Scope string_scope.

(* ---- one identifier *)

Definition ident_key (x : string) : N * (nat * string) :=
  (if is_num x then 0%N else 1%N, (if is_num x then String.length x else 0%nat, x)).

Definition ident_lex := lex_pair N.compare (lex_pair Nat.compare String.compare).

Lemma total_ident_lex : total_cmp ident_lex.
Proof. apply total_pair; [apply total_N|]. apply total_pair; [apply total_nat|apply total_string]. Qed.

Lemma string_compare_ne : forall x y, x <> y -> String.compare x y <> Eq.
Proof. intros x y H E. apply (tc_eq _ total_string) in E. contradiction. Qed.

Lemma cmp_ident_key : forall x y, cmp_ident x y = ident_lex (ident_key x) (ident_key y).
Proof.
  intros x y. unfold cmp_ident. destruct (String.eqb x y) eqn:E.
  - apply String.eqb_eq in E. subst. symmetry. apply (tc_refl _ total_ident_lex).
  - apply String.eqb_neq in E. pose proof (string_compare_ne x y E) as NE.
    unfold cmp_ident_ne, ident_lex, lex_pair, ident_key. cbn [fst snd].
    destruct (is_num x) eqn:Ix, (is_num y) eqn:Iy; cbn [negb Bool.eqb andb N.compare].
    + destruct (Nat.ltb (String.length x) (String.length y)) eqn:L1.
      * apply Nat.ltb_lt in L1. apply Nat.compare_lt_iff in L1. now rewrite L1.
      * destruct (Nat.ltb (String.length y) (String.length x)) eqn:L2.
        -- apply Nat.ltb_lt in L2. apply Nat.compare_gt_iff in L2. now rewrite L2.
        -- apply Nat.ltb_ge in L1. apply Nat.ltb_ge in L2.
           assert (String.length x = String.length y) as EL by lia.
           apply Nat.compare_eq_iff in EL. rewrite EL.
           destruct (String.compare x y) eqn:C; [exfalso; apply NE; first [reflexivity|assumption]|reflexivity|reflexivity].
    + reflexivity.
    + reflexivity.
    + rewrite Nat.compare_refl. destruct (String.compare x y) eqn:C; [exfalso; apply NE; first [reflexivity|assumption]|reflexivity|reflexivity].
Qed.

Lemma total_cmp_ident : total_cmp cmp_ident.
Proof.
  eapply total_ext; [apply cmp_ident_key|].
  apply (total_map _ _ ident_key ident_lex); [|apply total_ident_lex].
  unfold ident_key. intros x y H. now inversion H.
Qed.

(* ---- the list of identifiers *)

Lemma cmp_idents_lex : forall la lb, la <> lb -> cmp_idents la lb = lex_list cmp_ident la lb.
Proof.
  induction la as [|x la IH]; destruct lb as [|y lb]; intros NE; simpl; try reflexivity; [congruence|].
  destruct (String.eqb x y) eqn:E.
  - apply String.eqb_eq in E. subst y. rewrite (tc_refl _ total_cmp_ident). apply IH. congruence.
  - unfold cmp_ident at 1. rewrite E.
    assert (cmp_ident x y <> Eq) as N1.
    { intro H. apply (tc_eq _ total_cmp_ident) in H. subst. rewrite String.eqb_refl in E. discriminate. }
    unfold cmp_ident in N1. rewrite E in N1. destruct (cmp_ident_ne x y) eqn:C; [exfalso; apply N1; first [reflexivity|assumption]|reflexivity|reflexivity].
Qed.

(* ---- split_dot is injective *)

Fixpoint join_dot (l : list string) : string :=
  match l with
  | [] => EmptyString
  | x :: r => match r with [] => x | _ => x ++ "." ++ join_dot r end
  end.

Lemma split_dot_ne : forall s, split_dot s <> [].
Proof. destruct s as [|c r]; simpl; [discriminate|]. destruct (Ascii.eqb c "."); [discriminate|]. destruct (split_dot r); discriminate. Qed.

Lemma join_split : forall s, join_dot (split_dot s) = s.
Proof.
  induction s as [|c r IH]; [reflexivity|]. cbn [split_dot].
  destruct (Ascii.eqb c ".") eqn:E.
  - apply Ascii.eqb_eq in E. subst c.
    destruct (split_dot r) as [|x l] eqn:S; [exfalso; eapply split_dot_ne; eauto|].
    change (join_dot (EmptyString :: x :: l)) with (EmptyString ++ "." ++ join_dot (x :: l)).
    rewrite IH. reflexivity.
  - destruct (split_dot r) as [|x l] eqn:S; [exfalso; eapply split_dot_ne; eauto|].
    destruct l as [|y l'].
    + change (join_dot [String c x]) with (String c x). change (join_dot [x]) with x in IH. now rewrite IH.
    + change (join_dot (String c x :: y :: l')) with (String c (x ++ "." ++ join_dot (y :: l'))).
      change (join_dot (x :: y :: l')) with (x ++ "." ++ join_dot (y :: l')) in IH. now rewrite IH.
Qed.

Lemma split_dot_inj : forall a b, split_dot a = split_dot b -> a = b.
Proof. intros a b H. rewrite <- (join_split a), <- (join_split b). now rewrite H. Qed.

(* ---- prerelease *)

Definition pre_key (p : string) : N * list string :=
  if String.eqb p "" then (1%N, []) else (0%N, split_dot p).

Definition pre_lex := lex_pair N.compare (lex_list cmp_ident).

Lemma total_pre_lex : total_cmp pre_lex.
Proof. apply total_pair; [apply total_N|]. apply total_list. apply total_cmp_ident. Qed.

Lemma pre_key_inj : forall a b, pre_key a = pre_key b -> a = b.
Proof.
  unfold pre_key. intros a b.
  destruct (String.eqb a "") eqn:Ea, (String.eqb b "") eqn:Eb; intros H; try (inversion H; fail).
  - apply String.eqb_eq in Ea, Eb. congruence.
  - inversion H. now apply split_dot_inj.
Qed.

Lemma cmp_pre_key : forall a b, cmp_pre a b = pre_lex (pre_key a) (pre_key b).
Proof.
  intros a b. unfold cmp_pre. destruct (String.eqb a b) eqn:E.
  - apply String.eqb_eq in E. subst. symmetry. apply (tc_refl _ total_pre_lex).
  - apply String.eqb_neq in E. unfold pre_lex, lex_pair, pre_key.
    destruct (String.eqb a "") eqn:Ea, (String.eqb b "") eqn:Eb; cbn [fst snd N.compare]; try reflexivity.
    + apply String.eqb_eq in Ea, Eb. congruence.
    + apply cmp_idents_lex. intro H. apply split_dot_inj in H. contradiction.
Qed.

Lemma total_cmp_pre : total_cmp cmp_pre.
Proof.
  eapply total_ext; [apply cmp_pre_key|].
  apply (total_map _ _ pre_key pre_lex); [apply pre_key_inj|apply total_pre_lex].
Qed.

(* ---- the whole version *)

Definition ver_key (v : ver) : N * (N * (N * string)) := (vmaj v, (vmin v, (vpat v, vpre v))).
Definition ver_lex := lex_pair N.compare (lex_pair N.compare (lex_pair N.compare cmp_pre)).

Lemma ver_compare_key : forall a b, ver_compare a b = ver_lex (ver_key a) (ver_key b).
Proof. intros [a1 a2 a3 a4] [b1 b2 b3 b4]. reflexivity. Qed.

Theorem total_ver_compare : total_cmp ver_compare.
Proof.
  eapply total_ext; [apply ver_compare_key|].
  apply (total_map _ _ ver_key ver_lex).
  - intros [a1 a2 a3 a4] [b1 b2 b3 b4] H. unfold ver_key in H. simpl in H. now inversion H.
  - repeat (apply total_pair; [apply total_N|]). apply total_cmp_pre.
Qed.

(* what the set proofs use *)
Lemma ver_le_trans : forall a b c, ver_compare a b <> Gt -> ver_compare b c <> Gt -> ver_compare a c <> Gt.
Proof. apply (tc_le_trans _ total_ver_compare). Qed.

Lemma ver_gt_lt : forall a b, ver_compare a b = Gt <-> ver_compare b a = Lt.
Proof. apply (tc_gt_lt _ total_ver_compare). Qed.

Lemma ver_major : forall a b, ver_compare a b = Eq -> vmaj a = vmaj b.
Proof. intros a b H. apply (tc_eq _ total_ver_compare) in H. now subst. Qed.
