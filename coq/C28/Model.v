(* C28 -- Signed objects detect any change to signed content.
   Model of fact hashing / validation over the codec tables regenerated from the Go source (MV.Gen.Codecs):
     <Fact>.generateHash / hash()     : H (ConcatByters of the listed fields)        (d_hash)
     <Fact>.IsValid                   : Hash().Equal(generateHash())  iff d_recompute
     base.BaseSign.Verify             : signer.Verify(networkID ++ bytes ++ signedAt, signature)
     base.BaseNodeSign.Verify         : BaseSign.Verify(networkID, node ++ bytes)
   Values are opaque byte strings.  No proofs in this file. *)
From Coq Require Import String List Bool NArith Ascii.
From MV Require Import Common.Cases Gen.Codecs C27.Model.
Import ListNotations.
Open Scope string_scope.

Definition hash_field := "h".     (* base.BaseFact.h, isaac.Manifest.h, base.BaseState.h *)

(* signed/hashed content of a hashed type: every marshaled field but the stored hash and the hint *)
Definition content_fields (d : desc) : list string :=
  filter (fun f => negb (String.eqb f hash_field || String.eqb f hint_field)) (fields d).

Definition uncovered (d : desc) : list string :=
  filter (fun f => negb (mem f (d_hash d))) (content_fields d).

Definition covers (d : desc) : bool :=
  d_recompute d && nodupb (d_hash d) && negb (mem hash_field (d_hash d)) &&
  match uncovered d with [] => true | _ => false end.

Definition hint_hashed (d : desc) : bool := mem hint_field (d_hash d).

Definition bytes_eqb (a b : list N) : bool := list_eqb N.eqb a b.

Section Hash.
  Variable H : list N -> list N.
  Definition digest (d : desc) (x : store) : list N := H (hash_input d x).
  (* the hash part of IsValid *)
  Definition valid (d : desc) (x : store) : bool :=
    if d_recompute d then bytes_eqb (get hash_field x) (digest d x) else true.
End Hash.

(* single-field mutation of an object *)
Definition set (f : string) (v : value) (x : store) : store := (f, v) :: x.

Definition fact_descs : list desc := filter d_isfact descs.

Definition same_shape (d1 d2 : desc) : bool := list_eqb String.eqb (d_hashtypes d1) (d_hashtypes d2).

(* pairs of fact kinds whose hash inputs have the same shape (same Go types in the same order) and whose
   hash does not include the hint: the known-finding class kind-swap-same-hash-inputs *)
Definition shared_groups : list (list string) :=
  [ ["init-ballot-fact-v0.0.1"; "suffrage-confirm-ballot-fact-v0.0.1"];
    ["accept-ballot-fact-v0.0.1"; "empty-operations-accept-ballot-fact-v0.0.1"; "not-processed-accept-ballot-fact-v0.0.1"];
    ["genesis-network-policy-fact-v0.0.1"; "network-policy-fact-v0.0.1"];
    ["suffrage-disjoin-fact-v0.0.1"; "suffrage-join-fact-v0.0.1"] ].

Definition shares (h1 h2 : string) : bool :=
  existsb (fun g => mem h1 g && mem h2 g) shared_groups.

(* INIT-stage and ACCEPT-stage ballot facts have hash inputs of the same Go types, but the first input is the
   stage point and base.IsValidINITBallotFact / IsValidACCEPTBallotFact pin its stage: a hashed, validated
   discriminator.  (Hand-written from base/ballot_isvalid.go; the harness confirms on every run that an
   INIT fact re-labelled as an ACCEPT fact, keys renamed, is rejected.) *)
Definition init_family : list string :=
  ["init-ballot-fact-v0.0.1"; "suffrage-confirm-ballot-fact-v0.0.1"; "empty-proposal-init-ballot-fact-v0.0.1"].
Definition accept_family : list string :=
  ["accept-ballot-fact-v0.0.1"; "empty-operations-accept-ballot-fact-v0.0.1"; "not-processed-accept-ballot-fact-v0.0.1"].
Definition stage_separated (h1 h2 : string) : bool :=
  (mem h1 init_family && mem h2 accept_family) || (mem h1 accept_family && mem h2 init_family).

Definition pair_ok (d1 d2 : desc) : bool :=
  String.eqb (d_hint d1) (d_hint d2) || negb (same_shape d1 d2) || shares (d_hint d1) (d_hint d2)
  || stage_separated (d_hint d1) (d_hint d2).

(* messages handed to the signature scheme *)
Definition sign_msg (nid m t : list N) : list N := nid ++ m ++ t.
Definition node_sign_msg (nid node m t : list N) : list N := sign_msg nid (node ++ m) t.

(* ------------------------------------------------------------------ correspondence with the real IsValid *)

Definition key_field (d : desc) (k : string) : string := marshal_field_of (d_marshal d) k.

(* one case:  (0, fact hint, top-level key of the fact that was mutated, detected?)
              (1, fact hint, new hint, detected?)   -- "_hint" swap *)
Definition case := (nat * string * string * bool)%type.

Definition check (c : case) : bool :=
  let '(kind, h, k, detected) := c in
  match find_desc h descs with
  | None => false
  | Some d =>
      match kind with
      | O =>
          (* a field the table says is covered (hashed, and IsValid recomputes) must be detected; so must the
             stored hash itself *)
          let f := key_field d k in
          if d_recompute d && (mem f (d_hash d) || String.eqb f hash_field) then detected else true
      | _ =>
          (* an undetected hint swap is only possible between kinds of the same shape *)
          match find_desc k descs with
          | None => detected
          | Some d' => if detected then true else same_shape d d' && negb (hint_hashed d)
          end
      end
  end.

(* ------------------------------------------------------------------ block map (isaac/block/map.go)
   BlockMap.signedBytes = manifest hash ++ concat (sorted checksums of the items): the item *types* are not
   among the signed bytes.  items : (item type, checksum). *)
Definition bm_checksums (items : list (string * list N)) : list (list N) := map snd items.
Definition retype (f : string -> string) (items : list (string * list N)) : list (string * list N) :=
  map (fun it => (f (fst it), snd it)) items.
