(* C28 -- lemmas. *)
From Coq Require Import String List Bool NArith Ascii Lia.
From MV Require Import Common.Cases Gen.Codecs C27.Model C27.Proofs C28.Model.
Import ListNotations.
Open Scope string_scope.
Open Scope list_scope.

Lemma list_eqb_N_eq : forall a b, bytes_eqb a b = true -> a = b.
Proof.
  induction a as [|x a IH]; destruct b as [|y b]; cbn; intro H; try discriminate; [reflexivity|].
  apply andb_true_iff in H. destruct H as [H1 H2]. apply N.eqb_eq in H1. subst. f_equal. now apply IH.
Qed.

Lemma list_eqb_N_refl : forall a, bytes_eqb a a = true.
Proof. induction a as [|x a IH]; cbn; [reflexivity|]. now rewrite N.eqb_refl. Qed.

Lemma get_set_same : forall f v x, get f (set f v x) = v.
Proof. intros. cbn. now rewrite String.eqb_refl. Qed.

Lemma get_set_other : forall f g v x, g <> f -> get g (set f v x) = get g x.
Proof. intros f g v x Hne. cbn. destruct (String.eqb g f) eqn:E; [apply String.eqb_eq in E; contradiction|reflexivity]. Qed.

(* a change of exactly one segment changes the concatenation *)
Lemma concat_one_changed : forall (l : list string) (gx gy : string -> list N) f,
  NoDup l -> In f l -> gx f <> gy f -> (forall g, g <> f -> gx g = gy g) ->
  concat (map gx l) <> concat (map gy l).
Proof.
  induction l as [|a l IH]; intros gx gy f Hnd Hin Hne Hsame; [contradiction|].
  inversion Hnd as [|? ? Hnotin Hnd']; subst. cbn.
  destruct Hin as [->|Hin].
  - assert (Hrest : map gx l = map gy l).
    { apply map_ext_in. intros g Hg. apply Hsame. intro Heq. subst. contradiction. }
    rewrite Hrest. intro Heq. apply app_inv_tail in Heq. contradiction.
  - assert (Ha : a <> f) by (intro Heq; subst; contradiction).
    rewrite (Hsame a Ha). intro Heq. apply app_inv_head in Heq. revert Heq. now apply (IH gx gy f).
Qed.

Lemma hash_input_one_changed : forall d x f v,
  NoDup (d_hash d) -> In f (d_hash d) -> v <> get f x ->
  hash_input d (set f v x) <> hash_input d x.
Proof.
  intros d x f v Hnd Hin Hne. unfold hash_input.
  apply (concat_one_changed (d_hash d) (fun g => get g (set f v x)) (fun g => get g x) f); auto.
  - rewrite get_set_same. exact Hne.
  - intros g Hg. now apply get_set_other.
Qed.

Lemma hash_input_untouched : forall d x f v, ~ In f (d_hash d) -> hash_input d (set f v x) = hash_input d x.
Proof.
  intros d x f v Hnotin. apply hash_input_ext. intros g Hg. apply get_set_other. intro Heq. subst. contradiction.
Qed.

(* undetected mutation of a hashed field => explicit collision of H *)
Theorem field_covered : forall (H : list N -> list N) d x f v,
  d_recompute d = true -> NoDup (d_hash d) -> In f (d_hash d) -> f <> hash_field ->
  valid H d x = true -> v <> get f x -> valid H d (set f v x) = true ->
  exists a b, a <> b /\ H a = H b.
Proof.
  intros H d x f v Hr Hnd Hin Hnh Hv Hne Hv'.
  unfold valid in *. rewrite Hr in *. apply list_eqb_N_eq in Hv. apply list_eqb_N_eq in Hv'.
  rewrite get_set_other in Hv' by (intro E; apply Hnh; now symmetry).
  exists (hash_input d (set f v x)), (hash_input d x). split.
  - now apply hash_input_one_changed.
  - unfold digest in *. congruence.
Qed.

(* mutation of the stored hash is always detected *)
Theorem stored_hash_mutation_detected : forall (H : list N -> list N) d x v,
  d_recompute d = true -> ~ In hash_field (d_hash d) ->
  valid H d x = true -> v <> get hash_field x -> valid H d (set hash_field v x) = false.
Proof.
  intros H d x v Hr Hnotin Hv Hne. unfold valid in *. rewrite Hr in *. apply list_eqb_N_eq in Hv.
  rewrite get_set_same. unfold digest. rewrite hash_input_untouched by exact Hnotin.
  destruct (bytes_eqb v (H (hash_input d x))) eqn:E; [|reflexivity].
  apply list_eqb_N_eq in E. unfold digest in Hv. congruence.
Qed.

(* mutation of a field that is not a hash input is never detected by the hash comparison *)
Theorem unhashed_field_undetected : forall (H : list N -> list N) d x f v,
  ~ In f (d_hash d) -> f <> hash_field -> valid H d x = true -> valid H d (set f v x) = true.
Proof.
  intros H d x f v Hnotin Hnh Hv. unfold valid in *. destruct (d_recompute d); [|reflexivity].
  rewrite get_set_other by (intro E; apply Hnh; now symmetry).
  unfold digest. now rewrite hash_input_untouched.
Qed.

(* raw concatenation is injective when corresponding segments have equal lengths *)
Theorem concat_unambiguous : forall (xs ys : list (list N)),
  Forall2 (fun a b => length a = length b) xs ys -> concat xs = concat ys -> xs = ys.
Proof.
  induction 1 as [|a b xs ys Hlen _ IH]; intro Heq; [reflexivity|].
  cbn in Heq.
  assert (Hab : a = b /\ concat xs = concat ys).
  { revert b Hlen Heq. induction a as [|x a IHa]; intros [|y b] Hlen Heq; cbn in *; try discriminate.
    - split; [reflexivity|exact Heq].
    - inversion Heq; subst. destruct (IHa b) as [-> Hc]; auto. }
  destruct Hab as [-> Hc]. f_equal. now apply IH.
Qed.

Theorem sign_msg_network_id : forall nid nid' m t, nid <> nid' -> sign_msg nid m t <> sign_msg nid' m t.
Proof. intros nid nid' m t Hne Heq. unfold sign_msg in Heq. apply app_inv_tail in Heq. contradiction. Qed.

Theorem sign_msg_time : forall nid m t t', t <> t' -> sign_msg nid m t <> sign_msg nid m t'.
Proof. intros nid m t t' Hne Heq. unfold sign_msg in Heq. apply app_inv_head in Heq. apply app_inv_head in Heq. contradiction. Qed.

Theorem sign_msg_body : forall nid m m' t, m <> m' -> sign_msg nid m t <> sign_msg nid m' t.
Proof. intros nid m m' t Hne Heq. unfold sign_msg in Heq. apply app_inv_head in Heq. apply app_inv_tail in Heq. contradiction. Qed.

Theorem node_sign_msg_node : forall nid node node' m t, node <> node' -> node_sign_msg nid node m t <> node_sign_msg nid node' m t.
Proof.
  intros nid node node' m t Hne. unfold node_sign_msg. apply sign_msg_body.
  intro Heq. apply app_inv_tail in Heq. contradiction.
Qed.

(* instances *)
Definition expel_hint := "suffrage-expel-fact-v0.0.1".

Lemma facts_cover : forallb (fun d => String.eqb (d_hint d) expel_hint || covers d) fact_descs = true.
Proof. vm_compute. reflexivity. Qed.

Lemma no_fact_hashes_hint : forallb (fun d => negb (hint_hashed d)) fact_descs = true.
Proof. vm_compute. reflexivity. Qed.

Lemma pairs_ok : forallb (fun d1 => forallb (pair_ok d1) fact_descs) fact_descs = true.
Proof. vm_compute. reflexivity. Qed.
