(* C28 -- Signed objects detect any change to signed content.  Property theorems only.
   Tables: MV.Gen.Codecs.codecs, regenerated from the Go source on every run (hash inputs of every fact,
   whether IsValid recomputes the hash); removing a field from a hash function, or the comparison from an
   IsValid, breaks C28_facts_covered. *)
From Coq Require Import String List Bool NArith.
From MV Require Import Gen.Codecs C27.Model C27.Proofs C28.Model C28.Proofs.
Import ListNotations.
Open Scope string_scope.

(* For every hash function H, table d, object x, hashed field f: a single-field mutation that IsValid's hash
   comparison does not notice yields an explicit collision of H (reduction form: no injectivity assumed). *)
Theorem C28_field_covered : forall (H : list N -> list N) d x f v,
  d_recompute d = true -> NoDup (d_hash d) -> In f (d_hash d) -> f <> hash_field ->
  valid H d x = true -> v <> get f x -> valid H d (set f v x) = true ->
  exists a b, a <> b /\ H a = H b.
Proof. exact field_covered. Qed.

(* changing the stored hash itself is always noticed *)
Theorem C28_stored_hash_covered : forall (H : list N -> list N) d x v,
  d_recompute d = true -> ~ In hash_field (d_hash d) ->
  valid H d x = true -> v <> get hash_field x -> valid H d (set hash_field v x) = false.
Proof. exact stored_hash_mutation_detected. Qed.

(* Instance: every registered fact kind except the expel fact recomputes its hash in IsValid over all of its
   content fields (every marshaled field but the stored hash and the hint). *)
Theorem C28_facts_covered : forall d, In d fact_descs -> d_hint d <> expel_hint -> covers d = true.
Proof.
  intros d Hin Hne. pose proof facts_cover as Hall. rewrite forallb_forall in Hall. specialize (Hall d Hin).
  apply orb_true_iff in Hall. destruct Hall as [E|E]; [apply String.eqb_eq in E; contradiction|exact E].
Qed.

(* the manifest (signed through the block map) too, since the fix recorded in known_findings.jsonl *)
Theorem C28_manifest_covered : exists d, find_desc "manifest-v0.0.1" descs = Some d /\ covers d = true.
Proof. eexists. split; vm_compute; reflexivity. Qed.

(* Known finding (class expel-reason-not-hashed): SuffrageExpelFact.hash() omits the reason; for every H and
   every object, changing the reason is never noticed by the hash comparison. *)
Theorem C28_expel_reason_refuted : exists d, find_desc expel_hint descs = Some d /\
  uncovered d = ["reason"] /\
  forall (H : list N -> list N) x v, valid H d x = true -> valid H d (set "reason" v x) = true.
Proof.
  eexists. split; [vm_compute; reflexivity|]. split; [vm_compute; reflexivity|].
  intros H x v Hv. apply unhashed_field_undetected; [|discriminate|exact Hv].
  vm_compute. intuition discriminate.
Qed.

(* Kind separation.  No registered fact feeds its hint to the hash ... *)
Theorem C28_no_fact_hashes_its_hint : forall d, In d fact_descs -> hint_hashed d = false.
Proof.
  intros d Hin. pose proof no_fact_hashes_hint as Hall. rewrite forallb_forall in Hall.
  specialize (Hall d Hin). now apply negb_true_iff in Hall.
Qed.

(* ... so kinds computing the hash with the same function over the same fields always share hashes:
   known-finding class kind-swap-same-hash-inputs (INIT / suffrage-confirm shown; same for the others of
   shared_groups) *)
Theorem C28_kind_separation_refuted : exists d1 d2, In d1 fact_descs /\ In d2 fact_descs /\
  d_hint d1 <> d_hint d2 /\ forall (H : list N -> list N) x, digest H d1 x = digest H d2 x.
Proof.
  destruct (find_desc "init-ballot-fact-v0.0.1" descs) as [d1|] eqn:E1; [|vm_compute in E1; discriminate].
  destruct (find_desc "suffrage-confirm-ballot-fact-v0.0.1" descs) as [d2|] eqn:E2; [|vm_compute in E2; discriminate].
  vm_compute in E1. vm_compute in E2. inversion E1 as [H1]. inversion E2 as [H2].
  exists d1, d2. rewrite <- H1, <- H2.
  split; [vm_compute; intuition|]. split; [vm_compute; intuition|]. split; [discriminate|reflexivity].
Qed.

(* The class is delimited: two different registered fact kinds whose hash inputs have the same shape are in
   one of the listed groups, or are an INIT-stage / ACCEPT-stage pair (separated by the hashed, validated
   stage of their point). *)
Theorem C28_kind_separation_partial : forall d1 d2, In d1 fact_descs -> In d2 fact_descs ->
  d_hint d1 <> d_hint d2 -> same_shape d1 d2 = true ->
  shares (d_hint d1) (d_hint d2) = true \/ stage_separated (d_hint d1) (d_hint d2) = true.
Proof.
  intros d1 d2 H1 H2 Hne Hs. pose proof pairs_ok as Hall. rewrite forallb_forall in Hall.
  specialize (Hall d1 H1). rewrite forallb_forall in Hall. specialize (Hall d2 H2).
  unfold pair_ok in Hall. rewrite Hs in Hall. cbn in Hall.
  destruct (String.eqb (d_hint d1) (d_hint d2)) eqn:E; [apply String.eqb_eq in E; contradiction|].
  cbn in Hall. apply orb_true_iff in Hall. exact Hall.
Qed.

(* Raw concatenation (util.ConcatByters has no framing) is unambiguous when corresponding segments have the
   same lengths (fixed-length hashes, heights, ...) *)
Theorem C28_concat_unambiguous : forall (xs ys : list (list N)),
  Forall2 (fun a b => length a = length b) xs ys -> concat xs = concat ys -> xs = ys.
Proof. exact concat_unambiguous. Qed.

(* ... and ambiguous otherwise: adjacent variable-length inputs (token then expel facts, network id then
   node address) can trade bytes *)
Theorem C28_concat_ambiguous_refuted : exists xs ys : list (list N),
  length xs = length ys /\ xs <> ys /\ concat xs = concat ys.
Proof. exists [[1%N; 2%N]; [3%N]], [[1%N]; [2%N; 3%N]]. split; [reflexivity|]. split; [discriminate|reflexivity]. Qed.

(* The signed message network id ++ content ++ signed-at: changing exactly one of the parts changes the
   message, so a signature accepted after such a change is a forgery for a different message. *)
Theorem C28_network_id : forall nid nid' m t, nid <> nid' -> sign_msg nid m t <> sign_msg nid' m t.
Proof. exact sign_msg_network_id. Qed.

Theorem C28_signed_at : forall nid m t t', t <> t' -> sign_msg nid m t <> sign_msg nid m t'.
Proof. exact sign_msg_time. Qed.

Theorem C28_signed_content : forall nid m m' t, m <> m' -> sign_msg nid m t <> sign_msg nid m' t.
Proof. exact sign_msg_body. Qed.

Theorem C28_sign_node : forall nid node node' m t, node <> node' ->
  node_sign_msg nid node m t <> node_sign_msg nid node' m t.
Proof. exact node_sign_msg_node. Qed.

(* non-vacuity: a valid object exists for a covering table, and a mutation of it is rejected when H is
   (here) the identity *)
Example C28_example : exists d, find_desc "init-ballot-fact-v0.0.1" descs = Some d /\ covers d = true /\
  valid (fun b => b) d [("h", [5%N; 6%N]); ("point", [5%N]); ("proposal", [6%N])] = true /\
  valid (fun b => b) d (set "proposal" [7%N] [("h", [5%N; 6%N]); ("point", [5%N]); ("proposal", [6%N])]) = false.
Proof. eexists. split; [vm_compute; reflexivity|]. repeat split; vm_compute; reflexivity. Qed.

(* Known finding (class blockmap-item-type-not-signed): the bytes a block map signs are a function of the
   manifest hash and of the multiset of item checksums only; re-labelling the type of any item leaves them
   unchanged (for every sorting function `srt` applied to the checksums). *)
Theorem C28_blockmap_item_type_refuted :
  (forall (srt : list (list N) -> list (list N)) mh f items,
     mh ++ concat (srt (bm_checksums (retype f items))) = mh ++ concat (srt (bm_checksums items)))%list /\
  exists f items, retype f items <> items.
Proof.
  split.
  - intros srt mh f items. unfold bm_checksums, retype. rewrite map_map. reflexivity.
  - exists (fun _ => "map"), [("operations", [1%N])]. discriminate.
Qed.
